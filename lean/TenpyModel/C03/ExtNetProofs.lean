import TenpyModel.C03.ExtNet
import TenpyModel.C03.DeriveProofs
import TenpyModel.C03.StepProofs
/-!
C03 extension — helper lemmas for the network level (`ExtNet.lean`):

* heap frames: what the tensor-level calls used by the containers (`astype(copy=True)`, `copy()`, `scale_axis`,
  `replace_label`, `itranspose`) do to tensors that existed before;
* the refined in-place footprint: the total charge array is never written in place, so sharing it is harmless;
* `obsMps` / `obsMpo` depend only on the cells reachable from the object.
-/
namespace TenpyModel.C03

/-! ### heap frames -/

/-- every tensor that is closed in `h` has the same observation in `h'`, is still closed and consists of the same
cells; nothing is freed -/
structure HFrame (h h' : Heap) : Prop where
  obs  : ∀ r, closed h r = true → observe h' r = observe h r ∧ closed h' r = true
           ∧ mutLists h' r = mutLists h r ∧ mutBufs h' r = mutBufs h r
  grow : Grows h h'

theorem HFrame.arrs {h h' : Heap} (x : HFrame h h') : h.arrs.length ≤ h'.arrs.length := x.grow.arrs

theorem HFrame.refl (h : Heap) : HFrame h h := ⟨fun _ hc => ⟨rfl, hc, rfl, rfl⟩, Grows.refl h⟩
theorem HFrame.trans {a b c : Heap} (x : HFrame a b) (y : HFrame b c) : HFrame a c :=
  ⟨fun r hc =>
    have h1 := x.obs r hc
    have h2 := y.obs r h1.2.1
    ⟨h2.1.trans h1.1, h2.2.1, h2.2.2.1.trans h1.2.2.1, h2.2.2.2.trans h1.2.2.2⟩,
   x.grow.trans y.grow⟩

theorem keeps_frame {h h' : Heap} {r : Ref}
    (k : observe h' r = observe h r ∧ closed h' r = true ∧ Agree h h' r) :
    observe h' r = observe h r ∧ closed h' r = true ∧ mutLists h' r = mutLists h r ∧ mutBufs h' r = mutBufs h r :=
  ⟨k.1, k.2.1, (mut_congr r k.2.2).1, (mut_congr r k.2.2).2⟩

theorem hframe_pure (h : Heap) (op : Op) (hw : (plan h op).wr = {}) : HFrame h (step h op) :=
  ⟨fun r hc => keeps_frame (pure_keeps h op hw r hc), step_grows h op⟩

theorem hframe_derive (h : Heap) (d : Derive) : HFrame h (step h (.derive d)) := hframe_pure h _ (planDerive_wr h d)

theorem closed_lt {h : Heap} {r : Ref} (hc : closed h r = true) : r < h.arrs.length := (closed_bounds hc).1

/-- an in-place method that only rebinds attributes leaves every other closed tensor alone -/
theorem hframe_rebind (h : Heap) (t : Ref) (u : Update) (hr : u.rebindOnly = true) :
    (∀ r, closed h r = true → r ≠ t → observe (step h (.inplace t u)) r = observe h r ∧ closed (step h (.inplace t u)) r = true
        ∧ mutLists (step h (.inplace t u)) r = mutLists h r ∧ mutBufs (step h (.inplace t u)) r = mutBufs h r)
      ∧ Grows h (step h (.inplace t u)) :=
  ⟨fun r hc hne => keeps_frame (rebind_keeps h t u hr r hne hc), step_grows h _⟩

/-! ### the calls used by the containers, unfolded -/

theorem emit_h (s : St) (op : Op) : (s.emit op).1.h = step s.h op := rfl
theorem emit_ref (s : St) (op : Op) : (s.emit op).2 = (stepRes s.h op).getD 0 0 := rfl

/-- the new tensor of a derivation is the next free address -/
theorem planDerive_res (h : Heap) (d : Derive) : (planDerive h d).res = [h.arrs.length] := by
  simp only [planDerive]
  generalize hb0 : ({ h := h } : Bld) = b0
  have hb0h : b0.h = h := by rw [← hb0]
  have hb0a : b0.al.arrs = [] := by rw [← hb0]
  have leL : BLe b0 (allocLegs h d.srcs b0 d.legs).1 := by
    cases d.legs <;> simp only [allocLegs]
    · exact BLe.refl _
    · exact list_le _ _
    · exact list_le _ _
  have le1 := allocBuf_le h d.srcs (·.qtotal) (allocLegs h d.srcs b0 d.legs).1 d.qtotal
  have le2 := allocBuf_le h d.srcs (·.labels) (allocBuf h d.srcs (·.qtotal) (allocLegs h d.srcs b0 d.legs).1 d.qtotal).1 d.labels
  have le3 := allocBuf_le h d.srcs (·.qdata)
    (allocBuf h d.srcs (·.labels) (allocBuf h d.srcs (·.qtotal) (allocLegs h d.srcs b0 d.legs).1 d.qtotal).1 d.labels).1 d.qdata
  generalize hb4 : (allocBuf h d.srcs (·.qdata)
    (allocBuf h d.srcs (·.labels) (allocBuf h d.srcs (·.qtotal) (allocLegs h d.srcs b0 d.legs).1 d.qtotal).1 d.labels).1 d.qdata).1 = b4 at *
  have le04 : BLe b0 b4 := (leL.trans le1).trans (le2.trans le3)
  have leD : BLe b4 (allocData h d.srcs b4 d.data).1 := by
    cases d.data <;> simp only [allocData]
    · exact BLe.refl _
    · exact (allocBlks_le _ _ _ _).trans (list_le _ _)
  have le05 := le04.trans leD
  simp only [Bld.arr, le05.h, hb0h, le05.arrs, hb0a, List.length_nil, Nat.add_zero]

theorem derive_res (h : Heap) (d : Derive) : (stepRes h (.derive d)).getD 0 0 = h.arrs.length := by
  simp [stepRes, plan, planDerive_res]
theorem derive_res' (h : Heap) (d : Derive) : (stepRes h (.derive d))[0]?.getD 0 = h.arrs.length := by
  simp [stepRes, plan, planDerive_res]

/-- `astype(dtype, copy=True)` -/
def astypeD (h : Heap) (b dtype : Nat) : Derive :=
  { srcs := [b], qtotal := .shared 0, data := .newList (copies 0 (nblk h b)), dtype := some dtype }

theorem callH_astype (cy : Bool) (h : Heap) (b dtype : Nat) :
    callH cy h .astype { a := [b], n := [dtype], b := [true] } = (step h (.derive (astypeD h b dtype)), h.arrs.length) := by
  simp only [callH, callSt, Args.A, Args.B, Args.N, List.getD_cons_zero, Bool.true_or, ite_true, emit_h, emit_ref, derive_res, derive_res',
    astypeD, List.getD_eq_getElem?_getD, List.getElem?_cons_zero, Option.getD_some]

/-- `copy(deep=True)` -/
def copyD (h : Heap) (b : Nat) : Derive := { srcs := [b], data := .newList (copies 0 (nblk h b)) }

theorem callH_copy (cy : Bool) (h : Heap) (b : Nat) :
    callH cy h .copy { a := [b], b := [true] } = (step h (.derive (copyD h b)), h.arrs.length) := by
  simp only [callH, callSt, Args.A, Args.B, List.getD_cons_zero, ite_true, emit_h, emit_ref, derive_res, derive_res', copyD,
    List.getD_eq_getElem?_getD, List.getElem?_cons_zero, Option.getD_some]

/-- `scale_axis` -/
def scaleD (h : Heap) (b dtype : Nat) : Derive :=
  { srcs := [b], qtotal := .shared 0, data := .newList (freshBlks (tokOf h) (nblk h b)), dtype := some dtype }

theorem callH_scale (cy : Bool) (h : Heap) (b dtype : Nat) :
    callH cy h .scale_axis { a := [b], n := [dtype] } = (step h (.derive (scaleD h b dtype)), h.arrs.length) := by
  simp only [callH, callSt, Args.A, Args.N, List.getD_cons_zero, emit_h, emit_ref, derive_res, derive_res', scaleD,
    List.getD_eq_getElem?_getD, List.getElem?_cons_zero, Option.getD_some]

/-- `replace_label` -/
def relabelD (h : Heap) (b : Nat) : Derive :=
  { srcs := [b], qtotal := .shared 0, labels := .fresh [tokOf h], qdata := .shared 0, data := .sharedList 0 }

theorem callH_relabel (cy : Bool) (h : Heap) (b : Nat) :
    callH cy h .replace_label { a := [b] } = (step h (.derive (relabelD h b)), h.arrs.length) := by
  simp only [callH, callSt, Args.A, List.getD_cons_zero, emit_h, emit_ref, derive_res, derive_res', relabelD,
    List.getD_eq_getElem?_getD, List.getElem?_cons_zero, Option.getD_some]

/-- `itranspose(perm)` -/
def itransposeU (cy : Bool) (h : Heap) (b : Nat) (t : TrHint) : Update :=
  { legs := .rebind (t.perm.map (LegSrc.src 0)), labels := .rebind (.fresh [tokOf h + 500]),
    qdata := .rebind (.fresh t.keys),
    data := .rebind ((List.range (nblk h b)).map fun i =>
      if !cy || t.vf.getD i 0 != 0 then BlkSrc.view 0 i else BlkSrc.fresh (tokOf h + i)),
    qsorted := some false }

theorem itransposeU_rebind (cy : Bool) (h : Heap) (b : Nat) (t : TrHint) : (itransposeU cy h b t).rebindOnly = true := rfl

theorem callH_itranspose (cy : Bool) (h : Heap) (b : Nat) (t : TrHint) :
    (callH cy h .itranspose { a := [b], l := [t.perm, t.keys, t.vf] }).1 = step h (.inplace b (itransposeU cy h b t)) := by
  simp only [callH, callSt, Args.A, Args.L, List.getD_cons_zero, emit_h, itransposeU,
    List.getD_eq_getElem?_getD, List.getElem?_cons_zero, List.getElem?_cons_succ, Option.getD_some]

/-- `B.itranspose(labels)`: nothing, or one rebinding in-place method on `b` -/
theorem transposeH_eq (cy : Bool) (h : Heap) (b : Ref) (t : TrHint) :
    transposeH cy h b t = h ∨ transposeH cy h b t = step h (.inplace b (itransposeU cy h b t)) := by
  unfold transposeH
  split
  · left; rfl
  · right; exact callH_itranspose cy h b t

/-- `itranspose` leaves every other closed tensor alone (even shallow copies sharing every buffer) -/
theorem transposeH_frame (cy : Bool) (h : Heap) (b : Ref) (t : TrHint) :
    (∀ r, closed h r = true → r ≠ b → observe (transposeH cy h b t) r = observe h r ∧ closed (transposeH cy h b t) r = true
        ∧ mutLists (transposeH cy h b t) r = mutLists h r ∧ mutBufs (transposeH cy h b t) r = mutBufs h r)
      ∧ Grows h (transposeH cy h b t) := by
  rcases transposeH_eq cy h b t with e | e <;> rw [e]
  · exact ⟨fun r hc _ => ⟨rfl, hc, rfl, rfl⟩, Grows.refl _⟩
  · exact hframe_rebind h b _ (itransposeU_rebind cy h b t)

/-- `copyTensors`: every old tensor is unchanged; the results are new objects -/
theorem copyTensors_frame (cy : Bool) (dtype : Nat) (tr : Bool) (bs : List Ref) :
    ∀ (h : Heap) (ts : List TrHint) (h' : Heap) (cs : List Ref), copyTensors cy dtype tr h bs ts = some (h', cs) →
      HFrame h h' ∧ (∀ c ∈ cs, h.arrs.length ≤ c) ∧ cs.length = bs.length := by
  induction bs with
  | nil =>
    intro h ts h' cs e
    simp only [copyTensors, Option.some.injEq, Prod.mk.injEq] at e
    obtain ⟨rfl, rfl⟩ := e
    exact ⟨HFrame.refl h, by simp, rfl⟩
  | cons b bs ih =>
    intro h ts h' cs e
    simp only [copyTensors, callH_astype] at e
    split at e
    · cases e
    · rename_i hok
      simp only [Option.map_eq_some_iff] at e
      obtain ⟨⟨h2, cs2⟩, e2, e3⟩ := e
      simp only [Prod.mk.injEq] at e3
      obtain ⟨rfl, rfl⟩ := e3
      obtain ⟨f2, g2, l2⟩ := ih _ _ _ _ e2
      have f1 : HFrame h (step h (.derive (astypeD h b dtype))) := hframe_derive h _
      -- the transposition acts on the new tensor `h.arrs.length`, which is not closed in `h`
      have fT : HFrame h (if tr = true then transposeH cy (step h (.derive (astypeD h b dtype))) h.arrs.length (ts.headD {})
                          else step h (.derive (astypeD h b dtype))) := by
        split
        · obtain ⟨o, a⟩ := transposeH_frame cy (step h (.derive (astypeD h b dtype))) h.arrs.length (ts.headD {})
          refine ⟨fun r hc => ?_, f1.grow.trans a⟩
          obtain ⟨o1, c1, m1, m2⟩ := f1.obs r hc
          obtain ⟨o2, c2, m3, m4⟩ := o r c1 (Nat.ne_of_lt (closed_lt hc))
          exact ⟨o2.trans o1, c2, m3.trans m1, m4.trans m2⟩
        · exact f1
      refine ⟨fT.trans f2, ?_, by simp [l2]⟩
      intro c hc
      simp only [List.mem_cons] at hc
      rcases hc with rfl | hc
      · exact Nat.le_refl _
      · exact Nat.le_trans fT.arrs (g2 c hc)

/-! ### observations depend only on reachable cells -/

theorem obsMps_congr {n n' : Net} (p : Ref) (hm : n'.mpsO p = n.mpsO p)
    (hB : n'.tlist (n.mpsO p).B = n.tlist (n.mpsO p).B) (hS : n'.slist (n.mpsO p).S = n.slist (n.mpsO p).S)
    (hf : n'.vlist (n.mpsO p).form = n.vlist (n.mpsO p).form) (hs : n'.vlist (n.mpsO p).sites = n.vlist (n.mpsO p).sites)
    (hb : ∀ r, some r ∈ n.slist (n.mpsO p).S → n'.sbuf r = n.sbuf r)
    (ho : ∀ b ∈ n.tlist (n.mpsO p).B, observe n'.h b = observe n.h b) : obsMps n' p = obsMps n p := by
  simp only [obsMps, hm, hB, hS, hf, hs]
  congr 1
  · exact List.map_congr_left ho
  · apply List.map_congr_left
    intro s hs'
    cases s with
    | none => rfl
    | some r => simp only [Option.map_some, hb r hs']

theorem obsMpo_congr {n n' : Net} (H : Ref) (hm : n'.mpoO H = n.mpoO H)
    (hW : n'.tlist (n.mpoO H).W = n.tlist (n.mpoO H).W) (hl : n'.vlist (n.mpoO H).IdL = n.vlist (n.mpoO H).IdL)
    (hr : n'.vlist (n.mpoO H).IdR = n.vlist (n.mpoO H).IdR) (hs : n'.vlist (n.mpoO H).sites = n.vlist (n.mpoO H).sites)
    (ho : ∀ b ∈ n.tlist (n.mpoO H).W, observe n'.h b = observe n.h b) : obsMpo n' H = obsMpo n H := by
  simp only [obsMpo, hm, hW, hl, hr, hs]
  congr 1
  exact List.map_congr_left ho

end TenpyModel.C03

namespace TenpyModel.C03

/-! ### `n'` extends `n`: what every method that is not in place does -/

/-- nothing that existed is written: every store only grows (old cells keep their contents) and the tensor heap is
framed -/
structure NExt (n n' : Net) : Prop where
  h   : HFrame n.h n'.h
  tl  : ∀ r, r < n.tl.length → n'.tl[r]? = n.tl[r]?
  sb  : ∀ r, r < n.sb.length → n'.sb[r]? = n.sb[r]?
  sl  : ∀ r, r < n.sl.length → n'.sl[r]? = n.sl[r]?
  vl  : ∀ r, r < n.vl.length → n'.vl[r]? = n.vl[r]?
  mps : ∀ r, r < n.mps.length → n'.mps[r]? = n.mps[r]?
  mpo : ∀ r, r < n.mpo.length → n'.mpo[r]? = n.mpo[r]?

theorem NExt.refl (n : Net) : NExt n n :=
  ⟨HFrame.refl _, fun _ _ => rfl, fun _ _ => rfl, fun _ _ => rfl, fun _ _ => rfl, fun _ _ => rfl, fun _ _ => rfl⟩

theorem lt_of_getElem?_eq {α} {l l' : List α} {r : Nat} (hr : r < l.length) (e : l'[r]? = l[r]?) : r < l'.length := by
  rcases Nat.lt_or_ge r l'.length with h | h
  · exact h
  · rw [List.getElem?_eq_none h, List.getElem?_eq_getElem hr] at e; cases e

theorem NExt.trans {a b c : Net} (x : NExt a b) (y : NExt b c) : NExt a c :=
  ⟨x.h.trans y.h,
   fun r hr => (y.tl r (lt_of_getElem?_eq hr (x.tl r hr))).trans (x.tl r hr),
   fun r hr => (y.sb r (lt_of_getElem?_eq hr (x.sb r hr))).trans (x.sb r hr),
   fun r hr => (y.sl r (lt_of_getElem?_eq hr (x.sl r hr))).trans (x.sl r hr),
   fun r hr => (y.vl r (lt_of_getElem?_eq hr (x.vl r hr))).trans (x.vl r hr),
   fun r hr => (y.mps r (lt_of_getElem?_eq hr (x.mps r hr))).trans (x.mps r hr),
   fun r hr => (y.mpo r (lt_of_getElem?_eq hr (x.mpo r hr))).trans (x.mpo r hr)⟩

theorem closedMps_parts {n : Net} {p : Ref} (hc : closedMps n p = true) :
    p < n.mps.length ∧ (n.mpsO p).B < n.tl.length ∧ (n.mpsO p).S < n.sl.length ∧ (n.mpsO p).form < n.vl.length
      ∧ (n.mpsO p).sites < n.vl.length ∧ (∀ b ∈ n.tlist (n.mpsO p).B, closed n.h b = true)
      ∧ (∀ r, some r ∈ n.slist (n.mpsO p).S → r < n.sb.length) := by
  simp only [closedMps, Bool.and_eq_true, decide_eq_true_eq, List.all_eq_true] at hc
  obtain ⟨⟨⟨⟨⟨⟨c1, c2⟩, c3⟩, c4⟩, c5⟩, c6⟩, c7⟩ := hc
  refine ⟨c1, c2, c3, c4, c5, c6, ?_⟩
  intro r hr
  have := c7 _ hr
  simpa using this

theorem closedMpo_parts {n : Net} {H : Ref} (hc : closedMpo n H = true) :
    H < n.mpo.length ∧ (n.mpoO H).W < n.tl.length ∧ (n.mpoO H).IdL < n.vl.length ∧ (n.mpoO H).IdR < n.vl.length
      ∧ (n.mpoO H).sites < n.vl.length ∧ (∀ b ∈ n.tlist (n.mpoO H).W, closed n.h b = true) := by
  simp only [closedMpo, Bool.and_eq_true, decide_eq_true_eq, List.all_eq_true] at hc
  obtain ⟨⟨⟨⟨⟨c1, c2⟩, c3⟩, c4⟩, c5⟩, c6⟩ := hc
  exact ⟨c1, c2, c3, c4, c5, c6⟩

/-- **frame of an extension**: a closed MPS has the same observation afterwards and is still closed -/
theorem NExt.mpsObs {n n' : Net} (x : NExt n n') (p : Ref) (hc : closedMps n p = true) :
    obsMps n' p = obsMps n p ∧ closedMps n' p = true := by
  obtain ⟨c1, c2, c3, c4, c5, c6, c7⟩ := closedMps_parts hc
  have em : n'.mpsO p = n.mpsO p := by simp only [Net.mpsO, x.mps p c1]
  have eB : n'.tlist (n.mpsO p).B = n.tlist (n.mpsO p).B := by simp only [Net.tlist, x.tl _ c2]
  have eS : n'.slist (n.mpsO p).S = n.slist (n.mpsO p).S := by simp only [Net.slist, x.sl _ c3]
  have ef : n'.vlist (n.mpsO p).form = n.vlist (n.mpsO p).form := by simp only [Net.vlist, x.vl _ c4]
  have es : n'.vlist (n.mpsO p).sites = n.vlist (n.mpsO p).sites := by simp only [Net.vlist, x.vl _ c5]
  have eb : ∀ r, some r ∈ n.slist (n.mpsO p).S → n'.sbuf r = n.sbuf r := fun r hr => by
    simp only [Net.sbuf, x.sb r (c7 r hr)]
  refine ⟨obsMps_congr p em eB eS ef es eb (fun b hb => (x.h.obs b (c6 b hb)).1), ?_⟩
  simp only [closedMps, em, eB, eS, Bool.and_eq_true, decide_eq_true_eq, List.all_eq_true]
  refine ⟨⟨⟨⟨⟨⟨lt_of_getElem?_eq c1 (x.mps p c1), lt_of_getElem?_eq c2 (x.tl _ c2)⟩, lt_of_getElem?_eq c3 (x.sl _ c3)⟩,
    lt_of_getElem?_eq c4 (x.vl _ c4)⟩, lt_of_getElem?_eq c5 (x.vl _ c5)⟩, fun b hb => (x.h.obs b (c6 b hb)).2.1⟩, ?_⟩
  intro s hs
  cases s with
  | none => rfl
  | some r => simpa using lt_of_getElem?_eq (c7 r hs) (x.sb r (c7 r hs))

theorem NExt.mpoObs {n n' : Net} (x : NExt n n') (H : Ref) (hc : closedMpo n H = true) :
    obsMpo n' H = obsMpo n H ∧ closedMpo n' H = true := by
  obtain ⟨c1, c2, c3, c4, c5, c6⟩ := closedMpo_parts hc
  have em : n'.mpoO H = n.mpoO H := by simp only [Net.mpoO, x.mpo H c1]
  have eW : n'.tlist (n.mpoO H).W = n.tlist (n.mpoO H).W := by simp only [Net.tlist, x.tl _ c2]
  have el : n'.vlist (n.mpoO H).IdL = n.vlist (n.mpoO H).IdL := by simp only [Net.vlist, x.vl _ c3]
  have er : n'.vlist (n.mpoO H).IdR = n.vlist (n.mpoO H).IdR := by simp only [Net.vlist, x.vl _ c4]
  have es : n'.vlist (n.mpoO H).sites = n.vlist (n.mpoO H).sites := by simp only [Net.vlist, x.vl _ c5]
  refine ⟨obsMpo_congr H em eW el er es (fun b hb => (x.h.obs b (c6 b hb)).1), ?_⟩
  simp only [closedMpo, em, eW, Bool.and_eq_true, decide_eq_true_eq, List.all_eq_true]
  exact ⟨⟨⟨⟨⟨lt_of_getElem?_eq c1 (x.mpo H c1), lt_of_getElem?_eq c2 (x.tl _ c2)⟩, lt_of_getElem?_eq c3 (x.vl _ c3)⟩,
    lt_of_getElem?_eq c4 (x.vl _ c4)⟩, lt_of_getElem?_eq c5 (x.vl _ c5)⟩, fun b hb => (x.h.obs b (c6 b hb)).2.1⟩

/-- appending to the stores and framing the heap is an extension -/
theorem next_append (n : Net) (h' : Heap) (hf : HFrame n.h h') (tl : List (List Ref)) (sb : List (List Nat))
    (sl : List (List (Option Ref))) (vl : List (List Nat)) (mps : List MpsObj) (mpo : List MpoObj) :
    NExt n { h := h', tl := n.tl ++ tl, sb := n.sb ++ sb, sl := n.sl ++ sl, vl := n.vl ++ vl, mps := n.mps ++ mps,
             mpo := n.mpo ++ mpo } :=
  ⟨hf, fun _ hr => get_append_old _ _ _ hr, fun _ hr => get_append_old _ _ _ hr, fun _ hr => get_append_old _ _ _ hr,
   fun _ hr => get_append_old _ _ _ hr, fun _ hr => get_append_old _ _ _ hr, fun _ hr => get_append_old _ _ _ hr⟩

end TenpyModel.C03

namespace TenpyModel.C03

/-! ### the constructors are extensions -/

theorem mpsInit_next (cy : Bool) (n : Net) (sites : List Nat) (Bs SVs : Ref) (bc : Nat) (form : FormArg)
    (ts : List TrHint) (sane : Bool) : NExt n (mpsInit cy n sites Bs SVs bc form ts sane).1 := by
  unfold mpsInit
  simp only
  repeat' split
  all_goals first
    | exact NExt.refl n
    | (have hf := (copyTensors_frame cy _ true _ _ _ _ _ (by assumption)).1
       exact ⟨hf, fun _ hr => get_append_old _ _ _ hr, fun _ hr => get_append_old _ _ _ hr,
         fun _ hr => get_append_old _ _ _ hr, fun _ hr => get_append_old _ _ _ hr, fun _ hr => get_append_old _ _ _ hr,
         fun _ _ => rfl⟩)

end TenpyModel.C03

namespace TenpyModel.C03

/-! ### the refined in-place footprint: the total charge array is never written in place -/

/-- the value buffers an in-place method on `t` can write when it does not write the total charge in place:
`_labels`, `_qdata`, the blocks -/
def wBufs (h : Heap) (t : Ref) : List Ref := [(h.arr t).labels, (h.arr t).qdata] ++ h.list (h.arr t).data

/-- `r` reads a container through which such an in-place method on `t` writes -/
def aliases (h : Heap) (r t : Ref) : Bool :=
  r == t || overlap (mutLists h r) (mutLists h t) || overlap (mutBufs h r) (wBufs h t)

/-- the in-place method does not write the total charge array in place (it may rebind `qtotal`) -/
def Update.qtSafe (u : Update) : Bool := match u.qtotal with | .mutate _ => false | _ => true

def Op.qtSafe : Op → Bool
  | .inplace _ u => u.qtSafe
  | _ => true

theorem planInplace_writes_q (h : Heap) (t : Ref) (u : Update) (hq : u.qtSafe = true) :
    ∀ w ∈ (planInplace h t u).wr.bufs, w.1 ∈ wBufs h t := by
  intro w hw
  simp only [planInplace, List.mem_append, List.mem_filterMap] at hw
  rcases hw with ((hw | hw) | hw) | hw
  · exfalso
    cases hu : u.qtotal <;> simp only [Update.qtSafe, hu] at hq <;> simp [updBuf, hu] at hw
    cases hq
  · have := updBuf_writes _ _ _ _ _ _ w hw; simp [wBufs, this]
  · have := updBuf_writes _ _ _ _ _ _ w hw; simp [wBufs, this]
  · obtain ⟨⟨i, tok⟩, _, hx⟩ := hw
    simp only [Option.map_eq_some_iff] at hx
    obtain ⟨r, hr, rfl⟩ := hx
    have : r ∈ h.list (h.arr t).data := List.mem_of_getElem? hr
    simp [wBufs, this]

/-- an in-place method that does not write the total charge in place changes only tensors that read one of the
target's lists, its `_labels`, `_qdata` or blocks — sharing the total charge array is harmless -/
theorem inplace_keeps_q (h : Heap) (t : Ref) (u : Update) (hq : u.qtSafe = true) (r : Ref) (hc : closed h r = true)
    (hs : aliases h r t = false) :
    observe (step h (.inplace t u)) r = observe h r ∧ closed (step h (.inplace t u)) r = true
      ∧ Agree h (step h (.inplace t u)) r := by
  simp only [aliases, Bool.or_eq_false_iff, beq_eq_false_iff_ne, ne_eq] at hs
  obtain ⟨⟨h1, h2⟩, h3⟩ := hs
  obtain ⟨_, _, wa, wl, _⟩ := planInplace_writes h t u
  refine step_keeps h (.inplace t u) r hc ?_ ?_ ?_
  · intro w hw e; exact h1 (e.symm.trans (wa w hw))
  · intro w hw; exact not_overlap h2 _ (wl w hw)
  · intro w hw; exact not_overlap h3 _ (planInplace_writes_q h t u hq w hw)

/-! ### tensors all of whose writable containers were allocated after `h0` -/

def Derive.semiIsolated (d : Derive) : Bool :=
  (match d.legs with | .sharedList _ => false | _ => true) && d.labels.notShared
    && d.qdata.notShared && (match d.data with | .sharedList _ => false | .newList bs => bs.all BlkSrc.notView)

/-- like `derive_isolated`, but the total charge may be the operand's array: the lists, `_labels`, `_qdata` and all
blocks of the new tensor are new cells -/
theorem derive_semi (h : Heap) (d : Derive) (hi : d.semiIsolated = true) :
    let h' := step h (.derive d)
    h'.arrs.length = h.arrs.length + 1
      ∧ (∀ x ∈ mutLists h' h.arrs.length, h.lists.length ≤ x ∧ x < h'.lists.length)
      ∧ (∀ x ∈ wBufs h' h.arrs.length, h.bufs.length ≤ x) := by
  simp only [Derive.semiIsolated, Bool.and_eq_true] at hi
  obtain ⟨⟨⟨i1, i3⟩, i4⟩, i5⟩ := hi
  simp only [step, plan, planDerive]
  generalize hb0 : ({ h := h } : Bld) = b0
  have hb0h : b0.h = h := by rw [← hb0]
  have hb0a : b0.al.arrs = [] := by rw [← hb0]
  have hb0l : b0.al.lists = [] := by rw [← hb0]
  rcases hL : allocLegs h d.srcs b0 d.legs with ⟨b1, legs⟩
  rcases hQ : allocBuf h d.srcs (·.qtotal) b1 d.qtotal with ⟨b2, qt⟩
  rcases hLa : allocBuf h d.srcs (·.labels) b2 d.labels with ⟨b3, lab⟩
  rcases hQd : allocBuf h d.srcs (·.qdata) b3 d.qdata with ⟨b4, qd⟩
  rcases hD : allocData h d.srcs b4 d.data with ⟨b5, dat⟩
  simp only []
  have le01 : BLe b0 b1 ∧ legs = h.lists.length ∧ b1.al.lists.length = 1 := by
    cases hl : d.legs with
    | sharedList k => rw [hl] at i1; cases i1
    | newList ls =>
      rw [hl] at hL; simp only [allocLegs] at hL
      have := list_le b0 (ls.map (resolveLeg h d.srcs))
      rw [hL] at this
      refine ⟨this, ?_, ?_⟩
      · have e : legs = (b0.list (ls.map (resolveLeg h d.srcs))).2 := by rw [hL]
        rw [e]; simp [Bld.list, hb0h, hb0l]
      · have e : b1 = (b0.list (ls.map (resolveLeg h d.srcs))).1 := by rw [hL]
        rw [e]; simp [Bld.list, hb0l]
    | sameAs k =>
      rw [hl] at hL; simp only [allocLegs] at hL
      have := list_le b0 (h.list (srcArr h d.srcs k).legs)
      rw [hL] at this
      refine ⟨this, ?_, ?_⟩
      · have e : legs = (b0.list (h.list (srcArr h d.srcs k).legs)).2 := by rw [hL]
        rw [e]; simp [Bld.list, hb0h, hb0l]
      · have e : b1 = (b0.list (h.list (srcArr h d.srcs k).legs)).1 := by rw [hL]
        rw [e]; simp [Bld.list, hb0l]
  have le12 : BLe b1 b2 := by have := allocBuf_le h d.srcs (·.qtotal) b1 d.qtotal; rwa [hQ] at this
  have le23 : BLe b2 b3 := by have := allocBuf_le h d.srcs (·.labels) b2 d.labels; rwa [hLa] at this
  have le34 : BLe b3 b4 := by have := allocBuf_le h d.srcs (·.qdata) b3 d.qdata; rwa [hQd] at this
  have h1 : b1.h = h := le01.1.h.trans hb0h
  have h2 : b2.h = h := le12.h.trans h1
  have h3 : b3.h = h := le23.h.trans h2
  have h4 : b4.h = h := le34.h.trans h3
  have gl : h.bufs.length ≤ lab := by
    have := allocBuf_ge h d.srcs (·.labels) b2 d.labels i3; rwa [hLa, h2] at this
  have gd : h.bufs.length ≤ qd := by
    have := allocBuf_ge h d.srcs (·.qdata) b3 d.qdata i4; rwa [hQd, h3] at this
  cases hdat : d.data with
  | sharedList k => rw [hdat] at i5; cases i5
  | newList bs =>
    rw [hdat] at i5 hD
    simp only [allocData] at hD
    rcases hB : allocBlks h d.srcs b4 bs with ⟨b4', rs⟩
    rw [hB] at hD
    simp only [] at hD
    have le44 : BLe b4 b4' := by have := allocBlks_le h d.srcs b4 bs; rwa [hB] at this
    have h4' : b4'.h = h := le44.h.trans h4
    have grs : ∀ r ∈ rs, h.bufs.length ≤ r := by
      have := allocBlks_ge h d.srcs b4 bs i5; rwa [hB, h4] at this
    have le45 : BLe b4' b5 := by have := list_le b4' rs; rwa [hD] at this
    have edat : dat = (b4'.list rs).2 := by rw [hD]
    have e5 : b5 = (b4'.list rs).1 := by rw [hD]
    have gdat : h.lists.length ≤ dat := by rw [edat]; simp [Bld.list, h4']
    have arrs5 : b5.al.arrs = [] :=
      (le45.arrs.trans (le44.arrs.trans (le34.arrs.trans (le23.arrs.trans (le12.arrs.trans le01.1.arrs))))).trans hb0a
    have len5 : b5.al.lists.length = b4'.al.lists.length + 1 := by rw [e5]; simp [Bld.list]
    have len14 : 1 ≤ b4'.al.lists.length := by
      have p := ((le12.lists.trans le23.lists).trans le34.lists).trans le44.lists
      have := p.length_le
      omega
    generalize hA : ArrObj.mk legs qt lab dat qd (d.dtype.getD (srcArr h d.srcs 0).dtype)
      (d.qsorted.getD (srcArr h d.srcs 0).qsorted) = A
    generalize hh' : Plan.apply _ h = h'
    have eArrs : h'.arrs = h.arrs ++ [A] := by
      rw [← hh']; simp [Plan.apply, setMany, Bld.arr, arrs5]
    have eLists : h'.lists = h.lists ++ (b5.arr A).1.al.lists := by
      rw [← hh']; simp [Plan.apply, setMany]
    have lenL : h'.lists.length = h.lists.length + b5.al.lists.length := by rw [eLists]; simp [Bld.arr]
    have hArr : h'.arr h.arrs.length = A := by simp [Heap.arr, eArrs]
    have hlist : h'.list dat = rs := by
      rw [edat]
      exact read_new_list h b4' _ h4' rs (by rw [hD]; exact List.prefix_refl _) h' eLists
    have udat : dat < h'.lists.length := by
      rw [edat, lenL, len5]; simp [Bld.list, h4']
    refine ⟨by rw [eArrs]; simp, ?_, ?_⟩
    · intro x hx
      simp only [mutLists, hArr, ← hA, List.mem_cons, List.not_mem_nil, or_false] at hx
      rcases hx with hx | hx
      · rw [hx, le01.2.1]
        exact ⟨Nat.le_refl _, by rw [lenL, len5]; exact Nat.lt_add_of_pos_right (Nat.succ_pos _)⟩
      · rw [hx]; exact ⟨gdat, udat⟩
    · intro x hx
      simp only [wBufs, hArr] at hx
      rw [← hA] at hx
      simp only [hlist, List.cons_append, List.nil_append, List.mem_cons] at hx
      rcases hx with rfl | rfl | hx
      · exact gl
      · exact gd
      · exact grs x hx

/-- `c` was created after `h0` and all containers through which an in-place method on `c` writes are newer than `h0` -/
structure FreshT (h0 h : Heap) (c : Ref) : Prop where
  grow  : Grows h0 h
  lt    : c < h.arrs.length
  ge    : h0.arrs.length ≤ c
  lists : ∀ x ∈ mutLists h c, h0.lists.length ≤ x ∧ x < h.lists.length
  bufs  : ∀ x ∈ wBufs h c, h0.bufs.length ≤ x

theorem FreshT.weaken {h0 h0' h : Heap} {c : Ref} (f : FreshT h0 h c) (g : Grows h0' h0) : FreshT h0' h c :=
  ⟨g.trans f.grow, f.lt, Nat.le_trans g.arrs f.ge, fun x hx => ⟨Nat.le_trans g.lists (f.lists x hx).1, (f.lists x hx).2⟩,
   fun x hx => Nat.le_trans g.bufs (f.bufs x hx)⟩

theorem freshT_derive (h : Heap) (d : Derive) (hi : d.semiIsolated = true) : FreshT h (step h (.derive d)) h.arrs.length := by
  obtain ⟨a, l, b⟩ := derive_semi h d hi
  exact ⟨step_grows h _, by rw [a]; exact Nat.lt_succ_self _, Nat.le_refl _, l, b⟩

/-- a step that writes nothing keeps the cells of a tensor whose lists are allocated -/
theorem freshT_pure {h0 h : Heap} {c : Ref} (f : FreshT h0 h c) (op : Op) (hw : (plan h op).wr = {}) :
    FreshT h0 (step h op) c := by
  have eA : (step h op).arr c = h.arr c := by
    simp only [Heap.arr, step, Plan.apply, hw]
    rw [store_old _ _ _ _ f.lt (by simp)]
  have eL : ∀ x ∈ mutLists h c, (step h op).list x = h.list x := by
    intro x hx
    simp only [Heap.list, step, Plan.apply, hw]
    rw [store_old _ _ _ _ (f.lists x hx).2 (by simp)]
  have eml : mutLists (step h op) c = mutLists h c := by simp only [mutLists, eA]
  have ewb : wBufs (step h op) c = wBufs h c := by
    simp only [wBufs, eA, eL (h.arr c).data (by simp [mutLists])]
  refine ⟨f.grow.trans (step_grows h op), Nat.lt_of_lt_of_le f.lt (step_grows h op).arrs, f.ge, ?_, ?_⟩
  · intro x hx; rw [eml] at hx
    exact ⟨(f.lists x hx).1, Nat.lt_of_lt_of_le (f.lists x hx).2 (step_grows h op).lists⟩
  · intro x hx; rw [ewb] at hx; exact f.bufs x hx

/-- an old closed tensor reads none of the writable containers of a fresh tensor -/
theorem freshT_not_aliased {h0 h : Heap} {c r : Ref} (f : FreshT h0 h c) (hc : closed h0 r = true)
    (ml : mutLists h r = mutLists h0 r) (mb : mutBufs h r = mutBufs h0 r) : aliases h r c = false := by
  obtain ⟨c1, c2, c3⟩ := closed_bounds hc
  have no1 : ∀ xs ys : List Ref, (∀ x ∈ xs, ∀ y ∈ ys, x ≠ y) → overlap xs ys = false := by
    intro xs ys hxy
    cases ho : overlap xs ys with
    | false => rfl
    | true =>
      simp only [overlap, List.any_eq_true, List.contains_iff_mem] at ho
      obtain ⟨x, hx, hy⟩ := ho
      exact absurd rfl (hxy x hx x hy)
  simp only [aliases, Bool.or_eq_false_iff, beq_eq_false_iff_ne]
  refine ⟨⟨Nat.ne_of_lt (Nat.lt_of_lt_of_le c1 f.ge), no1 _ _ ?_⟩, no1 _ _ ?_⟩
  · intro x hx y hy e
    rw [ml] at hx
    have a2 : h0.lists.length ≤ y := (f.lists y hy).1
    have a1 : x < h0.lists.length := c2 x hx
    rw [e] at a1; exact Nat.not_lt.2 a2 a1
  · intro x hx y hy e
    rw [mb] at hx
    have a2 : h0.bufs.length ≤ y := f.bufs y hy
    have a1 : x < h0.bufs.length := c3 x hx
    rw [e] at a1; exact Nat.not_lt.2 a2 a1

end TenpyModel.C03

namespace TenpyModel.C03

theorem copies_notView (k n : Nat) : (copies k n).all BlkSrc.notView = true := by
  simp [copies, BlkSrc.notView]

theorem freshBlks_notView (t n : Nat) : (freshBlks t n).all BlkSrc.notView = true := by
  simp [freshBlks, BlkSrc.notView]

theorem astypeD_semi (h : Heap) (b dtype : Nat) : (astypeD h b dtype).semiIsolated = true := by
  simp [Derive.semiIsolated, astypeD, BufSrc.notShared, copies_notView]

theorem copyD_isolated (h : Heap) (b : Nat) : (copyD h b).isolated = true := by
  simp [Derive.isolated, copyD, BufSrc.notShared, copies_notView]

theorem scaleD_semi (h : Heap) (b dtype : Nat) : (scaleD h b dtype).semiIsolated = true := by
  simp [Derive.semiIsolated, scaleD, BufSrc.notShared, freshBlks_notView]

theorem transposeH_id (cy : Bool) (h : Heap) (b : Ref) (t : TrHint) (hi : isIdPerm t.perm = true) :
    transposeH cy h b t = h := by simp [transposeH, hi]

/-- without transpositions (`MPO`, `psi.copy()`, tensors given in the order `vL, p, vR`): the copies stay fresh — every
container through which an in-place method on a copy writes was allocated by the constructor -/
theorem copyTensors_fresh (cy : Bool) (dtype : Nat) (tr : Bool) (bs : List Ref) :
    ∀ (h : Heap) (ts : List TrHint) (h' : Heap) (cs : List Ref),
      (tr = false ∨ ∀ t ∈ ts, isIdPerm t.perm = true) → copyTensors cy dtype tr h bs ts = some (h', cs) →
      (∀ h0 c0, FreshT h0 h c0 → FreshT h0 h' c0) ∧ (∀ c ∈ cs, FreshT h h' c) := by
  induction bs with
  | nil =>
    intro h ts h' cs _ e
    simp only [copyTensors, Option.some.injEq, Prod.mk.injEq] at e
    obtain ⟨rfl, rfl⟩ := e
    exact ⟨fun _ _ f => f, by simp⟩
  | cons b bs ih =>
    intro h ts h' cs hid e
    simp only [copyTensors, callH_astype] at e
    split at e
    · cases e
    · simp only [Option.map_eq_some_iff] at e
      obtain ⟨⟨h2, cs2⟩, e2, e3⟩ := e
      simp only [Prod.mk.injEq] at e3
      obtain ⟨rfl, rfl⟩ := e3
      have hT : (if tr = true then transposeH cy (step h (.derive (astypeD h b dtype))) h.arrs.length (ts.headD {})
                 else step h (.derive (astypeD h b dtype))) = step h (.derive (astypeD h b dtype)) := by
        split
        · rename_i htr
          rcases hid with hf | hall
          · rw [hf] at htr; cases htr
          · apply transposeH_id
            cases ts with
            | nil => rfl
            | cons t ts => exact hall t (by simp)
        · rfl
      rw [hT] at e2
      have hid' : tr = false ∨ ∀ t ∈ ts.tail, isIdPerm t.perm = true := by
        rcases hid with hf | hall
        · exact Or.inl hf
        · exact Or.inr (fun t ht => hall t (List.mem_of_mem_tail ht))
      obtain ⟨k2, f2⟩ := ih _ _ _ _ hid' e2
      have f1 : FreshT h (step h (.derive (astypeD h b dtype))) h.arrs.length := freshT_derive h _ (astypeD_semi h b dtype)
      refine ⟨fun h0 c0 f => k2 h0 c0 (freshT_pure f _ (planDerive_wr h _)), ?_⟩
      intro c hc
      simp only [List.mem_cons] at hc
      rcases hc with rfl | hc
      · exact k2 _ _ f1
      · exact (f2 c hc).weaken (step_grows h _)

end TenpyModel.C03

namespace TenpyModel.C03

theorem copySV_fresh (n : Net) (svs : List (Option Ref)) (is : List Nat) :
    ∀ (base : Nat) (al : List (List Nat)) (es : List (Option Ref)), copySV n svs base is = some (al, es) →
      ∀ r : Nat, some r ∈ es → base ≤ r ∧ r < base + al.length := by
  induction is with
  | nil =>
    intro base al es e r hr
    simp only [copySV, Option.some.injEq, Prod.mk.injEq] at e
    obtain ⟨rfl, rfl⟩ := e
    cases hr
  | cons i is ih =>
    intro base al es e r hr
    simp only [copySV] at e
    split at e
    · cases e
    · simp only [Option.map_eq_some_iff] at e
      obtain ⟨⟨al2, es2⟩, e2, e3⟩ := e
      simp only [Prod.mk.injEq] at e3
      obtain ⟨rfl, rfl⟩ := e3
      simp only [List.mem_cons, reduceCtorEq, false_or] at hr
      exact ih _ _ _ e2 r hr
    · simp only [Option.map_eq_some_iff] at e
      obtain ⟨⟨al2, es2⟩, e2, e3⟩ := e
      simp only [Prod.mk.injEq] at e3
      obtain ⟨rfl, rfl⟩ := e3
      simp only [List.mem_cons, Option.some.injEq] at hr
      rcases hr with hr | hr
      · rw [hr]; exact ⟨Nat.le_refl _, by simp⟩
      · obtain ⟨a, b⟩ := ih _ _ _ e2 r hr
        refine ⟨by omega, ?_⟩
        simp only [List.length_cons]; omega

/-- what a successful `MPS(...)` returns -/
theorem mpsInit_ok {cy : Bool} {n : Net} {sites : List Nat} {Bs SVs : Ref} {bc : Nat} {form : FormArg} {ts : List TrHint}
    {sane : Bool} {n' : Net} {p : Nat} (e : mpsInit cy n sites Bs SVs bc form ts sane = (n', .ok p)) :
    ∃ h' newBs sbNew S' forms,
      copyTensors cy (dtypeJoin n.h (n.tlist Bs)) true n.h (n.tlist Bs) ts = some (h', newBs)
      ∧ parseForm n sites.length form = some forms
      ∧ n' = { n with h := h', tl := n.tl ++ [newBs], sb := n.sb ++ sbNew, sl := n.sl ++ [S'], vl := n.vl ++ [sites, forms],
                      mps := n.mps ++ [{ B := n.tl.length, S := n.sl.length, form := n.vl.length + 1, sites := n.vl.length,
                                         bc := bc, dtype := dtypeJoin n.h (n.tlist Bs) }] }
      ∧ p = n.mps.length ∧ newBs.length = sites.length
      ∧ (∀ r : Nat, some r ∈ S' → n.sb.length ≤ r ∧ r < n.sb.length + sbNew.length) := by
  unfold mpsInit at e
  simp only at e
  repeat' split at e
  all_goals first
    | (simp only [Prod.mk.injEq, eValue, eIndex, eKey, eAssert, reduceCtorEq, and_false] at e; done)
    | (rename_i newS es hsv hlen hsane hbc
       simp only [Prod.mk.injEq, Res.ok.injEq] at e
       obtain ⟨e1, e2⟩ := e
       have key := copySV_fresh n (n.slist SVs) (ntBonds sites.length bc) n.sb.length newS es hsv
       refine ⟨_, _, _, _, _, by assumption, by assumption, e1.symm, e2.symm, by simpa using hlen, ?_⟩
       intro r hr
       first
         | exact key r hr
         | (simp only [List.cons_append, List.nil_append, List.mem_cons, List.mem_append, Option.some.injEq,
              List.mem_singleton, List.length_append, List.length_cons, List.length_nil, List.not_mem_nil, or_false] at hr ⊢
            rcases hr with hr | hr | hr
            · rw [hr]; omega
            · have := key r hr; omega
            · rw [hr]; omega))

end TenpyModel.C03

namespace TenpyModel.C03

/-! ### no call of the table writes a total charge array in place -/

def AllQ (ops : List Op) : Prop := ∀ op ∈ ops, op.qtSafe = true

theorem emit_q (s : St) (op : Op) (hs : AllQ s.ops) (ho : op.qtSafe = true) : AllQ (s.emit op).1.ops := by
  intro o hm
  simp only [St.emit, List.mem_append, List.mem_singleton] at hm
  rcases hm with hm | rfl
  · exact hs o hm
  · exact ho

theorem emitLegs_q (s : St) (ds : List LegDerive) (hs : AllQ s.ops) : AllQ (emitLegs s ds).1.ops := by
  unfold emitLegs
  suffices h : ∀ (acc : St × List Ref), AllQ acc.1.ops →
      AllQ (ds.foldl (fun (acc : St × List Ref) d => let (s', r) := acc.1.emit (.leg d); (s', acc.2 ++ [r])) acc).1.ops
    from h (s, []) hs
  induction ds with
  | nil => intro acc h; exact h
  | cons d ds ih => intro acc h; exact ih _ (emit_q acc.1 (.leg d) h rfl)

theorem conjLegF_q (fuel : Nat) (s : St) (l : Ref) (hs : AllQ s.ops) : AllQ (conjLegF fuel s l).1.ops := by
  induction fuel generalizing s l with
  | zero => exact emit_q _ _ hs rfl
  | succ n ih =>
    simp only [conjLegF]
    split
    · exact emit_q _ _ hs rfl
    · refine emit_q _ _ ?_ rfl
      suffices h : ∀ (qs : List Ref) (acc : St × List Ref), AllQ acc.1.ops →
          AllQ (qs.foldl (fun (acc : St × List Ref) q => let r := conjLegF n acc.1 q; (r.1, acc.2 ++ [r.2])) acc).1.ops
        from h _ (s, []) hs
      intro qs
      induction qs with
      | nil => intro acc h; exact h
      | cons q qs ihq => intro acc h; exact ihq _ (ih acc.1 q h)

theorem conjLeg_q (s : St) (l : Ref) (hs : AllQ s.ops) : AllQ (conjLeg s l).1.ops := conjLegF_q 6 s l hs

theorem conjLegs_q (s : St) (ls : List Ref) (hs : AllQ s.ops) : AllQ (conjLegs s ls).1.ops := by
  unfold conjLegs
  suffices h : ∀ (acc : St × List Ref), AllQ acc.1.ops →
      AllQ (ls.foldl (fun (acc : St × List Ref) l => let (s', r) := conjLeg acc.1 l; (s', acc.2 ++ [r])) acc).1.ops
    from h (s, []) hs
  induction ls with
  | nil => intro acc h; exact h
  | cons l ls ih => intro acc h; exact ih _ (conjLeg_q acc.1 l h)

theorem calls_qtSafe (cy : Bool) (h : Heap) (c : CN) (x : Args) : AllQ (callOps cy h c x) := by
  have e : AllQ ({ h := h } : St).ops := by intro o ho; cases ho
  have emitLegs1 : ∀ ds, AllQ (emitLegs { h := h } ds).1.ops := fun ds => emitLegs_q _ ds e
  cases c
  all_goals first
    | exact emit_q _ _ e rfl
    | exact conjLeg_q _ _ e
    | exact emit_q _ _ (emit_q _ _ e rfl) rfl
    | exact emit_q _ _ (conjLegs_q _ _ e) rfl
    | exact emit_q _ _ (emitLegs1 _) rfl
    | (simp only [callOps, callSt]; split <;> first | exact emit_q _ _ e rfl | exact e)
    | (simp only [callOps, callSt]; split <;> (try split) <;> first | exact emit_q _ _ e rfl | exact e)

end TenpyModel.C03

namespace TenpyModel.C03

/-! ### in-place methods of the containers: what they write -/

theorem set_get_ne {α} (l : List α) (i j : Nat) (v : α) (h : i ≠ j) : (l.set i v)[j]? = l[j]? :=
  List.getElem?_set_ne h

/-- only the heap changed, and no tensor stored in `q` is affected -/
theorem obsMps_of_heap {n : Net} (h2 : Heap) (q : Ref)
    (ho : ∀ b ∈ n.tlist (n.mpsO q).B, observe h2 b = observe n.h b) : obsMps { n with h := h2 } q = obsMps n q :=
  obsMps_congr (n := n) (n' := { n with h := h2 }) q rfl rfl rfl rfl rfl (fun _ _ => rfl) ho

theorem obsMpo_of_heap {n : Net} (h2 : Heap) (H : Ref)
    (ho : ∀ b ∈ n.tlist (n.mpoO H).W, observe h2 b = observe n.h b) : obsMpo { n with h := h2 } H = obsMpo n H :=
  obsMpo_congr (n := n) (n' := { n with h := h2 }) H rfl rfl rfl rfl rfl ho

theorem scaleSide_frame (cy : Bool) (h : Heap) (B : Ref) (new old : Option Nat) (S : Res) (fit : Bool) (h2 : Heap) (B2 : Ref)
    (e : scaleSide cy h B new old S fit = .ok (h2, B2)) :
    HFrame h h2 ∧ (∀ h0, FreshT h0 h B → FreshT h0 h2 B2) ∧ ((h2 = h ∧ B2 = B) ∨ FreshT h h2 B2) := by
  unfold scaleSide at e
  repeat' split at e
  all_goals first
    | (simp only [reduceCtorEq] at e; done)
    | (simp only [Except.ok.injEq, Prod.mk.injEq] at e
       obtain ⟨rfl, rfl⟩ := e
       exact ⟨HFrame.refl _, fun _ f => f, Or.inl ⟨rfl, rfl⟩⟩)
    | (simp only [callH_scale, Except.ok.injEq, Prod.mk.injEq] at e
       obtain ⟨rfl, rfl⟩ := e
       have f := freshT_derive h _ (scaleD_semi h B (h.arr B).dtype)
       exact ⟨hframe_derive h _, fun h0 f0 => f.weaken f0.grow, Or.inr f⟩)

theorem scaleBoth_frame (cy : Bool) (h : Heap) (B : Ref) (nl nr ol orr : Option Nat) (SL SR : Res) (fitL fitR : Bool)
    (h2 : Heap) (B2 : Ref) (e : scaleBoth cy h B nl nr ol orr SL SR fitL fitR = .ok (h2, B2)) :
    HFrame h h2 ∧ (∀ h0, FreshT h0 h B → FreshT h0 h2 B2) ∧ ((h2 = h ∧ B2 = B) ∨ FreshT h h2 B2) := by
  unfold scaleBoth at e
  split at e
  · cases e
  · rename_i r2 e1
    obtain ⟨f1, k1, c1⟩ := scaleSide_frame _ _ _ _ _ _ _ r2.1 r2.2 e1
    obtain ⟨f2, k2, c2⟩ := scaleSide_frame _ _ _ _ _ _ _ _ _ e
    refine ⟨f1.trans f2, fun h0 f0 => k2 h0 (k1 h0 f0), ?_⟩
    rcases c2 with ⟨e2, e3⟩ | c2
    · rcases c1 with ⟨e4, e5⟩ | c1
      · left; exact ⟨e2.trans e4, e3.trans e5⟩
      · right; rw [e2, e3]; exact c1
    · right; exact c2.weaken f1.grow

/-- `get_B` only extends the net (the heap by new tensors) -/
theorem getB_next (cy : Bool) (n : Net) (p : Ref) (i : Int) (form : Form) (copy labelP fitL fitR : Bool) :
    NExt n (getB cy n p i form copy labelP fitL fitR).1 := by
  have mk : ∀ h2, HFrame n.h h2 → NExt n { n with h := h2 } := fun h2 hf =>
    ⟨hf, fun _ _ => rfl, fun _ _ => rfl, fun _ _ => rfl, fun _ _ => rfl, fun _ _ => rfl, fun _ _ => rfl⟩
  have hcopy : ∀ B0, HFrame n.h (if copy = true then callH cy n.h .copy { a := [B0], b := [true] } else (n.h, B0)).1 := by
    intro B0
    split
    · rw [callH_copy]; exact hframe_derive _ _
    · exact HFrame.refl _
  have hfin : ∀ (x : Heap × Ref), HFrame n.h x.1 →
      HFrame n.h (if labelP = true then callH cy x.1 .replace_label { a := [x.2] } else x).1 := by
    intro x hx
    split
    · rw [callH_relabel]; exact hx.trans (hframe_derive _ _)
    · exact hx
  unfold getB
  simp only
  split
  · exact NExt.refl n
  · split
    · exact NExt.refl n
    · split
      · exact mk _ (hfin _ (hcopy _))
      · split
        · exact mk _ (hfin _ (hcopy _))
        · split
          · exact NExt.refl n
          · split
            · exact NExt.refl n
            · rename_i r3 e3
              have f1 := (scaleBoth_frame _ _ _ _ _ _ _ _ _ _ _ r3.1 r3.2 e3).1
              exact mk _ (hfin _ ((hcopy _).trans f1))

end TenpyModel.C03

namespace TenpyModel.C03

/-- everything `set_B` can write: the MPS object, its `form` list, its `_B` list, and (by `itranspose`) the given tensor -/
theorem setB_shape (cy : Bool) (n : Net) (p : Ref) (i : Int) (B : Ref) (form : Form) (t : TrHint) :
    let n' := (setB cy n p i B form t).1
    (n'.mps = n.mps ∨ ∃ v, n'.mps = n.mps.set p v) ∧ (n'.vl = n.vl ∨ ∃ v, n'.vl = n.vl.set (n.mpsO p).form v)
      ∧ (n'.tl = n.tl ∨ ∃ v, n'.tl = n.tl.set (n.mpsO p).B v) ∧ (n'.h = n.h ∨ n'.h = transposeH cy n.h B t)
      ∧ n'.sb = n.sb ∧ n'.sl = n.sl ∧ n'.mpo = n.mpo := by
  unfold setB
  simp only
  repeat' split
  all_goals
    refine ⟨?_, ?_, ?_, ?_, rfl, rfl, rfl⟩ <;> first | exact Or.inl rfl | exact Or.inr ⟨_, rfl⟩ | exact Or.inr rfl

theorem setS_shape (n : Net) (p : Ref) (i : Int) (left : Bool) (s : Option Ref) :
    let n' := (setS n p i left s).1
    (n'.sl = n.sl ∨ ∃ v, n'.sl = n.sl.set (n.mpsO p).S v) ∧ n'.h = n.h ∧ n'.tl = n.tl ∧ n'.sb = n.sb ∧ n'.vl = n.vl
      ∧ n'.mps = n.mps ∧ n'.mpo = n.mpo := by
  unfold setS
  simp only
  repeat' split
  all_goals
    refine ⟨?_, rfl, rfl, rfl, rfl, rfl, rfl⟩ <;> first | exact Or.inl rfl | exact Or.inr ⟨_, rfl⟩

theorem setW_shape (n : Net) (H : Ref) (i : Int) (W : Ref) :
    let n' := (setW n H i W).1
    (n'.tl = n.tl ∨ ∃ v, n'.tl = n.tl.set (n.mpoO H).W v) ∧ n'.h = n.h ∧ n'.sl = n.sl ∧ n'.sb = n.sb ∧ n'.vl = n.vl
      ∧ n'.mps = n.mps ∧ n'.mpo = n.mpo := by
  unfold setW
  simp only
  repeat' split
  all_goals
    refine ⟨?_, rfl, rfl, rfl, rfl, rfl, rfl⟩ <;> first | exact Or.inl rfl | exact Or.inr ⟨_, rfl⟩

theorem editId_shape (n : Net) (H : Ref) (left : Bool) (b v : Nat) :
    let n' := (editId n H left b v).1
    (n'.vl = n.vl ∨ ∃ w, n'.vl = n.vl.set (if left then (n.mpoO H).IdL else (n.mpoO H).IdR) w) ∧ n'.h = n.h ∧ n'.tl = n.tl
      ∧ n'.sl = n.sl ∧ n'.sb = n.sb ∧ n'.mps = n.mps ∧ n'.mpo = n.mpo := by
  unfold editId
  simp only
  repeat' split
  all_goals
    refine ⟨?_, rfl, rfl, rfl, rfl, rfl, rfl⟩ <;> first | exact Or.inl rfl | exact Or.inr ⟨_, rfl⟩

/-- a store cell other than the one that may have been written -/
theorem either_get {α} {l l' : List α} {k : Nat} (e : l' = l ∨ ∃ v, l' = l.set k v) (j : Nat) (hj : j ≠ k) : l'[j]? = l[j]? := by
  rcases e with e | ⟨v, e⟩ <;> rw [e]
  exact List.getElem?_set_ne (Ne.symm hj)

/-- `enlarge_mps_unit_cell` / `roll_mps_unit_cell` rebind only: the stores grow, the MPS object is replaced -/
theorem rebind_mps_next (n : Net) (p : Ref) (v : MpsObj) (tl : List (List Ref)) (sl : List (List (Option Ref)))
    (vl : List (List Nat)) (q : Ref) (hq : q ≠ p) (hc : closedMps n q = true) :
    obsMps { n with tl := n.tl ++ tl, sl := n.sl ++ sl, vl := n.vl ++ vl, mps := n.mps.set p v } q = obsMps n q := by
  obtain ⟨c1, c2, c3, c4, c5, c6, c7⟩ := closedMps_parts hc
  have em : Net.mpsO { n with tl := n.tl ++ tl, sl := n.sl ++ sl, vl := n.vl ++ vl, mps := n.mps.set p v } q = n.mpsO q := by
    simp only [Net.mpsO, List.getElem?_set_ne (Ne.symm hq)]
  refine obsMps_congr q em ?_ ?_ ?_ ?_ (fun _ _ => rfl) (fun _ _ => rfl)
  · simp only [Net.tlist, get_append_old _ _ _ c2]
  · simp only [Net.slist, get_append_old _ _ _ c3]
  · simp only [Net.vlist, get_append_old _ _ _ c4]
  · simp only [Net.vlist, get_append_old _ _ _ c5]

end TenpyModel.C03

namespace TenpyModel.C03

/-- nothing that exists is observably changed: every closed tensor, MPS and MPO has the same observation -/
def Unchanged (n n' : Net) : Prop :=
  (∀ r, closed n.h r = true → observe n'.h r = observe n.h r ∧ closed n'.h r = true)
    ∧ (∀ q, closedMps n q = true → obsMps n' q = obsMps n q ∧ closedMps n' q = true)
    ∧ (∀ H, closedMpo n H = true → obsMpo n' H = obsMpo n H ∧ closedMpo n' H = true)

theorem NExt.unchanged {n n' : Net} (x : NExt n n') : Unchanged n n' :=
  ⟨fun r hc => ⟨(x.h.obs r hc).1, (x.h.obs r hc).2.1⟩, fun q hq => x.mpsObs q hq, fun H hH => x.mpoObs H hH⟩

theorem getW_next (cy : Bool) (n : Net) (H : Ref) (i : Int) (copy : Bool) : NExt n (getW cy n H i copy).1 := by
  unfold getW
  simp only
  split
  · exact NExt.refl n
  · split
    · exact NExt.refl n
    · refine ⟨?_, fun _ _ => rfl, fun _ _ => rfl, fun _ _ => rfl, fun _ _ => rfl, fun _ _ => rfl, fun _ _ => rfl⟩
      split
      · rw [callH_copy]; exact hframe_derive _ _
      · exact HFrame.refl _

theorem mpoCopy_next (n : Net) (H : Ref) (own : Bool) : NExt n (mpoCopy n H own).1 := by
  unfold mpoCopy
  simp only
  split
  · exact ⟨HFrame.refl _, fun _ hr => get_append_old _ _ _ hr, fun _ _ => rfl, fun _ _ => rfl,
      fun _ hr => get_append_old _ _ _ hr, fun _ _ => rfl, fun _ hr => get_append_old _ _ _ hr⟩
  · exact ⟨HFrame.refl _, fun _ _ => rfl, fun _ _ => rfl, fun _ _ => rfl, fun _ _ => rfl, fun _ _ => rfl,
      fun _ hr => get_append_old _ _ _ hr⟩

theorem mpoInit_next (cy : Bool) (n : Net) (sites : List Nat) (Ws : Ref) (bc : Nat) (IdL IdR : IdArg) (sane : Bool) :
    NExt n (mpoInit cy n sites Ws bc IdL IdR sane).1 := by
  unfold mpoInit
  simp only
  repeat' split
  all_goals first
    | exact NExt.refl n
    | (have hf := (copyTensors_frame cy _ false _ _ _ _ _ (by assumption)).1
       exact ⟨hf, fun _ hr => get_append_old _ _ _ hr, fun _ _ => rfl, fun _ _ => rfl,
         fun _ hr => get_append_old _ _ _ hr, fun _ _ => rfl, fun _ hr => get_append_old _ _ _ hr⟩)

/-- what a successful `MPO(...)` returns -/
theorem mpoInit_ok {cy : Bool} {n : Net} {sites : List Nat} {Ws : Ref} {bc : Nat} {IdL IdR : IdArg} {sane : Bool}
    {n' : Net} {H : Nat} (e : mpoInit cy n sites Ws bc IdL IdR sane = (n', .ok H)) :
    ∃ h' newWs idl idr,
      copyTensors cy (dtypeJoin n.h (n.tlist Ws)) false n.h (n.tlist Ws) [] = some (h', newWs)
      ∧ getId n sites.length IdL = some idl ∧ getId n sites.length IdR = some idr
      ∧ n' = { n with h := h', tl := n.tl ++ [newWs], vl := n.vl ++ [sites, idl, idr],
                      mpo := n.mpo ++ [{ W := n.tl.length, sites := n.vl.length, IdL := n.vl.length + 1, IdR := n.vl.length + 2,
                                         bc := bc, dtype := dtypeJoin n.h (n.tlist Ws) }] }
      ∧ H = n.mpo.length := by
  unfold mpoInit at e
  simp only at e
  repeat' split at e
  all_goals first
    | (simp only [Prod.mk.injEq, eValue, eIndex, eKey, eAssert, reduceCtorEq, and_false] at e; done)
    | (simp only [Prod.mk.injEq, Res.ok.injEq] at e
       obtain ⟨e1, e2⟩ := e
       exact ⟨_, _, _, _, by assumption, by assumption, by assumption, e1.symm, e2.symm⟩)

theorem getId_length {n : Net} {L : Nat} {a : IdArg} {l : List Nat} (e : getId n L a = some l) : l.length = L + 1 := by
  cases a with
  | none_ => simp only [getId, Option.some.injEq] at e; rw [← e]; simp
  | list r =>
    simp only [getId] at e
    split at e
    · cases e
    · rename_i hl
      simp only [Option.some.injEq] at e
      rw [← e]; simpa using hl
  | scalar v => simp only [getId, Option.some.injEq] at e; rw [← e]; simp

end TenpyModel.C03

namespace TenpyModel.C03
theorem ne_of_eq_lt {a b L : Nat} (h1 : a = L) (h2 : b < L) : a ≠ b := by omega
theorem ne_of_eq_lt1 {a b L : Nat} (h1 : a = L + 1) (h2 : b < L) : a ≠ b := by omega
theorem ne_of_eq_lt2 {a b L : Nat} (h1 : a = L + 2) (h2 : b < L) : a ≠ b := by omega
end TenpyModel.C03

/-! ### `itranspose` on the constructor's copies: they stay fresh -/
namespace TenpyModel.C03

theorem allocBlks_lists (h : Heap) (srcs : List Ref) (b : Bld) (bs : List BlkSrc) :
    (allocBlks h srcs b bs).1.al.lists = b.al.lists ∧ (allocBlks h srcs b bs).1.h = b.h
      ∧ (allocBlks h srcs b bs).1.al.arrs = b.al.arrs := by
  induction bs generalizing b with
  | nil => exact ⟨rfl, rfl, rfl⟩
  | cons s ss ih =>
    simp only [allocBlks]
    have one : (allocBlk h srcs b s).1.al.lists = b.al.lists ∧ (allocBlk h srcs b s).1.h = b.h
        ∧ (allocBlk h srcs b s).1.al.arrs = b.al.arrs := by
      cases s <;> simp [allocBlk, Bld.buf]
    obtain ⟨i1, i2, i3⟩ := ih (allocBlk h srcs b s).1
    exact ⟨i1.trans one.1, i2.trans one.2.1, i3.trans one.2.2⟩

theorem allocBlks_mem (h : Heap) (srcs : List Ref) (b : Bld) (bs : List BlkSrc) :
    ∀ r ∈ (allocBlks h srcs b bs).2, b.h.bufs.length ≤ r
      ∨ ∃ k i, BlkSrc.view k i ∈ bs ∧ r = (h.list (srcArr h srcs k).data).getD i 0 := by
  induction bs generalizing b with
  | nil => intro r hr; simp [allocBlks] at hr
  | cons s ss ih =>
    intro r hr
    simp only [allocBlks, List.mem_cons] at hr
    rcases hr with rfl | hr
    · cases s with
      | view k i => right; exact ⟨k, i, by simp, rfl⟩
      | copy k i => left; simp [allocBlk, Bld.buf]
      | fresh t => left; simp [allocBlk, Bld.buf]
    · have hb : (allocBlk h srcs b s).1.h = b.h := (allocBlk_le h srcs b s).h
      rcases ih _ r hr with h1 | ⟨k, i, hm, e⟩
      · left; rw [hb] at h1; exact h1
      · right; exact ⟨k, i, by simp [hm], e⟩

end TenpyModel.C03

namespace TenpyModel.C03

def itrB (h : Heap) (c : Ref) (t : TrHint) : Bld :=
  ⟨h, { bufs := [[tokOf h + 500], t.keys], lists := [(t.perm.map (LegSrc.src 0)).map (resolveLeg h [c])] }⟩

def itrBlks (cy : Bool) (h : Heap) (c : Ref) (t : TrHint) : List BlkSrc :=
  (List.range (nblk h c)).map fun i => if !cy || t.vf.getD i 0 != 0 then BlkSrc.view 0 i else BlkSrc.fresh (tokOf h + i)

theorem step_itranspose (cy : Bool) (h : Heap) (c : Ref) (t : TrHint) :
    step h (.inplace c (itransposeU cy h c t)) =
      { arrs := h.arrs.set c { legs := h.lists.length, qtotal := (h.arr c).qtotal, labels := h.bufs.length,
                               data := (allocBlks h [c] (itrB h c t) (itrBlks cy h c t)).1.h.lists.length
                                         + (allocBlks h [c] (itrB h c t) (itrBlks cy h c t)).1.al.lists.length,
                               qdata := h.bufs.length + 1, dtype := (h.arr c).dtype, qsorted := false },
        lists := h.lists ++ ((allocBlks h [c] (itrB h c t) (itrBlks cy h c t)).1.al.lists
                   ++ [(allocBlks h [c] (itrB h c t) (itrBlks cy h c t)).2]),
        bufs := h.bufs ++ (allocBlks h [c] (itrB h c t) (itrBlks cy h c t)).1.al.bufs,
        lbufs := h.lbufs ++ (allocBlks h [c] (itrB h c t) (itrBlks cy h c t)).1.al.lbufs,
        legs := h.legs ++ (allocBlks h [c] (itrB h c t) (itrBlks cy h c t)).1.al.legs } := by
  simp [step, plan, planInplace, itransposeU, updBuf, allocBuf, Bld.buf, Bld.list, Plan.apply, setMany, itrB, itrBlks]
  exact (allocBlks_lists h [c] _ _).2.2

/-- `itranspose` on a fresh tensor keeps it fresh: the new `legs` list, `_labels`, `_qdata`, `_data` list are new cells and the
blocks are views of its own (fresh) blocks or new buffers -/
theorem freshT_itranspose {h0 h : Heap} {c : Ref} (f : FreshT h0 h c) (cy : Bool) (t : TrHint) :
    FreshT h0 (step h (.inplace c (itransposeU cy h c t))) c := by
  have gr := step_grows h (.inplace c (itransposeU cy h c t))
  rw [step_itranspose] at gr ⊢
  obtain ⟨al1, al2, _⟩ := allocBlks_lists h [c] (itrB h c t) (itrBlks cy h c t)
  have hmem := allocBlks_mem h [c] (itrB h c t) (itrBlks cy h c t)
  generalize allocBlks h [c] (itrB h c t) (itrBlks cy h c t) = X at *
  obtain ⟨b4, rs⟩ := X
  simp only [itrB] at al1 al2 hmem
  simp only [al1, al2, List.length_cons, List.length_nil, Nat.zero_add] at gr ⊢
  have hA : ∀ (A : ArrObj) (L : List (List Ref)) (Bf LB : List (List Nat)) (G : List LegObj),
      Heap.arr { arrs := h.arrs.set c A, lists := L, bufs := Bf, lbufs := LB, legs := G } c = A := by
    intro A L Bf LB G; simp [Heap.arr, List.getElem?_set_self f.lt]
  have hrs : ∀ r ∈ rs, h0.bufs.length ≤ r := by
    intro r hr
    rcases hmem r hr with h1 | ⟨k, i, hm, e⟩
    · exact Nat.le_trans f.grow.bufs h1
    · simp only [itrBlks, List.mem_map, List.mem_range] at hm
      obtain ⟨i', hi', e'⟩ := hm
      split at e'
      · simp only [BlkSrc.view.injEq] at e'
        obtain ⟨rfl, rfl⟩ := e'
        rw [e]
        apply f.bufs
        simp only [wBufs, srcArr, List.getD_cons_zero, List.cons_append, List.nil_append, List.mem_cons]
        right; right
        simp only [nblk] at hi'
        rw [List.getD_eq_getElem?_getD, List.getElem?_eq_getElem hi']
        exact List.getElem_mem hi'
      · cases e'
  refine ⟨f.grow.trans gr, by simpa using f.lt, f.ge, ?_, ?_⟩
  · intro x hx
    simp only [mutLists, hA, List.mem_cons, List.not_mem_nil, or_false] at hx
    have := f.grow.lists
    rcases hx with rfl | rfl <;> simp <;> omega
  · intro x hx
    simp only [wBufs, hA, Heap.list] at hx
    rw [List.getElem?_append_right (by omega)] at hx
    simp only [List.cons_append, List.nil_append, List.mem_cons] at hx
    have := f.grow.bufs
    rcases hx with rfl | rfl | hx
    · omega
    · omega
    · simp at hx
      exact hrs x hx



/-- a step that writes no Python list and not the object `c` itself keeps `c` fresh -/
theorem freshT_step {h0 h : Heap} {c : Ref} (f : FreshT h0 h c) (op : Op) (hl : (plan h op).wr.lists = [])
    (ha : ∀ w ∈ (plan h op).wr.arrs, w.1 ≠ c) : FreshT h0 (step h op) c := by
  have eA : (step h op).arr c = h.arr c := by
    simp only [Heap.arr, step, Plan.apply]
    rw [store_old _ _ _ _ f.lt ha]
  have eL : ∀ x ∈ mutLists h c, (step h op).list x = h.list x := by
    intro x hx
    simp only [Heap.list, step, Plan.apply, hl]
    rw [store_old _ _ _ _ (f.lists x hx).2 (by simp)]
  have eml : mutLists (step h op) c = mutLists h c := by simp only [mutLists, eA]
  have ewb : wBufs (step h op) c = wBufs h c := by
    simp only [wBufs, eA, eL (h.arr c).data (by simp [mutLists])]
  refine ⟨f.grow.trans (step_grows h op), Nat.lt_of_lt_of_le f.lt (step_grows h op).arrs, f.ge, ?_, ?_⟩
  · intro x hx; rw [eml] at hx
    exact ⟨(f.lists x hx).1, Nat.lt_of_lt_of_le (f.lists x hx).2 (step_grows h op).lists⟩
  · intro x hx; rw [ewb] at hx; exact f.bufs x hx

/-- `B.itranspose(labels)` on `b`: every fresh tensor stays fresh (`b` itself included) -/
theorem freshT_transposeH {h0 h : Heap} {c : Ref} (f : FreshT h0 h c) (cy : Bool) (b : Ref) (t : TrHint) :
    FreshT h0 (transposeH cy h b t) c := by
  rcases transposeH_eq cy h b t with e | e <;> rw [e]
  · exact f
  · by_cases hcb : c = b
    · subst hcb; exact freshT_itranspose f cy t
    · obtain ⟨e1, _⟩ := planInplace_rebindOnly h b (itransposeU cy h b t) (itransposeU_rebind cy h b t)
      obtain ⟨_, _, wa, _, _⟩ := planInplace_writes h b (itransposeU cy h b t)
      exact freshT_step f _ e1 (fun w hw e => hcb (e.symm.trans (wa w hw)))

/-- the copies made by the constructors are fresh, with or without transposition -/
theorem copyTensors_fresh' (cy : Bool) (dtype : Nat) (tr : Bool) (bs : List Ref) :
    ∀ (h : Heap) (ts : List TrHint) (h' : Heap) (cs : List Ref), copyTensors cy dtype tr h bs ts = some (h', cs) →
      (∀ h0 c0, FreshT h0 h c0 → FreshT h0 h' c0) ∧ (∀ c ∈ cs, FreshT h h' c) := by
  induction bs with
  | nil =>
    intro h ts h' cs e
    simp only [copyTensors, Option.some.injEq, Prod.mk.injEq] at e
    obtain ⟨rfl, rfl⟩ := e
    exact ⟨fun _ _ f => f, by simp⟩
  | cons b bs ih =>
    intro h ts h' cs e
    simp only [copyTensors, callH_astype] at e
    split at e
    · cases e
    · simp only [Option.map_eq_some_iff] at e
      obtain ⟨⟨h2, cs2⟩, e2, e3⟩ := e
      simp only [Prod.mk.injEq] at e3
      obtain ⟨rfl, rfl⟩ := e3
      obtain ⟨k2, f2⟩ := ih _ _ _ _ e2
      have kT : ∀ h0 c0, FreshT h0 (step h (.derive (astypeD h b dtype))) c0 →
          FreshT h0 (if tr = true then transposeH cy (step h (.derive (astypeD h b dtype))) h.arrs.length (ts.headD {})
                     else step h (.derive (astypeD h b dtype))) c0 := by
        intro h0 c0 f
        split
        · exact freshT_transposeH f cy _ _
        · exact f
      have gT : Grows h (if tr = true then transposeH cy (step h (.derive (astypeD h b dtype))) h.arrs.length (ts.headD {})
                          else step h (.derive (astypeD h b dtype))) := by
        split
        · exact (step_grows h _).trans (transposeH_frame cy _ _ _).2
        · exact step_grows h _
      have f1 : FreshT h (step h (.derive (astypeD h b dtype))) h.arrs.length := freshT_derive h _ (astypeD_semi h b dtype)
      refine ⟨fun h0 c0 f => k2 h0 c0 (kT h0 c0 (freshT_pure f _ (planDerive_wr h _))), ?_⟩
      intro c hc
      simp only [List.mem_cons] at hc
      rcases hc with rfl | hc
      · exact k2 _ _ (kT _ _ f1)
      · exact (f2 c hc).weaken gT

end TenpyModel.C03

/-! ### `MPO.sort_legcharges`: the tensor-level part is a frame -/
namespace TenpyModel.C03

theorem emitLegs_frame (s : St) (ds : List LegDerive) :
    HFrame s.h (emitLegs s ds).1.h ∧ ∀ h0 c, FreshT h0 s.h c → FreshT h0 (emitLegs s ds).1.h c := by
  unfold emitLegs
  suffices h : ∀ (acc : St × List Ref),
      HFrame acc.1.h (ds.foldl (fun (acc : St × List Ref) d => let (s', r) := acc.1.emit (.leg d); (s', acc.2 ++ [r])) acc).1.h
        ∧ ∀ h0 c, FreshT h0 acc.1.h c →
            FreshT h0 (ds.foldl (fun (acc : St × List Ref) d => let (s', r) := acc.1.emit (.leg d); (s', acc.2 ++ [r])) acc).1.h c
    from h (s, [])
  induction ds with
  | nil => intro acc; exact ⟨HFrame.refl _, fun _ _ f => f⟩
  | cons d ds ih =>
    intro acc
    obtain ⟨f, k⟩ := ih ((acc.1.emit (.leg d)).1, acc.2 ++ [(acc.1.emit (.leg d)).2])
    have f1 : HFrame acc.1.h (acc.1.emit (.leg d)).1.h := hframe_pure _ _ (planLeg_wr _ d)
    exact ⟨f1.trans f, fun h0 c fr => k h0 c (freshT_pure fr _ (planLeg_wr _ d))⟩

theorem callH_transpose_frame (cy : Bool) (h : Heap) (x : Args) : HFrame h (callH cy h .transpose x).1 := by
  simp only [callH, callSt]
  split <;> exact hframe_derive _ _

/-- the call `fresh`: leg-producing operations, then the derivation of a tensor all of whose writable containers are new -/
theorem callH_fresh_spec (cy : Bool) (h : Heap) (x : Args) :
    ∃ hm d, callH cy h .fresh x = (step hm (.derive d), hm.arrs.length) ∧ HFrame h hm ∧ d.semiIsolated = true := by
  simp only [callH, callSt, emit_h, emit_ref, derive_res, derive_res']
  refine ⟨_, _, rfl, (emitLegs_frame { h := h } _).1, ?_⟩
  simp [Derive.semiIsolated, BufSrc.notShared, freshBlks_notView]

/-- the call `to_LegCharge_legs`: leg-producing operations, then one in-place method on operand 0 that does not write the
total charge -/
theorem callH_toLC_spec (cy : Bool) (h : Heap) (x : Args) :
    ∃ hm u, (callH cy h .to_LegCharge_legs x).1 = step hm (.inplace (x.A 0) u) ∧ HFrame h hm
      ∧ (∀ h0 c, FreshT h0 h c → FreshT h0 hm c) ∧ u.qtSafe = true := by
  simp only [callH, callSt, emit_h]
  exact ⟨_, _, rfl, (emitLegs_frame { h := h } _).1, (emitLegs_frame { h := h } _).2, rfl⟩

/-- `w.transpose(...)`, `sort_legcharge(...)` on one stored tensor: every tensor that existed is unchanged (the in-place
replacement of the sorted legs acts on the new tensor) -/
theorem sortOne_frame (cy : Bool) (h : Heap) (w : Ref) (t : SortHint) :
    HFrame h (callH cy (callH cy (callH cy h .transpose { t.tr with a := [w] }).1 .fresh
      { t.fresh with a := [(callH cy h .transpose { t.tr with a := [w] }).2] }).1 .to_LegCharge_legs
      { a := [(callH cy (callH cy h .transpose { t.tr with a := [w] }).1 .fresh
          { t.fresh with a := [(callH cy h .transpose { t.tr with a := [w] }).2] }).2], l := [t.axes] }).1 := by
  have F1 := callH_transpose_frame cy h { t.tr with a := [w] }
  generalize callH cy h .transpose { t.tr with a := [w] } = r1 at *
  obtain ⟨hm, d, e2, F2, sd⟩ := callH_fresh_spec cy r1.1 { t.fresh with a := [r1.2] }
  rw [e2]
  simp only
  have fr : FreshT hm (step hm (.derive d)) hm.arrs.length := freshT_derive hm d sd
  obtain ⟨hm3, u, e3, F3, k3, hq⟩ := callH_toLC_spec cy (step hm (.derive d)) { a := [hm.arrs.length], l := [t.axes] }
  rw [e3]
  simp only [Args.A, List.getD_cons_zero]
  have F : HFrame h hm3 := ((F1.trans F2).trans (hframe_derive hm d)).trans F3
  have fr3 : FreshT h hm3 hm.arrs.length := (k3 _ _ fr).weaken (F1.trans F2).grow
  refine ⟨fun r hc => ?_, F.grow.trans (step_grows _ _)⟩
  obtain ⟨o, c, ml, mb⟩ := F.obs r hc
  have hal := freshT_not_aliased fr3 hc ml mb
  obtain ⟨o2, c2, m2, b2⟩ := keeps_frame (inplace_keeps_q hm3 _ u hq r c hal)
  exact ⟨o2.trans o, c2, m2.trans ml, b2.trans mb⟩

theorem sortTensors_frame (cy : Bool) (ws : List Ref) : ∀ (h : Heap) (hs : List SortHint), HFrame h (sortTensors cy h ws hs).1 := by
  induction ws with
  | nil => intro h hs; exact HFrame.refl h
  | cons w ws ih =>
    intro h hs
    simp only [sortTensors]
    exact (sortOne_frame cy h w (hs.headD {})).trans (ih _ _)

end TenpyModel.C03
