import TenpyModel.C03.Heap
/-
C03 — the four kinds of heap transformers every tensor operation is made of.

  `Op.leg`     a leg-producing function (`LegCharge.conj/flip_charges_qconj/sort/bunch/project/extend/…`,
               `LegPipe(...)`): allocates one new leg object; states which of `slices` / `charges` it shares
               with the source leg (or returns the source itself)
  `Op.derive`  a function that is NOT in place: allocates one new `Array` from up to several operands and says,
               attribute by attribute and block by block, what is shared with which operand and what is fresh
  `Op.inplace` an in-place method on target `t`: says which attributes are *rebound* to new objects, which
               existing containers of `t` are *mutated*, and which blocks of `t` are written
  `Op.resort`  `isort_qdata` / `_imake_contiguous` applied to an operand: re-orders the `_data` list and `_qdata`
               consistently (new list, new `_qdata`), replaces non-contiguous blocks by equal copies

The table `Call` (file Calls.lean) expresses each public tenpy operation by these.
-/
namespace TenpyModel.C03

/-! ### leg-producing functions -/

inductive SubSrc where
  | none                    -- result is a plain LegCharge
  | same                    -- the very same tuple of incoming legs as the source pipe
  | refs (ls : List Ref)    -- given incoming legs
deriving Repr

structure LegDerive where
  src      : Ref := 0
  retSelf  : Bool := false   -- "nothing to do": the function returns its argument
  shSlices : Bool := false   -- result.slices is source.slices (same array object)
  shCharges: Bool := false
  sub      : SubSrc := .none
  qconj    : Int := 1
  sorted   : Bool := false
  bunched  : Bool := false
  tok      : Nat := 0        -- contents of freshly computed arrays
deriving Repr

def planLeg (h : Heap) (d : LegDerive) : Plan :=
  if d.retSelf then { res := [d.src] } else
  let S := h.leg d.src
  let b : Bld := { h := h }
  let (b, sl) := if d.shSlices then (b, S.slices) else b.lbuf [d.tok]
  let (b, ch) := if d.shCharges then (b, S.charges) else b.lbuf [d.tok + 1]
  let sub := match d.sub with
    | .none => []
    | .same => S.sub
    | .refs ls => ls
  let (b, l) := b.leg { slices := sl, charges := ch, qconj := d.qconj, sorted := d.sorted, bunched := d.bunched,
                        sub := sub }
  { al := b.al, res := [l] }

/-! ### functions that are not in place -/

inductive LegSrc where
  | src (k i : Nat)     -- the very leg object `operand k`.legs[i]
  | ref (l : Ref)       -- a given leg object
deriving Repr

inductive BufSrc where
  | shared (k : Nat)          -- the same array object as operand k's attribute
  | copy (k : Nat)            -- a fresh array with the same contents
  | fresh (cells : List Nat)  -- a freshly computed array
deriving Repr

inductive BlkSrc where
  | view (k i : Nat)    -- operand k's block i itself, or a view of it (same base buffer)
  | copy (k i : Nat)    -- a fresh buffer with equal contents
  | fresh (tok : Nat)   -- a freshly computed block
deriving Repr

inductive DataSrc where
  | sharedList (k : Nat)          -- the same Python list object as operand k's `_data`
  | newList (bs : List BlkSrc)
deriving Repr

inductive LegsSrc where
  | sharedList (k : Nat)          -- the same Python list object as operand k's `legs` (never in tenpy; for mutants)
  | newList (ls : List LegSrc)
  | sameAs (k : Nat)              -- `list(operand k.legs)`
deriving Repr

structure Derive where
  srcs    : List Ref
  legs    : LegsSrc := .sameAs 0
  qtotal  : BufSrc := .copy 0
  labels  : BufSrc := .copy 0
  qdata   : BufSrc := .copy 0
  data    : DataSrc := .newList []
  dtype   : Option Nat := none     -- none: dtype of operand 0
  qsorted : Option Bool := none
deriving Repr

def srcArr (h : Heap) (srcs : List Ref) (k : Nat) : ArrObj := h.arr (srcs.getD k 0)

def resolveLeg (h : Heap) (srcs : List Ref) : LegSrc → Ref
  | .src k i => (h.list (srcArr h srcs k).legs).getD i 0
  | .ref l => l

def allocBuf (h : Heap) (srcs : List Ref) (get : ArrObj → Ref) (b : Bld) : BufSrc → Bld × Ref
  | .shared k => (b, get (srcArr h srcs k))
  | .copy k => b.buf (h.buf (get (srcArr h srcs k)))
  | .fresh c => b.buf c

def allocBlk (h : Heap) (srcs : List Ref) (b : Bld) : BlkSrc → Bld × Ref
  | .view k i => (b, (h.list (srcArr h srcs k).data).getD i 0)
  | .copy k i => b.buf (h.buf ((h.list (srcArr h srcs k).data).getD i 0))
  | .fresh t => b.buf [t]

def allocBlks (h : Heap) (srcs : List Ref) : Bld → List BlkSrc → Bld × List Ref
  | b, [] => (b, [])
  | b, s :: ss =>
    let (b, r) := allocBlk h srcs b s
    let (b, rs) := allocBlks h srcs b ss
    (b, r :: rs)

def allocData (h : Heap) (srcs : List Ref) (b : Bld) : DataSrc → Bld × Ref
  | .sharedList k => (b, (srcArr h srcs k).data)
  | .newList bs =>
    let (b, rs) := allocBlks h srcs b bs
    b.list rs

def allocLegs (h : Heap) (srcs : List Ref) (b : Bld) : LegsSrc → Bld × Ref
  | .sharedList k => (b, (srcArr h srcs k).legs)
  | .newList ls => b.list (ls.map (resolveLeg h srcs))
  | .sameAs k => b.list (h.list (srcArr h srcs k).legs)

def planDerive (h : Heap) (d : Derive) : Plan :=
  let A0 := srcArr h d.srcs 0
  let b : Bld := { h := h }
  let (b, legs) := allocLegs h d.srcs b d.legs
  let (b, qt) := allocBuf h d.srcs (·.qtotal) b d.qtotal
  let (b, lab) := allocBuf h d.srcs (·.labels) b d.labels
  let (b, qd) := allocBuf h d.srcs (·.qdata) b d.qdata
  let (b, dat) := allocData h d.srcs b d.data
  let (b, a) := b.arr { legs := legs, qtotal := qt, labels := lab, data := dat, qdata := qd,
                        dtype := d.dtype.getD A0.dtype, qsorted := d.qsorted.getD A0.qsorted }
  { al := b.al, res := [a] }

/-! ### in-place methods -/

/-- what happens to one attribute of the target -/
inductive Upd (α : Type) where
  | keep
  | rebind (v : α)    -- `self.attr = <new object>`
  | mutate (v : α)    -- `self.attr[...] = …`, `self.attr.append(…)`: the existing container is written
deriving Repr

/-- operand 0 is the target itself, operands 1.. are `others` -/
structure Update where
  others  : List Ref := []
  legs    : Upd (List LegSrc) := .keep
  qtotal  : Upd BufSrc := .keep       -- `mutate (.fresh c)`: contents become `c`; other `mutate` forms write the source's contents
  labels  : Upd BufSrc := .keep
  qdata   : Upd BufSrc := .keep
  data    : Upd (List BlkSrc) := .keep
  wblocks : List (Nat × Nat) := []    -- (index into the target's current `_data`, new contents): block written in place
  dtype   : Option Nat := none
  qsorted : Option Bool := none
deriving Repr

def bufCells (h : Heap) (srcs : List Ref) (get : ArrObj → Ref) : BufSrc → List Nat
  | .shared k => h.buf (get (srcArr h srcs k))
  | .copy k => h.buf (get (srcArr h srcs k))
  | .fresh c => c

/-- one attribute that is a value buffer: returns (builder, new reference, in-place writes) -/
def updBuf (h : Heap) (srcs : List Ref) (get : ArrObj → Ref) (A : ArrObj) (b : Bld) :
    Upd BufSrc → Bld × Ref × List (Ref × List Nat)
  | .keep => (b, get A, [])
  | .rebind s => let (b, r) := allocBuf h srcs get b s; (b, r, [])
  | .mutate s => (b, get A, [(get A, bufCells h srcs get s)])

def planInplace (h : Heap) (t : Ref) (u : Update) : Plan :=
  let A := h.arr t
  let srcs := t :: u.others
  let b : Bld := { h := h }
  let (b, legs, wLegs) := match u.legs with
    | .keep => (b, A.legs, [])
    | .rebind ls => let (b, r) := b.list (ls.map (resolveLeg h srcs)); (b, r, [])
    | .mutate ls => (b, A.legs, [(A.legs, ls.map (resolveLeg h srcs))])
  let (b, qt, wQt) := updBuf h srcs (·.qtotal) A b u.qtotal
  let (b, lab, wLab) := updBuf h srcs (·.labels) A b u.labels
  let (b, qd, wQd) := updBuf h srcs (·.qdata) A b u.qdata
  let (b, dat, wDat) := match u.data with
    | .keep => (b, A.data, [])
    | .rebind bs => let (b, rs) := allocBlks h srcs b bs; let (b, r) := b.list rs; (b, r, [])
    | .mutate bs => let (b, rs) := allocBlks h srcs b bs; (b, A.data, [(A.data, rs)])
  let wBlk := u.wblocks.filterMap (fun (i, tok) => ((h.list A.data)[i]?).map (fun r => (r, [tok])))
  let A' : ArrObj := { legs := legs, qtotal := qt, labels := lab, data := dat, qdata := qd,
                       dtype := u.dtype.getD A.dtype, qsorted := u.qsorted.getD A.qsorted }
  { al := b.al,
    wr := { arrs := [(t, A')], lists := wLegs ++ wDat, bufs := wQt ++ wLab ++ wQd ++ wBlk },
    res := [t] }

/-! ### `isort_qdata` / `_imake_contiguous` -/

def insertKey (x : Nat × Ref) : List (Nat × Ref) → List (Nat × Ref)
  | [] => [x]
  | y :: ys => if x.1 ≤ y.1 then x :: y :: ys else y :: insertKey x ys

/-- stable sort of (key, block) pairs by key: `np.lexsort(self._qdata.T)` on the rows' F-stride keys -/
def sortKeys : List (Nat × Ref) → List (Nat × Ref)
  | [] => []
  | x :: xs => insertKey x (sortKeys xs)

/-- the non-contiguous blocks get fresh buffers at consecutive addresses from `base` -/
def freshMap (base : Nat) : List Ref → List (Ref × Ref)
  | [] => []
  | r :: rs => (r, base) :: freshMap (base + 1) rs

def lookupRef (m : List (Ref × Ref)) (r : Ref) : Ref :=
  match m.find? (·.1 == r) with
  | some p => p.2
  | none => r

def resortDoSort (h : Heap) (t : Ref) (sort : Bool) : Bool :=
  sort && !(h.arr t).qsorted && decide ((h.buf (h.arr t).qdata).length ≥ 2)

/-- (key, block) pairs in the order in which they are stored afterwards -/
def resortPairs (h : Heap) (t : Ref) (sort : Bool) : List (Nat × Ref) :=
  if resortDoSort h t sort then sortKeys ((h.buf (h.arr t).qdata).zip (h.list (h.arr t).data))
  else (h.buf (h.arr t).qdata).zip (h.list (h.arr t).data)

/-- the blocks that are not C-contiguous (flags refer to the positions before sorting: the harness reads them
before the call) -/
def resortFlagged (h : Heap) (t : Ref) (contig : Option (List Bool)) : List Ref :=
  ((h.list (h.arr t).data).zip (contig.getD [])).filterMap (fun (x : Ref × Bool) => if x.2 then none else some x.1)

def resortExtra (h : Heap) (t : Ref) (sort : Bool) : List (List Nat) :=
  if resortDoSort h t sort then [(resortPairs h t sort).map (·.1)] else []

def resortQd (h : Heap) (t : Ref) (sort : Bool) (contig : Option (List Bool)) : Ref :=
  if resortDoSort h t sort then h.bufs.length + (resortFlagged h t contig).length else (h.arr t).qdata

/-- new `_data` list (and a new `_qdata` when sorted); fresh copies of the non-contiguous blocks -/
def resortMain (h : Heap) (t : Ref) (sort : Bool) (contig : Option (List Bool)) : Plan :=
  { al := { bufs := (resortFlagged h t contig).map h.buf ++ resortExtra h t sort,
            lists := [(resortPairs h t sort).map
                        (fun p => lookupRef (freshMap h.bufs.length (resortFlagged h t contig)) p.2)] },
    wr := { arrs := [(t, { h.arr t with data := h.lists.length, qdata := resortQd h t sort contig,
                                        qsorted := (h.arr t).qsorted || sort })] },
    res := [t] }

/-- `sort`: `isort_qdata()`; `contig = some flags`: `_imake_contiguous()` where `flags[i] = false` means block `i`
is not C-contiguous and is replaced by a contiguous copy (the `_data` list is always a new list then).
Total completion: on a tensor whose `_qdata` and `_data` have different lengths nothing is done. -/
def planResort (h : Heap) (t : Ref) (sort : Bool) (contig : Option (List Bool)) : Plan :=
  if (h.buf (h.arr t).qdata).length != (h.list (h.arr t).data).length then { res := [t] } else
  if !resortDoSort h t sort && !contig.isSome then
    { wr := { arrs := [(t, { h.arr t with qsorted := (h.arr t).qsorted || sort })] }, res := [t] }
  else resortMain h t sort contig

/-! ### operations, steps, histories -/

inductive Op where
  | leg (d : LegDerive)
  | derive (d : Derive)
  | inplace (t : Ref) (u : Update)
  | resort (t : Ref) (sort : Bool) (contig : Option (List Bool))
deriving Repr

def plan (h : Heap) : Op → Plan
  | .leg d => planLeg h d
  | .derive d => planDerive h d
  | .inplace t u => planInplace h t u
  | .resort t s c => planResort h t s c

def step (h : Heap) (op : Op) : Heap := (plan h op).apply h
def stepRes (h : Heap) (op : Op) : List Ref := (plan h op).res

def run : Heap → List Op → Heap
  | h, [] => h
  | h, op :: ops => run (step h op) ops

/-- the target of an in-place method; `none` for everything that is not marked in place -/
def Op.target : Op → Option Ref
  | .inplace t _ => some t
  | _ => none

/-- an in-place method that only rebinds attributes of its target (no existing container is written) -/
def Update.rebindOnly (u : Update) : Bool :=
  (match u.legs with | .mutate _ => false | _ => true) && (match u.qtotal with | .mutate _ => false | _ => true)
  && (match u.labels with | .mutate _ => false | _ => true) && (match u.qdata with | .mutate _ => false | _ => true)
  && (match u.data with | .mutate _ => false | _ => true) && u.wblocks.isEmpty

end TenpyModel.C03
