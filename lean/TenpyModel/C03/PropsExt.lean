import TenpyModel.C03.ExtNetProofs
import TenpyModel.C03.Props
/-!
# C03 extension — the network level: MPS / MPO containers never corrupt what they are given

Model: `ExtNet.lean` (`MPS.__init__`, `copy`, `get_B`, `set_B`, `get_SL/SR`, `set_SL/SR`, `enlarge_mps_unit_cell`,
`roll_mps_unit_cell`, `MPO.__init__`, `copy`, `get_W`, `set_W`, `get_IdL/IdR`, `enlarge_mps_unit_cell`, `sort_legcharges`,
index normalisation, `_parse_form`, `_get_Id`), on top of the tensor heap of `Heap.lean` / `Calls.lean`.

`closedMps n p` / `closedMpo n H` / `closed h r`: every reference reachable from the observed object is allocated —
the only hypothesis about the state; nothing is assumed about the rest of the net.
-/
open TenpyModel.C03

/-! ## index normalisation -/

/-- **Infinite systems: every integer is a valid site index**, it is mapped to `i mod L` inside the unit cell and
`i = cell * L + index`. -/
theorem C03_validSite_infinite (L : Nat) (hL : 0 < L) (i : Int) :
    ∃ j q, validSite L 2 i = some (j, q) ∧ j < L ∧ (j : Int) = i % (L : Int) ∧ i = q * (L : Int) + (j : Int) := by
  have hL' : (0 : Int) < (L : Int) := by exact_mod_cast hL
  have h0 : L ≠ 0 := Nat.pos_iff_ne_zero.1 hL
  have hnn : 0 ≤ i % (L : Int) := Int.emod_nonneg _ (by omega)
  have hlt : i % (L : Int) < (L : Int) := Int.emod_lt_of_pos _ hL'
  refine ⟨(i % (L : Int)).toNat, i / (L : Int), ?_, ?_, ?_, ?_⟩
  · simp [validSite, h0, finiteBc]
  · omega
  · omega
  · have := Int.mul_ediv_add_emod i (L : Int)
    rw [Int.toNat_of_nonneg hnn, Int.mul_comm]
    omega

/-- … and indices that differ by a multiple of `L` address the same entry (periodicity of `get_B`, `set_B`, …). -/
theorem C03_validSite_periodic (L : Nat) (i k : Int) :
    (validSite L 2 (i + k * (L : Int))).map (·.1) = (validSite L 2 i).map (·.1) := by
  by_cases h0 : L = 0
  · simp [validSite, h0]
  · simp [validSite, h0, finiteBc, Int.add_mul_emod_self_right]

/-- **Finite systems** (`finite`, `segment`): exactly the indices `-L ≤ i < L` are accepted (negative ones are the
deprecated Python-style indices), the unit cell is always 0, and the entry addressed is `i` resp. `i + L`. -/
theorem C03_validSite_finite (L : Nat) (hL : 0 < L) (bc : Nat) (hbc : bc ≠ 2) (i : Int) :
    (-(L : Int) ≤ i ∧ i < (L : Int) →
        ∃ j, validSite L bc i = some (j, 0) ∧ j < L ∧ (j : Int) = if i < 0 then i + (L : Int) else i)
      ∧ (¬(-(L : Int) ≤ i ∧ i < (L : Int)) → validSite L bc i = none) := by
  have hL' : (0 : Int) < (L : Int) := by exact_mod_cast hL
  have h0 : L ≠ 0 := Nat.pos_iff_ne_zero.1 hL
  have hfin : finiteBc bc = true := by simp [finiteBc, hbc]
  have hnn : 0 ≤ i % (L : Int) := Int.emod_nonneg _ (by omega)
  have hlt : i % (L : Int) < (L : Int) := Int.emod_lt_of_pos _ hL'
  have hdm := Int.mul_ediv_add_emod i (L : Int)
  constructor
  · intro ⟨h1, h2⟩
    have hq : i / (L : Int) = -1 ∨ i / (L : Int) = 0 := by
      by_cases hneg : i < 0
      · left
        have a1 : i / (L : Int) < 0 := Int.ediv_neg_of_neg_of_pos hneg hL'
        have a2 : -1 ≤ i / (L : Int) := by
          by_cases hlt2 : i / (L : Int) < -1
          · exfalso
            have : (L : Int) * (i / (L : Int)) ≤ (L : Int) * (-2) := Int.mul_le_mul_of_nonneg_left (by omega) (by omega)
            omega
          · omega
        omega
      · right; exact Int.ediv_eq_zero_of_lt (by omega) h2
    refine ⟨(i % (L : Int)).toNat, ?_, by omega, ?_⟩
    · simp only [validSite, h0, hfin, ite_true, ite_false, hq]
    · rw [Int.toNat_of_nonneg hnn]
      rcases hq with hq | hq
      · rw [hq] at hdm
        have : i < 0 := by omega
        simp only [this, ite_true]; omega
      · rw [hq] at hdm
        have : ¬ i < 0 := by omega
        simp only [this, ite_false]; omega
  · intro hn
    have hq : ¬(i / (L : Int) = -1 ∨ i / (L : Int) = 0) := by
      intro hq
      apply hn
      rcases hq with hq | hq <;> rw [hq] at hdm <;> omega
    simp only [validSite, h0, hfin, ite_true, ite_false, hq]

/-- **`get_SR(i)` is `get_SL(i + 1)`**: for infinite systems the bond right of site `i` is normalised exactly like the
bond left of site `i + 1` (also across the unit cell boundary); for finite systems it is entry `index + 1` of `_S`. -/
theorem C03_validBond_right_left (L : Nat) (i : Int) :
    validBond L 2 i false = validBond L 2 (i + 1) true
      ∧ ∀ bc, bc ≠ 2 → validBond L bc i false = (validSite L bc i).map (fun x => (x.1 + 1, 0))
      ∧ validBond L bc i true = (validSite L bc i).map (fun x => (x.1, 0)) := by
  refine ⟨by simp [validBond, finiteBc], fun bc hbc => ?_⟩
  have hfin : finiteBc bc = true := by simp [finiteBc, hbc]
  simp [validBond, hfin]

example : validSite 3 2 (-4) = some (2, -2) ∧ validSite 3 2 7 = some (1, 2) ∧ validSite 3 0 (-1) = some (2, 0)
    ∧ validSite 3 0 3 = none ∧ validSite 3 1 (-4) = none ∧ validBond 3 2 2 false = some (0, 1)
    ∧ validBond 3 0 2 false = some (3, 0) := by decide

/-! ## the total charge array is never written in place -/

/-- **No operation of the table writes a total charge array in place** (both kernels, all heaps and arguments): every
in-place method either keeps `qtotal` or rebinds it to a new array. This is what makes the sharing of `qtotal` by
`astype`, `scale_axis`, shallow copies — and hence by `MPS(...)`, `psi.copy()`, `MPO(...)` — harmless. -/
theorem C03_calls_never_write_qtotal (cy : Bool) (h : Heap) (c : CN) (x : Args) :
    ∀ op ∈ callOps cy h c x, op.qtSafe = true := calls_qtSafe cy h c x

/-- **Refined in-place footprint.** An in-place method on `t` that does not write the total charge in place changes only
tensors that read one of `t`'s lists, its `_labels`, `_qdata` or one of its blocks; a tensor that merely shares the total
charge array with `t` (`aliases … = false`, while `shares … = true`) is unchanged. -/
theorem C03_inplace_footprint_qtotal (h : Heap) (t : Ref) (u : Update) (hq : u.qtSafe = true) (r : Ref)
    (hc : closed h r = true) (hs : aliases h r t = false) : observe (step h (.inplace t u)) r = observe h r :=
  (inplace_keeps_q h t u hq r hc hs).1

namespace TenpyModel.C03
/-- a leg, and a tensor on it with two blocks -/
def hE : Heap :=
  run {} [.leg { qconj := 1, sorted := true, bunched := true, tok := 10 },
          .derive { srcs := [], legs := .newList [.ref 0, .ref 0, .ref 0], qtotal := .fresh [0], labels := .fresh [1],
                    qdata := .fresh [3, 0], data := .newList [.fresh 100, .fresh 101], dtype := some 0, qsorted := some false }]
/-- `a1 = a0.astype(float, copy=True)` -/
def hE1 : Heap := (callH true hE .astype { a := [0], n := [0], b := [true] }).1
end TenpyModel.C03

/-- `astype(copy=True)` shares the total charge array with its operand (`shares`), but no in-place method on either can
reach the other (`aliases`); writing a block of the copy leaves the operand unchanged -/
example : shares hE1 0 1 = true ∧ aliases hE1 0 1 = false ∧ aliases hE1 1 0 = false ∧ closed hE1 0 = true
    ∧ observe (step hE1 (.inplace 1 { wblocks := [(0, 7)] })) 0 = observe hE1 0
    ∧ observe (step hE1 (.inplace 1 { wblocks := [(0, 7)] })) 1 ≠ observe hE1 1 := by decide +kernel

/-! ## constructors and copies -/


/-- **`MPS(sites, Bs, SVs, bc, form)` and `psi.copy()` change nothing that exists** — whether they succeed or raise:
every closed tensor (in particular the caller's `Bs`), every Python list and singular-value array allocated before
(the caller's `Bs`, `SVs`, `form` lists), every closed MPS and MPO has the same observation afterwards. -/
theorem C03_mps_init_frame (cy : Bool) (n : Net) (sites : List Nat) (Bs SVs : Ref) (bc : Nat) (form : FormArg)
    (ts : List TrHint) (sane : Bool) :
    let n' := (mpsInit cy n sites Bs SVs bc form ts sane).1
    (∀ r, closed n.h r = true → observe n'.h r = observe n.h r)
      ∧ (∀ q, closedMps n q = true → obsMps n' q = obsMps n q)
      ∧ (∀ H, closedMpo n H = true → obsMpo n' H = obsMpo n H)
      ∧ (∀ r, r < n.tl.length → n'.tlist r = n.tlist r) ∧ (∀ r, r < n.sl.length → n'.slist r = n.slist r)
      ∧ (∀ r, r < n.vl.length → n'.vlist r = n.vlist r) ∧ (∀ r, r < n.sb.length → n'.sbuf r = n.sbuf r) := by
  have x := mpsInit_next cy n sites Bs SVs bc form ts sane
  exact ⟨fun r hc => (x.h.obs r hc).1, fun q hq => (x.mpsObs q hq).1, fun H hH => (x.mpoObs H hH).1,
    fun r hr => by simp only [Net.tlist, x.tl r hr], fun r hr => by simp only [Net.slist, x.sl r hr],
    fun r hr => by simp only [Net.vlist, x.vl r hr], fun r hr => by simp only [Net.sbuf, x.sb r hr]⟩

/-- `psi.copy()` is the constructor on `psi`'s own lists. -/
theorem C03_mps_copy_frame (cy : Bool) (n : Net) (p : Ref) (sane : Bool) :
    let n' := (mpsCopy cy n p sane).1
    (∀ r, closed n.h r = true → observe n'.h r = observe n.h r) ∧ (∀ q, closedMps n q = true → obsMps n' q = obsMps n q)
      ∧ (∀ H, closedMpo n H = true → obsMpo n' H = obsMpo n H) := by
  have x := C03_mps_init_frame cy n (n.vlist (n.mpsO p).sites) (n.mpsO p).B (n.mpsO p).S (n.mpsO p).bc (.list (n.mpsO p).form) [] sane
  exact ⟨x.1, x.2.1, x.2.2.1⟩

/-- **A new MPS owns its containers.** After a successful `MPS(...)`: the object is new; its `_B`, `_S`, `form`, `sites`
lists are new list objects (never the caller's, even when the caller passed lists); every stored singular-value array is
a new array; every stored tensor is a new tensor object, and — whether or not `itranspose` had to re-order its legs — no
in-place method on a stored tensor can reach any tensor that existed before (`aliases = false`: all its lists, `_labels`,
`_qdata` and blocks are new; only the never-written total charge array is the operand's). -/
theorem C03_mps_init_owns {cy : Bool} {n : Net} {sites : List Nat} {Bs SVs : Ref} {bc : Nat} {form : FormArg}
    {ts : List TrHint} {sane : Bool} {n' : Net} {p : Nat} (e : mpsInit cy n sites Bs SVs bc form ts sane = (n', .ok p)) :
    p = n.mps.length ∧ (n'.mpsO p).B = n.tl.length ∧ (n'.mpsO p).S = n.sl.length ∧ (n'.mpsO p).sites = n.vl.length
      ∧ (n'.mpsO p).form = n.vl.length + 1 ∧ (n'.mpsO p).bc = bc
      ∧ n'.vlist (n'.mpsO p).sites = sites ∧ (n'.tlist (n'.mpsO p).B).length = sites.length
      ∧ (∀ r : Nat, some r ∈ n'.slist (n'.mpsO p).S → n.sb.length ≤ r)
      ∧ (∀ b ∈ n'.tlist (n'.mpsO p).B, n.h.arrs.length ≤ b)
      ∧ (∀ b ∈ n'.tlist (n'.mpsO p).B, ∀ r, closed n.h r = true → aliases n'.h r b = false) := by
  obtain ⟨h', newBs, sbNew, S', forms, hcp, _, rfl, rfl, hlen, hS⟩ := mpsInit_ok e
  obtain ⟨hf, hge, _⟩ := copyTensors_frame cy _ true _ _ _ _ _ hcp
  simp only [Net.mpsO, Net.tlist, Net.vlist, Net.slist, List.getElem?_concat_length, Option.getD_some]
  refine ⟨trivial, trivial, trivial, trivial, trivial, trivial, ?_, ?_, ?_, ?_, ?_⟩
  · simp
  · simp [hlen]
  · intro r hr
    exact (hS r hr).1
  · intro b hb
    exact hge b hb
  · intro b hb r hc
    have fr := (copyTensors_fresh' cy _ true _ _ _ _ _ hcp).2 b hb
    obtain ⟨_, _, ml, mb⟩ := hf.obs r hc
    exact freshT_not_aliased fr hc ml mb

/-- … in particular for `psi.copy()`: the copy shares no list, no singular-value array and no writable tensor container
with anything that existed — an in-place method on one of its stored tensors cannot change the original MPS. -/
theorem C03_mps_copy_independent {cy : Bool} {n : Net} {p : Ref} {sane : Bool} {n' : Net} {p' : Nat}
    (e : mpsCopy cy n p sane = (n', .ok p')) (hc : closedMps n p = true) :
    (n'.mpsO p').B ≠ (n.mpsO p).B ∧ (n'.mpsO p').S ≠ (n.mpsO p).S ∧ (n'.mpsO p').form ≠ (n.mpsO p).form
      ∧ (n'.mpsO p').sites ≠ (n.mpsO p).sites ∧ (n'.mpsO p').form ≠ (n.mpsO p).sites ∧ (n'.mpsO p').sites ≠ (n.mpsO p).form
      ∧ ∀ b ∈ n'.tlist (n'.mpsO p').B, ∀ u, u.qtSafe = true →
          obsMps { n' with h := step n'.h (.inplace b u) } p = obsMps n p := by
  obtain ⟨c1, c2, c3, c4, c5, c6, c7⟩ := closedMps_parts hc
  obtain ⟨_, o1, o2, o3, o4, _, _, _, _, _, hal⟩ := C03_mps_init_owns e
  have x := mpsInit_next cy n (n.vlist (n.mpsO p).sites) (n.mpsO p).B (n.mpsO p).S (n.mpsO p).bc (.list (n.mpsO p).form) [] sane
  have en : (mpsInit cy n (n.vlist (n.mpsO p).sites) (n.mpsO p).B (n.mpsO p).S (n.mpsO p).bc (.list (n.mpsO p).form) [] sane).1 = n' := by
    have := congrArg Prod.fst e; simpa [mpsCopy] using this
  rw [en] at x
  refine ⟨ne_of_eq_lt o1 c2, ne_of_eq_lt o2 c3, ne_of_eq_lt1 o4 c4, ne_of_eq_lt o3 c5, ne_of_eq_lt1 o4 c5, ne_of_eq_lt o3 c4, ?_⟩
  intro b hb u hu
  obtain ⟨ob, cl⟩ := x.mpsObs p hc
  rw [← ob]
  apply obsMps_of_heap
  intro r hr
  obtain ⟨_, _, _, _, _, c6', _⟩ := closedMps_parts cl
  have hcr : closed n.h r = true := by
    have em : n'.mpsO p = n.mpsO p := by simp only [Net.mpsO, x.mps p c1]
    have eB : n'.tlist (n.mpsO p).B = n.tlist (n.mpsO p).B := by simp only [Net.tlist, x.tl _ c2]
    rw [em, eB] at hr
    exact c6 r hr
  exact (inplace_keeps_q n'.h b u hu r (c6' r hr) (hal b hb r hcr)).1

/-! ## accessors -/

/-- **Accessors never change anything.** `get_B(i, form, copy, label_p)` and `get_W(i, copy)` — for all arguments, whether
they return the stored tensor, a converted copy, or raise — leave every closed tensor, MPS and MPO observably unchanged
(`get_SL/SR`, `get_IdL/IdR` are functions of the net without any effect by construction). -/
theorem C03_accessors_frame (cy : Bool) (n : Net) (p : Ref) (i : Int) (form : Form) (copy labelP fitL fitR : Bool)
    (H : Ref) (j : Int) (cp : Bool) :
    Unchanged n (getB cy n p i form copy labelP fitL fitR).1 ∧ Unchanged n (getW cy n H j cp).1 :=
  ⟨(getB_next cy n p i form copy labelP fitL fitR).unchanged, (getW_next cy n H j cp).unchanged⟩

/-- **`get_B(i, form, copy=False)` hands out the stored tensor itself** when no conversion is needed (`form=None` or the
stored form) — the documented view: "it should not be modified in place after". Nothing is allocated. -/
theorem C03_getB_returns_stored (cy : Bool) (n : Net) (p : Ref) (i : Int) (form : Form) (j : Nat) (q : Int) (B0 : Ref)
    (hv : validSite (mpsL n p) (n.mpsO p).bc i = some (j, q)) (hB : (n.tlist (n.mpsO p).B)[j]? = some B0)
    (hf : form = none ∨ Form.dec ((n.vlist (n.mpsO p).form).getD j 0) = form) :
    getB cy n p i form false false = (n, .ok B0) := by
  rcases hf with hf | hf
  · subst hf; simp [getB, hv, hB]
  · cases form with
    | none => simp [getB, hv, hB]
    | some f =>
      have hf' : Form.dec ((n.vlist (n.mpsO p).form)[j]?.getD 0) = some f := by simpa using hf
      simp [getB, hv, hB, hf']

/-- **`get_B(i, copy=True)` returns an independent tensor**: a new tensor object none of whose writable containers is
read by any tensor that existed (whatever form conversion follows the copy). -/
theorem C03_getB_copy_independent (cy : Bool) (n : Net) (p : Ref) (i : Int) (form : Form) (fitL fitR : Bool) (n' : Net)
    (c : Nat) (e : getB cy n p i form true false fitL fitR = (n', .ok c)) :
    n.h.arrs.length ≤ c ∧ ∀ r, closed n.h r = true → aliases n'.h r c = false := by
  have key : ∀ (h2 : Heap) (c2 : Ref), FreshT n.h h2 c2 → HFrame n.h h2 →
      n.h.arrs.length ≤ c2 ∧ ∀ r, closed n.h r = true → aliases h2 r c2 = false := by
    intro h2 c2 f hf
    refine ⟨f.ge, fun r hc => ?_⟩
    obtain ⟨_, _, ml, mb⟩ := hf.obs r hc
    exact freshT_not_aliased f hc ml mb
  unfold getB at e
  simp only [ite_true, Bool.false_eq_true, ite_false, callH_copy] at e
  split at e
  · simp [eValue] at e
  · split at e
    · simp [eIndex] at e
    · rename_i B0 _
      have f0 : FreshT n.h (step n.h (.derive (copyD n.h B0))) n.h.arrs.length := by
        apply freshT_derive
        have := copyD_isolated n.h B0
        simp only [Derive.isolated, Bool.and_eq_true] at this
        simp only [Derive.semiIsolated, Bool.and_eq_true]
        exact ⟨⟨⟨this.1.1.1.1, this.1.1.2⟩, this.1.2⟩, this.2⟩
      have hf0 : HFrame n.h (step n.h (.derive (copyD n.h B0))) := hframe_derive _ _
      split at e
      · simp only [Prod.mk.injEq, Res.ok.injEq] at e
        obtain ⟨rfl, rfl⟩ := e
        exact key _ _ f0 hf0
      · split at e
        · simp only [Prod.mk.injEq, Res.ok.injEq] at e
          obtain ⟨rfl, rfl⟩ := e
          exact key _ _ f0 hf0
        · split at e
          · simp [eValue] at e
          · split at e
            · simp at e
            · rename_i r3 e3
              obtain ⟨hf3, k3, _⟩ := scaleBoth_frame _ _ _ _ _ _ _ _ _ _ _ r3.1 r3.2 e3
              simp only [Prod.mk.injEq, Res.ok.injEq] at e
              obtain ⟨rfl, rfl⟩ := e
              exact key _ _ (k3 _ f0) (hf0.trans hf3)

/-! ## in-place methods of an MPS change only that MPS -/

/-- **`set_B(i, B, form)` footprint** (success or exception, any index): every tensor other than `B` itself is unchanged
(`B` may be re-ordered by `itranspose` — "no copy is made"); every MPO is unchanged; every other MPS `q` that does not
hold one of `p`'s `_B` / `form` list objects and does not store `B` itself (or when `B` needed no transposition) is
unchanged. -/
theorem C03_setB_footprint (cy : Bool) (n : Net) (p : Ref) (i : Int) (B : Ref) (form : Form) (t : TrHint) :
    let n' := (setB cy n p i B form t).1
    (∀ r, closed n.h r = true → r ≠ B → observe n'.h r = observe n.h r)
      ∧ (∀ q, closedMps n q = true → q ≠ p → (n.mpsO q).B ≠ (n.mpsO p).B → (n.mpsO q).form ≠ (n.mpsO p).form →
          (n.mpsO q).sites ≠ (n.mpsO p).form → (B ∉ n.tlist (n.mpsO q).B ∨ isIdPerm t.perm = true) → obsMps n' q = obsMps n q) := by
  intro n'
  have hn' : n' = (setB cy n p i B form t).1 := rfl
  clear_value n'
  obtain ⟨sm, sv, st, sh, ssb, ssl, _⟩ := setB_shape cy n p i B form t
  rw [← hn'] at sm sv st sh ssb ssl
  have hheap : ∀ r, closed n.h r = true → (r ≠ B ∨ isIdPerm t.perm = true) → observe n'.h r = observe n.h r := by
    intro r hc hne
    rcases sh with e | e
    · rw [show n'.h = n.h from e]
    · rw [show n'.h = _ from e]
      rcases hne with hne | hid
      · exact ((transposeH_frame cy n.h B t).1 r hc hne).1
      · rw [transposeH_id cy n.h B t hid]
  refine ⟨fun r hc hne => hheap r hc (Or.inl hne), ?_⟩
  intro q hc hqp hB hf hs hst
  obtain ⟨c1, c2, c3, c4, c5, c6, c7⟩ := closedMps_parts hc
  have em : n'.mpsO q = n.mpsO q := by simp only [Net.mpsO, either_get sm q hqp]
  refine obsMps_congr q em ?_ ?_ ?_ ?_ ?_ ?_
  · simp only [Net.tlist, either_get st _ hB]
  · simp only [Net.slist, show n'.sl = n.sl from ssl]
  · simp only [Net.vlist, either_get sv _ hf]
  · simp only [Net.vlist, either_get sv _ hs]
  · intro r _; simp only [Net.sbuf, show n'.sb = n.sb from ssb]
  · intro b hb
    apply hheap b (c6 b hb)
    rcases hst with h1 | h2
    · left; intro e; exact h1 (e ▸ hb)
    · right; exact h2

/-- **`set_SL` / `set_SR` footprint**: the heap, every MPO and every MPS that does not hold `p`'s `_S` list object are
unchanged (the array itself is stored without a copy — "No copy is made!"). -/
theorem C03_setS_footprint (n : Net) (p : Ref) (i : Int) (left : Bool) (s : Option Ref) :
    let n' := (setS n p i left s).1
    n'.h = n.h ∧ (∀ H, obsMpo n' H = obsMpo n H)
      ∧ (∀ q, (n.mpsO q).S ≠ (n.mpsO p).S → obsMps n' q = obsMps n q) := by
  intro n'
  have hn' : n' = (setS n p i left s).1 := rfl
  clear_value n'
  obtain ⟨ssl, sh, stl, ssb, svl, sm, so⟩ := setS_shape n p i left s
  rw [← hn'] at ssl sh stl ssb svl sm so
  have eh : n'.h = n.h := sh
  refine ⟨eh, ?_, ?_⟩
  · intro H
    exact obsMpo_congr H (by simp only [Net.mpoO, show n'.mpo = n.mpo from so]) (by simp only [Net.tlist, show n'.tl = n.tl from stl])
      (by simp only [Net.vlist, show n'.vl = n.vl from svl]) (by simp only [Net.vlist, show n'.vl = n.vl from svl])
      (by simp only [Net.vlist, show n'.vl = n.vl from svl]) (fun _ _ => by rw [eh])
  · intro q hS
    exact obsMps_congr q (by simp only [Net.mpsO, show n'.mps = n.mps from sm]) (by simp only [Net.tlist, show n'.tl = n.tl from stl])
      (by simp only [Net.slist, either_get ssl _ hS]) (by simp only [Net.vlist, show n'.vl = n.vl from svl])
      (by simp only [Net.vlist, show n'.vl = n.vl from svl]) (fun _ _ => by simp only [Net.sbuf, show n'.sb = n.sb from ssb])
      (fun _ _ => by rw [eh])

/-- **`enlarge_mps_unit_cell` / `roll_mps_unit_cell` only rebind**: the tensor heap is untouched and EVERY other closed MPS
is unchanged — unconditionally, even one that holds the very list objects of `p` (they are replaced, not written). -/
theorem C03_mps_enlarge_roll_footprint (n : Net) (p : Ref) (factor shift : Int) (sane : Bool) :
    (mpsEnlarge n p factor sane).1.h = n.h ∧ (mpsRoll n p shift).1.h = n.h
      ∧ ∀ q, closedMps n q = true → q ≠ p →
          obsMps (mpsEnlarge n p factor sane).1 q = obsMps n q ∧ obsMps (mpsRoll n p shift).1 q = obsMps n q := by
  refine ⟨?_, ?_, ?_⟩
  · unfold mpsEnlarge; simp only; repeat' split
    all_goals rfl
  · unfold mpsRoll; simp only; repeat' split
    all_goals rfl
  · intro q hc hqp
    constructor
    · unfold mpsEnlarge; simp only; repeat' split
      all_goals first | rfl | exact rebind_mps_next n p _ _ _ _ q hqp hc
    · unfold mpsRoll; simp only; repeat' split
      all_goals first | rfl | exact rebind_mps_next n p _ _ _ _ q hqp hc

/-- **Periodic images.** After `enlarge_mps_unit_cell(f)` on an infinite MPS the observation is the old one repeated `f`
times (same tensors, singular values, forms, sites at `j` and `j + L`), held in NEW list objects. -/
theorem C03_mps_enlarge_obs (n : Net) (p : Ref) (factor : Int) (sane : Bool) (hp : p < n.mps.length) (hf : 1 < factor)
    (hbc : (n.mpsO p).bc = 2) :
    let n' := (mpsEnlarge n p factor sane).1
    (obsMps n' p).B = repeatL factor.toNat (obsMps n p).B ∧ (obsMps n' p).S = repeatL factor.toNat (obsMps n p).S
      ∧ (obsMps n' p).form = repeatL factor.toNat (obsMps n p).form ∧ (obsMps n' p).sites = repeatL factor.toNat (obsMps n p).sites
      ∧ (n'.mpsO p).B = n.tl.length ∧ (n'.mpsO p).S = n.sl.length ∧ n'.h = n.h := by
  have h1 : ¬ factor ≤ 1 := by omega
  have mapRep : ∀ {α β} (f : α → β) (k : Nat) (l : List α), (repeatL k l).map f = repeatL k (l.map f) := by
    intro α β f k l
    simp [repeatL, List.map_flatten, List.map_replicate]
  simp only [mpsEnlarge, h1, ite_false, hbc, bne_self_eq_false, Bool.false_eq_true]
  simp only [obsMps, Net.mpsO, Net.tlist, Net.slist, Net.vlist, List.getElem?_set_self hp, Option.getD_some,
    List.getElem?_concat_length, mapRep]
  refine ⟨mapRep _ _ _, ?_, ?_, ?_, trivial, trivial, trivial⟩
  · rw [mapRep]; rfl
  · rw [List.getElem?_append_right (by simp)]; simp
  · rw [List.getElem?_append_right (by simp)]; simp

/-- **`set_B` then `get_B`**: after a successful `set_B(i, B, form)` the accessor `get_B(i, form=None)` returns `B`
itself (the very object, no copy), for every valid index `i` (also negative / outside the unit cell). -/
theorem C03_setB_getB (cy : Bool) (n : Net) (p : Ref) (i : Int) (B : Ref) (form : Form) (t : TrHint)
    (hp : p < n.mps.length) (hB : (n.mpsO p).B < n.tl.length) (hd : (n.mpsO p).form ≠ (n.mpsO p).sites)
    (hok : (setB cy n p i B form t).2 = .none_) :
    getB cy (setB cy n p i B form t).1 p i none false false = ((setB cy n p i B form t).1, .ok B) := by
  cases hv : validSite (mpsL n p) (n.mpsO p).bc i with
  | none => simp [setB, hv, eValue] at hok
  | some jq =>
    obtain ⟨j, q⟩ := jq
    by_cases h1 : j ≥ (n.vlist (n.mpsO p).form).length
    · simp [setB, hv, h1, eIndex] at hok
    · by_cases h2 : t.ok = true
      · by_cases h3 : j ≥ (n.tlist (n.mpsO p).B).length
        · simp [setB, hv, h1, h2, h3, eIndex] at hok
        · have eS : (setB cy n p i B form t).1 =
              { n with h := transposeH cy n.h B t, tl := n.tl.set (n.mpsO p).B ((n.tlist (n.mpsO p).B).set j B),
                       vl := n.vl.set (n.mpsO p).form ((n.vlist (n.mpsO p).form).set j form.enc),
                       mps := n.mps.set p { (n.mpsO p) with dtype := max (n.mpsO p).dtype (n.h.arr B).dtype } } := by
            simp [setB, hv, h1, h2, h3]
          generalize (setB cy n p i B form t).1 = m at eS ⊢
          have e_mps : m.mps = n.mps.set p { (n.mpsO p) with dtype := max (n.mpsO p).dtype (n.h.arr B).dtype } := by rw [eS]
          have e_vl : m.vl = n.vl.set (n.mpsO p).form ((n.vlist (n.mpsO p).form).set j form.enc) := by rw [eS]
          have e_tl : m.tl = n.tl.set (n.mpsO p).B ((n.tlist (n.mpsO p).B).set j B) := by rw [eS]
          have em : m.mpsO p = { (n.mpsO p) with dtype := max (n.mpsO p).dtype (n.h.arr B).dtype } := by
            simp only [Net.mpsO, e_mps, List.getElem?_set_self hp, Option.getD_some]
          have hj : j < (n.tlist (n.mpsO p).B).length := by omega
          apply C03_getB_returns_stored (j := j) (q := q)
          · simp only [mpsL, em, Net.vlist, e_vl, List.getElem?_set_ne hd]
            exact hv
          · simp only [em, Net.tlist, e_tl, List.getElem?_set_self hB, Option.getD_some]
            exact List.getElem?_set_self hj
          · exact Or.inl rfl
      · simp [setB, hv, h1, h2, eKey] at hok

/-! ## MPO -/

/-- **`MPO(sites, Ws, bc, IdL, IdR)` and `H.copy()` change nothing that exists** (success or exception). -/
theorem C03_mpo_init_frame (cy : Bool) (n : Net) (sites : List Nat) (Ws : Ref) (bc : Nat) (IdL IdR : IdArg) (sane : Bool)
    (H : Ref) (own : Bool) :
    Unchanged n (mpoInit cy n sites Ws bc IdL IdR sane).1 ∧ Unchanged n (mpoCopy n H own).1 :=
  ⟨(mpoInit_next cy n sites Ws bc IdL IdR sane).unchanged, (mpoCopy_next n H own).unchanged⟩

/-- **A new MPO owns its containers.** After a successful `MPO(...)`: `_W`, `IdL`, `IdR`, `sites` are new list objects —
`_get_Id` copies a list argument (`list(Id)`) and always yields `L + 1` entries — and every stored tensor is a new tensor
none of whose writable containers is read by a tensor that existed (`astype(copy=True)`). -/
theorem C03_mpo_init_owns {cy : Bool} {n : Net} {sites : List Nat} {Ws : Ref} {bc : Nat} {IdL IdR : IdArg} {sane : Bool}
    {n' : Net} {H : Nat} (e : mpoInit cy n sites Ws bc IdL IdR sane = (n', .ok H)) :
    H = n.mpo.length ∧ (n'.mpoO H).W = n.tl.length ∧ (n'.mpoO H).sites = n.vl.length ∧ (n'.mpoO H).IdL = n.vl.length + 1
      ∧ (n'.mpoO H).IdR = n.vl.length + 2
      ∧ (n'.vlist (n'.mpoO H).IdL).length = sites.length + 1 ∧ (n'.vlist (n'.mpoO H).IdR).length = sites.length + 1
      ∧ (∀ l, IdL = .list l → n'.vlist (n'.mpoO H).IdL = n.vlist l)
      ∧ (∀ b ∈ n'.tlist (n'.mpoO H).W, n.h.arrs.length ≤ b ∧ ∀ r, closed n.h r = true → aliases n'.h r b = false) := by
  obtain ⟨h', newWs, idl, idr, hcp, hl, hr, rfl, rfl⟩ := mpoInit_ok e
  obtain ⟨hf, hge, _⟩ := copyTensors_frame cy _ false _ _ _ _ _ hcp
  simp only [Net.mpoO, Net.tlist, Net.vlist, List.getElem?_concat_length, Option.getD_some]
  refine ⟨trivial, trivial, trivial, trivial, trivial, ?_, ?_, ?_, ?_⟩
  · rw [List.getElem?_append_right (by simp)]; simp [getId_length hl]
  · rw [List.getElem?_append_right (by simp)]; simp [getId_length hr]
  · intro l hl'
    rw [List.getElem?_append_right (by simp)]
    subst hl'
    simp only [getId] at hl
    split at hl
    · cases hl
    · simp only [Option.some.injEq] at hl
      simp [← hl, Net.vlist]
  · intro b hb
    refine ⟨hge b hb, fun r hc => ?_⟩
    have fr := (copyTensors_fresh cy _ false _ _ _ _ _ (Or.inl rfl) hcp).2 b hb
    obtain ⟨_, _, ml, mb⟩ := hf.obs r hc
    exact freshT_not_aliased fr hc ml mb

/-- **`H.copy()` is independent at the list level** (repaired `MPO.copy`, commit 28d1973): the copy observes the same as
`H`, and `set_W`, assignments to `IdL` / `IdR` entries and `enlarge_mps_unit_cell` on the copy leave `H` unchanged —
and vice versa. (The stored tensors are shared: it is a shallow copy.) -/
theorem C03_mpo_copy_independent (n : Net) (H : Ref) (hc : closedMpo n H = true) :
    let n1 := (mpoCopy n H).1
    let H' := n.mpo.length
    obsMpo n1 H' = obsMpo n H ∧ closedMpo n1 H' = true
      ∧ (∀ i W, obsMpo (setW n1 H' i W).1 H = obsMpo n H ∧ obsMpo (setW n1 H i W).1 H' = obsMpo n H)
      ∧ (∀ left b v, obsMpo (editId n1 H' left b v).1 H = obsMpo n H ∧ obsMpo (editId n1 H left b v).1 H' = obsMpo n H)
      ∧ (∀ f sane, obsMpo (mpoEnlarge n1 H' f sane).1 H = obsMpo n H ∧ obsMpo (mpoEnlarge n1 H f sane).1 H' = obsMpo n H) := by
  intro n1 H'
  obtain ⟨c1, c2, c3, c4, c5, c6⟩ := closedMpo_parts hc
  have hn1 : n1 = { n with tl := n.tl ++ [n.tlist (n.mpoO H).W],
                           vl := n.vl ++ [n.vlist (n.mpoO H).sites, n.vlist (n.mpoO H).IdL, n.vlist (n.mpoO H).IdR],
                           mpo := n.mpo ++ [MpoObj.mk n.tl.length (n.vl.length + 1) (n.vl.length + 2) n.vl.length (n.mpoO H).bc
                                              (n.mpoO H).dtype] } := by
    simp [n1, mpoCopy]
  have eH' : n1.mpoO H' = MpoObj.mk n.tl.length (n.vl.length + 1) (n.vl.length + 2) n.vl.length (n.mpoO H).bc (n.mpoO H).dtype := by
    rw [hn1]; simp [Net.mpoO, H']
  have eH : n1.mpoO H = n.mpoO H := by rw [hn1]; simp only [Net.mpoO, get_append_old _ _ _ c1]
  have x := mpoCopy_next n H true
  obtain ⟨oH, cH⟩ := x.mpoObs H hc
  have eW : n1.tlist n.tl.length = n.tlist (n.mpoO H).W := by rw [hn1]; simp [Net.tlist]
  have eS : n1.vlist n.vl.length = n.vlist (n.mpoO H).sites := by rw [hn1]; simp [Net.vlist]
  have eL : n1.vlist (n.vl.length + 1) = n.vlist (n.mpoO H).IdL := by
    rw [hn1]; simp only [Net.vlist]; rw [List.getElem?_append_right (by simp)]; simp
  have eR : n1.vlist (n.vl.length + 2) = n.vlist (n.mpoO H).IdR := by
    rw [hn1]; simp only [Net.vlist]; rw [List.getElem?_append_right (by simp)]; simp
  have eh : n1.h = n.h := by rw [hn1]
  have o1 : obsMpo n1 H' = obsMpo n H := by
    simp only [obsMpo, eH', eW, eS, eL, eR, eh]
  have cl1 : closedMpo n1 H' = true := by
    simp only [closedMpo, eH', eW, eh, Bool.and_eq_true, decide_eq_true_eq, List.all_eq_true]
    rw [hn1]
    refine ⟨⟨⟨⟨⟨?_, ?_⟩, ?_⟩, ?_⟩, ?_⟩, c6⟩ <;> simp [H']
  -- the eight list references involved are pairwise different where it matters
  have dW : (n1.mpoO H).W ≠ (n1.mpoO H').W := by rw [eH, eH']; exact (ne_of_eq_lt rfl c2).symm
  have generic : ∀ (m : Net) (A Bq : Ref), m.h = n1.h → m.sb = n1.sb → m.sl = n1.sl → m.mps = n1.mps →
      m.mpoO Bq = n1.mpoO Bq → m.tlist (n1.mpoO Bq).W = n1.tlist (n1.mpoO Bq).W →
      m.vlist (n1.mpoO Bq).IdL = n1.vlist (n1.mpoO Bq).IdL → m.vlist (n1.mpoO Bq).IdR = n1.vlist (n1.mpoO Bq).IdR →
      m.vlist (n1.mpoO Bq).sites = n1.vlist (n1.mpoO Bq).sites → A = A → obsMpo m Bq = obsMpo n1 Bq := by
    intro m A Bq e1 _ _ _ e5 e6 e7 e8 e9 _
    exact obsMpo_congr Bq e5 e6 e7 e8 e9 (fun _ _ => by rw [e1])
  refine ⟨o1, cl1, ?_, ?_, ?_⟩
  · intro i W
    constructor
    · obtain ⟨st, sh, ssl, ssb, svl, sm, so⟩ := setW_shape n1 H' i W
      rw [← oH]
      exact generic _ 0 H sh ssb ssl sm (by simp only [Net.mpoO, so]) (by simp only [Net.tlist, either_get st _ dW])
        (by simp only [Net.vlist, svl]) (by simp only [Net.vlist, svl]) (by simp only [Net.vlist, svl]) rfl
    · obtain ⟨st, sh, ssl, ssb, svl, sm, so⟩ := setW_shape n1 H i W
      rw [← o1]
      exact generic _ 0 H' sh ssb ssl sm (by simp only [Net.mpoO, so]) (by simp only [Net.tlist, either_get st _ dW.symm])
        (by simp only [Net.vlist, svl]) (by simp only [Net.vlist, svl]) (by simp only [Net.vlist, svl]) rfl
  · intro left b v
    constructor
    · obtain ⟨sv, sh, stl, ssl, ssb, sm, so⟩ := editId_shape n1 H' left b v
      rw [← oH]
      have ne : ∀ x, x < n.vl.length → x ≠ (if left = true then (n1.mpoO H').IdL else (n1.mpoO H').IdR) := by
        intro x hx; rw [eH']; split <;> exact fun e => by simp only at e; omega
      exact generic _ 0 H sh ssb ssl sm (by simp only [Net.mpoO, so]) (by simp only [Net.tlist, stl])
        (by simp only [Net.vlist, either_get sv _ (ne (n1.mpoO H).IdL (by rw [eH]; exact c3))])
        (by simp only [Net.vlist, either_get sv _ (ne (n1.mpoO H).IdR (by rw [eH]; exact c4))])
        (by simp only [Net.vlist, either_get sv _ (ne (n1.mpoO H).sites (by rw [eH]; exact c5))]) rfl
    · obtain ⟨sv, sh, stl, ssl, ssb, sm, so⟩ := editId_shape n1 H left b v
      rw [← o1]
      have ne : ∀ x, n.vl.length ≤ x → x ≠ (if left = true then (n1.mpoO H).IdL else (n1.mpoO H).IdR) := by
        intro x hx; rw [eH]
        split
        · intro e; have a := c3; rw [← e] at a; exact Nat.not_lt.2 hx a
        · intro e; have a := c4; rw [← e] at a; exact Nat.not_lt.2 hx a
      exact generic _ 0 H' sh ssb ssl sm (by simp only [Net.mpoO, so]) (by simp only [Net.tlist, stl])
        (by simp only [Net.vlist, either_get sv _ (ne (n1.mpoO H').IdL (by rw [eH']; show n.vl.length ≤ n.vl.length + 1; omega))])
        (by simp only [Net.vlist, either_get sv _ (ne (n1.mpoO H').IdR (by rw [eH']; show n.vl.length ≤ n.vl.length + 2; omega))])
        (by simp only [Net.vlist, either_get sv _ (ne (n1.mpoO H').sites (by rw [eH']; exact Nat.le_refl _))]) rfl
  · intro f sane
    have hne : H ≠ H' := Nat.ne_of_lt c1
    have cl1' : closedMpo n1 H = true := cH
    have key : ∀ (Ht Hq : Ref), Ht ≠ Hq → closedMpo n1 Hq = true → obsMpo (mpoEnlarge n1 Ht f sane).1 Hq = obsMpo n1 Hq := by
      intro Ht Hq hne hq
      obtain ⟨d1, d2, d3, d4, d5, d6⟩ := closedMpo_parts hq
      unfold mpoEnlarge
      simp only
      repeat' split
      all_goals first
        | rfl
        | (refine obsMpo_congr Hq ?_ ?_ ?_ ?_ ?_ (fun _ _ => rfl)
           · simp only [Net.mpoO, List.getElem?_set_ne hne]
           · simp only [Net.tlist, get_append_old _ _ _ d2]
           · simp only [Net.vlist, get_append_old _ _ _ d3]
           · simp only [Net.vlist, get_append_old _ _ _ d4]
           · simp only [Net.vlist, get_append_old _ _ _ d5])
    exact ⟨(key H' H hne.symm cl1').trans oH, (key H H' hne cl1).trans o1⟩

/-! ## non-vacuity: a concrete net -/

namespace TenpyModel.C03
/-- two caller-owned tensors (#0, #1) on one leg, a caller-owned tensor list `[#0, #1]`, three singular-value arrays in a
caller-owned list, a caller-owned form list -/
def nE : Net :=
  { h := step hE (.derive { srcs := [], legs := .newList [.ref 0, .ref 0, .ref 0], qtotal := .fresh [0], labels := .fresh [1],
                             qdata := .fresh [0], data := .newList [.fresh 200], dtype := some 0, qsorted := some true }),
    tl := [[0, 1]], sb := [[3], [4], [5]], sl := [[some 0, some 1, some 2]], vl := [[11, 11]] }
/-- `psi = MPS(sites, Bs, SVs, 'infinite', form)`, `phi = psi.copy()` -/
def nE1 : Net := (mpsInit true nE [7, 7] 0 0 2 (.list 0) [] true).1
def nE2 : Net := (mpsCopy true nE1 0).1
/-- `H = MPO(sites, Ws, 'infinite', IdL=[0,0,0] (caller's list), IdR=-1)`, `K = H.copy()` -/
def nM : Net := { nE with vl := [[1, 1, 1]] }
def nM1 : Net := (mpoInit true nM [7, 7] 0 2 (.list 0) (.scalar 2) true).1
def nM2 : Net := (mpoCopy nM1 0).1
def nM2bad : Net := (mpoCopy nM1 0 false).1
end TenpyModel.C03

/-- the constructor succeeds on the concrete net; the new MPS is closed, has its own lists / arrays / tensors; the caller's
tensors, lists and arrays are unchanged; its copy likewise -/
example : (mpsInit true nE [7, 7] 0 0 2 (.list 0) [] true).2 = .ok 0 ∧ closedMps nE1 0 = true
    ∧ (nE1.mpsO 0).B = 1 ∧ nE1.tlist 1 = [2, 3] ∧ nE1.tlist 0 = [0, 1] ∧ nE1.slist 1 = [some 3, some 4] ∧ nE1.sbuf 3 = [3]
    ∧ nE1.vlist 2 = [11, 11] ∧ (nE1.mpsO 0).form = 2
    ∧ observe nE1.h 0 = observe nE.h 0 ∧ closed nE.h 0 = true ∧ closed nE.h 1 = true
    ∧ aliases nE1.h 0 2 = false ∧ shares nE1.h 0 2 = true
    ∧ (mpsCopy true nE1 0).2 = .ok 1 ∧ closedMps nE2 1 = true ∧ obsMps nE2 0 = obsMps nE1 0 ∧ nE2.tlist 2 = [4, 5] := by
  decide +kernel

/-- an in-place write into a block of the copy's stored tensor changes the copy and not the original;
`set_B` on the copy leaves the original alone; `get_B(copy=False)` is the stored tensor, `get_B(copy=True)` a new one -/
example : obsMps { nE2 with h := step nE2.h (.inplace 4 { wblocks := [(0, 9)] }) } 0 = obsMps nE1 0
    ∧ obsMps { nE2 with h := step nE2.h (.inplace 4 { wblocks := [(0, 9)] }) } 1 ≠ obsMps nE2 1
    ∧ obsMps (setB true nE2 1 3 0 (some (some 2, some 0)) {}).1 0 = obsMps nE2 0
    ∧ obsMps (setB true nE2 1 3 0 (some (some 2, some 0)) {}).1 1 ≠ obsMps nE2 1
    ∧ (getB true nE2 0 (-1) none false false).2 = .ok 3 ∧ (getB true nE2 0 5 none true false).2 = .ok 6
    ∧ (getB true nE2 0 0 (some (some 2, some 0)) false false).2 = .ok 7
    ∧ (obsMps (mpsEnlarge nE2 0 2).1 0).B.length = 4 ∧ obsMps (mpsEnlarge nE2 0 2).1 1 = obsMps nE2 1
    ∧ (mpsEnlarge nE2 0 1).2 = .err 1 ∧ (mpsRoll nE2 0 1).2 = .none_ := by
  decide +kernel

/-- error branches of the constructor: no sites, no tensors, wrong number of forms, unknown `bc`, too few singular
values, a missing label, wrong number of tensors, values failing `test_sanity` — nothing is created -/
example : (mpsInit true nE [] 0 0 2 (.one 11) [] true).2 = .err 2 ∧ (mpsInit true { nE with tl := [[]] } [7] 0 0 2 (.one 11) [] true).2 = .err 1
    ∧ (mpsInit true nE [7, 7, 7] 0 0 2 (.list 0) [] true).2 = .err 1 ∧ (mpsInit true nE [7, 7] 0 0 3 (.one 11) [] true).2 = .err 4
    ∧ (mpsInit true nE [7, 7] 0 0 1 (.one 11) [] true).2 = .ok 0 ∧ (mpsInit true { nE with sl := [[some 0]] } [7, 7] 0 0 2 (.one 11) [] true).2 = .err 2
    ∧ (mpsInit true nE [7, 7] 0 0 2 (.one 11) [{ ok := false }] true).2 = .err 5 ∧ (mpsInit true nE [7] 0 0 2 (.one 11) [] true).2 = .err 1
    ∧ (mpsInit true nE [7, 7] 0 0 2 (.one 11) [] false).2 = .err 1
    ∧ (mpsInit true nE [7, 7] 0 0 3 (.one 11) [] true).1.mps = [] := by
  decide +kernel

/-- **Why `MPO.copy()` needs its own lists** (the unrepaired `copy.copy`: same `IdL` / `IdR` / `_W` list objects): an
assignment to an entry of the copy's `IdL`, or `set_W` on the copy, changes the original — with own lists it does not. -/
theorem C03_mpo_shared_lists_counterexample :
    ∃ (n : Net) (H : Ref), closedMpo n H = true
      ∧ obsMpo (editId (mpoCopy n H false).1 n.mpo.length true 0 5).1 H ≠ obsMpo n H
      ∧ obsMpo (setW (mpoCopy n H false).1 n.mpo.length 0 1).1 H ≠ obsMpo n H
      ∧ obsMpo (editId (mpoCopy n H true).1 n.mpo.length true 0 5).1 H = obsMpo n H :=
  ⟨nM1, 0, by decide +kernel, by decide +kernel, by decide +kernel, by decide +kernel⟩

/-- the MPO constructor on the concrete net: own `IdL` list (a copy of the caller's), `IdR` from a scalar; editing the
caller's list afterwards does not change the MPO; error branches -/
example : (mpoInit true nM [7, 7] 0 2 (.list 0) (.scalar 2) true).2 = .ok 0 ∧ closedMpo nM1 0 = true
    ∧ (obsMpo nM1 0).IdL = [1, 1, 1] ∧ (obsMpo nM1 0).IdR = [2, 2, 2] ∧ (nM1.mpoO 0).IdL = 2
    ∧ obsMpo { nM1 with vl := nM1.vl.set 0 [9, 9, 9] } 0 = obsMpo nM1 0
    ∧ (mpoInit true nM [7] 0 2 (.list 0) .none_ true).2 = .err 1 ∧ (mpoInit true nM [7, 7, 7] 0 2 .none_ .none_ true).2 = .err 2
    ∧ (mpoInit true nM [7] 0 2 .none_ .none_ true).2 = .ok 0 ∧ (mpoInit true nM [7, 7] 0 3 .none_ .none_ true).2 = .err 1
    ∧ getIdLR nM1 0 5 true = .ok 1 ∧ getIdLR nM1 0 (-3) false = .ok 2
    ∧ closedMpo nM2 1 = true ∧ obsMpo nM2 1 = obsMpo nM1 0 := by
  decide +kernel

/-- **`MPO.sort_legcharges()` footprint.** The method builds NEW tensors (`transpose` = deep copy, `sort_legcharge`) and
a NEW `_W` list, and re-assigns the entries of its EXISTING `IdL` / `IdR` lists in place. Hence: every tensor that existed
— the old `W`s included, which other MPOs (a shallow `copy()`) may still hold — is unchanged; every MPS and every other
MPO that does not hold the very `IdL` / `IdR` list objects of `H` is unchanged. -/
theorem C03_mpo_sort_footprint (cy : Bool) (n : Net) (H : Ref) (hs : List SortHint) (perms : List (List Nat)) :
    let n' := (mpoSort cy n H hs perms).1
    (∀ r, closed n.h r = true → observe n'.h r = observe n.h r)
      ∧ (∀ p, closedMps n p = true → (n.mpsO p).form ≠ (n.mpoO H).IdL → (n.mpsO p).form ≠ (n.mpoO H).IdR →
          (n.mpsO p).sites ≠ (n.mpoO H).IdL → (n.mpsO p).sites ≠ (n.mpoO H).IdR → obsMps n' p = obsMps n p)
      ∧ (∀ K, closedMpo n K = true → K ≠ H → (n.mpoO K).IdL ≠ (n.mpoO H).IdL → (n.mpoO K).IdL ≠ (n.mpoO H).IdR →
          (n.mpoO K).IdR ≠ (n.mpoO H).IdL → (n.mpoO K).IdR ≠ (n.mpoO H).IdR → (n.mpoO K).sites ≠ (n.mpoO H).IdL →
          (n.mpoO K).sites ≠ (n.mpoO H).IdR → obsMpo n' K = obsMpo n K) := by
  have F := sortTensors_frame cy (n.tlist (n.mpoO H).W) n.h hs
  have vget : ∀ x, x ≠ (n.mpoO H).IdL → x ≠ (n.mpoO H).IdR → (mpoSort cy n H hs perms).1.vlist x = n.vlist x := by
    intro x h1 h2
    simp only [mpoSort, Net.vlist, List.getElem?_set_ne (Ne.symm h2), List.getElem?_set_ne (Ne.symm h1)]
  refine ⟨fun r hc => (F.obs r hc).1, ?_, ?_⟩
  · intro p hc f1 f2 s1 s2
    obtain ⟨c1, c2, c3, c4, c5, c6, c7⟩ := closedMps_parts hc
    refine obsMps_congr p rfl ?_ rfl (vget _ f1 f2) (vget _ s1 s2) (fun _ _ => rfl) (fun b hb => (F.obs b (c6 b hb)).1)
    simp only [mpoSort, Net.tlist, get_append_old _ _ _ c2]
  · intro K hc hK l1 l2 r1 r2 s1 s2
    obtain ⟨c1, c2, c3, c4, c5, c6⟩ := closedMpo_parts hc
    refine obsMpo_congr K ?_ ?_ (vget _ l1 l2) (vget _ r1 r2) (vget _ s1 s2) (fun b hb => (F.obs b (c6 b hb)).1)
    · simp only [mpoSort, Net.mpoO, List.getElem?_set_ne (Ne.symm hK)]
    · simp only [mpoSort, Net.tlist, get_append_old _ _ _ c2]

/-- … so `H.copy().sort_legcharges()` leaves `H` unchanged (the witness of the repaired defect: with shared lists `H.IdL` /
`H.IdR` were permuted while `H._W` stayed), and `H.sort_legcharges()` leaves the copy unchanged — the copy keeps the old
tensors and the old indices. -/
theorem C03_mpo_copy_sort_independent (cy : Bool) (n : Net) (H : Ref) (hc : closedMpo n H = true) (hs : List SortHint)
    (perms : List (List Nat)) :
    obsMpo (mpoSort cy (mpoCopy n H).1 n.mpo.length hs perms).1 H = obsMpo n H
      ∧ obsMpo (mpoSort cy (mpoCopy n H).1 H hs perms).1 n.mpo.length = obsMpo n H := by
  obtain ⟨o1, cl1, _, _, _⟩ := C03_mpo_copy_independent n H hc
  obtain ⟨c1, c2, c3, c4, c5, c6⟩ := closedMpo_parts hc
  have x := mpoCopy_next n H true
  obtain ⟨oH, cH⟩ := x.mpoObs H hc
  have eH : (mpoCopy n H).1.mpoO H = n.mpoO H := by simp only [Net.mpoO, x.mpo H c1]
  have eH' : (mpoCopy n H).1.mpoO n.mpo.length
      = MpoObj.mk n.tl.length (n.vl.length + 1) (n.vl.length + 2) n.vl.length (n.mpoO H).bc (n.mpoO H).dtype := by
    simp [mpoCopy, Net.mpoO]
  have hne : H ≠ n.mpo.length := Nat.ne_of_lt c1
  constructor
  · rw [← oH]
    apply (C03_mpo_sort_footprint cy (mpoCopy n H).1 n.mpo.length hs perms).2.2 H cH hne <;> rw [eH, eH'] <;>
      first | exact (ne_of_eq_lt1 rfl (by assumption)).symm | exact (ne_of_eq_lt2 rfl (by assumption)).symm
  · rw [← o1]
    apply (C03_mpo_sort_footprint cy (mpoCopy n H).1 H hs perms).2.2 n.mpo.length cl1 hne.symm <;> rw [eH, eH'] <;>
      first | exact ne_of_eq_lt1 rfl (by assumption) | exact ne_of_eq_lt2 rfl (by assumption) | exact ne_of_eq_lt rfl (by assumption)
