import TenpyModel.C03.ExtNetProofs
import TenpyModel.C03.Props
/-!
# C03 extension — the network level: MPS / MPO containers never corrupt what they are given

Model: `ExtNet.lean` (`MPS.__init__`, `copy`, `get_B`, `set_B`, `get_SL/SR`, `set_SL/SR`, `enlarge_mps_unit_cell`,
`roll_mps_unit_cell`, `MPO.__init__`, `copy`, `get_W`, `set_W`, `get_IdL/IdR`, `enlarge_mps_unit_cell`, `sort_legcharges`,
index normalisation, `_parse_form`, `_get_Id`), on top of the tensor heap of `Heap.lean` / `Calls.lean`.

`closedMps n p` / `closedMpo n H` / `closed h r`: every reference reachable from the observed object is allocated —
the only hypothesis about the state; nothing is assumed about the rest of the net.
-/
open TenpyModel.C03

/-! ## index normalisation -/

/-- **Infinite systems: every integer is a valid site index**, it is mapped to `i mod L` inside the unit cell and
`i = cell * L + index`. -/
theorem C03_validSite_infinite (L : Nat) (hL : 0 < L) (i : Int) :
    ∃ j q, validSite L 2 i = some (j, q) ∧ j < L ∧ (j : Int) = i % (L : Int) ∧ i = q * (L : Int) + (j : Int) := by
  have hL' : (0 : Int) < (L : Int) := by exact_mod_cast hL
  have h0 : L ≠ 0 := Nat.pos_iff_ne_zero.1 hL
  have hnn : 0 ≤ i % (L : Int) := Int.emod_nonneg _ (by omega)
  have hlt : i % (L : Int) < (L : Int) := Int.emod_lt_of_pos _ hL'
  refine ⟨(i % (L : Int)).toNat, i / (L : Int), ?_, ?_, ?_, ?_⟩
  · simp [validSite, h0, finiteBc]
  · omega
  · omega
  · have := Int.mul_ediv_add_emod i (L : Int)
    rw [Int.toNat_of_nonneg hnn, Int.mul_comm]
    omega

/-- … and indices that differ by a multiple of `L` address the same entry (periodicity of `get_B`, `set_B`, …). -/
theorem C03_validSite_periodic (L : Nat) (i k : Int) :
    (validSite L 2 (i + k * (L : Int))).map (·.1) = (validSite L 2 i).map (·.1) := by
  by_cases h0 : L = 0
  · simp [validSite, h0]
  · simp [validSite, h0, finiteBc, Int.add_mul_emod_self_right]

/-- **Finite systems** (`finite`, `segment`): exactly the indices `-L ≤ i < L` are accepted (negative ones are the
deprecated Python-style indices), the unit cell is always 0, and the entry addressed is `i` resp. `i + L`. -/
theorem C03_validSite_finite (L : Nat) (hL : 0 < L) (bc : Nat) (hbc : bc ≠ 2) (i : Int) :
    (-(L : Int) ≤ i ∧ i < (L : Int) →
        ∃ j, validSite L bc i = some (j, 0) ∧ j < L ∧ (j : Int) = if i < 0 then i + (L : Int) else i)
      ∧ (¬(-(L : Int) ≤ i ∧ i < (L : Int)) → validSite L bc i = none) := by
  have hL' : (0 : Int) < (L : Int) := by exact_mod_cast hL
  have h0 : L ≠ 0 := Nat.pos_iff_ne_zero.1 hL
  have hfin : finiteBc bc = true := by simp [finiteBc, hbc]
  have hnn : 0 ≤ i % (L : Int) := Int.emod_nonneg _ (by omega)
  have hlt : i % (L : Int) < (L : Int) := Int.emod_lt_of_pos _ hL'
  have hdm := Int.mul_ediv_add_emod i (L : Int)
  constructor
  · intro ⟨h1, h2⟩
    have hq : i / (L : Int) = -1 ∨ i / (L : Int) = 0 := by
      by_cases hneg : i < 0
      · left
        have a1 : i / (L : Int) < 0 := Int.ediv_neg_of_neg_of_pos hneg hL'
        have a2 : -1 ≤ i / (L : Int) := by
          by_cases hlt2 : i / (L : Int) < -1
          · exfalso
            have : (L : Int) * (i / (L : Int)) ≤ (L : Int) * (-2) := Int.mul_le_mul_of_nonneg_left (by omega) (by omega)
            omega
          · omega
        omega
      · right; exact Int.ediv_eq_zero_of_lt (by omega) h2
    refine ⟨(i % (L : Int)).toNat, ?_, by omega, ?_⟩
    · simp only [validSite, h0, hfin, ite_true, ite_false, hq]
    · rw [Int.toNat_of_nonneg hnn]
      rcases hq with hq | hq
      · rw [hq] at hdm
        have : i < 0 := by omega
        simp only [this, ite_true]; omega
      · rw [hq] at hdm
        have : ¬ i < 0 := by omega
        simp only [this, ite_false]; omega
  · intro hn
    have hq : ¬(i / (L : Int) = -1 ∨ i / (L : Int) = 0) := by
      intro hq
      apply hn
      rcases hq with hq | hq <;> rw [hq] at hdm <;> omega
    simp only [validSite, h0, hfin, ite_true, ite_false, hq]

/-- **`get_SR(i)` is `get_SL(i + 1)`**: for infinite systems the bond right of site `i` is normalised exactly like the
bond left of site `i + 1` (also across the unit cell boundary); for finite systems it is entry `index + 1` of `_S`. -/
theorem C03_validBond_right_left (L : Nat) (i : Int) :
    validBond L 2 i false = validBond L 2 (i + 1) true
      ∧ ∀ bc, bc ≠ 2 → validBond L bc i false = (validSite L bc i).map (fun x => (x.1 + 1, 0))
      ∧ validBond L bc i true = (validSite L bc i).map (fun x => (x.1, 0)) := by
  refine ⟨by simp [validBond, finiteBc], fun bc hbc => ?_⟩
  have hfin : finiteBc bc = true := by simp [finiteBc, hbc]
  simp [validBond, hfin]

example : validSite 3 2 (-4) = some (2, -2) ∧ validSite 3 2 7 = some (1, 2) ∧ validSite 3 0 (-1) = some (2, 0)
    ∧ validSite 3 0 3 = none ∧ validSite 3 1 (-4) = none ∧ validBond 3 2 2 false = some (0, 1)
    ∧ validBond 3 0 2 false = some (3, 0) := by decide
