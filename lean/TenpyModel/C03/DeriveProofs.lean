import TenpyModel.C03.StepProofs
/-!
C03 — a derived tensor none of whose parts is declared shared (a deep copy, a transposed copy, the result of
`tensordot`, …) consists of freshly allocated cells only.
-/
namespace TenpyModel.C03

def BufSrc.notShared : BufSrc → Bool
  | .shared _ => false
  | _ => true

def BlkSrc.notView : BlkSrc → Bool
  | .view _ _ => false
  | _ => true

/-- no attribute of the result is declared shared with an operand (legs objects may be) -/
def Derive.isolated (d : Derive) : Bool :=
  (match d.legs with | .sharedList _ => false | _ => true) && d.qtotal.notShared && d.labels.notShared
    && d.qdata.notShared && (match d.data with | .sharedList _ => false | .newList bs => bs.all BlkSrc.notView)

/-- builder `b'` extends builder `b` -/
structure BLe (b b' : Bld) : Prop where
  h     : b'.h = b.h
  bufs  : b.al.bufs <+: b'.al.bufs
  lists : b.al.lists <+: b'.al.lists
  arrs  : b'.al.arrs = b.al.arrs

theorem BLe.refl (b : Bld) : BLe b b := ⟨rfl, List.prefix_refl _, List.prefix_refl _, rfl⟩
theorem BLe.trans {a b c : Bld} (x : BLe a b) (y : BLe b c) : BLe a c :=
  ⟨y.h.trans x.h, x.bufs.trans y.bufs, x.lists.trans y.lists, y.arrs.trans x.arrs⟩

theorem buf_le (b : Bld) (c : List Nat) : BLe b (b.buf c).1 :=
  ⟨rfl, List.prefix_append _ _, List.prefix_refl _, rfl⟩
theorem list_le (b : Bld) (c : List Ref) : BLe b (b.list c).1 :=
  ⟨rfl, List.prefix_refl _, List.prefix_append _ _, rfl⟩

theorem allocBuf_le (h : Heap) (srcs : List Ref) (get : ArrObj → Ref) (b : Bld) (s : BufSrc) :
    BLe b (allocBuf h srcs get b s).1 := by
  cases s <;> simp only [allocBuf]
  · exact BLe.refl b
  · exact buf_le _ _
  · exact buf_le _ _

theorem allocBuf_ge (h : Heap) (srcs : List Ref) (get : ArrObj → Ref) (b : Bld) (s : BufSrc)
    (hs : s.notShared = true) : b.h.bufs.length ≤ (allocBuf h srcs get b s).2 := by
  cases s <;> simp_all [allocBuf, BufSrc.notShared, Bld.buf]

theorem allocBlk_le (h : Heap) (srcs : List Ref) (b : Bld) (s : BlkSrc) : BLe b (allocBlk h srcs b s).1 := by
  cases s <;> simp only [allocBlk]
  · exact BLe.refl b
  · exact buf_le _ _
  · exact buf_le _ _

theorem allocBlk_ge (h : Heap) (srcs : List Ref) (b : Bld) (s : BlkSrc) (hs : s.notView = true) :
    b.h.bufs.length ≤ (allocBlk h srcs b s).2 := by
  cases s <;> simp_all [allocBlk, BlkSrc.notView, Bld.buf]

theorem allocBlks_le (h : Heap) (srcs : List Ref) (b : Bld) (bs : List BlkSrc) :
    BLe b (allocBlks h srcs b bs).1 := by
  induction bs generalizing b with
  | nil => exact BLe.refl b
  | cons s ss ih =>
    simp only [allocBlks]
    exact (allocBlk_le h srcs b s).trans (ih _)

theorem allocBlks_ge (h : Heap) (srcs : List Ref) (b : Bld) (bs : List BlkSrc)
    (hs : bs.all BlkSrc.notView = true) : ∀ r ∈ (allocBlks h srcs b bs).2, b.h.bufs.length ≤ r := by
  induction bs generalizing b with
  | nil => intro r hr; simp [allocBlks] at hr
  | cons s ss ih =>
    simp only [List.all_cons, Bool.and_eq_true] at hs
    intro r hr
    simp only [allocBlks, List.mem_cons] at hr
    rcases hr with rfl | hr
    · exact allocBlk_ge h srcs b s hs.1
    · have := ih (allocBlk h srcs b s).1 hs.2 r hr
      rw [(allocBlk_le h srcs b s).h] at this
      exact this

/-- reading a Python list that was allocated by the builder at some point, in the final heap -/
theorem read_new_list (h : Heap) (b : Bld) (L : List (List Ref)) (hb : b.h = h) (items : List Ref)
    (hle : (b.list items).1.al.lists <+: L)
    (h' : Heap) (e : h'.lists = h.lists ++ L) : h'.list (b.list items).2 = items := by
  obtain ⟨t, ht⟩ := hle
  simp only [Heap.list, e, Bld.list, hb]
  rw [List.getElem?_append_right (Nat.le_add_right _ _), Nat.add_sub_cancel_left, ← ht]
  simp [Bld.list]

theorem derive_isolated (h : Heap) (d : Derive) (hi : d.isolated = true) :
    let h' := step h (.derive d)
    h'.arrs.length = h.arrs.length + 1
      ∧ (∀ x ∈ mutLists h' h.arrs.length, h.lists.length ≤ x)
      ∧ (∀ x ∈ mutBufs h' h.arrs.length, h.bufs.length ≤ x) := by
  simp only [Derive.isolated, Bool.and_eq_true] at hi
  obtain ⟨⟨⟨⟨i1, i2⟩, i3⟩, i4⟩, i5⟩ := hi
  simp only [step, plan, planDerive]
  -- name the intermediate builders
  generalize hb0 : ({ h := h } : Bld) = b0
  have hb0h : b0.h = h := by rw [← hb0]
  have hb0a : b0.al.arrs = [] := by rw [← hb0]
  rcases hL : allocLegs h d.srcs b0 d.legs with ⟨b1, legs⟩
  rcases hQ : allocBuf h d.srcs (·.qtotal) b1 d.qtotal with ⟨b2, qt⟩
  rcases hLa : allocBuf h d.srcs (·.labels) b2 d.labels with ⟨b3, lab⟩
  rcases hQd : allocBuf h d.srcs (·.qdata) b3 d.qdata with ⟨b4, qd⟩
  rcases hD : allocData h d.srcs b4 d.data with ⟨b5, dat⟩
  simp only []
  -- the legs list
  have le01 : BLe b0 b1 ∧ h.lists.length ≤ legs := by
    cases hl : d.legs with
    | sharedList k => rw [hl] at i1; cases i1
    | newList ls =>
      rw [hl] at hL; simp only [allocLegs] at hL
      have := list_le b0 (ls.map (resolveLeg h d.srcs))
      rw [hL] at this
      refine ⟨this, ?_⟩
      have e : legs = (b0.list (ls.map (resolveLeg h d.srcs))).2 := by rw [hL]
      rw [e]; simp [Bld.list, hb0h]
    | sameAs k =>
      rw [hl] at hL; simp only [allocLegs] at hL
      have := list_le b0 (h.list (srcArr h d.srcs k).legs)
      rw [hL] at this
      refine ⟨this, ?_⟩
      have e : legs = (b0.list (h.list (srcArr h d.srcs k).legs)).2 := by rw [hL]
      rw [e]; simp [Bld.list, hb0h]
  have le12 : BLe b1 b2 := by have := allocBuf_le h d.srcs (·.qtotal) b1 d.qtotal; rwa [hQ] at this
  have le23 : BLe b2 b3 := by have := allocBuf_le h d.srcs (·.labels) b2 d.labels; rwa [hLa] at this
  have le34 : BLe b3 b4 := by have := allocBuf_le h d.srcs (·.qdata) b3 d.qdata; rwa [hQd] at this
  have h1 : b1.h = h := le01.1.h.trans hb0h
  have h2 : b2.h = h := le12.h.trans h1
  have h3 : b3.h = h := le23.h.trans h2
  have h4 : b4.h = h := le34.h.trans h3
  have gq : h.bufs.length ≤ qt := by
    have := allocBuf_ge h d.srcs (·.qtotal) b1 d.qtotal i2; rwa [hQ, h1] at this
  have gl : h.bufs.length ≤ lab := by
    have := allocBuf_ge h d.srcs (·.labels) b2 d.labels i3; rwa [hLa, h2] at this
  have gd : h.bufs.length ≤ qd := by
    have := allocBuf_ge h d.srcs (·.qdata) b3 d.qdata i4; rwa [hQd, h3] at this
  -- the data list
  cases hdat : d.data with
  | sharedList k => rw [hdat] at i5; cases i5
  | newList bs =>
    rw [hdat] at i5 hD
    simp only [allocData] at hD
    rcases hB : allocBlks h d.srcs b4 bs with ⟨b4', rs⟩
    rw [hB] at hD
    simp only [] at hD
    have le44 : BLe b4 b4' := by have := allocBlks_le h d.srcs b4 bs; rwa [hB] at this
    have h4' : b4'.h = h := le44.h.trans h4
    have grs : ∀ r ∈ rs, h.bufs.length ≤ r := by
      have := allocBlks_ge h d.srcs b4 bs i5; rwa [hB, h4] at this
    have le45 : BLe b4' b5 := by have := list_le b4' rs; rwa [hD] at this
    have edat : dat = (b4'.list rs).2 := by rw [hD]
    have gdat : h.lists.length ≤ dat := by rw [edat]; simp [Bld.list, h4']
    have arrs5 : b5.al.arrs = [] :=
      (le45.arrs.trans (le44.arrs.trans (le34.arrs.trans (le23.arrs.trans (le12.arrs.trans le01.1.arrs))))).trans hb0a
    -- the final heap
    generalize hA : ArrObj.mk legs qt lab dat qd (d.dtype.getD (srcArr h d.srcs 0).dtype)
      (d.qsorted.getD (srcArr h d.srcs 0).qsorted) = A
    generalize hh' : Plan.apply _ h = h'
    have eArrs : h'.arrs = h.arrs ++ [A] := by
      rw [← hh']; simp [Plan.apply, setMany, Bld.arr, arrs5]
    have eLists : h'.lists = h.lists ++ (b5.arr A).1.al.lists := by
      rw [← hh']; simp [Plan.apply, setMany]
    have hArr : h'.arr h.arrs.length = A := by simp [Heap.arr, eArrs]
    have hlist : h'.list dat = rs := by
      rw [edat]
      exact read_new_list h b4' _ h4' rs (by rw [hD]; exact List.prefix_refl _) h' eLists
    refine ⟨by rw [eArrs]; simp, ?_, ?_⟩
    · intro x hx
      simp only [mutLists, hArr, ← hA, List.mem_cons, List.not_mem_nil, or_false] at hx
      rcases hx with rfl | rfl
      · exact le01.2
      · exact gdat
    · intro x hx
      simp only [mutBufs, hArr] at hx
      rw [← hA] at hx
      simp only [hlist, List.cons_append, List.nil_append, List.mem_cons] at hx
      rcases hx with rfl | rfl | rfl | hx
      · exact gq
      · exact gl
      · exact gd
      · exact grs x hx

end TenpyModel.C03
