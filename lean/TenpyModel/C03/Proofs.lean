import TenpyModel.C03.Ops
/-!
C03 — helper lemmas: what `Plan.apply` leaves alone, what each kind of operation writes, and that
`observe` only depends on the cells reachable from the observed object.
-/
namespace TenpyModel.C03

/-! ### `setMany`, `Plan.apply` -/

theorem setMany_length {α} (l : List α) (ws : List (Ref × α)) : (setMany l ws).length = l.length := by
  induction ws generalizing l with
  | nil => rfl
  | cons w ws ih => obtain ⟨r, v⟩ := w; simp [setMany, ih]

theorem setMany_get {α} (l : List α) (ws : List (Ref × α)) (i : Nat) (hi : ∀ w ∈ ws, w.1 ≠ i) :
    (setMany l ws)[i]? = l[i]? := by
  induction ws generalizing l with
  | nil => rfl
  | cons w ws ih =>
    obtain ⟨r, v⟩ := w
    have h1 : r ≠ i := hi (r, v) (by simp)
    simp only [setMany]
    rw [ih _ (fun w hw => hi w (by simp [hw])), List.getElem?_set_ne h1]

theorem get_append_old {α} (l m : List α) (i : Nat) (hi : i < l.length) : (l ++ m)[i]? = l[i]? :=
  List.getElem?_append_left hi

/-- cell `i` of a store after applying a plan: unchanged when allocated before and not written -/
theorem store_old {α} (l : List α) (ws : List (Ref × α)) (al : List α) (i : Nat) (hi : i < l.length)
    (hw : ∀ w ∈ ws, w.1 ≠ i) : (setMany l ws ++ al)[i]? = l[i]? := by
  rw [get_append_old _ _ _ (by rw [setMany_length]; exact hi), setMany_get _ _ _ hw]

theorem store_len {α} (l : List α) (ws : List (Ref × α)) (al : List α) : l.length ≤ (setMany l ws ++ al).length := by
  simp [setMany_length]

/-! ### stability of stores between two heaps -/

/-- every leg object and leg buffer allocated in `h` is the same in `h'` -/
structure LegStable (h h' : Heap) : Prop where
  legs  : ∀ i, i < h.legs.length → h'.legs[i]? = h.legs[i]?
  lbufs : ∀ i, i < h.lbufs.length → h'.lbufs[i]? = h.lbufs[i]?

/-- `h'` extends `h` (nothing is ever freed) -/
structure Grows (h h' : Heap) : Prop where
  bufs  : h.bufs.length ≤ h'.bufs.length
  lbufs : h.lbufs.length ≤ h'.lbufs.length
  lists : h.lists.length ≤ h'.lists.length
  legs  : h.legs.length ≤ h'.legs.length
  arrs  : h.arrs.length ≤ h'.arrs.length

theorem Grows.refl (h : Heap) : Grows h h := ⟨Nat.le_refl _, Nat.le_refl _, Nat.le_refl _, Nat.le_refl _, Nat.le_refl _⟩
theorem Grows.trans {a b c : Heap} (x : Grows a b) (y : Grows b c) : Grows a c :=
  ⟨Nat.le_trans x.bufs y.bufs, Nat.le_trans x.lbufs y.lbufs, Nat.le_trans x.lists y.lists,
   Nat.le_trans x.legs y.legs, Nat.le_trans x.arrs y.arrs⟩

theorem LegStable.refl (h : Heap) : LegStable h h := ⟨fun _ _ => rfl, fun _ _ => rfl⟩
theorem LegStable.trans {a b c : Heap} (g : Grows a b) (x : LegStable a b) (y : LegStable b c) : LegStable a c :=
  ⟨fun i hi => (y.legs i (Nat.lt_of_lt_of_le hi g.legs)).trans (x.legs i hi),
   fun i hi => (y.lbufs i (Nat.lt_of_lt_of_le hi g.lbufs)).trans (x.lbufs i hi)⟩

theorem apply_grows (p : Plan) (h : Heap) : Grows h (p.apply h) :=
  ⟨store_len _ _ _, store_len _ _ _, store_len _ _ _, store_len _ _ _, store_len _ _ _⟩

/-- a plan that writes no leg object and no leg buffer -/
def Plan.legSafe (p : Plan) : Prop := p.wr.legs = [] ∧ p.wr.lbufs = []

theorem apply_legStable (p : Plan) (h : Heap) (hs : p.legSafe) : LegStable h (p.apply h) := by
  obtain ⟨h1, h2⟩ := hs
  constructor
  · intro i hi
    show (setMany h.legs p.wr.legs ++ p.al.legs)[i]? = _
    rw [h1]; exact store_old _ _ _ _ hi (by simp)
  · intro i hi
    show (setMany h.lbufs p.wr.lbufs ++ p.al.lbufs)[i]? = _
    rw [h2]; exact store_old _ _ _ _ hi (by simp)

/-! ### observation depends only on reachable cells -/

theorem obsLeg1_congr {h h' : Heap} (s : LegStable h h') (l : Ref) (hc : closedLeg1 h l = true) :
    obsLeg1 h' l = obsLeg1 h l ∧ h'.leg l = h.leg l := by
  simp only [closedLeg1, Bool.and_eq_true, decide_eq_true_eq] at hc
  obtain ⟨⟨h1, h2⟩, h3⟩ := hc
  have e : h'.leg l = h.leg l := by simp only [Heap.leg, s.legs l h1]
  refine ⟨?_, e⟩
  simp only [obsLeg1, e, Heap.lbuf, s.lbufs _ h2, s.lbufs _ h3]

theorem obsLeg_congr {h h' : Heap} (s : LegStable h h') (l : Ref) (hc : closedLeg h l = true) :
    obsLeg h' l = obsLeg h l := by
  simp only [closedLeg, Bool.and_eq_true, List.all_eq_true] at hc
  obtain ⟨h1, h2⟩ := hc
  obtain ⟨e1, e2⟩ := obsLeg1_congr s l h1
  simp only [obsLeg, e1, e2]
  congr 1
  exact List.map_congr_left (fun x hx => (obsLeg1_congr s x (h2 x hx)).1)

theorem closedLeg_mono {h h' : Heap} (g : Grows h h') (s : LegStable h h') (l : Ref) (hc : closedLeg h l = true) :
    closedLeg h' l = true := by
  have one : ∀ x, closedLeg1 h x = true → closedLeg1 h' x = true ∧ h'.leg x = h.leg x := by
    intro x hx
    have e := (obsLeg1_congr s x hx).2
    simp only [closedLeg1, Bool.and_eq_true, decide_eq_true_eq] at hx ⊢
    rw [e]
    exact ⟨⟨⟨Nat.lt_of_lt_of_le hx.1.1 g.legs, Nat.lt_of_lt_of_le hx.1.2 g.lbufs⟩,
      Nat.lt_of_lt_of_le hx.2 g.lbufs⟩, rfl⟩
  simp only [closedLeg, Bool.and_eq_true, List.all_eq_true] at hc ⊢
  obtain ⟨h1, h2⟩ := hc
  refine ⟨(one l h1).1, ?_⟩
  rw [(one l h1).2]
  exact fun x hx => (one x (h2 x hx)).1

/-- the cells of the tensor-side stores that `observe h a` reads are the same in `h'` -/
structure Agree (h h' : Heap) (a : Ref) : Prop where
  arr   : h'.arrs[a]? = h.arrs[a]?
  lists : ∀ x ∈ mutLists h a, h'.lists[x]? = h.lists[x]?
  bufs  : ∀ x ∈ mutBufs h a, h'.bufs[x]? = h.bufs[x]?

theorem observe_congr {h h' : Heap} (s : LegStable h h') (a : Ref) (hc : closed h a = true) (ag : Agree h h' a) :
    observe h' a = observe h a := by
  have eA : h'.arr a = h.arr a := by simp only [Heap.arr, ag.arr]
  have eL : ∀ x ∈ mutLists h a, h'.list x = h.list x := fun x hx => by simp only [Heap.list, ag.lists x hx]
  have eB : ∀ x ∈ mutBufs h a, h'.buf x = h.buf x := fun x hx => by simp only [Heap.buf, ag.bufs x hx]
  simp only [closed, Bool.and_eq_true, List.all_eq_true] at hc
  obtain ⟨_, hlegs⟩ := hc
  simp only [observe, eA]
  have l1 := eL (h.arr a).legs (by simp [mutLists])
  have l2 := eL (h.arr a).data (by simp [mutLists])
  have b1 := eB (h.arr a).qtotal (by simp [mutBufs])
  have b2 := eB (h.arr a).labels (by simp [mutBufs])
  have b3 := eB (h.arr a).qdata (by simp [mutBufs])
  rw [l1, l2, b1, b2, b3]
  congr 1
  · exact List.map_congr_left (fun x hx => obsLeg_congr s x (hlegs x hx))
  · congr 1
    exact List.map_congr_left (fun x hx => eB x (by simp [mutBufs, hx]))

theorem mut_congr {h h' : Heap} (a : Ref) (ag : Agree h h' a) :
    mutLists h' a = mutLists h a ∧ mutBufs h' a = mutBufs h a := by
  have eA : h'.arr a = h.arr a := by simp only [Heap.arr, ag.arr]
  have l2 : h'.list (h.arr a).data = h.list (h.arr a).data := by
    simp only [Heap.list, ag.lists (h.arr a).data (by simp [mutLists])]
  exact ⟨by simp only [mutLists, eA], by simp only [mutBufs, eA, l2]⟩

theorem closed_mono {h h' : Heap} (g : Grows h h') (s : LegStable h h') (a : Ref) (hc : closed h a = true)
    (ag : Agree h h' a) : closed h' a = true := by
  have eA : h'.arr a = h.arr a := by simp only [Heap.arr, ag.arr]
  have l1 : h'.list (h.arr a).legs = h.list (h.arr a).legs := by
    simp only [Heap.list, ag.lists (h.arr a).legs (by simp [mutLists])]
  have l2 : h'.list (h.arr a).data = h.list (h.arr a).data := by
    simp only [Heap.list, ag.lists (h.arr a).data (by simp [mutLists])]
  simp only [closed, Bool.and_eq_true, List.all_eq_true, decide_eq_true_eq] at hc ⊢
  rw [eA, l1, l2]
  obtain ⟨⟨⟨⟨⟨⟨⟨c1, c2⟩, c3⟩, c4⟩, c5⟩, c6⟩, c7⟩, c8⟩ := hc
  exact ⟨⟨⟨⟨⟨⟨⟨Nat.lt_of_lt_of_le c1 g.arrs, Nat.lt_of_lt_of_le c2 g.lists⟩, Nat.lt_of_lt_of_le c3 g.lists⟩,
    Nat.lt_of_lt_of_le c4 g.bufs⟩, Nat.lt_of_lt_of_le c5 g.bufs⟩, Nat.lt_of_lt_of_le c6 g.bufs⟩,
    fun x hx => Nat.lt_of_lt_of_le (c7 x hx) g.bufs⟩, fun x hx => closedLeg_mono g s x (c8 x hx)⟩

/-- a closed tensor's mutable cells are all allocated -/
theorem closed_bounds {h : Heap} {a : Ref} (hc : closed h a = true) :
    a < h.arrs.length ∧ (∀ x ∈ mutLists h a, x < h.lists.length) ∧ (∀ x ∈ mutBufs h a, x < h.bufs.length) := by
  simp only [closed, Bool.and_eq_true, List.all_eq_true, decide_eq_true_eq] at hc
  obtain ⟨⟨⟨⟨⟨⟨⟨c1, c2⟩, c3⟩, c4⟩, c5⟩, c6⟩, c7⟩, _⟩ := hc
  refine ⟨c1, ?_, ?_⟩
  · intro x hx
    simp only [mutLists, List.mem_cons, List.not_mem_nil, or_false] at hx
    rcases hx with rfl | rfl <;> assumption
  · intro x hx
    simp only [mutBufs, List.cons_append, List.nil_append, List.mem_cons] at hx
    rcases hx with rfl | rfl | rfl | hx
    · exact c4
    · exact c5
    · exact c6
    · exact c7 x hx

/-- what a plan must avoid so that tensor `a` reads the same cells afterwards -/
theorem agree_of_apply (p : Plan) (h : Heap) (a : Ref) (hc : closed h a = true)
    (ha : ∀ w ∈ p.wr.arrs, w.1 ≠ a) (hl : ∀ w ∈ p.wr.lists, w.1 ∉ mutLists h a)
    (hb : ∀ w ∈ p.wr.bufs, w.1 ∉ mutBufs h a) : Agree h (p.apply h) a := by
  obtain ⟨c1, c2, c3⟩ := closed_bounds hc
  refine ⟨store_old _ _ _ _ c1 ha, ?_, ?_⟩
  · intro x hx
    exact store_old _ _ _ _ (c2 x hx) (fun w hw e => hl w hw (e ▸ hx))
  · intro x hx
    exact store_old _ _ _ _ (c3 x hx) (fun w hw e => hb w hw (e ▸ hx))

/-! ### what each kind of operation writes -/

theorem planLeg_wr (h : Heap) (d : LegDerive) : (planLeg h d).wr = {} := by
  unfold planLeg
  split <;> rfl

theorem planDerive_wr (h : Heap) (d : Derive) : (planDerive h d).wr = {} := rfl

theorem updBuf_writes (h : Heap) (srcs : List Ref) (get : ArrObj → Ref) (A : ArrObj) (b : Bld) (u : Upd BufSrc) :
    ∀ w ∈ (updBuf h srcs get A b u).2.2, w.1 = get A := by
  cases u <;> simp [updBuf]

theorem planInplace_writes (h : Heap) (t : Ref) (u : Update) :
    let p := planInplace h t u
    p.wr.legs = [] ∧ p.wr.lbufs = [] ∧ (∀ w ∈ p.wr.arrs, w.1 = t)
      ∧ (∀ w ∈ p.wr.lists, w.1 ∈ mutLists h t) ∧ (∀ w ∈ p.wr.bufs, w.1 ∈ mutBufs h t) := by
  refine ⟨rfl, rfl, ?_, ?_, ?_⟩
  · intro w hw
    simp only [planInplace, List.mem_singleton] at hw
    rw [hw]
  · intro w hw
    simp only [planInplace, List.mem_append] at hw
    rcases hw with hw | hw
    · cases hu : u.legs <;> simp only [hu] at hw <;> simp_all [mutLists]
    · cases hu : u.data <;> simp only [hu] at hw <;> simp_all [mutLists]
  · intro w hw
    simp only [planInplace, List.mem_append, List.mem_filterMap] at hw
    rcases hw with ((hw | hw) | hw) | hw
    · have := updBuf_writes _ _ _ _ _ _ w hw; simp [mutBufs, this]
    · have := updBuf_writes _ _ _ _ _ _ w hw; simp [mutBufs, this]
    · have := updBuf_writes _ _ _ _ _ _ w hw; simp [mutBufs, this]
    · obtain ⟨⟨i, tok⟩, _, hx⟩ := hw
      simp only [Option.map_eq_some_iff] at hx
      obtain ⟨r, hr, rfl⟩ := hx
      have : r ∈ h.list (h.arr t).data := List.mem_of_getElem? hr
      simp [mutBufs, this]

theorem planResort_writes (h : Heap) (t : Ref) (s : Bool) (c : Option (List Bool)) :
    let p := planResort h t s c
    p.wr.legs = [] ∧ p.wr.lbufs = [] ∧ p.wr.lists = [] ∧ p.wr.bufs = [] ∧ (∀ w ∈ p.wr.arrs, w.1 = t) := by
  unfold planResort
  simp only
  split
  · simp
  · split <;> simp [resortMain]

end TenpyModel.C03
