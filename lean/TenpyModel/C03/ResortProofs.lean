import TenpyModel.C03.Proofs
/-!
C03 — `isort_qdata` / `_imake_contiguous` leave the tensor observably unchanged (`ObsEq`): the blocks are
re-ordered together with their `_qdata` rows, non-contiguous blocks are replaced by equal copies.
-/
namespace TenpyModel.C03

theorem insertKey_perm (x : Nat × Ref) (l : List (Nat × Ref)) : (insertKey x l).Perm (x :: l) := by
  induction l with
  | nil => exact List.Perm.refl _
  | cons y ys ih =>
    simp only [insertKey]
    split
    · exact List.Perm.refl _
    · exact (List.Perm.cons y ih).trans (List.Perm.swap x y ys)

theorem sortKeys_perm (l : List (Nat × Ref)) : (sortKeys l).Perm l := by
  induction l with
  | nil => exact List.Perm.refl _
  | cons x xs ih => exact (insertKey_perm x _).trans (List.Perm.cons x ih)

/-- a block is either kept (`lookupRef … r = r`) or replaced by the `j`-th fresh buffer, which was allocated for it -/
theorem lookupRef_freshMap (base : Nat) (fl : List Ref) (r : Ref) :
    lookupRef (freshMap base fl) r = r ∨ ∃ j, lookupRef (freshMap base fl) r = base + j ∧ fl[j]? = some r := by
  induction fl generalizing base with
  | nil => left; rfl
  | cons f fs ih =>
    by_cases hf : f = r
    · right
      refine ⟨0, ?_, by simp [hf]⟩
      simp [lookupRef, freshMap, hf]
    · have e : lookupRef (freshMap base (f :: fs)) r = lookupRef (freshMap (base + 1) fs) r := by
        simp [lookupRef, freshMap, hf]
      rw [e]
      rcases ih (base + 1) with h1 | ⟨j, h1, h2⟩
      · left; exact h1
      · right
        refine ⟨j + 1, ?_, by simpa using h2⟩
        rw [h1, Nat.add_assoc, Nat.add_comm 1 j]

theorem apply_nop (h : Heap) (res : List Ref) : Plan.apply { res := res } h = h := by
  simp [Plan.apply, setMany]

/-- the heap after a resort that does something -/
theorem resort_obs (h : Heap) (t : Ref) (hc : closed h t = true)
    (pairs : List (Nat × Ref)) (hp : pairs.Perm ((h.buf (h.arr t).qdata).zip (h.list (h.arr t).data)))
    (fl : List Ref) (extra : List (List Nat)) (qd : Ref) (flag : Bool)
    (hq : (h.bufs ++ (fl.map h.buf ++ extra))[qd]? = some (pairs.map (·.1)))
    (h' : Heap)
    (e1 : h'.bufs = h.bufs ++ (fl.map h.buf ++ extra))
    (e2 : h'.lists = h.lists ++ [pairs.map (fun p => lookupRef (freshMap h.bufs.length fl) p.2)])
    (e3 : h'.arrs = h.arrs.set t { h.arr t with data := h.lists.length, qdata := qd, qsorted := flag })
    (s : LegStable h h') :
    ObsEq (observe h' t) (observe h t) := by
  obtain ⟨c1, c2, c3⟩ := closed_bounds hc
  have hA : h'.arr t = { h.arr t with data := h.lists.length, qdata := qd, qsorted := flag } := by
    simp only [Heap.arr, e3, List.getElem?_set_self c1, Option.getD_some]
  have oldL : ∀ x, x < h.lists.length → h'.list x = h.list x := by
    intro x hx; simp only [Heap.list, e2, List.getElem?_append_left hx]
  have oldB : ∀ x, x < h.bufs.length → h'.buf x = h.buf x := by
    intro x hx; simp only [Heap.buf, e1, List.getElem?_append_left hx]
  have hlegs := oldL (h.arr t).legs (c2 _ (by simp [mutLists]))
  have hqt := oldB (h.arr t).qtotal (c3 _ (by simp [mutBufs]))
  have hlab := oldB (h.arr t).labels (c3 _ (by simp [mutBufs]))
  have hnew : h'.list h.lists.length = pairs.map (fun p => lookupRef (freshMap h.bufs.length fl) p.2) := by
    simp [Heap.list, e2]
  have hqd : h'.buf qd = pairs.map (·.1) := by simp only [Heap.buf, e1, hq, Option.getD_some]
  -- every block of the new list has the contents of the block it stands for
  have hblk : ∀ p ∈ pairs, h'.buf (lookupRef (freshMap h.bufs.length fl) p.2) = h.buf p.2 := by
    intro p hpm
    have hmem : p.2 ∈ h.list (h.arr t).data := (List.of_mem_zip (a := p.1) (b := p.2) ((hp.mem_iff).1 hpm)).2
    have hlt : p.2 < h.bufs.length := c3 _ (by simp [mutBufs, hmem])
    rcases lookupRef_freshMap h.bufs.length fl p.2 with h1 | ⟨j, h1, h2⟩
    · rw [h1]; exact oldB _ hlt
    · rw [h1]
      have hj : j < fl.length := by
        rcases List.getElem?_eq_some_iff.1 h2 with ⟨hj, _⟩; exact hj
      simp only [Heap.buf, e1]
      rw [List.getElem?_append_right (Nat.le_add_right _ _), Nat.add_sub_cancel_left,
        List.getElem?_append_left (by simpa using hj), List.getElem?_map, h2]
      simp [Heap.buf]
  simp only [closed, Bool.and_eq_true, List.all_eq_true] at hc
  obtain ⟨_, hcl⟩ := hc
  refine ⟨?_, ?_, ?_, ?_, ?_⟩
  · simp only [observe, hA, hlegs]
    exact List.map_congr_left (fun x hx => obsLeg_congr s x (hcl x hx))
  · simp only [observe, hA, hqt]
  · simp only [observe, hA, hlab]
  · simp only [observe, hA]
  · simp only [observe, hA, hqd, hnew, List.map_map]
    have e : (List.map (fun x => x.fst) pairs).zip
        (List.map (h'.buf ∘ fun p => lookupRef (freshMap h.bufs.length fl) p.2) pairs)
        = pairs.map (fun p => (p.1, h.buf p.2)) := by
      rw [List.zip_map']
      exact List.map_congr_left (fun p hpm => by simp [hblk p hpm])
    rw [e, List.zip_map_right]
    have : (List.map (Prod.map id h.buf) ((h.buf (h.arr t).qdata).zip (h.list (h.arr t).data)))
        = ((h.buf (h.arr t).qdata).zip (h.list (h.arr t).data)).map (fun p => (p.1, h.buf p.2)) :=
      List.map_congr_left (fun p _ => rfl)
    rw [this]
    exact hp.map _

end TenpyModel.C03
