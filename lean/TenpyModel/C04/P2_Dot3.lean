import TenpyModel.C04.P2_Dot2
import TenpyModel.C01.B2_Outer
import TenpyModel.C01.B2_Dot9
/-!
C04 part 2 — `tensordot`, step 3: every branch of the body (full contraction, operand without blocks / single block
pair, `axes = 0` → `outer`, `_tensordot_worker`) on operands with the same kernel-independent content; assembly
`tensordot_respects`.
-/
namespace TenpyModel.C04P2
open TenpyModel.Core TenpyModel.C01B TenpyModel.C01B2

variable {α : Type}

/-- agreement of two results of an operation that returns a tensor or a scalar -/
def ValRel (R : Arr α → Arr α → Prop) : Val α → Val α → Prop
  | .arr r, .arr s => R r s
  | .scalar x, .scalar y => x = y
  | _, _ => False

/-- same content, both well formed -/
def KW (r s : Arr α) : Prop := KEq r s ∧ r.WF ∧ s.WF

theorem KW.refl {r : Arr α} (h : r.WF) : KW r r := ⟨KEq.refl r, h, h⟩

def dotLabels (a b : Arr α) (k : Nat) : List Label :=
  Label.dropDuplicate (a.labels.take (a.rank - k)) (b.labels.drop k)

/-- the `no_block or one_block` branch -/
def dotSpecial [Add α] [Mul α] [Zero α] (a b : Arr α) (k : Nat) : Except Err (Val α) :=
  match (Arr.zeros a.mods (a.legs.take (a.rank - k) ++ b.legs.drop k) (some (cadd a.qtotal b.qtotal)) none :
      Except Err (Arr α)) with
  | .error e => .error e
  | .ok res =>
    .ok (.arr { (if (a.storedBlocks = 1 ∧ b.storedBlocks = 1)
          ∧ (a.qdata.headD []).drop (a.rank - k) = (b.qdata.headD []).take k then
        { res with data := [Dense.tensordot (a.data.headD ⟨[], []⟩) (b.data.headD ⟨[], []⟩) k],
                   qdata := [(a.qdata.headD []).take (a.rank - k) ++ (b.qdata.headD []).drop k], qdataSorted := true }
      else res) with labels := dotLabels a b k })

theorem dotBody_cases [Add α] [Mul α] [Zero α] (a b : Arr α) (k : Nat) :
    dotBody a b k =
      if k = a.rank ∧ k = b.rank then .ok (.scalar (Arr.innerWorker id a b false))
      else if (a.storedBlocks = 0 ∨ b.storedBlocks = 0) ∨ (a.storedBlocks = 1 ∧ b.storedBlocks = 1) then dotSpecial a b k
      else if k = 0 then (match a.outer b with | .error e => .error e | .ok r => .ok (.arr r))
      else match Arr.tensordotWorker a b k with
        | .error e => .error e
        | .ok res => .ok (.arr { res with labels := dotLabels a b k }) := by
  unfold dotBody dotSpecial dotLabels
  simp only [bind, Except.bind, pure, Except.pure]
  split
  · rfl
  · split
    · cases (Arr.zeros a.mods (a.legs.take (a.rank - k) ++ b.legs.drop k) (some (cadd a.qtotal b.qtotal)) none :
        Except Err (Arr α)) <;> rfl
    · split
      · cases a.outer b <;> rfl
      · cases Arr.tensordotWorker a b k <;> rfl

section body
variable [CommSemiring α]
set_option linter.unusedSectionVars false

/-! ### the special branch -/

theorem special_WF (a b : Arr α) (k : Nat) (h : DotHyp a b k)
    (hsp : (a.storedBlocks = 0 ∨ b.storedBlocks = 0) ∨ (a.storedBlocks = 1 ∧ b.storedBlocks = 1)) (v : Val α)
    (hv : dotSpecial a b k = .ok v) : ∃ r, v = .arr r ∧ r.WF := by
  unfold dotSpecial at hv
  cases hz : (Arr.zeros a.mods (a.legs.take (a.rank - k) ++ b.legs.drop k) (some (cadd a.qtotal b.qtotal)) none :
      Except Err (Arr α)) with
  | error e => rw [hz] at hv; simp at hv
  | ok res =>
    rw [hz] at hv
    simp only [Except.ok.injEq] at hv
    have hres := zeros_ok _ _ _ _ hz
    refine ⟨_, hv.symm, ?_⟩
    by_cases hone : a.storedBlocks = 1 ∧ b.storedBlocks = 1
    · obtain ⟨qa, A, hqa, hA⟩ := single_of_length a.qdata a.data h.wa.len hone.1
      obtain ⟨qb, B, hqb, hB⟩ := single_of_length b.qdata b.data h.wb.len hone.2
      have hzA : a.qdata.zip a.data = [(qa, A)] := by rw [hqa, hA]; rfl
      have hzB : b.qdata.zip b.data = [(qb, B)] := by rw [hqb, hB]; rfl
      simp only [hone, true_and, hqa, hqb, hA, hB, List.headD_cons]
      apply one_wf a b k h qa qb A B hzA hzB
      · split <;> rw [hres]
      · unfold oneRows
        split <;> simp [hres]
      · unfold oneRows
        split <;> simp [hres]
      · apply labels_len a b _ k h.wa h.wb h.hka _ rfl
        split <;> rw [hres]
    · have hnb : a.storedBlocks = 0 ∨ b.storedBlocks = 0 := by
        rcases hsp with h0 | h1
        · exact h0
        · exact absurd h1 hone
      simp only [hone, false_and, if_false]
      exact (noblock_case a b _ k h hnb (by rw [hres]) (by rw [hres]) (by rw [hres])
        (labels_len a b _ k h.wa h.wb h.hka (by rw [hres]) rfl)).2

theorem single_keq (x x' : Arr α) (hx : x.WF) (hx' : x'.WF) (kx : KEq x x') (h1 : x.storedBlocks = 1) :
    x'.qdata = x.qdata ∧ x'.data = x.data := by
  obtain ⟨q, d, hq, hd⟩ := single_of_length x.qdata x.data hx.2.1 h1
  have h1' : x'.storedBlocks = 1 := by rw [← kx.storedBlocks hx hx']; exact h1
  obtain ⟨q', d', hq', hd'⟩ := single_of_length x'.qdata x'.data hx'.2.1 h1'
  have hp := kx.2.2.2.2
  rw [hq, hd, hq', hd'] at hp
  have : [(q, d)] = [(q', d')] := List.perm_singleton.1 hp
  simp only [List.cons.injEq, Prod.mk.injEq, and_true] at this
  rw [hq, hd, hq', hd', this.1, this.2]
  exact ⟨rfl, rfl⟩

theorem special_respects (a a' b b' : Arr α) (k : Nat) (ha : a.WF) (ha' : a'.WF) (hb : b.WF) (hb' : b'.WF)
    (ka : KEq a a') (kb : KEq b b') : dotSpecial a' b' k = dotSpecial a b k := by
  unfold dotSpecial dotLabels
  rw [← ka.1, ← ka.rank, ← ka.2.1, ← kb.2.1, ← ka.2.2.2.1, ← kb.2.2.2.1, ← ka.2.2.1, ← kb.2.2.1, ← ka.storedBlocks ha ha',
    ← kb.storedBlocks hb hb']
  by_cases hone : a.storedBlocks = 1 ∧ b.storedBlocks = 1
  · obtain ⟨e1, e2⟩ := single_keq a a' ha ha' ka hone.1
    obtain ⟨e3, e4⟩ := single_keq b b' hb hb' kb hone.2
    rw [e1, e2, e3, e4]
  · simp only [hone, false_and, if_false]

/-! ### `outer` -/

/-- the tensor `outer` builds from the empty tensor `res` over the concatenated legs -/
def outerRes (a b res : Arr α) : Arr α :=
  { res with
    qdata := ((b.qdata.zip b.data).flatMap (fun rbB => (a.qdata.zip a.data).map (fun rbA => (rbA, rbB)))).map
      (fun p => p.1.1 ++ p.2.1),
    data := ((b.qdata.zip b.data).flatMap (fun rbB => (a.qdata.zip a.data).map (fun rbA => (rbA, rbB)))).map
      (fun p => Dense.outer p.1.2 p.2.2),
    qdataSorted := a.qdataSorted && b.qdataSorted,
    labels := Label.dropDuplicate a.labels b.labels }

theorem outer_eq (a b : Arr α) :
    a.outer b = if a.mods ≠ b.mods then .error .valueError
      else match (Arr.zeros a.mods (a.legs ++ b.legs) (some (cadd a.qtotal b.qtotal)) none : Except Err (Arr α)) with
        | .error e => .error e
        | .ok res => .ok (outerRes a b res) := by
  unfold Arr.outer outerRes
  simp only [bind, Except.bind, pure, Except.pure, throw, throwThe, MonadExceptOf.throw]
  split
  · rfl
  · cases (Arr.zeros a.mods (a.legs ++ b.legs) (some (cadd a.qtotal b.qtotal)) none : Except Err (Arr α)) <;> rfl

theorem outer_respects (a a' b b' : Arr α) (ha : a.WF) (ha' : a'.WF) (hb : b.WF) (hb' : b'.WF)
    (ka : KEq a a') (kb : KEq b b') : Agree KW (a.outer b) (a'.outer b') := by
  have e1 := outer_eq a b
  have e2 := outer_eq a' b'
  rw [← ka.1, ← kb.1, ← ka.2.1, ← kb.2.1, ← ka.2.2.2.1, ← kb.2.2.2.1] at e2
  by_cases hm : a.mods ≠ b.mods
  · rw [if_pos hm] at e1 e2
    rw [e1, e2]
    exact rfl
  · rw [if_neg hm] at e1 e2
    cases hz : (Arr.zeros a.mods (a.legs ++ b.legs) (some (cadd a.qtotal b.qtotal)) none : Except Err (Arr α)) with
    | error e =>
      rw [hz] at e1 e2
      rw [e1, e2]
      exact rfl
    | ok res =>
      rw [hz] at e1 e2
      simp only at e1 e2
      rw [e1, e2]
      refine ⟨?_, outer_WF a b _ (W.of ha) (W.of hb) e1, outer_WF a' b' _ (W.of ha') (W.of hb') e2⟩
      refine ⟨rfl, rfl, ?_, rfl, ?_⟩
      · show Label.dropDuplicate a.labels b.labels = Label.dropDuplicate a'.labels b'.labels
        rw [ka.2.2.1, kb.2.2.1]
      · show ((List.map _ _).zip (List.map _ _)).Perm ((List.map _ _).zip (List.map _ _))
        rw [List.zip_map', List.zip_map']
        apply List.Perm.map
        refine (List.Perm.flatMap_right _ kb.2.2.2.2).trans ?_
        apply List.Perm.flatMap_left
        intro rbB _
        exact ka.2.2.2.2.map _

/-! ### the worker branch -/

theorem worker_WF (a b : Arr α) (k : Nat) (h : DotHyp a b k) (res : Arr α) (hw : Arr.tensordotWorker a b k = .ok res) :
    ({ res with labels := dotLabels a b k } : Arr α).WF := by
  obtain ⟨_, w2, _, w4, w5⟩ := worker_spec a b res k hw
  have c := ctx_of a b k h
  exact c.wf _ w2 w4 w5 (labels_len a b _ k h.wa h.wb h.hka w2 rfl)

/-! ### assembly -/

/-- **the body of `tensordot` respects `KEq`** -/
theorem dotBody_respects (a a' b b' : Arr α) (k : Nat) (ha : a.WF) (ha' : a'.WF) (hb : b.WF) (hb' : b'.WF)
    (ka : KEq a a') (kb : KEq b b') (h : DotHyp a b k) (h' : DotHyp a' b' k) :
    Agree (ValRel KW) (dotBody a b k) (dotBody a' b' k) := by
  rw [dotBody_cases, dotBody_cases, ← ka.rank, ← kb.rank, ← ka.storedBlocks ha ha', ← kb.storedBlocks hb hb']
  split
  · -- full contraction
    rename_i hfull
    show Arr.innerWorker id a b false = Arr.innerWorker id a' b' false
    apply innerWorker_respects a a' b b' ha ha' hb hb' ka kb
    have := h.bnC
    have e1 : a.lcs.drop (a.rank - k) = a.lcs := by rw [hfull.1]; simp
    have e2 : b.lcs.take k = b.lcs := List.take_of_length_le (by rw [lcs_length]; omega)
    rw [e1, e2] at this
    exact this
  · split
    · rename_i hsp
      rw [special_respects a a' b b' k ha ha' hb hb' ka kb]
      cases hv : dotSpecial a b k with
      | error e => exact rfl
      | ok v =>
        obtain ⟨r, rfl, hr⟩ := special_WF a b k h hsp v hv
        exact KW.refl hr
    · split
      · have := outer_respects a a' b b' ha ha' hb hb' ka kb
        revert this
        cases a.outer b <;> cases a'.outer b' <;> simp [Agree, ValRel]
      · rw [← worker_respects a a' b b' k h h' ka kb]
        have hl : dotLabels a' b' k = dotLabels a b k := by
          unfold dotLabels
          rw [ka.2.2.1, kb.2.2.1, ka.rank]
        rw [hl]
        cases hw : Arr.tensordotWorker a b k with
        | error e => exact rfl
        | ok res => exact KW.refl (worker_WF a b k h res hw)

/-- **`tensordot` respects `KEq`** (either kernel flag on either side): same error class, equal scalars, tensors with
the same kernel-independent content, all well formed -/
theorem tensordot_respects (cy cy' : Bool) (a a' b b' : Arr α) (axes : Arr.DotAxes) (ha : a.WF) (ha' : a'.WF)
    (hb : b.WF) (hb' : b'.WF) (ka : KEq a a') (kb : KEq b b') :
    Agree (ValRel KW) (Arr.tensordot cy a b axes) (Arr.tensordot cy' a' b' axes) := by
  rw [tensordot_eq, tensordot_eq]
  have ht := transposeAxes_respects cy cy' a a' b b' axes ka kb
  cases h1 : Arr.tensordotTransposeAxes cy a b axes with
  | error e =>
    cases h2 : Arr.tensordotTransposeAxes cy' a' b' axes with
    | error e' => rw [h1, h2] at ht; exact ht
    | ok t' => rw [h1, h2] at ht; exact ht.elim
  | ok t =>
    cases h2 : Arr.tensordotTransposeAxes cy' a' b' axes with
    | error e' => rw [h1, h2] at ht; exact ht.elim
    | ok t' =>
      rw [h1, h2] at ht
      obtain ⟨k1, k2, k3⟩ := ht
      obtain ⟨ta, tb, k⟩ := t
      obtain ⟨ta', tb', k'⟩ := t'
      simp only at k1 k2 k3 ⊢
      subst k3
      -- well-formedness and the contraction hypotheses of the transposed operands
      have key : ∀ (c : Bool) (x y tx ty : Arr α) (k : Nat), x.WF → y.WF →
          Arr.tensordotTransposeAxes c x y axes = .ok (tx, ty, k) → tx.WF ∧ ty.WF ∧ DotHyp tx ty k := by
        intro c x y tx ty k hx hy hh
        cases axes with
        | int kk =>
          have hk : 0 ≤ kk := by
            by_contra hneg
            rw [transposeAxes_eq] at hh
            split at hh
            · cases hh
            · simp only [show kk < 0 by omega, if_true] at hh
              cases hh
          obtain ⟨n, rfl⟩ := Int.eq_ofNat_of_zero_le hk
          obtain ⟨rfl, rfl, rfl, _, hka, hkb, hc⟩ := tensordotTranspose_int c x y tx ty n k hh
          exact ⟨hx, hy, W.of hx, W.of hy, hka, hkb, contracted_slices _ _ _ hka hkb hc⟩
        | pair xa xb =>
          obtain ⟨ia, ib, _, _, _, hpa, hpb, rfl, rfl, rfl, _, hk, hc⟩ := transposeAxes_pair c x y tx ty hx hy xa xb k hh
          have wx := (trOp_spec x _ hx hpa).1
          have wy := (trOp_spec y _ hy hpb).1
          have hka : ia.length ≤ (trOp x ((List.range x.rank).filter (fun i => !ia.contains i) ++ ia)).rank := by omega
          have hkb : ia.length ≤ (trOp y (ib ++ (List.range y.rank).filter (fun i => !ib.contains i))).rank := by omega
          exact ⟨wx, wy, W.of wx, W.of wy, hka, hkb, contracted_slices _ _ _ hka hkb hc⟩
      obtain ⟨w1, w2, d1⟩ := key cy a b ta tb k ha hb h1
      obtain ⟨w1', w2', d1'⟩ := key cy' a' b' ta' tb' k ha' hb' h2
      exact dotBody_respects ta ta' tb tb' k w1 w1' w2 w2' k1 k2 d1 d1'

end body
end TenpyModel.C04P2
