import TenpyModel.C04.P2_Ops
import TenpyModel.C01.PropsA
/-!
C04 part 2 — more kernel-independent primitives that respect the kernel-independent equality: `iswapaxes`,
`add_trivial_leg`, `iscale_axis` (block-wise maps of the stored rows / blocks; the checks only read legs and labels).
-/
namespace TenpyModel.C04P2
open TenpyModel.Core TenpyModel.C01B

variable {α : Type}

/-- `iswapaxes(axis1, axis2)` -/
theorem respects_iswapaxes [Zero α] (x1 x2 : Ax) : Respects1 (fun a : Arr α => a.iswapaxes x1 x2) := by
  intro x y h
  have hwf : ∀ (z t : Arr α), z.WF → z.iswapaxes x1 x2 = .ok t → t.WF := by
    intro z t hz ht
    obtain ⟨_, _, _, _, _, _, _, _, _, _, w, _⟩ := C01_toDense_iswapaxes z t x1 x2 hz ht
    exact w
  have e : ∀ z : Arr α, z.iswapaxes x1 x2 =
      match z.getLegIndex x1 with
      | .error e => .error e
      | .ok i => match z.getLegIndex x2 with
        | .error e => .error e
        | .ok j => if i = j then .ok z else
          .ok { z with legs := Arr.swapList z.legs i j default, labels := Arr.swapList z.labels i j none,
                       qdata := z.qdata.map (fun r => Arr.permuteList r (Arr.swapList (List.range z.rank) i j 0) 0),
                       qdataSorted := false,
                       data := z.data.map (fun b => b.transpose (Arr.swapList (List.range z.rank) i j 0)) } := by
    intro z
    unfold Arr.iswapaxes
    simp only [bind, Except.bind, pure, Except.pure]
    cases z.getLegIndex x1 with
    | error e => rfl
    | ok i =>
      simp only
      cases z.getLegIndex x2 with
      | error e => rfl
      | ok j => simp only
  have hx := e x
  have hy := e y
  rw [← getLegIndex_frame x y h.1.frame, ← getLegIndex_frame x y h.1.frame, ← h.1.rank] at hy
  show Agree KW (x.iswapaxes x1 x2) (y.iswapaxes x1 x2)
  cases hi : x.getLegIndex x1 with
  | error e => rw [hi] at hx hy; rw [hx, hy]; exact rfl
  | ok i =>
    rw [hi] at hx hy
    cases hj : x.getLegIndex x2 with
    | error e => rw [hj] at hx hy; rw [hx, hy]; exact rfl
    | ok j =>
      rw [hj] at hx hy
      simp only at hx hy
      by_cases hij : i = j
      · rw [if_pos hij] at hx hy
        rw [hx, hy]
        exact h
      · rw [if_neg hij] at hx hy
        refine (show Agree KW (x.iswapaxes x1 x2) (y.iswapaxes x1 x2) from ?_)
        have wx := hwf x _ h.2.1 hx
        have wy := hwf y _ h.2.2 hy
        rw [hx, hy]
        refine ⟨⟨h.1.1, ?_, ?_, h.1.2.2.2.1, ?_⟩, ?_, ?_⟩
        · show Arr.swapList x.legs i j default = Arr.swapList y.legs i j default
          rw [h.1.2.1]
        · show Arr.swapList x.labels i j none = Arr.swapList y.labels i j none
          rw [h.1.2.2.1]
        · show ((x.qdata.map _).zip (x.data.map _)).Perm ((y.qdata.map _).zip (y.data.map _))
          rw [zip_map_both, zip_map_both]
          exact h.1.2.2.2.2.map _
        · exact wx
        · exact wy

/-- `add_trivial_leg(axis, label, qconj)` -/
theorem respects_addTrivialLeg [Zero α] (axis : Int) (label : Label) (qconj : Int) :
    Respects1 (fun a : Arr α => a.addTrivialLeg axis label qconj) := by
  intro x y h
  show Agree KW (x.addTrivialLeg axis label qconj) (y.addTrivialLeg axis label qconj)
  have hwf : ∀ (z t : Arr α), z.WF → z.addTrivialLeg axis label qconj = .ok t → t.WF := fun z t hz ht =>
    (C01_toDense_addTrivialLeg z t axis label qconj hz ht).2.2.2.2
  have e : ∀ z : Arr α, z.addTrivialLeg axis label qconj =
      if label.isSome ∧ z.labels.contains label then .error .valueError
      else .ok { z with
        legs := Dense.insertAt z.legs (Arr.insertPos z.rank (if axis < 0 then axis + z.rank else axis))
          (.plain (Leg.fromQflat z.mods [czero z.mods.length] qconj)),
        labels := Dense.insertAt z.labels (Arr.insertPos z.rank (if axis < 0 then axis + z.rank else axis)) label,
        data := z.data.map (fun b => b.expandDims (Arr.insertPos z.rank (if axis < 0 then axis + z.rank else axis))),
        qdata := z.qdata.map (fun r => Dense.insertAt r (Arr.insertPos z.rank (if axis < 0 then axis + z.rank else axis)) 0) } :=
    fun z => rfl
  have hx := e x
  have hy := e y
  rw [← h.1.2.2.1, ← h.1.rank, ← h.1.1, ← h.1.2.1] at hy
  by_cases hc : label.isSome ∧ x.labels.contains label
  · rw [if_pos hc] at hx hy
    rw [hx, hy]
    exact rfl
  · rw [if_neg hc] at hx hy
    have wx := hwf x _ h.2.1 hx
    have wy := hwf y _ h.2.2 hy
    rw [hx, hy]
    refine ⟨⟨rfl, rfl, rfl, h.1.2.2.2.1, ?_⟩, wx, wy⟩
    show ((x.qdata.map _).zip (x.data.map _)).Perm ((y.qdata.map _).zip (y.data.map _))
    rw [zip_map_both, zip_map_both]
    exact h.1.2.2.2.2.map _

end TenpyModel.C04P2
