import TenpyModel.C04.P2_Ops2
/-!
C04 — compiled and pure-Python kernels: the two kernel variants of the executable model `Arr` are observationally
equivalent, operation by operation and on all finite programs.

The model carries the kernel flag `cy : Bool` in exactly two operations (`grep cy Core/Arr*.lean`):
`Arr.iaddPrefactorOther cy` (the variants really differ) and `Arr.tensordot cy` / `Arr.tensordotTransposeAxes cy`
(the flag is kept for the signature; after `pending_fixes/C04-tensordot-axes-validation.diff` the variants coincide).

**Observables** (`TenpyModel.C04P2.observe`): `chinfo.mod`, legs (nested pipes, `sorted`/`bunched` flags), labels,
total charge, dense form `toDense`, and the block structure in canonical order (`qdata` / `data` after
`isort_qdata`). For well-formed tensors, equality of the observables is the same as `KEq` (same frame, same *set* of
(row, block) pairs) — `C04_observables_iff`.

**What the model records as different** (and what the verdict of C04 must therefore not rely on): the stored order
of the block list and the cached claim `_qdata_sorted`, in two places only —
(i) the new `self` of `iadd_prefactor_other` for a zero prefactor (compiled: `self` untouched; Python: `self`
lexsorted), (ii) the operand `other` after `iadd_prefactor_other` (compiled: lexsorted in place unless a transposed
copy was made or the prefactor is zero; Python: untouched). dtype is not part of the model (results are exact
scalars of one type `α`).
-/
open TenpyModel.Core TenpyModel.C04P2

/-- for well-formed tensors: equal observables ⇔ same frame and the same set of stored (row, block) pairs -/
theorem C04_observables_iff {α : Type} [Zero α] (x y : Arr α) (hx : x.WF) (hy : y.WF) :
    observe x = observe y ↔
      (x.mods = y.mods ∧ x.legs = y.legs ∧ x.labels = y.labels ∧ x.qtotal = y.qtotal
        ∧ (x.qdata.zip x.data).Perm (y.qdata.zip y.data)) :=
  ⟨KEq_of_observe_eq hx hy, observe_eq_of_KEq hx hy⟩

/-- **the two kernel variants of `iadd_prefactor_other`** (`self += p * other`; `a + b`, `a - b`) on the same
well-formed operands, over any scalars with `0 * s = 0`, `x + 0 = x`: the same class of error, or
* new `self`: equal observables (legs, labels, total charge, dense form, canonical block structure), both well
  formed; for `p ≠ 0` even the *same* tensor (stored order and cached claim included); for `p = 0` the compiled
  variant returns `self` itself and the Python variant `self.isort_qdata()`;
* operand after the call: equal observables; the Python variant leaves it untouched, the compiled variant leaves it
  or lexsorts it in place.
These two differences in stored order / `_qdata_sorted` are the only ones (see `C04_kernel_variants_differ_counterexample`). -/
theorem C04_kernel_variants_agree_iaddPrefactorOther {α : Type} [Zero α] [Add α] [Mul α] [DecidableEq α]
    (hz' : ∀ s : α, 0 * s = 0) (hadd : ∀ x : α, x + 0 = x) (a b : Arr α) (p : α) (ha : a.WF) (hb : b.WF) :
    Agree (fun rc rp : Arr α × Arr α =>
        observe rc.1 = observe rp.1 ∧ rc.1.WF ∧ rp.1.WF
        ∧ (p ≠ 0 → rc.1 = rp.1) ∧ (p = 0 → rc.1 = a ∧ rp.1 = a.isortQdata)
        ∧ observe rc.2 = observe rp.2 ∧ rc.2.WF
        ∧ rp.2 = b ∧ (rc.2 = b ∨ rc.2 = b.isortQdata))
      (a.iaddPrefactorOther true p b) (a.iaddPrefactorOther false p b) := by
  have h1 := iadd_variants hz' hadd a b p ha hb
  have h2 := iadd_step hz' hadd a a b b p ha ha hb hb (KEq.refl a) (KEq.refl b)
  revert h1 h2
  cases a.iaddPrefactorOther true p b <;> cases a.iaddPrefactorOther false p b <;> simp only [Agree]
  · intro h _; exact h
  · intro h _; exact h
  · intro h _; exact h
  · rintro ⟨g1, g2, g3, g4⟩ ⟨k1, k2, w1, w2, w3, w4⟩
    exact ⟨observe_eq_of_KEq w1 w2 k1, w1, w2, g1, g2, observe_eq_of_KEq w3 w4 k2, w3, g3, g4⟩

/-- the differences are real: on `C01CoreExample.a` (two blocks stored in non-lexsorted order) with prefactor 0 the two
variants do **not** return the same state — the compiled one leaves `self` unsorted -/
theorem C04_kernel_variants_differ_counterexample :
    Arr.iaddPrefactorOther true C01CoreExample.a 0 C01CoreExample.b
      ≠ Arr.iaddPrefactorOther false C01CoreExample.a 0 C01CoreExample.b := by
  intro h
  have hcy : Arr.iaddPrefactorOther true C01CoreExample.a 0 C01CoreExample.b
      = .ok (C01CoreExample.a, C01CoreExample.b) := rfl
  have := C04_kernel_variants_agree_iaddPrefactorOther (α := Int) (fun s => Int.zero_mul s) (fun x => Int.add_zero x)
    C01CoreExample.a C01CoreExample.b 0 (by decide) (by decide)
  rw [← h, hcy] at this
  obtain ⟨_, _, _, _, g, _⟩ := this
  have e := (g rfl).2
  have hf : C01CoreExample.a.qdataSorted = true := by
    have := isortQdata_flag C01CoreExample.a
    rw [← e] at this
    exact this
  exact absurd hf (by decide)

/-- non-vacuity (`p = 2`, operands with different stored rows: the general merge): both variants succeed, return
the same new `self`; (`p = 0`): the compiled variant returns the unsorted `self`, the Python variant the lexsorted one,
with the same observables -/
example : ∃ rc rp, Arr.iaddPrefactorOther true C01CoreExample.a 2 C01CoreExample.b = .ok rc
    ∧ Arr.iaddPrefactorOther false C01CoreExample.a 2 C01CoreExample.b = .ok rp
    ∧ rc.1 = rp.1 ∧ observe rc.2 = observe rp.2 ∧ rp.2 = C01CoreExample.b := by
  have h := C04_kernel_variants_agree_iaddPrefactorOther (α := Int) (fun s => Int.zero_mul s) (fun x => Int.add_zero x)
    C01CoreExample.a C01CoreExample.b 2 (by decide) (by decide)
  have hcy : ∃ r, Arr.iaddPrefactorOther true C01CoreExample.a 2 C01CoreExample.b = .ok r := by
    rw [iadd_cy_eq]
    exact ⟨_, rfl⟩
  obtain ⟨rc, hrc⟩ := hcy
  rw [hrc] at h
  cases hpy : Arr.iaddPrefactorOther false C01CoreExample.a 2 C01CoreExample.b with
  | error e => rw [hpy] at h; exact h.elim
  | ok rp =>
    rw [hpy] at h
    obtain ⟨_, _, _, g1, _, g3, _, g4, _⟩ := h
    exact ⟨rc, rp, hrc, rfl, g1 (by decide), g3, g4⟩

example : ∃ rp, Arr.iaddPrefactorOther true C01CoreExample.a 0 C01CoreExample.b = .ok (C01CoreExample.a, C01CoreExample.b)
    ∧ Arr.iaddPrefactorOther false C01CoreExample.a 0 C01CoreExample.b = .ok rp
    ∧ rp.1 = C01CoreExample.a.isortQdata ∧ rp.1.qdata = [[0, 0], [2, 0]] ∧ C01CoreExample.a.qdata = [[2, 0], [0, 0]]
    ∧ observe rp.1 = observe C01CoreExample.a := by
  have h := C04_kernel_variants_agree_iaddPrefactorOther (α := Int) (fun s => Int.zero_mul s) (fun x => Int.add_zero x)
    C01CoreExample.a C01CoreExample.b 0 (by decide) (by decide)
  have hcy : Arr.iaddPrefactorOther true C01CoreExample.a 0 C01CoreExample.b
      = .ok (C01CoreExample.a, C01CoreExample.b) := rfl
  rw [hcy] at h
  cases hpy : Arr.iaddPrefactorOther false C01CoreExample.a 0 C01CoreExample.b with
  | error e => rw [hpy] at h; exact h.elim
  | ok rp =>
    rw [hpy] at h
    obtain ⟨g0, _, _, _, g2, _⟩ := h
    have e := (g2 rfl).2
    refine ⟨rp, rfl, rfl, e, ?_, by decide, g0.symm⟩
    rw [e]
    decide

/-- **the two kernel variants of `tensordot` / `_tensordot_transpose_axes`** coincide on *all* operands (well formed or
not): the same outcome including stored block order and cached claim — the flag is not used by the model (both
kernels validate the axes and skip identity transpositions) -/
theorem C04_kernel_variants_agree_tensordot {α : Type} [Add α] [Mul α] [Zero α] (a b : Arr α) (axes : Arr.DotAxes) :
    Arr.tensordot true a b axes = Arr.tensordot false a b axes
    ∧ Arr.tensordotTransposeAxes true a b axes = Arr.tensordotTransposeAxes false a b axes := ⟨rfl, rfl⟩

/-- `conj(a)` with its legs exchanged: `tensordot(a, c, 1)` contracts leg `b*` of `a` with leg `b` of `c` -/
def C04Example.c : Arr Int :=
  { mods := [1, 3], legs := [.plain C01CoreExample.legB.conj, .plain C01CoreExample.legA.conj], qtotal := [1, 2],
    labels := [some "b", some "a*"], qdata := [[0, 2], [0, 0]], data := [⟨[2, 1], [5, -7]⟩, ⟨[2, 1], [1, 2]⟩],
    qdataSorted := false }

example : C04Example.c.WF := by decide

example : ∃ v, Arr.tensordot true C01CoreExample.a C04Example.c (.int 1) = .ok v
    ∧ Arr.tensordot false C01CoreExample.a C04Example.c (.int 1) = .ok v := by
  obtain ⟨r, hr⟩ := TenpyModel.C01B2.tensordot_int_isOk true C01CoreExample.a C04Example.c 1 rfl (by decide) (by decide)
    (by decide)
  exact ⟨_, hr, (C04_kernel_variants_agree_tensordot C01CoreExample.a C04Example.c (.int 1)).1 ▸ hr⟩

/-- **`tensordot` only depends on the observables of its operands** (either kernel flag on either side): operands
with equal observables — e.g. the differently ordered states the two variants of `iadd_prefactor_other` leave behind
— give the same class of error, the same scalar, or tensors with equal observables, well formed. All branches: full
contraction (`_inner_worker`), operand without blocks, single block pair, `axes = 0` (`outer`), `_tensordot_worker`;
axes as an integer or as a pair of index / label lists. -/
theorem C04_tensordot_respects_observables {α : Type} [CommSemiring α] (cy cy' : Bool) (a a' b b' : Arr α)
    (axes : Arr.DotAxes) (ha : a.WF) (ha' : a'.WF) (hb : b.WF) (hb' : b'.WF)
    (oa : observe a = observe a') (ob : observe b = observe b') :
    Agree (ValRel (fun r s => observe r = observe s ∧ r.WF ∧ s.WF))
      (Arr.tensordot cy a b axes) (Arr.tensordot cy' a' b' axes) := by
  have := tensordot_respects cy cy' a a' b b' axes ha ha' hb hb' (KEq_of_observe_eq ha ha' oa) (KEq_of_observe_eq hb hb' ob)
  refine Agree.mono ?_ this
  intro v v' h
  cases v <;> cases v' <;> simp only [ValRel] at h ⊢
  · exact ⟨observe_eq_of_KEq h.2.1 h.2.2 h.1, h.2.1, h.2.2⟩
  · exact h

/-- **`iadd_prefactor_other` under the two configurations from states with equal observables**: the same class of
error, or new `self` and operand with equal observables, all well formed -/
theorem C04_iaddPrefactorOther_respects_observables {α : Type} [Zero α] [Add α] [Mul α] [DecidableEq α]
    (hz' : ∀ s : α, 0 * s = 0) (hadd : ∀ x : α, x + 0 = x) (a a' b b' : Arr α) (p : α) (ha : a.WF) (ha' : a'.WF)
    (hb : b.WF) (hb' : b'.WF) (oa : observe a = observe a') (ob : observe b = observe b') :
    Agree (fun rc rp : Arr α × Arr α =>
        observe rc.1 = observe rp.1 ∧ observe rc.2 = observe rp.2 ∧ rc.1.WF ∧ rp.1.WF ∧ rc.2.WF ∧ rp.2.WF)
      (a.iaddPrefactorOther true p b) (a'.iaddPrefactorOther false p b') := by
  refine Agree.mono ?_ (iadd_step hz' hadd a a' b b' p ha ha' hb hb' (KEq_of_observe_eq ha ha' oa)
    (KEq_of_observe_eq hb hb' ob))
  rintro x y ⟨k1, k2, w1, w2, w3, w4⟩
  exact ⟨observe_eq_of_KEq w1 w2 k1, observe_eq_of_KEq w3 w4 k2, w1, w2, w3, w4⟩

/-- kernel-independent operations of the model that respect the observables, i.e. that may appear as `op1` / `op2`
steps of the programs below: `-a`, `complex_conj`, `a * s`, `conj`, `transpose(axes)`, `isort_qdata`,
`ibinary_blockwise(f, ·)`, `outer` -/
theorem C04_primitives_respect_observables {α : Type} [CommSemiring α] [Neg α] [DecidableEq α] (st : α → α) (s : α)
    (axes : Option (List Ax)) (f : α → α → α) (i j : Nat) :
    StepOK (Step.op1 (fun a : Arr α => .ok a.neg) i)
    ∧ StepOK (Step.op1 (fun a : Arr α => .ok (a.complexConj st)) i)
    ∧ StepOK (Step.op1 (fun a : Arr α => .ok (a.iscalePrefactor s)) i)
    ∧ StepOK (Step.op1 (fun a : Arr α => .ok (a.conj st)) i)
    ∧ StepOK (Step.op1 (fun a : Arr α => a.transpose axes) i)
    ∧ StepOK (Step.op1 (fun a : Arr α => .ok a.isortQdata) i)
    ∧ StepOK (Step.op2 (binarySelf f : Arr α → Arr α → _) i j)
    ∧ StepOK (Step.op2 (Arr.outer : Arr α → Arr α → _) i j) :=
  ⟨respects_neg, respects_complexConj st, respects_scale s, respects_conj st, respects_transpose axes, respects_isort,
    respects_binary f, respects_outer⟩

/-- **all finite programs**: steps `iadd_prefactor_other` (kernel-parametrised), `tensordot` (kernel-parametrised) and
any kernel-independent primitives that respect the observables (`StepOK`; see `C04_primitives_respect_observables`),
executed as the driver does (results appended to the environment, in-place effect on the operand written back, steps
reading a failed value skipped). From any environment of well-formed tensors the two kernel configurations of the
model produce, step by step, the same outcome class, error class, scalar, and tensors with equal observables; the
final environments have equal observables. Induction over the program (`run_agree`). -/
theorem C04_program_variants_agree {α : Type} [CommSemiring α] [DecidableEq α] (prog : List (Step α))
    (hp : ∀ s ∈ prog, StepOK s) (env : Env α) (hw : ∀ a, some a ∈ env → a.WF) :
    (run true env prog).1.map obsOut = (run false env prog).1.map obsOut
    ∧ (run true env prog).2.length = (run false env prog).2.length
    ∧ ∀ i, (look (run true env prog).2 i).map observe = (look (run false env prog).2 i).map observe := by
  obtain ⟨h1, h2⟩ := run_agree prog hp env env (EnvRel.refl env hw)
  refine ⟨forall₂_map_eq _ _ _ obsOut_eq _ _ h1, h2.1, fun i => ?_⟩
  have := h2.2 i
  revert this
  cases look (run true env prog).2 i <;> cases look (run false env prog).2 i <;> simp only [OptKW]
  · intro _; trivial
  · exact False.elim
  · exact False.elim
  · intro h
    simp only [Option.map_some]
    rw [observe_eq_of_KEq h.2.1 h.2.2 h.1]

/-- **the two real configurations agree** whenever each matches its variant of the model on a program (what the
correspondence run establishes per program): combination of `C04_program_variants_agree` with the refinement lemmas
of `Props.lean` -/
theorem C04_configurations_agree {α : Type} [CommSemiring α] [DecidableEq α] (prog : List (Step α))
    (hp : ∀ s ∈ prog, StepOK s) (env : Env α) (hw : ∀ a, some a ∈ env → a.WF) (realCy realPy : List (OutObs α))
    (hcy : realCy = (run true env prog).1.map obsOut) (hpy : realPy = (run false env prog).1.map obsOut) :
    realCy = realPy := by
  rw [hcy, hpy]
  exact (C04_program_variants_agree prog hp env hw).1

namespace C04Example
open TenpyModel.Core.C01CoreExample
/-- `r2 = a + 0 * b` (states differ: unsorted / sorted), `r3 = -r2`, `r4 = conj(a)`,
`r5 = tensordot(r3, r4, (['b*'], ['b']))`, `r6 = r5 + 3 * r5` -/
def prog : List (Step Int) :=
  [.addPrefactor 0 0 1, .op1 (fun x => .ok x.neg) 2, .op1 (fun x => .ok (x.conj id)) 0,
   .tensordot (.pair [.lbl "b*"] [.lbl "b"]) 3 4, .addPrefactor 3 5 5]

theorem prog_ok : ∀ s ∈ prog, StepOK s := by
  intro s hs
  simp only [prog, List.mem_cons, List.mem_nil_iff, or_false] at hs
  rcases hs with rfl | rfl | rfl | rfl | rfl
  · trivial
  · exact respects_neg
  · exact respects_conj id
  · trivial
  · trivial
end C04Example

/-- non-vacuity of the program theorem: hypotheses hold; the first step already leaves different states behind
(compiled: `_qdata_sorted = False`) and the outcomes are nevertheless observed equal -/
example : (run true [some C01CoreExample.a, some C01CoreExample.b] C04Example.prog).1.map obsOut
    = (run false [some C01CoreExample.a, some C01CoreExample.b] C04Example.prog).1.map obsOut :=
  (C04_program_variants_agree C04Example.prog C04Example.prog_ok _ (by
    intro x hx
    simp only [List.mem_cons, Option.some.injEq, List.mem_nil_iff, or_false] at hx
    rcases hx with rfl | rfl <;> decide)).1

example : ∃ r rest, (run true [some C01CoreExample.a, some C01CoreExample.b] C04Example.prog).1 = .tensor r :: rest
    ∧ r.qdataSorted = false := ⟨_, _, rfl, rfl⟩

/-! ### further non-vacuity examples -/

/-- `a` (stored order (2,0), (0,0), unsorted) and `a.isort_qdata()` are different states with equal observables -/
example : observe C01CoreExample.a.isortQdata = observe C01CoreExample.a
    ∧ C01CoreExample.a.isortQdata.qdata ≠ C01CoreExample.a.qdata :=
  ⟨(C04_observables_iff _ _ (by decide) (by decide)).2 ⟨rfl, rfl, rfl, rfl, by decide⟩, by decide⟩

/-- `tensordot` fed with the two different states: same outcome up to observables, and the call does succeed -/
example : Agree (ValRel (fun r s => observe r = observe s ∧ r.WF ∧ s.WF))
      (Arr.tensordot true C01CoreExample.a C04Example.c (.int 1))
      (Arr.tensordot false C01CoreExample.a.isortQdata C04Example.c (.int 1))
    ∧ ∃ v, Arr.tensordot true C01CoreExample.a C04Example.c (.int 1) = .ok v :=
  ⟨C04_tensordot_respects_observables true false _ _ _ _ _ (by decide) (by decide) (by decide) (by decide)
    ((C04_observables_iff _ _ (by decide) (by decide)).2 ⟨rfl, rfl, rfl, rfl, by decide⟩).symm rfl,
   by
    obtain ⟨r, hr⟩ := TenpyModel.C01B2.tensordot_int_isOk true C01CoreExample.a C04Example.c 1 rfl (by decide)
      (by decide) (by decide)
    exact ⟨_, hr⟩⟩

example : Agree (fun rc rp : Arr Int × Arr Int =>
      observe rc.1 = observe rp.1 ∧ observe rc.2 = observe rp.2 ∧ rc.1.WF ∧ rp.1.WF ∧ rc.2.WF ∧ rp.2.WF)
    (Arr.iaddPrefactorOther true C01CoreExample.a 2 C01CoreExample.b)
    (Arr.iaddPrefactorOther false C01CoreExample.a.isortQdata 2 C01CoreExample.b) :=
  C04_iaddPrefactorOther_respects_observables (fun s => Int.zero_mul s) (fun x => Int.add_zero x) _ _ _ _ 2
    (by decide) (by decide) (by decide) (by decide)
    ((C04_observables_iff _ _ (by decide) (by decide)).2 ⟨rfl, rfl, rfl, rfl, by decide⟩).symm rfl

example : StepOK (Step.op1 (fun a : Arr Int => a.transpose (some [.lbl "b*", .idx 0])) 0)
    ∧ StepOK (Step.op2 (binarySelf (fun x y : Int => x * y)) 0 1) :=
  ⟨(C04_primitives_respect_observables id 0 _ (· + ·) 0 0).2.2.2.2.1, (C04_primitives_respect_observables id 0 none _ 0 1).2.2.2.2.2.2.1⟩

/-- two observed traces that match the two model variants on `C04Example.prog` are equal -/
example (realCy realPy : List (OutObs Int))
    (hcy : realCy = (run true [some C01CoreExample.a, some C01CoreExample.b] C04Example.prog).1.map obsOut)
    (hpy : realPy = (run false [some C01CoreExample.a, some C01CoreExample.b] C04Example.prog).1.map obsOut) :
    realCy = realPy :=
  C04_configurations_agree C04Example.prog C04Example.prog_ok _ (by
    intro x hx
    simp only [List.mem_cons, Option.some.injEq, List.mem_nil_iff, or_false] at hx
    rcases hx with rfl | rfl <;> decide) _ _ hcy hpy

/-- further kernel-independent operations that respect the observables: `iswapaxes`, `add_trivial_leg` -/
theorem C04_primitives_respect_observables2 {α : Type} [Zero α] (x1 x2 : Ax) (axis : Int) (label : Label) (qconj : Int)
    (i : Nat) :
    StepOK (Step.op1 (fun a : Arr α => a.iswapaxes x1 x2) i)
    ∧ StepOK (Step.op1 (fun a : Arr α => a.addTrivialLeg axis label qconj) i) :=
  ⟨respects_iswapaxes x1 x2, respects_addTrivialLeg axis label qconj⟩

example : StepOK (Step.op1 (fun a : Arr Int => a.iswapaxes (.idx (-1)) (.lbl "a")) 0) :=
  (C04_primitives_respect_observables2 _ _ 0 none 1 0).1
