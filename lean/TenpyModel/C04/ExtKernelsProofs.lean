import TenpyModel.C04.ExtKernels
import TenpyModel.C06.ListProofs
/-!
C04 extension round — helper lemmas for `PropsExtKernels.lean`: the paired kernels of
`charges.py` / `_npc_helper.pyx` (`make_valid`, `check_valid`, `_find_row_differences`, `_map_blocks`,
`_make_stride`) agree with each other and with the Core closed forms.
-/
namespace TenpyModel.C04Ext
open TenpyModel.Core

/-- `ChargeInfo.__init__` rejects `mod ≤ 0` -/
def ModsOK (mods : List Nat) : Prop := ∀ m ∈ mods, 1 ≤ m

/-! ## one entry of `make_valid` -/

theorem mvCy1_eq_mvPy1 (qm : Nat) (x : Int) : mvCy1 qm x = mvPy1 qm x := by
  unfold mvCy1 mvPy1
  by_cases h1 : qm = 1
  · simp [h1]
  · simp only [ne_eq, h1, not_false_eq_true, if_true]
    rcases Nat.eq_zero_or_pos qm with h0 | hpos
    · subst h0; simp
    · have hq : (0 : Int) < (qm : Int) := by exact_mod_cast hpos
      rw [Int.fmod_eq_emod_of_nonneg x (Int.le_of_lt hq), Int.tmod_eq_emod]
      have hnn := Int.emod_nonneg x (Int.ne_of_gt hq)
      have hlt := Int.emod_lt_of_pos x hq
      by_cases hc : 0 ≤ x ∨ (qm : Int) ∣ x
      · simp only [hc, if_true]
        have : ¬ (x % (qm : Int) - ((0 : Nat) : Int) < 0) := by simp; exact hnn
        simp only [this, if_false]; simp
      · simp only [hc, if_false, Int.natAbs_natCast]
        have : x % (qm : Int) - ((qm : Nat) : Int) < 0 := by omega
        simp only [this, if_true]; omega

theorem mvPy1_eq_mv1 (qm : Nat) (x : Int) : mvPy1 qm x = mv1 qm x := by
  unfold mvPy1 mv1
  by_cases h1 : qm = 1
  · simp [h1]
  · simp only [ne_eq, h1, not_false_eq_true, if_true, if_false]
    exact Int.fmod_eq_emod_of_nonneg x (Int.natCast_nonneg qm)

theorem mvCy1_eq_mv1 (qm : Nat) (x : Int) : mvCy1 qm x = mv1 qm x :=
  (mvCy1_eq_mvPy1 qm x).trans (mvPy1_eq_mv1 qm x)

theorem mv1_range (qm : Nat) (h : 1 ≤ qm) (x : Int) : qm = 1 ∨ (0 ≤ mv1 qm x ∧ mv1 qm x < (qm : Int)) := by
  by_cases h1 : qm = 1
  · exact Or.inl h1
  · right
    have hq : (0 : Int) < (qm : Int) := by exact_mod_cast h
    simp only [mv1, h1, if_false]
    exact ⟨Int.emod_nonneg x (Int.ne_of_gt hq), Int.emod_lt_of_pos x hq⟩

/-! ## in-place loops -/

theorem set_getD_self {α} (l : List α) (j : Nat) (d : α) : l.set j (l.getD j d) = l := by
  apply List.ext_getElem?
  intro i
  rw [List.getElem?_set]
  by_cases hij : j = i
  · subst hij
    by_cases hl : j < l.length
    · simp [hl, List.getD_eq_getElem?_getD]
    · simp [hl]
  · simp [hij]

/-- pointwise value of `for j in range(n): row[j] = f(j, row[j])` -/
theorem foldl_set_getElem? {α} (f : Nat → α → α) (d : α) (n : Nat) (row : List α) (i : Nat) :
    ((List.range n).foldl (fun r j => r.set j (f j (r.getD j d))) row)[i]? =
      if i < n then row[i]?.map (f i) else row[i]? := by
  induction n with
  | zero => simp
  | succ n ih =>
    rw [List.range_succ, List.foldl_append]
    simp only [List.foldl_cons, List.foldl_nil]
    rw [List.getElem?_set]
    by_cases hni : n = i
    · subst hni
      simp only [if_true, Nat.lt_succ_self]
      have hlen : ∀ (m : Nat) (r : List α),
          ((List.range m).foldl (fun r j => r.set j (f j (r.getD j d))) r).length = r.length := by
        intro m; induction m with
        | zero => intro r; simp
        | succ m ihm =>
          intro r
          rw [List.range_succ, List.foldl_append, List.foldl_cons, List.foldl_nil, List.length_set]
          exact ihm r
      rw [hlen]
      by_cases hl : n < row.length
      · simp only [hl, if_true]
        have h2 := ih
        simp only [Nat.lt_irrefl, if_false] at h2
        rw [List.getD_eq_getElem?_getD, h2, List.getElem?_eq_getElem hl]; simp
      · simp [hl]
    · simp only [hni, if_false]
      rw [ih]
      by_cases h1 : i < n
      · have : i < n + 1 := by omega
        simp [h1, this]
      · have : ¬ i < n + 1 := by omega
        simp [h1, this]

/-- a column-outside / row-inside loop is the row loop applied to every row -/
theorem foldl_map_rows {α β} (F : β → α → α) (js : List β) (rows : List α) :
    js.foldl (fun ch j => ch.map (F j)) rows = rows.map (fun row => js.foldl (fun r j => F j r) row) := by
  induction js generalizing rows with
  | nil => simp
  | cons j js ih => simp [ih, List.map_map, Function.comp_def]

theorem mvCy1_one (x : Int) : mvCy1 1 x = x := by simp [mvCy1]

theorem makeValidCy1D_step (mods : List Nat) (ch : List Int) (j : Nat) :
    (let qm := mods.getD j 1
     if qm ≠ 1 then ch.set j (mvCy1 qm (ch.getD j 0)) else ch) =
      ch.set j (mvCy1 (mods.getD j 1) (ch.getD j 0)) := by
  by_cases h : mods.getD j 1 = 1
  · simp only [h, ne_eq, not_true_eq_false, if_false]
    rw [mvCy1_one, set_getD_self]
  · simp only [ne_eq, h, not_false_eq_true, if_true]

theorem makeValidCy1D_eq (mods : List Nat) (row : List Int) :
    makeValidCy1D mods row =
      (List.range mods.length).foldl (fun r j => r.set j (mvCy1 (mods.getD j 1) (r.getD j 0))) row := by
  unfold makeValidCy1D
  congr 1
  funext ch j
  exact makeValidCy1D_step mods ch j

theorem makeValidCy1D_eq_py (mods : List Nat) (row : List Int) (h : row.length = mods.length) :
    makeValidCy1D mods row = makeValidPyRow mods row := by
  rw [makeValidCy1D_eq]
  apply List.ext_getElem?
  intro i
  rw [foldl_set_getElem? (fun j => mvCy1 (mods.getD j 1)) 0]
  unfold makeValidPyRow
  rw [List.getElem?_zipWith]
  by_cases hi : i < mods.length
  · have hi' : i < row.length := by omega
    simp [hi, List.getElem?_eq_getElem hi', mvCy1_eq_mvPy1]
  · have hi' : row.length ≤ i := by omega
    simp [hi, List.getElem?_eq_none hi']

theorem makeValidCy2D_eq (mods : List Nat) (rows : List (List Int)) :
    makeValidCy2D mods rows = rows.map (makeValidCy1D mods) := by
  have h1 : makeValidCy2D mods rows =
      (List.range mods.length).foldl (fun ch j => ch.map (fun row => row.set j (mvCy1 (mods.getD j 1) (row.getD j 0)))) rows := by
    unfold makeValidCy2D
    congr 1
    funext ch j
    by_cases h : mods.getD j 1 = 1
    · simp only [h, ne_eq, not_true_eq_false, if_false]
      conv => lhs; rw [← List.map_id ch]
      apply List.map_congr_left
      intro row _
      rw [mvCy1_one, set_getD_self]; rfl
    · simp only [ne_eq, h, not_false_eq_true, if_true]
  rw [h1, foldl_map_rows (fun j (row : List Int) => row.set j (mvCy1 (mods.getD j 1) (row.getD j 0)))]
  apply List.map_congr_left
  intro row _
  rw [makeValidCy1D_eq]

theorem makeValidPyRow_eq_core (mods : List Nat) (row : List Int) : makeValidPyRow mods row = makeValid mods row := by
  unfold makeValidPyRow makeValid
  congr 1
  funext m x
  exact mvPy1_eq_mv1 m x

theorem makeValidPyRow_nil (row : List Int) : makeValidPyRow [] row = [] := by simp [makeValidPyRow]

/-! ## `make_valid`, all arguments -/

theorem makeValidCy_eq_py (mods : List Nat) (arg : ChArg) (hc : arg.consistent = true) :
    makeValidCy mods arg = makeValidPy mods arg := by
  cases arg with
  | none => rfl
  | d0 x => rfl
  | dn n => rfl
  | d1 row =>
    unfold makeValidCy makeValidPy
    by_cases hl : row.length = mods.length
    · simp only [ne_eq, hl, not_true_eq_false, if_false]
      by_cases h0 : mods.length = 0
      · have : mods = [] := List.eq_nil_of_length_eq_zero h0
        subst this
        simp [makeValidPyRow_nil]
      · simp only [h0, if_false]
        rw [makeValidCy1D_eq_py mods row hl]
    · simp only [ne_eq, hl, not_false_eq_true, if_true]
  | d2 ncols rows =>
    have hrows : ∀ r ∈ rows, r.length = ncols := by
      intro r hr
      have := List.all_eq_true.mp hc r hr
      simpa using this
    unfold makeValidCy makeValidPy
    by_cases hl : ncols = mods.length
    · simp only [ne_eq, hl, not_true_eq_false, if_false]
      by_cases h0 : mods.length = 0
      · have : mods = [] := List.eq_nil_of_length_eq_zero h0
        subst this
        simp only [List.length_nil, if_true]
        congr 2
        apply List.ext_getElem
        · simp
        · intro i h1 h2
          simp [makeValidPyRow_nil]
      · simp only [h0, if_false]
        rw [makeValidCy2D_eq]
        congr 2
        apply List.map_congr_left
        intro r hr
        exact makeValidCy1D_eq_py mods r (by rw [hrows r hr, hl])
    · simp only [ne_eq, hl, not_false_eq_true, if_true]

theorem makeValidCy_d1_core (mods : List Nat) (row : List Int) (h : row.length = mods.length) :
    makeValidCy mods (.d1 row) = .ok (.d1 (makeValid mods row)) := by
  rw [makeValidCy_eq_py mods (.d1 row) rfl]
  simp only [makeValidPy, ne_eq, h, not_true_eq_false, if_false, makeValidPyRow_eq_core]

theorem makeValidCy_d2_core (mods : List Nat) (rows : List (List Int)) (h : ∀ r ∈ rows, r.length = mods.length) :
    makeValidCy mods (.d2 mods.length rows) = .ok (.d2 mods.length (rows.map (makeValid mods))) := by
  have hc : (ChArg.d2 mods.length rows).consistent = true := by
    simp only [ChArg.consistent]
    apply List.all_eq_true.mpr
    intro r hr
    simpa using h r hr
  rw [makeValidCy_eq_py mods _ hc]
  simp only [makeValidPy, ne_eq, not_true_eq_false, if_false]
  congr 2
  apply List.map_congr_left
  intro r _
  exact makeValidPyRow_eq_core mods r

/-! ## `check_valid` -/

theorem all_iff_getD {α} (l : List α) (p : α → Bool) (d : α) :
    l.all p = true ↔ ∀ i, i < l.length → p (l.getD i d) = true := by
  rw [List.all_eq_true]
  constructor
  · intro h i hi
    exact h _ (getD_mem l i d hi)
  · intro h x hx
    obtain ⟨i, hi, rfl⟩ := List.getElem_of_mem hx
    have := h i hi
    rwa [getD_lt l i d hi] at this

theorem range_all_iff (n : Nat) (p : Nat → Bool) :
    (List.range n).all p = true ↔ ∀ i, i < n → p i = true := by
  rw [List.all_eq_true]
  constructor
  · intro h i hi; exact h i (List.mem_range.mpr hi)
  · intro h i hi; exact h i (List.mem_range.mp hi)

theorem zipWith_all_iff {α β} (f : α → β → Bool) (l1 : List α) (l2 : List β) (d1 : α) (d2 : β)
    (h : l2.length = l1.length) :
    (List.zipWith f l1 l2).all id = true ↔ ∀ j, j < l1.length → f (l1.getD j d1) (l2.getD j d2) = true := by
  rw [all_iff_getD _ _ true]
  have hlen : (List.zipWith f l1 l2).length = l1.length := by simp [h]
  rw [hlen]
  constructor
  · intro hh j hj
    have := hh j hj
    rw [getD_lt _ _ _ (by rw [hlen]; exact hj)] at this
    rw [getD_lt l1 j d1 hj, getD_lt l2 j d2 (by omega)]
    simpa using this
  · intro hh j hj
    have := hh j hj
    rw [getD_lt l1 j d1 hj, getD_lt l2 j d2 (by omega)] at this
    rw [getD_lt _ _ _ (by rw [hlen]; exact hj)]
    simpa using this

theorem checkValidPy_iff (mods : List Nat) (rows : List (List Int)) (hc : ∀ r ∈ rows, r.length = mods.length) :
    checkValidPy mods rows = true ↔
      ∀ i, i < rows.length → ∀ j, j < mods.length →
        cv1 (mods.getD j 1) ((rows.getD i []).getD j 0) = true := by
  unfold checkValidPy
  rw [all_iff_getD _ _ []]
  constructor
  · intro h i hi
    have := h i hi
    rwa [zipWith_all_iff _ mods _ 1 0 (hc _ (getD_mem rows i [] hi))] at this
  · intro h i hi
    rw [zipWith_all_iff _ mods _ 1 0 (hc _ (getD_mem rows i [] hi))]
    exact h i hi

theorem cv1_cy (q : Nat) (x : Int) :
    (q == 1 || !(decide (x < 0) || decide (x ≥ (q : Int)))) = cv1 q x := by
  unfold cv1
  by_cases h1 : q = 1
  · simp [h1]
  · by_cases h2 : x < 0
    · have : ¬ 0 ≤ x := by omega
      simp [h2, this]
    · have h3 : 0 ≤ x := by omega
      by_cases h4 : x < (q : Int)
      · have : ¬ (q : Int) ≤ x := by omega
        simp [h2, h3, h4, this]
      · have : (q : Int) ≤ x := by omega
        simp [h2, h3, h4, this]

theorem checkValidCy_iff (mods : List Nat) (rows : List (List Int)) :
    checkValidCy mods rows = true ↔
      ∀ i, i < rows.length → ∀ j, j < mods.length →
        cv1 (mods.getD j 1) ((rows.getD i []).getD j 0) = true := by
  unfold checkValidCy
  by_cases h0 : mods.length = 0
  · simp only [h0, if_true, true_iff]
    intro i _ j hj; omega
  · simp only [h0, if_false]
    rw [range_all_iff]
    constructor
    · intro h i hi j hj
      have h1 := h j hj
      rw [← cv1_cy]
      simp only [Bool.or_eq_true] at h1 ⊢
      rcases h1 with h1 | h1
      · exact Or.inl h1
      · right
        exact (range_all_iff _ _).mp h1 i hi
    · intro h j hj
      simp only [Bool.or_eq_true]
      by_cases h1 : (mods.getD j 1 == 1) = true
      · exact Or.inl h1
      · right
        rw [range_all_iff]
        intro i hi
        have := h i hi j hj
        rw [← cv1_cy] at this
        simp only [Bool.or_eq_true] at this
        rcases this with h2 | h2
        · exact absurd h2 h1
        · exact h2

theorem checkValidCy_eq_py (mods : List Nat) (rows : List (List Int)) (hc : ∀ r ∈ rows, r.length = mods.length) :
    checkValidCy mods rows = checkValidPy mods rows := by
  rw [Bool.eq_iff_iff, checkValidCy_iff, checkValidPy_iff mods rows hc]

theorem checkValidPy_eq_core (mods : List Nat) (rows : List (List Int)) (hc : ∀ r ∈ rows, r.length = mods.length) :
    checkValidPy mods rows = rows.all (checkValid mods) := by
  unfold checkValidPy
  rw [Bool.eq_iff_iff, List.all_eq_true, List.all_eq_true]
  apply forall_congr'
  intro r
  apply imp_congr_right
  intro hr
  rw [← Bool.eq_iff_iff]
  unfold checkValid
  have : (r.length == mods.length) = true := by simpa using hc r hr
  rw [this, Bool.true_and]
  rfl

theorem makeValid_length (mods : List Nat) (r : List Int) (h : r.length = mods.length) :
    (makeValid mods r).length = mods.length := by
  simp [makeValid, h]

theorem makeValid_getD (mods : List Nat) (r : List Int) (h : r.length = mods.length) (j : Nat) (hj : j < mods.length) :
    (makeValid mods r).getD j 0 = mv1 (mods.getD j 1) (r.getD j 0) := by
  have hl := makeValid_length mods r h
  rw [getD_lt _ _ _ (by omega), getD_lt mods j 1 hj, getD_lt r j 0 (by omega)]
  simp [makeValid]

theorem cv1_of_range (m : Nat) (y : Int) (h : m = 1 ∨ (0 ≤ y ∧ y < (m : Int))) : cv1 m y = true := by
  unfold cv1
  rcases h with h1 | ⟨h2, h3⟩
  · simp [h1]
  · simp [h2, h3]

theorem checkValidPy_makeValid (mods : List Nat) (h : ModsOK mods) (rows : List (List Int))
    (hc : ∀ r ∈ rows, r.length = mods.length) :
    checkValidPy mods (rows.map (makeValid mods)) = true := by
  have hc' : ∀ r ∈ rows.map (makeValid mods), r.length = mods.length := by
    intro r hr
    obtain ⟨r0, hr0, rfl⟩ := List.mem_map.mp hr
    exact makeValid_length mods r0 (hc r0 hr0)
  rw [checkValidPy_iff _ _ hc']
  intro i hi j hj
  have hi' : i < rows.length := by simpa using hi
  rw [getD_map' (makeValid mods) rows i [] [] hi']
  rw [makeValid_getD mods _ (hc _ (getD_mem rows i [] hi')) j hj]
  have hm : 1 ≤ mods.getD j 1 := h _ (getD_mem mods j 1 hj)
  exact cv1_of_range _ _ (mv1_range _ hm ((rows.getD i []).getD j 0))

theorem checkValidCy_makeValid (mods : List Nat) (h : ModsOK mods) (rows : List (List Int))
    (hc : ∀ r ∈ rows, r.length = mods.length) :
    checkValidCy mods (rows.map (makeValid mods)) = true := by
  rw [checkValidCy_eq_py]
  · exact checkValidPy_makeValid mods h rows hc
  · intro r hr
    obtain ⟨r0, hr0, rfl⟩ := List.mem_map.mp hr
    exact makeValid_length mods r0 (hc r0 hr0)

/-! ## `_find_row_differences` -/

theorem foldl_filter_append {α} (p : α → Bool) (l init : List α) :
    l.foldl (fun res i => if p i = true then res else res ++ [i]) init = init ++ l.filter (fun i => !p i) := by
  induction l generalizing init with
  | nil => simp
  | cons x l ih =>
    rw [List.foldl_cons, ih]
    by_cases hx : p x = true
    · simp [hx]
    · simp [hx]

theorem rowsEqualCy_iff (M : Nat) (a b : List Int) (ha : a.length = M) (hb : b.length = M) :
    rowsEqualCy M a b = true ↔ a = b := by
  unfold rowsEqualCy
  rw [range_all_iff]
  constructor
  · intro h
    apply List.ext_getElem (by omega)
    intro i h1 h2
    have := h i (by omega)
    rw [getD_lt a i 0 h1, getD_lt b i 0 h2] at this
    simpa using this
  · intro h i _
    subst h; simp

/-- the formula of the docstring: `i` is listed iff row `i - 1` differs from row `i` -/
def rowDiffPred (rows : List (List Int)) (i : Nat) : Bool := decide (rows.getD (i - 1) [] ≠ rows.getD i [])

theorem rowDiffPred_of_eq (rows : List (List Int)) (i : Nat) (h : rows.getD (i - 1) [] = rows.getD i []) :
    rowDiffPred rows i = false := by
  unfold rowDiffPred; rw [h]; exact decide_eq_false (fun hh => hh rfl)

theorem rowDiffPred_of_ne (rows : List (List Int)) (i : Nat) (h : rows.getD (i - 1) [] ≠ rows.getD i []) :
    rowDiffPred rows i = true := by
  unfold rowDiffPred; exact decide_eq_true h

theorem filter_rowDiffPred_nil (rows : List (List Int)) (hc : ∀ r ∈ rows, r.length = 0) :
    (List.range' 1 (rows.length - 1)).filter (rowDiffPred rows) = [] := by
  apply List.filter_eq_nil_iff.mpr
  intro i hi
  have hi' := List.mem_range'_1.mp hi
  have h1 := hc _ (getD_mem rows (i - 1) [] (by omega))
  have h2 := hc _ (getD_mem rows i [] (by omega))
  rw [rowDiffPred_of_eq rows i (by rw [List.eq_nil_of_length_eq_zero h1, List.eq_nil_of_length_eq_zero h2])]
  simp

theorem findRowDiffCy_doc (M : Nat) (rows : List (List Int)) (hc : ∀ r ∈ rows, r.length = M) (hne : rows ≠ []) :
    findRowDiffCy M rows = [0] ++ (List.range' 1 (rows.length - 1)).filter (rowDiffPred rows) ++ [rows.length] := by
  have hL : rows.length ≠ 0 := by simpa using hne
  unfold findRowDiffCy
  simp only [hL, if_false]
  by_cases hM : M = 0
  · simp only [hM, if_true]
    rw [filter_rowDiffPred_nil rows (by rw [← hM]; exact hc)]; rfl
  · simp only [hM, if_false]
    rw [foldl_filter_append (fun i => rowsEqualCy M (rows.getD (i - 1) []) (rows.getD i []))]
    congr 2
    apply List.filter_congr
    intro i hi
    have hi' := List.mem_range'_1.mp hi
    have h1 := hc _ (getD_mem rows (i - 1) [] (by omega))
    have h2 := hc _ (getD_mem rows i [] (by omega))
    have := rowsEqualCy_iff M _ _ h1 h2
    by_cases he : rows.getD (i - 1) [] = rows.getD i []
    · rw [rowDiffPred_of_eq rows i he]
      show (!rowsEqualCy M (rows.getD (i - 1) []) (rows.getD i [])) = false
      rw [this.mpr he]; rfl
    · have h3 : rowsEqualCy M (rows.getD (i - 1) []) (rows.getD i []) = false := by
        rw [Bool.eq_false_iff]; intro h; exact he (this.mp h)
      rw [rowDiffPred_of_ne rows i he]
      show (!rowsEqualCy M (rows.getD (i - 1) []) (rows.getD i [])) = true
      rw [h3]; rfl

theorem any_ne_iff (a b : List Int) (h : a.length = b.length) :
    (List.zipWith (fun x y => x != y) a b).any id = true ↔ a ≠ b := by
  induction a generalizing b with
  | nil =>
    cases b with
    | nil => simp
    | cons y b => simp at h
  | cons x a ih =>
    cases b with
    | nil => simp at h
    | cons y b =>
      have h' : a.length = b.length := by simpa using h
      simp only [List.zipWith_cons_cons, List.any_cons, Bool.or_eq_true, ih b h', id]
      by_cases hxy : x = y
      · subst hxy; simp
      · simp [hxy]

theorem findRowDiffPy_doc (M : Nat) (rows : List (List Int)) (hc : ∀ r ∈ rows, r.length = M) (hne : rows ≠ []) :
    findRowDiffPy M rows = [0] ++ (List.range' 1 (rows.length - 1)).filter (rowDiffPred rows) ++ [rows.length] := by
  have hL : rows.length ≠ 0 := by simpa using hne
  unfold findRowDiffPy
  simp only [hL, if_false]
  by_cases hM : M = 0
  · simp only [hM, if_true]
    rw [filter_rowDiffPred_nil rows (by rw [← hM]; exact hc)]; rfl
  · simp only [hM, if_false]
    generalize hinner : List.zipWith (fun a b => (List.zipWith (fun x y => x != y) a b).any id) rows.tail rows.dropLast = inner
    have hilen : inner.length = rows.length - 1 := by rw [← hinner]; simp
    have hrange : List.range (rows.length + 1) = 0 :: (List.range' 1 (rows.length - 1) ++ [rows.length]) := by
      rw [List.range_eq_range', List.range'_succ]
      congr 1
      have : rows.length = (rows.length - 1) + 1 := by omega
      conv => lhs; rw [this, List.range'_concat]
      congr 2; omega
    rw [hrange, List.filter_cons, List.filter_append]
    have h0 : (true :: (inner ++ [true])).getD 0 false = true := rfl
    have hlast : (true :: (inner ++ [true])).getD rows.length false = true := by
      have : rows.length = (rows.length - 1) + 1 := by omega
      rw [this, List.getD_cons_succ, ← hilen]
      have := getD_append_right' inner [true] 0 false
      rw [Nat.add_zero] at this
      rw [this]; rfl
    rw [h0]
    simp only [if_true, List.filter_cons, hlast, List.filter_nil]
    simp only [List.cons_append, List.nil_append]
    congr 2
    apply List.filter_congr
    intro i hi
    have hi' := List.mem_range'_1.mp hi
    obtain ⟨k, rfl⟩ : ∃ k, i = k + 1 := ⟨i - 1, by omega⟩
    have hk : k < inner.length := by omega
    rw [List.getD_cons_succ, getD_append_left' _ _ _ _ hk, getD_lt _ _ _ hk]
    subst hinner
    rw [List.getElem_zipWith, List.getElem_tail, List.getElem_dropLast]
    have hk1 : k + 1 < rows.length := by omega
    have hk0 : k < rows.length := by omega
    have h1 := hc _ (List.getElem_mem hk1)
    have h2 := hc _ (List.getElem_mem hk0)
    unfold rowDiffPred
    simp only [Nat.add_sub_cancel]
    rw [getD_lt rows k [] hk0, getD_lt rows (k + 1) [] hk1]
    rw [Bool.eq_iff_iff, any_ne_iff _ _ (by omega)]
    simp only [decide_eq_true_eq]
    exact ⟨fun h e => h e.symm, fun h e => h e.symm⟩

theorem rowDiffAux_eq (k : Nat) (rows : List (List Int)) (hne : rows ≠ []) :
    rowDiffAux k rows =
      (List.range' (k + 1) (rows.length - 1)).filter
        (fun i => decide (rows.getD (i - k - 1) [] ≠ rows.getD (i - k) [])) ++ [rows.length + k] := by
  induction rows generalizing k with
  | nil => exact absurd rfl hne
  | cons a rest ih =>
    cases rest with
    | nil => simp [rowDiffAux, Nat.add_comm]
    | cons b rest =>
      rw [rowDiffAux, ih (k + 1) (by simp)]
      simp only [List.length_cons, Nat.add_sub_cancel]
      rw [List.range'_succ, List.filter_cons]
      have e1 : (a :: b :: rest).getD (k + 1 - k - 1) [] = a := by
        have : k + 1 - k - 1 = 0 := by omega
        rw [this]; rfl
      have e2 : (a :: b :: rest).getD (k + 1 - k) [] = b := by
        have : k + 1 - k = 1 := by omega
        rw [this]; rfl
      rw [e1, e2]
      have hfil : (List.range' (k + 1 + 1) rest.length).filter
            (fun i => decide ((b :: rest).getD (i - (k + 1) - 1) [] ≠ (b :: rest).getD (i - (k + 1)) [])) =
          (List.range' (k + 1 + 1) rest.length).filter
            (fun i => decide ((a :: b :: rest).getD (i - k - 1) [] ≠ (a :: b :: rest).getD (i - k) [])) := by
        apply List.filter_congr
        intro i hi
        have hi' := List.mem_range'_1.mp hi
        have x1 : i - k - 1 = (i - (k + 1) - 1) + 1 := by omega
        have x2 : i - k = (i - (k + 1)) + 1 := by omega
        rw [x1, x2, List.getD_cons_succ, List.getD_cons_succ]
      rw [hfil]
      have hlen : rest.length + 1 + (k + 1) = rest.length + 1 + 1 + k := by omega
      rw [hlen]
      by_cases hab : a = b
      · simp [hab]
      · simp [hab]

theorem findRowDifferences_doc (M : Nat) (rows : List (List Int)) (hc : ∀ r ∈ rows, r.length = M) (hne : rows ≠ []) :
    findRowDifferences M rows = [0] ++ (List.range' 1 (rows.length - 1)).filter (rowDiffPred rows) ++ [rows.length] := by
  unfold findRowDifferences
  have : rows.isEmpty = false := by simpa using hne
  simp only [this, Bool.false_eq_true, if_false]
  by_cases hM : M = 0
  · simp only [hM, if_true]
    rw [filter_rowDiffPred_nil rows (by rw [← hM]; exact hc)]; rfl
  · simp only [hM, if_false]
    rw [rowDiffAux_eq 0 rows hne]
    simp only [Nat.zero_add, Nat.sub_zero, Nat.add_zero]
    rfl

/-! ## `_map_blocks` -/

/-- the first `k` constant blocks -/
def blocks (sizes : List Nat) (k : Nat) : List Nat :=
  (List.range k).flatMap (fun i => List.replicate (sizes.getD i 0) i)

theorem blocks_succ (sizes : List Nat) (k : Nat) :
    blocks sizes (k + 1) = blocks sizes k ++ List.replicate (sizes.getD k 0) k := by
  simp [blocks, List.range_succ, List.flatMap_append]

theorem blocks_length (sizes : List Nat) (k : Nat) (hk : k ≤ sizes.length) :
    (blocks sizes k).length = psum sizes k := by
  induction k with
  | zero => simp [blocks]
  | succ k ih =>
    rw [blocks_succ, List.length_append, ih (by omega), List.length_replicate, psum_succ sizes k (by omega)]

theorem fillRange_block (pre post : List Nat) (N x i : Nat) :
    fillRange (pre ++ List.replicate N x ++ post) pre.length N i = pre ++ List.replicate N i ++ post := by
  induction N generalizing pre with
  | zero => simp [fillRange]
  | succ N ih =>
    unfold fillRange
    rw [List.range'_succ, List.foldl_cons]
    have h1 : (pre ++ List.replicate (N + 1) x ++ post).set pre.length i =
        (pre ++ [i]) ++ List.replicate N x ++ post := by
      rw [List.replicate_succ]
      simp
    rw [h1]
    have h2 := ih (pre ++ [i])
    unfold fillRange at h2
    rw [List.length_append, List.length_singleton] at h2
    rw [h2, List.replicate_succ]
    simp

theorem mapBlocks_loop (sizes : List Nat) (k : Nat) (hk : k ≤ sizes.length) :
    (List.range k).foldl (fun (st : List Nat × Nat) i =>
        (fillRange st.1 st.2 (sizes.getD i 0) i, st.2 + sizes.getD i 0)) (List.replicate sizes.sum 0, 0) =
      (blocks sizes k ++ List.replicate (sizes.sum - psum sizes k) 0, psum sizes k) := by
  induction k with
  | zero => simp [blocks]
  | succ k ih =>
    rw [List.range_succ, List.foldl_append, ih (by omega)]
    simp only [List.foldl_cons, List.foldl_nil]
    have hs := psum_succ sizes k (by omega)
    have hle := psum_le_sum sizes (k + 1)
    have hsplit : List.replicate (sizes.sum - psum sizes k) 0 =
        List.replicate (sizes.getD k 0) 0 ++ List.replicate (sizes.sum - psum sizes (k + 1)) 0 := by
      rw [List.replicate_append_replicate]
      congr 1; omega
    rw [hsplit, ← List.append_assoc, ← blocks_length sizes k (by omega), fillRange_block, blocks_succ,
      blocks_length sizes k (by omega), hs]

theorem zip_range_eq (sizes : List Nat) :
    (List.range sizes.length).zip sizes = (List.range sizes.length).map (fun i => (i, sizes.getD i 0)) := by
  apply List.ext_getElem
  · simp
  · intro i h1 h2
    have hi : i < sizes.length := by simpa using h2
    rw [List.getElem_zip, List.getElem_map, List.getElem_range, getD_lt sizes i 0 hi]

theorem mapBlocksPy_eq (sizes : List Nat) :
    mapBlocksPy sizes = ((List.range sizes.length).zip sizes).flatMap (fun p => List.replicate p.2 p.1) := by
  unfold mapBlocksPy
  by_cases h0 : sizes.length = 0
  · have : sizes = [] := List.eq_nil_of_length_eq_zero h0
    subst this; rfl
  · simp only [h0, if_false]
    congr 1
    funext p
    simp

theorem mapBlocksPy_blocks (sizes : List Nat) : mapBlocksPy sizes = blocks sizes sizes.length := by
  rw [mapBlocksPy_eq, zip_range_eq, List.flatMap_map]
  rfl

theorem mapBlocksCy_blocks (sizes : List Nat) : mapBlocksCy sizes = blocks sizes sizes.length := by
  unfold mapBlocksCy
  simp only
  rw [foldl_add, Nat.zero_add, mapBlocks_loop sizes sizes.length (Nat.le_refl _), psum_length]
  simp

theorem mapBlocksPy_length (sizes : List Nat) : (mapBlocksPy sizes).length = sizes.sum := by
  rw [mapBlocksPy_blocks, blocks_length sizes _ (Nat.le_refl _), psum_length]

/-! ## `_make_stride` -/

theorem set_map_range (L : Nat) (f : Nat → Nat) (i v : Nat) :
    ((List.range L).map f).set i v = (List.range L).map (fun j => if j = i then v else f j) := by
  apply List.ext_getElem
  · simp
  · intro j h1 h2
    rw [List.getElem_set]
    by_cases hij : i = j
    · subst hij; simp
    · have : ¬ j = i := fun h => hij h.symm
      simp [hij, this]

theorem replicate_eq_map_range (L : Nat) : List.replicate L 0 = (List.range L).map (fun _ => 0) := by
  apply List.ext_getElem
  · simp
  · intro j h1 h2; simp

theorem take_succ_prod (shape : List Nat) (k : Nat) (hk : k < shape.length) :
    (shape.take (k + 1)).prod = (shape.take k).prod * shape.getD k 0 := by
  rw [List.take_add_one, List.getElem?_eq_getElem hk, getD_lt shape k 0 hk]
  simp only [Option.toList_some, List.prod_append, List.prod_cons, List.prod_nil, Nat.mul_one]

theorem drop_prod (shape : List Nat) (a : Nat) (ha : a < shape.length) :
    (shape.drop a).prod = shape.getD a 0 * (shape.drop (a + 1)).prod := by
  rw [List.drop_eq_getElem_cons ha, getD_lt shape a 0 ha, List.prod_cons]

theorem makeStrideF_go_eq (acc : Nat) (l : List Nat) :
    makeStrideF.go acc l = (List.range l.length).map (fun j => acc * (l.take j).prod) := by
  induction l generalizing acc with
  | nil => simp [makeStrideF.go]
  | cons s rest ih =>
    rw [makeStrideF.go, ih, List.length_cons, List.range_succ_eq_map, List.map_cons, List.map_map]
    congr 1
    · simp
    · apply List.map_congr_left
      intro j _
      simp [Nat.mul_assoc]

theorem makeStrideF_eq (shape : List Nat) :
    makeStrideF shape = (List.range shape.length).map (fun j => (shape.take j).prod) := by
  unfold makeStrideF
  rw [makeStrideF_go_eq]
  apply List.map_congr_left
  intro j _; simp

theorem makeStrideC_eq (shape : List Nat) :
    makeStrideC shape = (List.range shape.length).map (fun j => (shape.drop (j + 1)).prod) := by
  induction shape with
  | nil => simp [makeStrideC]
  | cons s rest ih =>
    rw [makeStrideC_cons, ih, List.length_cons, List.range_succ_eq_map, List.map_cons, List.map_map]
    congr 1

theorem strideF_loop (shape : List Nat) (k : Nat) (hk : k + 1 ≤ shape.length) :
    (List.range k).foldl (fun (st : List Nat × Nat) a =>
        let stride := st.2 * shape.getD a 0
        (st.1.set (a + 1) stride, stride)) ((List.replicate shape.length 0).set 0 1, 1) =
      ((List.range shape.length).map (fun j => if j ≤ k then (shape.take j).prod else 0), (shape.take k).prod) := by
  induction k with
  | zero =>
    rw [List.range_zero, List.foldl_nil, replicate_eq_map_range, set_map_range]
    congr 1
    · apply List.map_congr_left
      intro j _
      by_cases hj : j = 0
      · subst hj; simp
      · have : ¬ j ≤ 0 := by omega
        simp [hj, this]
  | succ k ih =>
    rw [List.range_succ, List.foldl_append, ih (by omega)]
    simp only [List.foldl_cons, List.foldl_nil]
    rw [← take_succ_prod shape k (by omega), set_map_range]
    congr 1
    apply List.map_congr_left
    intro j _
    by_cases hj : j = k + 1
    · subst hj; simp
    · by_cases hj2 : j ≤ k
      · have : j ≤ k + 1 := by omega
        simp [hj, hj2, this]
      · have : ¬ j ≤ k + 1 := by omega
        simp [hj, hj2, this]

theorem strideC_loop (shape : List Nat) (k : Nat) (hk : k + 1 ≤ shape.length) :
    (List.range k).foldl (fun (st : List Nat × Nat) t =>
        let a := shape.length - 1 - t
        let stride := st.2 * shape.getD a 0
        (st.1.set (a - 1) stride, stride)) ((List.replicate shape.length 0).set (shape.length - 1) 1, 1) =
      ((List.range shape.length).map (fun j => if shape.length - 1 - k ≤ j then (shape.drop (j + 1)).prod else 0),
        (shape.drop (shape.length - k)).prod) := by
  induction k with
  | zero =>
    rw [List.range_zero, List.foldl_nil, replicate_eq_map_range, set_map_range]
    congr 1
    · apply List.map_congr_left
      intro j hj
      have hj' := List.mem_range.mp hj
      by_cases hjl : j = shape.length - 1
      · have h1 : shape.length - 1 - 0 ≤ j := by omega
        have h2 : shape.drop (j + 1) = [] := List.drop_eq_nil_of_le (by omega)
        simp only [hjl, if_true]
        rw [hjl] at h1 h2
        simp only [h1, if_true, h2]; rfl
      · have : ¬ shape.length - 1 - 0 ≤ j := by omega
        simp only [hjl, if_false, this]
    · simp
  | succ k ih =>
    rw [List.range_succ, List.foldl_append, ih (by omega)]
    simp only [List.foldl_cons, List.foldl_nil]
    have ha : shape.length - 1 - k < shape.length := by omega
    have e1 : shape.length - k = shape.length - 1 - k + 1 := by omega
    have hstride : (shape.drop (shape.length - k)).prod * shape.getD (shape.length - 1 - k) 0 =
        (shape.drop (shape.length - 1 - k)).prod := by
      rw [drop_prod shape _ ha, e1, Nat.mul_comm]
    have e2 : shape.length - (k + 1) = shape.length - 1 - k := by omega
    rw [hstride, set_map_range, e2]
    congr 1
    apply List.map_congr_left
    intro j _
    by_cases hj : j = shape.length - 1 - k - 1
    · have h1 : shape.length - 1 - (k + 1) ≤ j := by omega
      have h2 : j + 1 = shape.length - 1 - k := by omega
      simp only [hj, if_true]
      rw [hj] at h1 h2
      simp only [h1, if_true, h2]
    · by_cases hj2 : shape.length - 1 - k ≤ j
      · have : shape.length - 1 - (k + 1) ≤ j := by omega
        simp only [hj, hj2, this, if_true, if_false]
      · have : ¬ shape.length - 1 - (k + 1) ≤ j := by omega
        simp only [hj, hj2, this, if_false]

theorem makeStrideLoop_F (shape : List Nat) (h : shape ≠ []) : makeStrideLoop shape false = makeStrideF shape := by
  have hL : shape.length ≠ 0 := by simpa using h
  unfold makeStrideLoop
  simp only [hL, if_false, Bool.false_eq_true]
  rw [strideF_loop shape (shape.length - 1) (by omega), makeStrideF_eq]
  apply List.map_congr_left
  intro j hj
  have hj' := List.mem_range.mp hj
  have : j ≤ shape.length - 1 := by omega
  simp only [this, if_true]

theorem makeStrideLoop_C (shape : List Nat) (h : shape ≠ []) : makeStrideLoop shape true = makeStrideC shape := by
  have hL : shape.length ≠ 0 := by simpa using h
  unfold makeStrideLoop
  simp only [hL, if_false, if_true]
  rw [strideC_loop shape (shape.length - 1) (by omega), makeStrideC_eq]
  apply List.map_congr_left
  intro j hj
  have : shape.length - 1 - (shape.length - 1) ≤ j := by omega
  simp only [this, if_true]

end TenpyModel.C04Ext
