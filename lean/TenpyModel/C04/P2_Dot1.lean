import TenpyModel.C04.P2_Iadd2
import TenpyModel.C01.B2_Dot10
/-!
C04 part 2 — `tensordot`, step 1: the body after `_tensordot_transpose_axes` as a separate function (`dotBody`),
and `_tensordot_transpose_axes` itself on operands with the same kernel-independent content: same error class, same
number of contracted legs, transposed operands with the same content.
-/
namespace TenpyModel.C04P2
open TenpyModel.Core TenpyModel.C01B TenpyModel.C01B2

variable {α : Type}

/-- the body of `tensordot` after `_tensordot_transpose_axes` -/
def dotBody [Add α] [Mul α] [Zero α] (a b : Arr α) (k : Nat) : Except Err (Val α) := do
  let noBlock := a.storedBlocks = 0 ∨ b.storedBlocks = 0
  let oneBlock := a.storedBlocks = 1 ∧ b.storedBlocks = 1
  let labels := Label.dropDuplicate (a.labels.take (a.rank - k)) (b.labels.drop k)
  if k = a.rank ∧ k = b.rank then
    return .scalar (Arr.innerWorker id a b false)
  else if noBlock ∨ oneBlock then
    let cutA := a.rank - k
    let res : Arr α ← Arr.zeros a.mods (a.legs.take cutA ++ b.legs.drop k) (some (cadd a.qtotal b.qtotal)) none
    let res := if oneBlock ∧ (a.qdata.headD []).drop cutA = (b.qdata.headD []).take k then
        { res with data := [Dense.tensordot (a.data.headD ⟨[], []⟩) (b.data.headD ⟨[], []⟩) k],
                   qdata := [(a.qdata.headD []).take cutA ++ (b.qdata.headD []).drop k], qdataSorted := true }
      else res
    return .arr { res with labels }
  else if k = 0 then
    return .arr (← Arr.outer a b)
  else
    let res ← Arr.tensordotWorker a b k
    return .arr { res with labels }

theorem tensordot_eq [Add α] [Mul α] [Zero α] (cy : Bool) (a b : Arr α) (axes : Arr.DotAxes) :
    Arr.tensordot cy a b axes
      = match Arr.tensordotTransposeAxes cy a b axes with
        | .error e => .error e
        | .ok t => dotBody t.1 t.2.1 t.2.2 := by
  unfold Arr.tensordot
  simp only [bind, Except.bind]
  cases Arr.tensordotTransposeAxes cy a b axes <;> rfl

/-- the kernel flag of `_tensordot_transpose_axes` is not used -/
theorem transposeAxes_cy [Zero α] (cy cy' : Bool) (a b : Arr α) (axes : Arr.DotAxes) :
    Arr.tensordotTransposeAxes cy a b axes = Arr.tensordotTransposeAxes cy' a b axes := rfl

theorem trOp_keq [Zero α] (x y : Arr α) (p : List Nat) (h : KEq x y) : KEq (trOp x p) (trOp y p) := by
  unfold trOp
  rw [h.rank]
  split
  · exact h
  · exact TrRel.keq (Or.inr ⟨p, rfl, rfl⟩) h

/-- the checks at the end of `_tensordot_transpose_axes` -/
def endCheck (a b : Arr α) (k : Nat) : Except Err (Arr α × Arr α × Nat) :=
  if k > a.rank ∨ k > b.rank then .error .valueError
  else if !(List.zipWith Leg.testContractible (a.lcs.drop (a.rank - k)) (b.lcs.take k)).all id then .error .valueError
  else .ok (a, b, k)

theorem endCheck_keq (a a' b b' : Arr α) (k : Nat) (ka : KEq a a') (kb : KEq b b') :
    Agree (fun t t' : Arr α × Arr α × Nat => t.1 = a ∧ t.2.1 = b ∧ t.2.2 = k ∧ t'.1 = a' ∧ t'.2.1 = b' ∧ t'.2.2 = k)
      (endCheck a b k) (endCheck a' b' k) := by
  unfold endCheck
  rw [← ka.rank, ← kb.rank, ← ka.lcs, ← kb.lcs]
  split
  · exact rfl
  · split
    · exact rfl
    · exact ⟨rfl, rfl, rfl, rfl, rfl, rfl⟩

/-- `_tensordot_transpose_axes` with the final checks factored out -/
theorem transposeAxes_eq [Zero α] (cy : Bool) (a b : Arr α) (axes : Arr.DotAxes) :
    Arr.tensordotTransposeAxes cy a b axes
      = if a.mods ≠ b.mods then .error .valueError
        else match axes with
          | .int k => if k < 0 then .error .valueError else endCheck a b k.toNat
          | .pair xa xb =>
            match a.getLegIndices xa with
            | .error e => .error e
            | .ok ia =>
              match b.getLegIndices xb with
              | .error e => .error e
              | .ok ib =>
                if ia.length ≠ ib.length then .error .valueError
                else
                  let pa := (List.range a.rank).filter (fun i => !ia.contains i) ++ ia
                  let pb := ib ++ (List.range b.rank).filter (fun i => !ib.contains i)
                  if pa.length ≠ a.rank ∨ pa.eraseDups.length ≠ a.rank ∨ pb.length ≠ b.rank
                      ∨ pb.eraseDups.length ≠ b.rank then .error .valueError
                  else endCheck (trOp a pa) (trOp b pb) ia.length := by
  unfold Arr.tensordotTransposeAxes endCheck
  simp only [bind, Except.bind, pure, Except.pure, throw, throwThe, MonadExceptOf.throw]
  by_cases hm : a.mods ≠ b.mods
  · rw [if_pos hm, if_pos hm]
  · rw [if_neg hm, if_neg hm]
    cases axes with
    | int k =>
      simp only
    | pair xa xb =>
      simp only
      cases a.getLegIndices xa with
      | error e => rfl
      | ok ia =>
        simp only
        cases b.getLegIndices xb with
        | error e => rfl
        | ok ib =>
          rfl

/-- **`_tensordot_transpose_axes` respects `KEq`** -/
theorem transposeAxes_respects [Zero α] (cy cy' : Bool) (a a' b b' : Arr α) (axes : Arr.DotAxes)
    (ka : KEq a a') (kb : KEq b b') :
    Agree (fun t t' : Arr α × Arr α × Nat => KEq t.1 t'.1 ∧ KEq t.2.1 t'.2.1 ∧ t.2.2 = t'.2.2)
      (Arr.tensordotTransposeAxes cy a b axes) (Arr.tensordotTransposeAxes cy' a' b' axes) := by
  have ea : a.getLegIndices = a'.getLegIndices := funext (getLegIndices_frame a a' ka.frame)
  have eb : b.getLegIndices = b'.getLegIndices := funext (getLegIndices_frame b b' kb.frame)
  rw [transposeAxes_eq, transposeAxes_eq, ← ka.1, ← kb.1, ← ea, ← eb, ← ka.rank, ← kb.rank]
  have hend : ∀ (x x' y y' : Arr α) (k : Nat), KEq x x' → KEq y y' →
      Agree (fun t t' : Arr α × Arr α × Nat => KEq t.1 t'.1 ∧ KEq t.2.1 t'.2.1 ∧ t.2.2 = t'.2.2)
        (endCheck x y k) (endCheck x' y' k) := by
    intro x x' y y' k kx ky
    refine Agree.mono ?_ (endCheck_keq x x' y y' k kx ky)
    intro t t' ⟨e1, e2, e3, e4, e5, e6⟩
    rw [e1, e2, e3, e4, e5, e6]
    exact ⟨kx, ky, rfl⟩
  split
  · exact rfl
  · cases axes with
    | int k =>
      simp only
      split
      · exact rfl
      · exact hend _ _ _ _ _ ka kb
    | pair xa xb =>
      simp only
      cases a.getLegIndices xa with
      | error e => exact rfl
      | ok ia =>
        simp only
        cases b.getLegIndices xb with
        | error e => exact rfl
        | ok ib =>
          simp only
          split
          · exact rfl
          · split
            · exact rfl
            · exact hend _ _ _ _ _ (trOp_keq _ _ _ ka) (trOp_keq _ _ _ kb)

end TenpyModel.C04P2
