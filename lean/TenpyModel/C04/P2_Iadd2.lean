import TenpyModel.C04.P2_Iadd
/-!
C04 part 2 — `iadd_prefactor_other`: the two kernel variants agree (`iadd_variants`), `ibinary_blockwise` and both
variants of `iadd_prefactor_other` respect the kernel-independent equality `KEq` (`ibinary_respects`, `iadd_step`).
-/
namespace TenpyModel.C04P2
open TenpyModel.Core

variable {α : Type}

/-- agreement of two outcomes: the same class of error, or results related by `R` -/
def Agree {β γ : Type} (R : β → γ → Prop) : Except Err β → Except Err γ → Prop
  | .ok x, .ok y => R x y
  | .error e, .error e' => e = e'
  | _, _ => False

theorem Agree.mono {β γ : Type} {R S : β → γ → Prop} (h : ∀ x y, R x y → S x y) {u : Except Err β} {v : Except Err γ}
    (hr : Agree R u v) : Agree S u v := by
  cases u <;> cases v <;> simp_all [Agree]

theorem Agree.trans {β γ δ : Type} {R : β → γ → Prop} {S : γ → δ → Prop} {T : β → δ → Prop}
    (h : ∀ x y z, R x y → S y z → T x z) {u : Except Err β} {v : Except Err γ} {w : Except Err δ}
    (h1 : Agree R u v) (h2 : Agree S v w) : Agree T u w := by
  cases u <;> cases v <;> cases w <;> simp_all [Agree]
  exact h _ _ _ h1 h2

theorem Agree.ok_iff {β γ : Type} {R : β → γ → Prop} {u : Except Err β} {v : Except Err γ} (h : Agree R u v) :
    (∃ x, u = .ok x) ↔ (∃ y, v = .ok y) := by
  cases u <;> cases v <;> simp_all [Agree]

theorem frame_iscalePrefactor [Mul α] [Zero α] [DecidableEq α] (b : Arr α) (p : α) : Frame b (b.iscalePrefactor p) := by
  unfold Arr.iscalePrefactor
  split <;> exact ⟨rfl, rfl, rfl, rfl⟩

/-- **the two kernel variants of `iadd_prefactor_other`** on the same well-formed operands: same error class; for
`p ≠ 0` the *same* new `self` (block list, stored order and cached claim included); for `p = 0` the compiled variant
returns `self` untouched, the Python variant `self.isort_qdata()`; the Python variant never touches the operand, the
compiled one leaves it or lexsorts it in place. -/
theorem iadd_variants [Zero α] [Add α] [Mul α] [DecidableEq α] (hz' : ∀ s : α, 0 * s = 0) (hadd : ∀ x : α, x + 0 = x)
    (a b : Arr α) (p : α) (ha : a.WF) (hb : b.WF) :
    Agree (fun rc rp : Arr α × Arr α =>
        (p ≠ 0 → rc.1 = rp.1) ∧ (p = 0 → rc.1 = a ∧ rp.1 = a.isortQdata)
        ∧ rp.2 = b ∧ (rc.2 = b ∨ rc.2 = b.isortQdata))
      (a.iaddPrefactorOther true p b) (a.iaddPrefactorOther false p b) := by
  rw [iadd_cy_eq, iadd_py_eq, ibinaryBlockwise_eq]
  have hfr := frame_iscalePrefactor b p
  obtain ⟨htr, hrel⟩ := tsl_rel b (b.iscalePrefactor p) hfr a.labels
  have hchk := binaryCheck_frame a a (b.transposeSameLabels a.labels).1
    ((b.iscalePrefactor p).transposeSameLabels a.labels).1 ⟨rfl, rfl, rfl, rfl⟩ (hrel.frame hfr)
  rw [← hchk]
  cases Arr.binaryCheck a (b.transposeSameLabels a.labels).1 with
  | error e => exact rfl
  | ok _ =>
    simp only
    by_cases hp : p = 0
    · rw [if_pos hp]
      have hnb : (b.iscalePrefactor p).qdata = [] ∧ (b.iscalePrefactor p).data = [] := by
        unfold Arr.iscalePrefactor
        rw [if_pos hp]
        exact ⟨rfl, rfl⟩
      obtain ⟨e1, e2⟩ := hrel.noBlocks hnb.1 hnb.2
      exact ⟨fun h => absurd hp h, fun _ => ⟨rfl, core_noBlocks hadd a _ ha.2.1 e1 e2⟩, rfl, Or.inl rfl⟩
    · rw [if_neg hp]
      have hsc : b.iscalePrefactor p = b.iunaryBlockwise (fun x => x * p) := by
        unfold Arr.iscalePrefactor
        rw [if_neg hp]
      rw [hsc] at hrel
      have hu := hrel.unary (fun x => x * p) (hz' p)
      refine ⟨fun _ => ?_, fun h => absurd h hp, rfl, ?_⟩
      · show core _ a _ = core _ a _
        rw [hsc, hu, core_scale p (hz' p)]
      · show (if _ then b else _) = b ∨ (if _ then b else _) = b.isortQdata
        cases htf : (b.transposeSameLabels a.labels).2 with
        | true => exact Or.inl rfl
        | false =>
          have := (Arr.transposeSameLabels_ax b a.labels hb).2.2.2 htf
          rw [this]
          exact Or.inr rfl

/-- `ibinary_blockwise` on operands with the same kernel-independent content: the same error class, the *same* new
`self`, operands after the call with the same content -/
theorem ibinary_respects [Zero α] (f : α → α → α) (a a' b b' : Arr α) (ha : a.WF) (ha' : a'.WF) (hb : b.WF)
    (hb' : b'.WF) (ka : KEq a a') (kb : KEq b b') :
    Agree (fun r r' : Arr α × Arr α => r.1 = r'.1 ∧ KEq r.2 r'.2 ∧ r.1.WF ∧ r.2.WF ∧ r'.2.WF)
      (a.ibinaryBlockwise f b) (a'.ibinaryBlockwise f b') := by
  rw [ibinaryBlockwise_eq, ibinaryBlockwise_eq, ← ka.2.2.1]
  obtain ⟨htr, hrel⟩ := tsl_rel b b' kb.frame a.labels
  have hchk := binaryCheck_frame a a' _ _ ka.frame (hrel.frame kb.frame)
  rw [← hchk, ← htr]
  have hwt := (Arr.transposeSameLabels_ax b a.labels hb).2.2.1
  have hwt' := (Arr.transposeSameLabels_ax b' a.labels hb').2.2.1
  have hkt := hrel.keq kb
  cases hc : Arr.binaryCheck a (b.transposeSameLabels a.labels).1 with
  | error e => exact rfl
  | ok _ =>
    have hcore : core f a (b.transposeSameLabels a.labels).1 = core f a' (b'.transposeSameLabels a.labels).1 := by
      unfold core
      rw [ka.isortQdata_eq ha ha', hkt.isortQdata_eq hwt hwt', ka.blockNumbers]
    obtain ⟨w1, w2⟩ := Arr.WF_ibinaryCore f a _ ha hwt hc
    refine ⟨hcore, ?_, w1, ?_, ?_⟩
    · show KEq (if _ then b else _) (if _ then b' else _)
      split
      · exact kb
      · rw [hkt.isortQdata_eq hwt hwt']
        exact KEq.refl _
    · show (if _ then b else _ : Arr α).WF
      split
      · exact hb
      · exact w2
    · show (if _ then b' else _ : Arr α).WF
      split
      · exact hb'
      · exact Arr.WF_isortQdata _ hwt'

theorem keq_iscalePrefactor [Mul α] [Zero α] [DecidableEq α] (b b' : Arr α) (p : α) (kb : KEq b b') :
    KEq (b.iscalePrefactor p) (b'.iscalePrefactor p) := by
  unfold Arr.iscalePrefactor
  split
  · exact ⟨kb.1, kb.2.1, kb.2.2.1, kb.2.2.2.1, List.Perm.refl _⟩
  · refine ⟨kb.1, kb.2.1, kb.2.2.1, kb.2.2.2.1, ?_⟩
    show (b.qdata.zip (b.data.map _)).Perm (b'.qdata.zip (b'.data.map _))
    rw [List.zip_map_right, List.zip_map_right]
    exact kb.2.2.2.2.map _

/-- the Python variant respects `KEq` -/
theorem iadd_py_respects [Zero α] [Add α] [Mul α] [DecidableEq α] (a a' b b' : Arr α) (p : α) (ha : a.WF) (ha' : a'.WF)
    (hb : b.WF) (hb' : b'.WF) (ka : KEq a a') (kb : KEq b b') :
    Agree (fun r r' : Arr α × Arr α => r.1 = r'.1 ∧ r.2 = b ∧ r'.2 = b' ∧ r.1.WF)
      (a.iaddPrefactorOther false p b) (a'.iaddPrefactorOther false p b') := by
  rw [iadd_py_eq, iadd_py_eq]
  have := ibinary_respects (fun x y => x + y) a a' (b.iscalePrefactor p) (b'.iscalePrefactor p) ha ha'
    (Arr.WF_iscalePrefactor b p hb) (Arr.WF_iscalePrefactor b' p hb') ka (keq_iscalePrefactor b b' p kb)
  revert this
  cases a.ibinaryBlockwise (fun x y => x + y) (b.iscalePrefactor p) <;>
    cases a'.ibinaryBlockwise (fun x y => x + y) (b'.iscalePrefactor p) <;> simp [Agree]
  intro h1 _ h3 _ _
  exact ⟨h1, h3⟩

/-- **one `iadd_prefactor_other` step under the two kernel configurations**, started from states with the same
kernel-independent content: same error class, or new `self` and operand with the same content, all well formed -/
theorem iadd_step [Zero α] [Add α] [Mul α] [DecidableEq α] (hz' : ∀ s : α, 0 * s = 0) (hadd : ∀ x : α, x + 0 = x)
    (a a' b b' : Arr α) (p : α) (ha : a.WF) (ha' : a'.WF) (hb : b.WF) (hb' : b'.WF) (ka : KEq a a') (kb : KEq b b') :
    Agree (fun rc rp : Arr α × Arr α =>
        KEq rc.1 rp.1 ∧ KEq rc.2 rp.2 ∧ rc.1.WF ∧ rp.1.WF ∧ rc.2.WF ∧ rp.2.WF)
      (a.iaddPrefactorOther true p b) (a'.iaddPrefactorOther false p b') := by
  have h1 := iadd_variants hz' hadd a b p ha hb
  have h2 := iadd_py_respects a a' b b' p ha ha' hb hb' ka kb
  refine Agree.trans ?_ h1 h2
  intro x y z ⟨g1, g2, g3, g4⟩ ⟨f1, f2, f3, f4⟩
  have hx1 : KEq x.1 y.1 ∧ x.1.WF := by
    by_cases hp : p = 0
    · obtain ⟨e1, e2⟩ := g2 hp
      rw [e1, e2]
      exact ⟨(KEq.isortQdata a ha).symm, ha⟩
    · rw [g1 hp]
      exact ⟨KEq.refl _, f4⟩
  have hx2 : KEq x.2 y.2 ∧ x.2.WF := by
    rw [g3]
    rcases g4 with e | e
    · rw [e]; exact ⟨KEq.refl _, hb⟩
    · rw [e]; exact ⟨KEq.isortQdata b hb, Arr.WF_isortQdata b hb⟩
  refine ⟨?_, ?_, hx1.2, ?_, hx2.2, ?_⟩
  · rw [← f1]; exact hx1.1
  · rw [f3]; rw [f2] at hx2; exact hx2.1.trans kb
  · rw [← f1]; exact f4
  · rw [f3]; exact hb'

end TenpyModel.C04P2
