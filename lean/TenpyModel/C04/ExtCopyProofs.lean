import Mathlib.Data.List.Nodup
import TenpyModel.C04.ExtKernels
import TenpyModel.C01.A_Dense
import TenpyModel.C01.B_SetBlock
/-!
C04 extension round — proofs about `_sliced_copy`: the flat-memory recursion of the compiled twin
(`sscCy`: strides, pointer offsets, `memcpy` of the innermost dimension, three dimensions per recursion step)
writes exactly the cells `dest[dbeg + j] = src[sbeg + j]`, `j` in the slice — the slice assignment of the Python twin.
-/
namespace TenpyModel.C04Ext
open TenpyModel.Core TenpyModel.C01B

variable {α : Type}

/-! ### a list of single-cell writes -/

/-- perform the writes `dest[w.1] = src[w.2]` in order -/
def applyWrites (src : List α) (ws : List (Nat × Nat)) (dest : List α) : List α :=
  ws.foldl (fun d w => match src[w.2]? with
    | some v => d.set w.1 v
    | none => d) dest

theorem applyWrites_nil (src dest : List α) : applyWrites src [] dest = dest := rfl

theorem applyWrites_cons (src dest : List α) (w : Nat × Nat) (ws : List (Nat × Nat)) :
    applyWrites src (w :: ws) dest =
      applyWrites src ws (match src[w.2]? with | some v => dest.set w.1 v | none => dest) := rfl

theorem applyWrites_append (src dest : List α) (ws ws' : List (Nat × Nat)) :
    applyWrites src (ws ++ ws') dest = applyWrites src ws' (applyWrites src ws dest) := by
  simp [applyWrites, List.foldl_append]

theorem length_applyWrites (src : List α) (ws : List (Nat × Nat)) (dest : List α) :
    (applyWrites src ws dest).length = dest.length := by
  induction ws generalizing dest with
  | nil => rfl
  | cons w ws ih =>
    rw [applyWrites_cons, ih]
    split <;> simp

theorem foldl_applyWrites_flatMap {ι : Type} (src : List α) (xs : List ι) (W : ι → List (Nat × Nat)) (dest : List α) :
    xs.foldl (fun d i => applyWrites src (W i) d) dest = applyWrites src (xs.flatMap W) dest := by
  induction xs generalizing dest with
  | nil => rfl
  | cons x xs ih => simp only [List.foldl_cons, List.flatMap_cons, applyWrites_append, ih]

theorem memcpy_eq_writes (dest : List α) (doff : Nat) (src : List α) (soff n : Nat) :
    memcpy dest doff src soff n = applyWrites src ((List.range n).map (fun t => (doff + t, soff + t))) dest := by
  unfold memcpy applyWrites
  rw [List.foldl_map]
  rfl

/-- a cell no write addresses keeps its value -/
theorem applyWrites_getElem?_of_not_mem (src : List α) (ws : List (Nat × Nat)) (dest : List α) (p : Nat)
    (h : p ∉ ws.map Prod.fst) : (applyWrites src ws dest)[p]? = dest[p]? := by
  induction ws generalizing dest with
  | nil => rfl
  | cons w ws ih =>
    simp only [List.map_cons, List.mem_cons, not_or] at h
    rw [applyWrites_cons, ih _ h.2]
    split
    · rw [List.getElem?_set_ne (fun e => h.1 e.symm)]
    · rfl

/-- with pairwise different targets, the cell `p` of the write `(p, q)` ends up holding `src[q]` -/
theorem applyWrites_getElem?_of_mem (src : List α) (ws : List (Nat × Nat)) (dest : List α) (p q : Nat)
    (hnd : (ws.map Prod.fst).Nodup) (hm : (p, q) ∈ ws) (hp : p < dest.length) (hq : q < src.length) :
    (applyWrites src ws dest)[p]? = src[q]? := by
  induction ws generalizing dest with
  | nil => simp at hm
  | cons w ws ih =>
    simp only [List.map_cons, List.nodup_cons] at hnd
    rw [applyWrites_cons]
    rcases List.mem_cons.1 hm with e | hm'
    · subst e
      rw [applyWrites_getElem?_of_not_mem _ _ _ _ hnd.1]
      simp only [List.getElem?_eq_getElem hq]
      simp [hp]
    · apply ih _ hnd.2 hm'
      split <;> simp [hp]

/-! ### the recursion as a list of writes -/

/-- the cells written by `ssc1`, in loop order: (index into `dest`, index into `src`) -/
def writes (dstr sstr : List Nat) : (shape : List Nat) → (a doff soff : Nat) → List (Nat × Nat)
  | [], _, _, _ => []
  | [l0], _, doff, soff => (List.range l0).map (fun t => (doff + t, soff + t))
  | l0 :: l1 :: ls, a, doff, soff =>
      (List.range l0).flatMap (fun i =>
        writes dstr sstr (l1 :: ls) (a + 1) (doff + i * dstr.getD a 0) (soff + i * sstr.getD a 0))

theorem ssc1_eq_writes (dstr sstr : List Nat) (src : List α) (shape : List Nat) (a : Nat) (dest : List α)
    (doff soff : Nat) :
    ssc1 dstr sstr src shape a dest doff soff = applyWrites src (writes dstr sstr shape a doff soff) dest := by
  induction shape generalizing a dest doff soff with
  | nil => rfl
  | cons l0 rest ih =>
    cases rest with
    | nil => simp only [ssc1, writes, memcpy_eq_writes]
    | cons l1 ls =>
      simp only [ssc1, writes]
      rw [← foldl_applyWrites_flatMap]
      congr 1
      funext d i
      exact ih _ _ _ _

/-- the unrolled recursion of the code (1, 2, 3 dimensions spelled out, 3 dimensions per step from 4 on) is the
one-dimension-per-step recursion -/
theorem sscCy_eq_ssc1 (dstr sstr : List Nat) (src : List α) (shape : List Nat) (a : Nat) (dest : List α)
    (doff soff : Nat) :
    sscCy dstr sstr src shape a dest doff soff = ssc1 dstr sstr src shape a dest doff soff := by
  fun_induction sscCy dstr sstr src shape a dest doff soff with
  | case1 => rfl
  | case2 => rfl
  | case3 => simp only [ssc1]; rfl
  | case4 => simp only [ssc1]; rfl
  | case5 _ _ _ _ _ _ _ _ _ d0 s0 d1 s1 d2 s2 ih =>
    simp only [ssc1, ih]
    rfl

/-! ### multi-index arithmetic -/

/-- element-wise sum of multi-indices (`beg + j`) -/
def vadd (a b : List Nat) : List Nat := List.zipWith (· + ·) a b

theorem dot_vadd (a b s : List Nat) (h : a.length = b.length) : dot (vadd a b) s = dot a s + dot b s := by
  induction a generalizing b s with
  | nil => cases b with
    | nil => simp [vadd]
    | cons y b => simp at h
  | cons x a ih => cases b with
    | nil => simp at h
    | cons y b => cases s with
      | nil => simp [vadd]
      | cons z s =>
        simp only [vadd, List.zipWith_cons_cons, dot_cons]
        have := ih b s (by simpa using h)
        simp only [vadd] at this
        rw [this, Nat.add_mul]; omega

theorem dot_stride_inj (u v shape : List Nat) (hu : InRange u shape) (hv : InRange v shape)
    (h : dot u (makeStrideC shape) = dot v (makeStrideC shape)) : u = v := by
  rw [← gridC_getD u shape hu, ← gridC_getD v shape hv, h]

/-- the slice `[b, b + l)` in every axis contains `idx` -/
def Box : (db sl idx : List Nat) → Prop
  | [], [], [] => True
  | b :: db, l :: sl, i :: idx => (b ≤ i ∧ i < b + l) ∧ Box db sl idx
  | _, _, _ => False

/-- the slice fits into the array: `b + l ≤ n` in every axis -/
def Fits : (db sl shape : List Nat) → Prop
  | [], [], [] => True
  | b :: db, l :: sl, n :: shape => b + l ≤ n ∧ Fits db sl shape
  | _, _, _ => False

theorem sliceOK_iff (shape db sl : List Nat) : sliceOK shape db sl = true ↔ Fits db sl shape := by
  induction shape generalizing db sl with
  | nil => cases db <;> cases sl <;> simp [sliceOK, Fits]
  | cons n shape ih =>
    cases db with
    | nil => cases sl <;> simp [sliceOK, Fits]
    | cons b db => cases sl with
      | nil => simp [sliceOK, Fits]
      | cons l sl =>
        have := ih db sl
        simp only [sliceOK, Bool.and_eq_true, beq_iff_eq, List.all_eq_true] at this
        simp only [sliceOK, Fits, List.length_cons, Bool.and_eq_true, beq_iff_eq, List.zip_cons_cons,
          List.zipWith_cons_cons, List.all_cons, id_eq, decide_eq_true_eq, Nat.add_right_cancel_iff, List.all_eq_true]
        rw [← this]
        constructor
        · rintro ⟨⟨h1, h2⟩, h3, h4⟩; exact ⟨h3, ⟨h1, h2⟩, h4⟩
        · rintro ⟨h3, ⟨h1, h2⟩, h4⟩; exact ⟨⟨h1, h2⟩, h3, h4⟩

theorem Fits.length {db sl shape : List Nat} (h : Fits db sl shape) : db.length = shape.length ∧ sl.length = shape.length := by
  induction shape generalizing db sl with
  | nil => cases db <;> cases sl <;> simp_all [Fits]
  | cons n shape ih =>
    cases db with
    | nil => cases sl <;> simp_all [Fits]
    | cons b db => cases sl with
      | nil => simp_all [Fits]
      | cons l sl => have := ih h.2; simp [this.1, this.2]

theorem sbCond_iff (db sl idx : List Nat) (h : sl.length = db.length) : sbCond db sl idx = true ↔ Box db sl idx := by
  induction db generalizing sl idx with
  | nil => cases sl with
    | nil => cases idx <;> simp [sbCond, Box]
    | cons l sl => simp at h
  | cons b db ih => cases sl with
    | nil => simp at h
    | cons l sl => cases idx with
      | nil => simp [sbCond, Box]
      | cons i idx =>
        have := ih sl idx (by simpa using h)
        simp only [sbCond, Bool.and_eq_true, beq_iff_eq, List.all_eq_true] at this
        simp only [sbCond, Box, List.zip_cons_cons, List.zipWith_cons_cons, List.all_cons, Bool.and_eq_true,
          id_eq, decide_eq_true_eq, List.length_cons, beq_iff_eq, Nat.add_right_cancel_iff, List.all_eq_true]
        rw [← this]
        constructor
        · rintro ⟨⟨h1, h2⟩, h3⟩; exact ⟨h1, h2, h3⟩
        · rintro ⟨h1, h2, h3⟩; exact ⟨⟨h1, h2⟩, h3⟩

theorem Box.sub {db sl idx : List Nat} (h : Box db sl idx) :
    InRange (List.zipWith (fun i s => i - s) idx db) sl ∧ vadd db (List.zipWith (fun i s => i - s) idx db) = idx := by
  induction db generalizing sl idx with
  | nil => cases sl <;> cases idx <;> simp_all [Box, InRange, vadd]
  | cons b db ih => cases sl with
    | nil => cases idx <;> simp_all [Box]
    | cons l sl => cases idx with
      | nil => simp_all [Box]
      | cons i idx =>
        obtain ⟨⟨h1, h2⟩, h3⟩ := h
        have := ih h3
        simp only [vadd] at this
        refine ⟨⟨by simp only []; omega, this.1⟩, ?_⟩
        simp only [vadd, List.zipWith_cons_cons, this.2, List.cons.injEq, and_true]
        omega

theorem Box.of_vadd {db sl j : List Nat} (hj : InRange j sl) (hl : db.length = sl.length) : Box db sl (vadd db j) := by
  induction db generalizing sl j with
  | nil => cases sl with
    | nil => cases j <;> simp_all [Box, InRange, vadd]
    | cons l sl => simp at hl
  | cons b db ih => cases sl with
    | nil => simp at hl
    | cons l sl => cases j with
      | nil => exact hj.elim
      | cons x j =>
        simp only [vadd, List.zipWith_cons_cons, Box]
        exact ⟨⟨by omega, by have := hj.1; omega⟩, ih hj.2 (by simpa using hl)⟩

theorem vadd_inRange {db sl shape j : List Nat} (hf : Fits db sl shape) (hj : InRange j sl) : InRange (vadd db j) shape := by
  induction shape generalizing db sl j with
  | nil => cases db <;> cases sl <;> cases j <;> simp_all [Fits, InRange, vadd]
  | cons n shape ih =>
    cases db with
    | nil => cases sl <;> simp_all [Fits]
    | cons b db => cases sl with
      | nil => simp_all [Fits]
      | cons l sl => cases j with
        | nil => exact hj.elim
        | cons x j =>
          simp only [vadd, List.zipWith_cons_cons, InRange]
          exact ⟨by have := hf.1; have := hj.1; omega, ih hf.2 hj.2⟩

theorem vadd_left_cancel {db j j' : List Nat} (h1 : j.length = db.length) (h2 : j'.length = db.length)
    (h : vadd db j = vadd db j') : j = j' := by
  induction db generalizing j j' with
  | nil => cases j <;> cases j' <;> simp_all
  | cons b db ih => cases j with
    | nil => simp at h1
    | cons x j => cases j' with
      | nil => simp at h2
      | cons y j' =>
        simp only [vadd, List.zipWith_cons_cons, List.cons.injEq] at h
        have := ih (by simpa using h1) (by simpa using h2) h.2
        rw [this]; congr 1; omega

/-! ### the written cells are `offset + stride · j`, `j` over the slice -/

theorem drop_eq_getD_cons (l : List Nat) (a : Nat) (h : a < l.length) : l.drop a = l.getD a 0 :: l.drop (a + 1) := by
  rw [List.drop_eq_getElem_cons h, getD_lt l a 0 h]

theorem writes_eq_map (dstr sstr : List Nat) (shape : List Nat) (a doff soff : Nat) (hne : shape ≠ [])
    (hd : a + shape.length = dstr.length) (hs : a + shape.length = sstr.length)
    (hd1 : dstr.getD (a + shape.length - 1) 0 = 1) (hs1 : sstr.getD (a + shape.length - 1) 0 = 1) :
    writes dstr sstr shape a doff soff =
      (Dense.allIdx shape).map (fun j => (doff + dot j (dstr.drop a), soff + dot j (sstr.drop a))) := by
  induction shape generalizing a doff soff with
  | nil => exact absurd rfl hne
  | cons l0 rest ih =>
    have had : a < dstr.length := by simp only [List.length_cons] at hd; omega
    have has : a < sstr.length := by simp only [List.length_cons] at hs; omega
    cases rest with
    | nil =>
      simp only [List.length_cons, List.length_nil, Nat.zero_add, Nat.add_sub_cancel] at hd hs hd1 hs1
      have e1 : dstr.drop a = [1] := by
        rw [drop_eq_getD_cons _ _ had, hd1, List.drop_of_length_le (by omega)]
      have e2 : sstr.drop a = [1] := by
        rw [drop_eq_getD_cons _ _ has, hs1, List.drop_of_length_le (by omega)]
      simp only [writes, Dense.allIdx, e1, e2, List.map_flatMap, List.map_cons, List.map_nil, dot_cons,
        dot_nil_left, Nat.mul_one, Nat.add_zero]
      rw [List.map_eq_flatMap]
    | cons l1 ls =>
      have hidx : a + 1 + (l1 :: ls).length - 1 = a + (l0 :: l1 :: ls).length - 1 := by
        simp only [List.length_cons]; omega
      have IH := fun doff soff => ih (a + 1) doff soff (by simp)
        (by simp only [List.length_cons] at hd ⊢; omega) (by simp only [List.length_cons] at hs ⊢; omega)
        (by rw [hidx]; exact hd1) (by rw [hidx]; exact hs1)
      have e : Dense.allIdx (l0 :: l1 :: ls)
          = (List.range l0).flatMap (fun i => (Dense.allIdx (l1 :: ls)).map (fun t => i :: t)) := rfl
      rw [writes, e, List.map_flatMap]
      simp only [IH]
      congr 1
      funext i
      rw [List.map_map]
      apply List.map_congr_left
      intro t _
      simp only [Function.comp, drop_eq_getD_cons _ _ had, drop_eq_getD_cons _ _ has, dot_cons, Nat.add_assoc]

theorem makeStrideC_last (shape : List Nat) (h : shape ≠ []) : (makeStrideC shape).getD (shape.length - 1) 0 = 1 := by
  induction shape with
  | nil => exact absurd rfl h
  | cons n rest ih =>
    rw [makeStrideC_cons]
    cases rest with
    | nil => simp [makeStrideC]
    | cons m rest' =>
      have := ih (by simp)
      simpa using this

/-! ### compiled recursion = slice assignment -/

section main

/-- `getBlock` entry-wise -/
theorem get_getBlock [Zero α] (src : Dense α) (sb sl j : List Nat) (hj : InRange j sl) :
    (src.getBlock sb sl).get 0 j = src.get 0 (vadd sb j) := by
  unfold Dense.getBlock
  rw [Dense.get_gather 0 src sl _ j hj]; rfl

theorem getBlock_shape [Zero α] (src : Dense α) (sb sl : List Nat) : (src.getBlock sb sl).shape = sl := rfl

theorem getBlock_good [Zero α] (src : Dense α) (sb sl : List Nat) : Good (src.getBlock sb sl) := by
  simp [Good, Dense.getBlock, Dense.gather, TenpyModel.C01B.allIdx_length]

/-- the memory after the compiled copy: cell by cell (contract: `ndim ≥ 1`, slices inside, value lists complete) -/
theorem sscCy_get (dshape sshape db sb sl : List Nat) (dvals svals : List α) (hne : sl ≠ [])
    (hfd : Fits db sl dshape) (hfs : Fits sb sl sshape)
    (hgd : dvals.length = dshape.prod) (hgs : svals.length = sshape.prod)
    (idx : List Nat) (hi : InRange idx dshape) :
    (sscCy (makeStrideC dshape) (makeStrideC sshape) svals sl 0 dvals (dot db (makeStrideC dshape))
        (dot sb (makeStrideC sshape)))[dot idx (makeStrideC dshape)]? =
      if sbCond db sl idx = true
      then svals[dot (vadd sb (List.zipWith (fun i s => i - s) idx db)) (makeStrideC sshape)]?
      else dvals[dot idx (makeStrideC dshape)]? := by
  have hld := hfd.length
  have hls := hfs.length
  have hsl0 : 0 < sl.length := List.length_pos_iff.2 hne
  have hdne : dshape ≠ [] := by intro e; rw [e] at hld; simp only [List.length_nil] at hld; omega
  have hsne : sshape ≠ [] := by intro e; rw [e] at hls; simp only [List.length_nil] at hls; omega
  rw [sscCy_eq_ssc1, ssc1_eq_writes,
    writes_eq_map _ _ sl 0 _ _ hne (by simp [makeStrideC_length, hld.2]) (by simp [makeStrideC_length, hls.2])
      (by simpa [hld.2] using makeStrideC_last dshape hdne) (by simpa [hls.2] using makeStrideC_last sshape hsne)]
  simp only [List.drop_zero]
  -- the targets are pairwise different cells
  have hnd : (((Dense.allIdx sl).map (fun j => (dot db (makeStrideC dshape) + dot j (makeStrideC dshape),
      dot sb (makeStrideC sshape) + dot j (makeStrideC sshape)))).map Prod.fst).Nodup := by
    rw [List.map_map]
    refine List.Nodup.map_on ?_ (TenpyModel.C01B.allIdx_nodup sl)
    intro j hj j' hj' e
    have hj := (TenpyModel.C01B.mem_allIdx sl j).1 hj
    have hj' := (TenpyModel.C01B.mem_allIdx sl j').1 hj'
    simp only [Function.comp] at e
    rw [← dot_vadd _ _ _ (by rw [hld.1, hj.length_eq, hld.2]), ← dot_vadd _ _ _ (by rw [hld.1, hj'.length_eq, hld.2])] at e
    have := dot_stride_inj _ _ _ (vadd_inRange hfd hj) (vadd_inRange hfd hj') e
    exact vadd_left_cancel (by rw [hj.length_eq, hld.1, hld.2]) (by rw [hj'.length_eq, hld.1, hld.2]) this
  have hiff := sbCond_iff db sl idx (by rw [hld.1, hld.2])
  by_cases hb' : sbCond db sl idx = true
  · rw [if_pos hb']
    have hb := hiff.1 hb'
    obtain ⟨hjr, hje⟩ := hb.sub
    apply applyWrites_getElem?_of_mem _ _ _ _ _ hnd
    · refine List.mem_map.2 ⟨_, (TenpyModel.C01B.mem_allIdx sl _).2 hjr, ?_⟩
      rw [← dot_vadd _ _ _ (by rw [hld.1, hjr.length_eq, hld.2]), ← dot_vadd _ _ _ (by rw [hls.1, hjr.length_eq, hls.2]), hje]
    · rw [hgd]; exact dot_stride_lt idx dshape hi
    · rw [hgs]; exact dot_stride_lt _ sshape (vadd_inRange hfs hjr)
  · rw [if_neg hb']
    have hb : ¬ Box db sl idx := fun h => hb' (hiff.2 h)
    apply applyWrites_getElem?_of_not_mem
    rw [List.map_map]
    intro hm
    obtain ⟨j, hj, e⟩ := List.mem_map.1 hm
    have hj := (TenpyModel.C01B.mem_allIdx sl j).1 hj
    simp only [Function.comp] at e
    rw [← dot_vadd _ _ _ (by rw [hld.1, hj.length_eq, hld.2])] at e
    have := dot_stride_inj _ _ _ (vadd_inRange hfd hj) hi e
    exact hb (this ▸ Box.of_vadd hj (by rw [hld.1, hld.2]))

theorem length_sscCy (dstr sstr : List Nat) (src : List α) (shape : List Nat) (a : Nat) (dest : List α) (doff soff : Nat) :
    (sscCy dstr sstr src shape a dest doff soff).length = dest.length := by
  rw [sscCy_eq_ssc1, ssc1_eq_writes, length_applyWrites]

/-- compiled `_sliced_copy` = Python `_sliced_copy` on every input with `ndim ≥ 1` (both reject the same inputs) -/
theorem slicedCopy_agree [Zero α] (dest src : Dense α) (dbeg sbeg : Option (List Nat)) (sl : List Nat) (hne : sl ≠ []) :
    slicedCopyCy dest dbeg src sbeg sl = slicedCopyPy dest dbeg src sbeg sl := by
  unfold slicedCopyCy slicedCopyPy
  simp only []
  split
  case isFalse => rfl
  case isTrue hc =>
    simp only [Bool.and_eq_true, beq_iff_eq] at hc
    obtain ⟨⟨⟨⟨_, hfd⟩, hfs⟩, hgd⟩, hgs⟩ := hc
    rw [sliceOK_iff] at hfd hfs
    rw [TenpyModel.C01B.prod_eq] at hgd hgs
    congr 1
    have hgood : Good (dest.setBlock (dbeg.getD (List.replicate dest.shape.length 0))
        (src.getBlock (sbeg.getD (List.replicate dest.shape.length 0)) sl)) := setBlock_good dest hgd _ _
    refine ext_get 0 _ _ (setBlock_shape dest _ _).symm (by simp only [Good, length_sscCy]; exact hgd) hgood ?_
    intro idx hi
    simp only [] at hi
    have hL : ∀ vals : List α, Dense.get 0 (Dense.mk dest.shape vals) idx = vals.getD (dot idx (makeStrideC dest.shape)) 0 :=
      fun vals => get_inRange 0 (Dense.mk dest.shape vals) idx hi
    rw [get_setBlock dest hgd _ _ idx hi, get_inRange 0 dest idx hi, hL]
    simp only [List.getD_eq_getElem?_getD, TenpyModel.C01B.strides_eq]
    rw [sscCy_get dest.shape src.shape _ _ sl dest.vals src.vals hne hfd hfs hgd hgs idx hi]
    rw [getBlock_shape]
    have hiff := sbCond_iff (dbeg.getD (List.replicate dest.shape.length 0)) sl idx (by rw [hfd.length.1, hfd.length.2])
    by_cases hb' : sbCond (dbeg.getD (List.replicate dest.shape.length 0)) sl idx = true
    · rw [if_pos hb', if_pos hb']
      have hb := hiff.1 hb'
      obtain ⟨hjr, _⟩ := hb.sub
      have hlt := dot_stride_lt _ sl hjr
      have hg := getBlock_good src (sbeg.getD (List.replicate dest.shape.length 0)) sl
      have h1 := get_inRange 0 (src.getBlock (sbeg.getD (List.replicate dest.shape.length 0)) sl) _ hjr
      rw [get_getBlock _ _ _ _ hjr, get_inRange 0 src _ (vadd_inRange hfs hjr), getBlock_shape] at h1
      simp only [List.getD_eq_getElem?_getD] at h1
      rw [h1, TenpyModel.C01B.flatIdx_eq]
      have hlt' : dot (List.zipWith (fun i s => i - s) idx (dbeg.getD (List.replicate dest.shape.length 0))) (makeStrideC sl)
          < (src.getBlock (sbeg.getD (List.replicate dest.shape.length 0)) sl).vals.length := by
        rw [hg, getBlock_shape]; exact hlt
      simp [List.getElem?_eq_getElem hlt']
    · rw [if_neg hb', if_neg hb']

end main

end TenpyModel.C04Ext
