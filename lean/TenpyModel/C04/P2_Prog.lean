import TenpyModel.C04.P2_Dot3
/-!
C04 part 2 — finite programs under the two kernel configurations of the model.

Programs are in the form the driver (`lean/drivers/C01.lean`) executes: a list of steps over an environment of values;
a step reads earlier values by index, appends its result (`none` after an error or for a scalar, later steps that read
it are skipped), and `iadd_prefactor_other` also writes back the state of its operand (the compiled kernel lexsorts
it in place). Steps: the two kernel-parametrised operations (`iadd_prefactor_other`, `tensordot`) and arbitrary
kernel-independent primitives `op1 F` / `op2 G` that respect the kernel-independent equality (`Respects1/2`; instances
for the operations of the model in `P2_Ops.lean`).

`run_agree`: started from environments with the same kernel-independent content, the two configurations produce
step by step the same outcome class, equal scalars, tensors with the same content — by induction over the program.
-/
namespace TenpyModel.C04P2
open TenpyModel.Core

variable {α : Type}

inductive Step (α : Type) where
  | addPrefactor (p : α) (i j : Nat)            -- `r = env[i].copy(); r.iadd_prefactor_other(p, env[j])`
  | tensordot (axes : Arr.DotAxes) (i j : Nat)   -- `tensordot(env[i], env[j], axes)`
  | op1 (F : Arr α → Except Err (Arr α)) (i : Nat)
  | op2 (G : Arr α → Arr α → Except Err (Arr α)) (i j : Nat)

inductive Outcome (α : Type) where
  | tensor (r : Arr α)
  | scalar (x : α)
  | error (e : Err)
  | skipped

abbrev Env (α : Type) := List (Option (Arr α))

def look (env : Env α) (i : Nat) : Option (Arr α) := env.getD i none

/-- one step under the kernel configuration `cy` -/
def runStep [Add α] [Mul α] [Zero α] [DecidableEq α] (cy : Bool) (env : Env α) : Step α → Outcome α × Env α
  | .addPrefactor p i j =>
    match look env i, look env j with
    | some a, some b =>
      match a.copy.iaddPrefactorOther cy p b with
      | .ok (r, b') => (.tensor r, env.set j (some b') ++ [some r])
      | .error e => (.error e, env ++ [none])
    | _, _ => (.skipped, env ++ [none])
  | .tensordot axes i j =>
    match look env i, look env j with
    | some a, some b =>
      match Arr.tensordot cy a b axes with
      | .ok (.arr r) => (.tensor r, env ++ [some r])
      | .ok (.scalar x) => (.scalar x, env ++ [none])
      | .error e => (.error e, env ++ [none])
    | _, _ => (.skipped, env ++ [none])
  | .op1 F i =>
    match look env i with
    | some a =>
      match F a with
      | .ok r => (.tensor r, env ++ [some r])
      | .error e => (.error e, env ++ [none])
    | none => (.skipped, env ++ [none])
  | .op2 G i j =>
    match look env i, look env j with
    | some a, some b =>
      match G a b with
      | .ok r => (.tensor r, env ++ [some r])
      | .error e => (.error e, env ++ [none])
    | _, _ => (.skipped, env ++ [none])

/-- a whole program: the list of outcomes and the final environment -/
def run [Add α] [Mul α] [Zero α] [DecidableEq α] (cy : Bool) : Env α → List (Step α) → List (Outcome α) × Env α
  | env, [] => ([], env)
  | env, s :: rest =>
    let o := runStep cy env s
    let r := run cy o.2 rest
    (o.1 :: r.1, r.2)

/-! ### relations -/

def OptKW : Option (Arr α) → Option (Arr α) → Prop
  | some x, some y => KW x y
  | none, none => True
  | _, _ => False

def EnvRel (env env' : Env α) : Prop := env.length = env'.length ∧ ∀ i, OptKW (look env i) (look env' i)

def OutRel : Outcome α → Outcome α → Prop
  | .tensor r, .tensor s => KW r s
  | .scalar x, .scalar y => x = y
  | .error e, .error e' => e = e'
  | .skipped, .skipped => True
  | _, _ => False

/-- a kernel-independent primitive respects the kernel-independent equality -/
def Respects1 (F : Arr α → Except Err (Arr α)) : Prop := ∀ x y, KW x y → Agree KW (F x) (F y)
def Respects2 (G : Arr α → Arr α → Except Err (Arr α)) : Prop :=
  ∀ x x' y y', KW x x' → KW y y' → Agree KW (G x y) (G x' y')

def StepOK : Step α → Prop
  | .op1 F _ => Respects1 F
  | .op2 G _ _ => Respects2 G
  | _ => True

theorem look_push (env : Env α) (x : Option (Arr α)) (i : Nat) :
    look (env ++ [x]) i = if i < env.length then look env i else if i = env.length then x else none := by
  unfold look
  rw [List.getD_eq_getElem?_getD, List.getD_eq_getElem?_getD]
  by_cases h1 : i < env.length
  · rw [if_pos h1, List.getElem?_append_left h1]
  · rw [if_neg h1]
    by_cases h2 : i = env.length
    · subst h2
      simp
    · rw [if_neg h2]
      have : (env ++ [x])[i]? = none := List.getElem?_eq_none (by simp; omega)
      rw [this]
      rfl

theorem look_set (env : Env α) (x : Option (Arr α)) (j i : Nat) :
    look (env.set j x) i = if i = j ∧ j < env.length then x else look env i := by
  unfold look
  simp only [List.getD_eq_getElem?_getD, List.getElem?_set]
  by_cases h : j = i
  · subst h
    by_cases h2 : j < env.length
    · simp [h2]
    · simp [h2]
  · have : ¬ (i = j ∧ j < env.length) := fun hh => h hh.1.symm
    simp [h, this]

theorem EnvRel.push {env env' : Env α} (h : EnvRel env env') {x x' : Option (Arr α)} (hx : OptKW x x') :
    EnvRel (env ++ [x]) (env' ++ [x']) := by
  refine ⟨by simp [h.1], fun i => ?_⟩
  rw [look_push, look_push, ← h.1]
  split
  · exact h.2 i
  · split
    · exact hx
    · trivial

theorem EnvRel.set {env env' : Env α} (h : EnvRel env env') (j : Nat) {x x' : Option (Arr α)} (hx : OptKW x x') :
    EnvRel (env.set j x) (env'.set j x') := by
  refine ⟨by simp [h.1], fun i => ?_⟩
  rw [look_set, look_set, ← h.1]
  split
  · exact hx
  · exact h.2 i

theorem EnvRel.refl (env : Env α) (hw : ∀ a, some a ∈ env → a.WF) : EnvRel env env := by
  refine ⟨rfl, fun i => ?_⟩
  unfold look
  rw [List.getD_eq_getElem?_getD]
  cases hi : env[i]? with
  | none => trivial
  | some o =>
    cases o with
    | none => trivial
    | some a => exact KW.refl (hw a (List.mem_of_getElem? hi))

/-! ### one step, whole programs -/

section steps
variable [CommSemiring α] [DecidableEq α]
set_option linter.unusedSectionVars false

theorem pairCases (env env' : Env α) (he : EnvRel env env') (i j : Nat) :
    (∃ a a' b b', look env i = some a ∧ look env' i = some a' ∧ look env j = some b ∧ look env' j = some b'
      ∧ KW a a' ∧ KW b b')
    ∨ ((look env i = none ∨ look env j = none) ∧ (look env' i = none ∨ look env' j = none)) := by
  have hi := he.2 i
  have hj := he.2 j
  cases ha : look env i <;> cases ha' : look env' i <;> rw [ha, ha'] at hi <;> try exact hi.elim
  · exact Or.inr ⟨Or.inl rfl, Or.inl rfl⟩
  · cases hb : look env j <;> cases hb' : look env' j <;> rw [hb, hb'] at hj <;> try exact hj.elim
    · exact Or.inr ⟨Or.inr rfl, Or.inr rfl⟩
    · exact Or.inl ⟨_, _, _, _, rfl, rfl, rfl, rfl, hi, hj⟩

theorem runStep_add_skip (cy : Bool) (env : Env α) (p : α) (i j : Nat) (h : look env i = none ∨ look env j = none) :
    runStep cy env (.addPrefactor p i j) = (.skipped, env ++ [none]) := by
  cases hi : look env i <;> cases hj : look env j <;> simp_all [runStep]

theorem runStep_dot_skip (cy : Bool) (env : Env α) (axes : Arr.DotAxes) (i j : Nat)
    (h : look env i = none ∨ look env j = none) :
    runStep cy env (.tensordot axes i j) = (.skipped, env ++ [none]) := by
  cases hi : look env i <;> cases hj : look env j <;> simp_all [runStep]

theorem runStep_op2_skip (cy : Bool) (env : Env α) (G : Arr α → Arr α → Except Err (Arr α)) (i j : Nat)
    (h : look env i = none ∨ look env j = none) :
    runStep cy env (.op2 G i j) = (.skipped, env ++ [none]) := by
  cases hi : look env i <;> cases hj : look env j <;> simp_all [runStep]

/-- **one step under the two configurations** -/
theorem step_agree (env env' : Env α) (he : EnvRel env env') (s : Step α) (hs : StepOK s) :
    OutRel (runStep true env s).1 (runStep false env' s).1 ∧ EnvRel (runStep true env s).2 (runStep false env' s).2 := by
  have hskip : OutRel (Outcome.skipped : Outcome α) Outcome.skipped ∧ EnvRel (env ++ [none]) (env' ++ [none]) :=
    ⟨trivial, he.push (x := none) (x' := none) trivial⟩
  cases s with
  | addPrefactor p i j =>
    rcases pairCases env env' he i j with ⟨a, a', b, b', h1, h2, h3, h4, hi, hj⟩ | ⟨h1, h2⟩
    · have := iadd_step (fun s => zero_mul s) (fun x => add_zero x) a a' b b' p hi.2.1 hi.2.2 hj.2.1 hj.2.2 hi.1 hj.1
      simp only [runStep, h1, h2, h3, h4, Arr.copy]
      revert this
      cases a.iaddPrefactorOther true p b <;> cases a'.iaddPrefactorOther false p b' <;> simp only [Agree]
      · intro h; exact ⟨h, he.push (x := none) (x' := none) trivial⟩
      · intro h; exact h.elim
      · intro h; exact h.elim
      · rintro ⟨h1, h2, h3, h4, h5, h6⟩
        exact ⟨⟨h1, h3, h4⟩, (he.set j (x := some _) (x' := some _) ⟨h2, h5, h6⟩).push
          (x := some _) (x' := some _) ⟨h1, h3, h4⟩⟩
    · rw [runStep_add_skip _ _ _ _ _ h1, runStep_add_skip _ _ _ _ _ h2]
      exact hskip
  | tensordot axes i j =>
    rcases pairCases env env' he i j with ⟨a, a', b, b', h1, h2, h3, h4, hi, hj⟩ | ⟨h1, h2⟩
    · have := tensordot_respects true false a a' b b' axes hi.2.1 hi.2.2 hj.2.1 hj.2.2 hi.1 hj.1
      simp only [runStep, h1, h2, h3, h4]
      revert this
      cases Arr.tensordot true a b axes <;> cases Arr.tensordot false a' b' axes <;> simp only [Agree]
      · intro h; exact ⟨h, he.push (x := none) (x' := none) trivial⟩
      · intro h; exact h.elim
      · intro h; exact h.elim
      · rename_i v v'
        cases v <;> cases v' <;> simp only [ValRel]
        · intro h; exact ⟨h, he.push (x := some _) (x' := some _) h⟩
        · intro h; exact h.elim
        · intro h; exact h.elim
        · intro h; exact ⟨h, he.push (x := none) (x' := none) trivial⟩
    · rw [runStep_dot_skip _ _ _ _ _ h1, runStep_dot_skip _ _ _ _ _ h2]
      exact hskip
  | op1 F i =>
    have hi := he.2 i
    cases ha : look env i <;> cases ha' : look env' i <;> rw [ha, ha'] at hi <;> try exact hi.elim
    · simp only [runStep, ha, ha']
      exact hskip
    · rename_i a a'
      have := hs a a' hi
      simp only [runStep, ha, ha']
      revert this
      cases F a <;> cases F a' <;> simp only [Agree]
      · intro h; exact ⟨h, he.push (x := none) (x' := none) trivial⟩
      · intro h; exact h.elim
      · intro h; exact h.elim
      · intro h; exact ⟨h, he.push (x := some _) (x' := some _) h⟩
  | op2 G i j =>
    rcases pairCases env env' he i j with ⟨a, a', b, b', h1, h2, h3, h4, hi, hj⟩ | ⟨h1, h2⟩
    · have := hs a a' b b' hi hj
      simp only [runStep, h1, h2, h3, h4]
      revert this
      cases G a b <;> cases G a' b' <;> simp only [Agree]
      · intro h; exact ⟨h, he.push (x := none) (x' := none) trivial⟩
      · intro h; exact h.elim
      · intro h; exact h.elim
      · intro h; exact ⟨h, he.push (x := some _) (x' := some _) h⟩
    · rw [runStep_op2_skip _ _ _ _ _ h1, runStep_op2_skip _ _ _ _ _ h2]
      exact hskip

/-- **all finite programs**: the two kernel configurations of the model agree step by step -/
theorem run_agree (prog : List (Step α)) (hp : ∀ s ∈ prog, StepOK s) (env env' : Env α) (he : EnvRel env env') :
    List.Forall₂ OutRel (run true env prog).1 (run false env' prog).1
    ∧ EnvRel (run true env prog).2 (run false env' prog).2 := by
  induction prog generalizing env env' with
  | nil => exact ⟨List.Forall₂.nil, he⟩
  | cons s rest ih =>
    obtain ⟨h1, h2⟩ := step_agree env env' he s (hp s (by simp))
    obtain ⟨h3, h4⟩ := ih (fun t ht => hp t (by simp [ht])) _ _ h2
    exact ⟨List.Forall₂.cons h1 h3, h4⟩

end steps

/-! ### observations of outcomes -/

/-- what is compared per step: the outcome class, the error class, the scalar, the observables of a tensor -/
inductive OutObs (α : Type) where
  | tensor (o : Obs α)
  | scalar (x : α)
  | error (e : Err)
  | skipped

def obsOut [Zero α] : Outcome α → OutObs α
  | .tensor r => .tensor (observe r)
  | .scalar x => .scalar x
  | .error e => .error e
  | .skipped => .skipped

theorem obsOut_eq [Zero α] (o o' : Outcome α) (h : OutRel o o') : obsOut o = obsOut o' := by
  cases o <;> cases o' <;> simp only [OutRel] at h <;> try exact h.elim
  · show OutObs.tensor (observe _) = OutObs.tensor (observe _)
    rw [observe_eq_of_KEq h.2.1 h.2.2 h.1]
  · rw [h]
  · rw [h]
  · rfl

theorem forall₂_map_eq {β γ δ} (R : β → γ → Prop) (f : β → δ) (g : γ → δ) (hfg : ∀ x y, R x y → f x = g y)
    (l : List β) (l' : List γ) (h : List.Forall₂ R l l') : l.map f = l'.map g := by
  induction h with
  | nil => rfl
  | cons h1 _ ih => rw [List.map_cons, List.map_cons, hfg _ _ h1, ih]

end TenpyModel.C04P2
