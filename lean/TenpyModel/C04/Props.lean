import TenpyModel.Core.ArrDot
/-!
C04 — compiled and pure-Python tensor kernels are observationally equivalent.

No new model: both kernel configurations are required (by the correspondence run of `harness/C04.py`) to refine
the *same* executable model `Arr` (lean/TenpyModel/Core/Arr*.lean). The theorems below are the (small) logical
glue: two traces that each equal the model's trace are equal, also under an observation function and for the
kernel-indexed model variants that differ only in a cached claim.
-/
open TenpyModel.Core

/-- Two implementations whose traces both equal the trace of one model produce equal traces. -/
theorem C04_refinement_common {Trace : Type} (model cy py : Trace) (hcy : cy = model) (hpy : py = model) :
    cy = py := by
  rw [hcy, hpy]

example : (fun (x : Nat) => x + 0) 3 = (fun (x : Nat) => 0 + x) 3 :=
  C04_refinement_common 3 _ _ (by simp) (by simp)

/-- Refinement of kernel-indexed model variants: if each kernel's trace equals the trace of *its* model variant
and the two variants agree under an observation `obs` (everything except the cached `_qdata_sorted` claims),
then the two kernels agree under `obs`. This is the form used by the harness: `obs` = legs, labels, total charge,
canonical block list, values, error class. -/
theorem C04_refinement_observed {Trace Obs : Type} (obs : Trace → Obs) (mcy mpy cy py : Trace)
    (hcy : cy = mcy) (hpy : py = mpy) (hobs : obs mcy = obs mpy) : obs cy = obs py := by
  rw [hcy, hpy, hobs]

/-- Programs: refinement step by step lifts to whole traces (lists of per-step observations). -/
theorem C04_refinement_program {Step Obs : Type} (obs : Step → Obs) (model cy py : List Step)
    (hcy : cy = model) (hpy : py = model) : cy.map obs = py.map obs := by
  rw [hcy, hpy]

