import TenpyModel.C01.A_Binary2
/-!
C04 part 2 — the kernel-independent observables of a tensor of the model.

`KEq x y`: same `chinfo`, legs (incl. nested pipes and their flags), labels, total charge and the same *set* of stored
(row, block) pairs — the stored order of the block list and the cached claim `_qdata_sorted` are deliberately left out:
these are the only things in which the two kernel variants of the model may differ. For well-formed tensors `KEq` is
the same as equality of `observe` (legs, labels, total charge, dense form, block list after `isort_qdata`), and it
implies `x.isortQdata = y.isortQdata` (the canonical form is unique).
-/
namespace TenpyModel.C04P2
open TenpyModel.Core

variable {α : Type}

/-- kernel-independent equality: everything except the stored order of the block list and `_qdata_sorted` -/
def KEq (x y : Arr α) : Prop :=
  x.mods = y.mods ∧ x.legs = y.legs ∧ x.labels = y.labels ∧ x.qtotal = y.qtotal
  ∧ (x.qdata.zip x.data).Perm (y.qdata.zip y.data)

theorem KEq.refl (x : Arr α) : KEq x x := ⟨rfl, rfl, rfl, rfl, List.Perm.refl _⟩

theorem KEq.symm {x y : Arr α} (h : KEq x y) : KEq y x :=
  ⟨h.1.symm, h.2.1.symm, h.2.2.1.symm, h.2.2.2.1.symm, h.2.2.2.2.symm⟩

theorem KEq.trans {x y z : Arr α} (h : KEq x y) (g : KEq y z) : KEq x z :=
  ⟨h.1.trans g.1, h.2.1.trans g.2.1, h.2.2.1.trans g.2.2.1, h.2.2.2.1.trans g.2.2.2.1, h.2.2.2.2.trans g.2.2.2.2⟩

theorem KEq.rank {x y : Arr α} (h : KEq x y) : x.rank = y.rank := by unfold Arr.rank; rw [h.2.1]
theorem KEq.lcs {x y : Arr α} (h : KEq x y) : x.lcs = y.lcs := by unfold Arr.lcs; rw [h.2.1]
theorem KEq.shape {x y : Arr α} (h : KEq x y) : x.shape = y.shape := by unfold Arr.shape; rw [h.lcs]
theorem KEq.blockNumbers {x y : Arr α} (h : KEq x y) : x.blockNumbers = y.blockNumbers := by
  unfold Arr.blockNumbers; rw [h.lcs]

theorem KEq.storedBlocks {x y : Arr α} (hx : x.WF) (hy : y.WF) (h : KEq x y) : x.storedBlocks = y.storedBlocks := by
  have := h.2.2.2.2.length_eq
  simp only [List.length_zip, hx.2.1, hy.2.1, Nat.min_self] at this
  exact this

theorem KEq.qdata_perm {x y : Arr α} (hx : x.WF) (hy : y.WF) (h : KEq x y) : x.qdata.Perm y.qdata := by
  have := h.2.2.2.2.map Prod.fst
  rwa [List.map_fst_zip (Nat.le_of_eq hx.2.1), List.map_fst_zip (Nat.le_of_eq hy.2.1)] at this

/-- structure extensionality -/
theorem arr_ext (u v : Arr α) (h1 : u.mods = v.mods) (h2 : u.legs = v.legs) (h3 : u.qtotal = v.qtotal)
    (h4 : u.labels = v.labels) (h5 : u.qdata = v.qdata) (h6 : u.data = v.data) (h7 : u.qdataSorted = v.qdataSorted) :
    u = v := by
  cases u; cases v
  simp only at h1 h2 h3 h4 h5 h6 h7
  subst h1 h2 h3 h4 h5 h6 h7
  rfl

/-- the dense form only depends on the kernel-independent observables -/
theorem KEq.toDense [Zero α] {x y : Arr α} (hx : x.WF) (h : KEq x y) : x.toDense = y.toDense := by
  unfold Arr.toDense
  rw [h.shape]
  refine Dense.ofFn_congr _ _ _ (fun idx => ?_)
  exact (Arr.entry_congr_perm x y h.2.1 h.2.2.2.2.symm hx.2.2.1 idx).symm

/-! ### uniqueness of the lexsorted block list -/

theorem pairs_inj {β γ} (L : List (β × γ)) (hnd : (L.map (·.1)).Nodup) (x y : β × γ) (hx : x ∈ L) (hy : y ∈ L)
    (e : x.1 = y.1) : x = y := by
  induction L with
  | nil => simp at hx
  | cons z L ih =>
    simp only [List.map_cons, List.nodup_cons, List.mem_map, not_exists, not_and] at hnd
    rcases List.mem_cons.1 hx with rfl | hx' <;> rcases List.mem_cons.1 hy with rfl | hy'
    · rfl
    · exact absurd e.symm (hnd.1 y hy')
    · exact absurd e (hnd.1 x hx')
    · exact ih hnd.2 hx' hy'

theorem ofNat_map_inj (r s : List Nat) (h : r.map Int.ofNat = s.map Int.ofNat) : r = s := by
  induction r generalizing s with
  | nil => cases s <;> simp_all
  | cons a r ih =>
    cases s with
    | nil => simp at h
    | cons b s =>
      simp only [List.map_cons, List.cons.injEq] at h
      rw [ih s h.2, Int.ofNat_inj.1 h.1]

theorem pairwise_of_isLexsorted (rows : List (List Nat)) (h : isLexsorted rows = true) :
    rows.Pairwise (fun a b => lexLE (a.map Int.ofNat) (b.map Int.ofNat) = true) := by
  have h1 : (natRows rows).Pairwise (fun a b => lexLE a b = true) := by
    apply sorted_of_lexsort
    unfold isLexsorted lexsortNat at h
    simpa [natRows] using h
  unfold natRows at h1
  rwa [List.pairwise_map] at h1

/-- two lexsorted duplicate-free block lists with the same (row, block) pairs are equal -/
theorem blocks_eq_of_sorted (L1 L2 : List (List Nat × Blk α)) (hp : L1.Perm L2) (hnd : (L1.map (·.1)).Nodup)
    (h1 : isLexsorted (L1.map (·.1)) = true) (h2 : isLexsorted (L2.map (·.1)) = true) : L1 = L2 := by
  have p1 := pairwise_of_isLexsorted _ h1
  have p2 := pairwise_of_isLexsorted _ h2
  rw [List.pairwise_map] at p1 p2
  refine List.Perm.eq_of_pairwise (le := fun (x y : List Nat × Blk α) =>
    lexLE (x.1.map Int.ofNat) (y.1.map Int.ofNat) = true) ?_ p1 p2 hp
  intro a b ha hb hab hba
  have e : a.1 = b.1 := ofNat_map_inj _ _ (lexLE_antisymm _ _ hab hba)
  exact pairs_inj L1 hnd a b ha (hp.mem_iff.2 hb) e

theorem isortQdata_flag (a : Arr α) : a.isortQdata.qdataSorted = true := by
  unfold Arr.isortQdata
  split
  · assumption
  · split <;> rfl

/-- **canonical form**: `isort_qdata` of two well-formed tensors with the same observables gives the same tensor -/
theorem KEq.isortQdata_eq {x y : Arr α} (hx : x.WF) (hy : y.WF) (h : KEq x y) : x.isortQdata = y.isortQdata := by
  obtain ⟨lx, px⟩ := Arr.isortQdata_perm x hx.2.1
  obtain ⟨ly, py⟩ := Arr.isortQdata_perm y hy.2.1
  have sx := Arr.isortQdata_sorted x hx.2.2.2.2.2.2
  have sy := Arr.isortQdata_sorted y hy.2.2.2.2.2.2
  have hperm : (x.isortQdata.qdata.zip x.isortQdata.data).Perm (y.isortQdata.qdata.zip y.isortQdata.data) :=
    (px.trans h.2.2.2.2).trans py.symm
  have hnd : ((x.isortQdata.qdata.zip x.isortQdata.data).map (·.1)).Nodup := by
    rw [List.map_fst_zip (Nat.le_of_eq lx)]
    exact (Arr.WF_isortQdata x hx).2.2.1
  have hz := blocks_eq_of_sorted _ _ hperm hnd
    (by rw [List.map_fst_zip (Nat.le_of_eq lx)]; exact sx) (by rw [List.map_fst_zip (Nat.le_of_eq ly)]; exact sy)
  have hq : x.isortQdata.qdata = y.isortQdata.qdata := by
    have := congrArg (List.map Prod.fst) hz
    rwa [List.map_fst_zip (Nat.le_of_eq lx), List.map_fst_zip (Nat.le_of_eq ly)] at this
  have hd : x.isortQdata.data = y.isortQdata.data := by
    have := congrArg (List.map Prod.snd) hz
    rwa [List.map_snd_zip (Nat.le_of_eq lx.symm), List.map_snd_zip (Nat.le_of_eq ly.symm)] at this
  apply arr_ext
  · rw [(Arr.isortQdata_qtotal x).2, (Arr.isortQdata_qtotal y).2, h.1]
  · rw [(Arr.isortQdata_fields x).1, (Arr.isortQdata_fields y).1, h.2.1]
  · rw [(Arr.isortQdata_qtotal x).1, (Arr.isortQdata_qtotal y).1, h.2.2.2.1]
  · rw [(Arr.isortQdata_fields x).2, (Arr.isortQdata_fields y).2, h.2.2.1]
  · exact hq
  · exact hd
  · rw [isortQdata_flag, isortQdata_flag]

/-- a tensor and its lexsorted version have the same observables -/
theorem KEq.isortQdata (x : Arr α) (hx : x.WF) : KEq x.isortQdata x :=
  ⟨(Arr.isortQdata_qtotal x).2, (Arr.isortQdata_fields x).1, (Arr.isortQdata_fields x).2, (Arr.isortQdata_qtotal x).1,
    (Arr.isortQdata_perm x hx.2.1).2⟩

/-- a lexsorted tensor is its own canonical form -/
theorem isortQdata_of_flag (x : Arr α) (h : x.qdataSorted = true) : x.isortQdata = x := by
  unfold Arr.isortQdata
  rw [if_pos h]

theorem isortQdata_idem (x : Arr α) : x.isortQdata.isortQdata = x.isortQdata :=
  isortQdata_of_flag _ (isortQdata_flag x)

/-! ### the observation -/

/-- what the verdict of C04 compares for a tensor: `chinfo`, legs, labels, total charge, dense form, and the block
structure in canonical (lexsorted) order -/
structure Obs (α : Type) where
  mods : List Nat
  legs : List ALeg
  labels : List Label
  qtotal : Charge
  dense : Dense α
  rows : List (List Nat)
  blocks : List (Blk α)

def observe [Zero α] (x : Arr α) : Obs α :=
  ⟨x.mods, x.legs, x.labels, x.qtotal, x.toDense, x.isortQdata.qdata, x.isortQdata.data⟩

/-- well-formed tensors with the same kernel-independent content are observed equal -/
theorem observe_eq_of_KEq [Zero α] {x y : Arr α} (hx : x.WF) (hy : y.WF) (h : KEq x y) : observe x = observe y := by
  unfold observe
  rw [h.1, h.2.1, h.2.2.1, h.2.2.2.1, h.toDense hx, h.isortQdata_eq hx hy]

/-- and conversely: `KEq` is exactly observational equality -/
theorem KEq_of_observe_eq [Zero α] {x y : Arr α} (hx : x.WF) (hy : y.WF) (h : observe x = observe y) : KEq x y := by
  unfold observe at h
  simp only [Obs.mk.injEq] at h
  obtain ⟨h1, h2, h3, h4, _, h6, h7⟩ := h
  refine ⟨h1, h2, h3, h4, ?_⟩
  have px := (Arr.isortQdata_perm x hx.2.1).2
  have py := (Arr.isortQdata_perm y hy.2.1).2
  rw [h6, h7] at px
  exact px.symm.trans py

end TenpyModel.C04P2
