import TenpyModel.C04.P2_Prog
/-!
C04 part 2 — kernel-independent primitives of the model that respect the kernel-independent equality (and may
therefore appear as `op1` / `op2` steps of the programs of `P2_Prog.lean`): block-wise unary maps (`neg`,
`complex_conj`), `iscale_prefactor`, `conj`, `transpose`, `isort_qdata`, `ibinary_blockwise f`, `outer`.
-/
namespace TenpyModel.C04P2
open TenpyModel.Core TenpyModel.C01B

variable {α : Type}

theorem keq_unary (g : α → α) (x y : Arr α) (h : KEq x y) : KEq (x.iunaryBlockwise g) (y.iunaryBlockwise g) := by
  refine ⟨h.1, h.2.1, h.2.2.1, h.2.2.2.1, ?_⟩
  show (x.qdata.zip (x.data.map _)).Perm (y.qdata.zip (y.data.map _))
  rw [List.zip_map_right, List.zip_map_right]
  exact h.2.2.2.2.map _

/-- `iunary_blockwise(g)` (`-a`, `complex_conj`, …) -/
theorem respects_unary (g : α → α) : Respects1 (fun a : Arr α => .ok (a.iunaryBlockwise g)) := by
  intro x y h
  exact ⟨keq_unary g x y h.1, Arr.WF_iunaryBlockwise g x h.2.1, Arr.WF_iunaryBlockwise g y h.2.2⟩

theorem respects_neg [Neg α] : Respects1 (fun a : Arr α => .ok a.neg) := respects_unary _

theorem respects_complexConj (st : α → α) : Respects1 (fun a : Arr α => .ok (a.complexConj st)) := respects_unary _

/-- `a * s` -/
theorem respects_scale [Mul α] [Zero α] [DecidableEq α] (s : α) :
    Respects1 (fun a : Arr α => .ok (a.iscalePrefactor s)) := by
  intro x y h
  exact ⟨keq_iscalePrefactor x y s h.1, Arr.WF_iscalePrefactor x s h.2.1, Arr.WF_iscalePrefactor y s h.2.2⟩

/-- `conj()` -/
theorem respects_conj (st : α → α) : Respects1 (fun a : Arr α => .ok (a.conj st)) := by
  intro x y h
  refine ⟨?_, Arr.WF_conj st x h.2.1, Arr.WF_conj st y h.2.2⟩
  obtain ⟨k1, k2, k3, k4, k5⟩ := keq_unary st x y h.1
  refine ⟨k1, ?_, ?_, ?_, k5⟩
  · show x.legs.map ALeg.conj = y.legs.map ALeg.conj
    rw [h.1.2.1]
  · show x.labels.map Label.conjOpt = y.labels.map Label.conjOpt
    rw [h.1.2.2.1]
  · show makeValid x.mods (cneg x.qtotal) = makeValid y.mods (cneg y.qtotal)
    rw [h.1.1, h.1.2.2.2.1]

/-- `isort_qdata()`: even the same tensor -/
theorem respects_isort : Respects1 (fun a : Arr α => .ok a.isortQdata) := by
  intro x y h
  show KW x.isortQdata y.isortQdata
  rw [h.1.isortQdata_eq h.2.1 h.2.2]
  exact KW.refl (Arr.WF_isortQdata y h.2.2)

/-- `transpose(axes)` (axes by index or label, or `None`) -/
theorem respects_transpose [Zero α] (axes : Option (List Ax)) : Respects1 (fun a : Arr α => a.transpose axes) := by
  intro x y h
  have hwf : ∀ (z t : Arr α), z.WF → z.transpose axes = .ok t → t.WF := by
    intro z t hz ht
    obtain ⟨_, _, _, _, _, _, _, _, _, w, _⟩ := Arr.itranspose_spec z t axes hz ht
    exact w
  cases axes with
  | none =>
    have e : ∀ z : Arr α, z.transpose none = .ok (z.itransposeFast (List.range z.rank).reverse) := fun z => rfl
    show Agree KW (x.transpose none) (y.transpose none)
    rw [e x, e y]
    refine ⟨?_, hwf x _ h.2.1 (e x), hwf y _ h.2.2 (e y)⟩
    rw [h.1.rank]
    exact TrRel.keq (Or.inr ⟨_, rfl, rfl⟩) h.1
  | some axs =>
    rcases transpose_rel x y h.1.frame axs with ⟨t, u, h1, h2, h3⟩ | ⟨e, h1, h2⟩
    · show Agree KW (x.transpose (some axs)) (y.transpose (some axs))
      rw [h1, h2]
      exact ⟨h3.keq h.1, hwf x t h.2.1 h1, hwf y u h.2.2 h2⟩
    · show Agree KW (x.transpose (some axs)) (y.transpose (some axs))
      rw [h1, h2]
      exact rfl

/-- the new `self` of `ibinary_blockwise(f, other)` -/
def binarySelf [Zero α] (f : α → α → α) (a b : Arr α) : Except Err (Arr α) :=
  match a.ibinaryBlockwise f b with
  | .ok r => .ok r.1
  | .error e => .error e

theorem respects_binary [Zero α] (f : α → α → α) : Respects2 (binarySelf f : Arr α → Arr α → _) := by
  intro x x' y y' hx hy
  have := ibinary_respects f x x' y y' hx.2.1 hx.2.2 hy.2.1 hy.2.2 hx.1 hy.1
  unfold binarySelf
  revert this
  cases x.ibinaryBlockwise f y <;> cases x'.ibinaryBlockwise f y' <;> simp only [Agree]
  · exact id
  · exact id
  · exact id
  · rintro ⟨h1, _, h3, _, _⟩
    rw [← h1]
    exact KW.refl h3

/-- `outer(a, b)` -/
theorem respects_outer [CommSemiring α] : Respects2 (Arr.outer : Arr α → Arr α → _) := by
  intro x x' y y' hx hy
  exact outer_respects x x' y y' hx.2.1 hx.2.2 hy.2.1 hy.2.2 hx.1 hy.1

end TenpyModel.C04P2
