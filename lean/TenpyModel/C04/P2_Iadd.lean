import TenpyModel.C04.P2_Obs
/-!
C04 part 2 — `iadd_prefactor_other`: the compiled and the pure-Python variant of the model.

* `Frame` / `TrRel`: `_transpose_same_labels` only looks at labels and rank, so two tensors over the same legs and
  labels are transposed (or not) in the same way;
* the Python variant `ibinary_blockwise(np.add, other * p)` and the compiled variant (merge with `x + y * p`) produce
  *the same* new `self` when `p ≠ 0` (`core_scale`); for `p = 0` the compiled kernel returns `self` untouched while the
  Python kernel returns `self.isort_qdata()` (`core_noBlocks`);
* `ibinary_blockwise` respects `KEq` (both operands are lexsorted first, the canonical form is unique).
-/
namespace TenpyModel.C04P2
open TenpyModel.Core

variable {α : Type}

/-- same `chinfo`, legs, labels, total charge -/
def Frame (b c : Arr α) : Prop := b.mods = c.mods ∧ b.legs = c.legs ∧ b.labels = c.labels ∧ b.qtotal = c.qtotal

theorem KEq.frame {b c : Arr α} (h : KEq b c) : Frame b c := ⟨h.1, h.2.1, h.2.2.1, h.2.2.2.1⟩

theorem Frame.rank {b c : Arr α} (h : Frame b c) : b.rank = c.rank := by unfold Arr.rank; rw [h.2.1]
theorem Frame.lcs {b c : Arr α} (h : Frame b c) : b.lcs = c.lcs := by unfold Arr.lcs; rw [h.2.1]

/-- `t`, `u` are `b`, `c` themselves or both transposed by the same axes -/
def TrRel [Zero α] (b c t u : Arr α) : Prop :=
  (t = b ∧ u = c) ∨ ∃ ax : List Nat, t = b.itransposeFast ax ∧ u = c.itransposeFast ax

theorem getLegIndex_frame (b c : Arr α) (hf : Frame b c) (x : Ax) : b.getLegIndex x = c.getLegIndex x := by
  unfold Arr.getLegIndex Arr.rank
  rw [hf.2.1, hf.2.2.1]

theorem getLegIndices_frame (b c : Arr α) (hf : Frame b c) (xs : List Ax) : b.getLegIndices xs = c.getLegIndices xs := by
  unfold Arr.getLegIndices
  have : b.getLegIndex = c.getLegIndex := funext (getLegIndex_frame b c hf)
  rw [this]

/-- `transpose(axes)` of two tensors over the same frame: same outcome, same axes -/
theorem transpose_rel [Zero α] (b c : Arr α) (hf : Frame b c) (axs : List Ax) :
    (∃ t u, b.transpose (some axs) = .ok t ∧ c.transpose (some axs) = .ok u ∧ TrRel b c t u)
    ∨ (∃ e, b.transpose (some axs) = .error e ∧ c.transpose (some axs) = .error e) := by
  unfold Arr.transpose Arr.copy Arr.itranspose
  simp only [bind, Except.bind, pure, Except.pure]
  rw [getLegIndices_frame b c hf, hf.rank]
  cases c.getLegIndices axs with
  | error e => exact Or.inr ⟨e, rfl, rfl⟩
  | ok ax =>
    simp only
    by_cases h1 : ax.length ≠ c.rank ∨ ax.eraseDups.length ≠ c.rank
    · rw [if_pos h1, if_pos h1]
      exact Or.inr ⟨_, rfl, rfl⟩
    · rw [if_neg h1, if_neg h1]
      by_cases h2 : ax = List.range c.rank
      · rw [if_pos h2, if_pos h2]
        exact Or.inl ⟨b, c, rfl, rfl, Or.inl ⟨rfl, rfl⟩⟩
      · rw [if_neg h2, if_neg h2]
        exact Or.inl ⟨_, _, rfl, rfl, Or.inr ⟨ax, rfl, rfl⟩⟩

/-- `_transpose_same_labels` of two tensors over the same frame -/
theorem tsl_rel [Zero α] (b c : Arr α) (hf : Frame b c) (L : List Label) :
    (b.transposeSameLabels L).2 = (c.transposeSameLabels L).2
    ∧ TrRel b c (b.transposeSameLabels L).1 (c.transposeSameLabels L).1 := by
  have hid : (false = false) ∧ TrRel b c b c := ⟨rfl, Or.inl ⟨rfl, rfl⟩⟩
  unfold Arr.transposeSameLabels
  rw [← hf.2.2.1]
  split
  · exact hid
  · split
    · exact hid
    · split
      · rcases transpose_rel b c hf (L.map (fun l => Ax.lbl (l.getD ""))) with ⟨t, u, h1, h2, h3⟩ | ⟨e, h1, h2⟩
        · rw [h1, h2]
          exact ⟨rfl, h3⟩
        · rw [h1, h2]
          exact hid
      · exact hid

/-! ### what `TrRel` transports -/

theorem TrRel.frame [Zero α] {b c t u : Arr α} (h : TrRel b c t u) (hf : Frame b c) : Frame t u := by
  rcases h with ⟨rfl, rfl⟩ | ⟨ax, rfl, rfl⟩
  · exact hf
  · refine ⟨hf.1, ?_, ?_, hf.2.2.2⟩
    · show Arr.permuteList b.legs ax default = Arr.permuteList c.legs ax default
      rw [hf.2.1]
    · show Arr.permuteList b.labels ax none = Arr.permuteList c.labels ax none
      rw [hf.2.2.1]

theorem zip_map_both {β γ β' γ'} (f : β → β') (g : γ → γ') (q : List β) (d : List γ) :
    (q.map f).zip (d.map g) = (q.zip d).map (fun rb => (f rb.1, g rb.2)) := by
  rw [List.zip_map]
  rfl

theorem TrRel.keq [Zero α] {b c t u : Arr α} (h : TrRel b c t u) (hk : KEq b c) : KEq t u := by
  rcases h with ⟨rfl, rfl⟩ | ⟨ax, rfl, rfl⟩
  · exact hk
  · obtain ⟨f1, f2, f3, f4⟩ := TrRel.frame (Or.inr ⟨ax, rfl, rfl⟩ : TrRel b c _ _) hk.frame
    refine ⟨f1, f2, f3, f4, ?_⟩
    show ((b.qdata.map _).zip (b.data.map _)).Perm ((c.qdata.map _).zip (c.data.map _))
    rw [zip_map_both, zip_map_both]
    exact hk.2.2.2.2.map _

theorem TrRel.unary [Zero α] {b t u : Arr α} (g : α → α) (hg : g 0 = 0)
    (h : TrRel b (b.iunaryBlockwise g) t u) : u = t.iunaryBlockwise g := by
  rcases h with ⟨rfl, rfl⟩ | ⟨ax, rfl, rfl⟩
  · rfl
  · unfold Arr.itransposeFast Arr.iunaryBlockwise
    simp only [List.map_map]
    congr 1
    apply List.map_congr_left
    intro d _
    exact Dense.transpose_map g hg d ax

theorem TrRel.noBlocks [Zero α] {b c t u : Arr α} (h : TrRel b c t u) (hq : c.qdata = []) (hd : c.data = []) :
    u.qdata = [] ∧ u.data = [] := by
  rcases h with ⟨rfl, rfl⟩ | ⟨ax, rfl, rfl⟩
  · exact ⟨hq, hd⟩
  · unfold Arr.itransposeFast
    simp [hq, hd]

theorem binaryCheck_frame (a a' t t' : Arr α) (ha : Frame a a') (ht : Frame t t') :
    Arr.binaryCheck a t = Arr.binaryCheck a' t' := by
  unfold Arr.binaryCheck
  rw [ha.rank, ht.rank, ha.lcs, ht.lcs, ha.2.2.2, ht.2.2.2]

/-! ### the body of `ibinary_blockwise` after the label transposition and the checks -/

/-- lexsort both block lists, merge -/
def core [Zero α] (f : α → α → α) (a b1 : Arr α) : Arr α :=
  { a.isortQdata with
    qdata := (Arr.mergeBlocks f a.blockNumbers a.isortQdata.qdata a.isortQdata.data b1.isortQdata.qdata
      b1.isortQdata.data).1,
    data := (Arr.mergeBlocks f a.blockNumbers a.isortQdata.qdata a.isortQdata.data b1.isortQdata.qdata
      b1.isortQdata.data).2 }

theorem ibinaryBlockwise_eq [Zero α] (f : α → α → α) (a b : Arr α) :
    a.ibinaryBlockwise f b
      = match Arr.binaryCheck a (b.transposeSameLabels a.labels).1 with
        | .error e => .error e
        | .ok _ => .ok (core f a (b.transposeSameLabels a.labels).1,
            if (b.transposeSameLabels a.labels).2 then b else (b.transposeSameLabels a.labels).1.isortQdata) := by
  unfold Arr.ibinaryBlockwise core
  simp only [bind, Except.bind, pure, Except.pure]
  cases Arr.binaryCheck a (b.transposeSameLabels a.labels).1 <;> rfl

theorem iadd_cy_eq [Zero α] [Add α] [Mul α] [DecidableEq α] (a b : Arr α) (p : α) :
    a.iaddPrefactorOther true p b
      = match Arr.binaryCheck a (b.transposeSameLabels a.labels).1 with
        | .error e => .error e
        | .ok _ =>
          if p = 0 then .ok (a, b)
          else .ok (core (fun x y => x + y * p) a (b.transposeSameLabels a.labels).1,
            if (b.transposeSameLabels a.labels).2 then b else (b.transposeSameLabels a.labels).1.isortQdata) := by
  unfold Arr.iaddPrefactorOther core
  simp only [bind, Except.bind, pure, Except.pure, if_true]
  cases Arr.binaryCheck a (b.transposeSameLabels a.labels).1 with
  | error e => rfl
  | ok _ => simp only

theorem iadd_py_eq [Zero α] [Add α] [Mul α] [DecidableEq α] (a b : Arr α) (p : α) :
    a.iaddPrefactorOther false p b
      = match a.ibinaryBlockwise (· + ·) (b.iscalePrefactor p) with
        | .error e => .error e
        | .ok r => .ok (r.1, b) := by
  unfold Arr.iaddPrefactorOther Arr.copy
  simp only [bind, Except.bind, pure, Except.pure, Bool.false_eq_true, if_false]
  cases a.ibinaryBlockwise (· + ·) (b.iscalePrefactor p) <;> rfl

/-! ### scaling the operand first = merging with `x + y * p` -/

theorem map_empty (g : α → α) : Dense.map g (⟨[], []⟩ : Dense α) = ⟨[], []⟩ := rfl

theorem isort_unary (g : α → α) (b : Arr α) : (b.iunaryBlockwise g).isortQdata = b.isortQdata.iunaryBlockwise g := by
  unfold Arr.isortQdata Arr.iunaryBlockwise
  simp only
  split
  · rfl
  · split
    · rfl
    · simp only [pick, List.map_map]
      congr 1
      apply List.map_congr_left
      intro i _
      simp only [Function.comp, List.getD_eq_getElem?_getD, List.getElem?_map]
      cases b.data[i]? <;> rfl

theorem mergeGo_scale [Zero α] [Add α] [Mul α] (p : α) (h0 : (0 : α) * p = 0)
    (ka kb : List (Nat × List Nat × Blk α)) :
    Arr.mergeGo (fun x y => x + y) ka (kb.map (fun t => (t.1, t.2.1, t.2.2.map (fun x => x * p))))
      = Arr.mergeGo (fun x y => x + y * p) ka kb := by
  fun_induction Arr.mergeGo (fun x y => x + y * p) ka kb with
  | case1 => simp [Arr.mergeGo]
  | case2 b bs ih =>
    simp only [List.map_cons]
    rw [Arr.mergeGo]
    rw [ih]
    congr 2
    simp [Dense.map, List.map_map, Function.comp]
  | case3 a as ih =>
    simp only [List.map_nil] at ih ⊢
    rw [Arr.mergeGo, ih]
    congr 2
    simp [h0]
  | case4 a as b bs hk ih =>
    simp only [List.map_cons] at ih ⊢
    rw [Arr.mergeGo, if_pos hk, ih]
    congr 2
    exact Dense.zipWith_map_right _ _ _ _
  | case5 a as b bs hk hgt ih =>
    simp only [List.map_cons] at ih ⊢
    rw [Arr.mergeGo, if_neg hk, if_pos hgt, ih]
    congr 2
    simp [Dense.map, List.map_map, Function.comp]
  | case6 a as b bs hk hgt ih =>
    simp only [List.map_cons] at ih ⊢
    rw [Arr.mergeGo, if_neg hk, if_neg hgt, ih]
    congr 2
    simp [h0]

theorem mergeBlocks_scale [Zero α] [Add α] [Mul α] (p : α) (h0 : (0 : α) * p = 0) (bn : List Nat)
    (aq : List (List Nat)) (ad : List (Blk α)) (bq : List (List Nat)) (bd : List (Blk α)) :
    Arr.mergeBlocks (fun x y => x + y) bn aq ad bq (bd.map (Dense.map (fun x => x * p)))
      = Arr.mergeBlocks (fun x y => x + y * p) bn aq ad bq bd := by
  unfold Arr.mergeBlocks
  split
  · congr 1
    rw [List.zipWith_map_right]
    congr 1
    funext x y
    exact Dense.zipWith_map_right _ _ _ _
  · have : (bq.zip (bd.map (Dense.map (fun x => x * p)))).map (fun rb => (Arr.fKey bn rb.1, rb.1, rb.2))
        = ((bq.zip bd).map (fun rb => (Arr.fKey bn rb.1, rb.1, rb.2))).map
            (fun t => (t.1, t.2.1, t.2.2.map (fun x => x * p))) := by
      rw [List.zip_map_right, List.map_map, List.map_map]
      rfl
    simp only
    rw [this, mergeGo_scale p h0]

/-- for `p ≠ 0`: the Python route (scale the operand, then add) and the compiled route (merge with `x + y * p`)
give the same new `self`, block by block -/
theorem core_scale [Zero α] [Add α] [Mul α] (p : α) (h0 : (0 : α) * p = 0) (a b1 : Arr α) :
    core (fun x y => x + y) a (b1.iunaryBlockwise (fun x => x * p)) = core (fun x y => x + y * p) a b1 := by
  unfold core
  rw [isort_unary]
  show ({ a.isortQdata with
      qdata := (Arr.mergeBlocks (fun x y => x + y) a.blockNumbers a.isortQdata.qdata a.isortQdata.data
        b1.isortQdata.qdata (b1.isortQdata.data.map (Dense.map (fun x => x * p)))).1,
      data := (Arr.mergeBlocks (fun x y => x + y) a.blockNumbers a.isortQdata.qdata a.isortQdata.data
        b1.isortQdata.qdata (b1.isortQdata.data.map (Dense.map (fun x => x * p)))).2 } : Arr α) = _
  rw [mergeBlocks_scale p h0]

/-! ### zero prefactor: the Python variant merges with an operand without blocks -/

theorem mergeGo_nil_right [Zero α] (f : α → α → α) (ka : List (Nat × List Nat × Blk α)) :
    Arr.mergeGo f ka [] = ka.map (fun a => (a.2.1, a.2.2.map (fun x => f x 0))) := by
  induction ka with
  | nil => simp [Arr.mergeGo]
  | cons a as ih => rw [Arr.mergeGo, ih]; rfl

theorem dense_map_id (g : α → α) (hg : ∀ x, g x = x) (d : Dense α) : d.map g = d := by
  cases d
  simp only [Dense.map, Dense.mk.injEq, true_and]
  rw [List.map_congr_left (fun x _ => hg x), List.map_id']

theorem isort_noBlocks (u : Arr α) (hq : u.qdata = []) (hd : u.data = []) :
    u.isortQdata.qdata = [] ∧ u.isortQdata.data = [] := by
  unfold Arr.isortQdata
  split
  · exact ⟨hq, hd⟩
  · split
    · exact ⟨hq, hd⟩
    · rename_i h
      rw [hq] at h
      simp at h

/-- merging with a tensor without blocks only lexsorts `self` (`x + 0 = x`) -/
theorem core_noBlocks [Zero α] [Add α] (hadd : ∀ x : α, x + 0 = x) (a u : Arr α)
    (hlen : a.qdata.length = a.data.length) (hq : u.qdata = []) (hd : u.data = []) :
    core (fun x y => x + y) a u = a.isortQdata := by
  obtain ⟨e1, e2⟩ := isort_noBlocks u hq hd
  have hl := (Arr.isortQdata_perm a hlen).1
  unfold core
  rw [e1, e2]
  have hm : Arr.mergeBlocks (fun x y : α => x + y) a.blockNumbers a.isortQdata.qdata a.isortQdata.data [] []
      = (a.isortQdata.qdata, a.isortQdata.data) := by
    unfold Arr.mergeBlocks
    split
    · rename_i h
      rw [h] at hl
      have : a.isortQdata.data = [] := List.length_eq_zero_iff.1 hl.symm
      rw [h, this]
      rfl
    · simp only [List.zip_nil_right, List.map_nil]
      rw [mergeGo_nil_right]
      simp only [List.map_map]
      congr 1
      · have : ((fun (x : List Nat × Blk α) => x.1) ∘ (fun (a : Nat × List Nat × Blk α) => (a.2.1, a.2.2.map (fun x => x + 0)))
            ∘ (fun (rb : List Nat × Blk α) => (Arr.fKey a.blockNumbers rb.1, rb.1, rb.2))) = Prod.fst := rfl
        rw [this, List.map_fst_zip (Nat.le_of_eq hl)]
      · have : ((fun (x : List Nat × Blk α) => x.2) ∘ (fun (a : Nat × List Nat × Blk α) => (a.2.1, a.2.2.map (fun x => x + 0)))
            ∘ (fun (rb : List Nat × Blk α) => (Arr.fKey a.blockNumbers rb.1, rb.1, rb.2)))
            = (fun (rb : List Nat × Blk α) => rb.2) := by
          funext rb
          exact dense_map_id _ hadd rb.2
        rw [this]
        exact List.map_snd_zip (Nat.le_of_eq hl.symm)
  rw [hm]

end TenpyModel.C04P2
