import TenpyModel.Core.ArrOps
/-!
C04 extension round — the *paired* low-level kernels, each in BOTH of its coded forms.

The Core model (`Core/Charge.lean`, `Core/ArrOps.lean`) describes these helpers by their closed forms
(`makeValid`, `findRowDifferences`, `makeStrideC/F`, `Dense.setBlock ∘ Dense.getBlock` for `_sliced_copy`, …).
Here each helper is written twice, with the loop / branch structure of its two implementations:

  * `…Py`  : the pure-Python fallback of `tenpy/linalg/charges.py` (numpy idioms: masks, `np.mod`, `np.nonzero`,
             `np.concatenate`, slice assignment),
  * `…Cy`  : the compiled twin of `tenpy/linalg/_npc_helper.pyx` (explicit loops over typed buffers, C remainder
             with sign repair, early `break`/`return`, flat memory + strides + `memcpy`).

No Mathlib; total computable functions. What the real code rejects is an explicit `Except KErr _` branch; what is
outside a helper's contract (undefined behaviour in the compiled twin) is a `none`/guard documented at the function.
`PropsExtKernels.lean` proves that the two forms agree on all inputs of the contract and equal the Core closed forms.
-/
namespace TenpyModel.C04Ext
open TenpyModel.Core

/-- class of the Python exception (names as produced by the harness) -/
inductive KErr where
  | valueError | indexError | keyError | assertion | typeError | attributeError
deriving Repr, DecidableEq, BEq

def KErr.name : KErr → String
  | .valueError => "ValueError" | .indexError => "IndexError" | .keyError => "KeyError" | .assertion => "Assertion"
  | .typeError => "TypeError" | .attributeError => "Other:AttributeError"

/-! ## `ChargeInfo.make_valid` (charges.py:266 / _npc_helper.pyx:443-508) -/

/-- one entry, compiled: `q = charges[j] % qm` with `cdivision(True)` (C remainder, truncating), then
`if q < 0: q += qm` ("correct for C-modulo opposed to python modulo"); entries with `qm == 1` untouched. -/
def mvCy1 (qm : Nat) (x : Int) : Int :=
  if qm ≠ 1 then
    let q := Int.tmod x (qm : Int)
    if q < 0 then q + (qm : Int) else q
  else x

/-- one entry, Python: `np.mod(charges[..., mask], mod_masked)` (floored remainder) where `mask = (mod != 1)`. -/
def mvPy1 (qm : Nat) (x : Int) : Int :=
  if qm ≠ 1 then Int.fmod x (qm : Int) else x

/-- `_make_valid_charges_1D`: in-place loop `for j in range(qnumber)` over one charge vector -/
def makeValidCy1D (mods : List Nat) (charges : List Int) : List Int :=
  (List.range mods.length).foldl (fun ch j =>
    let qm := mods.getD j 1
    if qm ≠ 1 then ch.set j (mvCy1 qm (ch.getD j 0)) else ch) charges

/-- `_make_valid_charges_2D`: column loop outside (`for j in range(qnumber)`), row loop inside, in place -/
def makeValidCy2D (mods : List Nat) (charges : List (List Int)) : List (List Int) :=
  (List.range mods.length).foldl (fun ch j =>
    let qm := mods.getD j 1
    if qm ≠ 1 then ch.map (fun row => row.set j (mvCy1 qm (row.getD j 0))) else ch) charges

/-- Python: `charges[..., mask] = np.mod(charges[..., mask], mod_masked)` on one row -/
def makeValidPyRow (mods : List Nat) (row : List Int) : List Int := List.zipWith mvPy1 mods row

/-- the `charges` argument after `np.array(charges, dtype=QTYPE)`: `None`, or an integer array of some dimension -/
inductive ChArg where
  | none
  | d0 (x : Int)
  | d1 (row : List Int)
  | d2 (ncols : Nat) (rows : List (List Int))      -- shape `(rows.length, ncols)`; every row has `ncols` entries
  | dn (ndim : Nat)                                 -- `ndim ≥ 3` (values irrelevant: rejected)
deriving Repr, DecidableEq

inductive ChRes where
  | d1 (row : List Int)
  | d2 (ncols : Nat) (rows : List (List Int))
deriving Repr, DecidableEq

def ChArg.consistent : ChArg → Bool
  | .d2 ncols rows => rows.all (fun r => r.length == ncols)
  | .dn n => decide (3 ≤ n)
  | _ => true

/-- `ChargeInfo_make_valid` (compiled): `None` → zeros; 1D / 2D: `assert shape[-1] == qnumber`, the `qnumber == 0`
early return, the in-place kernels on a copy; any other dimension → `ValueError`. -/
def makeValidCy (mods : List Nat) : ChArg → Except KErr ChRes
  | .none => .ok (.d1 (List.replicate mods.length 0))
  | .d1 row =>
      if row.length ≠ mods.length then .error .assertion
      else if mods.length = 0 then .ok (.d1 (List.replicate mods.length 0))
      else .ok (.d1 (makeValidCy1D mods row))
  | .d2 ncols rows =>
      if ncols ≠ mods.length then .error .assertion
      else if mods.length = 0 then .ok (.d2 mods.length (List.replicate rows.length []))
      else .ok (.d2 ncols (makeValidCy2D mods rows))
  | .d0 _ => .error .valueError
  | .dn _ => .error .valueError

/-- `ChargeInfo.make_valid` (Python, with the argument checks of `pending_fixes/C04-make-valid-arg-checks.diff`:
dimension 1 or 2, last dimension `qnumber` — the unrepaired fallback raises `IndexError` from the boolean mask for a
wrong last dimension and accepts any dimension ≥ 1). -/
def makeValidPy (mods : List Nat) : ChArg → Except KErr ChRes
  | .none => .ok (.d1 (List.replicate mods.length 0))
  | .d0 _ => .error .valueError
  | .dn _ => .error .valueError
  | .d1 row =>
      if row.length ≠ mods.length then .error .assertion else .ok (.d1 (makeValidPyRow mods row))
  | .d2 ncols rows =>
      if ncols ≠ mods.length then .error .assertion else .ok (.d2 ncols (rows.map (makeValidPyRow mods)))

/-! ## `ChargeInfo.check_valid` (charges.py:288 / _npc_helper.pyx:511-540); contract: 2D int64 array with `qnumber` columns -/

/-- compiled: `for j: q = mod[j]; if q == 1: continue; for i: x = charges[i, j]; if x < 0 or x >= q: return False` -/
def checkValidCy (mods : List Nat) (rows : List (List Int)) : Bool :=
  if mods.length = 0 then true else
  (List.range mods.length).all (fun j =>
    let q := mods.getD j 1
    q == 1 || (List.range rows.length).all (fun i =>
      let x := (rows.getD i []).getD j 0
      !(decide (x < 0) || decide (x ≥ (q : Int)))))

/-- Python: `c = charges[..., mask]; np.all(np.logical_and(0 <= c, c < mod_masked))` -/
def checkValidPy (mods : List Nat) (rows : List (List Int)) : Bool :=
  rows.all (fun row => (List.zipWith (fun (m : Nat) (x : Int) => m == 1 || (decide (0 ≤ x) && decide (x < (m : Int)))) mods row).all id)

/-! ## `_find_row_differences` (charges.py:1931 / _npc_helper.pyx:635); contract: 2D int64 array `(L, M)` -/

/-- inner loop of the compiled twin: `rows_equal = True; for j in range(M): if a[j] != b[j]: rows_equal = False; break` -/
def rowsEqualCy (M : Nat) (a b : List Int) : Bool :=
  (List.range M).all (fun j => a.getD j 0 == b.getD j 0)

/-- compiled: `res[0] = 0; n = 1; for i in range(1, L): if not rows_equal: res[n] = i; n += 1; res[n] = L; res[:n+1]`
(the pair (`res[:n]`, `n`) is the growing list) -/
def findRowDiffCy (M : Nat) (rows : List (List Int)) : List Nat :=
  if rows.length = 0 then [0]
  else if M = 0 then [0, rows.length]
  else
    (List.range' 1 (rows.length - 1)).foldl (fun res i =>
      if rowsEqualCy M (rows.getD (i - 1) []) (rows.getD i []) then res else res ++ [i]) [0] ++ [rows.length]

/-- Python: `diff = np.ones(L + 1, bool); diff[1:-1] = np.any(qflat[1:] != qflat[:-1], axis=1); np.nonzero(diff)[0]` -/
def findRowDiffPy (M : Nat) (rows : List (List Int)) : List Nat :=
  if rows.length = 0 then [0]
  else if M = 0 then [0, rows.length]
  else
    let inner := List.zipWith (fun a b => (List.zipWith (fun x y => x != y) a b).any id) rows.tail rows.dropLast
    let diff := true :: (inner ++ [true])
    (List.range (rows.length + 1)).filter (fun i => diff.getD i false)

/-! ## `_map_blocks` (charges.py:1956 / _npc_helper.pyx:734); contract: 1D intp array of sizes ≥ 0 -/

/-- inner loop `for j in range(s, s + N): result[j] = i` -/
def fillRange (res : List Nat) (s N i : Nat) : List Nat :=
  (List.range' s N).foldl (fun r j => r.set j i) res

/-- compiled: first pass sums the sizes, `result = empty(total)`, second pass fills block after block -/
def mapBlocksCy (sizes : List Nat) : List Nat :=
  let total := sizes.foldl (· + ·) 0
  let init := List.replicate total 0          -- `np.empty`: every cell is written below
  ((List.range sizes.length).foldl (fun (st : List Nat × Nat) i =>
      let N := sizes.getD i 0
      (fillRange st.1 st.2 N i, st.2 + N)) (init, 0)).1

/-- Python: `np.concatenate([np.ones(s, np.intp) * i for i, s in enumerate(blocksizes)])`, `[]` for no block -/
def mapBlocksPy (sizes : List Nat) : List Nat :=
  if sizes.length = 0 then [] else
  ((List.range sizes.length).zip sizes).flatMap (fun (p : Nat × Nat) => (List.replicate p.2 1).map (· * p.1))

/-! ## `_make_stride` (charges.py:2008 / _npc_helper.pyx:129) — the two twins are the same loop -/

/-- `res = empty(L)`; C style: `res[L-1] = 1; for a in range(L-1, 0, -1): stride *= shape[a]; res[a-1] = stride`;
F style: `res[0] = 1; for a in range(0, L-1): stride *= shape[a]; res[a+1] = stride`.
`L = 0`: `res[-1]` / `res[0]` of an empty array — `IndexError` in Python, an out-of-bounds write in the unrepaired
compiled twin (`boundscheck(False)`); with `pending_fixes/C04-make-stride-empty-shape.diff` both return `[]`. -/
def makeStrideLoop (shape : List Nat) (cstyle : Bool) : List Nat :=
  let L := shape.length
  if L = 0 then [] else
  let res := List.replicate L 0
  if cstyle then
    ((List.range (L - 1)).foldl (fun (st : List Nat × Nat) t =>
        let a := L - 1 - t                         -- a = L-1, L-2, …, 1
        let stride := st.2 * shape.getD a 0
        (st.1.set (a - 1) stride, stride)) (res.set (L - 1) 1, 1)).1
  else
    ((List.range (L - 1)).foldl (fun (st : List Nat × Nat) a =>
        let stride := st.2 * shape.getD a 0
        (st.1.set (a + 1) stride, stride)) (res.set 0 1, 1)).1

/-! ## `_sliced_copy` (charges.py:1967 / _npc_helper.pyx:368-407, 756-807)

Contract (docstring: "*Assumes* …"): `dest`, `src` C-contiguous, same `ndim ≥ 1`, slices inside both arrays.
Memory is the flat row-major value list; strides in units of elements (`width` = one element). -/

variable {α : Type}

/-- `memcpy(&dest[doff], &src[soff], n * width)`: element after element (cells outside either buffer are skipped —
undefined behaviour in C, never reached inside the contract) -/
def memcpy (dest : List α) (doff : Nat) (src : List α) (soff n : Nat) : List α :=
  (List.range n).foldl (fun d t =>
    match src[soff + t]? with
    | some v => d.set (doff + t) v
    | none => d) dest

/-- `_sliced_strided_copy(dest_data, dest_strides, src_data, src_strides, slice_shape, ndim, width)` with
`dest_strides = &dstr[a]`, `src_strides = &sstr[a]`, `slice_shape` = the list argument, `dest_data = &dest[doff]`,
`src_data = &src[soff]`: unrolled for 1, 2, 3 dimensions, three dimensions per recursion step from 4 on.
The innermost dimension is copied with one `memcpy` of `l * width` bytes — its stride is NOT used. -/
def sscCy (dstr sstr : List Nat) (src : List α) : (shape : List Nat) → (a : Nat) → (dest : List α) → (doff soff : Nat) → List α
  | [], _, dest, _, _ => dest                                            -- `if ndim < 1: return`
  | [l0], _, dest, doff, soff => memcpy dest doff src soff l0             -- `ndim == 1`
  | [l0, l1], a, dest, doff, soff =>                                      -- `ndim == 2`
      let d0 := dstr.getD a 0; let s0 := sstr.getD a 0
      (List.range l0).foldl (fun dest i => memcpy dest (doff + i * d0) src (soff + i * s0) l1) dest
  | [l0, l1, l2], a, dest, doff, soff =>                                  -- `ndim == 3`
      let d0 := dstr.getD a 0; let s0 := sstr.getD a 0
      let d1 := dstr.getD (a + 1) 0; let s1 := sstr.getD (a + 1) 0
      (List.range l0).foldl (fun dest i =>
        (List.range l1).foldl (fun dest j =>
          memcpy dest (doff + i * d0 + j * d1) src (soff + i * s0 + j * s1) l2) dest) dest
  | l0 :: l1 :: l2 :: l3 :: ls, a, dest, doff, soff =>                    -- `ndim >= 4`: recursion, 3 dimensions at once
      let d0 := dstr.getD a 0; let s0 := sstr.getD a 0
      let d1 := dstr.getD (a + 1) 0; let s1 := sstr.getD (a + 1) 0
      let d2 := dstr.getD (a + 2) 0; let s2 := sstr.getD (a + 2) 0
      (List.range l0).foldl (fun dest i =>
        (List.range l1).foldl (fun dest j =>
          (List.range l2).foldl (fun dest k =>
            sscCy dstr sstr src (l3 :: ls) (a + 3) dest (doff + i * d0 + j * d1 + k * d2)
              (soff + i * s0 + j * s1 + k * s2)) dest) dest) dest

/-- the same copy, one dimension per recursion step (reference form of the recursion; not in the code) -/
def ssc1 (dstr sstr : List Nat) (src : List α) : (shape : List Nat) → (a : Nat) → (dest : List α) → (doff soff : Nat) → List α
  | [], _, dest, _, _ => dest
  | [l0], _, dest, doff, soff => memcpy dest doff src soff l0
  | l0 :: l1 :: ls, a, dest, doff, soff =>
      (List.range l0).foldl (fun dest i =>
        ssc1 dstr sstr src (l1 :: ls) (a + 1) dest (doff + i * dstr.getD a 0) (soff + i * sstr.getD a 0)) dest

/-- the slices lie inside the arrays -/
def sliceOK (shape beg sl : List Nat) : Bool :=
  beg.length == shape.length && sl.length == shape.length &&
    (List.zipWith (fun (p : Nat × Nat) n => decide (p.1 + p.2 ≤ n)) (beg.zip sl) shape).all id

/-- `_sliced_copy(dest, dest_beg, src, src_beg, slice_shape)` (compiled): offsets `Σ beg[i] * strides[i]` added to the
data pointers (`None` = no offset), then `_sliced_strided_copy`. Arrays are C-contiguous: strides = `Dense.strides shape`.
Result: the new memory of `dest`; `none` = outside the contract (different `ndim`, slice outside an array, wrong number
of values). -/
def slicedCopyCy (dest : Dense α) (dbeg : Option (List Nat)) (src : Dense α) (sbeg : Option (List Nat))
    (sl : List Nat) : Option (Dense α) :=
  let db := dbeg.getD (List.replicate dest.shape.length 0)
  let sb := sbeg.getD (List.replicate dest.shape.length 0)
  if dest.shape.length == src.shape.length && sliceOK dest.shape db sl && sliceOK src.shape sb sl
      && dest.vals.length == Dense.prod dest.shape && src.vals.length == Dense.prod src.shape then
    let dstr := Dense.strides dest.shape
    let sstr := Dense.strides src.shape
    some ⟨dest.shape, sscCy dstr sstr src.vals sl 0 dest.vals (dot db dstr) (dot sb sstr)⟩
  else none

/-- `_sliced_copy` (Python): `dest[dst_sl] = src[src_sl]` with `dst_sl = (slice(i, i + d) …)` -/
def slicedCopyPy [Zero α] (dest : Dense α) (dbeg : Option (List Nat)) (src : Dense α) (sbeg : Option (List Nat))
    (sl : List Nat) : Option (Dense α) :=
  let db := dbeg.getD (List.replicate dest.shape.length 0)
  let sb := sbeg.getD (List.replicate dest.shape.length 0)
  if dest.shape.length == src.shape.length && sliceOK dest.shape db sl && sliceOK src.shape sb sl
      && dest.vals.length == Dense.prod dest.shape && src.vals.length == Dense.prod src.shape then
    some (dest.setBlock db (src.getBlock sb sl))
  else none

end TenpyModel.C04Ext
