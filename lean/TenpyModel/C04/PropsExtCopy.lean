import TenpyModel.C04.ExtCopyProofs
/-!
C04 extension round — property theorems about `_sliced_copy` (the block copy inside `combine_legs` / `split_legs`):
the compiled twin (`_sliced_strided_copy`: flat memory, strides, pointer offsets, `memcpy` of the innermost dimension,
1/2/3 dimensions unrolled, three dimensions per recursion step from 4 on) and the Python twin (`dest[dst_sl] = src[src_sl]`)
are the same function on every input of the contract, for every number of dimensions ≥ 1.
-/
open TenpyModel.Core TenpyModel.C01B TenpyModel.C04Ext

/-- The unrolling of the compiled recursion is sound for EVERY number of dimensions, all strides, offsets and memories
(also outside the contract): the code's form — special cases for 1, 2, 3 dimensions, and from 4 dimensions on three
nested loops around a recursive call on `&strides[3]`, `&shape[3]` — performs the same writes as the plain
one-dimension-per-step recursion. (A slip in the ≥ 4-dimensional branch — the seeded defect C04-a — falsifies this.) -/
theorem C04_slicedCopy_unrolled_eq_generic {α : Type} (dstr sstr : List Nat) (src : List α) (shape : List Nat)
    (a : Nat) (dest : List α) (doff soff : Nat) :
    sscCy dstr sstr src shape a dest doff soff = ssc1 dstr sstr src shape a dest doff soff :=
  sscCy_eq_ssc1 dstr sstr src shape a dest doff soff

example : sscCy [24, 12, 4, 2, 1] [8, 4, 2, 1, 1] ((List.range 16).map Int.ofNat) [2, 2, 2, 2, 1] 0
      (List.replicate 48 (-1)) 5 0
    = ssc1 [24, 12, 4, 2, 1] [8, 4, 2, 1, 1] ((List.range 16).map Int.ofNat) [2, 2, 2, 2, 1] 0 (List.replicate 48 (-1)) 5 0 :=
  C04_slicedCopy_unrolled_eq_generic _ _ _ _ _ _ _ _

/-- Kernel equivalence of `_sliced_copy`: for C-contiguous arrays of any shapes and any number of dimensions ≥ 1, any
start offsets (or `None`) and any slice shape, the compiled twin and the Python twin reject the same calls (slice outside
an array, different `ndim`) and otherwise leave the same array in `dest`. -/
theorem C04_slicedCopy_kernels_agree {α : Type} [Zero α] (dest src : Dense α) (dbeg sbeg : Option (List Nat))
    (sl : List Nat) (hne : sl ≠ []) :
    slicedCopyCy dest dbeg src sbeg sl = slicedCopyPy dest dbeg src sbeg sl :=
  slicedCopy_agree dest src dbeg sbeg sl hne

/-- non-vacuity: a 5-dimensional copy (the recursive branch) that really writes -/
example : (slicedCopyCy (⟨[2, 3, 3, 2, 4], List.replicate 144 (-1)⟩ : Dense Int) (some [0, 1, 1, 0, 1])
      ⟨[2, 3, 2, 2, 3], (List.range 72).map Int.ofNat⟩ none [2, 2, 2, 2, 3]).map (fun d => d.vals.take 40)
    = some ([-1, -1, -1, -1, -1, -1, -1, -1, -1, -1, -1, -1, -1, -1, -1, -1, -1, -1, -1, -1, -1, -1, -1, -1, -1, -1, -1,
      -1, -1, -1, -1, -1, -1, 0, 1, 2, -1, 3, 4, 5]) := by decide +kernel

/-- What a caller relies on, cell by cell: after the compiled copy the cell `idx` of `dest` holds
`src[sbeg + (idx - dbeg)]` if `idx` lies in the slice `[dbeg, dbeg + sl)` and its old value otherwise; the shape and the
number of stored values do not change. -/
theorem C04_slicedCopy_cells {α : Type} [Zero α] (dest src r : Dense α) (dbeg sbeg : Option (List Nat))
    (sl : List Nat) (hne : sl ≠ []) (h : slicedCopyCy dest dbeg src sbeg sl = some r) :
    r.shape = dest.shape ∧ r.vals.length = dest.vals.length ∧
    ∀ idx, InRange idx dest.shape →
      r.get 0 idx =
        if sbCond (dbeg.getD (List.replicate dest.shape.length 0)) sl idx = true
        then src.get 0 (vadd (sbeg.getD (List.replicate dest.shape.length 0))
              (List.zipWith (fun i s => i - s) idx (dbeg.getD (List.replicate dest.shape.length 0))))
        else dest.get 0 idx := by
  have hcy := h
  unfold slicedCopyCy at hcy
  simp only [] at hcy
  split at hcy
  case isFalse => exact absurd hcy (by simp)
  case isTrue hc =>
    simp only [Bool.and_eq_true, beq_iff_eq] at hc
    obtain ⟨⟨⟨⟨_, hfd⟩, hfs⟩, hgd⟩, hgs⟩ := hc
    rw [sliceOK_iff] at hfd hfs
    rw [prod_eq] at hgd hgs
    have hr := (Option.some.inj hcy).symm
    refine ⟨by rw [hr], by rw [hr]; exact length_sscCy _ _ _ _ _ _ _ _, ?_⟩
    intro idx hi
    have hL : ∀ vals : List α, Dense.get 0 (Dense.mk dest.shape vals) idx = vals.getD (dot idx (makeStrideC dest.shape)) 0 :=
      fun vals => get_inRange 0 (Dense.mk dest.shape vals) idx hi
    rw [hr, hL, List.getD_eq_getElem?_getD]
    simp only [strides_eq]
    rw [sscCy_get dest.shape src.shape _ _ sl dest.vals src.vals hne hfd hfs hgd hgs idx hi]
    have hiff := sbCond_iff (dbeg.getD (List.replicate dest.shape.length 0)) sl idx (by rw [hfd.length.1, hfd.length.2])
    by_cases hb' : sbCond (dbeg.getD (List.replicate dest.shape.length 0)) sl idx = true
    · rw [if_pos hb', if_pos hb']
      obtain ⟨hjr, _⟩ := (hiff.1 hb').sub
      rw [get_inRange 0 src _ (vadd_inRange hfs hjr), List.getD_eq_getElem?_getD]
    · rw [if_neg hb', if_neg hb', get_inRange 0 dest idx hi, List.getD_eq_getElem?_getD]

example : ∃ r, slicedCopyCy (⟨[2, 3], [0, 0, 0, 0, 0, 0]⟩ : Dense Int) (some [0, 1]) ⟨[2, 2], [1, 2, 3, 4]⟩ none [2, 2] = some r
    ∧ r.get 0 [1, 2] = 4 ∧ r.get 0 [1, 0] = 0 := ⟨_, rfl, by decide, by decide⟩

/-- The hypothesis `ndim ≥ 1` is needed — and the model is faithful to the code there: on 0-dimensional arrays the
compiled twin returns at once (`if ndim < 1: return`) while the Python twin copies the scalar (`dest[()] = src[()]`).
(Observed on the real kernels; tensors always have rank ≥ 1, so no caller gets there.) -/
theorem C04_slicedCopy_zero_dim_counterexample :
    slicedCopyCy (⟨[], [5]⟩ : Dense Int) none ⟨[], [7]⟩ none [] = some ⟨[], [5]⟩ ∧
    slicedCopyPy (⟨[], [5]⟩ : Dense Int) none ⟨[], [7]⟩ none [] = some ⟨[], [7]⟩ := by
  constructor <;> decide

example : slicedCopyCy (⟨[], [5]⟩ : Dense Int) none ⟨[], [7]⟩ none [] ≠ slicedCopyPy (⟨[], [5]⟩ : Dense Int) none ⟨[], [7]⟩ none [] := by
  decide
