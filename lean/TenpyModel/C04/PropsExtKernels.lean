import TenpyModel.C04.ExtKernelsProofs
/-!
C04 extension round — property theorems for the *paired* low-level kernels
(`tenpy/linalg/charges.py` pure-Python fallbacks vs `tenpy/linalg/_npc_helper.pyx` compiled twins):
`make_valid`, `check_valid`, `_find_row_differences`, `_map_blocks`, `_make_stride`.
Both coded forms agree on every input of the contract and equal the Core closed forms.
Proofs of the helper lemmas: `ExtKernelsProofs.lean`. Each theorem is followed by a non-vacuity example.
-/
open TenpyModel.Core TenpyModel.C04Ext

/-- One entry of `ChargeInfo.make_valid`: the sign repair of the C remainder (`cdivision(True)`, then
`if q < 0: q += qm`) is Python's floored modulo, and both are the Core closed form `mv1` (`x % m`, `x` for `m = 1`).
A user relies on: a negative charge is mapped into `[0, mod)` in the same way with and without the compiled module. -/
theorem C04_makeValid_entry_kernels_agree (qm : Nat) (h : 1 ≤ qm) (x : Int) :
    mvCy1 qm x = mvPy1 qm x ∧ mvPy1 qm x = mv1 qm x :=
  have _ := h
  ⟨mvCy1_eq_mvPy1 qm x, mvPy1_eq_mv1 qm x⟩

example : mvCy1 3 (-7) = 2 ∧ mvPy1 3 (-7) = 2 ∧ mv1 3 (-7) = 2 ∧ Int.tmod (-7) 3 = -1 := by decide
example : mvCy1 3 (-7) = mvPy1 3 (-7) ∧ mvPy1 3 (-7) = mv1 3 (-7) :=
  C04_makeValid_entry_kernels_agree 3 (by decide) (-7)

/-- `ChargeInfo.make_valid`: the compiled and the (repaired) Python twin return the same value or raise the same
error class on every argument: `None`, 0-d, 1-d, 2-d (also with no rows / no charges), higher-d.
A user relies on: switching the compiled module on or off never changes a charge array or the kind of failure. -/
theorem C04_makeValid_kernels_agree (mods : List Nat) (h : ModsOK mods) (arg : ChArg) (hc : arg.consistent = true) :
    makeValidCy mods arg = makeValidPy mods arg :=
  have _ := h
  makeValidCy_eq_py mods arg hc

example : makeValidCy [1, 3, 2] (.d2 3 [[-5, -7, 3], [4, 5, -1]]) = .ok (.d2 3 [[-5, 2, 1], [4, 2, 1]]) ∧
    makeValidPy [1, 3, 2] (.d2 3 [[-5, -7, 3], [4, 5, -1]]) = .ok (.d2 3 [[-5, 2, 1], [4, 2, 1]]) := ⟨rfl, rfl⟩
example : makeValidCy [1, 3] (.d1 [1]) = .error .assertion ∧ makeValidPy [1, 3] (.d0 4) = .error .valueError ∧
    makeValidCy [] (.d2 0 [[], []]) = .ok (.d2 0 [[], []]) ∧ makeValidPy [2] .none = .ok (.d1 [0]) := ⟨rfl, rfl, rfl, rfl⟩
example : makeValidCy [1, 3, 2] (.d2 3 [[-5, -7, 3], [4, 5, -1]]) = makeValidPy [1, 3, 2] (.d2 3 [[-5, -7, 3], [4, 5, -1]]) :=
  C04_makeValid_kernels_agree _ (by intro m hm; simp at hm; omega) _ (by decide)

/-- `make_valid` on a 1-d / 2-d array is the Core closed form `makeValid` row by row (in both kernels, by the
previous theorem). A user relies on: everything proved about `makeValid` in the Core model holds for the real kernels. -/
theorem C04_makeValid_refines_core (mods : List Nat) (h : ModsOK mods) :
    (∀ row, row.length = mods.length → makeValidCy mods (.d1 row) = .ok (.d1 (makeValid mods row))) ∧
    (∀ rows, (∀ r ∈ rows, r.length = mods.length) →
      makeValidCy mods (.d2 mods.length rows) = .ok (.d2 mods.length (rows.map (makeValid mods)))) :=
  have _ := h
  ⟨makeValidCy_d1_core mods, makeValidCy_d2_core mods⟩

example : makeValidCy [1, 3, 2] (.d1 [-5, -7, 3]) = .ok (.d1 (makeValid [1, 3, 2] [-5, -7, 3])) ∧
    makeValid [1, 3, 2] [-5, -7, 3] = [-5, 2, 1] := ⟨rfl, rfl⟩
example : makeValidCy [1, 3] (.d2 2 [[-5, -7], [9, 9]]) = .ok (.d2 2 ([[-5, -7], [9, 9]].map (makeValid [1, 3]))) :=
  (C04_makeValid_refines_core [1, 3] (by intro m hm; simp at hm; omega)).2 _ (by intro r hr; simp at hr; rcases hr with rfl | rfl <;> rfl)

/-- What either kernel's `make_valid` returns is accepted by both kernels' `check_valid`.
A user relies on: `make_valid` output never fails the `test_sanity` charge check. -/
theorem C04_makeValid_result_valid (mods : List Nat) (h : ModsOK mods) (rows : List (List Int))
    (hc : ∀ r ∈ rows, r.length = mods.length) :
    checkValidCy mods (rows.map (makeValid mods)) = true ∧ checkValidPy mods (rows.map (makeValid mods)) = true :=
  ⟨checkValidCy_makeValid mods h rows hc, checkValidPy_makeValid mods h rows hc⟩

example : checkValidCy [1, 3, 2] ([[-5, -7, 3], [4, 5, -1]].map (makeValid [1, 3, 2])) = true ∧
    checkValidCy [1, 3, 2] [[-5, -7, 3]] = false ∧ checkValidPy [1, 3, 2] [[-5, 2, 2]] = false := by decide

/-- `ChargeInfo.check_valid`: the compiled column-major loop with early `return False` equals the Python masked
`np.all`, and both are the Core closed form `checkValid` on every row.
A user relies on: the same charge arrays are accepted / rejected with and without the compiled module. -/
theorem C04_checkValid_kernels_agree (mods : List Nat) (rows : List (List Int)) (hc : ∀ r ∈ rows, r.length = mods.length) :
    checkValidCy mods rows = checkValidPy mods rows ∧ checkValidPy mods rows = rows.all (checkValid mods) :=
  ⟨checkValidCy_eq_py mods rows hc, checkValidPy_eq_core mods rows hc⟩

example : checkValidCy [1, 3] [[-4, 2], [7, 0]] = true ∧ checkValidPy [1, 3] [[-4, 2], [7, 0]] = true ∧
    checkValidCy [1, 3] [[-4, 2], [7, 3]] = false ∧ checkValidPy [1, 3] [[-4, 2], [7, 3]] = false ∧
    [[-4, 2], [7, -1]].all (checkValid [1, 3]) = false ∧ checkValidCy [1, 3] [[-4, 2], [7, -1]] = false := by decide

/-- `_find_row_differences`: the compiled loop with `break` equals the Python mask / `np.nonzero` form, and both are
the Core closed form `findRowDifferences`.
A user relies on: block boundaries of sorted charge arrays are the same with and without the compiled module. -/
theorem C04_findRowDifferences_kernels_agree (M : Nat) (rows : List (List Int)) (hc : ∀ r ∈ rows, r.length = M) :
    findRowDiffCy M rows = findRowDiffPy M rows ∧ findRowDiffPy M rows = findRowDifferences M rows := by
  by_cases hne : rows = []
  · subst hne; exact ⟨rfl, rfl⟩
  · rw [findRowDiffCy_doc M rows hc hne, findRowDiffPy_doc M rows hc hne, findRowDifferences_doc M rows hc hne]
    exact ⟨rfl, rfl⟩

example : findRowDiffCy 2 [[0, 1], [0, 1], [0, 2], [1, 2], [1, 2]] = [0, 2, 3, 5] ∧
    findRowDiffPy 2 [[0, 1], [0, 1], [0, 2], [1, 2], [1, 2]] = [0, 2, 3, 5] ∧
    findRowDifferences 2 [[0, 1], [0, 1], [0, 2], [1, 2], [1, 2]] = [0, 2, 3, 5] ∧
    findRowDiffCy 0 [[], [], []] = [0, 3] ∧ findRowDiffPy 3 [] = [0] := by decide

/-- `_find_row_differences` returns the docstring formula: `0`, then every `i` with `rows[i-1] ≠ rows[i]`, then `L`.
A user relies on: consecutive entries delimit exactly the maximal runs of equal rows. -/
theorem C04_findRowDifferences_docstring (M : Nat) (rows : List (List Int)) (hc : ∀ r ∈ rows, r.length = M) (hne : rows ≠ []) :
    findRowDiffCy M rows = [0] ++ (List.range' 1 (rows.length - 1)).filter (fun i => decide (rows.getD (i - 1) [] ≠ rows.getD i [])) ++ [rows.length] :=
  findRowDiffCy_doc M rows hc hne

example : [0] ++ (List.range' 1 (5 - 1)).filter (fun i => decide (([[0, 1], [0, 1], [0, 2], [1, 2], [1, 2]] : List (List Int)).getD (i - 1) [] ≠
    ([[0, 1], [0, 1], [0, 2], [1, 2], [1, 2]] : List (List Int)).getD i [])) ++ [5] = [0, 2, 3, 5] := by decide

/-- `_map_blocks`: the compiled two-pass fill loop equals the Python `np.concatenate` of constant blocks.
A user relies on: the index → block-number map is the same with and without the compiled module. -/
theorem C04_mapBlocks_kernels_agree (sizes : List Nat) : mapBlocksCy sizes = mapBlocksPy sizes := by
  rw [mapBlocksCy_blocks, mapBlocksPy_blocks]

example : mapBlocksCy [2, 0, 3, 1] = [0, 0, 2, 2, 2, 3] ∧ mapBlocksPy [2, 0, 3, 1] = [0, 0, 2, 2, 2, 3] ∧
    mapBlocksCy [] = [] ∧ mapBlocksPy [] = [] := by decide

/-- `_map_blocks` is block `i` repeated `sizes[i]` times, in order; its length is the sum of the sizes.
A user relies on: entry `j` is the number of the block containing index `j`. -/
theorem C04_mapBlocks_spec (sizes : List Nat) :
    mapBlocksPy sizes = ((List.range sizes.length).zip sizes).flatMap (fun p => List.replicate p.2 p.1) ∧
    (mapBlocksPy sizes).length = sizes.sum :=
  ⟨mapBlocksPy_eq sizes, mapBlocksPy_length sizes⟩

example : ((List.range 4).zip [2, 0, 3, 1]).flatMap (fun p => List.replicate p.2 p.1) = [0, 0, 2, 2, 2, 3] ∧
    (mapBlocksPy [2, 0, 3, 1]).length = 6 := by decide

/-- `_make_stride`: the index-writing loops (both twins are the same loop) compute the row-major (`cstyle=True`) and
column-major (`cstyle=False`) strides of the Core closed forms, for every non-empty shape.
A user relies on: flat indices computed with these strides enumerate the charge-sector grid in C / F order. -/
theorem C04_makeStride_closed_form (shape : List Nat) (h : shape ≠ []) :
    makeStrideLoop shape true = makeStrideC shape ∧ makeStrideLoop shape false = makeStrideF shape :=
  ⟨makeStrideLoop_C shape h, makeStrideLoop_F shape h⟩

example : makeStrideLoop [2, 3, 4] true = [12, 4, 1] ∧ makeStrideLoop [2, 3, 4] false = [1, 2, 6] ∧
    makeStrideC [2, 3, 4] = [12, 4, 1] ∧ makeStrideF [2, 3, 4] = [1, 2, 6] ∧ makeStrideLoop [5] true = [1] := by decide
