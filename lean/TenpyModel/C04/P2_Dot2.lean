import TenpyModel.C04.P2_Dot1
/-!
C04 part 2 — `tensordot`, step 2: the two sorting sub-routines produce the *same* lists for operands with the same
kernel-independent content — `_inner_worker` (F-keys sorted unless the truthful claim says so) and
`_tensordot_pre_worker` (`Sorted3` lists are unique) — hence `_inner_worker` returns the same scalar and
`_tensordot_worker` the same tensor.
-/
namespace TenpyModel.C04P2
open TenpyModel.Core TenpyModel.C01B TenpyModel.C01B2

variable {α : Type}

theorem nodup_map_inj {β γ} (f : β → γ) (L : List β) (hnd : (L.map f).Nodup) (x y : β) (hx : x ∈ L) (hy : y ∈ L)
    (e : f x = f y) : x = y := by
  induction L with
  | nil => simp at hx
  | cons z L ih =>
    simp only [List.map_cons, List.nodup_cons, List.mem_map, not_exists, not_and] at hnd
    rcases List.mem_cons.1 hx with rfl | hx' <;> rcases List.mem_cons.1 hy with rfl | hy'
    · rfl
    · exact absurd e.symm (hnd.1 y hy')
    · exact absurd e (hnd.1 x hx')
    · exact ih hnd.2 hx' hy'

/-! ### keyed block lists of `_inner_worker` -/

/-- strictly key-sorted lists with the same elements are equal -/
theorem keyed_unique {β} (L L' : List (Nat × β)) (hp : L.Perm L') (hs : (L.map (·.1)).Pairwise (· < ·))
    (hs' : (L'.map (·.1)).Pairwise (· < ·)) : L = L' := by
  rw [List.pairwise_map] at hs hs'
  refine List.Perm.eq_of_pairwise (le := fun (x y : Nat × β) => x.1 < y.1) ?_ hs hs' hp
  intro a b _ _ hab hba
  omega

theorem keyed_keq (x x' : Arr α) (hx : x.WF) (hx' : x'.WF) (h : KEq x x') :
    keyed x.blockNumbers x = keyed x.blockNumbers x' := by
  apply keyed_unique
  · refine (keyed_perm _ x).trans (List.Perm.trans ?_ (keyed_perm _ x').symm)
    exact h.2.2.2.2.map _
  · exact keyed_sorted x (W.of hx)
  · rw [h.blockNumbers]
    exact keyed_sorted x' (W.of hx')

theorem innerWorker_def [Add α] [Mul α] [Zero α] (a b : Arr α) :
    Arr.innerWorker id a b false
      = if makeValid a.mods (cadd b.qtotal a.qtotal) ≠ czero a.mods.length then (0 : α)
        else if a.storedBlocks = 0 ∨ b.storedBlocks = 0 then 0
        else Dense.sum ((Arr.commonSorted (keyed a.blockNumbers a) (keyed a.blockNumbers b)).map
          (fun (p : Blk α × Blk α) => Dense.inner p.1 p.2)) := rfl

/-- `_inner_worker` (as called by a full contraction) on operands with the same content -/
theorem innerWorker_respects [Add α] [Mul α] [Zero α] (a a' b b' : Arr α) (ha : a.WF) (ha' : a'.WF) (hb : b.WF)
    (hb' : b'.WF) (ka : KEq a a') (kb : KEq b b') (hbn : a.blockNumbers = b.blockNumbers) :
    Arr.innerWorker id a b false = Arr.innerWorker id a' b' false := by
  rw [innerWorker_def, innerWorker_def, ← ka.1, ← ka.2.2.2.1, ← kb.2.2.2.1, ← ka.storedBlocks ha ha',
    ← kb.storedBlocks hb hb', ← ka.blockNumbers, ← keyed_keq a a' ha ha' ka]
  have : keyed a.blockNumbers b' = keyed a.blockNumbers b := by
    rw [hbn]
    exact (keyed_keq b b' hb hb' kb).symm
  rw [this]

/-! ### the sorted triple lists of `_tensordot_pre_worker` -/

theorem sorted3_unique {β} (cut : Nat) (L L' : List (List Nat × Nat × β)) (h : Sorted3 cut L) (h' : Sorted3 cut L')
    (hp : L.Perm L') : L = L' := by
  refine List.Perm.eq_of_pairwise (le := fun (x y : List Nat × Nat × β) =>
    lexLE ((nkey x).map Int.ofNat) ((nkey y).map Int.ofNat) = true) ?_ h.sorted h'.sorted hp
  intro x y hx hy hxy hyx
  have e : nkey x = nkey y := ofNat_map_inj _ _ (lexLE_antisymm _ _ hxy hyx)
  unfold nkey at e
  simp only [List.cons.injEq] at e
  exact nodup_map_inj (fun x : List Nat × Nat × β => (x.1, x.2.1)) L h.nodup x y hx (hp.mem_iff.2 hy)
    (by simp only [Prod.mk.injEq]; exact ⟨e.2, e.1⟩)

section worker
variable [CommSemiring α]
set_option linter.unusedSectionVars false

theorem cbn_keq (a a' : Arr α) (k : Nat) (ka : KEq a a') : cbn a k = cbn a' k := by
  unfold cbn
  rw [ka.lcs, ka.rank]

theorem aRows_keq (a a' b b' : Arr α) (k : Nat) (h : DotHyp a b k) (h' : DotHyp a' b' k) (ka : KEq a a') :
    sortRows (aRows0 a k (cbn a k)) = sortRows (aRows0 a' k (cbn a' k)) := by
  obtain ⟨s, p⟩ := aRows_sorted3 a b k h
  obtain ⟨s', p'⟩ := aRows_sorted3 a' b' k h'
  rw [← ka.rank] at s'
  apply sorted3_unique _ _ _ s s'
  refine p.trans (List.Perm.trans ?_ p'.symm)
  unfold aRows0
  rw [← cbn_keq a a' k ka, ← ka.rank]
  exact ka.2.2.2.2.map _

theorem bRows_keq (a a' b b' : Arr α) (k : Nat) (h : DotHyp a b k) (h' : DotHyp a' b' k) (ka : KEq a a')
    (kb : KEq b b') : bRowsS b k (cbn a k) = bRowsS b' k (cbn a' k) := by
  obtain ⟨s, p⟩ := bRows_sorted3 a b k h
  obtain ⟨s', p'⟩ := bRows_sorted3 a' b' k h'
  rw [← kb.rank] at s'
  apply sorted3_unique _ _ _ s s'
  refine p.trans (List.Perm.trans ?_ p'.symm)
  unfold bRows0
  rw [← cbn_keq a a' k ka]
  exact kb.2.2.2.2.map _

theorem outOf_frame (a a' b b' : Arr α) (k : Nat) (ka : KEq a a') (kb : KEq b b') :
    outOf a b k = outOf a' b' k := by
  funext aG bG
  unfold outOf phi okPair
  rw [← ka.1, ← ka.lcs, ← kb.lcs, ← ka.rank, ← ka.2.2.2.1, ← kb.2.2.2.1]

/-- **`_tensordot_worker` returns the same tensor** for operands with the same kernel-independent content (the block
lists are sorted first; sorted lists are unique; the cached claim of `b` is only trusted when truthful) -/
theorem worker_respects (a a' b b' : Arr α) (k : Nat) (h : DotHyp a b k) (h' : DotHyp a' b' k) (ka : KEq a a')
    (kb : KEq b b') : Arr.tensordotWorker a b k = Arr.tensordotWorker a' b' k := by
  cases hz : (Arr.zeros a.mods (a.legs.take (a.rank - k) ++ b.legs.drop k)
      (some (makeValid a.mods (cadd a.qtotal b.qtotal))) none : Except Err (Arr α)) with
  | error e =>
    have hz' := hz
    rw [ka.1, ka.2.1, kb.2.1, ka.rank, ka.2.2.2.1, kb.2.2.2.1] at hz'
    unfold Arr.tensordotWorker
    simp only [bind, Except.bind, hz, hz']
  | ok res =>
    have hz' := hz
    rw [ka.1, ka.2.1, kb.2.1, ka.rank, ka.2.2.2.1, kb.2.2.2.1] at hz'
    rw [worker_def a b res k hz, worker_def a' b' res k hz', rawOut_eq, rawOut_eq, aRows_keq a a' b b' k h h' ka,
      bRows_keq a a' b b' k h h' ka kb, outOf_frame a a' b b' k ka kb]

end worker
end TenpyModel.C04P2
