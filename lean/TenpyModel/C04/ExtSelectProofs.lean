import TenpyModel.C04.ExtSelect
/-!
Helper lemmas for the properties of `tenpy/tools/optimization.py` (model: `TenpyModel.C04.ExtSelect`).
-/
namespace TenpyModel.C04Ext

/-! ## `use_cython` -/

/-- the pair (`have_cython_functions`, warning issued) a call of the decorator works with -/
def selHv (env : SelEnv) (st : SelState) : Bool × Bool :=
  match st.hv with
  | some b => (b, false)
  | none => decide1 env st.level

/-- the state after a call of the decorator -/
def selSt (env : SelEnv) (st : SelState) : SelState :=
  match st.hv with
  | some _ => st
  | none => { st with hv := some (selHv env st).1, table := if (selHv env st).1 then env.table else st.table }

/-- what the decorator returns once compiled kernels are selected -/
def lookupRes (table : List (String × Option (List String))) (d : Deco) : Except KErr Sel :=
  match table.lookup (d.replacement.getD d.name) with
  | none => .error .valueError
  | some cdoc =>
    if d.checkDoc then
      match cdoc with
      | none => .error .attributeError
      | some cd =>
        if d.doc ≠ some cd ∧ d.doc ≠ some (dropSignature cd) then .error .valueError
        else .ok (.cy (d.replacement.getD d.name))
    else .ok (.cy (d.replacement.getD d.name))

theorem useCython_eq (env : SelEnv) (st : SelState) (d : Deco) :
    useCython env st d =
      (selSt env st, (if (selHv env st).1 then lookupRes (selSt env st).table d else .ok .py), (selHv env st).2) := by
  have key : ∀ (p : Bool × Bool) (f : Bool → SelState),
      (match p with
        | (hv, warned) =>
          let st' : SelState := f hv
          if !hv then (st', Except.ok Sel.py, warned) else
          let name := d.replacement.getD d.name
          match st'.table.lookup name with
          | none => (st', Except.error KErr.valueError, warned)
          | some cdoc =>
            if d.checkDoc then
              match cdoc with
              | none => (st', Except.error KErr.attributeError, warned)
              | some cd =>
                if d.doc ≠ some cd ∧ d.doc ≠ some (dropSignature cd) then (st', .error .valueError, warned)
                else (st', .ok (.cy name), warned)
            else (st', .ok (.cy name), warned)) =
      (f p.1, (if p.1 then lookupRes (f p.1).table d else .ok .py), p.2) := by
    intro p f
    unfold lookupRes
    obtain ⟨hv, w⟩ := p
    cases hv
    · simp
    · simp only [Bool.not_true, Bool.false_eq_true, if_false, if_true]
      split
      · rfl
      · split
        · split
          · rfl
          · split <;> rfl
        · rfl
  exact key (selHv env st) (fun hv => match st.hv with
    | some _ => st
    | none => { st with hv := some hv, table := if hv then env.table else st.table })

theorem selHv_of_some {env : SelEnv} {st : SelState} {b : Bool} (h : st.hv = some b) :
    selHv env st = (b, false) := by
  unfold selHv; rw [h]

theorem selSt_of_some {env : SelEnv} {st : SelState} {b : Bool} (h : st.hv = some b) :
    selSt env st = st := by
  unfold selSt; rw [h]

theorem selSt_hv (env : SelEnv) (st : SelState) : (selSt env st).hv = some (selHv env st).1 := by
  unfold selSt
  split
  · next b hb => rw [selHv_of_some hb, hb]
  · rfl

theorem selSt_table_of_none {env : SelEnv} {st : SelState} (h : st.hv = none) :
    (selSt env st).table = if (selHv env st).1 then env.table else st.table := by
  unfold selSt; rw [h]

theorem useCython_st (env : SelEnv) (st : SelState) (d : Deco) : (useCython env st d).1 = selSt env st := by
  rw [useCython_eq]

theorem useCython_hv (env : SelEnv) (st : SelState) (d : Deco) :
    (useCython env st d).1.hv = some (selHv env st).1 := by
  rw [useCython_st, selSt_hv]

theorem useCython_st_of_some {env : SelEnv} {st : SelState} {d : Deco} {b : Bool} (h : st.hv = some b) :
    (useCython env st d).1 = st := by
  rw [useCython_st, selSt_of_some h]

theorem step_of_some {st : SelState} {b : Bool} (c : SelCall) (h : st.hv = some b) :
    (c.step st).1.hv = some b ∧ (c.step st).1.table = st.table := by
  cases c with
  | deco env d =>
    show (useCython env st d).1.hv = some b ∧ (useCython env st d).1.table = st.table
    rw [useCython_st_of_some h]; exact ⟨h, rfl⟩
  | setLevel a =>
    simp only [SelCall.step]
    split <;> exact ⟨h, rfl⟩

theorem step_hv_of_some {st : SelState} {b : Bool} (c : SelCall) (h : st.hv = some b) :
    (c.step st).1.hv = some b := (step_of_some c h).1

theorem step_setLevel_hv (st : SelState) (a : LevelArg) :
    ((SelCall.setLevel a).step st).1.hv = st.hv ∧ ((SelCall.setLevel a).step st).2 = none := by
  simp only [SelCall.step]
  split <;> exact ⟨rfl, rfl⟩

theorem runCalls_cons (c : SelCall) (cs : List SelCall) (st : SelState) :
    runCalls (c :: cs) st =
      ((runCalls cs (c.step st).1).1, (c.step st).2.toList ++ (runCalls cs (c.step st).1).2) := rfl

theorem runCalls_of_some (calls : List SelCall) (st : SelState) (b : Bool) (h : st.hv = some b) :
    (runCalls calls st).1.hv = some b ∧ (runCalls calls st).1.table = st.table := by
  induction calls generalizing st with
  | nil => exact ⟨h, rfl⟩
  | cons c cs ih =>
    rw [runCalls_cons]
    obtain ⟨h1, h2⟩ := step_of_some c h
    obtain ⟨h3, h4⟩ := ih _ h1
    exact ⟨h3, h4.trans h2⟩

theorem runCalls_hv_of_some (calls : List SelCall) (st : SelState) (b : Bool) (h : st.hv = some b) :
    (runCalls calls st).1.hv = some b := (runCalls_of_some calls st b h).1

/-- result of a decoration given the decision `b` in force -/
theorem useCython_res_of_some {env : SelEnv} {st : SelState} {d : Deco} {b : Bool} (h : st.hv = some b) :
    (useCython env st d).2 = ((if b then lookupRes st.table d else .ok .py), false) := by
  rw [useCython_eq, selHv_of_some h, selSt_of_some h]

theorem lookupRes_ok {table : List (String × Option (List String))} {d : Deco} {s : Sel}
    (h : lookupRes table d = .ok s) : s = .cy (d.replacement.getD d.name) := by
  unfold lookupRes at h
  split at h
  · cases h
  · split at h
    · split at h
      · cases h
      · split at h
        · cases h
        · cases h; rfl
    · cases h; rfl

/-- with the decision `b` in force, every successful decoration conforms to it and no warning is issued -/
theorem runCalls_all_of_some (calls : List SelCall) (st : SelState) (b : Bool) (h : st.hv = some b) :
    ∀ r ∈ (runCalls calls st).2,
      r.2 = false ∧ (b = false → r.1 = .ok .py) ∧
        ∀ s, r.1 = .ok s → (if b then ∃ n, s = .cy n else s = .py) := by
  induction calls generalizing st with
  | nil => intro r hr; cases hr
  | cons c cs ih =>
    rw [runCalls_cons]
    intro r hr
    rcases List.mem_append.1 hr with hr | hr
    · cases c with
      | setLevel a => rw [(step_setLevel_hv st a).2] at hr; cases hr
      | deco env d =>
        have : r = (useCython env st d).2 := by
          simpa [SelCall.step] using hr
        rw [this, useCython_res_of_some h]
        refine ⟨rfl, ?_, ?_⟩
        · intro hb; subst hb; rfl
        · intro s hs
          cases b with
          | false => simp at hs; simp [← hs]
          | true =>
            simp only [if_true] at hs ⊢
            exact ⟨_, lookupRes_ok hs⟩
    · exact ih _ (step_hv_of_some c h) r hr

theorem decide1_truthy {env : SelEnv} {level : Nat} (h : truthy.contains (lowerAscii env.noCython) = true) :
    decide1 env level = (false, false) := by
  unfold decide1; rw [if_pos h]

theorem decide1_level0 (env : SelEnv) : decide1 env 0 = (false, false) := by
  unfold decide1 optimize
  split <;> simp

/-- a first decoration deciding "no compiled kernels, no warning" fixes every result of the session -/
theorem runCalls_first_disabled (env : SelEnv) (d : Deco) (calls : List SelCall) (st : SelState)
    (h0 : st.hv = none) (hd : decide1 env st.level = (false, false)) :
    ∀ r ∈ (runCalls (.deco env d :: calls) st).2, r = (.ok .py, false) := by
  have hs : selHv env st = (false, false) := by unfold selHv; rw [h0]; exact hd
  rw [runCalls_cons]
  intro r hr
  rcases List.mem_append.1 hr with hr | hr
  · have : r = (useCython env st d).2 := by simpa [SelCall.step] using hr
    rw [this, useCython_eq, hs]; rfl
  · have hv : ((SelCall.deco env d).step st).1.hv = some false := by
      show (useCython env st d).1.hv = some false
      rw [useCython_hv, hs]
    obtain ⟨h1, h2, -⟩ := runCalls_all_of_some calls _ false hv r hr
    have h2 := h2 rfl
    obtain ⟨r1, r2⟩ := r
    simp only at h1 h2
    rw [h1, h2]

theorem runCalls_uniform (calls : List SelCall) (st : SelState) :
    ∃ b : Bool, ∀ r ∈ (runCalls calls st).2, ∀ s, r.1 = .ok s → (if b then ∃ n, s = .cy n else s = .py) := by
  induction calls generalizing st with
  | nil => exact ⟨false, fun r hr => by cases hr⟩
  | cons c cs ih =>
    cases c with
    | setLevel a =>
      obtain ⟨b, hb⟩ := ih ((SelCall.setLevel a).step st).1
      refine ⟨b, ?_⟩
      rw [runCalls_cons, (step_setLevel_hv st a).2]
      exact hb
    | deco env d =>
      -- replay the whole session from a state in which the decision of this call is already in force
      refine ⟨(selHv env st).1, ?_⟩
      intro r hr s hs
      rw [runCalls_cons] at hr
      rcases List.mem_append.1 hr with hr | hr
      · have : r = (useCython env st d).2 := by simpa [SelCall.step] using hr
        rw [this, useCython_eq] at hs
        simp only at hs
        cases hb : (selHv env st).1 with
        | false => rw [hb] at hs; simp at hs; simp [← hs]
        | true =>
          rw [hb] at hs
          simp only [if_true] at hs ⊢
          exact ⟨_, lookupRes_ok hs⟩
      · have hv : ((SelCall.deco env d).step st).1.hv = some (selHv env st).1 := useCython_hv env st d
        exact (runCalls_all_of_some cs _ _ hv r hr).2.2 s hs

theorem runCalls_warns_le_one (calls : List SelCall) (st : SelState) :
    ((runCalls calls st).2.filter (fun r => r.2)).length ≤ 1 := by
  induction calls generalizing st with
  | nil => simp [runCalls]
  | cons c cs ih =>
    cases c with
    | setLevel a =>
      rw [runCalls_cons, (step_setLevel_hv st a).2]
      exact ih _
    | deco env d =>
      rw [runCalls_cons]
      have hv : ((SelCall.deco env d).step st).1.hv = some (selHv env st).1 := useCython_hv env st d
      have hrest : (runCalls cs ((SelCall.deco env d).step st).1).2.filter (fun r => r.2) = [] := by
        rw [List.filter_eq_nil_iff]
        intro r hr
        simp [(runCalls_all_of_some cs _ _ hv r hr).1]
      rw [List.filter_append, hrest, List.append_nil]
      show (List.filter _ [ (useCython env st d).2 ]).length ≤ 1
      exact Nat.le_trans (List.length_filter_le _ _) (Nat.le_refl _)

/-! ## level -/

theorem flagOfInt_le {i : Int} {l : Nat} (h : flagOfInt i = .ok l) : l ≤ 3 := by
  unfold flagOfInt at h
  split at h
  · cases h; omega
  · cases h

theorem flagNames_lookup_le {s : String} {l : Nat} (h : flagNames.lookup s = some l) : l ≤ 3 := by
  simp only [flagNames, List.lookup] at h
  repeat' split at h
  all_goals first | (cases h; done) | (cases h; omega)

theorem toFlag_le {cur : Nat} (hcur : cur ≤ 3) {a : LevelArg} {l : Nat} (h : toFlag cur a = .ok l) : l ≤ 3 := by
  cases a with
  | none => cases h; exact hcur
  | int i => exact flagOfInt_le h
  | str s =>
    simp only [toFlag] at h
    split at h
    · exact flagOfInt_le h
    · split at h
      · cases h; exact flagNames_lookup_le (by assumption)
      · cases h

/-- an exception that is propagating skips every statement -/
theorem run_of_err (p : Prog) (st : LvState) (h : st.err.isSome = true) : p.run st = st := by
  induction p generalizing st with
  | skip => rfl
  | setLevel a => simp [Prog.run, h]
  | probe c => simp [Prog.run, h]
  | raise => simp [Prog.run, h]
  | seq p q ihp ihq => simp only [Prog.run]; rw [ihp st h, ihq st h]
  | withTemp a body _ => simp [Prog.run, h]

theorem run_level_le (p : Prog) (st : LvState) (h : st.level ≤ 3) : (p.run st).level ≤ 3 := by
  induction p generalizing st with
  | skip => exact h
  | setLevel a =>
    simp only [Prog.run]
    split
    · exact h
    · split
      · exact toFlag_le h (by assumption)
      · exact h
  | probe c =>
    simp only [Prog.run]
    split <;> exact h
  | raise =>
    simp only [Prog.run]
    split <;> exact h
  | seq p q ihp ihq => exact ihq _ (ihp _ h)
  | withTemp a body _ =>
    simp only [Prog.run]
    split
    · exact h
    · split <;> exact h

theorem withTemp_level (a : LevelArg) (body : Prog) (st : LvState) :
    ((Prog.withTemp a body).run st).level = st.level := by
  simp only [Prog.run]
  split
  · rfl
  · split <;> rfl


theorem withTemp_run_ok (a : LevelArg) (body : Prog) (st : LvState) (l : Nat) (h : st.err = none)
    (ha : toFlag st.level a = .ok l) :
    (Prog.withTemp a body).run st = { body.run { st with level := l } with level := st.level } := by
  simp only [Prog.run, h, Option.isSome_none, Bool.false_eq_true, if_false]
  cases a with
  | none => cases ha; rfl
  | int i => simp only [ha]
  | str s => simp only [ha]

theorem bad_arg_run (a : LevelArg) (st : LvState) (e : KErr) (h : st.err = none)
    (ha : toFlag st.level a = .error e) :
    (Prog.setLevel a).run st = { st with err := some e } ∧
      ∀ body, (Prog.withTemp a body).run st = { st with err := some e } := by
  constructor
  · simp only [Prog.run, h, Option.isSome_none, Bool.false_eq_true, if_false, ha]
  · intro body
    simp only [Prog.run, h, Option.isSome_none, Bool.false_eq_true, if_false]
    cases a with
    | none => cases ha
    | int i => simp only [ha]
    | str s => simp only [ha]

/-! ## concrete data for the non-vacuity examples -/

def exTable : List (String × Option (List String)) :=
  [("f", some ["f(a, b)", "doc of f"]), ("g_fast", some ["doc of g"]), ("h", none)]

/-- compiled module importable, `TENPY_NO_CYTHON` unset -/
def exEnv : SelEnv := { noCython := "", importOK := true, table := exTable }
/-- `TENPY_NO_CYTHON=YES` -/
def exEnvNoCython : SelEnv := { noCython := "YES", importOK := true, table := exTable }
/-- `TENPY_NO_CYTHON=0` (not truthy), compiled module not importable -/
def exEnvNoImport : SelEnv := { noCython := "0", importOK := false, table := [] }

def exF : Deco := { name := "f", doc := some ["doc of f"] }
def exG : Deco := { name := "g", doc := some ["doc of g"], replacement := some "g_fast" }
def exStale : Deco := { name := "f", doc := some ["old doc of f"] }
def exMissing : Deco := { name := "k", doc := none }
def exH : Deco := { name := "h", doc := none, checkDoc := false }

end TenpyModel.C04Ext
