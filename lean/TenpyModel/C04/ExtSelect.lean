import TenpyModel.C04.ExtKernels
/-!
C04 extension round — `tenpy/tools/optimization.py`: the global optimization level (`to_OptimizationFlag`, `set_level`,
`get_level`, `optimize`, `temporary_level`) and the selection of the kernel implementation by the decorator
`use_cython` (decided ONCE, at the first decoration = import time of `tenpy.linalg.charges`, from the environment
variable `TENPY_NO_CYTHON`, the optimization level and whether `_npc_helper` can be imported; afterwards every
decorated function is looked up by name in the compiled module, with the doc-string consistency check).

Strings are ASCII (`str.lower`, `int(str)` and `str.strip` are modelled for ASCII input only); doc strings are given in
cleaned form (`inspect.cleandoc` is the identity on them) as lists of lines.
-/
namespace TenpyModel.C04Ext

/-! ## optimization level -/

/-- argument of `set_level` / `temporary_level` / `to_OptimizationFlag` -/
inductive LevelArg where
  | none
  | int (i : Int)
  | str (s : String)
deriving Repr, DecidableEq

/-- `OptimizationFlag.__members__` -/
def flagNames : List (String × Nat) := [("none", 0), ("default", 1), ("safe", 2), ("skip_arg_checks", 3)]

def isSpace (c : Char) : Bool := c == ' ' || c == '\t' || c == '\n' || c == '\r' || c == '\x0b' || c == '\x0c'

/-- digits with single underscores between them (`int('0_1') = 1`; `'1_'`, `'_1'`, `'1__0'` are rejected) -/
def parseDigits : List Char → Option Nat → Bool → Option Nat
  | [], acc, afterUnderscore => if afterUnderscore then none else acc
  | c :: cs, acc, afterUnderscore =>
      if c.isDigit then parseDigits cs (some (acc.getD 0 * 10 + (c.toNat - '0'.toNat))) false
      else if c == '_' then
        (if acc.isNone || afterUnderscore then none else parseDigits cs acc true)
      else none

/-- Python `int(s)` for an ASCII string: surrounding whitespace, one optional sign, decimal digits; `none` = `ValueError` -/
def parseInt (s : String) : Option Int :=
  let cs := ((s.toList.dropWhile isSpace).reverse.dropWhile isSpace).reverse
  match cs with
  | '+' :: rest => (parseDigits rest none false).map Int.ofNat
  | '-' :: rest => (parseDigits rest none false).map (fun n => - Int.ofNat n)
  | rest => (parseDigits rest none false).map Int.ofNat

/-- `OptimizationFlag(level)`: members are 0, 1, 2, 3 -/
def flagOfInt (i : Int) : Except KErr Nat :=
  if 0 ≤ i ∧ i ≤ 3 then .ok i.toNat else .error .valueError

/-- `to_OptimizationFlag(level)`; `cur` = the current global level (`None` defaults to it) -/
def toFlag (cur : Nat) : LevelArg → Except KErr Nat
  | .none => .ok cur
  | .int i => flagOfInt i
  | .str s =>
      match parseInt s with
      | some i => flagOfInt i                         -- `level = int(level)`
      | none =>                                       -- `except ValueError: level = OptimizationFlag[level]`
        match flagNames.lookup s with
        | some l => .ok l
        | none => .error .keyError

/-- `optimize(level_compare)`: `_level >= level_compare` -/
def optimize (level cmp : Nat) : Bool := decide (cmp ≤ level)

/-- programs over the level: `set_level(a)`, a probe `(get_level(), optimize(cmp))`, an exception raised by user code,
sequencing, `with temporary_level(a): body` -/
inductive Prog where
  | skip
  | setLevel (a : LevelArg)
  | probe (cmp : Nat)
  | raise
  | seq (p q : Prog)
  | withTemp (a : LevelArg) (body : Prog)
deriving Repr

structure LvState where
  level : Nat
  log : List (Nat × Bool) := []
  err : Option KErr := none      -- an exception is propagating (`valueError` stands for the user's exception of `raise`)
deriving Repr, DecidableEq

/-- execution; statements after an exception are skipped, `__exit__` runs also when the body raised, `__enter__`
raising (bad argument) leaves the block un-entered (no `__exit__`). -/
def Prog.run : Prog → LvState → LvState
  | .skip, st => st
  | .setLevel a, st =>
      if st.err.isSome then st else
      match toFlag st.level a with
      | .ok l => { st with level := l }
      | .error e => { st with err := some e }
  | .probe cmp, st =>
      if st.err.isSome then st else { st with log := st.log ++ [(st.level, optimize st.level cmp)] }
  | .raise, st => if st.err.isSome then st else { st with err := some .valueError }
  | .seq p q, st => q.run (p.run st)
  | .withTemp a body, st =>
      if st.err.isSome then st else
      let old := st.level                                   -- `self._old_level = get_level()`
      match (match a with | .none => Except.ok st.level | a => toFlag st.level a) with
      | .error e => { st with err := some e }               -- `set_level(self.temporary_level)` raised in `__enter__`
      | .ok l =>
        let st' := body.run { st with level := l }
        { st' with level := old }                           -- `__exit__`: `set_level(self._old_level)`

/-! ## `use_cython` -/

/-- what the decorator sees of the environment at one call -/
structure SelEnv where
  noCython : String                               -- `os.getenv('TENPY_NO_CYTHON', '')`
  importOK : Bool                                 -- `from ..linalg import _npc_helper` succeeds
  table : List (String × Option (List String))    -- `_npc_helper.__dict__`: name ↦ doc string (lines)
deriving Repr

structure SelState where
  level : Nat := 1
  hv : Option Bool := none                        -- `have_cython_functions`
  table : List (String × Option (List String)) := []   -- `_npc_helper_module.__dict__`: the module object imported at the
                                                        -- first decoration (later environments are never looked at again)
deriving Repr, DecidableEq

/-- the decorated Python function and the decorator's arguments -/
structure Deco where
  name : String
  doc : Option (List String)
  replacement : Option String := none
  checkDoc : Bool := true
deriving Repr

inductive Sel where
  | py                    -- the decorated function itself
  | cy (name : String)    -- the object `_npc_helper.__dict__[name]`
deriving Repr, DecidableEq

def truthy : List String := ["true", "yes", "y", "1"]

def lowerAscii (s : String) : String := String.ofList (s.toList.map Char.toLower)

/-- first-call decision: `have_cython_functions` and whether the "Couldn't load compiled cython code" warning is issued -/
def decide1 (env : SelEnv) (level : Nat) : Bool × Bool :=
  if truthy.contains (lowerAscii env.noCython) then (false, false)
  else if optimize level 1 then (if env.importOK then (true, false) else (false, true))
  else (false, false)

/-- `cdoc[cdoc.find('\n') + 1:]` then `cleandoc`: drop the first line (the embedded signature), if there is a second -/
def dropSignature (doc : List String) : List String :=
  match doc with
  | _ :: l2 :: rest => l2 :: rest
  | d => d

/-- one call `use_cython(func, replacement, check_doc)`: new state, result, warning issued -/
def useCython (env : SelEnv) (st : SelState) (d : Deco) : SelState × Except KErr Sel × Bool :=
  let (hv, warned) := match st.hv with
    | some b => (b, false)
    | none => decide1 env st.level
  let st' : SelState := match st.hv with
    | some _ => st
    | none => { st with hv := some hv, table := if hv then env.table else st.table }   -- `_npc_helper_module = _npc_helper`
  if !hv then (st', .ok .py, warned) else
  let name := d.replacement.getD d.name
  match st'.table.lookup name with
  | none => (st', .error .valueError, warned)                       -- "can't find cython function"
  | some cdoc =>
    if d.checkDoc then
      match cdoc with
      | none => (st', .error .attributeError, warned)               -- `cdoc.find` of `None`
      | some cd =>
        if d.doc ≠ some cd ∧ d.doc ≠ some (dropSignature cd) then (st', .error .valueError, warned)
        else (st', .ok (.cy name), warned)
    else (st', .ok (.cy name), warned)

/-- a session: decorations interleaved with `set_level` (the environment may differ from call to call) -/
inductive SelCall where
  | deco (env : SelEnv) (d : Deco)
  | setLevel (a : LevelArg)
deriving Repr

def SelCall.step (st : SelState) : SelCall → SelState × Option (Except KErr Sel × Bool)
  | .deco env d => let r := useCython env st d; (r.1, some r.2)
  | .setLevel a =>
      match toFlag st.level a with
      | .ok l => ({ st with level := l }, none)
      | .error _ => (st, none)

def runCalls : List SelCall → SelState → SelState × List (Except KErr Sel × Bool)
  | [], st => (st, [])
  | c :: cs, st =>
      let (st1, r) := c.step st
      let (st2, rs) := runCalls cs st1
      (st2, r.toList ++ rs)

end TenpyModel.C04Ext
