import TenpyModel.C04.ExtSelectProofs
/-!
C04 extension round — properties of `tenpy/tools/optimization.py`: the selection of the kernel implementation by the
decorator `use_cython` and the global optimization level (`to_OptimizationFlag`, `set_level`, `optimize`,
`temporary_level`).  Model: `TenpyModel.C04.ExtSelect`; helper lemmas: `TenpyModel.C04.ExtSelectProofs`.
-/
open TenpyModel.C04Ext

/-! ## selection of the kernel implementation -/

/-- The selection is made once: once `have_cython_functions` is set, no later decoration, no change of the optimization
level and no change of the environment (`TENPY_NO_CYTHON`, importability of `_npc_helper`) changes it for the rest of
the session. -/
theorem C04_select_decided_once (calls : List SelCall) (st : SelState) (b : Bool) (h : st.hv = some b) :
    (runCalls calls st).1.hv = some b :=
  runCalls_hv_of_some calls st b h

example :
    (runCalls [.setLevel (.int 0), .deco exEnvNoCython exF, .deco exEnvNoImport exG]
        { level := 1, hv := some true, table := exTable })
      = ({ level := 0, hv := some true, table := exTable }, [(.ok (.cy "f"), false), (.ok (.cy "g_fast"), false)]) := rfl

/-- The compiled module looked at never changes after the decision: the module object imported at the first decoration
is kept for the rest of the session, whatever the later environments offer. -/
theorem C04_select_table_fixed (calls : List SelCall) (st : SelState) (b : Bool) (h : st.hv = some b) :
    (runCalls calls st).1.table = st.table :=
  (runCalls_of_some calls st b h).2

example :
    (runCalls [.deco exEnvNoImport exG, .setLevel (.int 2), .deco exEnvNoCython exF]
        { level := 1, hv := some true, table := exTable }).1.table = exTable := by decide

/-- The module kept is the one importable at the first decoration, if compiled kernels were selected there (otherwise
no module is recorded). -/
theorem C04_select_table_is_first_module (env : SelEnv) (st : SelState) (d : Deco) (h0 : st.hv = none) :
    (useCython env st d).1.table = if (useCython env st d).1.hv = some true then env.table else st.table := by
  rw [useCython_st, selSt_table_of_none h0, selSt_hv]
  cases (selHv env st).1 <;> simp

example : (useCython exEnv {} exF).1 = { level := 1, hv := some true, table := exTable } ∧
    (useCython exEnvNoCython {} exF).1 = { level := 1, hv := some false, table := [] } := by decide

/-- Every call of the decorator leaves the decision made (`have_cython_functions` is a bool afterwards, never `None`). -/
theorem C04_select_first_call_decides (env : SelEnv) (st : SelState) (d : Deco) : (useCython env st d).1.hv ≠ none := by
  rw [useCython_hv]; exact Option.some_ne_none _

example : (useCython exEnv {} exF).1.hv = some true ∧ (useCython exEnvNoImport {} exF).1.hv = some false := by decide

/-- `TENPY_NO_CYTHON` in {true, yes, y, 1} (in any letter case) at the first decoration: this and every later decoration
returns the Python function, without error and without warning, whatever the later environments, module tables and
level changes are. -/
theorem C04_select_env_disables (env : SelEnv) (d : Deco) (calls : List SelCall) (st : SelState) (h0 : st.hv = none)
    (ht : truthy.contains (lowerAscii env.noCython) = true) :
    ∀ r ∈ (runCalls (.deco env d :: calls) st).2, r = (.ok .py, false) :=
  runCalls_first_disabled env d calls st h0 (decide1_truthy ht)

example : truthy.contains (lowerAscii exEnvNoCython.noCython) = true := by decide
example :
    (runCalls [.deco exEnvNoCython exF, .deco exEnv exStale, .setLevel (.int 3), .deco exEnv exMissing] {}).2
      = [(.ok .py, false), (.ok .py, false), (.ok .py, false)] := rfl

/-- An optimization level below `default` (level 0 = `none`, e.g. `TENPY_OPTIMIZE=0`) at the first decoration disables
the compiled kernels in the same way: every decoration of the session returns the Python function, no error, no
warning (the import of `_npc_helper` is not even attempted). -/
theorem C04_select_level0_disables (env : SelEnv) (d : Deco) (calls : List SelCall) (st : SelState) (h0 : st.hv = none)
    (hl : st.level = 0) :
    ∀ r ∈ (runCalls (.deco env d :: calls) st).2, r = (.ok .py, false) :=
  runCalls_first_disabled env d calls st h0 (by rw [hl]; exact decide1_level0 env)

example :
    (runCalls [.setLevel (.str "none"), .deco exEnv exF, .setLevel (.int 2), .deco exEnv exG] {}).2
      = [(.ok .py, false), (.ok .py, false)] := rfl

/-- No mixed configuration: in one session either all successful decorations return the Python function, or all of
them return compiled objects. -/
theorem C04_select_uniform (calls : List SelCall) (st : SelState) :
    ∃ b : Bool, ∀ r ∈ (runCalls calls st).2, ∀ s, r.1 = .ok s → (if b then ∃ n, s = .cy n else s = .py) :=
  runCalls_uniform calls st

example :
    (runCalls [.deco exEnv exF, .deco exEnvNoCython exG, .deco exEnvNoImport exMissing, .deco exEnv exH] {}).2
      = [(.ok (.cy "f"), false), (.ok (.cy "g_fast"), false), (.error .valueError, false), (.ok (.cy "h"), false)] := rfl

/-- A compiled replacement is the entry of the compiled module under the requested name (`replacement`, by default the
name of the decorated function), and when `check_doc` is set its doc string equals the Python doc string, possibly
after dropping the first line (the embedded signature). -/
theorem C04_select_cy_is_table_entry (env : SelEnv) (st : SelState) (d : Deco) (n : String)
    (h : (useCython env st d).2.1 = .ok (.cy n)) :
    n = d.replacement.getD d.name ∧ ∃ cdoc, (useCython env st d).1.table.lookup n = some cdoc ∧
      (d.checkDoc = true → ∃ cd, cdoc = some cd ∧ (d.doc = some cd ∨ d.doc = some (dropSignature cd))) := by
  rw [useCython_st]
  rw [useCython_eq] at h
  simp only at h
  split at h
  · generalize (selSt env st).table = T at h ⊢
    unfold lookupRes at h
    split at h
    · cases h
    · next cdoc hl =>
      split at h
      · next hc =>
        split at h
        · cases h
        · next cd =>
          split at h
          · cases h
          · next hdoc =>
            cases h
            refine ⟨rfl, _, hl, fun _ => ⟨cd, rfl, ?_⟩⟩
            by_cases h1 : d.doc = some cd
            · exact Or.inl h1
            · by_cases h2 : d.doc = some (dropSignature cd)
              · exact Or.inr h2
              · exact absurd ⟨h1, h2⟩ hdoc
      · next hc =>
        cases h
        exact ⟨rfl, _, hl, fun hc' => absurd hc' hc⟩
  · cases h

example : (useCython exEnv {} exF).2.1 = .ok (.cy "f") ∧ (useCython exEnv {} exG).2.1 = .ok (.cy "g_fast") :=
  ⟨rfl, rfl⟩
example : (useCython exEnv {} exF).1.table.lookup "f" = some (some ["f(a, b)", "doc of f"]) ∧
    exF.doc = some (dropSignature ["f(a, b)", "doc of f"]) := by decide

/-- With compiled kernels selected, a missing replacement or a stale doc string raises `ValueError` instead of silently
using either version. -/
theorem C04_select_missing_or_stale_raises (env : SelEnv) (st : SelState) (d : Deco) (h : st.hv = some true) :
    (st.table.lookup (d.replacement.getD d.name) = none → (useCython env st d).2.1 = .error .valueError) ∧
    (∀ cd, st.table.lookup (d.replacement.getD d.name) = some (some cd) → d.checkDoc = true → d.doc ≠ some cd →
        d.doc ≠ some (dropSignature cd) → (useCython env st d).2.1 = .error .valueError) := by
  rw [useCython_res_of_some h]
  simp only [if_true]
  constructor
  · intro hl
    unfold lookupRes
    rw [hl]
  · intro cd hl hc h1 h2
    unfold lookupRes
    rw [hl]
    simp only [hc, if_true]
    rw [if_pos ⟨h1, h2⟩]

example : (useCython exEnvNoImport { hv := some true, table := exTable } exMissing).2.1 = .error .valueError ∧
    (useCython exEnvNoImport { hv := some true, table := exTable } exStale).2.1 = .error .valueError ∧
    (useCython exEnvNoImport { hv := some true, table := exTable } exF).2.1 = .ok (.cy "f") := ⟨rfl, rfl, rfl⟩

/-- The warning "Couldn't load compiled cython code" is issued at most once per session. -/
theorem C04_select_warns_at_most_once (calls : List SelCall) (st : SelState) :
    ((runCalls calls st).2.filter (fun r => r.2)).length ≤ 1 :=
  runCalls_warns_le_one calls st

example :
    (runCalls [.deco exEnvNoImport exF, .deco exEnvNoImport exG, .deco exEnv exF] {}).2
      = [(.ok .py, true), (.ok .py, false), (.ok .py, false)] := rfl

/-! ## optimization level -/

/-- `with temporary_level(a): body` restores the level that was set before the block, whatever the body does (nested
blocks, `set_level`, exceptions), and also when the argument `a` is rejected. -/
theorem C04_temporary_level_restores (a : LevelArg) (body : Prog) (st : LvState) (_h : st.err = none) :
    ((Prog.withTemp a body).run st).level = st.level :=
  withTemp_level a body st

example :
    (Prog.withTemp (.str "safe")
        (.seq (.probe 2) (.seq (.setLevel (.int 3)) (.seq (.probe 3)
          (.seq (.withTemp (.int 0) (.probe 1)) (.seq (.probe 3) (.seq .raise (.probe 0)))))))).run { level := 1 }
      = { level := 1, log := [(2, true), (3, true), (0, false), (3, true)], err := some .valueError } := by decide

/-- … and the block really runs the body at the requested level: the result is the state the body produces when started
at level `l = to_OptimizationFlag(a)`, with only the level reset. -/
theorem C04_temporary_level_runs_body (a : LevelArg) (body : Prog) (st : LvState) (l : Nat) (h : st.err = none)
    (ha : toFlag st.level a = .ok l) :
    (Prog.withTemp a body).run st = { body.run { st with level := l } with level := st.level } :=
  withTemp_run_ok a body st l h ha

example : ((Prog.withTemp (.str "3") (.probe 3)).run { level := 1 }).log = [(3, true)] := by decide

/-- An exception raised by a bad argument of `set_level` / `temporary_level` leaves the level (and the log) as it was
before the failing statement; the body of the `with` block is not entered. -/
theorem C04_bad_level_argument_keeps_level (a : LevelArg) (st : LvState) (e : KErr) (h : st.err = none)
    (ha : toFlag st.level a = .error e) :
    (Prog.setLevel a).run st = { st with err := some e } ∧
      ∀ body, (Prog.withTemp a body).run st = { st with err := some e } :=
  bad_arg_run a st e h ha

example : (Prog.setLevel (.int 4)).run { level := 2 } = { level := 2, err := some .valueError } ∧
    (Prog.withTemp (.str "fast") (.setLevel (.int 0))).run { level := 2 } = { level := 2, err := some .keyError } := by
  decide

/-- While an exception is propagating, no statement is executed (level, log and exception are unchanged). -/
theorem C04_exception_skips_rest (p : Prog) (st : LvState) (h : st.err.isSome = true) : p.run st = st :=
  run_of_err p st h

example : (Prog.seq .raise (.seq (.setLevel (.int 3)) (.probe 0))).run { level := 1 }
    = { level := 1, err := some .valueError } := by decide

/-- The level is always one of the four flags 0..3. -/
theorem C04_level_in_range (p : Prog) (st : LvState) (h : st.level ≤ 3) : (p.run st).level ≤ 3 :=
  run_level_le p st h

example : ((Prog.seq (.setLevel (.str "skip_arg_checks")) (.setLevel (.int 7))).run { level := 1 }).level = 3 := by
  decide

/-- "A higher level includes all the previous optimizations": what is enabled at level `l` for the threshold `c` is
enabled at every higher level and for every lower threshold. -/
theorem C04_optimize_monotone (l l' c c' : Nat) (hl : l ≤ l') (hc : c' ≤ c) (h : optimize l c = true) :
    optimize l' c' = true := by
  simp only [optimize, decide_eq_true_eq] at h ⊢
  omega

example : optimize 2 2 = true ∧ optimize 3 1 = true ∧ optimize 0 1 = false := by decide

/-- Everything `to_OptimizationFlag` accepts is one of the four flags 0..3. -/
theorem C04_toFlag_sound (cur : Nat) (hcur : cur ≤ 3) (a : LevelArg) (l : Nat) (h : toFlag cur a = .ok l) : l ≤ 3 :=
  toFlag_le hcur h

example : toFlag 1 (.str " 3 ") = .ok 3 ∧ toFlag 1 (.int 4) = .error .valueError ∧
    toFlag 1 (.str "-1") = .error .valueError ∧ toFlag 1 (.str "Safe") = .error .keyError ∧ toFlag 2 .none = .ok 2 :=
  ⟨rfl, rfl, rfl, rfl, rfl⟩

/-- The names and the integers of the four flags are accepted and mean the same flag. -/
theorem C04_toFlag_names (cur : Nat) :
    ∀ p ∈ flagNames, toFlag cur (.str p.1) = .ok p.2 ∧ toFlag cur (.int p.2) = .ok p.2 := by
  intro p hp
  simp only [flagNames, List.mem_cons, List.not_mem_nil, or_false] at hp
  rcases hp with rfl | rfl | rfl | rfl <;> exact ⟨rfl, rfl⟩

example : toFlag 0 (.str "safe") = .ok 2 ∧ toFlag 0 (.int 2) = .ok 2 :=
  C04_toFlag_names 0 ("safe", 2) (by decide)

/-- … and so are the numeric strings of the four flags (`TENPY_OPTIMIZE=2`). -/
theorem C04_toFlag_numeric_strings (cur : Nat) :
    ∀ p ∈ [("0", 0), ("1", 1), ("2", 2), ("3", 3)], toFlag cur (.str p.1) = .ok p.2 := by
  intro p hp
  simp only [List.mem_cons, List.not_mem_nil, or_false] at hp
  rcases hp with rfl | rfl | rfl | rfl <;> rfl

example : toFlag 0 (.str "2") = .ok 2 := C04_toFlag_numeric_strings 0 ("2", 2) (by decide)
