import TenpyModel.C02.P2_Tensordot2
/-!
# C02 / Props2 — `tensordot` creates no spurious blocks: every result row is `ra[:cut] ++ rb[n:]` for stored rows
`ra`, `rb` of the operands whose contracted parts coincide.
-/
namespace TenpyModel.C02P2
open TenpyModel.Core TenpyModel.C02

theorem groupRuns_mem {α κ} [DecidableEq κ] (key : α → κ) (l : List α) :
    ∀ kg ∈ groupRuns key l, ∀ x ∈ kg.2, x ∈ l ∧ key x = kg.1 := by
  induction l with
  | nil => intro kg hkg; cases hkg
  | cons y ys ih =>
    intro kg hkg x hx
    simp only [groupRuns] at hkg
    split at hkg
    · rename_i k g rest heq
      have ih' := fun kg' hkg' => ih kg' (by rw [heq]; exact hkg')
      split at hkg
      · rename_i hk
        rcases List.mem_cons.1 hkg with rfl | hkg
        · rcases List.mem_cons.1 hx with rfl | hx
          · exact ⟨by simp, hk⟩
          · have := ih' (k, g) (by simp) x hx
            exact ⟨by simp [this.1], this.2⟩
        · have := ih' kg (by simp [hkg]) x hx
          exact ⟨by simp [this.1], this.2⟩
      · rcases List.mem_cons.1 hkg with rfl | hkg
        · simp only [List.mem_singleton] at hx
          subst hx
          exact ⟨by simp, rfl⟩
        · have := ih' kg hkg x hx
          exact ⟨by simp [this.1], this.2⟩
    · simp only [List.mem_singleton] at hkg
      subst hkg
      simp only [List.mem_singleton] at hx
      subst hx
      exact ⟨by simp, rfl⟩

theorem commonSorted_sound (xs ys : List Nat) (h : commonSorted xs ys = true) : ∃ v, v ∈ xs ∧ v ∈ ys := by
  fun_induction commonSorted xs ys with
  | case1 => cases h
  | case2 => cases h
  | case3 x xs y ys hlt ih =>
    obtain ⟨v, h1, h2⟩ := ih h
    exact ⟨v, by simp [h1], h2⟩
  | case4 x xs y ys hlt hgt ih =>
    obtain ⟨v, h1, h2⟩ := ih h
    exact ⟨v, h1, by simp [h2]⟩
  | case5 x xs y ys h1 h2 =>
    exact ⟨x, by simp, by simp; omega⟩

/-- contractible legs have the same numbers of blocks -/
theorem contractible_shape {la lb : List LegS} {M : List Nat} (hoka : ∀ l ∈ la, l.ok = true ∧ l.leg.mods = M)
    (hokb : ∀ l ∈ lb, l.ok = true ∧ l.leg.mods = M) (hc : legsContractible la lb = true) :
    la.map LegS.blockNumber = lb.map LegS.blockNumber := by
  unfold legsContractible at hc
  simp only [Bool.and_eq_true, beq_iff_eq, List.all_eq_true] at hc
  obtain ⟨hlen, hcon⟩ := hc
  apply List.ext_getElem (by simp [hlen])
  intro i h1 h2
  simp only [List.length_map] at h1 h2
  simp only [List.getElem_map]
  have hz : i < (la.zip lb).length := by simp; omega
  have hcon' := hcon ((la.zip lb)[i]) (List.getElem_mem hz)
  simp only [List.getElem_zip] at hcon'
  unfold Leg.testContractible at hcon'
  obtain ⟨_, hsl, _⟩ := testEqual_unpack hcon'
  have sa := LegS.ok_sane (hoka _ (List.getElem_mem h1)).1
  have sb := LegS.ok_sane (hokb _ (List.getElem_mem h2)).1
  have sb' : (lb[i]).leg.conj.sane = true := Leg.sane_conj sb
  unfold LegS.blockNumber
  rw [blockNumber_of_slices sa, hsl]
  have := blockNumber_of_slices sb'
  exact this.symm

/-- every row of the result comes from a pair of stored rows with the same contracted block indices -/
theorem tensordotStd_rows_pairs {a b c : ArrS} {n : Nat} (ha : WFP a) (hb : WFP b)
    (h : tensordotStd a b n = some (some c)) :
    ∀ x ∈ c.qdata, ∃ ra ∈ a.qdata, ∃ rb ∈ b.qdata,
      ra.drop (a.rank - n) = rb.take n ∧ x = ra.take (a.rank - n) ++ rb.drop n := by
  unfold tensordotStd at h
  simp only at h
  split at h
  · cases h
  · rename_i hc1
    simp only [ne_eq, gt_iff_lt, Bool.or_eq_true, decide_eq_true_eq, not_or, Decidable.not_not, Nat.not_lt] at hc1
    obtain ⟨⟨hm, hna⟩, hnb⟩ := hc1
    split at h
    · cases h
    · rename_i hcon0
      have hcon : legsContractible (a.legs.drop (a.rank - n)) (b.legs.take n) = true := by simpa using hcon0
      split at h
      · cases h
      · split at h
        · simp only [Option.some.injEq] at h; rw [← h]; intro x hx; cases hx
        · simp only [Option.some.injEq] at h; rw [← h]; intro x hx; cases hx
        · rename_i ra rb hqa hqb
          split at h
          · rename_i he
            simp only [Option.some.injEq] at h; rw [← h]
            intro x hx
            simp only [List.mem_singleton] at hx
            exact ⟨ra, by rw [hqa]; simp, rb, by rw [hqb]; simp, by simpa using he, hx⟩
          · simp only [Option.some.injEq] at h; rw [← h]; intro x hx; cases hx
        · split at h
          · rename_i hn0
            simp only [Option.map_eq_some_iff, Option.some.injEq] at h
            obtain ⟨o, ho, rfl⟩ := h
            unfold outer at ho
            split at ho
            · cases ho
            · simp only [Option.some.injEq] at ho
              rw [← ho]
              intro x hx
              simp only [List.mem_flatMap, List.mem_map] at hx
              obtain ⟨rb, hrb, ra, hra, rfl⟩ := hx
              have hl := ha.row_length hra
              refine ⟨ra, hra, rb, hrb, ?_, ?_⟩
              · rw [hn0]; simp [ArrS.rank, ← hl]
              · rw [hn0]; simp [ArrS.rank, ← hl]
          · simp only [Option.some.injEq] at h; rw [← h]
            intro x hx
            simp only [List.mem_flatMap, List.mem_map, List.mem_filter, Bool.and_eq_true] at hx
            obtain ⟨kb, hkb, ka, ⟨hka, _, hcs⟩, rfl⟩ := hx
            obtain ⟨v, hv1, hv2⟩ := commonSorted_sound _ _ hcs
            obtain ⟨ra, hra, rfl⟩ := List.mem_map.1 hv1
            obtain ⟨rb, hrb, hkey⟩ := List.mem_map.1 hv2
            have gA := groupRuns_mem _ _ ka hka ra hra
            have gB := groupRuns_mem _ _ kb hkb rb hrb
            have hraA : ra ∈ a.qdata := mem_stableSort _ _ ra gA.1
            have hrbB : rb ∈ b.qdata := by
              have := gB.1
              split at this
              · exact this
              · exact mem_stableSort _ _ rb this
            refine ⟨ra, hraA, rb, hrbB, ?_, by rw [← gA.2, ← gB.2]⟩
            -- equal keys ⇒ equal contracted parts
            have hokAd : ∀ l ∈ a.legs.drop (a.rank - n), l.ok = true ∧ l.leg.mods = a.mods :=
              fun l hl => ha.legs_ok l (List.mem_of_mem_drop hl)
            have hokBt : ∀ l ∈ b.legs.take n, l.ok = true ∧ l.leg.mods = a.mods := by
              intro l hl; rw [hm]; exact hb.legs_ok l (List.mem_of_mem_take hl)
            have hshape := contractible_shape hokAd hokBt hcon
            have i1 := inShape_of_rowInRange (rowInRange_drop (ha.rows_ok ra hraA).1 (a.rank - n))
            have i2 := inShape_of_rowInRange (rowInRange_take (hb.rows_ok rb hrbB).1 n)
            rw [← hshape] at i2
            exact ((keyF_mono _ _ _ i1 i2).2).2 hkey.symm

end TenpyModel.C02P2
