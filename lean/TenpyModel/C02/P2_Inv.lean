import TenpyModel.C02.P2_History
/-!
# C02 / Props2 — a second invariant carried through all histories: every pipe leg has non-empty sectors
(`q_map_slices` strictly increasing). With it `split_legs` needs no run-time check in a history.
Part 1: where the legs of the result of each operation come from.
-/
namespace TenpyModel.C02P2
open TenpyModel.Core TenpyModel.C02

/-- every outgoing block of a pipe has at least one incoming block combination -/
def PN : LegS → Prop
  | .plain _ => True
  | .pipe p => ∀ I, I < p.leg.blockNumber → p.qMapSlices.getD I 0 < p.qMapSlices.getD (I + 1) 0

def PNl (legs : List LegS) : Prop := ∀ l ∈ legs, PN l
def PNs (a : ArrS) : Prop := PNl a.legs

theorem PNl_sub {l1 l2 : List LegS} (h : ∀ l ∈ l2, l ∈ l1) (hp : PNl l1) : PNl l2 := fun l hl => hp l (h l hl)

theorem PNl_filterMap (legs : List LegS) (idx : List Nat) (hp : PNl legs) : PNl (idx.filterMap (fun i => legs[i]?)) := by
  intro l hl
  obtain ⟨i, _, hi⟩ := List.mem_filterMap.mp hl
  exact hp l (List.mem_of_getElem? hi)

theorem PNl_set (legs : List LegS) (k : Nat) (L : LegS) (hp : PNl legs) (hL : PN L) : PNl (legs.set k L) := by
  intro l hl
  rcases mem_set hl with rfl | hl
  · exact hL
  · exact hp l hl

theorem PNl_insertAt (legs : List LegS) (k : Nat) (L : LegS) (hp : PNl legs) (hL : PN L) :
    PNl (insertAt k L legs) := by
  intro l hl
  rcases mem_insertAt hl with rfl | hl
  · exact hL
  · exact hp l hl

theorem PN_conj (l : LegS) (h : PN l) : PN l.conj := by
  cases l with
  | plain _ => trivial
  | pipe p => exact h

theorem PN_init (legs : List Leg) (qconj : Int) (sort bunch : Bool) : PN (.pipe (Pipe.init legs qconj sort bunch)) :=
  (Pipe.slicesOK legs qconj sort bunch).nonempty

theorem PN_outerConj (p : Pipe) (h : PN (.pipe p)) : PN (.pipe p.outerConj) := by
  intro I hI
  have : p.outerConj.leg.blockNumber = p.leg.blockNumber := by simp [Pipe.outerConj, Leg.blockNumber]
  rw [this] at hI
  exact h I hI

theorem PNs_permuteAxes (a : ArrS) (ax : List Nat) (h : PNs a) : PNs (a.permuteAxes ax) :=
  PNl_filterMap a.legs ax h

/-! ### the 17 operation kinds of `PropsHistory` -/

theorem PNs_isortQdata (a : ArrS) (h : PNs a) : PNs a.isortQdata := by
  unfold ArrS.isortQdata; split; exact h; split <;> exact h

theorem PNs_itranspose {a b : ArrS} {axes : Option (List Int)} (h : PNs a) (hb : a.itranspose axes = some b) : PNs b := by
  unfold ArrS.itranspose at hb
  cases axes with
  | none => simp only [Option.some.injEq] at hb; subst hb; exact PNs_permuteAxes a _ h
  | some ax =>
    simp only at hb
    cases hax : ax.mapM a.legIndex with
    | none => simp [hax] at hb
    | some axn =>
      simp only [hax] at hb
      split at hb
      · cases hb
      · split at hb
        · cases hb; exact h
        · cases hb; exact PNs_permuteAxes a _ h

theorem PNs_iswapaxes {a b : ArrS} {i j : Int} (h : PNs a) (hb : a.iswapaxes i j = some b) : PNs b := by
  unfold ArrS.iswapaxes at hb
  cases hi : a.legIndex i with
  | none => simp [hi] at hb
  | some i' =>
    cases hj : a.legIndex j with
    | none => simp [hi, hj] at hb
    | some j' =>
      simp only [hi, hj] at hb
      split at hb
      · cases hb; exact h
      · cases hb; exact PNs_permuteAxes a _ h

theorem PNs_conj (a : ArrS) (h : PNs a) : PNs a.conj := by
  intro l hl
  obtain ⟨l0, hl0, rfl⟩ := List.mem_map.1 hl
  exact PN_conj l0 (h l0 hl0)

theorem PNs_takeSlice {a b : ArrS} {indices axes : List Int} (h : PNs a) (hb : a.takeSlice indices axes = some b) :
    PNs b := by
  unfold ArrS.takeSlice at hb
  cases hax : axes.mapM a.legIndex with
  | none => simp [hax] at hb
  | some axn =>
    simp only [hax] at hb
    split at hb
    · cases hb
    · split at hb
      · cases hb
      · split at hb
        · cases hb; exact h
        · cases hpos : (axn.zip indices).mapM (fun ai => (a.legAt ai.1).getQindex ai.2) with
          | none => simp [hpos] at hb
          | some pos =>
            simp only [hpos] at hb
            split at hb
            · cases hb
            · cases hb; exact PNl_filterMap a.legs _ h

theorem PNs_addTrivialLeg (a : ArrS) (axis qconj : Int) (h : PNs a) : PNs (a.addTrivialLeg axis qconj) :=
  PNl_insertAt a.legs _ _ h trivial

theorem PNs_setItem {a b : ArrS} {idx : List Int} (h : PNs a) (hb : a.setItem idx = some b) : PNs b := by
  unfold ArrS.setItem at hb
  split at hb
  · cases hb
  · cases hpos : (a.legs.zip idx).mapM (fun li => li.1.leg.getQindex li.2) with
    | none => simp [hpos] at hb
    | some pos =>
      simp only [hpos] at hb
      unfold ArrS.insertBlock at hb
      split at hb
      · cases hb
      · split at hb <;> (cases hb; exact h)

theorem PNs_transposeSame (b : ArrS) (perm : Option (List Nat)) (h : PNs b) : PNs (ArrS.transposeSame b perm) := by
  unfold ArrS.transposeSame
  cases perm with
  | none => exact h
  | some ax => exact PNs_permuteAxes b ax h

theorem PNs_ibinary {a b a' b' : ArrS} {perm : Option (List Nat)} (ha : PNs a) (hb : PNs b)
    (h : a.ibinary b perm = some (a', b')) : PNs a' ∧ PNs b' := by
  unfold ArrS.ibinary at h
  simp only at h
  split at h
  · cases h
  · simp only [Option.some.injEq, Prod.mk.injEq] at h
    obtain ⟨h1, h2⟩ := h
    constructor
    · rw [← h1]; exact PNs_isortQdata a ha
    · rw [← h2]
      split
      · exact hb
      · exact PNs_isortQdata _ (PNs_transposeSame b perm hb)

theorem PNs_iscalePrefactor (a : ArrS) (z : Bool) (h : PNs a) : PNs (a.iscalePrefactor z) := by
  unfold ArrS.iscalePrefactor; split <;> exact h

theorem PNs_iadd {cy : Bool} {a b a' b' : ArrS} {perm : Option (List Nat)} {isZero : Bool} (ha : PNs a) (hb : PNs b)
    (h : ArrS.iaddPrefactorOther cy a b perm isZero = some (a', b')) : PNs a' ∧ PNs b' := by
  unfold ArrS.iaddPrefactorOther at h
  cases cy with
  | true =>
    simp only [↓reduceIte] at h
    split at h
    · cases h
    · split at h
      · simp only [Option.some.injEq, Prod.mk.injEq] at h
        exact ⟨h.1 ▸ ha, h.2 ▸ hb⟩
      · exact PNs_ibinary ha hb h
  | false =>
    simp only [Bool.false_eq_true, ↓reduceIte] at h
    cases hib : a.ibinary (b.iscalePrefactor isZero) perm with
    | none => simp [hib] at h
    | some p =>
      obtain ⟨x, y⟩ := p
      simp only [hib, Option.some.injEq, Prod.mk.injEq] at h
      have := PNs_ibinary ha (PNs_iscalePrefactor b isZero hb) hib
      exact ⟨h.1 ▸ this.1, h.2 ▸ hb⟩

theorem PNs_outer {a b c : ArrS} (ha : PNs a) (hb : PNs b) (h : outer a b = some c) : PNs c := by
  unfold outer at h
  split at h
  · cases h
  · cases h
    intro l hl
    rcases List.mem_append.1 hl with hl | hl
    · exact ha l hl
    · exact hb l hl

theorem PNs_fromFunc {legs : List LegS} {q : Option Charge} {z : ArrS} (h : PNl legs) (hz : fromFunc legs q = some z) :
    PNs z := by
  unfold fromFunc zeros at hz
  split at hz
  · cases hz
  · rename_i z0 hz0
    split at hz0
    · cases hz0
    · cases hz0; cases hz; exact h

end TenpyModel.C02P2
