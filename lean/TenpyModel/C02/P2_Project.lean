import TenpyModel.C02.P2_LegOps
/-!
# C02 / Props2 — `iproject`: rows filtered on the kept blocks, the column renumbered monotonically
(order and distinctness of the rows preserved exactly ⇒ `_qdata_sorted` may be kept).
-/
namespace TenpyModel.C02P2
open TenpyModel.Core TenpyModel.C02

/-! ### changing one column of two rows consistently -/

theorem rowLT_mid (t t' d d' : List Nat) (v w v0 w0 : Nat) (hd : d.length = d'.length)
    (hlt : v < w ↔ v0 < w0) (heq : v = w ↔ v0 = w0) :
    rowLT (t ++ v :: d) (t' ++ w :: d') = rowLT (t ++ v0 :: d) (t' ++ w0 :: d') := by
  rw [rowLT_append t t' (v :: d) (w :: d') (by simp [hd]), rowLT_append t t' (v0 :: d) (w0 :: d') (by simp [hd]),
    rowLT_cons v w hd, rowLT_cons v0 w0 hd]
  have e1 : decide (v < w) = decide (v0 < w0) := by simp [hlt]
  have e2 : (v :: d == w :: d') = (v0 :: d == w0 :: d') := by
    by_cases hvw : v = w
    · have := heq.1 hvw
      subst hvw; subst this
      by_cases hdd : d = d'
      · subst hdd; simp
      · rw [beq_eq_false_iff_ne.mpr (by simpa using hdd), beq_eq_false_iff_ne.mpr (by simpa using hdd)]
    · have h0 : v0 ≠ w0 := fun e => hvw (heq.2 e)
      rw [beq_eq_false_iff_ne.mpr (by simp [hvw]), beq_eq_false_iff_ne.mpr (by simp [h0])]
  rw [e1, e2]

/-- entry `k` of both rows replaced by values in the same order relation: the row order is unchanged -/
theorem rowLT_set (x y : List Nat) (k v w : Nat) (hl : x.length = y.length) (hk : k < x.length)
    (hlt : v < w ↔ x.getD k 0 < y.getD k 0) (heq : v = w ↔ x.getD k 0 = y.getD k 0) :
    rowLT (x.set k v) (y.set k w) = rowLT x y := by
  have hx := eq_take_cons_drop x k 0 hk
  have hy := eq_take_cons_drop y k 0 (by omega)
  rw [set_eq_take_cons_drop x k v hk, set_eq_take_cons_drop y k w (by omega)]
  conv => rhs; rw [hx, hy]
  exact rowLT_mid _ _ _ _ v w _ _ (by simp [hl]) hlt heq

theorem ne_of_rowLT_or {x y : List Nat} (h : rowLT x y = true ∨ rowLT y x = true) : x ≠ y := by
  rcases h with h | h
  · exact rowLT_ne h
  · exact (rowLT_ne h).symm

theorem rowLT_or_of_ne {x y : List Nat} (hl : x.length = y.length) (hne : x ≠ y) :
    rowLT x y = true ∨ rowLT y x = true := by
  unfold rowLT
  exact revLT_total (by simpa using hl) (fun e => hne (by simpa using congrArg List.reverse e))

/-- a row map `F r = r.set k (φ (r[k]))` with `φ` strictly monotone on the occurring entries preserves
pairwise distinctness and lexsortedness of a list of rows of one length -/
theorem pairwise_set_mono {rows : List (List Nat)} {n k : Nat} (hk : k < n) (hl : ∀ r ∈ rows, r.length = n)
    (φ : Nat → Nat)
    (hφ : ∀ x ∈ rows, ∀ y ∈ rows, (φ (x.getD k 0) < φ (y.getD k 0) ↔ x.getD k 0 < y.getD k 0)) :
    (rows.Pairwise (· ≠ ·) → (rows.map (fun r => r.set k (φ (r.getD k 0)))).Pairwise (· ≠ ·)) ∧
    (rows.Pairwise (fun x y => rowLE x y = true) →
      (rows.map (fun r => r.set k (φ (r.getD k 0)))).Pairwise (fun x y => rowLE x y = true)) := by
  have heq : ∀ x ∈ rows, ∀ y ∈ rows, (φ (x.getD k 0) = φ (y.getD k 0) ↔ x.getD k 0 = y.getD k 0) := by
    intro x hx y hy
    have h1 := hφ x hx y hy
    have h2 := hφ y hy x hx
    constructor
    · intro e; omega
    · intro e; rw [e]
  have key : ∀ x ∈ rows, ∀ y ∈ rows,
      rowLT (x.set k (φ (x.getD k 0))) (y.set k (φ (y.getD k 0))) = rowLT x y := by
    intro x hx y hy
    exact rowLT_set x y k _ _ (by rw [hl x hx, hl y hy]) (by rw [hl x hx]; exact hk) (hφ x hx y hy) (heq x hx y hy)
  constructor
  · intro hn
    rw [List.pairwise_map]
    rw [List.pairwise_iff_forall_sublist] at hn ⊢
    intro x y hxy
    have hx := hxy.subset (by simp : x ∈ [x, y])
    have hy := hxy.subset (by simp : y ∈ [x, y])
    apply ne_of_rowLT_or
    rw [key x hx y hy, key y hy x hx]
    exact rowLT_or_of_ne (by rw [hl x hx, hl y hy]) (hn hxy)
  · intro hs
    rw [List.pairwise_map]
    rw [List.pairwise_iff_forall_sublist] at hs ⊢
    intro x y hxy
    have hx := hxy.subset (by simp : x ∈ [x, y])
    have hy := hxy.subset (by simp : y ∈ [x, y])
    have := hs hxy
    unfold rowLE at *
    rw [key y hy x hx]; exact this

/-! ### the projected leg -/

theorem sizes_len' {l : Leg} (h : l.slices.length = l.blockNumber + 1) : l.blockSizes.length = l.blockNumber := by
  unfold Leg.blockSizes
  rw [sizesOfSlices_length, h]; simp

theorem projKeep_lt' {l : Leg} (h : l.slices.length = l.blockNumber + 1) (mask : List Bool) :
    ∀ q ∈ Leg.projKeep l mask, q < l.charges.length := by
  intro q hq
  have := (List.mem_filter.1 hq).1
  rw [List.mem_range, Leg.projLens_length, sizes_len' h] at this
  exact this

theorem project_charges_sublist' {l : Leg} (h : l.slices.length = l.blockNumber + 1) (mask : List Bool) :
    (l.project mask).2.2.charges.Sublist l.charges :=
  take?_sublist _ _ _ (Leg.projKeep_sorted l mask) (projKeep_lt' h mask)

theorem project_sane {l : Leg} (hs : l.sane = true) (mask : List Bool) : (l.project mask).2.2.sane = true := by
  have hlen := sane_len hs
  have hsub := project_charges_sublist' hlen mask
  have hv : ∀ c ∈ (l.project mask).2.2.charges, checkValid (l.project mask).2.2.mods c = true :=
    fun c hc => sane_valid hs c (hsub.subset hc)
  have hf := sane_flags hs
  have hcl := sane_cl0 (sane_valid hs)
  refine sane_mk ?_ ?_ hv (sane_qconj (l := l) hs) ?_
  · show (slicesOfSizes _).length = (take? l.charges _ []).length + 1
    rw [slicesOfSizes_length, take?_length, take?_length]
  · exact slicesOfSizes_head _
  · constructor
    · intro hso
      have hs0 : l.sorted = true := hso
      have := (Leg.isSorted_iff l).1 (hf.1 hs0)
      rw [Leg.isSorted_iff]
      rcases this with h0 | hp
      · exact Or.inl h0
      · exact Or.inr (hp.sublist hsub)
    · intro hb
      have hb0 : l.isBlocked = true := hb
      rw [Leg.isBunched_iff _ (sane_cl0 hv)]
      unfold Leg.isBlocked at hb0
      rw [Bool.or_eq_true, Bool.and_eq_true, beq_iff_eq] at hb0
      rcases hb0 with ⟨hso, hbu⟩ | hnd
      · have hsort := (Leg.isSorted_iff l).1 (hf.1 hso)
        have hbun := (Leg.isBunched_iff l hcl).1 (hf.2 hbu)
        rcases hsort with h0 | hp
        · have hle : l.charges.length ≤ 1 := by
            rcases Nat.lt_or_ge 1 l.charges.length with hgt | hle
            · exfalso
              apply hbun 0 (by omega)
              have e0 := hcl h0 _ (getD_mem l.charges 0 [] (by omega))
              have e1 := hcl h0 _ (getD_mem l.charges 1 [] (by omega))
              rw [e0, e1]
            · exact hle
          intro k hk
          have := hsub.length_le
          omega
        · exact Leg.noEqNbr_sublist_of_sorted _ _ hsub hp hbun
      · exact Leg.noEqNbr_of_nodup _ ((Leg.nodup_of_eraseDups_length _ hnd).sublist hsub)

/-- `map_qind` of `project` -/
theorem project_mapQ (l : Leg) (mask : List Bool) :
    (l.project mask).1 = (List.range l.blockNumber).map (fun i =>
      if (Leg.projKeep l mask).contains i then ((Leg.projKeep l mask).idxOf i : Int) else -1) := rfl

theorem project_blockNumber (l : Leg) (mask : List Bool) :
    (l.project mask).2.2.blockNumber = (Leg.projKeep l mask).length := by
  show (take? l.charges _ []).length = _
  rw [take?_length]; rfl

theorem mapQ_getD (l : Leg) (mask : List Bool) (q : Nat) (hq : q < l.blockNumber) (d : Int) :
    (l.project mask).1.getD q d =
      if (Leg.projKeep l mask).contains q then ((Leg.projKeep l mask).idxOf q : Int) else -1 := by
  rw [project_mapQ, getD_map' _ _ q 0 d (by simpa using hq), getD_range _ _ hq]

theorem keep_getD_idxOf (keep : List Nat) (q : Nat) (hq : q ∈ keep) : keep.getD (keep.idxOf q) 0 = q := by
  have hlt := List.idxOf_lt_length_of_mem hq
  rw [getD_lt _ _ _ hlt]
  exact List.getElem_idxOf hlt

theorem idxOf_mono (keep : List Nat) (hs : keep.Pairwise (· < ·)) (p q : Nat) (hp : p ∈ keep) (hq : q ∈ keep) :
    keep.idxOf p < keep.idxOf q ↔ p < q := by
  have h1 := List.idxOf_lt_length_of_mem hp
  have h2 := List.idxOf_lt_length_of_mem hq
  have := smono_getD_lt_iff keep hs _ _ h1 h2
  rw [keep_getD_idxOf keep p hp, keep_getD_idxOf keep q hq] at this
  exact this.symm

theorem getCharge_project (l : Leg) (mask : List Bool) (q : Nat) (hq : q ∈ Leg.projKeep l mask) :
    (l.project mask).2.2.getCharge ((Leg.projKeep l mask).idxOf q) = l.getCharge q := by
  unfold Leg.getCharge
  show cscale l.qconj ((take? l.charges (Leg.projKeep l mask) []).getD _ []) = _
  rw [take?_getD _ _ _ _ (List.idxOf_lt_length_of_mem hq), keep_getD_idxOf _ _ hq]

/-! ### one step of `iproject` -/

/-- the body of the loop of `iproject` -/
def projStep (acc : ArrS) (am : Nat × List Bool) : ArrS :=
  let l := (acc.legAt am.1)
  let pr := l.project am.2
  let mapQ := pr.1
  { acc with legs := ArrS.setLeg acc.legs am.1 (.plain pr.2.2),
             qdata := (acc.qdata.filter (fun r => decide (mapQ.getD (r.getD am.1 0) (-1) ≥ 0))).map
                        (fun r => r.set am.1 (mapQ.getD (r.getD am.1 0) 0).toNat) }

theorem projStep_legs_length (a : ArrS) (am : Nat × List Bool) : (projStep a am).legs.length = a.legs.length := by
  simp [projStep, ArrS.setLeg]

theorem WFP_projStep {a : ArrS} (h : WFP a) {k : Nat} (hk : k < a.legs.length) (mask : List Bool) :
    WFP (projStep a (k, mask)) := by
  have hok := h.legs_ok _ (List.getElem_mem hk)
  have hsane := LegS.ok_sane hok.1
  unfold projStep
  simp only
  rw [legAt_eq hk]
  generalize hl : (a.legs[k]).leg = l at hok hsane
  generalize hkeep : Leg.projKeep l mask = keep
  have hks : keep.Pairwise (· < ·) := by rw [← hkeep]; exact Leg.projKeep_sorted l mask
  have hL : (LegS.plain (l.project mask).2.2).ok = true := project_sane hsane mask
  have hLm : (LegS.plain (l.project mask).2.2).leg.mods = a.mods := hok.2
  obtain ⟨hne, hm, hokS⟩ := legs_set_ok h k hL hLm
  -- facts on rows that survive the filter
  have hrow : ∀ r ∈ a.qdata, ((l.project mask).1.getD (r.getD k 0) (-1) ≥ 0) →
      r.getD k 0 ∈ keep ∧ ((l.project mask).1.getD (r.getD k 0) 0).toNat = keep.idxOf (r.getD k 0) := by
    intro r hr hge
    have hb := ((rowInRange_iff _ _).mp (h.rows_ok r hr).1).2 k hk
    unfold LegS.blockNumber at hb
    rw [hl] at hb
    rw [mapQ_getD l mask _ hb, hkeep] at hge ⊢
    by_cases hc : keep.contains (r.getD k 0) = true
    · simp only [hc, ↓reduceIte]
      exact ⟨by simpa using hc, by simp⟩
    · exfalso
      rw [if_neg hc] at hge
      omega
  generalize hP : (fun (r : List Nat) => decide ((l.project mask).1.getD (r.getD k 0) (-1) ≥ 0)) = P
  have hPr : ∀ r ∈ a.qdata.filter P, r ∈ a.qdata ∧ r.getD k 0 ∈ keep ∧
      ((l.project mask).1.getD (r.getD k 0) 0).toNat = keep.idxOf (r.getD k 0) := by
    intro r hr
    have hr' := List.mem_filter.1 hr
    rw [← hP] at hr'
    exact ⟨hr'.1, hrow r hr'.1 (by simpa using hr'.2)⟩
  have hmapeq : (a.qdata.filter P).map (fun r => r.set k ((l.project mask).1.getD (r.getD k 0) 0).toNat)
      = (a.qdata.filter P).map (fun r => r.set k (keep.idxOf (r.getD k 0))) := by
    apply List.map_congr_left
    intro r hr
    rw [(hPr r hr).2.2]
  show WFP { legs := a.legs.set k (.plain (l.project mask).2.2), qtotal := a.qtotal,
             qdata := (a.qdata.filter P).map (fun r => r.set k ((l.project mask).1.getD (r.getD k 0) 0).toNat),
             sorted := a.sorted }
  rw [hmapeq]
  have hsubl := List.filter_sublist (l := a.qdata) (p := P)
  have hmono := pairwise_set_mono (rows := a.qdata.filter P) (n := a.legs.length) hk
    (fun r hr => h.row_length (hPr r hr).1) (fun q => keep.idxOf q) (by
      intro x hx y hy
      exact idxOf_mono keep hks _ _ (hPr x hx).2.1 (hPr y hy).2.1)
  refine ⟨hne, ?_, ?_, ?_, ?_, hmono.1 (h.nodup.sublist hsubl), fun hs => hmono.2 ((h.sorted_ok hs).sublist hsubl)⟩
  · show ∀ m ∈ ArrS.modsOf (a.legs.set k _), 1 ≤ m
    rw [hm]; exact h.mods_pos
  · show ∀ l' ∈ a.legs.set k _, l'.ok = true ∧ l'.leg.mods = ArrS.modsOf (a.legs.set k _)
    rw [hm]; exact hokS
  · show checkValid (ArrS.modsOf (a.legs.set k _)) a.qtotal = true
    rw [hm]; exact h.qtotal_valid
  · intro r' hr'
    obtain ⟨r, hr, rfl⟩ := List.mem_map.1 hr'
    obtain ⟨hra, hkq, _⟩ := hPr r hr
    have h0 := h.rows_ok r hra
    show rowInRange (a.legs.set k _) _ = true ∧ blockCharge (ArrS.modsOf (a.legs.set k _)) (a.legs.set k _) _ = a.qtotal
    rw [hm]
    have := row_set0 h.legs_ok hk hL hLm h0.1 (q := keep.idxOf (r.getD k 0)) (by
      show _ < (l.project mask).2.2.blockNumber
      rw [project_blockNumber, hkeep]
      exact List.idxOf_lt_length_of_mem hkq) (by
      show makeValid a.mods ((l.project mask).2.2.getCharge _) = _
      rw [← hkeep, getCharge_project l mask _ (by rw [hkeep]; exact hkq), hl])
    exact ⟨this.1, this.2.trans h0.2⟩

theorem WFP_foldl_projStep (l : List (Nat × List Bool)) (a : ArrS) (h : WFP a)
    (hlt : ∀ am ∈ l, am.1 < a.legs.length) : WFP (l.foldl projStep a) := by
  induction l generalizing a with
  | nil => exact h
  | cons am l ih =>
    simp only [List.foldl_cons]
    have hk := hlt am (by simp)
    apply ih
    · have := WFP_projStep h hk am.2
      exact this
    · intro am' ham'
      rw [projStep_legs_length]
      exact hlt am' (by simp [ham'])

theorem WFP_iproject {a b : ArrS} {masks : List (List Bool)} {axes : List Int} (h : WFP a)
    (hb : a.iproject masks axes = some b) : WFP b := by
  unfold ArrS.iproject at hb
  cases hax : axes.mapM a.legIndex with
  | none => simp [hax] at hb
  | some axn =>
    simp only [hax] at hb
    split at hb
    · cases hb
    · simp only [Option.some.injEq] at hb
      subst hb
      apply WFP_foldl_projStep _ a h
      intro am ham
      have := (List.of_mem_zip ham).1
      obtain ⟨j, _, hj⟩ := mapM_some_mem hax am.1 this
      exact legIndex_lt hj

end TenpyModel.C02P2
