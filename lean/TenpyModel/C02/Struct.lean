import TenpyModel.Core.Pipe
/-
C02 structure-only model of `tenpy.linalg.np_conserved.Array` (no values):
legs (plain `LegCharge` or `LegPipe`), `qtotal`, `_qdata` rows in stored order, `_qdata_sorted`.
Every operation is modelled "as coded" at the level of which rows exist, in which order, which flags are set.
Where the code's row set depends on values (ipurge_zeros, element assignment through `__setitem__`),
the value predicate is an explicit argument (`nz : List Bool`, one entry per stored block).
In-place methods return the new value of their target(s).
`none` = the code raises.
-/
namespace TenpyModel.C02
open TenpyModel.Core

/-- a leg of an Array: a `LegCharge` or a `LegPipe` -/
inductive LegS where
  | plain (l : Leg)
  | pipe (p : Pipe)
deriving Repr, DecidableEq

namespace LegS
def leg : LegS → Leg
  | plain l => l
  | pipe p => p.leg
/-- `LegCharge.conj` / `LegPipe.conj` -/
def conj : LegS → LegS
  | plain l => plain l.conj
  | pipe p => pipe p.conj
/-- `LegPipe.to_LegCharge` (identity on a LegCharge) -/
def toPlain (l : LegS) : LegS := plain l.leg
def blockNumber (l : LegS) : Nat := l.leg.blockNumber
def isPipe : LegS → Bool
  | plain _ => false
  | pipe _ => true
end LegS

structure ArrS where
  legs   : List LegS
  qtotal : Charge
  qdata  : List (List Nat)     -- one row per stored block, stored order
  sorted : Bool                -- `_qdata_sorted`
deriving Repr, DecidableEq

/-! ## order of rows, small list helpers -/

/-- strict order on *reversed* rows (most significant entry first) -/
def revLT : List Nat → List Nat → Bool
  | x :: xs, y :: ys => decide (x < y) || (x == y && revLT xs ys)
  | _, _ => false

/-- strict row order of `np.lexsort(qdata.T)`: the LAST column is the most significant -/
def rowLT (a b : List Nat) : Bool := revLT a.reverse b.reverse
def rowLE (a b : List Nat) : Bool := !rowLT b a

def pairwiseB (r : α → α → Bool) : List α → Bool
  | [] => true
  | x :: xs => xs.all (r x) && pairwiseB r xs

/-- `np.lexsort(rows.T) == arange` -/
def rowsSorted (rows : List (List Nat)) : Bool := pairwiseB rowLE rows
def rowsNodup (rows : List (List Nat)) : Bool := pairwiseB (fun a b => a != b) rows

/-- rows lexsorted (stable), as `rows[np.lexsort(rows.T)]` -/
def sortRows (rows : List (List Nat)) : List (List Nat) := stableSort rowLE rows

def insertAt (i : Nat) (x : α) (l : List α) : List α := l.take i ++ x :: l.drop i
def selectCols (cols : List Nat) (r : List α) (d : α) : List α := cols.map (fun c => r.getD c d)
/-- first element of every run of equal consecutive rows (`rows[_find_row_differences(rows)[:-1]]`) -/
def dedupAdj [DecidableEq α] : List α → List α
  | [] => []
  | [x] => [x]
  | x :: y :: rest => if x = y then dedupAdj (y :: rest) else x :: dedupAdj (y :: rest)
/-- ordered-dict insertion order of keys (`dict.setdefault`) -/
def dedupKeep [DecidableEq α] (l : List α) : List α :=
  l.foldl (fun acc x => if x ∈ acc then acc else acc ++ [x]) []
/-- runs of consecutive rows with equal key: list of `(key, members)` -/
def groupRuns [DecidableEq κ] (key : α → κ) : List α → List (κ × List α)
  | [] => []
  | x :: xs =>
    match groupRuns key xs with
    | (k, g) :: rest => if key x = k then (k, x :: g) :: rest else (key x, [x]) :: (k, g) :: rest
    | [] => [(key x, [x])]

/-! ## basic accessors -/
def nilLeg : Leg := { mods := [], slices := [0], charges := [], qconj := 1, sorted := true, bunched := true }

namespace ArrS

def rank (a : ArrS) : Nat := a.legs.length
def legSAt (a : ArrS) (k : Nat) : LegS := match a.legs[k]? with
  | some l => l
  | none => .plain nilLeg
def legAt (a : ArrS) (k : Nat) : Leg := (a.legSAt k).leg
/-- `chinfo.mod` (read from the first leg, as `Array.__init__`) -/
def modsOf (legs : List LegS) : List Nat :=
  match legs with
  | [] => []
  | l :: _ => l.leg.mods
def mods (a : ArrS) : List Nat := modsOf a.legs
def shape (a : ArrS) : List Nat := a.legs.map (fun l => l.leg.indLen)
def qshape (a : ArrS) : List Nat := a.legs.map LegS.blockNumber

end ArrS

/-- `Σ_l legs[l].get_charge(row[l])` (no make_valid) -/
def rawCharge (qn : Nat) (legs : List LegS) (r : List Nat) : Charge :=
  csum qn (List.zipWith (fun (l : LegS) q => l.leg.getCharge q) legs r)

/-- `Array._get_block_charge` -/
def blockCharge (mods : List Nat) (legs : List LegS) (r : List Nat) : Charge :=
  makeValid mods (rawCharge mods.length legs r)

def rowInRange (legs : List LegS) (r : List Nat) : Bool :=
  r.length == legs.length && (List.zipWith (fun (l : LegS) q => decide (q < l.blockNumber)) legs r).all id

/-! ## pipes: the invariants of a `LegPipe` that `split_legs` relies on (decidable; they hold for every
pipe built by `LegPipe.__init__`, which is C06's subject and is re-checked on every pipe seen at run time) -/

def pipeRowOk (p : Pipe) (row : List Nat) : Bool :=
  let sub := row.drop 3
  let is := row.getD 2 0
  row.length == 3 + p.legs.length
  && decide (is < p.leg.blockNumber)
  && rowInRange (p.legs.map LegS.plain) sub
  && makeValid p.leg.mods (p.leg.getCharge is)
      == blockCharge p.leg.mods (p.legs.map LegS.plain) sub

def Pipe.ok (p : Pipe) : Bool :=
  !p.legs.isEmpty
  && p.legs.all (fun l => l.sane && l.mods == p.leg.mods)
  && p.qMap.all (pipeRowOk p)
  && rowsNodup (p.qMap.map (fun r => r.drop 3))
  && p.qMapSlices.length == p.leg.blockNumber + 1
  && p.qMapSlices.getLastD 0 == p.qMap.length
  -- rows `[qMapSlices[I], qMapSlices[I+1])` are the rows of sector `I`
  && (List.range p.leg.blockNumber).all (fun i =>
        let b := p.qMapSlices.getD i 0
        let e := p.qMapSlices.getD (i + 1) 0
        decide (b ≤ e) && decide (e ≤ p.qMap.length)
        && ((p.qMap.drop b).take (e - b)).all (fun r => r.getD 2 0 == i))

def LegS.ok : LegS → Bool
  | .plain l => l.sane
  | .pipe p => p.leg.sane && Pipe.ok p

/-! ## well-formedness = `Array.test_sanity()` at optimisation level 0 (structure part)
 + truthful flags + pairwise distinct rows -/

def wfB (a : ArrS) : Bool :=
  !a.legs.isEmpty
  && a.mods.all (fun m => decide (1 ≤ m))
  && a.legs.all (fun l => l.ok && l.leg.mods == a.mods)
  && checkValid a.mods a.qtotal
  && a.qdata.all (fun r => rowInRange a.legs r && blockCharge a.mods a.legs r == a.qtotal)
  && rowsNodup a.qdata
  && (!a.sorted || rowsSorted a.qdata)

def ArrS.WF (a : ArrS) : Prop := wfB a = true
instance (a : ArrS) : Decidable a.WF := by unfold ArrS.WF; infer_instance

/-! ## constructors -/

/-- `Array._iter_all_blocks`: all block index tuples, FIRST index running fastest -/
def gridF : List Nat → List (List Nat)
  | [] => [[]]
  | n :: rest => (gridF rest).flatMap (fun t => (List.range n).map (fun i => i :: t))

/-- `Array.__init__` / `npc.zeros` -/
def zeros (legs : List LegS) (qtotal : Option Charge) : Option ArrS :=
  if legs.isEmpty then none else
  let mods := ArrS.modsOf legs
  some { legs, qtotal := makeValid mods (qtotal.getD (czero mods.length)), qdata := [], sorted := true }

/-- `Array.from_func` / `from_ndarray` / `npc.ones`: every block compatible with `qtotal`, in `_iter_all_blocks` order -/
def fromFunc (legs : List LegS) (qtotal : Option Charge) : Option ArrS :=
  match zeros legs qtotal with
  | none => none
  | some z =>
    some { z with qdata := (gridF (legs.map LegS.blockNumber)).filter
                              (fun r => blockCharge z.mods legs r == z.qtotal) }

/-- `npc.diag(s, leg)` / `eye_like` -/
def diag (l : LegS) : ArrS :=
  { legs := [l, l.conj], qtotal := czero l.leg.mods.length,
    qdata := (List.range l.blockNumber).map (fun i => [i, i]), sorted := true }

namespace ArrS

def copy (a : ArrS) : ArrS := a
def zerosLike (a : ArrS) : ArrS := { a with qdata := [], sorted := true }

/-! ## axes -/

/-- `get_leg_index` for an integer (as REPAIRED: `label >= rank` is rejected; the code under test has `>`) -/
def legIndex (a : ArrS) (i : Int) : Option Nat :=
  let j := if i < 0 then i + a.rank else i
  if j < 0 then none else if j ≥ a.rank then none else some j.toNat

/-! ## transposition -/

def permuteAxes (a : ArrS) (axes : List Nat) : ArrS :=
  { a with legs := axes.filterMap (fun i => a.legs[i]?),
           qdata := a.qdata.map (fun r => selectCols axes r 0),
           sorted := false }

/-- `itranspose(axes)`; `axes = none` reverses -/
def itranspose (a : ArrS) (axes : Option (List Int)) : Option ArrS :=
  match axes with
  | none => some (a.permuteAxes (List.range a.rank).reverse)
  | some ax =>
    match ax.mapM a.legIndex with
    | none => none
    | some ax =>
      if ax.length ≠ a.rank || !ax.Nodup then none
      else if ax == List.range a.rank then some a
      else some (a.permuteAxes ax)

def iswapaxes (a : ArrS) (i j : Int) : Option ArrS :=
  match a.legIndex i, a.legIndex j with
  | some i, some j =>
    if i = j then some a
    else some (a.permuteAxes ((List.range a.rank).map (fun k => if k = i then j else if k = j then i else k)))
  | _, _ => none

/-! ## conj -/

def conj (a : ArrS) : ArrS :=
  { a with qtotal := makeValid a.mods (cneg a.qtotal), legs := a.legs.map LegS.conj }

/-! ## take_slice, add_trivial_leg, squeeze -/

/-- `take_slice(indices, axes)`; as REPAIRED: repeated axes are rejected (the code under test accepts them and
subtracts the charge twice) -/
def takeSlice (a : ArrS) (indices : List Int) (axes : List Int) : Option ArrS :=
  match axes.mapM a.legIndex with
  | none => none
  | some axes =>
    if axes.length ≠ indices.length then none
    else if !axes.Nodup then none
    else if axes.isEmpty then some a
    else
      match (axes.zip indices).mapM (fun ai => ((a.legAt ai.1).getQindex ai.2)) with
      | none => none
      | some pos =>
        let qis := pos.map (·.1)
        let keep := (List.range a.rank).filter (fun k => !axes.contains k)
        if keep.isEmpty then none else
        let removed := (axes.zip qis).map (fun aq => (a.legAt aq.1).getCharge aq.2)
        some { legs := keep.filterMap (fun k => a.legs[k]?),
               qtotal := makeValid a.mods (removed.foldl (fun acc c => cadd acc (cneg c)) a.qtotal),
               qdata := (a.qdata.filter (fun r => selectCols axes r 0 == qis)).map (fun r => selectCols keep r 0),
               sorted := a.sorted }

/-- `add_trivial_leg(axis, qconj)`; python `list.insert`/slice semantics for the position -/
def addTrivialLeg (a : ArrS) (axis : Int) (qconj : Int) : ArrS :=
  let ax : Int := if axis < 0 then axis + a.rank else axis
  -- python: a negative position counts from the end (insert before), beyond the ends clamps
  let pos : Nat := if ax < 0 then (ax + a.rank).toNat else min ax.toNat a.rank
  let leg := Leg.fromQflat a.mods [czero a.mods.length] qconj
  { a with legs := insertAt pos (.plain leg) a.legs, qdata := a.qdata.map (insertAt pos 0) }

/-- `squeeze(axes)`; `axes = none`: all legs of length 1. `some none` = scalar result (all legs squeezed) -/
def squeeze (a : ArrS) (axes : Option (List Int)) : Option (Option ArrS) :=
  let axes? : Option (List Nat) := match axes with
    | none => some ((List.range a.rank).filter (fun k => a.shape.getD k 0 == 1))
    | some ax => ax.mapM a.legIndex
  match axes? with
  | none => none
  | some axes =>
    if axes.any (fun k => a.shape.getD k 0 != 1) then none else
    let keep := (List.range a.rank).filter (fun k => !axes.contains k)
    if keep.isEmpty then some none else
    let removed := axes.map (fun k => (a.legAt k).getCharge 0)
    some (some { legs := keep.filterMap (fun k => a.legs[k]?),
                 qtotal := makeValid a.mods (removed.foldl (fun acc c => cadd acc (cneg c)) a.qtotal),
                 qdata := a.qdata.map (fun r => selectCols keep r 0),
                 sorted := a.sorted })

/-! ## sorting of rows, purging, scaling -/

def isortQdata (a : ArrS) : ArrS :=
  if a.sorted then a
  else if a.qdata.length < 2 then { a with sorted := true }
  else { a with qdata := sortRows a.qdata, sorted := true }

/-- `ipurge_zeros`: `keep[i]` = block `i` has norm above the cutoff -/
def ipurgeZeros (a : ArrS) (keep : List Bool) : ArrS :=
  if a.qdata.isEmpty then a
  else { a with qdata := ((a.qdata.zip keep).filter (·.2)).map (·.1) }

def iscalePrefactor (a : ArrS) (isZero : Bool) : ArrS :=
  if isZero then { a with qdata := [], sorted := true } else a

/-! ## element assignment -/

/-- `get_block(qindices, insert=True)`: `none` = IndexError (charges incompatible) -/
def insertBlock (a : ArrS) (row : List Nat) : Option ArrS :=
  if blockCharge a.mods a.legs row != a.qtotal then none
  else if a.qdata.contains row then some a
  else some { a with qdata := a.qdata ++ [row], sorted := false }

/-- `a[i_1, …, i_n] = x` (all integer) -/
def setItem (a : ArrS) (idx : List Int) : Option ArrS :=
  if idx.length ≠ a.rank then none else
  match (a.legs.zip idx).mapM (fun li => li.1.leg.getQindex li.2) with
  | none => none
  | some pos => a.insertBlock (pos.map (·.1))

/-- blocks of `src` re-inserted one by one into the empty array `dst` with `__setitem__` (used by
`add_leg`, `add_charge`, `drop_charge`): each insertion appends (flag off), `ipurge_zeros(0.)` removes
the all-zero ones -/
def reinsert (dst : ArrS) (rows : List (List Nat)) (nz : List Bool) : ArrS :=
  { dst with qdata := ((rows.zip nz).filter (·.2)).map (·.1), sorted := dst.sorted && rows.isEmpty }

/-- `add_leg(leg, i, axis)` -/
def addLeg (a : ArrS) (leg : LegS) (i : Int) (axis : Int) (nz : List Bool) : Option ArrS :=
  let ax : Int := if axis < 0 then axis + a.rank else axis
  if ax < 0 || ax > a.rank then none else
  let pos := ax.toNat
  match leg.leg.getQindex i with
  | none => none
  | some (qi, _) =>
    match zeros (insertAt pos leg a.legs) (some (cadd a.qtotal (leg.leg.getCharge qi))) with
    | none => none
    | some z => some (reinsert z (a.qdata.map (insertAt pos qi)) nz)

/-! ## changing legs -/

def setLeg (legs : List LegS) (k : Nat) (l : LegS) : List LegS := legs.set k l

/-- `extend(axis, extra)` -/
def extend (a : ArrS) (axis : Int) (extra : Leg) : Option ArrS :=
  match a.legIndex axis with
  | none => none
  | some k => some { a with legs := setLeg a.legs k (.plain ((a.legAt k).extend extra)) }

/-- `a.legs[k] = a.legs[k].flip_charges_qconj()` (as done in `mpo.py`): same physical charges, so rows and
`qtotal` stay; a pipe is replaced by `outer_conj()` (its incoming legs are kept) -/
def flipLeg (a : ArrS) (k : Nat) : Option ArrS :=
  match a.legs[k]? with
  | none => none
  | some (.plain l) => some { a with legs := setLeg a.legs k (.plain l.flipChargesQconj) }
  | some (.pipe p) => some { a with legs := setLeg a.legs k (.pipe p.outerConj) }

/-! ### `apply_charge_mapping` / `shift_charges` -/

/-- `charges ↦ make_valid(k * charges)` (a homomorphism, used as `map_func` of `apply_charge_mapping`) -/
def scaleMap (mods : List Nat) (k : Int) (c : Charge) : Charge := makeValid mods (cscale k c)

/-- `DipolarChargeInfo.shift_charges(_horizontal)`: `c[d] += dx * c[q]` for every (charge, dipole) index pair -/
def shiftMap (mods : List Nat) (pairs : List (Nat × Nat)) (dx : Int) (c : Charge) : Charge :=
  makeValid mods (pairs.foldl (fun (acc : Charge) p => acc.set p.2 (acc.getD p.2 0 + dx * acc.getD p.1 0)) c)

/-- `LegCharge.apply_charge_mapping`: both flags are reset -/
def mapLegCharges (f : Charge → Charge) (l : Leg) : Leg :=
  { l with charges := l.charges.map f, sorted := false, bunched := false }

/-- `LegPipe.apply_charge_mapping`: the pipe and its incoming legs are mapped, `q_map` is kept -/
def mapLegSCharges (f : Charge → Charge) : LegS → LegS
  | .plain l => .plain (mapLegCharges f l)
  | .pipe p => .pipe { p with leg := mapLegCharges f p.leg, legs := p.legs.map (mapLegCharges f) }

/-- `Array.apply_charge_mapping(map_func)`: a shallow copy (or self) with mapped legs and `qtotal`; rows and flag stay -/
def applyChargeMapping (a : ArrS) (f : Charge → Charge) : ArrS :=
  { a with legs := a.legs.map (mapLegSCharges f), qtotal := f a.qtotal }

/-- `gauge_total_charge(axis, newqtotal, new_qconj)` -/
def gaugeTotalCharge (a : ArrS) (axis : Int) (newq : Option Charge) (newQconj : Option Int) : Option ArrS :=
  match a.legIndex axis with
  | none => none
  | some k =>
    let old := (a.legAt k)
    let nqc := newQconj.getD old.qconj
    if nqc ≠ 1 && nqc ≠ -1 then none else
    let nq := makeValid a.mods (newq.getD (czero a.mods.length))
    let chdiff := cadd nq (cneg a.qtotal)
    let ch1 := old.charges.map (fun c => cadd c (cscale old.qconj chdiff))
    let ch2 := if old.qconj ≠ nqc then ch1.map cneg else ch1
    let ch3 := ch2.map (makeValid a.mods)
    some { a with qtotal := nq, legs := setLeg a.legs k (.plain (Leg.fromQind a.mods old.slices ch3 nqc)) }

/-- `iproject(masks, axes)` with boolean masks -/
def iproject (a : ArrS) (masks : List (List Bool)) (axes : List Int) : Option ArrS :=
  match axes.mapM a.legIndex with
  | none => none
  | some axes =>
    if axes.length ≠ masks.length then none else
    some ((axes.zip masks).foldl (fun (acc : ArrS) am =>
      let l := (acc.legAt am.1)
      let pr := l.project am.2
      let mapQ := pr.1
      { acc with legs := setLeg acc.legs am.1 (.plain pr.2.2),
                 qdata := (acc.qdata.filter (fun r => decide (mapQ.getD (r.getD am.1 0) (-1) ≥ 0))).map
                            (fun r => r.set am.1 (mapQ.getD (r.getD am.1 0) 0).toNat) }) a)

/-- `permute(perm, axis)` (`perm` a permutation of the indices of the leg) -/
def permute (a : ArrS) (perm : List Nat) (axis : Int) : Option ArrS :=
  match a.legIndex axis with
  | none => none
  | some k =>
    let old := (a.legAt k)
    if perm.length ≠ old.indLen then none else
    let invp := inversePerm perm
    let qf := old.toQflat
    let newleg := (Leg.fromQflat a.mods (take? qf perm []) old.qconj).bunch.2
    let keys := (List.range old.blockNumber).flatMap (fun oq =>
      (a.qdata.filter (fun r => r.getD k 0 == oq)).flatMap (fun r =>
        let b := old.slices.getD oq 0
        let e := old.slices.getD (oq + 1) 0
        (List.range (e - b)).map (fun d =>
          let inew := invp.getD (b + d) 0
          let qn := match newleg.getQindex inew with
            | some (q, _) => q
            | none => 0
          r.set k qn)))
    some { a with legs := setLeg a.legs k (.plain newleg), qdata := dedupKeep keys, sorted := false }

/-! ## charges -/

/-- `LegCharge.from_add_charge([l1, l2])` for legs with equal slices -/
def legAddCharge (l1 l2 : Leg) : Leg :=
  Leg.fromQind (l1.mods ++ l2.mods) l1.slices (List.zipWith (· ++ ·) l1.charges l2.charges) l1.qconj

/-- `add_charge(add_legs, qtotal=q2)` for `add_legs` with the slices of the legs of `a` -/
def addCharge (a : ArrS) (addLegs : List Leg) (q2 : Charge) (nz : List Bool) : Option ArrS :=
  if addLegs.length ≠ a.rank then none else
  if (a.legs.zip addLegs).any (fun ll => ll.1.leg.slices != ll.2.slices || ll.1.leg.qconj != ll.2.qconj) then none else
  let legs := (a.legs.zip addLegs).map (fun ll => LegS.plain (legAddCharge ll.1.leg ll.2))
  match zeros legs (some (a.qtotal ++ q2)) with
  | none => none
  | some z => some (reinsert z a.qdata nz)

def dropIdx (k : Nat) (l : List α) : List α := l.take k ++ l.drop (k + 1)

/-- `LegCharge.from_drop_charge(leg, k)` -/
def legDropCharge (l : Leg) (k : Nat) : Leg :=
  Leg.fromQind (dropIdx k l.mods) l.slices (l.charges.map (dropIdx k)) l.qconj

/-- `drop_charge(charge=k)` -/
def dropCharge (a : ArrS) (k : Nat) : Option ArrS :=
  if k ≥ a.mods.length then none else
  some { a with legs := a.legs.map (fun l => .plain (legDropCharge l.leg k)), qtotal := dropIdx k a.qtotal }

/-- `drop_charge(charge=None)`: every leg becomes one trivial block -/
def dropChargeAll (a : ArrS) (nz : List Bool) : ArrS :=
  let legs := a.legs.map (fun l => LegS.plain (Leg.fromTrivial l.leg.indLen [] l.leg.qconj))
  { legs, qtotal := [],
    qdata := if (a.qdata.zip nz).any (·.2) then [a.legs.map (fun _ => 0)] else [],
    sorted := a.qdata.isEmpty }

/-- `LegCharge.from_change_charge(leg, k, newMod)` -/
def legChangeCharge (l : Leg) (k : Nat) (newMod : Nat) : Leg :=
  let mods := l.mods.set k newMod
  Leg.fromQind mods l.slices (l.charges.map (makeValid mods)) l.qconj

/-- `change_charge(k, newMod)` as REPAIRED (`qtotal` is made valid for the new modulus; the code under
test keeps the old `qtotal`) -/
def changeCharge (a : ArrS) (k : Nat) (newMod : Nat) : Option ArrS :=
  if k ≥ a.mods.length || newMod = 0 then none else
  some { a with legs := a.legs.map (fun l => .plain (legChangeCharge l.leg k newMod)),
                qtotal := makeValid (a.mods.set k newMod) a.qtotal }

/-! ## binary block-wise operations: merge of two lexsorted row lists -/

/-- F-style key `Σ q_i * stride_i` used by the merge loops -/
def keyF (qshape : List Nat) (r : List Nat) : Nat := dot r (makeStrideF qshape)

/-- the `while i < Na or j < Nb` loop of `ibinary_blockwise` / `Array_iadd_prefactor_other` -/
def mergeKeys (key : List Nat → Nat) : List (List Nat) → List (List Nat) → List (List Nat)
  | [], bs => bs
  | as, [] => as
  | x :: xs, y :: ys =>
    if key x = key y then x :: mergeKeys key xs ys
    else if key x > key y then y :: mergeKeys key (x :: xs) ys
    else x :: mergeKeys key xs (y :: ys)
termination_by as bs => as.length + bs.length

def legsEqual (a b : ArrS) : Bool :=
  a.rank == b.rank && (a.legs.zip b.legs).all (fun ll => ll.1.leg.testEqual ll.2.leg)

/-- `other._transpose_same_labels(self._labels)`: `perm = some axes` when the labels of `other` are those of
`self` in a different order (then `other.transpose(axes)`, a deep copy) -/
def transposeSame (b : ArrS) (perm : Option (List Nat)) : ArrS :=
  match perm with
  | none => b
  | some axes => b.permuteAxes axes

/-- `ibinary_blockwise(func, other)`: returns (new self, new other): `other` itself is lexsorted in place
unless it had to be transposed (then a copy was sorted) -/
def ibinary (a b : ArrS) (perm : Option (List Nat)) : Option (ArrS × ArrS) :=
  let o := transposeSame b perm
  if !legsEqual a o || a.qtotal != o.qtotal then none else
  let a1 := a.isortQdata
  let o1 := o.isortQdata
  let rows := if a1.qdata == o1.qdata then a1.qdata else mergeKeys (keyF a.qshape) a1.qdata o1.qdata
  some ({ a1 with qdata := rows }, if perm.isSome then b else o1)

/-- `iadd_prefactor_other(prefactor, other)`; `cy` selects the compiled twin (as REPAIRED: label transposition
first, as in the Python version). `isZero`: `prefactor == 0`. -/
def iaddPrefactorOther (cy : Bool) (a b : ArrS) (perm : Option (List Nat)) (isZero : Bool) : Option (ArrS × ArrS) :=
  if cy then
    let o := transposeSame b perm
    if !legsEqual a o || a.qtotal != o.qtotal then none
    else if isZero then some (a, b)
    else ibinary a b perm
  else
    -- python: `other.__mul__(prefactor)` is a scaled deep copy; `other` itself is untouched
    match ibinary a (b.iscalePrefactor isZero) perm with
    | none => none
    | some (a', _) => some (a', b)

/-! ## combine_legs / split_legs / sort_legcharge -/

/-- `_combine_legs_new_axes` → `(new_axes, transp)` -/
def combineNewAxes (rank : Nat) (groups : List (List Nat)) (newAxes : Option (List Int)) :
    Option (List Nat × List Nat) :=
  let all := groups.flatten
  let nonComb := (List.range rank).filter (fun k => !all.contains k)
  let na? : Option (List Nat) := match newAxes with
    | none =>
      let first := groups.map (fun g => g.headD 0)
      some (first.map (fun f => (nonComb.filter (· < f)).length + (first.filter (· < f)).length))
    | some na =>
      if na.length ≠ groups.length then none else
      let newRank : Int := groups.length + nonComb.length
      na.mapM (fun x => if x < 0 then (if x + newRank < 0 then none else some (x + newRank).toNat)
                        else if x ≥ newRank then none else some x.toNat)
  match na? with
  | none => none
  | some na =>
    -- `for s in argsort(new_axes): transp.insert(new_axes[s], combine_legs[s])`
    let order := (List.range na.length).mergeSort (fun i j => na.getD i 0 ≤ na.getD j 0)
    let tr := order.foldl (fun (t : List (List Nat)) s => insertAt (min (na.getD s 0) t.length) (groups.getD s []) t)
                (nonComb.map (fun k => [k]))
    some (na, tr.flatten)

/-- standard form (`transp` is the identity, `newAxes` ascending): the data part of `combine_legs` -/
def combineStd (a : ArrS) (groups : List (List Nat)) (newAxes : List Nat) (pipes : List Pipe) : Option ArrS :=
  let all := groups.flatten
  let nonComb := (List.range a.rank).filter (fun k => !all.contains k)
  let legs0 := nonComb.filterMap (fun k => a.legs[k]?)
  let legs := (newAxes.zip pipes).foldl (fun (ls : List LegS) np => insertAt (min np.1 ls.length) (.pipe np.2) ls) legs0
  match zeros legs (some a.qtotal) with
  | none => none
  | some z =>
    let mapRow := fun (r : List Nat) =>
      let base := selectCols nonComb r 0
      ((newAxes.zip (groups.zip pipes)).foldl (fun (row : List Nat) ngp =>
          let p := ngp.2.2
          let j := p.mapIncomingQind (selectCols ngp.2.1 r 0)
          insertAt (min ngp.1 row.length) ((p.qMap.getD j []).getD 2 0) row) base)
    match a.qdata with
    | [] => some z
    | [r] => some { z with qdata := [mapRow r], sorted := true }
    | rows => some { z with qdata := dedupAdj (sortRows (rows.map mapRow)), sorted := true }

/-- `combine_legs(groups, new_axes, pipes)` with the pipes already made (`_combine_legs_make_pipes`) -/
def combineWithPipes (a : ArrS) (groups : List (List Nat)) (newAxes : Option (List Int)) (pipes : List Pipe) :
    Option ArrS :=
  if groups.isEmpty || groups.any (·.isEmpty) || pipes.length ≠ groups.length then none else
  if groups.flatten.any (· ≥ a.rank) || !groups.flatten.Nodup then none else
  match combineNewAxes a.rank groups newAxes with
  | none => none
  | some (na, transp) =>
    if !na.Nodup then none else
    let order := (List.range na.length).mergeSort (fun i j => na.getD i 0 ≤ na.getD j 0)
    let groups' := order.map (fun s => groups.getD s [])
    let pipes' := order.filterMap (fun s => pipes[s]?)
    let na' := order.map (fun s => na.getD s 0)
    if transp == List.range a.rank then combineStd a groups' na' pipes'
    else
      let a' := a.permuteAxes transp
      let inv := inversePerm transp
      combineStd a' (groups'.map (fun g => g.map (fun k => inv.getD k 0))) na' pipes'

/-- `combine_legs(groups, new_axes, pipes=given)`: `_combine_legs_make_pipes` for provided pipes — the pipe is
conjugated when its first incoming leg points the other way; the incoming legs must then be `test_equal` -/
def combineGivenPipes (a : ArrS) (groups : List (List Nat)) (newAxes : Option (List Int)) (pipes : List Pipe) :
    Option ArrS :=
  if pipes.length ≠ groups.length || groups.flatten.any (· ≥ a.rank) then none else
  let fixed := (groups.zip pipes).map (fun gp =>
    let legs := gp.1.map (fun k => a.legAt k)
    let p := if (legs.headD nilLeg).qconj ≠ (gp.2.legs.headD nilLeg).qconj then gp.2.conj else gp.2
    (p, decide (p.legs.length = legs.length) && (legs.zip p.legs).all (fun ll => ll.1.testEqual ll.2)))
  if fixed.any (fun x => !x.2) then none
  else combineWithPipes a groups newAxes (fixed.map (·.1))

/-- pipes as made by `make_pipe(axes, qconj=…)` (sort and bunch on) -/
def makePipes (a : ArrS) (groups : List (List Nat)) (qconjs : List (Option Int)) : List Pipe :=
  (groups.zip qconjs).map (fun gq =>
    let legs := gq.1.filterMap (fun k => (a.legs[k]?).map LegS.leg)
    Pipe.init legs (gq.2.getD ((legs.headD nilLeg).qconj)) true true)

/-- `combine_legs(groups, new_axes, qconj=…)` -/
def combineLegs (a : ArrS) (groups : List (List Nat)) (newAxes : Option (List Int)) (qconjs : List (Option Int)) :
    Option ArrS :=
  if qconjs.length ≠ groups.length then none else
  if groups.flatten.any (· ≥ a.rank) then none else
  combineWithPipes a groups newAxes (makePipes a groups qconjs)

/-- `sort_legcharge(sort, bunch)` with boolean lists -/
def sortLegcharge (a : ArrS) (sort bunch : List Bool) : Option ArrS :=
  if sort.length ≠ a.rank || bunch.length ≠ a.rank then none else
  let axes := (List.range a.rank).filter (fun k => sort.getD k false || bunch.getD k false)
  if axes.isEmpty then none  -- `combine_legs([])` raises IndexError
  else
    let pipes := axes.map (fun k =>
      let l := (a.legAt k)
      Pipe.init [l] l.qconj (sort.getD k false) (bunch.getD k false))
    match combineWithPipes a (axes.map (fun k => [k])) none pipes with
    | none => none
    | some cp => some { cp with legs := (List.range cp.legs.length).filterMap (fun k =>
        (cp.legs[k]?).map (fun l => if axes.contains k then l.toPlain else l)) }

/-- C-order multi-indices of ranges `[b_j, e_j)` -/
def rangesC : List (Nat × Nat) → List (List Nat)
  | [] => [[]]
  | (b, e) :: rest => (List.range (e - b)).flatMap (fun i => (rangesC rest).map (fun t => (b + i) :: t))

/-- `split_legs(axes)`; `axes = none`: all pipes -/
def splitLegs (a : ArrS) (axes : Option (List Int)) : Option ArrS :=
  let axes? : Option (List Nat) := match axes with
    | none => some ((List.range a.rank).filter (fun k => (a.legSAt k).isPipe))
    | some ax => (ax.mapM a.legIndex).map (fun l => l.mergeSort (· ≤ ·))
  match axes? with
  | none => none
  | some axes =>
    if !axes.Nodup || axes.any (fun k => !(a.legSAt k).isPipe) then none else
    if axes.isEmpty then some a else
    let pipeAt := fun (k : Nat) => match a.legSAt k with
      | .pipe p => p
      | .plain l => Pipe.init [l] 1 false false
    let newLegs := (List.range a.rank).flatMap (fun k =>
      if axes.contains k then (pipeAt k).legs.map LegS.plain else (a.legs[k]?).toList)
    let pipes := axes.map pipeAt
    let substRow := fun (r : List Nat) (qrows : List Nat) =>
      (List.range a.rank).flatMap (fun k =>
        if axes.contains k then (((pipeAt k).qMap.getD (qrows.getD (axes.idxOf k) 0) []).drop 3) else [r.getD k 0])
    match a.qdata with
    | [] => some { a with legs := newLegs }
    | rows =>
      if rows.length == 1 && pipes.all (fun p => p.qMap.length == 1) then
        some { a with legs := newLegs, qdata := rows.map (fun r => substRow r (axes.map (fun _ => 0))) }
      else
        some { legs := newLegs, qtotal := a.qtotal, sorted := false,
               qdata := rows.flatMap (fun r =>
                 let rng := axes.map (fun k =>
                   let sl := (pipeAt k).qMapSlices
                   (sl.getD (r.getD k 0) 0, sl.getD (r.getD k 0 + 1) 0))
                 (rangesC rng).map (substRow r)) }

end ArrS

/-! ## functions of several arrays -/

def legsContractible (la lb : List LegS) : Bool :=
  la.length == lb.length && (la.zip lb).all (fun ll => ll.1.leg.testContractible ll.2.leg)

/-- `npc.concatenate(arrays, axis)` -/
def concatenate (arrs : List ArrS) (axis : Int) : Option ArrS :=
  match arrs with
  | [] => none
  | a0 :: _ =>
    match a0.legIndex axis with
    | none => none
    | some k =>
      let leg0 := (a0.legAt k)
      let okOne := fun (a : ArrS) =>
        a.rank == a0.rank && a.qtotal == a0.qtotal
        && (List.range a0.rank).all (fun j => j == k ||
              ((a.legAt j).testEqual (a0.legAt j)))
      if !arrs.all okOne then none else
      let legsK := arrs.map (fun a => (a.legAt k))
      let sizes := legsK.flatMap Leg.blockSizes
      let charges := legsK.flatMap (fun l =>
        if l.qconj = leg0.qconj then l.charges else l.charges.map (fun c => makeValid a0.mods (cneg c)))
      let shifts := (legsK.map Leg.blockNumber).foldl (fun (acc : List Nat × Nat) n => (acc.1 ++ [acc.2], acc.2 + n)) ([], 0)
      let rows := (arrs.zip shifts.1).flatMap (fun as => as.1.qdata.map (fun r => r.set k (r.getD k 0 + as.2)))
      some { legs := ArrS.setLeg a0.legs k (.plain (Leg.fromQind a0.mods (slicesOfSizes sizes) charges leg0.qconj)),
             qtotal := a0.qtotal, qdata := rows, sorted := false }

/-- `npc.outer(a, b)` -/
def outer (a b : ArrS) : Option ArrS :=
  if a.mods ≠ b.mods then none else
  some { legs := a.legs ++ b.legs, qtotal := makeValid a.mods (cadd a.qtotal b.qtotal),
         qdata := b.qdata.flatMap (fun rb => a.qdata.map (fun ra => ra ++ rb)),
         sorted := a.sorted && b.sorted }

/-- `_tensordot_transpose_axes` for `axes = (axes_a, axes_b)`; `cy`: the compiled twin always transposes
(its `axes_a != range(...)` test compares a list with a `range` object) -/
def tdTranspose (cy : Bool) (a b : ArrS) (axesA axesB : List Nat) : ArrS × ArrS :=
  let notA := (List.range a.rank).filter (fun k => !axesA.contains k)
  let notB := (List.range b.rank).filter (fun k => !axesB.contains k)
  let tr := fun (x : ArrS) (ax : List Nat) => if !cy && ax == List.range x.rank then x else x.permuteAxes ax
  (tr a (notA ++ axesA), tr b (axesB ++ notB))

/-- is there a common element of two ascending key lists (`_iter_common_sorted` non-empty) -/
def commonSorted : List Nat → List Nat → Bool
  | [], _ => false
  | _, [] => false
  | x :: xs, y :: ys =>
    if x < y then commonSorted xs (y :: ys)
    else if y < x then commonSorted (x :: xs) ys
    else true
termination_by as bs => as.length + bs.length

/-- standard form: contract the last `n` legs of `a` with the first `n` legs of `b`.
`some none` = scalar result (full contraction). -/
def tensordotStd (a b : ArrS) (n : Nat) : Option (Option ArrS) :=
  if a.mods ≠ b.mods || n > a.rank || n > b.rank then none else
  let cutA := a.rank - n
  if !legsContractible (a.legs.drop cutA) (b.legs.take n) then none else
  if n = a.rank && n = b.rank then some none else
  let legs := a.legs.take cutA ++ b.legs.drop n
  let qt := makeValid a.mods (cadd a.qtotal b.qtotal)
  let empty : ArrS := { legs, qtotal := qt, qdata := [], sorted := true }
  match a.qdata, b.qdata with
  | [], _ => some (some empty)
  | _, [] => some (some empty)
  | [ra], [rb] =>
    if ra.drop cutA == rb.take n then some (some { empty with qdata := [ra.take cutA ++ rb.drop n] })
    else some (some empty)
  | rowsA, rowsB =>
    if n = 0 then (outer a b).map some else
    let stride := makeStrideF ((a.legs.drop cutA).map LegS.blockNumber)
    let keyA := fun (r : List Nat) => dot (r.drop cutA) stride
    let keyB := fun (r : List Nat) => dot (r.take n) stride
    -- `np.lexsort` over the columns (contracted key, keep part): keep part dominates
    let sa := stableSort (fun (x y : List Nat) => rowLE (keyA x :: x.take cutA) (keyA y :: y.take cutA)) rowsA
    let sb := if b.sorted then rowsB
              else stableSort (fun (x y : List Nat) => rowLE (keyB x :: x.drop n) (keyB y :: y.drop n)) rowsB
    let ga := groupRuns (fun (r : List Nat) => r.take cutA) sa
    let gb := groupRuns (fun (r : List Nat) => r.drop n) sb
    let chA := fun (k : List Nat) => blockCharge a.mods (a.legs.take cutA) k
    -- `_partial_qtotal(b.legs[cut_b:], b_qdata_keep, -1, qtotal)`
    let chB := fun (k : List Nat) =>
      makeValid a.mods (cadd (cneg (rawCharge a.mods.length (b.legs.drop n) k)) qt)
    let rows := gb.flatMap (fun kb =>
      (ga.filter (fun ka => chA ka.1 == chB kb.1 && commonSorted (ka.2.map keyA) (kb.2.map keyB))).map
        (fun ka => ka.1 ++ kb.1))
    some (some { empty with qdata := rows })

/-- `npc.tensordot(a, b, axes)`: `axes = Sum.inl n` or `Sum.inr (axes_a, axes_b)` -/
def tensordot (cy : Bool) (a b : ArrS) (axes : Nat ⊕ (List Int × List Int)) : Option (Option ArrS) :=
  match axes with
  | .inl n => tensordotStd a b n
  | .inr (axA, axB) =>
    match axA.mapM a.legIndex, axB.mapM b.legIndex with
    | some axA, some axB =>
      if axA.length ≠ axB.length || !axA.Nodup || !axB.Nodup then none else
      let ab := tdTranspose cy a b axA axB
      tensordotStd ab.1 ab.2 axA.length
    | _, _ => none

/-- `npc.trace(a, leg1, leg2)`; `some none` = scalar -/
def trace (a : ArrS) (l1 l2 : Int) : Option (Option ArrS) :=
  match a.legIndex l1, a.legIndex l2 with
  | some i, some j =>
    if i = j then none else
    if !((a.legAt i).testContractible (a.legAt j)) then none else
    if a.rank = 2 then some none else
    let keep := (List.range a.rank).filter (fun k => k ≠ i && k ≠ j)
    let rows := dedupKeep ((a.qdata.filter (fun r => r.getD i 0 == r.getD j 0)).map (fun r => selectCols keep r 0))
    some (some { legs := keep.filterMap (fun k => a.legs[k]?), qtotal := a.qtotal, qdata := rows,
                 sorted := rows.isEmpty })
  | _, _ => none

end TenpyModel.C02
