import TenpyModel.C02.P2_Charges
/-!
# C02 / Props2 — `drop_charge(charge=None)`: every leg becomes one trivial block over the empty `chinfo`.
-/
namespace TenpyModel.C02P2
open TenpyModel.Core TenpyModel.C02

theorem getD_map_const' {α} (l : List α) (i : Nat) : (l.map (fun _ => 0)).getD i 0 = 0 := by
  by_cases hi : i < l.length
  · rw [getD_map' _ _ i (l[i]) 0 hi]
  · rw [getD_ge _ _ _ (by simpa using hi)]

theorem trivial_leg_sane (n : Nat) (qc : Int) (hq : qc = 1 ∨ qc = -1) : (Leg.fromTrivial n [] qc).sane = true := by
  have hv : ∀ c ∈ (Leg.fromTrivial n [] qc).charges, checkValid (Leg.fromTrivial n [] qc).mods c = true := by
    intro c hc
    simp only [Leg.fromTrivial, Leg.mk', List.mem_singleton] at hc
    subst hc
    rfl
  exact sane_mk rfl rfl hv hq (flags_le_one hv (by simp [Leg.fromTrivial, Leg.mk']))

theorem WFP_dropChargeAll {a : ArrS} (h : WFP a) (nz : List Bool) : WFP (a.dropChargeAll nz) := by
  unfold ArrS.dropChargeAll
  simp only
  generalize hlegs : a.legs.map (fun l => LegS.plain (Leg.fromTrivial l.leg.indLen [] l.leg.qconj)) = legs
  have hne : legs ≠ [] := by rw [← hlegs]; simpa using h.rank_pos
  have hok : ∀ l ∈ legs, l.ok = true ∧ l.leg.mods = [] := by
    intro l hl
    rw [← hlegs] at hl
    obtain ⟨l0, hl0, rfl⟩ := List.mem_map.1 hl
    exact ⟨trivial_leg_sane _ _ (sane_qconj (LegS.ok_sane (h.legs_ok l0 hl0).1)), rfl⟩
  have hm : ArrS.modsOf legs = [] := modsOf_eq_of_mem hne (fun l hl => (hok l hl).2)
  have hbn : ∀ l ∈ legs, l.blockNumber = 1 := by
    intro l hl
    rw [← hlegs] at hl
    obtain ⟨l0, hl0, rfl⟩ := List.mem_map.1 hl
    rfl
  refine ⟨hne, ?_, ?_, ?_, ?_, ?_, ?_⟩
  · show ∀ m ∈ ArrS.modsOf legs, 1 ≤ m
    rw [hm]; intro m hm'; cases hm'
  · show ∀ l ∈ legs, l.ok = true ∧ l.leg.mods = ArrS.modsOf legs
    rw [hm]; exact hok
  · show checkValid (ArrS.modsOf legs) [] = true
    rw [hm]; rfl
  · intro r hr
    show rowInRange legs r = true ∧ blockCharge (ArrS.modsOf legs) legs r = []
    rw [hm]
    have hr' : r ∈ (if (a.qdata.zip nz).any (·.2) then [a.legs.map (fun _ => 0)] else []) := hr
    split at hr'
    · simp only [List.mem_singleton] at hr'
      subst hr'
      refine ⟨?_, by simp [blockCharge, makeValid]⟩
      rw [rowInRange_iff]
      refine ⟨by rw [← hlegs]; simp, ?_⟩
      intro i hi
      rw [hbn _ (List.getElem_mem hi)]
      have : (a.legs.map (fun _ => 0)).getD i 0 = 0 := getD_map_const' a.legs i
      omega
    · cases hr'
  · show (if (a.qdata.zip nz).any (·.2) then [a.legs.map (fun _ => 0)] else []).Pairwise (· ≠ ·)
    split <;> simp
  · intro hs
    show (if (a.qdata.zip nz).any (·.2) then [a.legs.map (fun _ => 0)] else []).Pairwise _
    split <;> simp

end TenpyModel.C02P2
