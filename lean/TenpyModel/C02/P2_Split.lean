import TenpyModel.C02.P2_Tensordot
/-!
# C02 / Props2 — `split_legs`, helper lemmas: multi-ranges, rows assembled from segments, sectors of a pipe.
-/
namespace TenpyModel.C02P2
open TenpyModel.Core TenpyModel.C02

/-! ### `rangesC` -/

/-- `t` is a multi-index within the ranges `[b_i, e_i)` -/
def InRanges : List Nat → List (Nat × Nat) → Prop
  | [], [] => True
  | x :: xs, (b, e) :: rest => (b ≤ x ∧ x < e) ∧ InRanges xs rest
  | _, _ => False

theorem mem_rangesC {rng : List (Nat × Nat)} {t : List Nat} (h : t ∈ ArrS.rangesC rng) : InRanges t rng := by
  induction rng generalizing t with
  | nil => simp [ArrS.rangesC] at h; subst h; trivial
  | cons be rest ih =>
    obtain ⟨b, e⟩ := be
    simp only [ArrS.rangesC, List.mem_flatMap, List.mem_range, List.mem_map] at h
    obtain ⟨i, hi, t', ht', rfl⟩ := h
    exact ⟨⟨by omega, by omega⟩, ih ht'⟩

theorem InRanges.length_eq {t : List Nat} {rng : List (Nat × Nat)} (h : InRanges t rng) : t.length = rng.length := by
  induction t generalizing rng with
  | nil => cases rng with
    | nil => rfl
    | cons _ _ => exact h.elim
  | cons x xs ih => cases rng with
    | nil => exact h.elim
    | cons be rest => obtain ⟨b, e⟩ := be; simp [ih h.2]

theorem InRanges.getD {t : List Nat} {rng : List (Nat × Nat)} (h : InRanges t rng) (i : Nat) (hi : i < rng.length) :
    (rng.getD i (0, 0)).1 ≤ t.getD i 0 ∧ t.getD i 0 < (rng.getD i (0, 0)).2 := by
  induction t generalizing rng i with
  | nil => cases rng with
    | nil => simp at hi
    | cons _ _ => exact h.elim
  | cons x xs ih => cases rng with
    | nil => exact h.elim
    | cons be rest =>
      obtain ⟨b, e⟩ := be
      cases i with
      | zero => simpa using h.1
      | succ i => simpa using ih h.2 i (by simpa using hi)

theorem rangesC_nodup (rng : List (Nat × Nat)) : (ArrS.rangesC rng).Nodup := by
  induction rng with
  | nil => simp [ArrS.rangesC]
  | cons be rest ih =>
    obtain ⟨b, e⟩ := be
    simp only [ArrS.rangesC]
    unfold List.Nodup
    rw [List.pairwise_flatMap]
    constructor
    · intro i _
      rw [List.pairwise_map]
      exact ih.imp (fun hne e' => hne (List.cons.inj e').2)
    · refine List.nodup_range.imp ?_
      intro i j hij x hx y hy e'
      obtain ⟨t, _, rfl⟩ := List.mem_map.1 hx
      obtain ⟨t', _, rfl⟩ := List.mem_map.1 hy
      have := (List.cons.inj e').1
      omega

/-! ### rows assembled from segments -/

theorem rawCharge_nil (n : Nat) : rawCharge n [] [] = czero n := rfl

theorem seg_row (M : List Nat) (ks : List Nat) (LS : Nat → List LegS) (RS : Nat → List Nat) (c : Nat → Charge)
    (hok : ∀ k ∈ ks, ∀ l ∈ LS k, l.ok = true ∧ l.leg.mods = M)
    (hr : ∀ k ∈ ks, rowInRange (LS k) (RS k) = true)
    (hc : ∀ k ∈ ks, makeValid M (rawCharge M.length (LS k) (RS k)) = makeValid M (c k))
    (hcl : ∀ k ∈ ks, (c k).length = M.length) :
    rowInRange (ks.flatMap LS) (ks.flatMap RS) = true ∧
      blockCharge M (ks.flatMap LS) (ks.flatMap RS) = makeValid M (csum M.length (ks.map c)) := by
  induction ks with
  | nil => exact ⟨rfl, rfl⟩
  | cons k ks ih =>
    have ih' := ih (fun j hj => hok j (by simp [hj])) (fun j hj => hr j (by simp [hj]))
      (fun j hj => hc j (by simp [hj])) (fun j hj => hcl j (by simp [hj]))
    have hokr : ∀ l ∈ ks.flatMap LS, l.ok = true ∧ l.leg.mods = M := by
      intro l hl
      obtain ⟨j, hj, hlj⟩ := List.mem_flatMap.1 hl
      exact hok j (by simp [hj]) l hlj
    simp only [List.flatMap_cons, List.map_cons]
    refine ⟨rowInRange_append (hr k (by simp)) ih'.1, ?_⟩
    rw [blockCharge_append (hok k (by simp)) hokr (hr k (by simp)) ih'.1,
      csum_cons _ _ _ (hcl k (by simp)) (by
        intro d hd
        obtain ⟨j, hj, rfl⟩ := List.mem_map.1 hd
        exact hcl j (by simp [hj]))]
    have h2 := ih'.2
    unfold blockCharge at h2
    rw [mv_congr_left M _ (hc k (by simp)), mv_congr_right M _ h2]

theorem flatMap_inj {α} (ks : List Nat) (f g : Nat → List α) (hl : ∀ k ∈ ks, (f k).length = (g k).length)
    (h : ks.flatMap f = ks.flatMap g) : ∀ k ∈ ks, f k = g k := by
  induction ks with
  | nil => intro k hk; cases hk
  | cons k ks ih =>
    simp only [List.flatMap_cons] at h
    have := List.append_inj h (hl k (by simp))
    intro j hj
    rcases List.mem_cons.1 hj with rfl | hj
    · exact this.1
    · exact ih (fun i hi => hl i (by simp [hi])) this.2 j hj

/-! ### sectors of a pipe -/

/-- unpacked `Pipe.ok` -/
structure PipeOK (p : Pipe) : Prop where
  legs_ne : p.legs ≠ []
  legs_ok : ∀ l ∈ p.legs, l.sane = true ∧ l.mods = p.leg.mods
  rows : ∀ row ∈ p.qMap, pipeRowOk p row = true
  nodup : (p.qMap.map (fun r => r.drop 3)).Pairwise (· ≠ ·)
  len : p.qMapSlices.length = p.leg.blockNumber + 1
  last : p.qMapSlices.getLastD 0 = p.qMap.length
  sector : ∀ i, i < p.leg.blockNumber →
    (p.qMapSlices.getD i 0 ≤ p.qMapSlices.getD (i + 1) 0 ∧ p.qMapSlices.getD (i + 1) 0 ≤ p.qMap.length) ∧
    ∀ r ∈ (p.qMap.drop (p.qMapSlices.getD i 0)).take (p.qMapSlices.getD (i + 1) 0 - p.qMapSlices.getD i 0),
      r.getD 2 0 = i

theorem PipeOK_of {p : Pipe} (h : C02.Pipe.ok p = true) : PipeOK p := by
  unfold C02.Pipe.ok at h
  simp only [Bool.and_eq_true, List.all_eq_true, Bool.not_eq_true', beq_iff_eq, decide_eq_true_eq, rowsNodup_iff] at h
  obtain ⟨⟨⟨⟨⟨⟨h1, h2⟩, h3⟩, h4⟩, h5⟩, h6⟩, h7⟩ := h
  exact ⟨by simpa using h1, h2, h3, h4, h5, h6, fun i hi => h7 i (List.mem_range.2 hi)⟩

/-- a row index inside the sector of outgoing block `I` -/
theorem sector_row {p : Pipe} (h : PipeOK p) (I : Nat) (hI : I < p.leg.blockNumber) (j : Nat)
    (hb : p.qMapSlices.getD I 0 ≤ j) (he : j < p.qMapSlices.getD (I + 1) 0) :
    j < p.qMap.length ∧ p.qMap.getD j [] ∈ p.qMap ∧ (p.qMap.getD j []).getD 2 0 = I := by
  obtain ⟨⟨_, hle⟩, hsec⟩ := h.sector I hI
  have hj : j < p.qMap.length := by omega
  refine ⟨hj, getD_mem _ _ _ hj, ?_⟩
  apply hsec
  rw [List.mem_iff_getElem]
  refine ⟨j - p.qMapSlices.getD I 0, by simp only [List.length_take, List.length_drop]; omega, ?_⟩
  simp only [List.getElem_take, List.getElem_drop]
  rw [getD_lt _ _ _ hj]
  congr 1
  omega

/-- the incoming block combination stored in row `j` of the sector of block `I` -/
theorem sector_segment {p : Pipe} (h : PipeOK p) (I : Nat) (hI : I < p.leg.blockNumber) (j : Nat)
    (hb : p.qMapSlices.getD I 0 ≤ j) (he : j < p.qMapSlices.getD (I + 1) 0) :
    rowInRange (p.legs.map LegS.plain) ((p.qMap.getD j []).drop 3) = true ∧
    ((p.qMap.getD j []).drop 3).length = p.legs.length ∧
    makeValid p.leg.mods (rawCharge p.leg.mods.length (p.legs.map LegS.plain) ((p.qMap.getD j []).drop 3))
      = makeValid p.leg.mods (p.leg.getCharge I) := by
  obtain ⟨_, hmem, hid⟩ := sector_row h I hI j hb he
  have hrow := h.rows _ hmem
  unfold pipeRowOk at hrow
  simp only [Bool.and_eq_true, beq_iff_eq, decide_eq_true_eq] at hrow
  obtain ⟨⟨⟨hr1, _⟩, hr3⟩, hr4⟩ := hrow
  refine ⟨hr3, by simp only [List.length_drop]; omega, ?_⟩
  rw [hid] at hr4
  rw [hr4]
  rfl

end TenpyModel.C02P2
