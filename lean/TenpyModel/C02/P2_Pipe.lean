import TenpyModel.C02.P2_Basic
/-!
# C02 / Props2 — pipes made by `LegPipe.__init__` satisfy the C02 pipe invariant `Pipe.ok`, their outgoing leg is
sane, and `_map_incoming_qind` finds the right row of `q_map`. Everything is derived from the C06 theorems
(`qmap_perm`, `fusion_rule`, `slicesOK`, `located_*`, `leg_shape`), for incoming legs that pass `test_sanity`
(no monotonicity of the incoming `slices` needed).
-/
namespace TenpyModel.C02P2
open TenpyModel.Core TenpyModel.C02

/-- `_map_incoming_qind` finds the row of `q_map` whose incoming columns are the given block combination -/
def PipeLookup (p : Pipe) : Prop :=
  ∀ qis, InRange qis p.subqshape →
    p.mapIncomingQind qis < p.qMap.length ∧ (p.qMap.getD (p.mapIncomingQind qis) []).drop 3 = qis

theorem init_subqshape (legs : List Leg) (qconj : Int) (sort bunch : Bool) :
    (Pipe.init legs qconj sort bunch).subqshape = Pipe.gSubq legs := by
  unfold Pipe.subqshape; rw [Pipe.init_legs]; rfl

theorem lookup_init (legs : List Leg) (qconj : Int) (sort bunch : Bool) :
    PipeLookup (Pipe.init legs qconj sort bunch) := by
  intro qis hq
  rw [init_subqshape] at hq
  by_cases hs : (Pipe.gSubq legs).all (· == 1) = true
  · have hones := Pipe.single_ones legs hs
    have hz := Pipe.inRange_ones qis _ hq hones
    rw [Pipe.init_single legs qconj sort bunch hs]
    have hJ : dot qis (legs.map (fun _ => 0)) = 0 := Pipe.dot_zeros _ _
    simp only [Pipe.mapIncomingQind, hJ]
    refine ⟨by simp, ?_⟩
    rw [hz, ← Pipe.zeros_eq]; simp
  · have hs' : (Pipe.gSubq legs).all (· == 1) = false := by simpa using hs
    cases bunch
    · have L := (Pipe.located_nobunch legs qconj sort hs').loc qis hq
      exact ⟨L.2.1, L.2.2.1⟩
    · have L := (Pipe.located_bunch legs qconj sort hs').loc qis hq
      exact ⟨L.2.1, L.2.2.1⟩

/-! ### the outgoing leg is sane -/

theorem gMods_eq {legs : List Leg} (hne : legs ≠ []) {M : List Nat} (hl : ∀ l ∈ legs, l.sane = true ∧ l.mods = M) :
    Pipe.gMods legs = M := by
  cases legs with
  | nil => exact absurd rfl hne
  | cons l ls => exact (hl l (by simp)).2

theorem fuse_valid' (legs : List Leg) (qconj : Int) (M : List Nat) (hM : ∀ m ∈ M, 1 ≤ m)
    (hl : ∀ l ∈ legs, l.sane = true ∧ l.mods = M) (t : List Nat) (ht : InRange t (Pipe.gSubq legs)) :
    checkValid M (Pipe.fuse M legs qconj t) = true := by
  unfold Pipe.fuse
  apply C02.checkValid_makeValid _ hM
  unfold Pipe.fuseRaw
  apply C02.csum_length
  intro c hc
  obtain ⟨lq, hlq, rfl⟩ := List.mem_map.1 hc
  have hlt := Pipe.inRange_zip_lt Leg.blockNumber legs t ht lq hlq
  have hmem : lq.1 ∈ legs := (List.of_mem_zip hlq).1
  simp only [cscale, List.length_map]
  rw [C02.checkValid_length (sane_valid (hl _ hmem).1 _ (getD_mem _ _ _ hlt)), (hl _ hmem).2]

theorem gPre_valid' (legs : List Leg) (qconj : Int) (sort : Bool) (hne : legs ≠ []) (M : List Nat)
    (hM : ∀ m ∈ M, 1 ≤ m) (hl : ∀ l ∈ legs, l.sane = true ∧ l.mods = M) :
    ∀ c ∈ (Pipe.gPre legs qconj sort).charges, checkValid M c = true := by
  intro c hc
  have hc0 : c ∈ Pipe.gCharges0 legs qconj := by
    apply take?_subset _ _ _ _ c hc
    intro q hq
    have := (Pipe.gPermQ_perm legs qconj sort).mem_iff.1 hq
    rw [Pipe.gCharges0_length]; simpa using this
  rw [Pipe.gCharges0_eq, gMods_eq hne hl] at hc0
  obtain ⟨t, ht, rfl⟩ := List.mem_map.1 hc0
  exact fuse_valid' legs qconj M hM hl t ((mem_gridC _ _).1 ht)

theorem init_leg_sane (legs : List Leg) (hne : legs ≠ []) (M : List Nat) (hM : ∀ m ∈ M, 1 ≤ m)
    (hl : ∀ l ∈ legs, l.sane = true ∧ l.mods = M) (qconj : Int) (hq : qconj = 1 ∨ qconj = -1) (sort bunch : Bool) :
    (Pipe.init legs qconj sort bunch).leg.sane = true ∧ (Pipe.init legs qconj sort bunch).leg.mods = M := by
  have hg := gMods_eq hne hl
  have hmods : (Pipe.init legs qconj sort bunch).leg.mods = M := by
    rw [(Pipe.init_mods_qconj legs qconj sort bunch).1, hg]
  refine ⟨?_, hmods⟩
  have key : (Pipe.init legs qconj sort bunch).leg.WF ∧ (Pipe.init legs qconj sort bunch).leg.FlagsOK := by
    by_cases hs : (Pipe.gSubq legs).all (· == 1) = true
    · have hWF : (Pipe.init legs qconj sort bunch).leg.WF := by
        refine ⟨Pipe.leg_shape legs qconj sort bunch, ?_, ?_, ?_⟩
        · rw [Pipe.init_single legs qconj sort bunch hs]
          intro c hc
          simp only [List.mem_singleton] at hc
          subst hc
          show checkValid (Pipe.gMods legs) (Pipe.fuse (Pipe.gMods legs) legs qconj _) = true
          rw [hg]
          apply fuse_valid' legs qconj M hM hl
          rw [Pipe.zeros_eq]
          have hones := Pipe.single_ones legs hs
          generalize Pipe.gSubq legs = shape at hones
          induction shape with
          | nil => trivial
          | cons n ns ih =>
            exact ⟨by rw [hones n (by simp)]; exact Nat.zero_lt_one, ih (fun m hm => hones m (by simp [hm]))⟩
        · rw [hmods]; exact hM
        · rw [(Pipe.init_mods_qconj legs qconj sort bunch).2]; exact hq
      refine ⟨hWF, ?_⟩
      have h1 : (Pipe.init legs qconj sort bunch).leg.charges.length ≤ 1 := by
        rw [Pipe.init_single legs qconj sort bunch hs]; simp
      have := Leg.flags_of_le_one _ hWF.cl0 h1
      exact ⟨fun _ => this.1, fun _ => this.2⟩
    · have hs' : (Pipe.gSubq legs).all (· == 1) = false := by simpa using hs
      have hpre : (Pipe.gPre legs qconj sort).WF :=
        ⟨Pipe.gPre_shape legs qconj sort, by
          have := gPre_valid' legs qconj sort hne M hM hl
          intro c hc
          show checkValid (Pipe.gMods legs) c = true
          rw [hg]; exact this c hc, by
          show ∀ m ∈ Pipe.gMods legs, 1 ≤ m
          rw [hg]; exact hM, hq⟩
      cases bunch
      · rw [Pipe.leg_nobunch legs qconj sort hs']
        exact ⟨hpre, Pipe.gPre_sorted legs qconj sort, fun hb => by simp [Pipe.gPre] at hb⟩
      · rw [Pipe.leg_bunch legs qconj sort hs']
        exact ⟨Leg.bunchCore_WF hpre, Leg.bunchCore_flags hpre (Pipe.gPre_sorted legs qconj sort)⟩
  exact key.1.sane_iff.2 key.2

/-! ### `Pipe.ok` -/

theorem rowInRange_of_InRange (legs : List Leg) (t : List Nat) (h : InRange t (legs.map Leg.blockNumber)) :
    rowInRange (legs.map LegS.plain) t = true := by
  rw [rowInRange_iff]
  refine ⟨by simpa using h.length_eq, ?_⟩
  intro i hi
  have hi' : i < legs.length := by simpa using hi
  have := h.getD_lt i (by rw [h.length_eq]; simpa using hi')
  rw [getD_lt (legs.map Leg.blockNumber) i 0 (by simpa using hi')] at this
  simpa [LegS.blockNumber, LegS.leg] using this

/-- `qconj * fuseRaw` is the sum of the incoming `get_charge`s -/
theorem fuse_chList (legs : List Leg) (qconj : Int) (hq : qconj = 1 ∨ qconj = -1) (t : List Nat) :
    ((legs.zip t).map (fun lq => cscale (qconj * lq.1.qconj) (lq.1.charges.getD lq.2 []))).map (cscale qconj)
      = chList (legs.map LegS.plain) t := by
  unfold chList
  induction legs generalizing t with
  | nil => simp
  | cons l legs ih =>
    cases t with
    | nil => simp
    | cons q t =>
      simp only [List.zip_cons_cons, List.map_cons, List.zipWith_cons_cons, ih t]
      congr 1
      show cscale qconj (cscale (qconj * l.qconj) _) = cscale l.qconj _
      rw [cscale_cscale]
      congr 1
      rcases hq with rfl | rfl <;> omega

theorem slices_mono_last {p : Pipe} (hS : Pipe.SlicesOK p) :
    ∀ d i, i + d = p.leg.blockNumber → p.qMapSlices.getD i 0 ≤ p.qMap.length := by
  intro d
  induction d with
  | zero => intro i hi; simp only [Nat.add_zero] at hi; rw [hi, hS.last]; exact Nat.le_refl _
  | succ d ih =>
    intro i hi
    have h1 := hS.nonempty i (by omega)
    have h2 := ih (i + 1) (by omega)
    omega

theorem sector_of_row {p : Pipe} (hS : Pipe.SlicesOK p) (j : Nat) (hj : j < p.qMap.length) :
    (p.qMap.getD j []).getD 2 0 < p.leg.blockNumber := by
  obtain ⟨g, hg, h1, h2⟩ := exists_interval p.qMapSlices j (by rw [hS.first]; exact Nat.zero_le _) (by
    rw [hS.len]; simp only [Nat.add_sub_cancel]; rw [hS.last]; exact hj)
  rw [hS.len] at hg
  have := (hS.sector g (by omega) j h1 h2).1
  omega

theorem init_ok (legs : List Leg) (hne : legs ≠ []) (M : List Nat) (hM : ∀ m ∈ M, 1 ≤ m)
    (hl : ∀ l ∈ legs, l.sane = true ∧ l.mods = M) (qconj : Int) (hq : qconj = 1 ∨ qconj = -1) (sort bunch : Bool) :
    C02.Pipe.ok (Pipe.init legs qconj sort bunch) = true := by
  have hg := gMods_eq hne hl
  generalize hp : Pipe.init legs qconj sort bunch = p
  have hlegs : p.legs = legs := by rw [← hp]; exact Pipe.init_legs legs qconj sort bunch
  have hmods : p.leg.mods = M := by rw [← hp, (Pipe.init_mods_qconj legs qconj sort bunch).1, hg]
  have hqc : p.leg.qconj = qconj := by rw [← hp]; exact (Pipe.init_mods_qconj legs qconj sort bunch).2
  have hperm : (p.qMap.map (·.drop 3)).Perm (gridC (Pipe.gSubq legs)) := by
    rw [← hp]; exact Pipe.qmap_perm legs qconj sort bunch
  have hS : Pipe.SlicesOK p := by rw [← hp]; exact Pipe.slicesOK legs qconj sort bunch
  have hfus : ∀ j, j < p.qMap.length →
      p.leg.charges.getD ((p.qMap.getD j []).getD 2 0) [] = Pipe.fuse M legs qconj ((p.qMap.getD j []).drop 3) := by
    intro j hj
    rw [← hp] at hj ⊢
    rw [← hg]
    exact Pipe.fusion_rule legs qconj sort bunch j hj
  unfold C02.Pipe.ok
  simp only [Bool.and_eq_true, List.all_eq_true, Bool.not_eq_true', beq_iff_eq, decide_eq_true_eq]
  refine ⟨⟨⟨⟨⟨⟨?_, ?_⟩, ?_⟩, ?_⟩, hS.len⟩, ?_⟩, ?_⟩
  · rw [hlegs]; simpa using hne
  · intro l hl'
    rw [hlegs] at hl'
    exact ⟨(hl l hl').1, by rw [hmods]; exact (hl l hl').2⟩
  · intro row hrow
    obtain ⟨j, hj, rfl⟩ := List.mem_iff_getElem.1 hrow
    have hrow' : p.qMap[j] = p.qMap.getD j [] := (getD_lt _ _ _ hj).symm
    rw [hrow']
    have hsub : (p.qMap.getD j []).drop 3 ∈ gridC (Pipe.gSubq legs) := by
      apply hperm.mem_iff.1
      exact List.mem_map.2 ⟨p.qMap[j], hrow, by rw [hrow']⟩
    have hin : InRange ((p.qMap.getD j []).drop 3) (legs.map Leg.blockNumber) := (mem_gridC _ _).1 hsub
    have hlen := hin.length_eq
    simp only [List.length_drop, List.length_map] at hlen
    have hpos : 0 < legs.length := List.length_pos_iff.2 hne
    unfold pipeRowOk
    simp only [Bool.and_eq_true, beq_iff_eq, decide_eq_true_eq]
    rw [hlegs]
    refine ⟨⟨⟨by omega, sector_of_row hS j hj⟩, rowInRange_of_InRange legs _ hin⟩, ?_⟩
    rw [hmods]
    unfold blockCharge Leg.getCharge
    rw [hfus j hj, hqc, rawCharge_eq, ← fuse_chList legs qconj hq]
    unfold Pipe.fuse Pipe.fuseRaw
    rw [makeValid_scale, cscale_csum]
  · rw [rowsNodup_iff]
    exact hperm.nodup_iff.2 (Pipe.gridC_nodup _)
  · rw [getLastD_eq_getD, hS.len]
    simp only [Nat.add_sub_cancel]
    exact hS.last
  · intro i hi
    have hi' : i < p.leg.blockNumber := List.mem_range.1 hi
    have hb := hS.nonempty i hi'
    have he := slices_mono_last hS (p.leg.blockNumber - (i + 1)) (i + 1) (by omega)
    refine ⟨⟨Nat.le_of_lt hb, he⟩, ?_⟩
    intro r hr
    obtain ⟨t, ht, rfl⟩ := List.mem_iff_getElem.1 hr
    simp only [List.length_take, List.length_drop] at ht
    simp only [List.getElem_take, List.getElem_drop]
    have hjl : p.qMapSlices.getD i 0 + t < p.qMap.length := by omega
    rw [← getD_lt _ _ [] hjl]
    exact (hS.sector i hi' _ (by omega) (by omega)).1

/-- a pipe made by `LegPipe.__init__` from sane legs over one `chinfo` is a valid array leg -/
theorem init_LegS_ok (legs : List Leg) (hne : legs ≠ []) (M : List Nat) (hM : ∀ m ∈ M, 1 ≤ m)
    (hl : ∀ l ∈ legs, l.sane = true ∧ l.mods = M) (qconj : Int) (hq : qconj = 1 ∨ qconj = -1) (sort bunch : Bool) :
    (LegS.pipe (Pipe.init legs qconj sort bunch)).ok = true ∧ (Pipe.init legs qconj sort bunch).leg.mods = M := by
  have h1 := init_leg_sane legs hne M hM hl qconj hq sort bunch
  refine ⟨?_, h1.2⟩
  simp only [LegS.ok, Bool.and_eq_true]
  exact ⟨h1.1, init_ok legs hne M hM hl qconj hq sort bunch⟩

end TenpyModel.C02P2
