import TenpyModel.C02.P2_LegOps
/-!
# C02 / Props2 — `npc.trace`: rows with equal block index on the two contracted legs, the two columns removed,
duplicates merged (insertion order of a dict), `_qdata_sorted` only claimed for an empty result.
-/
namespace TenpyModel.C02P2
open TenpyModel.Core TenpyModel.C02

/-! ### `dedupKeep` -/

theorem dedupKeep_aux {α} [DecidableEq α] (l acc : List α) (hacc : acc.Nodup) :
    (l.foldl (fun acc x => if x ∈ acc then acc else acc ++ [x]) acc).Nodup ∧
    ∀ x, x ∈ l.foldl (fun acc x => if x ∈ acc then acc else acc ++ [x]) acc ↔ x ∈ acc ∨ x ∈ l := by
  induction l generalizing acc with
  | nil => simp [hacc]
  | cons y l ih =>
    simp only [List.foldl_cons]
    by_cases hy : y ∈ acc
    · simp only [hy, ↓reduceIte]
      refine ⟨(ih acc hacc).1, ?_⟩
      intro x
      rw [(ih acc hacc).2 x]
      constructor
      · rintro (h | h)
        · exact Or.inl h
        · exact Or.inr (by simp [h])
      · rintro (h | h)
        · exact Or.inl h
        · rcases List.mem_cons.1 h with rfl | h
          · exact Or.inl hy
          · exact Or.inr h
    · simp only [hy, ↓reduceIte]
      have hn : (acc ++ [y]).Nodup := by
        rw [List.nodup_append]
        refine ⟨hacc, by simp, ?_⟩
        intro a ha b hb
        simp only [List.mem_singleton] at hb
        subst hb
        intro e; subst e; exact hy ha
      refine ⟨(ih _ hn).1, ?_⟩
      intro x
      rw [(ih _ hn).2 x]
      simp only [List.mem_append, List.mem_cons, List.not_mem_nil, or_false, or_assoc]

theorem dedupKeep_nodup {α} [DecidableEq α] (l : List α) : (dedupKeep l).Nodup :=
  (dedupKeep_aux l [] List.nodup_nil).1

theorem mem_dedupKeep {α} [DecidableEq α] (l : List α) (x : α) : x ∈ dedupKeep l ↔ x ∈ l := by
  have := (dedupKeep_aux l [] List.nodup_nil).2 x
  simpa [dedupKeep] using this

/-! ### contractible legs carry opposite charges -/

theorem contractible_charge {li lj : Leg} (h : li.testContractible lj = true) (q : Nat) (h1 : q < li.blockNumber)
    (h2 : q < lj.blockNumber) :
    makeValid li.mods (li.getCharge q) = makeValid li.mods (cneg (lj.getCharge q)) := by
  unfold Leg.testContractible at h
  obtain ⟨hm, _, hp⟩ := testEqual_unpack h
  have := physCharges_getElem hp hm q h1 h2
  rw [getCharge_conj] at this
  exact this

theorem mv_sub_pair (M : List Nat) (qt ci cj : Charge) (hqt : checkValid M qt = true) (hci : ci.length = M.length)
    (hcj : cj.length = M.length) (h : makeValid M ci = makeValid M (cneg cj)) :
    makeValid M ([ci, cj].foldl (fun acc c => cadd acc (cneg c)) qt) = qt := by
  have hq := C02.checkValid_length hqt
  simp only [List.foldl_cons, List.foldl_nil]
  rw [C02.cadd_assoc, ← cneg_cadd]
  have hz : makeValid M (cadd ci cj) = makeValid M (czero M.length) := by
    rw [mv_congr_left M cj h, C02.cadd_comm, cadd_cneg_self, hcj]
  rw [← C02.makeValid_add, ← C02.makeValid_neg, hz, C02.makeValid_neg, C02.makeValid_add, cneg_czero,
    cadd_czero_right _ _ hq, C02.makeValid_of_checkValid _ _ hqt]

theorem exists_other (i j n : Nat) (hn : 3 ≤ n) : ∃ k, k < n ∧ k ≠ i ∧ k ≠ j := by
  by_cases h0 : 0 ≠ i ∧ 0 ≠ j
  · exact ⟨0, by omega, h0.1, h0.2⟩
  · by_cases h1 : 1 ≠ i ∧ 1 ≠ j
    · exact ⟨1, by omega, h1.1, h1.2⟩
    · exact ⟨2, by omega, by omega, by omega⟩

theorem WFP_trace {a b : ArrS} {l1 l2 : Int} (h : WFP a) (hb : trace a l1 l2 = some (some b)) : WFP b := by
  unfold trace at hb
  cases hi : a.legIndex l1 with
  | none => simp [hi] at hb
  | some i =>
    cases hj : a.legIndex l2 with
    | none => simp [hi, hj] at hb
    | some j =>
      simp only [hi, hj] at hb
      split at hb
      · cases hb
      · rename_i hij
        split at hb
        · cases hb
        · rename_i hcon0
          have hcon : (a.legAt i).testContractible (a.legAt j) = true := by simpa using hcon0
          split at hb
          · cases hb
          · rename_i hr2
            simp only [Option.some.injEq] at hb
            subst hb
            have hil : i < a.legs.length := legIndex_lt hi
            have hjl : j < a.legs.length := legIndex_lt hj
            have hrank : 3 ≤ a.legs.length := by unfold ArrS.rank at hr2; omega
            have hpred : (fun k => decide (k ≠ i) && decide (k ≠ j)) = (fun k => !([i, j].contains k)) := by
              funext k
              by_cases h1 : k = i <;> by_cases h2 : k = j <;> simp [h1, h2, eq_comm]
            rw [hpred]
            have hlegs : ((List.range a.rank).filter (fun k => !([i, j].contains k))).filterMap (fun k => a.legs[k]?)
                = keepIdx (fun k => !([i, j].contains k)) 0 a.legs := legs_keep_eq _ _
            rw [hlegs]
            generalize hp : (fun k => !([i, j].contains k)) = p at *
            have hmemL : ∀ l ∈ keepIdx p 0 a.legs, l ∈ a.legs := fun l hl => keepIdx_mem _ _ _ _ hl
            have hkeep : keepIdx p 0 a.legs ≠ [] := by
              obtain ⟨k, hk, hki, hkj⟩ := exists_other i j _ hrank
              rw [← legs_keep_eq]
              intro e
              have : a.legs[k] ∈ ((List.range a.legs.length).filter p).filterMap (fun k => a.legs[k]?) :=
                List.mem_filterMap.mpr ⟨k, List.mem_filter.mpr ⟨List.mem_range.mpr hk, by rw [← hp]; simp [hki, hkj, eq_comm]⟩,
                  List.getElem?_eq_getElem hk⟩
              rw [e] at this; cases this
            have hm : ArrS.modsOf (keepIdx p 0 a.legs) = a.mods :=
              modsOf_eq_of_mem hkeep (fun l hl => (h.legs_ok l (hmemL l hl)).2)
            -- rows
            generalize hrows : dedupKeep ((a.qdata.filter (fun r => r.getD i 0 == r.getD j 0)).map
              (fun r => selectCols ((List.range a.rank).filter p) r 0)) = rows
            have hrow : ∀ r' ∈ rows, rowInRange (keepIdx p 0 a.legs) r' = true ∧
                blockCharge a.mods (keepIdx p 0 a.legs) r' = a.qtotal := by
              intro r' hr'
              rw [← hrows, mem_dedupKeep] at hr'
              obtain ⟨r, hr, rfl⟩ := List.mem_map.1 hr'
              simp only [List.mem_filter, beq_iff_eq] at hr
              obtain ⟨hra, hrij⟩ := hr
              have h0 := h.rows_ok r hra
              have hrl := h.row_length hra
              have hbi := ((rowInRange_iff _ _).mp h0.1).2 i hil
              have hbj := ((rowInRange_iff _ _).mp h0.1).2 j hjl
              have hW := WFP_dropCols h [i, j] [r.getD i 0, r.getD i 0] (by simp [hij])
                (by intro k hk; simp only [List.mem_cons, List.not_mem_nil, or_false] at hk
                    rcases hk with rfl | rfl
                    · exact hil
                    · exact hjl) rfl
                (by intro n h1 h2
                    match n, h1 with
                    | 0, _ => simpa [legAt_eq hil, LegS.blockNumber] using hbi
                    | 1, _ => rw [hrij] ; simpa [legAt_eq hjl, LegS.blockNumber] using hbj)
                (by rw [hp]; exact hkeep)
              rw [hp] at hW
              have hmem : keepIdx p 0 r ∈ (a.qdata.filter (fun r' => selectCols [i, j] r' 0 == [r.getD i 0, r.getD i 0])).map
                  (keepIdx p 0) := by
                refine List.mem_map.2 ⟨r, List.mem_filter.2 ⟨hra, ?_⟩, rfl⟩
                simp only [selectCols, List.map_cons, List.map_nil, beq_iff_eq]
                rw [hrij]
              have := hW.rows_ok _ hmem
              have hsel : selectCols ((List.range a.rank).filter p) r 0 = keepIdx p 0 r := by
                rw [← selectCols_keep_eq, hrl]; rfl
              rw [hsel]
              refine ⟨this.1, ?_⟩
              have h2 := this.2
              simp only [ArrS.mods] at h2
              rw [hm] at h2
              rw [h2]
              -- the subtracted charges cancel
              have hoki := h.legs_ok _ (List.getElem_mem hil)
              have hokj := h.legs_ok _ (List.getElem_mem hjl)
              have hci : ((a.legAt i).getCharge (r.getD i 0)).length = a.mods.length := by
                rw [legAt_eq hil, ← hoki.2]; exact Leg.getCharge_length (LegS.ok_sane hoki.1) hbi
              have hcj : ((a.legAt j).getCharge (r.getD i 0)).length = a.mods.length := by
                rw [legAt_eq hjl, ← hokj.2, hrij]; exact Leg.getCharge_length (LegS.ok_sane hokj.1) hbj
              have hcc := contractible_charge hcon (r.getD i 0) (by rw [legAt_eq hil]; exact hbi)
                (by rw [legAt_eq hjl, hrij]; exact hbj)
              have hmi : (a.legAt i).mods = a.mods := by rw [legAt_eq hil]; exact hoki.2
              rw [hmi] at hcc
              exact mv_sub_pair a.mods a.qtotal _ _ h.qtotal_valid hci hcj hcc
            refine ⟨hkeep, ?_, ?_, ?_, ?_, ?_, ?_⟩
            · show ∀ m ∈ ArrS.modsOf (keepIdx p 0 a.legs), 1 ≤ m
              rw [hm]; exact h.mods_pos
            · intro l hl
              show l.ok = true ∧ l.leg.mods = ArrS.modsOf (keepIdx p 0 a.legs)
              rw [hm]; exact h.legs_ok l (hmemL l hl)
            · show checkValid (ArrS.modsOf (keepIdx p 0 a.legs)) a.qtotal = true
              rw [hm]; exact h.qtotal_valid
            · intro r' hr'
              show rowInRange (keepIdx p 0 a.legs) r' = true ∧
                blockCharge (ArrS.modsOf (keepIdx p 0 a.legs)) (keepIdx p 0 a.legs) r' = a.qtotal
              rw [hm]; exact hrow r' hr'
            · show rows.Pairwise (· ≠ ·)
              rw [← hrows]; exact dedupKeep_nodup _
            · intro hs
              have : rows = [] := by simpa using hs
              show rows.Pairwise _
              rw [this]; exact List.Pairwise.nil

end TenpyModel.C02P2
