import TenpyModel.C02.P2_LegOps
/-!
# C02 / Props2 — `drop_charge`, `change_charge`, `add_charge`: all legs rebuilt over another `chinfo`,
rows kept; the charge rule is transported by a homomorphism of the charge vectors.
-/
namespace TenpyModel.C02P2
open TenpyModel.Core TenpyModel.C02
open TenpyModel.C02.ArrS (dropIdx)

/-! ### generic: every leg mapped, rows kept -/

theorem rowInRange_mapLegs (legs : List LegS) (F : LegS → LegS) (hF : ∀ l ∈ legs, (F l).blockNumber = l.blockNumber)
    (r : List Nat) : rowInRange (legs.map F) r = rowInRange legs r := by
  unfold rowInRange
  congr 1
  · simp
  · congr 1
    induction legs generalizing r with
    | nil => simp
    | cons l legs ih =>
      cases r with
      | nil => simp
      | cons q r =>
        simp only [List.map_cons, List.zipWith_cons_cons, ih (fun l hl => hF l (by simp [hl])), hF l (by simp)]

theorem WFP_mapLegs {a : ArrS} (h : WFP a) (F : LegS → LegS) (M' : List Nat) (qt' : Charge)
    (hM' : ∀ m ∈ M', 1 ≤ m)
    (hF : ∀ l ∈ a.legs, (F l).ok = true ∧ (F l).leg.mods = M' ∧ (F l).blockNumber = l.blockNumber)
    (hqt : checkValid M' qt' = true)
    (hrows : ∀ r ∈ a.qdata, blockCharge M' (a.legs.map F) r = qt') :
    WFP { a with legs := a.legs.map F, qtotal := qt' } := by
  have hne : a.legs.map F ≠ [] := by simpa using h.rank_pos
  have hok : ∀ l ∈ a.legs.map F, l.ok = true ∧ l.leg.mods = M' := by
    intro l hl
    obtain ⟨l0, hl0, rfl⟩ := List.mem_map.1 hl
    exact ⟨(hF l0 hl0).1, (hF l0 hl0).2.1⟩
  have hm : ArrS.modsOf (a.legs.map F) = M' := modsOf_eq_of_mem hne (fun l hl => (hok l hl).2)
  refine ⟨hne, ?_, ?_, ?_, ?_, h.nodup, h.sorted_ok⟩
  · show ∀ m ∈ ArrS.modsOf (a.legs.map F), 1 ≤ m
    rw [hm]; exact hM'
  · show ∀ l ∈ a.legs.map F, l.ok = true ∧ l.leg.mods = ArrS.modsOf (a.legs.map F)
    rw [hm]; exact hok
  · show checkValid (ArrS.modsOf (a.legs.map F)) qt' = true
    rw [hm]; exact hqt
  · intro r hr
    show rowInRange (a.legs.map F) r = true ∧ blockCharge (ArrS.modsOf (a.legs.map F)) (a.legs.map F) r = qt'
    rw [hm, rowInRange_mapLegs a.legs F (fun l hl => (hF l hl).2.2)]
    exact ⟨(h.rows_ok r hr).1, hrows r hr⟩

/-- additive maps commute with `csum` -/
theorem hom_csum (n n' : Nat) (Φ : Charge → Charge)
    (hadd : ∀ x y, x.length = n → y.length = n → Φ (cadd x y) = cadd (Φ x) (Φ y))
    (hzero : Φ (czero n) = czero n') (hlen : ∀ x, x.length = n → (Φ x).length = n')
    (cs : List Charge) (hcs : ∀ c ∈ cs, c.length = n) : Φ (csum n cs) = csum n' (cs.map Φ) := by
  induction cs with
  | nil => simpa [csum_nil] using hzero
  | cons c cs ih =>
    have hc := hcs c (by simp)
    have hcs' : ∀ c ∈ cs, c.length = n := fun c hc => hcs c (by simp [hc])
    rw [csum_cons n c cs hc hcs', hadd _ _ hc (C02.csum_length n cs hcs'), ih hcs', List.map_cons,
      csum_cons n' _ _ (hlen c hc) (by
        intro d hd
        obtain ⟨e, he, rfl⟩ := List.mem_map.1 hd
        exact hlen e (hcs' e he))]

/-- block charge over the mapped legs: `mv M' (Σ getCharge') = mv M' (Φ (Σ getCharge))` -/
theorem blockCharge_hom {legs : List LegS} {M M' : List Nat} (hok : ∀ l ∈ legs, l.ok = true ∧ l.leg.mods = M)
    (F : LegS → LegS) (Φ : Charge → Charge)
    (hadd : ∀ x y, x.length = M.length → y.length = M.length → Φ (cadd x y) = cadd (Φ x) (Φ y))
    (hzero : Φ (czero M.length) = czero M'.length) (hlen : ∀ x, x.length = M.length → (Φ x).length = M'.length)
    (hF : ∀ l ∈ legs, (F l).ok = true ∧ (F l).leg.mods = M' ∧ (F l).blockNumber = l.blockNumber)
    (hch : ∀ l ∈ legs, ∀ q, q < l.blockNumber →
      makeValid M' ((F l).leg.getCharge q) = makeValid M' (Φ (l.leg.getCharge q)))
    {r : List Nat} (hr : rowInRange legs r = true) :
    blockCharge M' (legs.map F) r = makeValid M' (Φ (rawCharge M.length legs r)) := by
  have hr' : rowInRange (legs.map F) r = true := by
    rw [rowInRange_mapLegs legs F (fun l hl => (hF l hl).2.2)]; exact hr
  have hok' : ∀ l ∈ legs.map F, l.ok = true ∧ l.leg.mods = M' := by
    intro l hl
    obtain ⟨l0, hl0, rfl⟩ := List.mem_map.1 hl
    exact ⟨(hF l0 hl0).1, (hF l0 hl0).2.1⟩
  obtain ⟨hrl, hrb⟩ := (rowInRange_iff _ _).mp hr
  unfold blockCharge
  rw [rawCharge_eq, rawCharge_eq, hom_csum M.length M'.length Φ hadd hzero hlen _ (chList_lengths hok hr)]
  apply makeValid_csum_congr M' _ _ (by simp [chList]) (chList_lengths hok' hr')
  · intro d hd
    obtain ⟨e, he, rfl⟩ := List.mem_map.1 hd
    exact hlen e (chList_lengths hok hr e he)
  · intro i h1 h2
    simp only [chList, List.length_zipWith, List.length_map] at h1 h2
    have hi : i < legs.length := by omega
    have hir : i < r.length := by omega
    simp only [chList, List.getElem_map, List.getElem_zipWith]
    apply hch _ (List.getElem_mem hi)
    have := hrb i hi
    simpa [List.getD, hir] using this

/-! ### `dropIdx` -/

theorem dropIdx_length {α} (k : Nat) (l : List α) (hk : k < l.length) : (dropIdx k l).length = l.length - 1 := by
  simp [dropIdx]; omega

theorem dropIdx_mem {α} {k : Nat} {l : List α} {x : α} (h : x ∈ dropIdx k l) : x ∈ l := by
  unfold dropIdx at h
  rcases List.mem_append.1 h with h | h
  · exact List.mem_of_mem_take h
  · exact List.mem_of_mem_drop h

theorem dropIdx_zipWith {α β γ} (f : α → β → γ) (k : Nat) (M : List α) (x : List β) (h : M.length = x.length) :
    dropIdx k (List.zipWith f M x) = List.zipWith f (dropIdx k M) (dropIdx k x) := by
  unfold dropIdx
  rw [List.take_zipWith, List.drop_zipWith, List.zipWith_append (by simp [h])]

theorem dropIdx_cadd (k : Nat) (x y : Charge) (h : x.length = y.length) :
    dropIdx k (cadd x y) = cadd (dropIdx k x) (dropIdx k y) := dropIdx_zipWith _ k x y h

theorem dropIdx_makeValid (k : Nat) (M : List Nat) (x : Charge) (h : M.length = x.length) :
    dropIdx k (makeValid M x) = makeValid (dropIdx k M) (dropIdx k x) := dropIdx_zipWith _ k M x h

theorem dropIdx_czero (k n : Nat) (hk : k < n) : dropIdx k (czero n) = czero (n - 1) := by
  unfold dropIdx czero
  rw [List.take_replicate, List.drop_replicate, List.replicate_append_replicate]
  congr 1; omega

theorem dropIdx_cscale (k : Nat) (s : Int) (x : Charge) : dropIdx k (cscale s x) = cscale s (dropIdx k x) := by
  simp [dropIdx, cscale, List.map_take, List.map_drop]

theorem dropIdx_nil {α} (k : Nat) : dropIdx k ([] : List α) = [] := by simp [dropIdx]

theorem checkValid_dropIdx (k : Nat) (M : List Nat) (x : Charge) (hk : k < M.length) (h : checkValid M x = true) :
    checkValid (dropIdx k M) (dropIdx k x) = true := by
  have hl := C02.checkValid_length h
  unfold checkValid at h ⊢
  simp only [Bool.and_eq_true, beq_iff_eq, List.all_eq_true] at h ⊢
  refine ⟨by rw [dropIdx_length k x (by omega), dropIdx_length k M hk, hl], ?_⟩
  rw [← dropIdx_zipWith _ k M x hl.symm]
  intro b hb
  exact h.2 b (dropIdx_mem hb)

/-! ### drop_charge -/

theorem legDrop_sane {l : Leg} (hs : l.sane = true) (k : Nat) (hk : k < l.mods.length) :
    (ArrS.legDropCharge l k).sane = true := by
  apply C02.Leg.sane_fromQind
  · simpa [Leg.blockNumber] using sane_len hs
  · exact sane_head hs
  · intro c hc
    obtain ⟨c0, hc0, rfl⟩ := List.mem_map.1 hc
    exact checkValid_dropIdx k _ _ hk (sane_valid hs c0 hc0)
  · exact sane_qconj hs

theorem getCharge_legDrop (l : Leg) (k q : Nat) : (ArrS.legDropCharge l k).getCharge q = dropIdx k (l.getCharge q) := by
  unfold Leg.getCharge
  show cscale l.qconj ((l.charges.map (dropIdx k)).getD q []) = _
  rw [dropIdx_cscale]
  congr 1
  by_cases hq : q < l.charges.length
  · rw [getD_map' _ _ q [] [] hq]
  · rw [getD_ge _ _ _ (by simpa using hq), getD_ge _ _ _ (by simpa using hq), dropIdx_nil]

theorem WFP_dropCharge {a b : ArrS} {k : Nat} (h : WFP a) (hb : a.dropCharge k = some b) : WFP b := by
  unfold ArrS.dropCharge at hb
  split at hb
  · cases hb
  · rename_i hk0
    have hk : k < a.mods.length := by omega
    simp only [Option.some.injEq] at hb
    subst hb
    have hqt := C02.checkValid_length h.qtotal_valid
    have hF : ∀ l ∈ a.legs, (LegS.plain (ArrS.legDropCharge l.leg k)).ok = true ∧
        (LegS.plain (ArrS.legDropCharge l.leg k)).leg.mods = dropIdx k a.mods ∧
        (LegS.plain (ArrS.legDropCharge l.leg k)).blockNumber = l.blockNumber := by
      intro l hl
      have hok := h.legs_ok l hl
      refine ⟨legDrop_sane (LegS.ok_sane hok.1) k (by rw [hok.2]; exact hk), ?_, ?_⟩
      · show dropIdx k l.leg.mods = _
        rw [hok.2]
      · show (l.leg.charges.map (dropIdx k)).length = l.leg.charges.length
        simp
    apply WFP_mapLegs h (fun l => LegS.plain (ArrS.legDropCharge l.leg k)) (dropIdx k a.mods) (dropIdx k a.qtotal)
      (fun m hm => h.mods_pos m (dropIdx_mem hm)) hF (checkValid_dropIdx k _ _ hk h.qtotal_valid)
    intro r hr
    have h0 := h.rows_ok r hr
    have hlenM : (dropIdx k a.mods).length = a.mods.length - 1 := dropIdx_length k _ hk
    rw [blockCharge_hom h.legs_ok _ (dropIdx k)
      (fun x y hx hy => dropIdx_cadd k x y (by rw [hx, hy]))
      (by rw [hlenM]; exact dropIdx_czero k _ hk)
      (fun x hx => by rw [hlenM, dropIdx_length k x (by omega), hx]) hF
      (fun l _ q _ => by rw [show (LegS.plain (ArrS.legDropCharge l.leg k)).leg.getCharge q = _ from
        getCharge_legDrop l.leg k q]) h0.1]
    have hrl : (rawCharge a.mods.length a.legs r).length = a.mods.length := by
      rw [rawCharge_eq]; exact C02.csum_length _ _ (chList_lengths h.legs_ok h0.1)
    rw [← dropIdx_makeValid k _ _ hrl.symm]
    exact congrArg (dropIdx k) h0.2

/-! ### change_charge -/

/-- `d` describes a coarser group than `m`: `U(1) → Z_d`, or `Z_m → Z_d` with `d ∣ m`, `d ≠ 1` -/
def coarser (m d : Nat) : Prop := m = 1 ∨ (d ≠ 1 ∧ (d : Int) ∣ (m : Int))

theorem mv1_coarser (m d : Nat) (h : coarser m d) (x : Int) : mv1 d (mv1 m x) = mv1 d x := by
  unfold mv1
  rcases h with h | ⟨h1, h2⟩
  · simp [h]
  · simp only [h1, ↓reduceIte]
    split
    · rfl
    · exact Int.emod_emod_of_dvd x h2

theorem makeValid_set_coarser (M : List Nat) (k d : Nat) (hk : k < M.length) (h : coarser (M.getD k 1) d)
    (x : Charge) : makeValid (M.set k d) (makeValid M x) = makeValid (M.set k d) x := by
  unfold makeValid
  induction M generalizing k x with
  | nil => simp
  | cons m M ih =>
    cases x with
    | nil => simp
    | cons y x =>
      cases k with
      | zero =>
        simp only [List.getD_cons_zero] at h
        simp only [List.set_cons_zero, List.zipWith_cons_cons, mv1_coarser m d h]
        congr 1
        exact C02.makeValid_idem M x
      | succ k =>
        simp only [List.getD_cons_succ] at h
        simp only [List.set_cons_succ, List.zipWith_cons_cons, C02.mv1_idem]
        congr 1
        exact ih k (by simpa using hk) h x

theorem set_pos (M : List Nat) (k d : Nat) (hd : 1 ≤ d) (hM : ∀ m ∈ M, 1 ≤ m) : ∀ m ∈ M.set k d, 1 ≤ m := by
  intro m hm
  rcases mem_set hm with rfl | hm
  · exact hd
  · exact hM m hm

theorem legChange_sane {l : Leg} (hs : l.sane = true) (k d : Nat) (hd : 1 ≤ d) (hM : ∀ m ∈ l.mods, 1 ≤ m) :
    (ArrS.legChangeCharge l k d).sane = true := by
  apply C02.Leg.sane_fromQind
  · simpa [Leg.blockNumber] using sane_len hs
  · exact sane_head hs
  · intro c hc
    obtain ⟨c0, hc0, rfl⟩ := List.mem_map.1 hc
    exact C02.checkValid_makeValid _ (set_pos _ k d hd hM) _ (by
      rw [C02.checkValid_length (sane_valid hs c0 hc0)]; simp)
  · exact sane_qconj hs

theorem WFP_changeCharge {a b : ArrS} {k d : Nat} (h : WFP a) (hco : coarser (a.mods.getD k 1) d)
    (hb : a.changeCharge k d = some b) : WFP b := by
  unfold ArrS.changeCharge at hb
  split at hb
  · cases hb
  · rename_i hk0
    simp only [ge_iff_le, Bool.or_eq_true, decide_eq_true_eq, not_or, Nat.not_le] at hk0
    obtain ⟨hk, hd0⟩ := hk0
    have hd : 1 ≤ d := by omega
    simp only [Option.some.injEq] at hb
    subst hb
    have hqt := C02.checkValid_length h.qtotal_valid
    have hlenM : (a.mods.set k d).length = a.mods.length := by simp
    have hF : ∀ l ∈ a.legs, (LegS.plain (ArrS.legChangeCharge l.leg k d)).ok = true ∧
        (LegS.plain (ArrS.legChangeCharge l.leg k d)).leg.mods = a.mods.set k d ∧
        (LegS.plain (ArrS.legChangeCharge l.leg k d)).blockNumber = l.blockNumber := by
      intro l hl
      have hok := h.legs_ok l hl
      refine ⟨legChange_sane (LegS.ok_sane hok.1) k d hd (by rw [hok.2]; exact h.mods_pos), ?_, ?_⟩
      · show l.leg.mods.set k d = _
        rw [hok.2]
      · show (l.leg.charges.map _).length = l.leg.charges.length
        simp
    apply WFP_mapLegs h (fun l => LegS.plain (ArrS.legChangeCharge l.leg k d)) (a.mods.set k d)
      (makeValid (a.mods.set k d) a.qtotal) (set_pos _ k d hd h.mods_pos) hF
      (C02.checkValid_makeValid _ (set_pos _ k d hd h.mods_pos) _ (by rw [hqt]; simp))
    intro r hr
    have h0 := h.rows_ok r hr
    rw [blockCharge_hom h.legs_ok _ id (fun x y _ _ => rfl) (by rw [hlenM]; rfl) (fun x hx => by rw [hlenM]; exact hx) hF
      (fun l hl q hq => by
        have hok := h.legs_ok l hl
        show makeValid _ (cscale l.leg.qconj ((l.leg.charges.map (makeValid (l.leg.mods.set k d))).getD q [])) = _
        rw [getD_map' _ _ q [] [] hq, hok.2, makeValid_scale]
        rfl) h0.1]
    rw [← h0.2]
    exact (makeValid_set_coarser a.mods k d hk hco _).symm

/-! ### add_charge -/

theorem makeValid_append (M1 M2 : List Nat) (x y : Charge) (h : x.length = M1.length) :
    makeValid (M1 ++ M2) (x ++ y) = makeValid M1 x ++ makeValid M2 y := by
  unfold makeValid
  rw [List.zipWith_append h.symm]

theorem cadd_append (x1 y1 x2 y2 : Charge) (h : x1.length = y1.length) :
    cadd (x1 ++ x2) (y1 ++ y2) = cadd x1 y1 ++ cadd x2 y2 := by
  unfold cadd
  rw [List.zipWith_append h]

theorem cscale_append (s : Int) (x y : Charge) : cscale s (x ++ y) = cscale s x ++ cscale s y := by
  simp [cscale]

theorem checkValid_append (M1 M2 : List Nat) (x y : Charge) (h1 : checkValid M1 x = true)
    (h2 : checkValid M2 y = true) : checkValid (M1 ++ M2) (x ++ y) = true := by
  have hl := C02.checkValid_length h1
  unfold checkValid at *
  simp only [Bool.and_eq_true, beq_iff_eq, List.all_eq_true] at *
  refine ⟨by simp [h1.1, h2.1], ?_⟩
  rw [List.zipWith_append hl.symm]
  intro b hb
  rcases List.mem_append.1 hb with hb | hb
  · exact h1.2 b hb
  · exact h2.2 b hb

/-- sum of concatenated charge vectors -/
theorem csum_zip_append (n1 n2 : Nat) (cs ds : List Charge) (hl : cs.length = ds.length)
    (hcs : ∀ c ∈ cs, c.length = n1) (hds : ∀ d ∈ ds, d.length = n2) :
    csum (n1 + n2) (List.zipWith (· ++ ·) cs ds) = csum n1 cs ++ csum n2 ds := by
  induction cs generalizing ds with
  | nil =>
    cases ds with
    | nil => simp [csum_nil, czero, List.replicate_append_replicate]
    | cons d ds => simp at hl
  | cons c cs ih =>
    cases ds with
    | nil => simp at hl
    | cons d ds =>
      have hc := hcs c (by simp)
      have hd := hds d (by simp)
      have hcs' : ∀ c ∈ cs, c.length = n1 := fun c hc => hcs c (by simp [hc])
      have hds' : ∀ c ∈ ds, c.length = n2 := fun c hc => hds c (by simp [hc])
      have hz : ∀ e ∈ List.zipWith (· ++ ·) cs ds, e.length = n1 + n2 := by
        intro e he
        obtain ⟨i, hi, rfl⟩ := List.mem_iff_getElem.1 he
        simp only [List.length_zipWith] at hi
        simp only [List.getElem_zipWith, List.length_append]
        rw [hcs' _ (List.getElem_mem (by omega)), hds' _ (List.getElem_mem (by omega))]
      rw [List.zipWith_cons_cons, csum_cons _ _ _ (by simp [hc, hd]) hz, ih ds (by simpa using hl) hcs' hds',
        csum_cons n1 c cs hc hcs', csum_cons n2 d ds hd hds',
        cadd_append _ _ _ _ (by rw [hc, C02.csum_length n1 cs hcs'])]

theorem WFP_addCharge {a b : ArrS} {addLegs : List Leg} {q2 : Charge} {nz : List Bool} {M2 : List Nat} (h : WFP a)
    (hM2 : ∀ m ∈ M2, 1 ≤ m) (hadd : ∀ l ∈ addLegs, l.sane = true ∧ l.mods = M2) (hq2 : q2.length = M2.length)
    (hrule : ∀ r ∈ a.qdata, blockCharge M2 (addLegs.map LegS.plain) r = makeValid M2 q2)
    (hb : a.addCharge addLegs q2 nz = some b) : WFP b := by
  unfold ArrS.addCharge at hb
  split at hb
  · cases hb
  · rename_i hlen0
    have hlen : addLegs.length = a.legs.length := by simpa [ArrS.rank] using hlen0
    split at hb
    · cases hb
    · rename_i hany
      simp only [List.any_eq_true, Bool.or_eq_true, bne_iff_ne, ne_eq, not_exists, not_and, not_or,
        Decidable.not_not] at hany
      generalize hlegs : (a.legs.zip addLegs).map (fun ll => LegS.plain (ArrS.legAddCharge ll.1.leg ll.2)) = legs at hb
      have hll : legs.length = a.legs.length := by rw [← hlegs]; simp [hlen]
      -- facts on the i-th new leg
      have hget : ∀ i (hi : i < legs.length) (h1 : i < a.legs.length) (h2 : i < addLegs.length),
          legs[i] = LegS.plain (ArrS.legAddCharge (a.legs[i]).leg addLegs[i]) := by
        intro i hi h1 h2
        simp [← hlegs]
      have hpair : ∀ i (h1 : i < a.legs.length) (h2 : i < addLegs.length),
          (a.legs[i]).leg.slices = addLegs[i].slices ∧ (a.legs[i]).leg.qconj = addLegs[i].qconj := by
        intro i h1 h2
        have hz : i < (a.legs.zip addLegs).length := by simp; omega
        have := hany ((a.legs.zip addLegs)[i]) (List.getElem_mem hz)
        simpa using this
      have hokL : ∀ l ∈ legs, l.ok = true ∧ l.leg.mods = a.mods ++ M2 := by
        intro l hl
        obtain ⟨i, hi, rfl⟩ := List.mem_iff_getElem.1 hl
        have h1 : i < a.legs.length := by omega
        have h2 : i < addLegs.length := by omega
        rw [hget i hi h1 h2]
        have hok := h.legs_ok _ (List.getElem_mem h1)
        have hs1 := LegS.ok_sane hok.1
        have ha := hadd _ (List.getElem_mem h2)
        have hp := hpair i h1 h2
        refine ⟨?_, ?_⟩
        · apply C02.Leg.sane_fromQind
          · have e1 := sane_len hs1
            have e2 := sane_len ha.1
            unfold Leg.blockNumber at e1 e2
            rw [← hp.1] at e2
            show (a.legs[i]).leg.slices.length = (List.zipWith (· ++ ·) (a.legs[i]).leg.charges addLegs[i].charges).length + 1
            simp only [List.length_zipWith]
            omega
          · exact sane_head hs1
          · intro c hc
            obtain ⟨j, hj, rfl⟩ := List.mem_iff_getElem.1 hc
            simp only [List.length_zipWith] at hj
            simp only [List.getElem_zipWith]
            exact checkValid_append _ _ _ _ (sane_valid hs1 _ (List.getElem_mem (by omega)))
              (sane_valid ha.1 _ (List.getElem_mem (by omega)))
          · exact sane_qconj hs1
        · show (a.legs[i]).leg.mods ++ addLegs[i].mods = _
          rw [hok.2, ha.2]
      have hneL : legs ≠ [] := by
        intro e; rw [e] at hll
        exact h.rank_pos (List.length_eq_zero_iff.1 hll.symm)
      have hmL : ArrS.modsOf legs = a.mods ++ M2 := modsOf_eq_of_mem hneL (fun l hl => (hokL l hl).2)
      have hposL : ∀ m ∈ a.mods ++ M2, 1 ≤ m := by
        intro m hm
        rcases List.mem_append.1 hm with hm | hm
        · exact h.mods_pos m hm
        · exact hM2 m hm
      have hqt := C02.checkValid_length h.qtotal_valid
      cases hz : zeros legs (some (a.qtotal ++ q2)) with
      | none => simp [hz] at hb
      | some z =>
      simp only [hz, Option.some.injEq] at hb
      subst hb
      unfold zeros at hz
      split at hz
      · cases hz
      · simp only [Option.some.injEq] at hz
        subst hz
        have hsubl := sublist_zipfilter a.qdata nz
        refine ⟨hneL, ?_, ?_, ?_, ?_, h.nodup.sublist hsubl, ?_⟩
        · show ∀ m ∈ ArrS.modsOf legs, 1 ≤ m
          rw [hmL]; exact hposL
        · show ∀ l ∈ legs, l.ok = true ∧ l.leg.mods = ArrS.modsOf legs
          rw [hmL]; exact hokL
        · show checkValid (ArrS.modsOf legs) (makeValid (ArrS.modsOf legs) (a.qtotal ++ q2)) = true
          rw [hmL]
          exact C02.checkValid_makeValid _ hposL _ (by simp [hqt, hq2])
        · intro r hr
          have hra : r ∈ a.qdata := hsubl.subset hr
          have h0 := h.rows_ok r hra
          obtain ⟨hrl, hrb⟩ := (rowInRange_iff _ _).mp h0.1
          show rowInRange legs r = true ∧ blockCharge (ArrS.modsOf legs) legs r = makeValid (ArrS.modsOf legs) (a.qtotal ++ q2)
          rw [hmL]
          have hbnL : ∀ i (hi : i < legs.length) (h1 : i < a.legs.length), (legs[i]).blockNumber = (a.legs[i]).blockNumber := by
            intro i hi h1
            have h2 : i < addLegs.length := by omega
            rw [hget i hi h1 h2]
            show (List.zipWith (· ++ ·) (a.legs[i]).leg.charges addLegs[i].charges).length = (a.legs[i]).leg.charges.length
            have e1 := sane_len (LegS.ok_sane (h.legs_ok _ (List.getElem_mem h1)).1)
            have e2 := sane_len (hadd _ (List.getElem_mem h2)).1
            unfold Leg.blockNumber at e1 e2
            rw [(hpair i h1 h2).1] at e1
            simp only [List.length_zipWith]
            omega
          have hrL : rowInRange legs r = true := by
            rw [rowInRange_iff]
            refine ⟨by rw [hrl, hll], ?_⟩
            intro i hi
            rw [hbnL i hi (by omega)]
            exact hrb i (by omega)
          refine ⟨hrL, ?_⟩
          -- the charge lists
          have hokA : ∀ l ∈ addLegs.map LegS.plain, l.ok = true ∧ l.leg.mods = M2 := by
            intro l hl
            obtain ⟨l0, hl0, rfl⟩ := List.mem_map.1 hl
            exact hadd l0 hl0
          have hrA : rowInRange (addLegs.map LegS.plain) r = true := by
            rw [rowInRange_iff]
            refine ⟨by simp [hrl, hlen], ?_⟩
            intro i hi
            have hi' : i < addLegs.length := by simpa using hi
            have h1 : i < a.legs.length := by omega
            have := hrb i h1
            have e1 := sane_len (LegS.ok_sane (h.legs_ok _ (List.getElem_mem h1)).1)
            have e2 := sane_len (hadd _ (List.getElem_mem hi')).1
            rw [(hpair i h1 hi').1] at e1
            simp only [List.getElem_map]
            show r.getD i 0 < addLegs[i].blockNumber
            unfold LegS.blockNumber at this
            omega
          have hch : chList legs r = List.zipWith (· ++ ·) (chList a.legs r) (chList (addLegs.map LegS.plain) r) := by
            apply List.ext_getElem
            · simp [chList, hll, hlen]
            · intro i h1 h2
              simp only [chList, List.length_zipWith, List.length_map] at h1 h2
              have hi : i < legs.length := by omega
              have hia : i < a.legs.length := by omega
              have hib : i < addLegs.length := by omega
              simp only [chList, List.getElem_zipWith, List.getElem_map]
              rw [hget i hi hia hib]
              show cscale (a.legs[i]).leg.qconj ((List.zipWith (· ++ ·) (a.legs[i]).leg.charges addLegs[i].charges).getD r[i] [])
                = cscale (a.legs[i]).leg.qconj ((a.legs[i]).leg.charges.getD r[i] []) ++
                  cscale addLegs[i].qconj (addLegs[i].charges.getD r[i] [])
              rw [← (hpair i hia hib).2, ← cscale_append]
              congr 1
              have hq1 : r[i] < (a.legs[i]).leg.charges.length := by
                have := hrb i hia
                simpa [List.getD, (by omega : i < r.length), LegS.blockNumber, Leg.blockNumber] using this
              have hq2' : r[i] < addLegs[i].charges.length := by
                have e1 := sane_len (LegS.ok_sane (h.legs_ok _ (List.getElem_mem hia)).1)
                have e2 := sane_len (hadd _ (List.getElem_mem hib)).1
                unfold Leg.blockNumber at e1 e2
                rw [(hpair i hia hib).1] at e1
                omega
              rw [getD_lt _ _ _ (by simp; omega), getD_lt _ _ _ hq1, getD_lt _ _ _ hq2']
              simp
          unfold blockCharge
          rw [rawCharge_eq, hch, List.length_append,
            csum_zip_append _ _ _ _ (by simp [chList, hlen]) (chList_lengths h.legs_ok h0.1) (chList_lengths hokA hrA),
            makeValid_append _ _ _ _ (C02.csum_length _ _ (chList_lengths h.legs_ok h0.1)),
            makeValid_append _ _ _ _ hqt, C02.makeValid_of_checkValid _ _ h.qtotal_valid]
          have e1 : makeValid a.mods (csum a.mods.length (chList a.legs r)) = a.qtotal := h0.2
          have e2 : makeValid M2 (csum M2.length (chList (addLegs.map LegS.plain) r)) = makeValid M2 q2 := hrule r hra
          rw [e1, e2]
        · intro hs
          have : a.qdata = [] := by simpa [ArrS.reinsert] using hs
          show (ArrS.reinsert _ a.qdata nz).qdata.Pairwise _
          simp [ArrS.reinsert, this]

end TenpyModel.C02P2
