import TenpyModel.C02.P2_Inv2
/-!
# C02 / Props2 — histories with the two-part invariant "every live tensor is `WF` and all its pipes have non-empty
sectors": `split_legs` then needs no run-time check (`step3`).
-/
namespace TenpyModel.C02P2
open TenpyModel.Core TenpyModel.C02

def EnvPN (env : Env) : Prop := ∀ a ∈ env, PNs a

theorem EnvPN_append {env : Env} {a : ArrS} (h : EnvPN env) (ha : PNs a) : EnvPN (env ++ [a]) := by
  intro x hx
  rcases List.mem_append.mp hx with h' | h'
  · exact h x h'
  · simp only [List.mem_singleton] at h'; subst h'; exact ha

theorem EnvPN_set {env : Env} {a : ArrS} (i : Nat) (h : EnvPN env) (ha : PNs a) : EnvPN (env.set i a) := by
  intro x hx
  rcases List.mem_or_eq_of_mem_set hx with h' | h'
  · exact h x h'
  · subst h'; exact ha

/-- the 17 operation kinds of `PropsHistory` keep the sectors of all pipes non-empty -/
theorem step_PN (op : Op) (env env' : Env) (h : EnvPN env) (hs : step op env = some env') : EnvPN env' := by
  have get : ∀ {i : Nat} {a : ArrS}, env[i]? = some a → PNs a := fun hi => h _ (List.mem_of_getElem? hi)
  cases op with
  | copy i =>
    simp only [step, Option.map_eq_some_iff] at hs
    obtain ⟨a, hi, rfl⟩ := hs
    exact EnvPN_append h (get hi)
  | zerosLike i =>
    simp only [step, Option.map_eq_some_iff] at hs
    obtain ⟨a, hi, rfl⟩ := hs
    exact EnvPN_append h (get (a := a) hi)
  | mkLike i q =>
    simp only [step, Option.bind_eq_some_iff] at hs
    obtain ⟨a, hi, hs⟩ := hs
    split at hs
    · cases hs
    · simp only [Option.map_eq_some_iff] at hs
      obtain ⟨z, hz, rfl⟩ := hs
      exact EnvPN_append h (PNs_fromFunc (get hi) hz)
  | itranspose i axes =>
    simp only [step, Option.bind_eq_some_iff, Option.map_eq_some_iff] at hs
    obtain ⟨a, hi, b, hb, rfl⟩ := hs
    exact EnvPN_set i h (PNs_itranspose (get hi) hb)
  | transpose i axes =>
    simp only [step, Option.bind_eq_some_iff, Option.map_eq_some_iff] at hs
    obtain ⟨a, hi, b, hb, rfl⟩ := hs
    exact EnvPN_append h (PNs_itranspose (get hi) hb)
  | iswapaxes i x y =>
    simp only [step, Option.bind_eq_some_iff, Option.map_eq_some_iff] at hs
    obtain ⟨a, hi, b, hb, rfl⟩ := hs
    exact EnvPN_set i h (PNs_iswapaxes (get hi) hb)
  | conj i =>
    simp only [step, Option.map_eq_some_iff] at hs
    obtain ⟨a, hi, rfl⟩ := hs
    exact EnvPN_append h (PNs_conj a (get hi))
  | iconj i =>
    simp only [step, Option.map_eq_some_iff] at hs
    obtain ⟨a, hi, rfl⟩ := hs
    exact EnvPN_set i h (PNs_conj a (get hi))
  | takeSlice i indices axes =>
    simp only [step, Option.bind_eq_some_iff] at hs
    obtain ⟨a, hi, hs⟩ := hs
    split at hs
    · split at hs
      · simp only [Option.map_eq_some_iff] at hs
        obtain ⟨b, hb, rfl⟩ := hs
        exact EnvPN_append h (PNs_takeSlice (get hi) hb)
      · cases hs
    · cases hs
  | addTrivialLeg i axis qconj =>
    simp only [step, Option.bind_eq_some_iff] at hs
    obtain ⟨a, hi, hs⟩ := hs
    split at hs
    · cases hs
      exact EnvPN_append h (PNs_addTrivialLeg a axis qconj (get hi))
    · cases hs
  | isortQdata i =>
    simp only [step, Option.map_eq_some_iff] at hs
    obtain ⟨a, hi, rfl⟩ := hs
    exact EnvPN_set i h (PNs_isortQdata a (get hi))
  | ipurgeZeros i keep =>
    simp only [step, Option.map_eq_some_iff] at hs
    obtain ⟨a, hi, rfl⟩ := hs
    refine EnvPN_set i h ?_
    unfold ArrS.ipurgeZeros; split <;> exact get (a := a) hi
  | iscalePrefactor i z =>
    simp only [step, Option.map_eq_some_iff] at hs
    obtain ⟨a, hi, rfl⟩ := hs
    exact EnvPN_set i h (PNs_iscalePrefactor a z (get hi))
  | setItem i idx =>
    simp only [step, Option.bind_eq_some_iff, Option.map_eq_some_iff] at hs
    obtain ⟨a, hi, b, hb, rfl⟩ := hs
    exact EnvPN_set i h (PNs_setItem (get hi) hb)
  | ibinary i j perm =>
    simp only [step] at hs
    split at hs
    · rename_i a b hi hj
      split at hs
      · cases hs
      · simp only [Option.map_eq_some_iff] at hs
        obtain ⟨p, hp, rfl⟩ := hs
        have := PNs_ibinary (get hi) (get hj) (a' := p.1) (b' := p.2) hp
        exact EnvPN_set j (EnvPN_set i h this.1) this.2
    · cases hs
  | iadd cy i j perm isZero =>
    simp only [step] at hs
    split at hs
    · rename_i a b hi hj
      split at hs
      · cases hs
      · simp only [Option.map_eq_some_iff] at hs
        obtain ⟨p, hp, rfl⟩ := hs
        have := PNs_iadd (get hi) (get hj) (a' := p.1) (b' := p.2) hp
        exact EnvPN_set j (EnvPN_set i h this.1) this.2
    · cases hs
  | outer i j =>
    simp only [step] at hs
    split at hs
    · rename_i a b hi hj
      simp only [Option.map_eq_some_iff] at hs
      obtain ⟨c, hc, rfl⟩ := hs
      exact EnvPN_append h (PNs_outer (get hi) (get hj) hc)
    · cases hs

def pnB (l : LegS) : Bool :=
  match l with
  | .plain _ => true
  | .pipe p => (List.range p.leg.blockNumber).all (fun I =>
      decide (p.qMapSlices.getD I 0 < p.qMapSlices.getD (I + 1) 0))

theorem PN_of_pnB {l : LegS} (h : pnB l = true) : PN l := by
  cases l with
  | plain _ => trivial
  | pipe p =>
    intro I hI
    simp only [pnB, List.all_eq_true, List.mem_range, decide_eq_true_eq] at h
    exact h I hI

/-- `step2` without the run-time check of `split_legs`; a pipe given to `add_leg` must have non-empty sectors -/
def step3 (op : Op2) (env : Env) : Option Env :=
  match op with
  | .splitLegs i axes => (env[i]?).bind (fun a => (a.splitLegs axes).map (fun b => env ++ [b]))
  | .addLeg i leg idx axis nz => if pnB leg then step2 (.addLeg i leg idx axis nz) env else none
  | op => step2 op env

def run3 (h : List Op2) (env : Env) : Env := h.foldl (fun e op => (step3 op e).getD e) env

theorem step2_PN (op : Op2) (env env' : Env) (h : EnvPN env)
    (hadd : ∀ i leg idx axis nz, op = .addLeg i leg idx axis nz → PN leg)
    (hs : step2 op env = some env') : EnvPN env' := by
  have get : ∀ {i : Nat} {a : ArrS}, env[i]? = some a → PNs a := fun hi => h _ (List.mem_of_getElem? hi)
  cases op with
  | base op => exact step_PN op env env' h hs
  | flipLeg i k =>
    simp only [step2, Option.bind_eq_some_iff, Option.map_eq_some_iff] at hs
    obtain ⟨a, hi, b, hb, rfl⟩ := hs
    exact EnvPN_set i h (PNs_flipLeg (get hi) hb)
  | gauge i axis newq nqc =>
    simp only [step2, Option.bind_eq_some_iff] at hs
    obtain ⟨a, hi, hs⟩ := hs
    split at hs
    · simp only [Option.map_eq_some_iff] at hs
      obtain ⟨b, hb, rfl⟩ := hs
      exact EnvPN_append h (PNs_gauge (get hi) hb)
    · cases hs
  | addLeg i leg idx axis nz =>
    simp only [step2, Option.bind_eq_some_iff] at hs
    obtain ⟨a, hi, hs⟩ := hs
    split at hs
    · simp only [Option.map_eq_some_iff] at hs
      obtain ⟨b, hb, rfl⟩ := hs
      exact EnvPN_append h (PNs_addLeg (get hi) (hadd i leg idx axis nz rfl) hb)
    · cases hs
  | extend i axis extra =>
    simp only [step2, Option.bind_eq_some_iff] at hs
    obtain ⟨a, hi, hs⟩ := hs
    split at hs
    · simp only [Option.map_eq_some_iff] at hs
      obtain ⟨b, hb, rfl⟩ := hs
      exact EnvPN_append h (PNs_extend (get hi) hb)
    · cases hs
  | iproject i masks axes =>
    simp only [step2, Option.bind_eq_some_iff, Option.map_eq_some_iff] at hs
    obtain ⟨a, hi, b, hb, rfl⟩ := hs
    exact EnvPN_set i h (PNs_iproject (get hi) hb)
  | dropCharge i k =>
    simp only [step2, Option.bind_eq_some_iff, Option.map_eq_some_iff] at hs
    obtain ⟨a, hi, b, hb, rfl⟩ := hs
    exact EnvPN_append h (PNs_dropCharge hb)
  | changeCharge i k d =>
    simp only [step2, Option.bind_eq_some_iff] at hs
    obtain ⟨a, hi, hs⟩ := hs
    split at hs
    · simp only [Option.map_eq_some_iff] at hs
      obtain ⟨b, hb, rfl⟩ := hs
      exact EnvPN_append h (PNs_changeCharge hb)
    · cases hs
  | addCharge i addLegs q2 nz =>
    simp only [step2, Option.bind_eq_some_iff] at hs
    obtain ⟨a, hi, hs⟩ := hs
    split at hs
    · simp only [Option.map_eq_some_iff] at hs
      obtain ⟨b, hb, rfl⟩ := hs
      exact EnvPN_append h (PNs_addCharge hb)
    · cases hs
  | concatenate is axis =>
    simp only [step2] at hs
    split at hs
    · cases hs
    · rename_i arrs harrs
      split at hs
      · simp only [Option.map_eq_some_iff] at hs
        obtain ⟨b, hb, rfl⟩ := hs
        exact EnvPN_append h (PNs_concatenate (fun a ha => h a (mapM_getElem?_mem harrs a ha)) hb)
      · cases hs
  | trace i l1 l2 =>
    simp only [step2, Option.bind_eq_some_iff, Option.map_eq_some_iff] at hs
    obtain ⟨a, hi, ob, hb, rfl⟩ := hs
    cases ob with
    | none => exact h
    | some b => exact EnvPN_append h (PNs_trace (get hi) hb)
  | tensordot cy i j axes =>
    simp only [step2] at hs
    split at hs
    · rename_i a b hi hj
      simp only [Option.map_eq_some_iff] at hs
      obtain ⟨oc, hc, rfl⟩ := hs
      cases oc with
      | none => exact h
      | some c => exact EnvPN_append h (PNs_tensordot (get hi) (get hj) hc)
    · cases hs
  | combineLegs i groups newAxes qconjs =>
    simp only [step2, Option.bind_eq_some_iff] at hs
    obtain ⟨a, hi, hs⟩ := hs
    split at hs
    · simp only [Option.map_eq_some_iff] at hs
      obtain ⟨b, hb, rfl⟩ := hs
      exact EnvPN_append h (PNs_combineLegs (get hi) hb)
    · cases hs
  | sortLegcharge i sort bunch =>
    simp only [step2, Option.bind_eq_some_iff, Option.map_eq_some_iff] at hs
    obtain ⟨a, hi, b, hb, rfl⟩ := hs
    exact EnvPN_append h (PNs_sortLegcharge (get hi) hb)
  | splitLegs i axes =>
    simp only [step2, Option.bind_eq_some_iff] at hs
    obtain ⟨a, hi, hs⟩ := hs
    split at hs
    · simp only [Option.map_eq_some_iff] at hs
      obtain ⟨b, hb, rfl⟩ := hs
      exact EnvPN_append h (PNs_splitLegs (get hi) hb)
    · cases hs
  | dropChargeAll i nz =>
    simp only [step2, Option.map_eq_some_iff] at hs
    obtain ⟨a, hi, rfl⟩ := hs
    exact EnvPN_append h (PNs_dropChargeAll a nz)
  | permute i perm axis =>
    simp only [step2, Option.bind_eq_some_iff] at hs
    obtain ⟨a, hi, hs⟩ := hs
    split at hs
    · simp only [Option.map_eq_some_iff] at hs
      obtain ⟨b, hb, rfl⟩ := hs
      exact EnvPN_append h (PNs_permute (get hi) hb)
    · cases hs

theorem step3_inv_of_step2 (op : Op2) (env env' : Env) (hW : EnvWF env) (hP : EnvPN env)
    (hne : ∀ i leg idx axis nz, op ≠ .addLeg i leg idx axis nz) (hs : step2 op env = some env') :
    EnvWF env' ∧ EnvPN env' :=
  ⟨step2_WF op env env' hW hs, step2_PN op env env' hP (fun i leg idx axis nz e => absurd e (hne i leg idx axis nz)) hs⟩

theorem step3_inv (op : Op2) (env env' : Env) (hW : EnvWF env) (hP : EnvPN env) (hs : step3 op env = some env') :
    EnvWF env' ∧ EnvPN env' := by
  cases op with
  | splitLegs i axes =>
    simp only [step3, Option.bind_eq_some_iff, Option.map_eq_some_iff] at hs
    obtain ⟨a, hi, b, hb, rfl⟩ := hs
    have ha := hW a (List.mem_of_getElem? hi)
    have hpa := hP a (List.mem_of_getElem? hi)
    refine ⟨EnvWF_append hW ?_, EnvPN_append hP (PNs_splitLegs hpa hb)⟩
    rw [WF_iff] at *
    exact WFP_splitLegs ha (fun p hp => hpa _ hp) hb
  | addLeg i leg idx axis nz =>
    simp only [step3] at hs
    split at hs
    · rename_i hc
      exact ⟨step2_WF _ env env' hW hs, step2_PN _ env env' hP (by
        intro i' leg' idx' axis' nz' e
        cases e
        exact PN_of_pnB hc) hs⟩
    · cases hs
  | base op =>
    exact step3_inv_of_step2 (Op2.base op) env env' hW hP (by intro _ _ _ _ _ e; cases e) hs
  | flipLeg i k =>
    exact step3_inv_of_step2 (Op2.flipLeg i k) env env' hW hP (by intro _ _ _ _ _ e; cases e) hs
  | gauge i axis newq nqc =>
    exact step3_inv_of_step2 (Op2.gauge i axis newq nqc) env env' hW hP (by intro _ _ _ _ _ e; cases e) hs
  | extend i axis extra =>
    exact step3_inv_of_step2 (Op2.extend i axis extra) env env' hW hP (by intro _ _ _ _ _ e; cases e) hs
  | iproject i masks axes =>
    exact step3_inv_of_step2 (Op2.iproject i masks axes) env env' hW hP (by intro _ _ _ _ _ e; cases e) hs
  | dropCharge i k =>
    exact step3_inv_of_step2 (Op2.dropCharge i k) env env' hW hP (by intro _ _ _ _ _ e; cases e) hs
  | changeCharge i k d =>
    exact step3_inv_of_step2 (Op2.changeCharge i k d) env env' hW hP (by intro _ _ _ _ _ e; cases e) hs
  | addCharge i addLegs q2 nz =>
    exact step3_inv_of_step2 (Op2.addCharge i addLegs q2 nz) env env' hW hP (by intro _ _ _ _ _ e; cases e) hs
  | concatenate is axis =>
    exact step3_inv_of_step2 (Op2.concatenate is axis) env env' hW hP (by intro _ _ _ _ _ e; cases e) hs
  | trace i l1 l2 =>
    exact step3_inv_of_step2 (Op2.trace i l1 l2) env env' hW hP (by intro _ _ _ _ _ e; cases e) hs
  | tensordot cy i j axes =>
    exact step3_inv_of_step2 (Op2.tensordot cy i j axes) env env' hW hP (by intro _ _ _ _ _ e; cases e) hs
  | combineLegs i groups newAxes qconjs =>
    exact step3_inv_of_step2 (Op2.combineLegs i groups newAxes qconjs) env env' hW hP (by intro _ _ _ _ _ e; cases e) hs
  | sortLegcharge i sort bunch =>
    exact step3_inv_of_step2 (Op2.sortLegcharge i sort bunch) env env' hW hP (by intro _ _ _ _ _ e; cases e) hs
  | dropChargeAll i nz =>
    exact step3_inv_of_step2 (Op2.dropChargeAll i nz) env env' hW hP (by intro _ _ _ _ _ e; cases e) hs
  | permute i perm axis =>
    exact step3_inv_of_step2 (Op2.permute i perm axis) env env' hW hP (by intro _ _ _ _ _ e; cases e) hs

theorem run3_inv (h : List Op2) (env : Env) (hW : EnvWF env) (hP : EnvPN env) :
    EnvWF (run3 h env) ∧ EnvPN (run3 h env) := by
  induction h generalizing env with
  | nil => exact ⟨hW, hP⟩
  | cons op ops ih =>
    have hrun : run3 (op :: ops) env = run3 ops ((step3 op env).getD env) := rfl
    rw [hrun]
    cases hs : step3 op env with
    | none => exact ih env hW hP
    | some env' =>
      have := step3_inv op env env' hW hP hs
      exact ih env' this.1 this.2

end TenpyModel.C02P2
