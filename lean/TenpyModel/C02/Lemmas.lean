import TenpyModel.C02.Struct
/-! Helper lemmas for the C02 theorems (core only). -/
namespace TenpyModel.C02
open TenpyModel.Core

/-! ### `pairwiseB` -/

theorem pairwiseB_iff {α} (r : α → α → Bool) (l : List α) :
    pairwiseB r l = true ↔ l.Pairwise (fun a b => r a b = true) := by
  induction l with
  | nil => simp [pairwiseB]
  | cons x xs ih =>
    simp only [pairwiseB, Bool.and_eq_true, List.all_eq_true, List.pairwise_cons, ih]

theorem rowsNodup_iff (rows : List (List Nat)) : rowsNodup rows = true ↔ rows.Pairwise (· ≠ ·) := by
  unfold rowsNodup
  rw [pairwiseB_iff]
  constructor <;> intro h <;> refine h.imp ?_ <;> intro a b hab <;> simpa using hab

theorem rowsSorted_iff (rows : List (List Nat)) :
    rowsSorted rows = true ↔ rows.Pairwise (fun a b => rowLE a b = true) := pairwiseB_iff _ _

/-! ### unpacked well-formedness -/

structure WFP (a : ArrS) : Prop where
  rank_pos : a.legs ≠ []
  mods_pos : ∀ m ∈ a.mods, 1 ≤ m
  legs_ok : ∀ l ∈ a.legs, l.ok = true ∧ l.leg.mods = a.mods
  qtotal_valid : checkValid a.mods a.qtotal = true
  rows_ok : ∀ r ∈ a.qdata, rowInRange a.legs r = true ∧ blockCharge a.mods a.legs r = a.qtotal
  nodup : a.qdata.Pairwise (· ≠ ·)
  sorted_ok : a.sorted = true → a.qdata.Pairwise (fun x y => rowLE x y = true)

theorem WF_iff (a : ArrS) : a.WF ↔ WFP a := by
  unfold ArrS.WF wfB
  simp only [Bool.and_eq_true, List.all_eq_true, Bool.not_eq_true', List.isEmpty_eq_false_iff, decide_eq_true_eq,
    beq_iff_eq, Bool.or_eq_true, rowsNodup_iff, rowsSorted_iff]
  constructor
  · rintro ⟨⟨⟨⟨⟨⟨h1, h2⟩, h3⟩, h4⟩, h5⟩, h6⟩, h7⟩
    refine ⟨h1, h2, h3, h4, h5, h6, ?_⟩
    intro hs
    rcases h7 with h7 | h7
    · rw [hs] at h7; cases h7
    · exact h7
  · intro h
    refine ⟨⟨⟨⟨⟨⟨h.rank_pos, h.mods_pos⟩, h.legs_ok⟩, h.qtotal_valid⟩, h.rows_ok⟩, h.nodup⟩, ?_⟩
    cases hs : a.sorted
    · exact Or.inl rfl
    · exact Or.inr (h.sorted_ok hs)

end TenpyModel.C02
