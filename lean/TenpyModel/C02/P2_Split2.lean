import TenpyModel.C02.P2_Split
import TenpyModel.C02.P2_Project
import TenpyModel.C02.P2_Combine2
/-!
# C02 / Props2 — `split_legs` (all four branches): every stored block is replaced by the blocks of the incoming
block combinations listed in its sector of `q_map`; each of them carries the charge of the pipe's block (fusion rule
in `Pipe.ok`), distinct rows stay distinct (the incoming columns of `q_map` are pairwise distinct), the flag is reset.
-/
namespace TenpyModel.C02P2
open TenpyModel.Core TenpyModel.C02

def pipeAt (a : ArrS) (k : Nat) : Pipe :=
  match a.legSAt k with
  | .pipe p => p
  | .plain l => Pipe.init [l] 1 false false

/-- legs replacing leg `k` -/
def LSof (a : ArrS) (axes : List Nat) (k : Nat) : List LegS :=
  if axes.contains k then (pipeAt a k).legs.map LegS.plain else (a.legs[k]?).toList

/-- row entries replacing entry `k` of `r`; `qrows`: chosen row of `q_map` for every split axis -/
def RSof (a : ArrS) (axes : List Nat) (r qrows : List Nat) (k : Nat) : List Nat :=
  if axes.contains k then (((pipeAt a k).qMap.getD (qrows.getD (axes.idxOf k) 0) []).drop 3) else [r.getD k 0]

/-- the chosen rows lie in the sectors of the block indices of `r` -/
def SecOK (a : ArrS) (axes : List Nat) (r qrows : List Nat) : Prop :=
  ∀ k ∈ axes, (pipeAt a k).qMapSlices.getD (r.getD k 0) 0 ≤ qrows.getD (axes.idxOf k) 0 ∧
    qrows.getD (axes.idxOf k) 0 < (pipeAt a k).qMapSlices.getD (r.getD k 0 + 1) 0

theorem pipe_axis {a : ArrS} {k : Nat} (h : (a.legSAt k).isPipe = true) :
    ∃ hk : k < a.legs.length, a.legs[k] = .pipe (pipeAt a k) := by
  unfold pipeAt
  unfold ArrS.legSAt at *
  cases hl : a.legs[k]? with
  | none => rw [hl] at h; simp [LegS.isPipe] at h
  | some l =>
    rw [hl] at h
    obtain ⟨hk, hlk⟩ := getElem_of_getElem? hl
    refine ⟨hk, ?_⟩
    simp only
    cases l with
    | plain l0 => simp [LegS.isPipe] at h
    | pipe p => exact hlk

theorem pipe_facts {a : ArrS} (h : WFP a) {k : Nat} (hp : (a.legSAt k).isPipe = true) :
    ∃ hk : k < a.legs.length, a.legs[k] = .pipe (pipeAt a k) ∧ PipeOK (pipeAt a k) ∧ (pipeAt a k).leg.mods = a.mods := by
  obtain ⟨hk, hlk⟩ := pipe_axis hp
  have hok := h.legs_ok _ (List.getElem_mem hk)
  rw [hlk] at hok
  have h1 := hok.1
  simp only [LegS.ok, Bool.and_eq_true] at h1
  exact ⟨hk, hlk, PipeOK_of h1.2, hok.2⟩

theorem LS_ok {a : ArrS} (h : WFP a) (axes : List Nat) (hax : ∀ k ∈ axes, (a.legSAt k).isPipe = true) (k : Nat)
    (hk : k < a.legs.length) : LSof a axes k ≠ [] ∧ ∀ l ∈ LSof a axes k, l.ok = true ∧ l.leg.mods = a.mods := by
  unfold LSof
  by_cases hc : axes.contains k = true
  · simp only [hc, ↓reduceIte]
    obtain ⟨_, _, hP, hm⟩ := pipe_facts h (hax k (by simpa using hc))
    refine ⟨by simpa using hP.legs_ne, ?_⟩
    intro l hl
    obtain ⟨l0, hl0, rfl⟩ := List.mem_map.1 hl
    exact ⟨(hP.legs_ok l0 hl0).1, by rw [← hm]; exact (hP.legs_ok l0 hl0).2⟩
  · simp only [hc, Bool.false_eq_true, ↓reduceIte, List.getElem?_eq_getElem hk, Option.toList_some]
    refine ⟨by simp, ?_⟩
    intro l hl
    simp only [List.mem_singleton] at hl
    subst hl
    exact h.legs_ok _ (List.getElem_mem hk)

theorem seg_fact {a : ArrS} (h : WFP a) (axes : List Nat) (hax : ∀ k ∈ axes, (a.legSAt k).isPipe = true)
    {r : List Nat} (hr : r ∈ a.qdata) (qrows : List Nat) (hsec : SecOK a axes r qrows) (k : Nat)
    (hk : k < a.legs.length) :
    rowInRange (LSof a axes k) (RSof a axes r qrows k) = true ∧
    makeValid a.mods (rawCharge a.mods.length (LSof a axes k) (RSof a axes r qrows k))
      = makeValid a.mods ((chList a.legs r).getD k []) := by
  have h0 := h.rows_ok r hr
  have hrk := ((rowInRange_iff _ _).mp h0.1).2 k hk
  rw [chList_getD (h.row_length hr) hk]
  unfold LSof RSof
  by_cases hc : axes.contains k = true
  · simp only [hc, ↓reduceIte]
    have hka : k ∈ axes := by simpa using hc
    obtain ⟨_, hlk, hP, hm⟩ := pipe_facts h (hax k hka)
    rw [hlk] at hrk ⊢
    obtain ⟨s1, _, s3⟩ := sector_segment hP (r.getD k 0) hrk _ (hsec k hka).1 (hsec k hka).2
    rw [hm] at s3
    exact ⟨s1, s3⟩
  · simp only [hc, Bool.false_eq_true, ↓reduceIte, List.getElem?_eq_getElem hk, Option.toList_some]
    have hok := h.legs_ok _ (List.getElem_mem hk)
    constructor
    · rw [rowInRange_iff]
      refine ⟨rfl, ?_⟩
      intro i hi
      simp only [List.length_singleton, Nat.lt_one_iff] at hi
      subst hi
      simpa using hrk
    · have hlen : ((a.legs[k]).leg.getCharge (r.getD k 0)).length = a.mods.length := by
        rw [← hok.2]; exact Leg.getCharge_length (LegS.ok_sane hok.1) hrk
      rw [rawCharge_eq]
      show makeValid a.mods (csum a.mods.length [(a.legs[k]).leg.getCharge (r.getD k 0)]) = _
      rw [csum_cons _ _ _ hlen (by simp), csum_nil, cadd_czero_right _ _ hlen]

theorem split_row_ok {a : ArrS} (h : WFP a) (axes : List Nat) (hax : ∀ k ∈ axes, (a.legSAt k).isPipe = true)
    {r : List Nat} (hr : r ∈ a.qdata) (qrows : List Nat) (hsec : SecOK a axes r qrows) :
    rowInRange ((List.range a.rank).flatMap (LSof a axes)) ((List.range a.rank).flatMap (RSof a axes r qrows)) = true ∧
      blockCharge a.mods ((List.range a.rank).flatMap (LSof a axes)) ((List.range a.rank).flatMap (RSof a axes r qrows))
        = a.qtotal := by
  have h0 := h.rows_ok r hr
  have hcl : (chList a.legs r).length = a.rank := by simp [chList, h.row_length hr, ArrS.rank]
  have := seg_row a.mods (List.range a.rank) (LSof a axes) (RSof a axes r qrows)
    (fun k => (chList a.legs r).getD k [])
    (fun k hk => (LS_ok h axes hax k (List.mem_range.1 hk)).2)
    (fun k hk => (seg_fact h axes hax hr qrows hsec k (List.mem_range.1 hk)).1)
    (fun k hk => (seg_fact h axes hax hr qrows hsec k (List.mem_range.1 hk)).2)
    (fun k hk => chList_lengths h.legs_ok h0.1 _ (getD_mem _ _ _ (by rw [hcl]; exact List.mem_range.1 hk)))
  refine ⟨this.1, ?_⟩
  rw [this.2, ← hcl, C02.map_getD_range, ← h0.2]
  rfl

theorem split_row_inj {a : ArrS} (h : WFP a) (axes : List Nat) (hax : ∀ k ∈ axes, (a.legSAt k).isPipe = true)
    {r r' : List Nat} (hr : r ∈ a.qdata) (hr' : r' ∈ a.qdata) (q q' : List Nat) (hs : SecOK a axes r q)
    (hs' : SecOK a axes r' q')
    (e : (List.range a.rank).flatMap (RSof a axes r q) = (List.range a.rank).flatMap (RSof a axes r' q')) :
    r = r' ∧ ∀ k ∈ axes, q.getD (axes.idxOf k) 0 = q'.getD (axes.idxOf k) 0 := by
  have hb : ∀ k (hk : k < a.legs.length) {x : List Nat}, x ∈ a.qdata → x.getD k 0 < (a.legs[k]).blockNumber :=
    fun k hk x hx => ((rowInRange_iff _ _).mp (h.rows_ok x hx).1).2 k hk
  -- facts about one split axis
  have hax2 : ∀ k ∈ axes, ∀ {x qx : List Nat}, x ∈ a.qdata → SecOK a axes x qx →
      (((pipeAt a k).qMap.getD (qx.getD (axes.idxOf k) 0) []).drop 3).length = (pipeAt a k).legs.length ∧
      qx.getD (axes.idxOf k) 0 < (pipeAt a k).qMap.length ∧
      ((pipeAt a k).qMap.getD (qx.getD (axes.idxOf k) 0) []).getD 2 0 = x.getD k 0 := by
    intro k hk x qx hx hsx
    obtain ⟨hkl, hlk, hP, _⟩ := pipe_facts h (hax k hk)
    have hbk := hb k hkl hx
    rw [hlk] at hbk
    have s := sector_segment hP (x.getD k 0) hbk _ (hsx k hk).1 (hsx k hk).2
    have t := sector_row hP (x.getD k 0) hbk _ (hsx k hk).1 (hsx k hk).2
    exact ⟨s.2.1, t.1, t.2.2⟩
  have hseg := flatMap_inj (List.range a.rank) _ _ (by
    intro k _
    unfold RSof
    by_cases hc : axes.contains k = true
    · simp only [hc, ↓reduceIte]
      have hka : k ∈ axes := by simpa using hc
      rw [(hax2 k hka hr hs).1, (hax2 k hka hr' hs').1]
    · simp only [hc, Bool.false_eq_true, ↓reduceIte, List.length_singleton]) e
  have hcol : ∀ k, k < a.rank → r.getD k 0 = r'.getD k 0 ∧
      (k ∈ axes → q.getD (axes.idxOf k) 0 = q'.getD (axes.idxOf k) 0) := by
    intro k hk
    have hk' := hseg k (List.mem_range.2 hk)
    unfold RSof at hk'
    by_cases hc : axes.contains k = true
    · simp only [hc, ↓reduceIte] at hk'
      have hka : k ∈ axes := by simpa using hc
      obtain ⟨_, _, hP, _⟩ := pipe_facts h (hax k hka)
      obtain ⟨_, j1, i1⟩ := hax2 k hka hr hs
      obtain ⟨_, j2, i2⟩ := hax2 k hka hr' hs'
      have hjj : q.getD (axes.idxOf k) 0 = q'.getD (axes.idxOf k) 0 := by
        apply Classical.byContradiction
        intro hne
        have hnd := hP.nodup
        rw [List.pairwise_map, List.pairwise_iff_getElem] at hnd
        rw [getD_lt _ _ _ j1, getD_lt _ _ _ j2] at hk'
        rcases Nat.lt_or_gt_of_ne hne with hlt | hgt
        · exact hnd _ _ j1 j2 hlt hk'
        · exact hnd _ _ j2 j1 hgt hk'.symm
      refine ⟨?_, fun _ => hjj⟩
      rw [← i1, ← i2, hjj]
    · simp only [hc, Bool.false_eq_true, ↓reduceIte, List.cons.injEq, and_true] at hk'
      exact ⟨hk', fun hka => absurd (by simpa using hka) hc⟩
  refine ⟨?_, fun k hk => (hcol k (pipe_axis (hax k hk)).1).2 hk⟩
  have hl := h.row_length hr
  have hl' := h.row_length hr'
  apply List.ext_getElem (by rw [hl, hl'])
  intro i h1 h2
  have := (hcol i (by unfold ArrS.rank; omega)).1
  simpa [List.getD, h1, h2] using this

end TenpyModel.C02P2
