import TenpyModel.C02.PropsCtor
/-!
# C02 part 5 — histories: `WF` is an invariant of every finite history of the modelled operations,
at every intermediate step. A call that raises leaves the environment unchanged.
-/
open TenpyModel.Core TenpyModel.C02

namespace TenpyModel.C02

/-- one public call; tensors are addressed by their position in the environment -/
inductive Op where
  | copy (i : Nat)
  | zerosLike (i : Nat)
  | mkLike (i : Nat) (q : Charge)                      -- `from_func` / `from_ndarray` on the legs of tensor `i`
  | itranspose (i : Nat) (axes : Option (List Int))     -- in place
  | transpose (i : Nat) (axes : Option (List Int))      -- on a copy
  | iswapaxes (i : Nat) (x y : Int)
  | conj (i : Nat)
  | iconj (i : Nat)
  | takeSlice (i : Nat) (indices axes : List Int)
  | addTrivialLeg (i : Nat) (axis qconj : Int)
  | isortQdata (i : Nat)
  | ipurgeZeros (i : Nat) (keep : List Bool)
  | iscalePrefactor (i : Nat) (isZero : Bool)
  | setItem (i : Nat) (idx : List Int)
  | ibinary (i j : Nat) (perm : Option (List Nat))      -- `a.ibinary_blockwise(f, b)`: modifies a AND sorts b
  | iadd (cy : Bool) (i j : Nat) (perm : Option (List Nat)) (isZero : Bool)
  | outer (i j : Nat)

abbrev Env := List ArrS

def permOk (perm : Option (List Nat)) (rank : Nat) : Bool :=
  match perm with
  | none => true
  | some ax => ax.length == rank && ax.Nodup && ax.all (· < rank)

/-- `none` = the call raises (argument checks of the code or of the caller's contract fail) -/
def step (op : Op) (env : Env) : Option Env :=
  match op with
  | .copy i => (env[i]?).map (fun a => env ++ [a.copy])
  | .zerosLike i => (env[i]?).map (fun a => env ++ [a.zerosLike])
  | .mkLike i q => (env[i]?).bind (fun a =>
      if q.length ≠ a.mods.length then none else (fromFunc a.legs (some q)).map (fun z => env ++ [z]))
  | .itranspose i axes => (env[i]?).bind (fun a => (a.itranspose axes).map (fun b => env.set i b))
  | .transpose i axes => (env[i]?).bind (fun a => (a.itranspose axes).map (fun b => env ++ [b]))
  | .iswapaxes i x y => (env[i]?).bind (fun a => (a.iswapaxes x y).map (fun b => env.set i b))
  | .conj i => (env[i]?).map (fun a => env ++ [a.conj])
  | .iconj i => (env[i]?).map (fun a => env.set i a.conj)
  | .takeSlice i indices axes => (env[i]?).bind (fun a =>
      match axes.mapM a.legIndex with
      | some axn => if axn.Nodup then (a.takeSlice indices axes).map (fun b => env ++ [b]) else none
      | none => none)
  | .addTrivialLeg i axis qconj => (env[i]?).bind (fun a =>
      if qconj = 1 ∨ qconj = -1 then some (env ++ [a.addTrivialLeg axis qconj]) else none)
  | .isortQdata i => (env[i]?).map (fun a => env.set i a.isortQdata)
  | .ipurgeZeros i keep => (env[i]?).map (fun a => env.set i (a.ipurgeZeros keep))
  | .iscalePrefactor i z => (env[i]?).map (fun a => env.set i (a.iscalePrefactor z))
  | .setItem i idx => (env[i]?).bind (fun a => (a.setItem idx).map (fun b => env.set i b))
  | .ibinary i j perm =>
      match env[i]?, env[j]? with
      | some a, some b =>
        if i = j || !permOk perm b.rank then none
        else (a.ibinary b perm).map (fun p => (env.set i p.1).set j p.2)
      | _, _ => none
  | .iadd cy i j perm isZero =>
      match env[i]?, env[j]? with
      | some a, some b =>
        if i = j || !permOk perm b.rank then none
        else (ArrS.iaddPrefactorOther cy a b perm isZero).map (fun p => (env.set i p.1).set j p.2)
      | _, _ => none
  | .outer i j =>
      match env[i]?, env[j]? with
      | some a, some b => (outer a b).map (fun c => env ++ [c])
      | _, _ => none

/-- a history; a raising call changes nothing -/
def run (h : List Op) (env : Env) : Env := h.foldl (fun e op => (step op e).getD e) env

def EnvWF (env : Env) : Prop := ∀ a ∈ env, a.WF

theorem EnvWF_append {env : Env} {a : ArrS} (h : EnvWF env) (ha : a.WF) : EnvWF (env ++ [a]) := by
  intro x hx
  rcases List.mem_append.mp hx with h' | h'
  · exact h x h'
  · simp only [List.mem_singleton] at h'; subst h'; exact ha

theorem EnvWF_set {env : Env} {a : ArrS} (i : Nat) (h : EnvWF env) (ha : a.WF) : EnvWF (env.set i a) := by
  intro x hx
  rcases List.mem_or_eq_of_mem_set hx with h' | h'
  · exact h x h'
  · subst h'; exact ha

theorem permOk_perm {perm : Option (List Nat)} {rank : Nat} (h : permOk perm rank = true) :
    ∀ ax, perm = some ax → ax.Perm (List.range rank) := by
  intro ax hax
  subst hax
  simp only [permOk, Bool.and_eq_true, beq_iff_eq, decide_eq_true_eq, List.all_eq_true] at h
  exact perm_range_of_nodup ax rank h.1.2 h.1.1 h.2

theorem step_WF (op : Op) (env env' : Env) (h : EnvWF env) (hs : step op env = some env') : EnvWF env' := by
  have get : ∀ {i : Nat} {a : ArrS}, env[i]? = some a → a.WF := fun hi => h _ (List.mem_of_getElem? hi)
  cases op with
  | copy i =>
    simp only [step, Option.map_eq_some_iff] at hs
    obtain ⟨a, hi, rfl⟩ := hs
    exact EnvWF_append h (C02_WF_copy a (get hi))
  | zerosLike i =>
    simp only [step, Option.map_eq_some_iff] at hs
    obtain ⟨a, hi, rfl⟩ := hs
    exact EnvWF_append h (C02_WF_zerosLike a (get hi))
  | mkLike i q =>
    simp only [step, Option.bind_eq_some_iff] at hs
    obtain ⟨a, hi, hs⟩ := hs
    split at hs
    · cases hs
    · rename_i hq
      simp only [Option.map_eq_some_iff] at hs
      obtain ⟨z, hz, rfl⟩ := hs
      have hW := (WF_iff a).mp (get hi)
      have hql : ∀ q', some q = some q' → q'.length = (ArrS.modsOf a.legs).length := by
        intro q' hq'
        cases hq'
        have : q.length = a.mods.length := by simpa using hq
        exact this
      exact EnvWF_append h (C02_WF_fromFunc a.legs (some q) z hW.legs_ok hW.mods_pos hql hz)
  | itranspose i axes =>
    simp only [step, Option.bind_eq_some_iff, Option.map_eq_some_iff] at hs
    obtain ⟨a, hi, b, hb, rfl⟩ := hs
    exact EnvWF_set i h (C02_WF_itranspose a axes b (get hi) hb)
  | transpose i axes =>
    simp only [step, Option.bind_eq_some_iff, Option.map_eq_some_iff] at hs
    obtain ⟨a, hi, b, hb, rfl⟩ := hs
    exact EnvWF_append h (C02_WF_itranspose a axes b (get hi) hb)
  | iswapaxes i x y =>
    simp only [step, Option.bind_eq_some_iff, Option.map_eq_some_iff] at hs
    obtain ⟨a, hi, b, hb, rfl⟩ := hs
    exact EnvWF_set i h (C02_WF_iswapaxes a x y b (get hi) hb)
  | conj i =>
    simp only [step, Option.map_eq_some_iff] at hs
    obtain ⟨a, hi, rfl⟩ := hs
    exact EnvWF_append h (C02_WF_conj a (get hi))
  | iconj i =>
    simp only [step, Option.map_eq_some_iff] at hs
    obtain ⟨a, hi, rfl⟩ := hs
    exact EnvWF_set i h (C02_WF_conj a (get hi))
  | takeSlice i indices axes =>
    simp only [step, Option.bind_eq_some_iff] at hs
    obtain ⟨a, hi, hs⟩ := hs
    split at hs
    · rename_i axn hax
      split at hs
      · rename_i hnd
        simp only [Option.map_eq_some_iff] at hs
        obtain ⟨b, hb, rfl⟩ := hs
        exact EnvWF_append h (C02_WF_takeSlice a indices axes b (get hi) hb)
      · cases hs
    · cases hs
  | addTrivialLeg i axis qconj =>
    simp only [step, Option.bind_eq_some_iff] at hs
    obtain ⟨a, hi, hs⟩ := hs
    split at hs
    · rename_i hq
      cases hs
      exact EnvWF_append h (C02_WF_addTrivialLeg a axis qconj hq (get hi))
    · cases hs
  | isortQdata i =>
    simp only [step, Option.map_eq_some_iff] at hs
    obtain ⟨a, hi, rfl⟩ := hs
    exact EnvWF_set i h (C02_WF_isortQdata a (get hi))
  | ipurgeZeros i keep =>
    simp only [step, Option.map_eq_some_iff] at hs
    obtain ⟨a, hi, rfl⟩ := hs
    exact EnvWF_set i h (C02_WF_ipurgeZeros a keep (get hi))
  | iscalePrefactor i z =>
    simp only [step, Option.map_eq_some_iff] at hs
    obtain ⟨a, hi, rfl⟩ := hs
    exact EnvWF_set i h (C02_WF_iscalePrefactor a z (get hi))
  | setItem i idx =>
    simp only [step, Option.bind_eq_some_iff, Option.map_eq_some_iff] at hs
    obtain ⟨a, hi, b, hb, rfl⟩ := hs
    exact EnvWF_set i h (C02_WF_setItem a idx b (get hi) hb)
  | ibinary i j perm =>
    simp only [step] at hs
    split at hs
    · rename_i a b hi hj
      split at hs
      · cases hs
      · rename_i hc
        simp only [Bool.or_eq_true, decide_eq_true_eq, Bool.not_eq_true', not_or, Bool.not_eq_false] at hc
        simp only [Option.map_eq_some_iff] at hs
        obtain ⟨p, hp, rfl⟩ := hs
        have := C02_WF_ibinary a b perm p.1 p.2 (get hi) (get hj) (permOk_perm hc.2) hp
        exact EnvWF_set j (EnvWF_set i h this.1) this.2
    · cases hs
  | iadd cy i j perm isZero =>
    simp only [step] at hs
    split at hs
    · rename_i a b hi hj
      split at hs
      · cases hs
      · rename_i hc
        simp only [Bool.or_eq_true, decide_eq_true_eq, Bool.not_eq_true', not_or, Bool.not_eq_false] at hc
        simp only [Option.map_eq_some_iff] at hs
        obtain ⟨p, hp, rfl⟩ := hs
        have := C02_WF_iaddPrefactorOther cy a b perm isZero p.1 p.2 (get hi) (get hj) (permOk_perm hc.2) hp
        exact EnvWF_set j (EnvWF_set i h this.1) this.2
    · cases hs
  | outer i j =>
    simp only [step] at hs
    split at hs
    · rename_i a b hi hj
      simp only [Option.map_eq_some_iff] at hs
      obtain ⟨c, hc, rfl⟩ := hs
      exact EnvWF_append h (C02_WF_outer a b c (get hi) (get hj) hc)
    · cases hs

end TenpyModel.C02

/-- every finite history of the modelled public operations keeps every live tensor well-formed -/
theorem C02_history (h : List Op) (env : Env) (hw : EnvWF env) : EnvWF (run h env) := by
  induction h generalizing env with
  | nil => exact hw
  | cons op ops ih =>
    simp only [run, List.foldl_cons]
    apply ih
    cases hs : step op env with
    | none => simpa using hw
    | some env' => simpa using step_WF op env env' hw hs

/-- … and at every intermediate step of the history -/
theorem C02_history_every_step (h : List Op) (env : Env) (hw : EnvWF env) (k : Nat) : EnvWF (run (h.take k) env) :=
  C02_history (h.take k) env hw

/-- non-vacuity: a concrete 7-step history on the example tensor with in-place calls, a shallow-copy style
duplicate, an element assignment, a merge with a transposed operand and an outer product -/
example :
    let h := [Op.copy 0, .itranspose 1 (some [1, 0]), .transpose 1 none, .iadd true 0 2 none false,
              .setItem 0 [1, 1], .isortQdata 0, .outer 0 2, .takeSlice 3 [0, 1] [0, 3], .iswapaxes 4 0 1]
    (run h [exA]).length = 5 ∧ (run h [exA]).all (fun a => decide a.WF) = true
      ∧ (run h [exA]).map (·.sorted) = [true, false, true, true, false] := by
  decide
