import TenpyModel.C02.Struct
open TenpyModel.Core TenpyModel.C02
theorem C02_placeholder_PropsHistory : True := trivial
