import TenpyModel.C02.P2_Trace
/-!
# C02 / Props2 — `tensordot`: the worker (`_tensordot_pre_worker` / `_tensordot_worker`) and the one-block branch.
Result rows are `keepA ++ keepB` for pairs of keep-groups whose charges match; the groups are runs of a list that
is lexsorted on the keep part, so the result is strictly lexsorted (`_qdata_sorted = True` is truthful — this uses
the truthful `_qdata_sorted` of `b`, which lets the worker skip sorting `b`).
-/
namespace TenpyModel.C02P2
open TenpyModel.Core TenpyModel.C02

/-! ### `groupRuns` -/

theorem groupRuns_head {α κ} [DecidableEq κ] (key : α → κ) (x : α) (xs : List α) :
    ∃ g tl, groupRuns key (x :: xs) = (key x, g) :: tl := by
  simp only [groupRuns]
  split
  · rename_i k g rest _
    split
    · rename_i hk; exact ⟨x :: g, rest, by rw [hk]⟩
    · exact ⟨[x], (k, g) :: rest, rfl⟩
  · exact ⟨[x], [], rfl⟩

theorem groupRuns_keys {α κ} [DecidableEq κ] (key : α → κ) (l : List α) :
    (groupRuns key l).map (·.1) = dedupAdj (l.map key) := by
  induction l with
  | nil => rfl
  | cons x xs ih =>
    cases xs with
    | nil => rfl
    | cons y rest =>
      obtain ⟨g, tl, hg⟩ := groupRuns_head key y rest
      rw [hg] at ih
      simp only [List.map_cons] at ih ⊢
      rw [groupRuns, hg]
      simp only [dedupAdj]
      by_cases hxy : key x = key y
      · simp only [hxy, ↓reduceIte, List.map_cons]
        rw [ih]
      · simp only [hxy, ↓reduceIte, List.map_cons]
        rw [ih]

/-! ### sortedness of the keep parts -/

theorem rowLE_tail {k k' : Nat} {p p' : List Nat} (hl : p.length = p'.length)
    (h : rowLE (k :: p) (k' :: p') = true) : rowLE p p' = true := by
  unfold rowLE at *
  rw [rowLT_cons k' k hl.symm] at h
  cases hlt : rowLT p' p with
  | false => rfl
  | true => rw [hlt] at h; simp at h

theorem rowLE_drop {x y : List Nat} (n : Nat) (hl : x.length = y.length) (h : rowLE x y = true) :
    rowLE (x.drop n) (y.drop n) = true := by
  unfold rowLE at *
  have := rowLT_append (y.take n) (x.take n) (y.drop n) (x.drop n) (by simp [hl])
  rw [List.take_append_drop, List.take_append_drop] at this
  rw [this] at h
  cases hlt : rowLT (y.drop n) (x.drop n) with
  | false => rfl
  | true => rw [hlt] at h; simp at h

theorem sorted_by_key_part (rows : List (List Nat)) (key : List Nat → Nat) (part : List Nat → List Nat) (c : Nat)
    (hl : ∀ r ∈ rows, (part r).length = c) :
    ((stableSort (fun x y => rowLE (key x :: part x) (key y :: part y)) rows).map part).Pairwise
      (fun x y => rowLE x y = true) := by
  have hs := C02.stableSort_sorted (fun x y => rowLE (key x :: part x) (key y :: part y))
    (fun r => (part r).length = c) (fun a b _ _ => rowLE_total _ _)
    (fun a b c' ha hb hc h1 h2 => rowLE_trans (by simp [ha, hb]) (by simp [hb, hc]) h1 h2) rows hl
  have hp := C02.stableSort_perm (fun x y => rowLE (key x :: part x) (key y :: part y)) rows
  rw [List.pairwise_map]
  refine hs.imp_of_mem ?_
  intro x y hx hy hxy
  exact rowLE_tail (by rw [hl x (hp.mem_iff.mp hx), hl y (hp.mem_iff.mp hy)]) hxy

/-! ### rows of the worker are strictly lexsorted -/

theorem worker_rows_sorted {κA κB : Type} (ga : List (List Nat × κA)) (gb : List (List Nat × κB))
    (P : List Nat × κA → List Nat × κB → Bool) (cB : Nat)
    (hA : (ga.map (·.1)).Pairwise (fun x y => rowLT x y = true))
    (hB : (gb.map (·.1)).Pairwise (fun x y => rowLT x y = true)) (hlB : ∀ kb ∈ gb, kb.1.length = cB) :
    (gb.flatMap (fun kb => (ga.filter (fun ka => P ka kb)).map (fun ka => ka.1 ++ kb.1))).Pairwise
      (fun x y => rowLT x y = true) := by
  rw [List.pairwise_map] at hA hB
  rw [List.pairwise_flatMap]
  constructor
  · intro kb _
    rw [List.pairwise_map]
    refine (hA.sublist List.filter_sublist).imp ?_
    intro x y hxy
    rw [rowLT_append_same_suffix]; exact hxy
  · rw [List.pairwise_iff_forall_sublist] at hB ⊢
    intro kb kb' hs x hx y hy
    obtain ⟨ka, _, rfl⟩ := List.mem_map.1 hx
    obtain ⟨ka', _, rfl⟩ := List.mem_map.1 hy
    exact rowLT_append_of_suffix (by rw [hlB kb (hs.subset (by simp)), hlB kb' (hs.subset (by simp))]) (hB hs)

/-! ### take / drop of rows and legs -/

theorem rowInRange_take {legs : List LegS} {r : List Nat} (h : rowInRange legs r = true) (c : Nat) :
    rowInRange (legs.take c) (r.take c) = true := by
  unfold rowInRange at *
  simp only [Bool.and_eq_true, beq_iff_eq, List.all_eq_true] at h ⊢
  refine ⟨by simp [h.1], ?_⟩
  rw [← List.take_zipWith]
  intro x hx
  exact h.2 x (List.mem_of_mem_take hx)

theorem rowInRange_drop {legs : List LegS} {r : List Nat} (h : rowInRange legs r = true) (c : Nat) :
    rowInRange (legs.drop c) (r.drop c) = true := by
  unfold rowInRange at *
  simp only [Bool.and_eq_true, beq_iff_eq, List.all_eq_true] at h ⊢
  refine ⟨by simp [h.1], ?_⟩
  rw [← List.drop_zipWith]
  intro x hx
  exact h.2 x (List.mem_of_mem_drop hx)

/-- block charge of a concatenated row over concatenated legs -/
theorem blockCharge_append {la lb : List LegS} {M : List Nat} (hoka : ∀ l ∈ la, l.ok = true ∧ l.leg.mods = M)
    (hokb : ∀ l ∈ lb, l.ok = true ∧ l.leg.mods = M) {ra rb : List Nat} (hra : rowInRange la ra = true)
    (hrb : rowInRange lb rb = true) :
    blockCharge M (la ++ lb) (ra ++ rb) = makeValid M (cadd (rawCharge M.length la ra) (rawCharge M.length lb rb)) := by
  have hl := ((rowInRange_iff _ _).mp hra).1
  unfold blockCharge
  rw [rawCharge_eq, rawCharge_eq, rawCharge_eq, chList_append hl,
    csum_append _ _ _ (chList_lengths hoka hra) (chList_lengths hokb hrb)]

theorem rawCharge_length {legs : List LegS} {M : List Nat} (hok : ∀ l ∈ legs, l.ok = true ∧ l.leg.mods = M)
    {r : List Nat} (hr : rowInRange legs r = true) : (rawCharge M.length legs r).length = M.length := by
  rw [rawCharge_eq]; exact C02.csum_length _ _ (chList_lengths hok hr)

/-- splitting a row of `a` at `c`: raw charge = raw charge of the two parts -/
theorem rawCharge_split {legs : List LegS} {M : List Nat} (hok : ∀ l ∈ legs, l.ok = true ∧ l.leg.mods = M)
    {r : List Nat} (hr : rowInRange legs r = true) (c : Nat) :
    rawCharge M.length legs r = cadd (rawCharge M.length (legs.take c) (r.take c))
      (rawCharge M.length (legs.drop c) (r.drop c)) := by
  have hl := ((rowInRange_iff _ _).mp hr).1
  have hokt : ∀ l ∈ legs.take c, l.ok = true ∧ l.leg.mods = M := fun l hl => hok l (List.mem_of_mem_take hl)
  have hokd : ∀ l ∈ legs.drop c, l.ok = true ∧ l.leg.mods = M := fun l hl => hok l (List.mem_of_mem_drop hl)
  conv => lhs; rw [← List.take_append_drop c legs, ← List.take_append_drop c r]
  rw [rawCharge_eq, rawCharge_eq, rawCharge_eq, chList_append (by simp [hl]),
    csum_append _ _ _ (chList_lengths hokt (rowInRange_take hr c)) (chList_lengths hokd (rowInRange_drop hr c))]

/-! ### contracted legs carry opposite charges -/

theorem contracted_cancel {la lb : List LegS} {M : List Nat} (hoka : ∀ l ∈ la, l.ok = true ∧ l.leg.mods = M)
    (hokb : ∀ l ∈ lb, l.ok = true ∧ l.leg.mods = M) (hc : legsContractible la lb = true) {c : List Nat}
    (hra : rowInRange la c = true) (hrb : rowInRange lb c = true) :
    makeValid M (cadd (rawCharge M.length la c) (rawCharge M.length lb c)) = makeValid M (czero M.length) := by
  unfold legsContractible at hc
  simp only [Bool.and_eq_true, beq_iff_eq, List.all_eq_true] at hc
  obtain ⟨hlen, hcon⟩ := hc
  obtain ⟨hla, hba⟩ := (rowInRange_iff _ _).mp hra
  obtain ⟨hlb, hbb⟩ := (rowInRange_iff _ _).mp hrb
  have hA : makeValid M (rawCharge M.length la c) = makeValid M (cneg (rawCharge M.length lb c)) := by
    rw [rawCharge_eq, rawCharge_eq, ← csum_map_cneg _ _ (chList_lengths hokb hrb)]
    apply makeValid_csum_congr M _ _ (by simp [chList, hlen]) (chList_lengths hoka hra)
    · intro d hd
      obtain ⟨e, he, rfl⟩ := List.mem_map.1 hd
      rw [C02.cneg_length]; exact chList_lengths hokb hrb e he
    · intro i h1 h2
      simp only [chList, List.length_zipWith, List.length_map] at h1 h2
      have hi1 : i < la.length := by omega
      have hi2 : i < lb.length := by omega
      have hic : i < c.length := by omega
      simp only [chList, List.getElem_map, List.getElem_zipWith]
      have hz : i < (la.zip lb).length := by simp; omega
      have hcon' := hcon ((la.zip lb)[i]) (List.getElem_mem hz)
      simp only [List.getElem_zip] at hcon'
      have q1 := hba i hi1
      have q2 := hbb i hi2
      simp only [List.getD, List.getElem?_eq_getElem hic, Option.getD_some] at q1 q2
      have := contractible_charge hcon' c[i] q1 q2
      rw [(hoka _ (List.getElem_mem hi1)).2] at this
      exact this
  rw [mv_congr_left M _ hA, C02.cadd_comm, cadd_cneg_self, rawCharge_length hokb hrb]

/-! ### the result of a contraction -/

theorem WFP_td {a b : ArrS} (ha : WFP a) (hb : WFP b) (hm : a.mods = b.mods) (n : Nat) (hna : n ≤ a.rank)
    (hnb : n ≤ b.rank) (hfull : ¬ (n = a.rank ∧ n = b.rank)) (rows : List (List Nat))
    (hrows : ∀ r ∈ rows, rowInRange (a.legs.take (a.rank - n) ++ b.legs.drop n) r = true ∧
      blockCharge a.mods (a.legs.take (a.rank - n) ++ b.legs.drop n) r = makeValid a.mods (cadd a.qtotal b.qtotal))
    (hsorted : rows.Pairwise (fun x y => rowLT x y = true)) :
    WFP { legs := a.legs.take (a.rank - n) ++ b.legs.drop n, qtotal := makeValid a.mods (cadd a.qtotal b.qtotal),
          qdata := rows, sorted := true } := by
  have hne : a.legs.take (a.rank - n) ++ b.legs.drop n ≠ [] := by
    intro e
    have := congrArg List.length e
    simp only [List.length_append, List.length_take, List.length_drop, List.length_nil] at this
    unfold ArrS.rank at *
    omega
  have hok : ∀ l ∈ a.legs.take (a.rank - n) ++ b.legs.drop n, l.ok = true ∧ l.leg.mods = a.mods := by
    intro l hl
    rcases List.mem_append.mp hl with h' | h'
    · exact ha.legs_ok l (List.mem_of_mem_take h')
    · rw [hm]; exact hb.legs_ok l (List.mem_of_mem_drop h')
  have hmods : ArrS.modsOf (a.legs.take (a.rank - n) ++ b.legs.drop n) = a.mods :=
    modsOf_eq_of_mem hne (fun l hl => (hok l hl).2)
  have hboth := (pairwise_rowLT_iff (n := (a.legs.take (a.rank - n) ++ b.legs.drop n).length)
    (fun r hr => ((rowInRange_iff _ _).mp (hrows r hr).1).1)).mp hsorted
  refine ⟨hne, ?_, ?_, ?_, ?_, hboth.2, fun _ => hboth.1⟩
  · show ∀ m ∈ ArrS.modsOf _, 1 ≤ m
    rw [hmods]; exact ha.mods_pos
  · intro l hl
    show l.ok = true ∧ l.leg.mods = ArrS.modsOf _
    rw [hmods]; exact hok l hl
  · show checkValid (ArrS.modsOf _) _ = true
    rw [hmods]
    exact C02.checkValid_makeValid _ ha.mods_pos _ (by
      simp [C02.cadd_length, C02.checkValid_length ha.qtotal_valid, C02.checkValid_length hb.qtotal_valid, hm])
  · intro r hr
    show rowInRange _ r = true ∧ blockCharge (ArrS.modsOf _) _ r = _
    rw [hmods]; exact hrows r hr

/-- a row `keepA ++ keepB` whose charges pass the worker's test `chA == chB` obeys the charge rule -/
theorem td_row_of_charge {a b : ArrS} (ha : WFP a) (hb : WFP b) (hm : a.mods = b.mods) (n : Nat)
    {kA kB : List Nat} (hkA : rowInRange (a.legs.take (a.rank - n)) kA = true)
    (hkB : rowInRange (b.legs.drop n) kB = true)
    (hch : blockCharge a.mods (a.legs.take (a.rank - n)) kA =
      makeValid a.mods (cadd (cneg (rawCharge a.mods.length (b.legs.drop n) kB))
        (makeValid a.mods (cadd a.qtotal b.qtotal)))) :
    rowInRange (a.legs.take (a.rank - n) ++ b.legs.drop n) (kA ++ kB) = true ∧
      blockCharge a.mods (a.legs.take (a.rank - n) ++ b.legs.drop n) (kA ++ kB)
        = makeValid a.mods (cadd a.qtotal b.qtotal) := by
  have hokA : ∀ l ∈ a.legs.take (a.rank - n), l.ok = true ∧ l.leg.mods = a.mods :=
    fun l hl => ha.legs_ok l (List.mem_of_mem_take hl)
  have hokB : ∀ l ∈ b.legs.drop n, l.ok = true ∧ l.leg.mods = a.mods := by
    intro l hl; rw [hm]; exact hb.legs_ok l (List.mem_of_mem_drop hl)
  refine ⟨rowInRange_append hkA hkB, ?_⟩
  rw [blockCharge_append hokA hokB hkA hkB]
  have hrB := rawCharge_length hokB hkB
  generalize rawCharge a.mods.length (b.legs.drop n) kB = rB at *
  unfold blockCharge at hch
  rw [mv_congr_left a.mods rB hch, cadd_swap_right, C02.cadd_comm (cneg rB), cadd_cneg_self, hrB]
  have hql : (makeValid a.mods (cadd a.qtotal b.qtotal)).length = a.mods.length := by
    simp [C02.makeValid_length, C02.cadd_length, C02.checkValid_length ha.qtotal_valid,
      C02.checkValid_length hb.qtotal_valid, hm]
  rw [cadd_czero_left _ _ hql, C02.makeValid_idem]

end TenpyModel.C02P2
