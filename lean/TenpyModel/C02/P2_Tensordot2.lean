import TenpyModel.C02.P2_Tensordot
/-!
# C02 / Props2 — `tensordot`, continued: the worker and the one-block branch assembled; the public call with
arbitrary axes (transposition first).
-/
namespace TenpyModel.C02P2
open TenpyModel.Core TenpyModel.C02

theorem dedupAdj_subset {α} [DecidableEq α] (l : List α) : ∀ x ∈ dedupAdj l, x ∈ l :=
  fun _ hx => (dedupAdj_sublist l).subset hx

/-- the rows built by `_tensordot_worker` from the two pre-sorted row lists -/
theorem worker_WFP {a b : ArrS} (ha : WFP a) (hb : WFP b) (hm : a.mods = b.mods) (n : Nat) (hna : n ≤ a.rank)
    (hnb : n ≤ b.rank) (hfull : ¬ (n = a.rank ∧ n = b.rank)) (sa sb : List (List Nat))
    (hsa : ∀ r ∈ sa, r ∈ a.qdata) (hsb : ∀ r ∈ sb, r ∈ b.qdata)
    (hsaS : (sa.map (fun r => r.take (a.rank - n))).Pairwise (fun x y => rowLE x y = true))
    (hsbS : (sb.map (fun r => r.drop n)).Pairwise (fun x y => rowLE x y = true))
    (Q : List Nat × List (List Nat) → List Nat × List (List Nat) → Bool) :
    WFP { legs := a.legs.take (a.rank - n) ++ b.legs.drop n, qtotal := makeValid a.mods (cadd a.qtotal b.qtotal),
          qdata := (groupRuns (fun (r : List Nat) => r.drop n) sb).flatMap (fun kb =>
            ((groupRuns (fun (r : List Nat) => r.take (a.rank - n)) sa).filter (fun ka =>
              (blockCharge a.mods (a.legs.take (a.rank - n)) ka.1 ==
                makeValid a.mods (cadd (cneg (rawCharge a.mods.length (b.legs.drop n) kb.1))
                  (makeValid a.mods (cadd a.qtotal b.qtotal)))) && Q ka kb)).map (fun ka => ka.1 ++ kb.1)),
          sorted := true } := by
  have hlenA : ∀ x ∈ sa.map (fun r => r.take (a.rank - n)), x.length = a.rank - n := by
    intro x hx
    obtain ⟨r, hr, rfl⟩ := List.mem_map.1 hx
    have := ha.row_length (hsa r hr)
    unfold ArrS.rank at *
    simp only [List.length_take]; omega
  have hlenB : ∀ x ∈ sb.map (fun r => r.drop n), x.length = b.rank - n := by
    intro x hx
    obtain ⟨r, hr, rfl⟩ := List.mem_map.1 hx
    have := hb.row_length (hsb r hr)
    unfold ArrS.rank at *
    simp only [List.length_drop]; omega
  have hkeysA : ∀ ka ∈ groupRuns (fun (r : List Nat) => r.take (a.rank - n)) sa,
      ka.1 ∈ sa.map (fun r => r.take (a.rank - n)) := by
    intro ka hka
    apply dedupAdj_subset
    rw [← groupRuns_keys]
    exact List.mem_map.2 ⟨ka, hka, rfl⟩
  have hkeysB : ∀ kb ∈ groupRuns (fun (r : List Nat) => r.drop n) sb, kb.1 ∈ sb.map (fun r => r.drop n) := by
    intro kb hkb
    apply dedupAdj_subset
    rw [← groupRuns_keys]
    exact List.mem_map.2 ⟨kb, hkb, rfl⟩
  apply WFP_td ha hb hm n hna hnb hfull
  · intro r hr
    obtain ⟨kb, hkb, hr⟩ := List.mem_flatMap.1 hr
    obtain ⟨ka, hka, rfl⟩ := List.mem_map.1 hr
    obtain ⟨hka, hcond⟩ := List.mem_filter.1 hka
    simp only [Bool.and_eq_true, beq_iff_eq] at hcond
    obtain ⟨ra, hra, hrae⟩ := List.mem_map.1 (hkeysA ka hka)
    obtain ⟨rb, hrb, hrbe⟩ := List.mem_map.1 (hkeysB kb hkb)
    have h0a := (ha.rows_ok ra (hsa ra hra)).1
    have h0b := (hb.rows_ok rb (hsb rb hrb)).1
    apply td_row_of_charge ha hb hm n
    · rw [← hrae]; exact rowInRange_take h0a _
    · rw [← hrbe]; exact rowInRange_drop h0b _
    · exact hcond.1
  · apply worker_rows_sorted _ _ _ (b.rank - n)
    · rw [groupRuns_keys]
      exact dedupAdj_sorted_strict (a.rank - n) _ hlenA hsaS
    · rw [groupRuns_keys]
      exact dedupAdj_sorted_strict (b.rank - n) _ hlenB hsbS
    · intro kb hkb
      exact hlenB _ (hkeysB kb hkb)

theorem cadd_four (a b c d : Charge) : cadd (cadd a b) (cadd c d) = cadd (cadd a d) (cadd b c) := by
  rw [C02.cadd_assoc, ← C02.cadd_assoc b, C02.cadd_comm (cadd b c) d, ← C02.cadd_assoc]

/-- the branch with exactly one block in each operand -/
theorem one_block_row {a b : ArrS} (ha : WFP a) (hb : WFP b) (hm : a.mods = b.mods) (n : Nat) (hna : n ≤ a.rank)
    (hcon : legsContractible (a.legs.drop (a.rank - n)) (b.legs.take n) = true)
    {ra rb : List Nat} (hra : ra ∈ a.qdata) (hrb : rb ∈ b.qdata) (he : ra.drop (a.rank - n) = rb.take n) :
    rowInRange (a.legs.take (a.rank - n) ++ b.legs.drop n) (ra.take (a.rank - n) ++ rb.drop n) = true ∧
      blockCharge a.mods (a.legs.take (a.rank - n) ++ b.legs.drop n) (ra.take (a.rank - n) ++ rb.drop n)
        = makeValid a.mods (cadd a.qtotal b.qtotal) := by
  have h0a := ha.rows_ok ra hra
  have h0b := hb.rows_ok rb hrb
  have hokB : ∀ l ∈ b.legs, l.ok = true ∧ l.leg.mods = a.mods := by
    intro l hl; rw [hm]; exact hb.legs_ok l hl
  have hokAt : ∀ l ∈ a.legs.take (a.rank - n), l.ok = true ∧ l.leg.mods = a.mods :=
    fun l hl => ha.legs_ok l (List.mem_of_mem_take hl)
  have hokAd : ∀ l ∈ a.legs.drop (a.rank - n), l.ok = true ∧ l.leg.mods = a.mods :=
    fun l hl => ha.legs_ok l (List.mem_of_mem_drop hl)
  have hokBt : ∀ l ∈ b.legs.take n, l.ok = true ∧ l.leg.mods = a.mods :=
    fun l hl => hokB l (List.mem_of_mem_take hl)
  have hokBd : ∀ l ∈ b.legs.drop n, l.ok = true ∧ l.leg.mods = a.mods :=
    fun l hl => hokB l (List.mem_of_mem_drop hl)
  have rAt := rowInRange_take h0a.1 (a.rank - n)
  have rAd := rowInRange_drop h0a.1 (a.rank - n)
  have rBt := rowInRange_take h0b.1 n
  have rBd := rowInRange_drop h0b.1 n
  refine ⟨rowInRange_append rAt rBd, ?_⟩
  rw [blockCharge_append hokAt hokBd rAt rBd]
  have eA : a.qtotal = makeValid a.mods (rawCharge a.mods.length a.legs ra) := h0a.2.symm
  have eB : b.qtotal = makeValid a.mods (rawCharge a.mods.length b.legs rb) := by
    have := h0b.2.symm; rw [← hm] at this; exact this
  have hsplitA := rawCharge_split ha.legs_ok h0a.1 (a.rank - n)
  have hsplitB := rawCharge_split hokB h0b.1 n
  have hcc := contracted_cancel hokAd hokBt hcon rAd (by rw [he]; exact rBt)
  have hlAk := rawCharge_length hokAt rAt
  have hlBk := rawCharge_length hokBd rBd
  rw [he] at hsplitA hcc
  generalize rawCharge a.mods.length (a.legs.take (a.rank - n)) (ra.take (a.rank - n)) = Ak at *
  generalize rawCharge a.mods.length (b.legs.drop n) (rb.drop n) = Bk at *
  generalize rawCharge a.mods.length (a.legs.drop (a.rank - n)) (rb.take n) = Ac at *
  generalize rawCharge a.mods.length (b.legs.take n) (rb.take n) = Bc at *
  have hl : (cadd Ak Bk).length = a.mods.length := by rw [C02.cadd_length, hlAk, hlBk]; simp
  calc makeValid a.mods (cadd Ak Bk)
      = makeValid a.mods (cadd (cadd Ak Bk) (czero a.mods.length)) := by rw [cadd_czero_right _ _ hl]
    _ = makeValid a.mods (cadd (cadd Ak Bk) (cadd Ac Bc)) := by
        rw [← C02.makeValid_add, ← hcc, C02.makeValid_add]
    _ = makeValid a.mods (cadd (cadd Ak Ac) (cadd Bc Bk)) := by rw [cadd_four Ak Ac Bc Bk]
    _ = makeValid a.mods (cadd (rawCharge a.mods.length a.legs ra) (rawCharge a.mods.length b.legs rb)) := by
        rw [← hsplitA, ← hsplitB]
    _ = makeValid a.mods (cadd a.qtotal b.qtotal) := by
        rw [eA, eB, C02.makeValid_add, C02.makeValid_add_left]

theorem mem_stableSort {α} (le : α → α → Bool) (l : List α) : ∀ r ∈ stableSort le l, r ∈ l :=
  fun _ hr => (C02.stableSort_perm le l).mem_iff.mp hr

/-- `tensordot` in standard form (contract the last `n` legs of `a` with the first `n` legs of `b`), all branches -/
theorem WFP_tensordotStd {a b c : ArrS} {n : Nat} (ha : WFP a) (hb : WFP b)
    (h : tensordotStd a b n = some (some c)) : WFP c := by
  unfold tensordotStd at h
  simp only at h
  split at h
  · cases h
  · rename_i hc1
    simp only [ne_eq, gt_iff_lt, Bool.or_eq_true, decide_eq_true_eq, not_or, Decidable.not_not, Nat.not_lt] at hc1
    obtain ⟨⟨hm, hna⟩, hnb⟩ := hc1
    split at h
    · cases h
    · rename_i hcon0
      have hcon : legsContractible (a.legs.drop (a.rank - n)) (b.legs.take n) = true := by simpa using hcon0
      split at h
      · cases h
      · rename_i hfull
        simp only [Bool.and_eq_true, decide_eq_true_eq] at hfull
        split at h
        · simp only [Option.some.injEq] at h; rw [← h]
          exact WFP_td ha hb hm n hna hnb hfull [] (by simp) List.Pairwise.nil
        · simp only [Option.some.injEq] at h; rw [← h]
          exact WFP_td ha hb hm n hna hnb hfull [] (by simp) List.Pairwise.nil
        · rename_i ra rb hqa hqb
          split at h
          · rename_i he
            simp only [Option.some.injEq] at h; rw [← h]
            apply WFP_td ha hb hm n hna hnb hfull
            · intro r hr
              simp only [List.mem_singleton] at hr
              subst hr
              exact one_block_row ha hb hm n hna hcon (by rw [hqa]; simp) (by rw [hqb]; simp) (by simpa using he)
            · exact List.pairwise_singleton _ _
          · simp only [Option.some.injEq] at h; rw [← h]
            exact WFP_td ha hb hm n hna hnb hfull [] (by simp) List.Pairwise.nil
        · split at h
          · simp only [Option.map_eq_some_iff, Option.some.injEq] at h
            obtain ⟨o, ho, rfl⟩ := h
            have := C02_WF_outer a b o ((WF_iff a).mpr ha) ((WF_iff b).mpr hb) ho
            exact (WF_iff o).mp this
          · simp only [Option.some.injEq] at h; rw [← h]
            have hlA : ∀ r ∈ a.qdata, (r.take (a.rank - n)).length = a.rank - n := by
              intro r hr
              have := ha.row_length hr
              unfold ArrS.rank at *
              simp only [List.length_take]; omega
            have hlB : ∀ r ∈ b.qdata, (r.drop n).length = b.rank - n := by
              intro r hr
              have := hb.row_length hr
              unfold ArrS.rank at *
              simp only [List.length_drop]; omega
            apply worker_WFP ha hb hm n hna hnb hfull
            · exact mem_stableSort _ _
            · intro r hr
              split at hr
              · exact hr
              · exact mem_stableSort _ _ r hr
            · exact sorted_by_key_part a.qdata _ (fun r => r.take (a.rank - n)) (a.rank - n) hlA
            · split
              · rename_i hbs
                rw [List.pairwise_map]
                refine (hb.sorted_ok hbs).imp_of_mem ?_
                intro x y hx hy hxy
                exact rowLE_drop n (by rw [hb.row_length hx, hb.row_length hy]) hxy
              · exact sorted_by_key_part b.qdata _ (fun r => r.drop n) (b.rank - n) hlB


/-! ### arbitrary axes: `_tensordot_transpose_axes` first -/

theorem perm_not_append (ax : List Nat) (n : Nat) (hnd : ax.Nodup) (hlt : ∀ k ∈ ax, k < n) :
    (((List.range n).filter (fun k => !ax.contains k)) ++ ax).Perm (List.range n) := by
  have h1 := List.filter_append_perm (fun k => !ax.contains k) (List.range n)
  have h2 : ((List.range n).filter (fun k => !(!ax.contains k))).Perm ax := by
    have := filter_contains_perm ax n hnd hlt
    simpa using this
  exact (List.Perm.append_left _ h2.symm).trans h1

theorem permuteAxes_mods {a : ArrS} (h : WFP a) (ax : List Nat) (hp : ax.Perm (List.range a.rank)) :
    (a.permuteAxes ax).mods = a.mods ∧ (a.permuteAxes ax).qtotal = a.qtotal := by
  have hW := WFP_permuteAxes h ax hp
  refine ⟨?_, rfl⟩
  obtain ⟨l, hl⟩ := List.exists_mem_of_ne_nil _ hW.rank_pos
  have h1 := (hW.legs_ok l hl).2
  have hl' : l ∈ a.legs := by
    simp only [ArrS.permuteAxes] at hl
    obtain ⟨i, _, hi⟩ := List.mem_filterMap.mp hl
    exact List.mem_of_getElem? hi
  rw [← h1, (h.legs_ok l hl').2]

theorem tdTranspose_WFP {cy : Bool} {a b : ArrS} (ha : WFP a) (hb : WFP b) (axA axB : List Nat) (hndA : axA.Nodup)
    (hndB : axB.Nodup) (hltA : ∀ k ∈ axA, k < a.rank) (hltB : ∀ k ∈ axB, k < b.rank) :
    WFP (tdTranspose cy a b axA axB).1 ∧ WFP (tdTranspose cy a b axA axB).2 ∧
    (tdTranspose cy a b axA axB).1.mods = a.mods ∧ (tdTranspose cy a b axA axB).1.qtotal = a.qtotal ∧
    (tdTranspose cy a b axA axB).2.qtotal = b.qtotal := by
  have hpA := perm_not_append axA a.rank hndA hltA
  have hpB : (axB ++ (List.range b.rank).filter (fun k => !axB.contains k)).Perm (List.range b.rank) :=
    List.perm_append_comm.trans (perm_not_append axB b.rank hndB hltB)
  unfold tdTranspose
  simp only
  refine ⟨?_, ?_, ?_, ?_, ?_⟩
  · split
    · exact ha
    · exact WFP_permuteAxes ha _ hpA
  · split
    · exact hb
    · exact WFP_permuteAxes hb _ hpB
  · split
    · rfl
    · exact (permuteAxes_mods ha _ hpA).1
  · split <;> rfl
  · split <;> rfl

theorem tensordot_unpack {cy : Bool} {a b : ArrS} {axes : Nat ⊕ (List Int × List Int)} {c : Option ArrS}
    (ha : WFP a) (hb : WFP b) (h : tensordot cy a b axes = some c) :
    ∃ a' b' n, WFP a' ∧ WFP b' ∧ a'.mods = a.mods ∧ a'.qtotal = a.qtotal ∧ b'.qtotal = b.qtotal ∧
      tensordotStd a' b' n = some c := by
  unfold tensordot at h
  cases axes with
  | inl n => exact ⟨a, b, n, ha, hb, rfl, rfl, rfl, h⟩
  | inr p =>
    obtain ⟨axA, axB⟩ := p
    simp only at h
    cases hA : axA.mapM a.legIndex with
    | none => simp [hA] at h
    | some nA =>
      cases hB : axB.mapM b.legIndex with
      | none => simp [hA, hB] at h
      | some nB =>
        simp only [hA, hB] at h
        split at h
        · cases h
        · rename_i hc
          simp only [ne_eq, Bool.or_eq_true, decide_eq_true_eq, Bool.not_eq_true', decide_eq_false_iff_not, not_or,
            Decidable.not_not] at hc
          have hltA : ∀ k ∈ nA, k < a.rank := by
            intro k hk; obtain ⟨j, _, hj⟩ := mapM_some_mem hA k hk; exact legIndex_lt hj
          have hltB : ∀ k ∈ nB, k < b.rank := by
            intro k hk; obtain ⟨j, _, hj⟩ := mapM_some_mem hB k hk; exact legIndex_lt hj
          obtain ⟨w1, w2, w3, w4, w5⟩ := tdTranspose_WFP (cy := cy) ha hb nA nB hc.1.2 hc.2 hltA hltB
          exact ⟨_, _, _, w1, w2, w3, w4, w5, h⟩

theorem WFP_tensordot {cy : Bool} {a b c : ArrS} {axes : Nat ⊕ (List Int × List Int)} (ha : WFP a) (hb : WFP b)
    (h : tensordot cy a b axes = some (some c)) : WFP c := by
  obtain ⟨a', b', n, ha', hb', _, _, _, hstd⟩ := tensordot_unpack ha hb h
  exact WFP_tensordotStd ha' hb' hstd

end TenpyModel.C02P2
