import TenpyModel.C02.P2_Combine
/-!
# C02 / Props2 — `combineStd` assembled.
-/
namespace TenpyModel.C02P2
open TenpyModel.Core TenpyModel.C02

theorem legs_fold_ok {a : ArrS} (ngps : List (Nat × List Nat × Pipe)) (hgood : ∀ x ∈ ngps, GoodPipe a x.2.1 x.2.2)
    (legsC : List LegS) (hok : ∀ l ∈ legsC, l.ok = true ∧ l.leg.mods = a.mods) :
    ∀ l ∈ ngps.foldl legsStep legsC, l.ok = true ∧ l.leg.mods = a.mods := by
  induction ngps generalizing legsC with
  | nil => exact hok
  | cons x ngps ih =>
    simp only [List.foldl_cons]
    apply ih (fun y hy => hgood y (by simp [hy]))
    intro l hl
    unfold legsStep at hl
    rcases mem_insertAt hl with rfl | hl
    · exact ⟨(hgood x (by simp)).ok, (hgood x (by simp)).mods⟩
    · exact hok l hl

theorem zip3_map_pair {α β γ} (na : List α) (gs : List β) (ps : List γ) (h1 : na.length = gs.length)
    (h2 : ps.length = gs.length) :
    (na.zip (gs.zip ps)).map (fun x => (x.1, x.2.2)) = na.zip ps ∧ (na.zip (gs.zip ps)).map (fun x => x.2.1) = gs := by
  induction na generalizing gs ps with
  | nil =>
    cases gs with
    | nil => simp
    | cons g gs => simp at h1
  | cons n na ih =>
    cases gs with
    | nil => simp at h1
    | cons g gs =>
      cases ps with
      | nil => simp at h2
      | cons p ps =>
        have := ih gs ps (by simpa using h1) (by simpa using h2)
        simp [this.1, this.2]

/-- result of `_combine_legs_worker`: legs, mapped rows (sorted, duplicates merged) -/
theorem WFP_of_rows {legs : List LegS} {M : List Nat} {qt : Charge} (hne : legs ≠ []) (hM : ∀ m ∈ M, 1 ≤ m)
    (hok : ∀ l ∈ legs, l.ok = true ∧ l.leg.mods = M) (hqt : checkValid M qt = true) (rows : List (List Nat))
    (hrows : ∀ r ∈ rows, rowInRange legs r = true ∧ blockCharge M legs r = qt)
    (hs : rows.Pairwise (fun x y => rowLT x y = true)) (s : Bool) :
    WFP { legs := legs, qtotal := qt, qdata := rows, sorted := s } := by
  have hm : ArrS.modsOf legs = M := modsOf_eq_of_mem hne (fun l hl => (hok l hl).2)
  have hboth := (pairwise_rowLT_iff (n := legs.length) (fun r hr => rowInRange_length (hrows r hr).1)).mp hs
  refine ⟨hne, ?_, ?_, ?_, ?_, hboth.2, fun _ => hboth.1⟩
  · show ∀ m ∈ ArrS.modsOf legs, 1 ≤ m
    rw [hm]; exact hM
  · show ∀ l ∈ legs, l.ok = true ∧ l.leg.mods = ArrS.modsOf legs
    rw [hm]; exact hok
  · show checkValid (ArrS.modsOf legs) qt = true
    rw [hm]; exact hqt
  · intro r hr
    show rowInRange legs r = true ∧ blockCharge (ArrS.modsOf legs) legs r = qt
    rw [hm]; exact hrows r hr

theorem WFP_combineStd {a b : ArrS} {groups : List (List Nat)} {newAxes : List Nat} {pipes : List Pipe} (h : WFP a)
    (hl1 : newAxes.length = groups.length) (hl2 : pipes.length = groups.length)
    (hgood : ∀ x ∈ newAxes.zip (groups.zip pipes), GoodPipe a x.2.1 x.2.2)
    (hnd : groups.flatten.Nodup)
    (hb : a.combineStd groups newAxes pipes = some b) : WFP b ∧ b.qtotal = a.qtotal := by
  unfold ArrS.combineStd at hb
  simp only at hb
  generalize hT : newAxes.zip (groups.zip pipes) = T at hgood hb
  obtain ⟨hz1, hz2⟩ := zip3_map_pair newAxes groups pipes hl1 hl2
  rw [hT] at hz1 hz2
  generalize hnc : (List.range a.rank).filter (fun k => !groups.flatten.contains k) = nonComb at hb
  generalize hlegs0 : nonComb.filterMap (fun k => a.legs[k]?) = legs0 at hb
  -- the legs
  have hlegsfold : (newAxes.zip pipes).foldl (fun (ls : List LegS) np => insertAt (min np.1 ls.length) (.pipe np.2) ls) legs0
      = T.foldl legsStep legs0 := by
    rw [← hz1, List.foldl_map]; rfl
  rw [hlegsfold] at hb
  generalize hlegs' : T.foldl legsStep legs0 = legs' at hb
  have hglt : ∀ k ∈ groups.flatten, k < a.rank := by
    intro k hk
    obtain ⟨g, hg, hkg⟩ := List.mem_flatten.1 hk
    rw [← hz2] at hg
    obtain ⟨x, hx, rfl⟩ := List.mem_map.1 hg
    exact (hgood x hx).lt k hkg
  have hnclt : ∀ k ∈ nonComb, k < a.legs.length := by
    intro k hk; rw [← hnc] at hk; exact List.mem_range.1 (List.mem_filter.1 hk).1
  have hok0 : ∀ l ∈ legs0, l.ok = true ∧ l.leg.mods = a.mods := by
    intro l hl
    rw [← hlegs0] at hl
    obtain ⟨i, _, hi⟩ := List.mem_filterMap.mp hl
    exact h.legs_ok l (List.mem_of_getElem? hi)
  have hok' : ∀ l ∈ legs', l.ok = true ∧ l.leg.mods = a.mods := by
    rw [← hlegs']; exact legs_fold_ok T hgood legs0 hok0
  have hperm : (T.foldl colsStep nonComb).Perm (List.range a.rank) := by
    refine (foldl_colsStep_perm T nonComb).trans ?_
    rw [hz2, ← hnc]
    exact List.perm_append_comm.trans (perm_not_append groups.flatten a.rank hnd hglt)
  -- every row
  have hrow : ∀ r ∈ a.qdata, rowInRange legs' (T.foldl (rowStep r) (selectCols nonComb r 0)) = true ∧
      blockCharge a.mods legs' (T.foldl (rowStep r) (selectCols nonComb r 0)) = a.qtotal := by
    intro r hr
    have h0 := h.rows_ok r hr
    have := combine_fold h hr T hgood legs0 (selectCols nonComb r 0) nonComb hok0
      (by rw [← hlegs0]; exact rowInRange_permute h0.1 nonComb hnclt) (fun k hk => hnclt k hk) (by
        rw [← hlegs0]
        unfold blockCharge
        rw [rawCharge_eq, chList_permute a.legs r nonComb (h.row_length hr) hnclt])
    rw [hlegs'] at this
    exact ⟨this.2.1, this.2.2.2.trans (blockCharge_all_cols h hr _ hperm)⟩
  cases hz : zeros legs' (some a.qtotal) with
  | none => simp [hz] at hb
  | some z =>
    simp only [hz] at hb
    unfold zeros at hz
    split at hz
    · cases hz
    · rename_i hne0
      have hne : legs' ≠ [] := by simpa using hne0
      simp only [Option.some.injEq] at hz
      have hm : ArrS.modsOf legs' = a.mods := modsOf_eq_of_mem hne (fun l hl => (hok' l hl).2)
      have hzq : z = { legs := legs', qtotal := a.qtotal, qdata := [], sorted := true } := by
        rw [← hz, hm]
        simp [C02.makeValid_of_checkValid _ _ h.qtotal_valid]
      subst hzq
      have hmapRow : ∀ r, (T.foldl (fun (row : List Nat) ngp =>
            insertAt (min ngp.1 row.length)
              ((ngp.2.2.qMap.getD (ngp.2.2.mapIncomingQind (selectCols ngp.2.1 r 0)) []).getD 2 0) row)
            (selectCols nonComb r 0)) = T.foldl (rowStep r) (selectCols nonComb r 0) := fun r => rfl
      split at hb
      · simp only [Option.some.injEq] at hb; subst hb
        exact ⟨WFP_of_rows hne h.mods_pos hok' h.qtotal_valid [] (by simp) List.Pairwise.nil true, rfl⟩
      · rename_i r hqd
        simp only [Option.some.injEq] at hb; subst hb
        refine ⟨?_, rfl⟩
        apply WFP_of_rows hne h.mods_pos hok' h.qtotal_valid
        · intro r' hr'
          simp only [List.mem_singleton] at hr'
          subst hr'
          exact hrow r (by rw [hqd]; simp)
        · exact List.pairwise_singleton _ _
      · simp only [Option.some.injEq] at hb; subst hb
        have hmem : ∀ r' ∈ dedupAdj (sortRows (a.qdata.map (fun r => T.foldl (rowStep r) (selectCols nonComb r 0)))),
            ∃ r ∈ a.qdata, r' = T.foldl (rowStep r) (selectCols nonComb r 0) := by
          intro r' hr'
          have := (sortRows_perm _).mem_iff.mp (dedupAdj_subset _ r' hr')
          obtain ⟨r, hr, rfl⟩ := List.mem_map.1 this
          exact ⟨r, hr, rfl⟩
        refine ⟨?_, rfl⟩
        apply WFP_of_rows hne h.mods_pos hok' h.qtotal_valid
        · intro r' hr'
          obtain ⟨r, hr, rfl⟩ := hmem r' hr'
          exact hrow r hr
        · apply C02_combine_rows_sorted_partial legs'.length
          intro r' hr'
          obtain ⟨r, hr, rfl⟩ := List.mem_map.1 hr'
          exact rowInRange_length (hrow r hr).1

end TenpyModel.C02P2
