import TenpyModel.C02.P2_Project
import TenpyModel.C02.P2_Charges
import TenpyModel.C02.P2_Concat
import TenpyModel.C02.P2_Trace
import TenpyModel.C02.P2_Tensordot2
import TenpyModel.C02.P2_Tensordot3
import TenpyModel.C02.P2_History
import TenpyModel.C02.P2_History2
/-!
# C02 — Props2: `WF` (= `Array.test_sanity()` + truthful `_qdata_sorted` + pairwise distinct rows) is preserved by
the operations that change legs (leg-level operations lifted to tensors), by `concatenate`, `trace`, the
`tensordot` worker, `combine_legs` / `split_legs` / `sort_legcharge`; documented `qtotal` of each.
Helper lemmas: `P2_*.lean` (namespace `TenpyModel.C02P2`). Theorems at root namespace `C02_*`.
Hypotheses beyond `WF` of the operands are exactly the properties of the *arguments* that the code assumes
(a new leg passes its own `test_sanity` and lives over the same `chinfo`, …).
-/
open TenpyModel.Core TenpyModel.C02 TenpyModel.C02P2

/-! ## 1. leg-level operations lifted to tensors -/

/-- `a.legs[k] = a.legs[k].flip_charges_qconj()` (pattern of `networks/mpo.py`) / `LegPipe.outer_conj()`:
the physical charges of leg `k` are unchanged, so rows, `qtotal` and the flag stay; the new leg is sane
(`sorted` reset, `bunched` kept), an outer-conjugated pipe keeps its fusion rule. -/
theorem C02_WF_flipLeg (a : ArrS) (k : Nat) (b : ArrS) (h : a.WF) (hb : a.flipLeg k = some b) : b.WF := by
  rw [WF_iff] at *; exact WFP_flipLeg h hb

theorem C02_qtotal_flipLeg (a : ArrS) (k : Nat) (b : ArrS) (hb : a.flipLeg k = some b) :
    b.qtotal = a.qtotal ∧ b.qdata = a.qdata ∧ b.sorted = a.sorted := by
  unfold ArrS.flipLeg at hb
  split at hb
  · cases hb
  · cases hb; exact ⟨rfl, rfl, rfl⟩
  · cases hb; exact ⟨rfl, rfl, rfl⟩

example : (exA.flipLeg 0).map (fun b => (decide b.WF, (b.legAt 0).sorted, (b.legAt 0).charges)) =
    some (true, false, [[0], [-1]]) := by decide

/-- `gauge_total_charge(axis, newqtotal, new_qconj)`: the charges of one leg are shifted by the difference of the
total charges (and negated when the direction changes); every stored block satisfies the charge rule for the
new total charge. `hq`: the requested total charge has `qnumber` entries. -/
theorem C02_WF_gaugeTotalCharge (a : ArrS) (axis : Int) (newq : Option Charge) (nqc : Option Int) (b : ArrS)
    (h : a.WF) (hq : ∀ q, newq = some q → q.length = a.mods.length)
    (hb : a.gaugeTotalCharge axis newq nqc = some b) : b.WF := by
  rw [WF_iff] at *; exact WFP_gauge h hq hb

/-- documented qtotal of `gauge_total_charge`: the requested one, made valid -/
theorem C02_qtotal_gaugeTotalCharge (a : ArrS) (axis : Int) (newq : Option Charge) (nqc : Option Int) (b : ArrS)
    (hb : a.gaugeTotalCharge axis newq nqc = some b) :
    b.qtotal = makeValid a.mods (newq.getD (czero a.mods.length)) := by
  unfold ArrS.gaugeTotalCharge at hb
  cases hax : a.legIndex axis with
  | none => simp [hax] at hb
  | some k =>
    simp only [hax] at hb
    split at hb
    · cases hb
    · cases hb; rfl

example : (exA.gaugeTotalCharge 1 (some [3]) (some 1)).map (fun b => (decide b.WF, b.qtotal, (b.legAt 1).charges, b.sorted)) =
    some (true, [3], [[3], [2]], false) := by decide

/-- `add_leg(leg, i, axis)`: a new column with the block index of `i` in every row, `qtotal` gains the charge of that
index; blocks are re-inserted one by one, so the flag is only kept for an array without blocks.
`hL`, `hLm`: the new leg passes its `test_sanity` and has the same `chinfo`. -/
theorem C02_WF_addLeg (a : ArrS) (leg : LegS) (i axis : Int) (nz : List Bool) (b : ArrS) (h : a.WF)
    (hL : leg.ok = true) (hLm : leg.leg.mods = a.mods) (hb : a.addLeg leg i axis nz = some b) : b.WF := by
  rw [WF_iff] at *; exact (WFP_addLeg h hL hLm hb).1

/-- documented qtotal of `add_leg`: the charge of the chosen index of the new leg is added -/
theorem C02_qtotal_addLeg (a : ArrS) (leg : LegS) (i axis : Int) (nz : List Bool) (b : ArrS) (qi w : Nat) (h : a.WF)
    (hL : leg.ok = true) (hLm : leg.leg.mods = a.mods) (hqi : leg.leg.getQindex i = some (qi, w))
    (hb : a.addLeg leg i axis nz = some b) :
    b.qtotal = makeValid a.mods (cadd a.qtotal (leg.leg.getCharge qi)) := by
  rw [WF_iff] at h; exact (WFP_addLeg h hL hLm hb).2 qi w hqi

example : (exA.addLeg (.plain (Leg.fromQflat [1] [[0], [2]] 1)) 1 1 [true, true]).map
    (fun b => (decide b.WF, b.qtotal, b.qdata, b.sorted)) = some (true, [2], [[1, 1, 1], [0, 1, 0]], false) := by decide

/-- `extend(axis, extra)`: leg `axis` gets additional blocks; rows, `qtotal`, flag unchanged -/
theorem C02_WF_extend (a : ArrS) (axis : Int) (extra : Leg) (b : ArrS) (h : a.WF) (he : extra.sane = true)
    (hem : extra.mods = a.mods) (hb : a.extend axis extra = some b) : b.WF := by
  rw [WF_iff] at *; exact WFP_extend h he hem hb

theorem C02_qtotal_extend (a : ArrS) (axis : Int) (extra : Leg) (b : ArrS) (hb : a.extend axis extra = some b) :
    b.qtotal = a.qtotal ∧ b.qdata = a.qdata ∧ b.sorted = a.sorted := by
  unfold ArrS.extend at hb
  cases hax : a.legIndex axis with
  | none => simp [hax] at hb
  | some k => simp only [hax, Option.some.injEq] at hb; subst hb; exact ⟨rfl, rfl, rfl⟩

example : (exA.isortQdata.extend 0 (Leg.fromQflat [1] [[5]] (-1))).map
    (fun b => (decide b.WF, (b.legAt 0).charges, (b.legAt 0).sorted, b.sorted)) =
    some (true, [[0], [1], [-5]], false, true) := by decide

/-- `iproject(masks, axes)`: rows on dropped blocks disappear, the block indices of the projected legs are
renumbered monotonically — order and distinctness of the rows are preserved exactly, the flag is kept; the
projected legs are sane (`LegCharge.project`: `bunched` recomputed from `is_blocked`). -/
theorem C02_WF_iproject (a : ArrS) (masks : List (List Bool)) (axes : List Int) (b : ArrS) (h : a.WF)
    (hb : a.iproject masks axes = some b) : b.WF := by
  rw [WF_iff] at *; exact WFP_iproject h hb

theorem TenpyModel.C02P2.foldl_projStep_qtotal (l : List (Nat × List Bool)) (a : ArrS) :
    (l.foldl projStep a).qtotal = a.qtotal ∧ (l.foldl projStep a).sorted = a.sorted := by
  induction l generalizing a with
  | nil => exact ⟨rfl, rfl⟩
  | cons am l ih => simp only [List.foldl_cons]; rw [(ih _).1, (ih _).2]; exact ⟨rfl, rfl⟩

theorem C02_qtotal_iproject (a : ArrS) (masks : List (List Bool)) (axes : List Int) (b : ArrS)
    (hb : a.iproject masks axes = some b) : b.qtotal = a.qtotal ∧ b.sorted = a.sorted := by
  unfold ArrS.iproject at hb
  cases hax : axes.mapM a.legIndex with
  | none => simp [hax] at hb
  | some axn =>
    simp only [hax] at hb
    split at hb
    · cases hb
    · simp only [Option.some.injEq] at hb
      subst hb
      exact foldl_projStep_qtotal _ a

example : (exA.isortQdata.iproject [[false, true]] [0]).map (fun b => (decide b.WF, b.qdata, b.sorted, (b.legAt 0).charges)) =
    some (true, [[0, 1]], true, [[1]]) := by decide

/-- `drop_charge(k)`: component `k` removed from all charges and from `qtotal` -/
theorem C02_WF_dropCharge (a : ArrS) (k : Nat) (b : ArrS) (h : a.WF) (hb : a.dropCharge k = some b) : b.WF := by
  rw [WF_iff] at *; exact WFP_dropCharge h hb

theorem C02_qtotal_dropCharge (a : ArrS) (k : Nat) (b : ArrS) (hb : a.dropCharge k = some b) :
    b.qtotal = ArrS.dropIdx k a.qtotal := by
  unfold ArrS.dropCharge at hb
  split at hb
  · cases hb
  · cases hb; rfl

example : (exA.dropCharge 0).map (fun b => (decide b.WF, b.qtotal, b.mods, b.qdata)) =
    some (true, [], [], [[1, 1], [0, 0]]) := by decide

/-- `change_charge(k, new_mod)` (as repaired: `qtotal` reduced with the new modulus): valid when the new group is
a coarser one (`U(1) → Z_d`, or `Z_m → Z_d` with `d ∣ m`), which is what makes `make_valid` a homomorphism. -/
theorem C02_WF_changeCharge (a : ArrS) (k d : Nat) (b : ArrS) (h : a.WF) (hco : coarser (a.mods.getD k 1) d)
    (hb : a.changeCharge k d = some b) : b.WF := by
  rw [WF_iff] at *; exact WFP_changeCharge h hco hb

theorem C02_qtotal_changeCharge (a : ArrS) (k d : Nat) (b : ArrS) (hb : a.changeCharge k d = some b) :
    b.qtotal = makeValid (a.mods.set k d) a.qtotal := by
  unfold ArrS.changeCharge at hb
  split at hb
  · cases hb
  · cases hb; rfl

example : coarser (exA.mods.getD 0 1) 2 ∧
    ((exA.gaugeTotalCharge 1 (some [3]) none).bind (fun a => a.changeCharge 0 2)).map
      (fun b => (decide b.WF, b.qtotal, (b.legAt 1).charges)) = some (true, [1], [[1], [0]]) := by
  refine ⟨Or.inl (by decide), by decide⟩

/-- `add_charge(add_legs, qtotal=q2)`: the charges of `add_legs` are appended to those of the legs. The blocks are
re-inserted with `__setitem__`, which only works when they obey the charge rule of the additional charges (`hrule`). -/
theorem C02_WF_addCharge (a : ArrS) (addLegs : List Leg) (q2 : Charge) (nz : List Bool) (M2 : List Nat) (b : ArrS)
    (h : a.WF) (hM2 : ∀ m ∈ M2, 1 ≤ m) (hadd : ∀ l ∈ addLegs, l.sane = true ∧ l.mods = M2)
    (hq2 : q2.length = M2.length)
    (hrule : ∀ r ∈ a.qdata, blockCharge M2 (addLegs.map LegS.plain) r = makeValid M2 q2)
    (hb : a.addCharge addLegs q2 nz = some b) : b.WF := by
  rw [WF_iff] at *; exact WFP_addCharge h hM2 hadd hq2 hrule hb

example : (exA.addCharge [Leg.fromQflat [2] [[0], [1]] 1, Leg.fromQflat [2] [[1], [0]] (-1)] [1] [true, true]).map
    (fun b => (decide b.WF, b.qtotal, b.mods, b.qdata, b.sorted)) =
    some (true, [0, 1], [1, 2], [[1, 1], [0, 0]], false) := by decide

/-! ## 2. `concatenate`, `trace` -/

/-- `npc.concatenate(arrays, axis)`: block indices of the later arrays are shifted along `axis`; rows of different
arrays differ in that column, so all rows are distinct; the flag is reset. `hmods`: one `chinfo`. -/
theorem C02_WF_concatenate (arrs : List ArrS) (axis : Int) (b : ArrS) (h : ∀ a ∈ arrs, a.WF)
    (hmods : ∀ a ∈ arrs, ∀ a' ∈ arrs, a.mods = a'.mods) (hb : concatenate arrs axis = some b) : b.WF := by
  rw [WF_iff]
  exact WFP_concatenate (fun a ha => (WF_iff a).mp (h a ha)) hmods hb

theorem C02_qtotal_concatenate (a0 : ArrS) (rest : List ArrS) (axis : Int) (b : ArrS)
    (hb : concatenate (a0 :: rest) axis = some b) : b.qtotal = a0.qtotal := by
  unfold concatenate at hb
  simp only at hb
  repeat' (split at hb)
  all_goals first
    | (cases hb; done)
    | (simp only [Option.some.injEq] at hb; rw [← hb])

example : (concatenate [exA, exA.isortQdata] 0).map (fun b => (decide b.WF, b.qdata, b.sorted, (b.legAt 0).charges)) =
    some (true, [[1, 1], [0, 0], [2, 0], [3, 1]], false, [[0], [1], [0], [1]]) := by decide

/-- `npc.trace(a, leg1, leg2)`: the two contracted legs carry opposite charges, so the remaining legs of every kept
block add up to the unchanged `qtotal`; duplicates are merged; the flag is only set for an empty result -/
theorem C02_WF_trace (a : ArrS) (l1 l2 : Int) (b : ArrS) (h : a.WF) (hb : trace a l1 l2 = some (some b)) : b.WF := by
  rw [WF_iff] at *; exact WFP_trace h hb

theorem C02_qtotal_trace (a : ArrS) (l1 l2 : Int) (b : ArrS) (hb : trace a l1 l2 = some (some b)) :
    b.qtotal = a.qtotal := by
  unfold trace at hb
  cases hi : a.legIndex l1 with
  | none => simp [hi] at hb
  | some i =>
    cases hj : a.legIndex l2 with
    | none => simp [hi, hj] at hb
    | some j =>
      simp only [hi, hj] at hb
      repeat' (split at hb)
      all_goals first
        | (cases hb; done)
        | (simp only [Option.some.injEq] at hb; rw [← hb])

example : ((outer exA exA).bind (fun c => trace c 0 1)).map (fun ob => ob.map (fun b => (decide b.WF, b.qdata, b.sorted))) =
    some (some (true, [[1, 1], [0, 0]], false)) := by decide

/-! ## 3. `tensordot` (full statement; `C02_WF_tensordot_partial` covered the branches without blocks only) -/

/-- `tensordot` in standard form, every branch: no blocks, one block in each operand (charge rule from the
contractible legs: contracted parts carry opposite charges), `axes = 0` (→ `outer`), and the worker: the result rows
`keepA ++ keepB` are those pairs of keep-groups whose partial charges match (`make_valid(qa + qb)` is then the
charge of the row), the groups are the runs of row lists that are lexsorted on the keep part — for `b` this is
the stored order when `b._qdata_sorted` is set, which `WF b` makes truthful — hence the rows are strictly
lexsorted: pairwise distinct, and `_qdata_sorted = True` of the result is truthful. -/
theorem C02_WF_tensordotStd (a b c : ArrS) (n : Nat) (ha : a.WF) (hb : b.WF)
    (h : tensordotStd a b n = some (some c)) : c.WF := by
  rw [WF_iff] at *; exact WFP_tensordotStd ha hb h

/-- the public call with arbitrary axes, both kernels (`cy`: the compiled twin always transposes) -/
theorem C02_WF_tensordot (cy : Bool) (a b c : ArrS) (axes : Nat ⊕ (List Int × List Int)) (ha : a.WF) (hb : b.WF)
    (h : tensordot cy a b axes = some (some c)) : c.WF := by
  rw [WF_iff] at *; exact WFP_tensordot ha hb h

/-- documented qtotal of the public call: `make_valid(qa + qb)` (the transpositions keep `qtotal`) -/
theorem C02_qtotal_tensordot_axes (cy : Bool) (a b c : ArrS) (axes : Nat ⊕ (List Int × List Int)) (ha : a.WF)
    (hb : b.WF) (h : tensordot cy a b axes = some (some c)) :
    c.qtotal = makeValid a.mods (cadd a.qtotal b.qtotal) := by
  rw [WF_iff] at *
  obtain ⟨a', b', n, _, _, hm, hqa, hqb, hstd⟩ := tensordot_unpack ha hb h
  rw [C02_qtotal_tensordot a' b' c n hstd, hm, hqa, hqb]

/-- no spurious blocks: every row of the result is `ra[:cut] ++ rb[n:]` for stored rows `ra` of `a` and `rb` of `b`
whose contracted block indices coincide (the F-stride keys compared by `_iter_common_sorted` are injective on block
index tuples in range, and contractible legs have the same numbers of blocks) -/
theorem C02_tensordot_rows_pairs (a b c : ArrS) (n : Nat) (ha : a.WF) (hb : b.WF)
    (h : tensordotStd a b n = some (some c)) :
    ∀ x ∈ c.qdata, ∃ ra ∈ a.qdata, ∃ rb ∈ b.qdata,
      ra.drop (a.rank - n) = rb.take n ∧ x = ra.take (a.rank - n) ++ rb.drop n := by
  rw [WF_iff] at *; exact tensordotStd_rows_pairs ha hb h

example : (tensordotStd exA exA 1).map (fun oc => oc.map (fun c => (c.qdata, c.qdata.all (fun x =>
    exA.qdata.any (fun ra => exA.qdata.any (fun rb => ra.drop 1 == rb.take 1 && x == ra.take 1 ++ rb.drop 1)))))) =
    some (some ([[0, 0], [1, 1]], true)) := by decide +kernel

/-- the example of `C02_itranspose_flag_counterexample`-style data: two blocks each, worker branch, unsorted `a` -/
example : (tensordot false exA exA (.inr ([1], [0]))).map (fun oc => oc.map (fun c => (decide c.WF, c.qdata, c.sorted, c.qtotal == [0]))) =
    some (some (true, [[0, 0], [1, 1]], true, true)) := by decide +kernel
example : (tensordot true exA (exA.conj) (.inr ([0], [0]))).map (fun oc => oc.map (fun c => (decide c.WF, c.qdata, c.sorted))) =
    some (some (true, [[0, 0], [1, 1]], true)) := by decide +kernel
/-- one block in each operand: contracted block indices equal / different -/
example : (tensordotStd (exA.ipurgeZeros [true, false]) (exA.ipurgeZeros [true, false]) 1).map
    (fun oc => oc.map (fun c => (decide c.WF, c.qdata, c.sorted))) = some (some (true, [[1, 1]], true)) := by decide
example : (tensordotStd (exA.ipurgeZeros [true, false]) (exA.ipurgeZeros [false, true]) 1).map
    (fun oc => oc.map (fun c => (decide c.WF, c.qdata, c.sorted))) = some (some (true, [], true)) := by decide

/-! ## 4. `combine_legs`, `sort_legcharge` (full statements; `C02_combine_rows_sorted_partial` covered the order only) -/

/-- pipes made by `LegPipe.__init__` from sane legs over one `chinfo` are valid array legs: the outgoing leg passes
`test_sanity` and the pipe satisfies the invariant `Pipe.ok` that `split_legs` relies on (fusion rule of every row of
`q_map`, distinct incoming combinations, `q_map_slices` partition) — from the C06 theorems. -/
theorem C02_pipe_init_ok (legs : List Leg) (hne : legs ≠ []) (M : List Nat) (hM : ∀ m ∈ M, 1 ≤ m)
    (hl : ∀ l ∈ legs, l.sane = true ∧ l.mods = M) (qconj : Int) (hq : qconj = 1 ∨ qconj = -1) (sort bunch : Bool) :
    (LegS.pipe (Pipe.init legs qconj sort bunch)).ok = true ∧ (Pipe.init legs qconj sort bunch).leg.mods = M :=
  init_LegS_ok legs hne M hM hl qconj hq sort bunch

example : (LegS.pipe (Pipe.init [exA.legAt 0, exA.legAt 1] 1 true true)).ok = true := by decide

/-- `combine_legs` with given pipes (both the transposition branch and the in-place order): every row is mapped
through `q_map`; the block of the pipe carries the fused charge of the combined blocks, so the charge rule holds with
the same `qtotal`; one block: stored as is (`stored_blocks == 1` branch); otherwise lexsort + first row of every run
of equal rows: strictly sorted, so the rows are distinct and `_qdata_sorted = True` is truthful.
`hgood`: each pipe is the pipe of its group of legs (`GoodPipe`: its incoming legs are those legs, it is a valid
array leg over the same `chinfo`, `_map_incoming_qind` addresses the right row of `q_map`). -/
theorem C02_WF_combineWithPipes (a : ArrS) (groups : List (List Nat)) (newAxes : Option (List Int))
    (pipes : List Pipe) (b : ArrS) (h : a.WF) (hgood : ∀ x ∈ groups.zip pipes, GoodPipe a x.1 x.2)
    (hb : a.combineWithPipes groups newAxes pipes = some b) : b.WF := by
  rw [WF_iff] at *; exact (WFP_combineWithPipes h hgood hb).1

/-- `combine_legs(groups, new_axes, qconj)` with the pipes made by `make_pipe`: nothing but `WF` of the operand
(and directions `±1`) is needed -/
theorem C02_WF_combineLegs (a : ArrS) (groups : List (List Nat)) (newAxes : Option (List Int))
    (qconjs : List (Option Int)) (b : ArrS) (h : a.WF) (hqc : ∀ v, some v ∈ qconjs → v = 1 ∨ v = -1)
    (hb : a.combineLegs groups newAxes qconjs = some b) : b.WF := by
  rw [WF_iff] at *; exact (WFP_combineLegs h hqc hb).1

/-- `combine_legs` keeps the total charge -/
theorem C02_qtotal_combineLegs (a : ArrS) (groups : List (List Nat)) (newAxes : Option (List Int))
    (qconjs : List (Option Int)) (b : ArrS) (h : a.WF) (hqc : ∀ v, some v ∈ qconjs → v = 1 ∨ v = -1)
    (hb : a.combineLegs groups newAxes qconjs = some b) : b.qtotal = a.qtotal := by
  rw [WF_iff] at *; exact (WFP_combineLegs h hqc hb).2

example : (exA.combineLegs [[0, 1]] none [none]).map (fun b => (decide b.WF, b.qdata, b.sorted)) =
    some (true, [[1]], true) := by decide +kernel
/-- four blocks, transposition branch (`transp = [1, 3, 0, 2]`), explicit new axis; the rows had to be re-sorted.
(Examples with two or more groups cannot be `decide`d: `List.mergeSort` on ≥ 2 elements does not reduce in the kernel;
such cases are exercised by the correspondence run.) -/
example : ((outer exA exA).bind (fun c => c.combineLegs [[3, 0]] (some [1]) [none])).map
    (fun b => (decide b.WF, b.qdata, b.sorted)) =
    some (true, [[1, 0, 0], [0, 1, 0], [1, 1, 1], [0, 2, 1]], true) := by decide +kernel

/-- `sort_legcharge(sort, bunch)`: one-leg pipes with the requested flags, rows mapped through `perm_qind` /
bunching (rows that fall together are merged), legs converted back to `LegCharge`s -/
theorem C02_WF_sortLegcharge (a : ArrS) (sort bunch : List Bool) (b : ArrS) (h : a.WF)
    (hb : a.sortLegcharge sort bunch = some b) : b.WF := by
  rw [WF_iff] at *; exact (WFP_sortLegcharge h hb).1

theorem C02_qtotal_sortLegcharge (a : ArrS) (sort bunch : List Bool) (b : ArrS) (h : a.WF)
    (hb : a.sortLegcharge sort bunch = some b) : b.qtotal = a.qtotal := by
  rw [WF_iff] at *; exact (WFP_sortLegcharge h hb).2

example : ((exA.flipLeg 0).bind (fun a => a.sortLegcharge [true, false] [true, false])).map
    (fun b => (decide b.WF, b.qdata, b.sorted, (b.legAt 0).charges == [[-1], [0]], (b.legAt 0).sorted)) =
    some (true, [[1, 0], [0, 1]], true, true, true) := by decide +kernel

/-- `split_legs(axes)`, all four branches (nothing to split / no blocks / one block and one row in every `q_map` /
general): a stored block with pipe block `I` is replaced by one block for every row of `q_map` in the sector of `I`;
each carries the charge of `I` (fusion rule kept in `Pipe.ok`), distinct `(block, row)` pairs give distinct rows
(the incoming columns of `q_map` are pairwise distinct), the flag is reset in the general branch.
`hsecs`: every outgoing block of a pipe has at least one incoming combination (`q_map_slices` strictly increasing —
what `LegPipe.__init__` produces, `C06_qmap_slices`; it is not part of `test_sanity`, and the fast branch
`stored_blocks == 1` with one-row `q_map`s reads row 0 without looking at the block index). -/
theorem C02_WF_splitLegs (a : ArrS) (axes : Option (List Int)) (b : ArrS) (h : a.WF)
    (hsecs : ∀ p, LegS.pipe p ∈ a.legs → ∀ I, I < p.leg.blockNumber →
      p.qMapSlices.getD I 0 < p.qMapSlices.getD (I + 1) 0)
    (hb : a.splitLegs axes = some b) : b.WF := by
  rw [WF_iff] at *; exact WFP_splitLegs h hsecs hb

/-- the hypothesis `hsecs` holds for every pipe made by `LegPipe.__init__` (C06: `q_map_slices` partitions the rows
into non-empty sectors); `conj()` and `outer_conj()` keep `q_map_slices` and the number of blocks. -/
theorem C02_pipe_init_sectors (legs : List Leg) (qconj : Int) (sort bunch : Bool) :
    let p := Pipe.init legs qconj sort bunch
    (∀ I, I < p.leg.blockNumber → p.qMapSlices.getD I 0 < p.qMapSlices.getD (I + 1) 0) ∧
    p.conj.qMapSlices = p.qMapSlices ∧ p.conj.leg.blockNumber = p.leg.blockNumber ∧
    p.outerConj.qMapSlices = p.qMapSlices ∧ p.outerConj.leg.blockNumber = p.leg.blockNumber := by
  intro p
  refine ⟨(Pipe.slicesOK legs qconj sort bunch).nonempty, rfl, rfl, rfl, ?_⟩
  simp [Pipe.outerConj, Leg.blockNumber]

theorem C02_qtotal_splitLegs (a : ArrS) (axes : Option (List Int)) (b : ArrS) (hb : a.splitLegs axes = some b) :
    b.qtotal = a.qtotal := by
  unfold ArrS.splitLegs at hb
  simp only at hb
  repeat' (split at hb)
  all_goals first
    | (cases hb; done)
    | (simp only [Option.some.injEq] at hb; rw [← hb])

example : ((exA.combineLegs [[0, 1]] none [none]).bind (fun c => c.splitLegs none)).map
    (fun b => (decide b.WF, b.qdata, b.sorted, b.legs.length)) = some (true, [[0, 0], [1, 1]], false, 2) := by
  decide +kernel
/-- combine then split: the four blocks come back together with the two other blocks of the same sectors -/
example : (((outer exA exA).bind (fun c => c.combineLegs [[3, 0]] (some [1]) [none])).bind (fun c => c.splitLegs (some [1]))).map
    (fun b => (decide b.WF, b.qdata.length, b.sorted, b.legs.length)) = some (true, 6, false, 4) := by decide +kernel
example : ((outer exA exA).bind (fun c => c.combineLegs [[3, 0]] (some [1]) [none])).map pipesNonemptyB = some true := by
  decide +kernel

/-- `permute(perm, axis)`: the blocks are cut along the new (bunched) blocks of the permuted leg; rows are collected in
dict order, flag reset. `hshape`: the leg's `slices` are non-decreasing (every constructor guarantees it, `test_sanity`
does not check it); `hperm`: a permutation of the indices. -/
theorem C02_WF_permute (a : ArrS) (perm : List Nat) (axis : Int) (k : Nat) (b : ArrS) (h : a.WF)
    (hk : a.legIndex axis = some k) (hshape : (a.legAt k).Shape)
    (hperm : perm.Perm (List.range (a.legAt k).indLen)) (hb : a.permute perm axis = some b) : b.WF := by
  rw [WF_iff] at *; exact WFP_permute h hk hshape hperm hb

example : permuteOk exA [1, 0] 0 = true ∧ (exA.permute [1, 0] 0).map (fun b => (decide b.WF, b.qdata, b.sorted)) =
    some (true, [[1, 0], [0, 1]], false) := by decide

/-- `drop_charge(charge=None)`: one trivial block per leg over the empty `chinfo` -/
theorem C02_WF_dropChargeAll (a : ArrS) (nz : List Bool) (h : a.WF) : (a.dropChargeAll nz).WF := by
  rw [WF_iff] at *; exact WFP_dropChargeAll h nz

example : (fun b => (decide b.WF, b.qdata, b.sorted, b.mods == [])) (exA.dropChargeAll [false, true]) =
    (true, [[0, 0]], false, true) := by decide

/-! ## 5. histories over all operation kinds proved (17 + 16) -/

/-- every finite history of the modelled public operations — the 17 kinds of `C02_history` and flip of a leg,
`gauge_total_charge`, `add_leg`, `extend`, `iproject`, `drop_charge`, `change_charge`, `add_charge`, `concatenate`,
`trace`, `tensordot` (both kernels, any axes), `combine_legs`, `sort_legcharge`, `split_legs`, `drop_charge(None)`,
`permute` — keeps every live tensor well-formed; a raising call (or one whose argument contract fails: `step2`)
leaves the environment unchanged -/
theorem C02_history2 (h : List Op2) (env : Env) (hw : EnvWF env) : EnvWF (run2 h env) := run2_WF h env hw

/-- … at every intermediate step -/
theorem C02_history2_every_step (h : List Op2) (env : Env) (hw : EnvWF env) (k : Nat) :
    EnvWF (run2 (h.take k) env) := run2_WF (h.take k) env hw

example :
    let h := [Op2.base (.copy 0), .flipLeg 1 0, .tensordot false 0 1 (.inr ([1], [0])), .combineLegs 2 [[0, 1]] none [none],
              .sortLegcharge 1 [true, false] [true, false], .iproject 0 [[true, false]] [1], .concatenate [0, 0] 0,
              .gauge 5 0 (some [2]) (some (-1)), .trace 0 0 1, .changeCharge 6 0 3, .base (.outer 0 6),
              .splitLegs 3 none, .permute 1 [1, 0] 0, .dropChargeAll 4 [true, true]]
    (run2 h [exA]).length = 12 ∧ (run2 h [exA]).all (fun a => decide a.WF) = true := by
  decide +kernel

/-- the same with a two-part invariant — every live tensor is `WF` **and** all its pipes have non-empty sectors
(`EnvPN`; every pipe made by `combine_legs` / `sort_legcharge` has them, all 33 operation kinds keep them) — so that
`split_legs` needs no run-time check (`step3`; the only additional contract: a pipe passed to `add_leg` from outside
has non-empty sectors). At every intermediate step. -/
theorem C02_history3 (h : List Op2) (env : Env) (hw : EnvWF env) (hp : EnvPN env) (k : Nat) :
    EnvWF (run3 (h.take k) env) ∧ EnvPN (run3 (h.take k) env) := run3_inv (h.take k) env hw hp

example : EnvPN [exA] := by
  intro a ha
  simp only [List.mem_singleton] at ha
  subst ha
  intro l hl
  simp only [exA, List.mem_cons, List.not_mem_nil, or_false] at hl
  rcases hl with rfl | rfl <;> trivial

example :
    let h := [Op2.base (.outer 0 0), .combineLegs 1 [[3, 0]] (some [1]) [none], .base (.conj 2), .flipLeg 3 1,
              .splitLegs 3 (some [1]), .splitLegs 2 none, .tensordot true 5 4 (.inr ([0, 1], [0, 1]))]
    (run3 h [exA]).length = 7 ∧ (run3 h [exA]).all (fun a => decide a.WF && pipesNonemptyB a) = true := by
  decide +kernel
