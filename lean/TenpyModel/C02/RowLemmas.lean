import TenpyModel.C02.Lemmas
/-! Order of `_qdata` rows (`np.lexsort(qdata.T)`: last column most significant) and the stable sort. -/
namespace TenpyModel.C02
open TenpyModel.Core

/-! ### `revLT` is a strict linear order on lists of equal length -/

theorem revLT_irrefl (a : List Nat) : revLT a a = false := by
  induction a with
  | nil => rfl
  | cons x a ih => simp [revLT, ih]

theorem revLT_trans {a b c : List Nat} (h1 : revLT a b = true) (h2 : revLT b c = true) : revLT a c = true := by
  induction a generalizing b c with
  | nil => cases b <;> simp [revLT] at h1
  | cons x a ih =>
    cases b with
    | nil => simp [revLT] at h1
    | cons y b =>
      cases c with
      | nil => simp [revLT] at h2
      | cons z c =>
        simp only [revLT, Bool.or_eq_true, decide_eq_true_eq, Bool.and_eq_true, beq_iff_eq] at h1 h2 ⊢
        rcases h1 with h1 | ⟨h1, h1'⟩ <;> rcases h2 with h2 | ⟨h2, h2'⟩
        · left; omega
        · left; omega
        · left; omega
        · right; exact ⟨by omega, ih h1' h2'⟩

theorem revLT_asymm {a b : List Nat} (h : revLT a b = true) : revLT b a = false := by
  cases hb : revLT b a with
  | false => rfl
  | true => have := revLT_trans h hb; rw [revLT_irrefl] at this; cases this

theorem revLT_total {a b : List Nat} (hl : a.length = b.length) (hne : a ≠ b) :
    revLT a b = true ∨ revLT b a = true := by
  induction a generalizing b with
  | nil => cases b with
    | nil => exact absurd rfl hne
    | cons y b => simp at hl
  | cons x a ih =>
    cases b with
    | nil => simp at hl
    | cons y b =>
      simp only [revLT, Bool.or_eq_true, decide_eq_true_eq, Bool.and_eq_true, beq_iff_eq]
      by_cases hxy : x = y
      · subst hxy
        have hne' : a ≠ b := fun h => hne (by rw [h])
        rcases ih (by simpa using hl) hne' with h | h
        · left; right; exact ⟨rfl, h⟩
        · right; right; exact ⟨rfl, h⟩
      · rcases Nat.lt_or_gt_of_ne hxy with h | h
        · left; left; exact h
        · right; left; exact h

/-- `¬ b < a` and `¬ c < b` give `¬ c < a` for lists of one length -/
theorem revLT_le_trans {a b c : List Nat} (hab : a.length = b.length) (hbc : b.length = c.length)
    (h1 : revLT b a = false) (h2 : revLT c b = false) : revLT c a = false := by
  cases hca : revLT c a with
  | false => rfl
  | true =>
    by_cases hbe : b = a
    · subst hbe; rw [hca] at h2; cases h2
    · rcases revLT_total hab.symm hbe with h | h
      · rw [h] at h1; cases h1
      · have := revLT_trans hca h; rw [this] at h2; cases h2

theorem revLT_append_right (p : List Nat) {x y : List Nat} : revLT (p ++ x) (p ++ y) = revLT x y := by
  induction p with
  | nil => rfl
  | cons a p ih => simp [revLT, ih]

theorem revLT_append_left {p q : List Nat} (x y : List Nat) (hl : p.length = q.length) (h : revLT p q = true) :
    revLT (p ++ x) (q ++ y) = true := by
  induction p generalizing q with
  | nil => cases q <;> simp [revLT] at h
  | cons a p ih =>
    cases q with
    | nil => simp [revLT] at h
    | cons b q =>
      simp only [List.cons_append, revLT, Bool.or_eq_true, decide_eq_true_eq, Bool.and_eq_true, beq_iff_eq] at h ⊢
      rcases h with h | ⟨h, h'⟩
      · left; exact h
      · right; exact ⟨h, ih (by simpa using hl) h'⟩

/-! ### `rowLT`, `rowLE` -/

theorem rowLT_irrefl (a : List Nat) : rowLT a a = false := revLT_irrefl _
theorem rowLE_refl (a : List Nat) : rowLE a a = true := by simp [rowLE, rowLT_irrefl]

theorem rowLT_trans {a b c : List Nat} (h1 : rowLT a b = true) (h2 : rowLT b c = true) : rowLT a c = true :=
  revLT_trans h1 h2

theorem rowLE_of_rowLT {a b : List Nat} (h : rowLT a b = true) : rowLE a b = true := by
  simp [rowLE, revLT_asymm (a := a.reverse) (b := b.reverse) h, rowLT]

theorem rowLE_total (a b : List Nat) : rowLE a b = true ∨ rowLE b a = true := by
  unfold rowLE
  cases h : rowLT b a with
  | false => left; rfl
  | true => right; simp [revLT_asymm (a := b.reverse) (b := a.reverse) h, rowLT]

theorem rowLE_trans {a b c : List Nat} (hab : a.length = b.length) (hbc : b.length = c.length)
    (h1 : rowLE a b = true) (h2 : rowLE b c = true) : rowLE a c = true := by
  unfold rowLE rowLT at *
  simp only [Bool.not_eq_true'] at *
  exact revLT_le_trans (by simpa using hab) (by simpa using hbc) h1 h2

theorem rowLT_of_rowLE_ne {a b : List Nat} (hl : a.length = b.length) (h : rowLE a b = true) (hne : a ≠ b) :
    rowLT a b = true := by
  unfold rowLE at h
  simp only [Bool.not_eq_true'] at h
  rcases revLT_total (a := a.reverse) (b := b.reverse) (by simpa using hl) (fun e => hne (by simpa using congrArg List.reverse e)) with h' | h'
  · exact h'
  · unfold rowLT at h; rw [h'] at h; cases h

theorem rowLT_ne {a b : List Nat} (h : rowLT a b = true) : a ≠ b := by
  intro e; subst e; rw [rowLT_irrefl] at h; cases h

/-- strictly ascending = sorted and pairwise distinct (rows of one length) -/
theorem pairwise_rowLT_iff {rows : List (List Nat)} {n : Nat} (hl : ∀ r ∈ rows, r.length = n) :
    rows.Pairwise (fun a b => rowLT a b = true) ↔
      rows.Pairwise (fun a b => rowLE a b = true) ∧ rows.Pairwise (· ≠ ·) := by
  constructor
  · intro h
    exact ⟨h.imp (fun hab => rowLE_of_rowLT hab), h.imp (fun hab => rowLT_ne hab)⟩
  · rintro ⟨h1, h2⟩
    induction rows with
    | nil => exact List.Pairwise.nil
    | cons r rows ih =>
      rw [List.pairwise_cons] at h1 h2 ⊢
      refine ⟨fun b hb => rowLT_of_rowLE_ne ?_ (h1.1 b hb) (h2.1 b hb), ih (fun r hr => hl r (by simp [hr])) h1.2 h2.2⟩
      rw [hl r (by simp), hl b (by simp [hb])]

/-- appending a more significant column part: order decided by the suffix first -/
theorem rowLT_append_of_suffix {x y p q : List Nat} (hl : p.length = q.length) (h : rowLT p q = true) :
    rowLT (x ++ p) (y ++ q) = true := by
  unfold rowLT at *
  simp only [List.reverse_append]
  exact revLT_append_left _ _ (by simpa using hl) h

theorem rowLT_append_same_suffix (x y p : List Nat) : rowLT (x ++ p) (y ++ p) = rowLT x y := by
  unfold rowLT
  simp only [List.reverse_append, revLT_append_right]

/-! ### stable insertion sort -/

theorem insertLE_perm {α} (le : α → α → Bool) (x : α) (l : List α) : (insertLE le x l).Perm (x :: l) := by
  induction l with
  | nil => exact List.Perm.refl _
  | cons y ys ih =>
    unfold insertLE
    split
    · exact List.Perm.refl _
    · exact ((List.Perm.cons y ih).trans (List.Perm.swap x y ys))

theorem stableSort_perm {α} (le : α → α → Bool) (l : List α) : (stableSort le l).Perm l := by
  induction l with
  | nil => exact List.Perm.refl _
  | cons x xs ih => exact (insertLE_perm le x _).trans (List.Perm.cons x ih)

theorem insertLE_sorted {α} (le : α → α → Bool) (S : α → Prop)
    (htot : ∀ a b, S a → S b → le a b = true ∨ le b a = true)
    (htr : ∀ a b c, S a → S b → S c → le a b = true → le b c = true → le a c = true)
    (x : α) (l : List α) (hx : S x) (hl : ∀ y ∈ l, S y) (hs : l.Pairwise (fun a b => le a b = true)) :
    (insertLE le x l).Pairwise (fun a b => le a b = true) := by
  induction l with
  | nil => simp [insertLE]
  | cons y ys ih =>
    unfold insertLE
    rw [List.pairwise_cons] at hs
    have hy : S y := hl y (by simp)
    have hys : ∀ z ∈ ys, S z := fun z hz => hl z (by simp [hz])
    split
    · rename_i hle
      rw [List.pairwise_cons]
      refine ⟨?_, List.pairwise_cons.mpr hs⟩
      intro z hz
      rcases List.mem_cons.mp hz with rfl | hz
      · exact hle
      · exact htr x y z hx hy (hys z hz) hle (hs.1 z hz)
    · rename_i hle
      have hyx : le y x = true := by
        rcases htot x y hx hy with h | h
        · exact absurd h hle
        · exact h
      rw [List.pairwise_cons]
      refine ⟨?_, ih hys hs.2⟩
      intro z hz
      rcases List.mem_cons.mp ((insertLE_perm le x ys).mem_iff.mp hz) with rfl | hz
      · exact hyx
      · exact hs.1 z hz

theorem stableSort_sorted {α} (le : α → α → Bool) (S : α → Prop)
    (htot : ∀ a b, S a → S b → le a b = true ∨ le b a = true)
    (htr : ∀ a b c, S a → S b → S c → le a b = true → le b c = true → le a c = true)
    (l : List α) (hl : ∀ y ∈ l, S y) : (stableSort le l).Pairwise (fun a b => le a b = true) := by
  induction l with
  | nil => exact List.Pairwise.nil
  | cons x xs ih =>
    have hxs : ∀ y ∈ xs, S y := fun y hy => hl y (by simp [hy])
    exact insertLE_sorted le S htot htr x _ (hl x (by simp))
      (fun y hy => hxs y ((stableSort_perm le xs).mem_iff.mp hy)) (ih hxs)

theorem sortRows_perm (rows : List (List Nat)) : (sortRows rows).Perm rows := stableSort_perm _ _

theorem sortRows_sorted (rows : List (List Nat)) (n : Nat) (hl : ∀ r ∈ rows, r.length = n) :
    (sortRows rows).Pairwise (fun a b => rowLE a b = true) :=
  stableSort_sorted rowLE (fun r => r.length = n) (fun a b _ _ => rowLE_total a b)
    (fun a b c ha hb hc h1 h2 => rowLE_trans (by rw [ha, hb]) (by rw [hb, hc]) h1 h2) rows hl

end TenpyModel.C02
