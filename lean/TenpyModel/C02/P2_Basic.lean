import TenpyModel.C02.PropsPartial
import TenpyModel.C06.Props
/-!
# C02 / Props2 — basic helpers
* bridge between `Leg.sane` (C02: `test_sanity`, no monotonicity of `slices`) and C06's `Leg.WF`;
* replacing ONE leg of an array (`legs.set k L`) and one column of a row (`r.set k q`): range and charge rule.
-/
namespace TenpyModel.C02P2
open TenpyModel.Core TenpyModel.C02

/-! ### leg sanity -/

/-- the same leg with a canonical non-decreasing `slices` list of the right length: the flags of a leg do not
depend on the slices, so C06's flag theorems (stated for `Leg.WF`) transfer -/
def canon (l : Leg) : Leg := { l with slices := slicesOfSizes (List.replicate l.charges.length 0) }

theorem canon_WF {l : Leg} (hs : l.sane = true) (hm : ∀ m ∈ l.mods, 1 ≤ m) : (canon l).WF := by
  have h := (Leg.sane_iff l).1 hs
  refine ⟨⟨?_, rfl, slicesOfSizes_pairwise _⟩, h.1.2.2.1, hm, h.1.2.2.2⟩
  simp [canon, slicesOfSizes_length]

theorem canon_flags {l : Leg} (hs : l.sane = true) : (canon l).FlagsOK := ((Leg.sane_iff l).1 hs).2

theorem sane_mk {l : Leg} (h1 : l.slices.length = l.blockNumber + 1) (h2 : l.slices.head? = some 0)
    (h3 : ∀ c ∈ l.charges, checkValid l.mods c = true) (h4 : l.qconj = 1 ∨ l.qconj = -1) (h5 : l.FlagsOK) :
    l.sane = true := (Leg.sane_iff l).2 ⟨⟨h1, h2, h3, h4⟩, h5⟩

theorem sane_len {l : Leg} (hs : l.sane = true) : l.slices.length = l.blockNumber + 1 := ((Leg.sane_iff l).1 hs).1.1
theorem sane_head {l : Leg} (hs : l.sane = true) : l.slices.head? = some 0 := ((Leg.sane_iff l).1 hs).1.2.1
theorem sane_valid {l : Leg} (hs : l.sane = true) : ∀ c ∈ l.charges, checkValid l.mods c = true :=
  ((Leg.sane_iff l).1 hs).1.2.2.1
theorem sane_qconj {l : Leg} (hs : l.sane = true) : l.qconj = 1 ∨ l.qconj = -1 := ((Leg.sane_iff l).1 hs).1.2.2.2
theorem sane_flags {l : Leg} (hs : l.sane = true) : l.FlagsOK := ((Leg.sane_iff l).1 hs).2

theorem sane_cl0 {l : Leg} (hv : ∀ c ∈ l.charges, checkValid l.mods c = true) : l.CL0 :=
  fun h0 c hc => List.length_eq_zero_iff.1 (by rw [C02.checkValid_length (hv c hc)]; exact h0)

/-- `flip_charges_qconj` of a sane leg is sane (`sorted` is reset, `bunched` stays true: negation is injective) -/
theorem flip_sane {l : Leg} (hs : l.sane = true) (hm : ∀ m ∈ l.mods, 1 ≤ m) : l.flipChargesQconj.sane = true := by
  have hW := canon_WF hs hm
  have hf : (canon l).flipChargesQconj.FlagsOK := Leg.flip_flags hW (canon_flags hs)
  have hW' := Leg.flip_WF hW
  refine sane_mk ?_ (sane_head (l := l) hs) hW'.valid hW'.qconj hf
  simpa [Leg.flipChargesQconj, Leg.blockNumber] using sane_len hs

/-- a leg with at most one block has truthful flags whatever they are -/
theorem flags_le_one {l : Leg} (hv : ∀ c ∈ l.charges, checkValid l.mods c = true) (h1 : l.charges.length ≤ 1) :
    l.FlagsOK :=
  have := Leg.flags_of_le_one l (sane_cl0 hv) h1
  ⟨fun _ => this.1, fun _ => this.2⟩

/-! ### list helpers -/

theorem set_getD_self {α} (r : List α) (k : Nat) (d : α) : r.set k (r.getD k d) = r := by
  induction r generalizing k with
  | nil => rfl
  | cons x xs ih =>
    cases k with
    | zero => simp
    | succ k => simpa [List.getD] using ih k

theorem getD_set_self {α} (r : List α) (k : Nat) (x d : α) (hk : k < r.length) : (r.set k x).getD k d = x := by
  simp [List.getD, hk]

theorem getD_set_ne {α} (r : List α) (k i : Nat) (x d : α) (hne : k ≠ i) : (r.set k x).getD i d = r.getD i d := by
  simp [List.getD, hne]

theorem set_eq_take_cons_drop {α} (r : List α) (k : Nat) (x : α) (hk : k < r.length) :
    r.set k x = r.take k ++ x :: r.drop (k + 1) := by
  induction r generalizing k with
  | nil => simp at hk
  | cons y ys ih =>
    cases k with
    | zero => simp
    | succ k => simp [ih k (by simpa using hk)]

theorem eq_take_cons_drop {α} (r : List α) (k : Nat) (d : α) (hk : k < r.length) :
    r = r.take k ++ r.getD k d :: r.drop (k + 1) := by
  have := set_eq_take_cons_drop r k (r.getD k d) hk
  rwa [set_getD_self] at this

theorem modsOf_set (legs : List LegS) (k : Nat) (L : LegS) (hne : legs ≠ []) (hL : L.leg.mods = ArrS.modsOf legs) :
    ArrS.modsOf (legs.set k L) = ArrS.modsOf legs := by
  cases legs with
  | nil => exact absurd rfl hne
  | cons l ls =>
    cases k with
    | zero => simpa [ArrS.modsOf] using hL
    | succ k => simp [ArrS.modsOf]

theorem mem_set {α} {l : List α} {k : Nat} {x y : α} (h : y ∈ l.set k x) : y = x ∨ y ∈ l := by
  rcases List.mem_or_eq_of_mem_set h with h | h
  · exact Or.inr h
  · exact Or.inl h

theorem chList_set (legs : List LegS) (r : List Nat) (k : Nat) (L : LegS) (q : Nat) :
    chList (legs.set k L) (r.set k q) = (chList legs r).set k (L.leg.getCharge q) := by
  unfold chList
  induction legs generalizing r k with
  | nil => simp
  | cons l legs ih =>
    cases r with
    | nil => cases k <;> simp
    | cons x r =>
      cases k with
      | zero => simp
      | succ k => simp [ih]

/-! ### charge arithmetic -/

theorem cadd_swap_right (a b c : Charge) : cadd (cadd a b) c = cadd (cadd a c) b := by
  rw [C02.cadd_assoc, C02.cadd_comm b c, ← C02.cadd_assoc]

theorem mv_congr_left (M : List Nat) {x y : Charge} (z : Charge) (h : makeValid M x = makeValid M y) :
    makeValid M (cadd x z) = makeValid M (cadd y z) := by
  rw [← C02.makeValid_add_left, h, C02.makeValid_add_left]

theorem mv_congr_right (M : List Nat) {x y : Charge} (z : Charge) (h : makeValid M x = makeValid M y) :
    makeValid M (cadd z x) = makeValid M (cadd z y) := by
  rw [← C02.makeValid_add, h, C02.makeValid_add]

/-- replacing one summand `c_k` by `c'` with `mv c' = mv (c_k + δ)` shifts the reduced sum by `δ` -/
theorem mv_csum_set (M : List Nat) (cs : List Charge) (k : Nat) (hk : k < cs.length) (c' δ : Charge)
    (hcs : ∀ c ∈ cs, c.length = M.length) (hc' : c'.length = M.length)
    (h : makeValid M c' = makeValid M (cadd (cs.getD k []) δ)) :
    makeValid M (csum M.length (cs.set k c')) = makeValid M (cadd (csum M.length cs) δ) := by
  induction cs generalizing k with
  | nil => simp at hk
  | cons c cs ih =>
    have hc := hcs c (by simp)
    have hcs' : ∀ c ∈ cs, c.length = M.length := fun c hc => hcs c (by simp [hc])
    cases k with
    | zero =>
      simp only [List.set_cons_zero, List.getD_cons_zero] at h ⊢
      rw [csum_cons _ c' cs hc' hcs', csum_cons _ c cs hc hcs', mv_congr_left M _ h, cadd_swap_right]
    | succ k =>
      have hk' : k < cs.length := by simpa using hk
      simp only [List.set_cons_succ, List.getD_cons_succ] at h ⊢
      have hset : ∀ d ∈ cs.set k c', d.length = M.length := by
        intro d hd
        rcases mem_set hd with rfl | hd
        · exact hc'
        · exact hcs' d hd
      rw [csum_cons _ c _ hc hset, csum_cons _ c cs hc hcs', mv_congr_right M c (ih k hk' hcs' h), C02.cadd_assoc]

theorem blockCharge_length {legs : List LegS} {M : List Nat} (hok : ∀ l ∈ legs, l.ok = true ∧ l.leg.mods = M)
    {r : List Nat} (hr : rowInRange legs r = true) : (blockCharge M legs r).length = M.length := by
  unfold blockCharge
  rw [C02.makeValid_length, rawCharge_eq, C02.csum_length _ _ (chList_lengths hok hr)]
  simp

theorem blockCharge_idem (M : List Nat) (legs : List LegS) (r : List Nat) :
    makeValid M (blockCharge M legs r) = blockCharge M legs r := C02.makeValid_idem _ _

/-! ### one leg and one column replaced -/

theorem rowInRange_set {legs : List LegS} {r : List Nat} (hr : rowInRange legs r = true) (k : Nat) (L : LegS)
    (q : Nat) (hq : q < L.blockNumber) : rowInRange (legs.set k L) (r.set k q) = true := by
  rw [rowInRange_iff] at hr ⊢
  obtain ⟨hl, hb⟩ := hr
  refine ⟨by simp [hl], ?_⟩
  intro i hi
  have hi' : i < legs.length := by simpa using hi
  by_cases hki : k = i
  · subst hki
    rw [getD_set_self r k q 0 (by omega)]
    simpa [List.getElem_set] using hq
  · rw [getD_set_ne r k i q 0 hki]
    have := hb i hi'
    simpa [List.getElem_set, hki] using this

/-- the charge rule after replacing leg `k` by `L` and entry `k` of the row by `q` -/
theorem row_set {legs : List LegS} {M : List Nat} (hok : ∀ l ∈ legs, l.ok = true ∧ l.leg.mods = M) {k : Nat}
    (hk : k < legs.length) {L : LegS} (hL : L.ok = true) (hLm : L.leg.mods = M) {r : List Nat}
    (hr : rowInRange legs r = true) {q : Nat} (hq : q < L.blockNumber) (δ : Charge)
    (hc : makeValid M (L.leg.getCharge q) = makeValid M (cadd ((legs[k]).leg.getCharge (r.getD k 0)) δ)) :
    rowInRange (legs.set k L) (r.set k q) = true ∧
      blockCharge M (legs.set k L) (r.set k q) = makeValid M (cadd (blockCharge M legs r) δ) := by
  refine ⟨rowInRange_set hr k L q hq, ?_⟩
  have hl := ((rowInRange_iff _ _).mp hr).1
  unfold blockCharge
  rw [rawCharge_eq, rawCharge_eq, chList_set, C02.makeValid_add_left]
  have hcl : (chList legs r).length = legs.length := by simp [chList, hl]
  apply mv_csum_set M _ k (by omega) _ δ (chList_lengths hok hr)
  · rw [← hLm]; exact Leg.getCharge_length (LegS.ok_sane hL) hq
  · rw [chList_getD hl hk]; exact hc

/-- … with the same physical charge: the block charge is unchanged -/
theorem row_set0 {legs : List LegS} {M : List Nat} (hok : ∀ l ∈ legs, l.ok = true ∧ l.leg.mods = M) {k : Nat}
    (hk : k < legs.length) {L : LegS} (hL : L.ok = true) (hLm : L.leg.mods = M) {r : List Nat}
    (hr : rowInRange legs r = true) {q : Nat} (hq : q < L.blockNumber)
    (hc : makeValid M (L.leg.getCharge q) = makeValid M ((legs[k]).leg.getCharge (r.getD k 0))) :
    rowInRange (legs.set k L) (r.set k q) = true ∧
      blockCharge M (legs.set k L) (r.set k q) = blockCharge M legs r := by
  have hb := ((rowInRange_iff _ _).mp hr).2 k hk
  have hlen : ((legs[k]).leg.getCharge (r.getD k 0)).length = M.length := by
    rw [← (hok _ (List.getElem_mem hk)).2]
    exact Leg.getCharge_length (LegS.ok_sane (hok _ (List.getElem_mem hk)).1) hb
  have := row_set hok hk hL hLm hr hq (czero M.length) (by rw [cadd_czero_right _ _ hlen]; exact hc)
  refine ⟨this.1, ?_⟩
  rw [this.2, cadd_czero_right _ _ (blockCharge_length hok hr), blockCharge_idem]

theorem legs_set_ok {a : ArrS} (h : WFP a) (k : Nat) {L : LegS} (hL : L.ok = true) (hLm : L.leg.mods = a.mods) :
    a.legs.set k L ≠ [] ∧ ArrS.modsOf (a.legs.set k L) = a.mods ∧
      ∀ l ∈ a.legs.set k L, l.ok = true ∧ l.leg.mods = a.mods := by
  refine ⟨?_, modsOf_set a.legs k L h.rank_pos hLm, ?_⟩
  · intro e
    have := congrArg List.length e
    simp only [List.length_set, List.length_nil] at this
    exact h.rank_pos (List.length_eq_zero_iff.1 this)
  · intro l hl
    rcases mem_set hl with rfl | hl
    · exact ⟨hL, hLm⟩
    · exact h.legs_ok l hl

/-- leg `k` replaced, rows kept: every block index of the old leg is one of the new leg and its charge is shifted
by `δ` (modulo `make_valid`); `qtotal` is shifted by `δ` as well -/
theorem WFP_setLeg_keep {a : ArrS} (h : WFP a) {k : Nat} (hk : k < a.legs.length) {L : LegS} (hL : L.ok = true)
    (hLm : L.leg.mods = a.mods) (δ qt : Charge) (hδ : δ.length = a.mods.length)
    (hqt : makeValid a.mods (cadd a.qtotal δ) = qt)
    (hbn : (a.legs[k]).blockNumber ≤ L.blockNumber)
    (hc : ∀ q, q < (a.legs[k]).blockNumber →
      makeValid a.mods (L.leg.getCharge q) = makeValid a.mods (cadd ((a.legs[k]).leg.getCharge q) δ)) :
    WFP { a with legs := a.legs.set k L, qtotal := qt } := by
  obtain ⟨hne, hm, hok⟩ := legs_set_ok h k hL hLm
  refine ⟨hne, ?_, ?_, ?_, ?_, h.nodup, h.sorted_ok⟩
  · show ∀ m ∈ ArrS.modsOf (a.legs.set k L), 1 ≤ m
    rw [hm]; exact h.mods_pos
  · show ∀ l ∈ a.legs.set k L, l.ok = true ∧ l.leg.mods = ArrS.modsOf (a.legs.set k L)
    rw [hm]; exact hok
  · show checkValid (ArrS.modsOf (a.legs.set k L)) qt = true
    rw [hm, ← hqt]
    exact C02.checkValid_makeValid _ h.mods_pos _ (by
      rw [C02.cadd_length, C02.checkValid_length h.qtotal_valid, hδ]; simp)
  · intro r hr
    show rowInRange (a.legs.set k L) r = true ∧ blockCharge (ArrS.modsOf (a.legs.set k L)) (a.legs.set k L) r = qt
    rw [hm]
    have h0 := h.rows_ok r hr
    have hb := ((rowInRange_iff _ _).mp h0.1).2 k hk
    have := row_set h.legs_ok hk hL hLm h0.1 (q := r.getD k 0) (by omega) δ (hc _ hb)
    rw [set_getD_self] at this
    refine ⟨this.1, ?_⟩
    rw [this.2, h0.2, hqt]

end TenpyModel.C02P2
