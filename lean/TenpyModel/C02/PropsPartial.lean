import TenpyModel.C02.PropsHistory
/-!
# C02 part 6 — partial results: `squeeze` (with the counterexample for zero-size blocks), `tensordot`
(qtotal of all branches, WF of the branches without the worker), `combine_legs` (row list strictly sorted).
-/
open TenpyModel.Core TenpyModel.C02

/-- `squeeze` removes legs of length 1 and subtracts `get_charge(0)` of each from `qtotal`; rows and flag are kept.
Hypotheses: distinct axes, and every squeezed leg consists of ONE block (`hbn`). The code only checks `ind_len == 1`;
with a zero-size block in such a leg (`slices = [0, 0, 1]`) the stored block may sit at qindex 1 while the charge of
qindex 0 is subtracted — see `C02_squeeze_zero_size_block_counterexample`. -/
theorem C02_WF_squeeze_partial (a : ArrS) (axes : List Int) (axn : List Nat) (b : ArrS) (h : a.WF)
    (hax : axes.mapM a.legIndex = some axn) (hnd : axn.Nodup)
    (hbn : ∀ k ∈ axn, (a.legAt k).blockNumber = 1)
    (hb : a.squeeze (some axes) = some (some b)) : b.WF := by
  rw [WF_iff] at *
  unfold ArrS.squeeze at hb
  simp only [hax] at hb
  split at hb
  · cases hb
  · split at hb
    · cases hb
    · rename_i hkeep
      simp only [Option.some.injEq] at hb
      subst hb
      have hlt : ∀ k ∈ axn, k < a.rank := by
        intro k hk
        obtain ⟨j, _, hj⟩ := mapM_some_mem hax k hk
        exact legIndex_lt hj
      have hW := WFP_dropCols h axn (axn.map (fun _ => 0)) hnd hlt (by simp) (by
        intro j h1 h2
        simp only [List.getElem_map]
        rw [hbn _ (List.getElem_mem h1)]; exact Nat.one_pos) (by
        rw [← legs_keep_eq]
        intro e
        apply hkeep
        have : ((List.range a.legs.length).filter (fun k => !axn.contains k)) = [] := by
          apply Classical.byContradiction
          intro hne
          obtain ⟨k, hk⟩ := List.exists_mem_of_ne_nil _ hne
          have hkl : k < a.legs.length := List.mem_range.mp (List.mem_filter.mp hk).1
          have : a.legs[k] ∈ List.filterMap (fun k => a.legs[k]?) ((List.range a.legs.length).filter (fun k => !axn.contains k)) :=
            List.mem_filterMap.mpr ⟨k, hk, List.getElem?_eq_getElem hkl⟩
          rw [e] at this; cases this
        simpa [ArrS.rank] using congrArg List.isEmpty this)
      -- every row has block index 0 on the squeezed legs, so no row is filtered away
      have hall : a.qdata.filter (fun r => selectCols axn r 0 == axn.map (fun _ => 0)) = a.qdata := by
        apply List.filter_eq_self.mpr
        intro r hr
        simp only [beq_iff_eq]
        unfold selectCols
        apply List.map_congr_left
        intro k hk
        have hk' := hlt k hk
        have h0 := ((rowInRange_iff _ _).mp (h.rows_ok r hr).1).2 k hk'
        have := hbn k hk
        rw [legAt_eq hk'] at this
        unfold LegS.blockNumber at h0
        omega
      have hlegs : ((List.range a.rank).filter (fun k => !axn.contains k)).filterMap (fun k => a.legs[k]?)
          = keepIdx (fun k => !axn.contains k) 0 a.legs := legs_keep_eq _ _
      have hrows : ∀ r ∈ a.qdata, selectCols ((List.range a.rank).filter (fun k => !axn.contains k)) r 0
            = keepIdx (fun k => !axn.contains k) 0 r := by
        intro r hr
        have := h.row_length hr
        rw [← selectCols_keep_eq, this]; rfl
      have hrem : axn.map (fun k => (a.legAt k).getCharge 0)
          = (axn.zip (axn.map (fun _ => 0))).map (fun aq => (a.legAt aq.1).getCharge aq.2) := by
        rw [map_zip_map_right]
      rw [hall] at hW
      simp only [hlegs, List.map_congr_left hrows, hrem]
      exact hW

/-- a well-formed array with a zero-size block in a length-1 leg whose `squeeze` breaks the charge rule -/
theorem C02_squeeze_zero_size_block_counterexample :
    ∃ a : ArrS, a.WF ∧ ∃ b, a.squeeze (some [1]) = some (some b) ∧ ¬ b.WF :=
  ⟨{ legs := [.plain (Leg.fromQind [1] [0, 1, 2] [[2], [3]] 1), .plain (Leg.fromQind [1] [0, 0, 1] [[5], [1]] 1)],
     qtotal := [3], qdata := [[0, 1]], sorted := true }, by decide, _, rfl, by decide⟩

/-- documented qtotal of every contraction: `make_valid(qa + qb)` in all branches (no block / one block /
outer / worker) -/
theorem C02_qtotal_tensordot (a b c : ArrS) (n : Nat) (h : tensordotStd a b n = some (some c)) :
    c.qtotal = makeValid a.mods (cadd a.qtotal b.qtotal) := by
  unfold tensordotStd at h
  simp only at h
  repeat' (split at h)
  all_goals first
    | (cases h; done)
    | (simp only [Option.some.injEq] at h; rw [← h]; done)
    | (simp only [Option.map_eq_some_iff, Option.some.injEq] at h
       obtain ⟨o, ho, rfl⟩ := h
       exact C02_qtotal_outer a b o ho)

/- Full statement (not proved):
   theorem C02_WF_tensordot (a b c : ArrS) (n : Nat) (ha : a.WF) (hb : b.WF)
       (h : tensordotStd a b n = some (some c)) : c.WF
   i.e. also for the one-block branch and the worker: result rows `keepA ++ keepB` for the pairs of keep-groups
   that share a contracted block tuple are in range, pairwise distinct, lexsorted (the flag `True` relies on the
   truthful `_qdata_sorted` of `b`, which lets the worker skip sorting `b`) and satisfy the charge rule
   `mv(keepA + keepB) = mv(qa + qb)` because contracted legs carry opposite charges.
   Proved below: the branches without blocks and the `axes = 0` branch (→ `outer`); `C02_qtotal_tensordot` covers
   the qtotal of all branches. The worker branch is covered by the correspondence run only. -/
theorem C02_WF_tensordot_partial (a b c : ArrS) (n : Nat) (ha : a.WF) (hb : b.WF)
    (hcase : a.qdata = [] ∨ b.qdata = [] ∨ (n = 0 ∧ 2 ≤ a.qdata.length))
    (h : tensordotStd a b n = some (some c)) : c.WF := by
  have hempty : ∀ (hm : a.mods = b.mods) (hna : n ≤ a.rank) (hnb : n ≤ b.rank) (hfull : ¬ (n = a.rank ∧ n = b.rank)),
      ArrS.WF { legs := a.legs.take (a.rank - n) ++ b.legs.drop n, qtotal := makeValid a.mods (cadd a.qtotal b.qtotal),
                qdata := [], sorted := true } := by
    intro hm hna hnb hfull
    rw [WF_iff] at *
    have hne : a.legs.take (a.rank - n) ++ b.legs.drop n ≠ [] := by
      intro e
      have := congrArg List.length e
      simp only [List.length_append, List.length_take, List.length_drop, List.length_nil] at this
      unfold ArrS.rank at *
      omega
    have hok : ∀ l ∈ a.legs.take (a.rank - n) ++ b.legs.drop n, l.ok = true ∧ l.leg.mods = a.mods := by
      intro l hl
      rcases List.mem_append.mp hl with h' | h'
      · exact ha.legs_ok l (List.mem_of_mem_take h')
      · rw [hm]; exact hb.legs_ok l (List.mem_of_mem_drop h')
    have hmods : ArrS.modsOf (a.legs.take (a.rank - n) ++ b.legs.drop n) = a.mods :=
      modsOf_eq_of_mem hne (fun l hl => (hok l hl).2)
    refine ⟨hne, ?_, ?_, ?_, by simp, by simp, by simp⟩
    · show ∀ m ∈ ArrS.modsOf _, 1 ≤ m
      rw [hmods]; exact ha.mods_pos
    · intro l hl
      show l.ok = true ∧ l.leg.mods = ArrS.modsOf _
      rw [hmods]; exact hok l hl
    · show checkValid (ArrS.modsOf _) _ = true
      rw [hmods]
      exact checkValid_makeValid _ ha.mods_pos _ (by
        simp [cadd_length, checkValid_length ha.qtotal_valid, checkValid_length hb.qtotal_valid, hm])
  unfold tensordotStd at h
  simp only at h
  split at h
  · cases h
  · rename_i hc1
    simp only [ne_eq, gt_iff_lt, Bool.or_eq_true, decide_eq_true_eq, not_or, Decidable.not_not, Nat.not_lt] at hc1
    split at h
    · cases h
    · split at h
      · cases h
      · rename_i hfull
        simp only [Bool.and_eq_true, decide_eq_true_eq] at hfull
        split at h
        · simp only [Option.some.injEq] at h; rw [← h]; exact hempty hc1.1.1 hc1.1.2 hc1.2 hfull
        · simp only [Option.some.injEq] at h; rw [← h]; exact hempty hc1.1.1 hc1.1.2 hc1.2 hfull
        · rename_i ra rb hqa hqb
          rcases hcase with h' | h' | h'
          · rw [h'] at hqa; cases hqa
          · rw [h'] at hqb; cases hqb
          · rw [hqa] at h'; simp at h'
        · rename_i hnot1 hnot2 hnot3
          rcases hcase with h' | h' | h'
          · exact absurd h' (fun e => hnot1 e)
          · exact absurd h' (fun e => hnot2 e)
          · simp only [h'.1, ↓reduceIte, Option.map_eq_some_iff, Option.some.injEq] at h
            obtain ⟨o, ho, rfl⟩ := h
            exact C02_WF_outer a b o ha hb ho

namespace TenpyModel.C02

theorem dedupAdj_sublist {α} [DecidableEq α] (l : List α) : (dedupAdj l).Sublist l := by
  induction l with
  | nil => exact List.Sublist.refl _
  | cons x xs ih =>
    cases xs with
    | nil => exact List.Sublist.refl _
    | cons y rest =>
      simp only [dedupAdj]
      split
      · exact ih.trans (List.sublist_cons_self _ _)
      · exact ih.cons₂ x

theorem dedupAdj_head {α} [DecidableEq α] (x : α) (xs : List α) : ∃ t, dedupAdj (x :: xs) = x :: t := by
  induction xs generalizing x with
  | nil => exact ⟨[], rfl⟩
  | cons y rest ih =>
    simp only [dedupAdj]
    split
    · rename_i hxy; subst hxy; exact ih x
    · exact ⟨_, rfl⟩

/-- lexsort followed by "first row of every run of equal rows" gives a strictly ascending list -/
theorem dedupAdj_sorted_strict (n : Nat) (l : List (List Nat)) (hl : ∀ r ∈ l, r.length = n)
    (hs : l.Pairwise (fun a b => rowLE a b = true)) : (dedupAdj l).Pairwise (fun a b => rowLT a b = true) := by
  induction l with
  | nil => exact List.Pairwise.nil
  | cons x xs ih =>
    cases xs with
    | nil => exact List.pairwise_singleton _ _
    | cons y rest =>
      have hs' := (List.pairwise_cons.mp hs)
      have ih' := ih (fun r hr => hl r (by simp [hr])) hs'.2
      simp only [dedupAdj]
      split
      · exact ih'
      · rename_i hxy
        rw [List.pairwise_cons]
        refine ⟨?_, ih'⟩
        intro z hz
        have hzm : z ∈ y :: rest := (dedupAdj_sublist (y :: rest)).subset hz
        have hx := hl x (by simp)
        have hy := hl y (by simp)
        have hzl := hl z (by simp [hzm])
        have hxy' : rowLT x y = true := rowLT_of_rowLE_ne (by rw [hx, hy]) (hs'.1 y (by simp)) hxy
        rcases List.mem_cons.mp hzm with rfl | hzr
        · exact hxy'
        · have hyz : rowLE y z = true := (List.pairwise_cons.mp hs'.2).1 z hzr
          by_cases hyz' : y = z
          · subst hyz'; exact hxy'
          · exact rowLT_trans hxy' (rowLT_of_rowLE_ne (by rw [hy, hzl]) hyz hyz')

end TenpyModel.C02

/- Full statement (not proved):
   theorem C02_WF_combineLegs (a : ArrS) (groups) (newAxes) (qconjs) (c : ArrS) (ha : a.WF)
       (h : a.combineLegs groups newAxes qconjs = some c) : c.WF
   and the same for `splitLegs` and `sortLegcharge`. Missing: (i) `Pipe.ok (Pipe.init legs qconj sort bunch)` — the
   fusion rule of `LegPipe.__init__`, C06's subject; (ii) the charge rule of the mapped rows from (i).
   Proved: the row list produced by `_combine_legs_worker` — lexsort, then the first row of every run of equal rows —
   is strictly lexsorted, hence `_qdata_sorted = True` is truthful and the rows are pairwise distinct. -/
theorem C02_combine_rows_sorted_partial (n : Nat) (rows : List (List Nat)) (hl : ∀ r ∈ rows, r.length = n) :
    (dedupAdj (sortRows rows)).Pairwise (fun a b => rowLT a b = true) :=
  dedupAdj_sorted_strict n _ (fun r hr => hl r ((sortRows_perm rows).mem_iff.mp hr)) (sortRows_sorted rows n hl)

example : dedupAdj (sortRows [[1, 0], [0, 1], [1, 0], [0, 0]]) = [[0, 0], [1, 0], [0, 1]] := by decide
