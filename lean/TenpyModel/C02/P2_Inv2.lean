import TenpyModel.C02.P2_Inv
/-!
# C02 / Props2 — non-empty pipe sectors, part 2: the 16 new operation kinds.
-/
namespace TenpyModel.C02P2
open TenpyModel.Core TenpyModel.C02

theorem PNl_plain_map {α} (l : List α) (f : α → Leg) : PNl (l.map (fun x => LegS.plain (f x))) := by
  intro x hx
  obtain ⟨y, _, rfl⟩ := List.mem_map.1 hx
  trivial

theorem PNs_flipLeg {a b : ArrS} {k : Nat} (h : PNs a) (hb : a.flipLeg k = some b) : PNs b := by
  unfold ArrS.flipLeg at hb
  split at hb
  · cases hb
  · cases hb; exact PNl_set a.legs k _ h trivial
  · rename_i p hl
    cases hb
    exact PNl_set a.legs k _ h (PN_outerConj p (h _ (List.mem_of_getElem? hl)))

theorem PNs_gauge {a b : ArrS} {axis : Int} {newq : Option Charge} {nqc : Option Int} (h : PNs a)
    (hb : a.gaugeTotalCharge axis newq nqc = some b) : PNs b := by
  unfold ArrS.gaugeTotalCharge at hb
  cases hax : a.legIndex axis with
  | none => simp [hax] at hb
  | some k =>
    simp only [hax] at hb
    split at hb
    · cases hb
    · cases hb; exact PNl_set a.legs k _ h trivial

theorem PNs_addLeg {a b : ArrS} {leg : LegS} {i axis : Int} {nz : List Bool} (h : PNs a) (hL : PN leg)
    (hb : a.addLeg leg i axis nz = some b) : PNs b := by
  unfold ArrS.addLeg at hb
  simp only at hb
  generalize (if axis < 0 then axis + (a.rank : Int) else axis) = ax at hb
  by_cases hc : (decide (ax < 0) || decide (ax > (a.rank : Int))) = true
  · rw [if_pos hc] at hb; cases hb
  · rw [if_neg hc] at hb
    cases hqi : leg.leg.getQindex i with
    | none => simp [hqi] at hb
    | some qw =>
      obtain ⟨qi, w⟩ := qw
      simp only [hqi] at hb
      generalize ax.toNat = pos at hb
      cases hz : zeros (insertAt pos leg a.legs) (some (cadd a.qtotal (leg.leg.getCharge qi))) with
      | none => simp [hz] at hb
      | some z =>
        simp only [hz, Option.some.injEq] at hb
        subst hb
        unfold zeros at hz
        split at hz
        · cases hz
        · cases hz
          exact PNl_insertAt a.legs pos leg h hL

theorem PNs_extend {a b : ArrS} {axis : Int} {extra : Leg} (h : PNs a) (hb : a.extend axis extra = some b) : PNs b := by
  unfold ArrS.extend at hb
  cases hax : a.legIndex axis with
  | none => simp [hax] at hb
  | some k => simp only [hax, Option.some.injEq] at hb; subst hb; exact PNl_set a.legs k _ h trivial

theorem PNs_foldl_projStep (l : List (Nat × List Bool)) (a : ArrS) (h : PNs a) : PNs (l.foldl projStep a) := by
  induction l generalizing a with
  | nil => exact h
  | cons am l ih =>
    simp only [List.foldl_cons]
    apply ih
    exact PNl_set a.legs am.1 _ h trivial

theorem PNs_iproject {a b : ArrS} {masks : List (List Bool)} {axes : List Int} (h : PNs a)
    (hb : a.iproject masks axes = some b) : PNs b := by
  unfold ArrS.iproject at hb
  cases hax : axes.mapM a.legIndex with
  | none => simp [hax] at hb
  | some axn =>
    simp only [hax] at hb
    split at hb
    · cases hb
    · simp only [Option.some.injEq] at hb
      subst hb
      exact PNs_foldl_projStep _ a h

theorem PNs_dropCharge {a b : ArrS} {k : Nat} (hb : a.dropCharge k = some b) : PNs b := by
  unfold ArrS.dropCharge at hb
  split at hb
  · cases hb
  · cases hb; exact PNl_plain_map a.legs _

theorem PNs_changeCharge {a b : ArrS} {k d : Nat} (hb : a.changeCharge k d = some b) : PNs b := by
  unfold ArrS.changeCharge at hb
  split at hb
  · cases hb
  · cases hb; exact PNl_plain_map a.legs _

theorem PNs_addCharge {a b : ArrS} {addLegs : List Leg} {q2 : Charge} {nz : List Bool}
    (hb : a.addCharge addLegs q2 nz = some b) : PNs b := by
  unfold ArrS.addCharge at hb
  split at hb
  · cases hb
  · split at hb
    · cases hb
    · simp only at hb
      cases hz : zeros ((a.legs.zip addLegs).map (fun ll => LegS.plain (ArrS.legAddCharge ll.1.leg ll.2)))
          (some (a.qtotal ++ q2)) with
      | none => rw [hz] at hb; cases hb
      | some z =>
        rw [hz] at hb
        simp only [Option.some.injEq] at hb
        subst hb
        unfold zeros at hz
        split at hz
        · cases hz
        · cases hz
          exact PNl_plain_map _ _

theorem PNs_dropChargeAll (a : ArrS) (nz : List Bool) : PNs (a.dropChargeAll nz) := PNl_plain_map a.legs _

theorem PNs_concatenate {arrs : List ArrS} {axis : Int} {b : ArrS} (h : ∀ a ∈ arrs, PNs a)
    (hb : concatenate arrs axis = some b) : PNs b := by
  unfold concatenate at hb
  cases arrs with
  | nil => simp at hb
  | cons a0 rest =>
    simp only at hb
    cases hax : a0.legIndex axis with
    | none => simp [hax] at hb
    | some k =>
      simp only [hax] at hb
      split at hb
      · cases hb
      · cases hb
        exact PNl_set a0.legs k _ (h a0 (by simp)) trivial

theorem PNs_trace {a b : ArrS} {l1 l2 : Int} (h : PNs a) (hb : trace a l1 l2 = some (some b)) : PNs b := by
  unfold trace at hb
  cases hi : a.legIndex l1 with
  | none => simp [hi] at hb
  | some i =>
    cases hj : a.legIndex l2 with
    | none => simp [hi, hj] at hb
    | some j =>
      simp only [hi, hj] at hb
      split at hb
      · cases hb
      · split at hb
        · cases hb
        · split at hb
          · cases hb
          · simp only [Option.some.injEq] at hb
            subst hb
            exact PNl_filterMap a.legs _ h

theorem PNs_tensordotStd {a b c : ArrS} {n : Nat} (ha : PNs a) (hb : PNs b)
    (h : tensordotStd a b n = some (some c)) : PNs c := by
  have hl : PNl (a.legs.take (a.rank - n) ++ b.legs.drop n) := by
    intro l hl
    rcases List.mem_append.1 hl with hl | hl
    · exact ha l (List.mem_of_mem_take hl)
    · exact hb l (List.mem_of_mem_drop hl)
  unfold tensordotStd at h
  simp only at h
  split at h
  · cases h
  · split at h
    · cases h
    · split at h
      · cases h
      · split at h
        · simp only [Option.some.injEq] at h; rw [← h]; exact hl
        · simp only [Option.some.injEq] at h; rw [← h]; exact hl
        · split at h
          · simp only [Option.some.injEq] at h; rw [← h]; exact hl
          · simp only [Option.some.injEq] at h; rw [← h]; exact hl
        · split at h
          · simp only [Option.map_eq_some_iff, Option.some.injEq] at h
            obtain ⟨o, ho, rfl⟩ := h
            exact PNs_outer ha hb ho
          · simp only [Option.some.injEq] at h; rw [← h]; exact hl

theorem PNs_tensordot {cy : Bool} {a b c : ArrS} {axes : Nat ⊕ (List Int × List Int)} (ha : PNs a) (hb : PNs b)
    (h : tensordot cy a b axes = some (some c)) : PNs c := by
  unfold tensordot at h
  cases axes with
  | inl n => exact PNs_tensordotStd ha hb h
  | inr p =>
    obtain ⟨axA, axB⟩ := p
    simp only at h
    cases hA : axA.mapM a.legIndex with
    | none => simp [hA] at h
    | some nA =>
      cases hB : axB.mapM b.legIndex with
      | none => simp [hA, hB] at h
      | some nB =>
        simp only [hA, hB] at h
        split at h
        · cases h
        · refine PNs_tensordotStd ?_ ?_ h
          · unfold tdTranspose; simp only; split
            · exact ha
            · exact PNs_permuteAxes a _ ha
          · unfold tdTranspose; simp only; split
            · exact hb
            · exact PNs_permuteAxes b _ hb

/-! ### combine / split -/

theorem PNl_foldl_pipes (nps : List (Nat × Pipe)) (legs0 : List LegS) (h0 : PNl legs0)
    (hp : ∀ x ∈ nps, PN (.pipe x.2)) :
    PNl (nps.foldl (fun (ls : List LegS) np => insertAt (min np.1 ls.length) (.pipe np.2) ls) legs0) := by
  induction nps generalizing legs0 with
  | nil => exact h0
  | cons x nps ih =>
    simp only [List.foldl_cons]
    apply ih
    · exact PNl_insertAt legs0 _ _ h0 (hp x (by simp))
    · intro y hy; exact hp y (by simp [hy])

theorem PNs_combineStd {a b : ArrS} {groups : List (List Nat)} {newAxes : List Nat} {pipes : List Pipe} (h : PNs a)
    (hp : ∀ p ∈ pipes, PN (.pipe p)) (hb : a.combineStd groups newAxes pipes = some b) : PNs b := by
  unfold ArrS.combineStd at hb
  simp only at hb
  have hl := PNl_foldl_pipes (newAxes.zip pipes)
    (((List.range a.rank).filter (fun k => !groups.flatten.contains k)).filterMap (fun k => a.legs[k]?))
    (PNl_filterMap a.legs _ h) (fun x hx => hp x.2 (List.of_mem_zip hx).2)
  generalize (newAxes.zip pipes).foldl (fun (ls : List LegS) np => insertAt (min np.1 ls.length) (.pipe np.2) ls)
    (((List.range a.rank).filter (fun k => !groups.flatten.contains k)).filterMap (fun k => a.legs[k]?)) = legs' at hb hl
  cases hz : zeros legs' (some a.qtotal) with
  | none => simp [hz] at hb
  | some z =>
    simp only [hz] at hb
    have hzl : z.legs = legs' := by
      unfold zeros at hz; split at hz; cases hz; cases hz; rfl
    split at hb <;> (simp only [Option.some.injEq] at hb; subst hb; show PNl z.legs; rw [hzl]; exact hl)

theorem PNs_combineWithPipes {a b : ArrS} {groups : List (List Nat)} {newAxes : Option (List Int)}
    {pipes : List Pipe} (h : PNs a) (hp : ∀ p ∈ pipes, PN (.pipe p))
    (hb : a.combineWithPipes groups newAxes pipes = some b) : PNs b := by
  unfold ArrS.combineWithPipes at hb
  split at hb
  · cases hb
  · split at hb
    · cases hb
    · cases hna : ArrS.combineNewAxes a.rank groups newAxes with
      | none => simp [hna] at hb
      | some nt =>
        obtain ⟨na, transp⟩ := nt
        simp only [hna] at hb
        split at hb
        · cases hb
        · have hp' : ∀ (order : List Nat), ∀ p ∈ order.filterMap (fun s => pipes[s]?), PN (.pipe p) := by
            intro order p hp'
            obtain ⟨s, _, hs⟩ := List.mem_filterMap.1 hp'
            exact hp p (List.mem_of_getElem? hs)
          split at hb
          · exact PNs_combineStd h (hp' _) hb
          · exact PNs_combineStd (PNs_permuteAxes a transp h) (hp' _) hb

theorem PNs_combineLegs {a b : ArrS} {groups : List (List Nat)} {newAxes : Option (List Int)}
    {qconjs : List (Option Int)} (h : PNs a) (hb : a.combineLegs groups newAxes qconjs = some b) : PNs b := by
  unfold ArrS.combineLegs at hb
  split at hb
  · cases hb
  · split at hb
    · cases hb
    · refine PNs_combineWithPipes h ?_ hb
      intro p hp
      unfold ArrS.makePipes at hp
      obtain ⟨gq, _, rfl⟩ := List.mem_map.1 hp
      exact PN_init _ _ _ _

theorem PNs_sortLegcharge {a b : ArrS} {sort bunch : List Bool} (h : PNs a)
    (hb : a.sortLegcharge sort bunch = some b) : PNs b := by
  unfold ArrS.sortLegcharge at hb
  split at hb
  · cases hb
  · simp only at hb
    split at hb
    · cases hb
    · generalize (List.range a.rank).filter (fun k => sort.getD k false || bunch.getD k false) = axes at hb
      cases hcp : a.combineWithPipes (axes.map (fun k => [k])) none
          (axes.map (fun k => Pipe.init [a.legAt k] (a.legAt k).qconj (sort.getD k false) (bunch.getD k false))) with
      | none => rw [hcp] at hb; cases hb
      | some cp =>
        rw [hcp] at hb
        simp only [Option.some.injEq] at hb
        subst hb
        have hcpP : PNs cp := by
          refine PNs_combineWithPipes h ?_ hcp
          intro p hp
          obtain ⟨k, _, rfl⟩ := List.mem_map.1 hp
          exact PN_init _ _ _ _
        obtain ⟨_, hmem⟩ := relabel_legs cp.legs (fun k l => if axes.contains k then l.toPlain else l) (by
          intro k x; split <;> rfl)
        intro y hy
        obtain ⟨k, x, hx, rfl⟩ := hmem y hy
        split
        · trivial
        · exact hcpP x hx

theorem PNs_splitLegs {a b : ArrS} {axes : Option (List Int)} (h : PNs a) (hb : a.splitLegs axes = some b) :
    PNs b := by
  unfold ArrS.splitLegs at hb
  simp only at hb
  split at hb
  · cases hb
  · rename_i axn _
    split at hb
    · cases hb
    · split at hb
      · cases hb; exact h
      · have hl : PNl ((List.range a.rank).flatMap (LSof a axn)) := by
          intro l hl
          obtain ⟨k, _, hlk⟩ := List.mem_flatMap.1 hl
          unfold LSof at hlk
          split at hlk
          · obtain ⟨l0, _, rfl⟩ := List.mem_map.1 hlk
            trivial
          · cases hk : a.legs[k]? with
            | none => rw [hk] at hlk; simp at hlk
            | some l1 =>
              rw [hk] at hlk
              simp only [Option.toList_some, List.mem_singleton] at hlk
              subst hlk
              exact h _ (List.mem_of_getElem? hk)
        split at hb
        · simp only [Option.some.injEq] at hb; subst hb; exact hl
        · split at hb <;> (simp only [Option.some.injEq] at hb; subst hb; exact hl)

theorem PNs_permute {a b : ArrS} {perm : List Nat} {axis : Int} (h : PNs a) (hb : a.permute perm axis = some b) :
    PNs b := by
  unfold ArrS.permute at hb
  cases hax : a.legIndex axis with
  | none => simp [hax] at hb
  | some k =>
    simp only [hax] at hb
    split at hb
    · cases hb
    · simp only [Option.some.injEq] at hb
      subst hb
      exact PNl_set a.legs k _ h trivial

end TenpyModel.C02P2
