import TenpyModel.C02.P2_Combine3
import TenpyModel.C02.P2_Charges
/-!
# C02 / Props2 — `combine_legs` with pipes made by `make_pipe` (`LegPipe.__init__`), and `sort_legcharge`
(one-leg pipes with the requested `sort` / `bunch`, converted back to `LegCharge`s).
-/
namespace TenpyModel.C02P2
open TenpyModel.Core TenpyModel.C02

theorem zip_zipmap {α β γ} (F : α × β → γ) (l : List α) (m : List β) :
    ∀ x ∈ l.zip ((l.zip m).map F), ∃ y ∈ l.zip m, x = (y.1, F y) := by
  induction l generalizing m with
  | nil => simp
  | cons a l ih =>
    cases m with
    | nil => simp
    | cons b m =>
      intro x hx
      simp only [List.zip_cons_cons, List.map_cons, List.mem_cons] at hx
      rcases hx with rfl | hx
      · exact ⟨(a, b), by simp, rfl⟩
      · obtain ⟨y, hy, rfl⟩ := ih m x hx
        exact ⟨y, by simp [hy], rfl⟩

theorem group_legs_eq (a : ArrS) (g : List Nat) (hlt : ∀ k ∈ g, k < a.rank) :
    g.filterMap (fun k => (a.legs[k]?).map LegS.leg) = g.map (fun k => a.legAt k) := by
  induction g with
  | nil => rfl
  | cons k g ih =>
    have hk : k < a.legs.length := hlt k (by simp)
    simp only [List.filterMap_cons, List.getElem?_eq_getElem hk, Option.map_some, List.map_cons,
      ih (fun j hj => hlt j (by simp [hj])), legAt_eq hk]

theorem group_legs_sane {a : ArrS} (h : WFP a) (g : List Nat) (hlt : ∀ k ∈ g, k < a.rank) :
    ∀ l ∈ g.map (fun k => a.legAt k), l.sane = true ∧ l.mods = a.mods := by
  intro l hl
  obtain ⟨k, hk, rfl⟩ := List.mem_map.1 hl
  have hk' : k < a.legs.length := hlt k hk
  rw [legAt_eq hk']
  have := h.legs_ok _ (List.getElem_mem hk')
  exact ⟨LegS.ok_sane this.1, this.2⟩

/-- the pipe made by `make_pipe` for a non-empty group of legs of `a` -/
theorem GoodPipe_init {a : ArrS} (h : WFP a) (g : List Nat) (hne : g ≠ []) (hlt : ∀ k ∈ g, k < a.rank) (qconj : Int)
    (hq : qconj = 1 ∨ qconj = -1) (sort bunch : Bool) :
    GoodPipe a g (Pipe.init (g.map (fun k => a.legAt k)) qconj sort bunch) := by
  have hs := group_legs_sane h g hlt
  have hok := init_LegS_ok (g.map (fun k => a.legAt k)) (by simpa using hne) a.mods h.mods_pos hs qconj hq sort bunch
  exact ⟨hlt, Pipe.init_legs _ _ _ _, hok.1, hok.2, lookup_init _ _ _ _⟩

theorem WFP_combineLegs {a b : ArrS} {groups : List (List Nat)} {newAxes : Option (List Int)}
    {qconjs : List (Option Int)} (h : WFP a) (hqc : ∀ v, some v ∈ qconjs → v = 1 ∨ v = -1)
    (hb : a.combineLegs groups newAxes qconjs = some b) : WFP b ∧ b.qtotal = a.qtotal := by
  unfold ArrS.combineLegs at hb
  split at hb
  · cases hb
  · split at hb
    · cases hb
    · rename_i hlt0
      have hglt : ∀ k ∈ groups.flatten, k < a.rank := by
        intro k hk
        have := hlt0
        simp only [List.any_eq_true, ge_iff_le, decide_eq_true_eq, not_exists, not_and, Nat.not_le] at this
        exact this k hk
      -- no group is empty (otherwise the call raises)
      have hne : ∀ g ∈ groups, g ≠ [] := by
        intro g hg e
        unfold ArrS.combineWithPipes at hb
        rw [if_pos] at hb
        · cases hb
        · simp only [Bool.or_eq_true, List.any_eq_true]
          exact Or.inl (Or.inr ⟨g, hg, by simp [e]⟩)
      apply WFP_combineWithPipes h ?_ hb
      intro x hx
      unfold ArrS.makePipes at hx
      obtain ⟨y, hy, rfl⟩ := zip_zipmap _ groups qconjs x hx
      have hyg : y.1 ∈ groups := (List.of_mem_zip hy).1
      have hyq : y.2 ∈ qconjs := (List.of_mem_zip hy).2
      have hlt : ∀ k ∈ y.1, k < a.rank := fun k hk => hglt k (List.mem_flatten.2 ⟨y.1, hyg, hk⟩)
      simp only
      rw [group_legs_eq a y.1 hlt]
      apply GoodPipe_init h y.1 (hne y.1 hyg) hlt
      cases hq : y.2 with
      | some v => rw [hq] at hyq; exact hqc v hyq
      | none =>
        simp only [Option.getD_none]
        have hs := group_legs_sane h y.1 hlt
        cases hg : y.1 with
        | nil => exact absurd hg (hne y.1 hyg)
        | cons k rest =>
          rw [hg] at hs
          simp only [List.map_cons, List.headD_cons]
          exact sane_qconj (hs _ (by simp)).1

/-! ### `sort_legcharge` -/

theorem toPlain_leg (l : LegS) : l.toPlain.leg = l.leg := rfl

theorem chList_toPlain (legs : List LegS) (r : List Nat) : chList (legs.map LegS.toPlain) r = chList legs r := by
  unfold chList
  induction legs generalizing r with
  | nil => simp
  | cons l legs ih =>
    cases r with
    | nil => simp
    | cons q r => simp [ih, toPlain_leg]

theorem rowInRange_toPlain (legs : List LegS) (r : List Nat) :
    rowInRange (legs.map LegS.toPlain) r = rowInRange legs r :=
  rowInRange_mapLegs legs LegS.toPlain (fun _ _ => rfl) r

/-- legs replaced by legs with the same `LegCharge` view -/
theorem WFP_relegs {a : ArrS} (h : WFP a) (legs' : List LegS)
    (hmap : legs'.map LegS.toPlain = a.legs.map LegS.toPlain) (hok : ∀ l ∈ legs', l.ok = true) :
    WFP { a with legs := legs' } := by
  have hne : legs' ≠ [] := by
    intro e; rw [e] at hmap
    have := congrArg List.length hmap
    simp at this
    exact h.rank_pos (List.length_eq_zero_iff.1 this.symm)
  have hmods : ∀ l ∈ legs', l.leg.mods = a.mods := by
    intro l hl
    have : l.toPlain ∈ a.legs.map LegS.toPlain := by rw [← hmap]; exact List.mem_map.2 ⟨l, hl, rfl⟩
    obtain ⟨l0, hl0, e⟩ := List.mem_map.1 this
    have e' : l0.leg = l.leg := by
      unfold LegS.toPlain at e
      exact LegS.plain.inj e
    rw [← e']; exact (h.legs_ok l0 hl0).2
  have hm : ArrS.modsOf legs' = a.mods := modsOf_eq_of_mem hne hmods
  have hrr : ∀ r, rowInRange legs' r = rowInRange a.legs r := by
    intro r; rw [← rowInRange_toPlain legs', hmap, rowInRange_toPlain]
  have hbc : ∀ r, blockCharge a.mods legs' r = blockCharge a.mods a.legs r := by
    intro r
    unfold blockCharge
    rw [rawCharge_eq, rawCharge_eq, ← chList_toPlain legs', hmap, chList_toPlain]
  refine ⟨hne, ?_, ?_, ?_, ?_, h.nodup, h.sorted_ok⟩
  · show ∀ m ∈ ArrS.modsOf legs', 1 ≤ m
    rw [hm]; exact h.mods_pos
  · show ∀ l ∈ legs', l.ok = true ∧ l.leg.mods = ArrS.modsOf legs'
    rw [hm]; exact fun l hl => ⟨hok l hl, hmods l hl⟩
  · show checkValid (ArrS.modsOf legs') a.qtotal = true
    rw [hm]; exact h.qtotal_valid
  · intro r hr
    show rowInRange legs' r = true ∧ blockCharge (ArrS.modsOf legs') legs' r = a.qtotal
    rw [hm, hrr, hbc]; exact h.rows_ok r hr

theorem relabel_legs_aux (l : List LegS) (f : Nat → LegS → LegS) (hf : ∀ k x, (f k x).toPlain = x.toPlain) (s : Nat) :
    ((List.range' s l.length).filterMap (fun k => (l[k - s]?).map (f k))).map LegS.toPlain = l.map LegS.toPlain ∧
    ∀ y ∈ (List.range' s l.length).filterMap (fun k => (l[k - s]?).map (f k)), ∃ k, ∃ x ∈ l, y = f k x := by
  induction l generalizing s with
  | nil => simp
  | cons x xs ih =>
    have hrest : (List.range' (s + 1) xs.length).filterMap (fun k => ((x :: xs)[k - s]?).map (f k))
        = (List.range' (s + 1) xs.length).filterMap (fun k => (xs[k - (s + 1)]?).map (f k)) := by
      apply filterMap_congr_mem
      intro c hc
      have : s + 1 ≤ c := (List.mem_range'_1.mp hc).1
      have e : c - s = (c - (s + 1)) + 1 := by omega
      rw [e]; simp
    simp only [List.length_cons, List.range'_succ, List.filterMap_cons, Nat.sub_self, List.getElem?_cons_zero,
      Option.map_some, hrest, List.map_cons, (ih (s + 1)).1, hf]
    refine ⟨trivial, ?_⟩
    intro y hy
    rcases List.mem_cons.1 hy with rfl | hy
    · exact ⟨s, x, by simp, rfl⟩
    · obtain ⟨k, x0, hx0, rfl⟩ := (ih (s + 1)).2 y hy
      exact ⟨k, x0, by simp [hx0], rfl⟩

theorem relabel_legs (l : List LegS) (f : Nat → LegS → LegS) (hf : ∀ k x, (f k x).toPlain = x.toPlain) :
    ((List.range l.length).filterMap (fun k => (l[k]?).map (f k))).map LegS.toPlain = l.map LegS.toPlain ∧
    ∀ y ∈ (List.range l.length).filterMap (fun k => (l[k]?).map (f k)), ∃ k, ∃ x ∈ l, y = f k x := by
  have := relabel_legs_aux l f hf 0
  simpa [List.range_eq_range'] using this

theorem WFP_sortLegcharge {a b : ArrS} {sort bunch : List Bool} (h : WFP a)
    (hb : a.sortLegcharge sort bunch = some b) : WFP b ∧ b.qtotal = a.qtotal := by
  unfold ArrS.sortLegcharge at hb
  split at hb
  · cases hb
  · simp only at hb
    split at hb
    · cases hb
    · generalize haxes : (List.range a.rank).filter (fun k => sort.getD k false || bunch.getD k false) = axes at hb
      have hax : ∀ k ∈ axes, k < a.rank := by
        intro k hk; rw [← haxes] at hk; exact List.mem_range.1 (List.mem_filter.1 hk).1
      cases hcp : a.combineWithPipes (axes.map (fun k => [k])) none
          (axes.map (fun k => Pipe.init [a.legAt k] (a.legAt k).qconj (sort.getD k false) (bunch.getD k false))) with
      | none => rw [hcp] at hb; cases hb
      | some cp =>
        rw [hcp] at hb
        simp only [Option.some.injEq] at hb
        subst hb
        have hcpW' : WFP cp ∧ cp.qtotal = a.qtotal := by
          apply WFP_combineWithPipes h ?_ hcp
          intro x hx
          rw [List.zip_map, List.mem_map] at hx
          obtain ⟨kk, hkk, rfl⟩ := hx
          obtain ⟨k, hk, rfl⟩ : ∃ k ∈ axes, kk = (k, k) := by
            have := List.mem_iff_getElem.1 hkk
            obtain ⟨i, hi, rfl⟩ := this
            simp only [List.length_zip, Nat.min_self] at hi
            exact ⟨axes[i], List.getElem_mem hi, by simp⟩
          have hk' : k < a.legs.length := hax k hk
          have hq : (a.legAt k).qconj = 1 ∨ (a.legAt k).qconj = -1 := by
            rw [legAt_eq hk']; exact sane_qconj (LegS.ok_sane (h.legs_ok _ (List.getElem_mem hk')).1)
          exact GoodPipe_init h [k] (by simp) (by intro j hj; simp only [List.mem_singleton] at hj; rw [hj]; exact hax k hk)
            _ hq _ _
        obtain ⟨hcpW, hcpq⟩ := hcpW'
        refine ⟨?_, hcpq⟩
        obtain ⟨hmap, hmem⟩ := relabel_legs cp.legs (fun k l => if axes.contains k then l.toPlain else l) (by
          intro k x; split <;> rfl)
        apply WFP_relegs hcpW _ hmap
        intro y hy
        obtain ⟨k, x, hx, rfl⟩ := hmem y hy
        have hxok := (hcpW.legs_ok x hx).1
        split
        · exact LegS.ok_sane hxok
        · exact hxok

end TenpyModel.C02P2
