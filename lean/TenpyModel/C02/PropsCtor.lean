import TenpyModel.C02.PropsMerge
/-!
# C02 part 4 — constructors (`zeros`, `from_func`/`from_ndarray` order) and element assignment.
-/
open TenpyModel.Core TenpyModel.C02
namespace TenpyModel.C02

theorem gridF_length (shape : List Nat) : ∀ r ∈ gridF shape, r.length = shape.length := by
  induction shape with
  | nil => intro r hr; simp [gridF] at hr; simp [hr]
  | cons n rest ih =>
    intro r hr
    simp only [gridF, List.mem_flatMap, List.mem_map, List.mem_range] at hr
    obtain ⟨t, ht, i, _, rfl⟩ := hr
    simp [ih t ht]

theorem gridF_inShape (shape : List Nat) : ∀ r ∈ gridF shape, inShape shape r := by
  induction shape with
  | nil => intro r hr; simp [gridF] at hr; subst hr; trivial
  | cons n rest ih =>
    intro r hr
    simp only [gridF, List.mem_flatMap, List.mem_map, List.mem_range] at hr
    obtain ⟨t, ht, i, hi, rfl⟩ := hr
    exact ⟨hi, ih t ht⟩

/-- `_iter_all_blocks` enumerates the block index tuples in strictly ascending `lexsort` order -/
theorem gridF_sorted (shape : List Nat) : (gridF shape).Pairwise (fun x y => rowLT x y = true) := by
  induction shape with
  | nil => simp [gridF]
  | cons n rest ih =>
    simp only [gridF]
    rw [List.pairwise_flatMap]
    constructor
    · intro t _
      rw [List.pairwise_map]
      have : (List.range n).Pairwise (· < ·) := List.pairwise_lt_range
      refine this.imp ?_
      intro i j hij
      rw [rowLT_cons i j rfl]
      simp [hij]
    · rw [List.pairwise_iff_forall_sublist] at ih ⊢
      intro t t' hs x hx y hy
      obtain ⟨i, _, rfl⟩ := List.mem_map.mp hx
      obtain ⟨j, _, rfl⟩ := List.mem_map.mp hy
      have h1 := gridF_length rest t (hs.subset (by simp))
      have h2 := gridF_length rest t' (hs.subset (by simp))
      rw [rowLT_cons i j (by rw [h1, h2]), ih hs]
      rfl

theorem rowInRange_of_inShape {legs : List LegS} {r : List Nat} (h : inShape (legs.map LegS.blockNumber) r) :
    rowInRange legs r = true := by
  unfold rowInRange
  simp only [Bool.and_eq_true, beq_iff_eq, List.all_eq_true]
  induction legs generalizing r with
  | nil => cases r <;> simp_all [inShape]
  | cons l legs ih =>
    cases r with
    | nil => simp [inShape] at h
    | cons q r =>
      simp only [List.map_cons, inShape] at h
      have := ih h.2
      refine ⟨by simp [this.1], ?_⟩
      simp only [List.zipWith_cons_cons, List.mem_cons, id_eq, forall_eq_or_imp, decide_eq_true_eq]
      exact ⟨h.1, this.2⟩

end TenpyModel.C02

/-- `Array(legs, qtotal)` / `npc.zeros`: no rows, flag set -/
theorem C02_WF_zeros (legs : List LegS) (q : Option Charge) (z : ArrS)
    (hok : ∀ l ∈ legs, l.ok = true ∧ l.leg.mods = ArrS.modsOf legs) (hm : ∀ m ∈ ArrS.modsOf legs, 1 ≤ m)
    (hq : ∀ q', q = some q' → q'.length = (ArrS.modsOf legs).length) (h : zeros legs q = some z) : z.WF := by
  rw [WF_iff]
  unfold zeros at h
  split at h
  · cases h
  · rename_i hne
    cases h
    refine ⟨by simpa using hne, hm, hok, ?_, by simp, by simp, by simp⟩
    apply checkValid_makeValid _ hm
    cases q with
    | none => simp [czero_length]
    | some q' => simpa using hq q' rfl

/-- `from_func` / `from_ndarray` / `ones`: every compatible block, in `_iter_all_blocks` order — which IS the
lexsorted order, so `_qdata_sorted = True` is truthful -/
theorem C02_WF_fromFunc (legs : List LegS) (q : Option Charge) (z : ArrS)
    (hok : ∀ l ∈ legs, l.ok = true ∧ l.leg.mods = ArrS.modsOf legs) (hm : ∀ m ∈ ArrS.modsOf legs, 1 ≤ m)
    (hq : ∀ q', q = some q' → q'.length = (ArrS.modsOf legs).length) (h : fromFunc legs q = some z) : z.WF := by
  unfold fromFunc at h
  cases hz : zeros legs q with
  | none => simp [hz] at h
  | some z0 =>
    simp only [hz, Option.some.injEq] at h
    have h0 := C02_WF_zeros legs q z0 hok hm hq hz
    rw [WF_iff] at h0 ⊢
    have hl : z0.legs = legs := by
      unfold zeros at hz; split at hz; cases hz; cases hz; rfl
    subst h
    have hsub := List.filter_sublist (l := gridF (legs.map LegS.blockNumber))
      (p := fun r => blockCharge z0.mods legs r == z0.qtotal)
    have hlt := (gridF_sorted (legs.map LegS.blockNumber)).sublist hsub
    have hboth := (pairwise_rowLT_iff (n := (legs.map LegS.blockNumber).length)
      (fun r hr => gridF_length _ r (hsub.subset hr))).mp hlt
    refine ⟨h0.rank_pos, h0.mods_pos, h0.legs_ok, h0.qtotal_valid, ?_, hboth.2, fun _ => hboth.1⟩
    intro r hr
    simp only [List.mem_filter, beq_iff_eq] at hr
    show rowInRange z0.legs r = true ∧ blockCharge z0.mods z0.legs r = z0.qtotal
    rw [hl]
    exact ⟨rowInRange_of_inShape (gridF_inShape _ r hr.1), hr.2⟩

example : ((fromFunc exA.legs (some [0])).map (fun z => (z.qdata, z.sorted, decide z.WF)))
    = some ([[0, 0], [1, 1]], true, true) := by decide

/-- `get_block(insert=True)`: an appended row switches the flag off; an existing block changes nothing -/
theorem C02_WF_insertBlock (a : ArrS) (row : List Nat) (b : ArrS) (h : a.WF) (hr : rowInRange a.legs row = true)
    (hb : a.insertBlock row = some b) : b.WF := by
  rw [WF_iff] at *
  unfold ArrS.insertBlock at hb
  split at hb
  · cases hb
  · rename_i hc
    simp only [bne_iff_ne, ne_eq, Decidable.not_not] at hc
    split at hb
    · cases hb; exact h
    · rename_i hnc
      cases hb
      refine ⟨h.rank_pos, h.mods_pos, h.legs_ok, h.qtotal_valid, ?_, ?_, by intro hs; cases hs⟩
      · intro r hr'
        rcases List.mem_append.mp hr' with h' | h'
        · exact h.rows_ok r h'
        · simp only [List.mem_singleton] at h'; subst h'; exact ⟨hr, hc⟩
      · show (a.qdata ++ [row]).Pairwise (· ≠ ·)
        rw [List.pairwise_append]
        refine ⟨h.nodup, List.pairwise_singleton _ _, ?_⟩
        intro x hx y hy
        simp only [List.mem_singleton] at hy
        subst hy
        intro e; subst e
        exact hnc (by simpa using hx)

/-- `a[i_1, …, i_n] = x` -/
theorem C02_WF_setItem (a : ArrS) (idx : List Int) (b : ArrS) (h : a.WF) (hb : a.setItem idx = some b) : b.WF := by
  unfold ArrS.setItem at hb
  split at hb
  · cases hb
  · rename_i hlen
    cases hpos : (a.legs.zip idx).mapM (fun li => li.1.leg.getQindex li.2) with
    | none => simp [hpos] at hb
    | some pos =>
      simp only [hpos] at hb
      refine C02_WF_insertBlock a _ b h ?_ hb
      have hW := (WF_iff a).mp h
      have hl : idx.length = a.legs.length := by simpa [ArrS.rank] using hlen
      have hpl : pos.length = a.legs.length := by rw [mapM_some_length hpos, List.length_zip]; omega
      rw [rowInRange_iff]
      refine ⟨by simp [hpl], ?_⟩
      intro i hi
      have hz : i < (a.legs.zip idx).length := by rw [List.length_zip]; omega
      have hpi : i < pos.length := by omega
      have := mapM_some_getElem hpos i hz hpi
      simp only [List.getElem_zip] at this
      have hq : (pos[i].1, pos[i].2) = pos[i] := rfl
      rw [← hq] at this
      have hlt := Leg.getQindex_lt (LegS.ok_sane (hW.legs_ok _ (List.getElem_mem hi)).1) this
      simpa [List.getD, hpi, LegS.blockNumber] using hlt

example : ((exA.isortQdata.setItem [1, 0]).map (fun b => b.qdata)) = none := by decide
example : (((fromFunc exA.legs (some [1])).bind (fun z => z.zerosLike.setItem [1, 0])).map (fun b => (b.qdata, b.sorted, decide b.WF)))
    = some ([[1, 0]], false, true) := by decide
