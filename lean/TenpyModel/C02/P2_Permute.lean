import TenpyModel.C02.P2_Trace
/-!
# C02 / Props2 — `permute(perm, axis)`: the indices of one leg are permuted, the permuted flat charges are bunched
into a new leg, every stored block is cut into the new blocks its indices fall into.
Needs the shape invariant of the permuted leg (`slices` non-decreasing — `LegCharge.test_sanity` does not check it,
every constructor guarantees it) and `perm` a permutation of the indices.
-/
namespace TenpyModel.C02P2
open TenpyModel.Core TenpyModel.C02

theorem bunch_mods_qconj (l : Leg) : l.bunch.2.mods = l.mods ∧ l.bunch.2.qconj = l.qconj := by
  unfold Leg.bunch; split <;> exact ⟨rfl, rfl⟩

theorem mem_toQflat {l : Leg} {c : Charge} (h : c ∈ l.toQflat) : c ∈ l.charges := by
  unfold Leg.toQflat at h
  obtain ⟨sc, hsc, hc⟩ := List.mem_flatMap.1 h
  have := (List.mem_replicate.1 hc).2
  rw [this]
  exact (List.of_mem_zip hsc).2

/-- the leg built from flat charges -/
theorem fromQflat_facts (M : List Nat) (hM : ∀ m ∈ M, 1 ≤ m) (qf : List Charge) (hv : ∀ c ∈ qf, checkValid M c = true)
    (qc : Int) (hq : qc = 1 ∨ qc = -1) :
    (Leg.fromQflat M qf qc).WF ∧ (Leg.fromQflat M qf qc).sane = true ∧ (Leg.fromQflat M qf qc).indLen = qf.length ∧
    ∀ x, x < qf.length → (Leg.fromQflat M qf qc).toQflat.getD x [] = qf.getD x [] := by
  have hsh : (Leg.fromQflat M qf qc).Shape := by
    refine ⟨by simp [Leg.fromQflat, Leg.fromQind, Leg.mk'], ?_, ?_⟩
    · show (List.range (qf.length + 1)).head? = some 0
      simp [List.range_succ_eq_map]
    · show (List.range (qf.length + 1)).Pairwise (· ≤ ·)
      exact List.pairwise_lt_range.imp (fun h => Nat.le_of_lt h)
  have hWF : (Leg.fromQflat M qf qc).WF := ⟨hsh, hv, hM, hq⟩
  have hs : (Leg.fromQflat M qf qc).sane = true := by
    unfold Leg.fromQflat
    apply C02.Leg.sane_fromQind
    · simp
    · simp [List.range_succ_eq_map]
    · exact hv
    · exact hq
  refine ⟨hWF, hs, ?_, ?_⟩
  · rw [hsh.indLen_eq_getD]
    show (List.range (qf.length + 1)).getD qf.length 0 = qf.length
    exact getD_range _ _ (by omega)
  · intro x hx
    have := hsh.toQflat_getD x x hx (by
      show (List.range (qf.length + 1)).getD x 0 ≤ x
      rw [getD_range _ _ (by omega)]; exact Nat.le_refl _) (by
      show x < (List.range (qf.length + 1)).getD (x + 1) 0
      rw [getD_range _ _ (by omega)]; omega)
    exact this

theorem WFP_permute {a b : ArrS} {perm : List Nat} {axis : Int} {k : Nat} (h : WFP a)
    (hk : a.legIndex axis = some k) (hshape : (a.legAt k).Shape)
    (hperm : perm.Perm (List.range (a.legAt k).indLen))
    (hb : a.permute perm axis = some b) : WFP b := by
  unfold ArrS.permute at hb
  simp only [hk] at hb
  split at hb
  · cases hb
  · rename_i hlen0
    have hlen : perm.length = (a.legAt k).indLen := by simpa using hlen0
    simp only [Option.some.injEq] at hb
    subst hb
    have hkl : k < a.legs.length := legIndex_lt hk
    have hok := h.legs_ok _ (List.getElem_mem hkl)
    have hold : a.legAt k = (a.legs[k]).leg := legAt_eq hkl
    generalize holdg : a.legAt k = old at *
    have hsane : old.sane = true := by rw [hold]; exact LegS.ok_sane hok.1
    have hmods : old.mods = a.mods := by rw [hold]; exact hok.2
    have hperm' : perm.Perm (List.range perm.length) := by rw [hlen]; exact hperm
    have hqfl : old.toQflat.length = old.indLen := hshape.toQflat_length
    -- the permuted flat charges
    have hv : ∀ c ∈ take? old.toQflat perm [], checkValid a.mods c = true := by
      intro c hc
      have : c ∈ old.toQflat := take?_subset _ _ _ (by
        intro q hq
        rw [hqfl]; exact List.mem_range.1 (hperm.mem_iff.1 hq)) c hc
      rw [← hmods]
      exact sane_valid hsane c (mem_toQflat this)
    obtain ⟨hFW, hFs, hFi, hFq⟩ := fromQflat_facts a.mods h.mods_pos (take? old.toQflat perm []) hv old.qconj
      (sane_qconj hsane)
    generalize hF : Leg.fromQflat a.mods (take? old.toQflat perm []) old.qconj = F at *
    have hNs := C06_bunch_sane F hFW hFs
    have hNq := C06_bunch_qflat F hFW hFs
    have hNm := bunch_mods_qconj F
    generalize hN : F.bunch.2 = N at *
    have hFm : F.mods = a.mods := by rw [← hF]; rfl
    have hFqc : F.qconj = old.qconj := by rw [← hF]; rfl
    have hnlen : (take? old.toQflat perm []).length = perm.length := take?_length _ _ _
    have hL : (LegS.plain N).ok = true := hNs.2
    have hLm : (LegS.plain N).leg.mods = a.mods := by show N.mods = a.mods; rw [hNm.1, hFm]
    obtain ⟨hne, hmS, hokS⟩ := legs_set_ok h k hL hLm
    -- one key
    have hkey : ∀ r ∈ a.qdata, ∀ d, d < old.slices.getD (r.getD k 0 + 1) 0 - old.slices.getD (r.getD k 0) 0 →
        ∀ qn, qn = (match N.getQindex ((inversePerm perm).getD (old.slices.getD (r.getD k 0) 0 + d) 0 : Nat) with
          | some (q, _) => q
          | none => 0) →
        rowInRange (a.legs.set k (.plain N)) (r.set k qn) = true ∧
          blockCharge a.mods (a.legs.set k (.plain N)) (r.set k qn) = a.qtotal := by
      intro r hr d hd qn hqn
      have h0 := h.rows_ok r hr
      have hrk := ((rowInRange_iff _ _).mp h0.1).2 k hkl
      have hrk' : r.getD k 0 < old.blockNumber := by rw [hold]; exact hrk
      -- the flat index
      have hle : old.slices.getD (r.getD k 0 + 1) 0 ≤ old.indLen := by
        rw [hshape.indLen_eq_getD]
        exact mono_getD _ hshape.mono _ _ (by omega) (by rw [hshape.len]; unfold Leg.blockNumber; omega)
      have hx : old.slices.getD (r.getD k 0) 0 + d < perm.length := by omega
      obtain ⟨i1, i2⟩ := inversePerm_spec perm hperm' _ hx
      generalize (inversePerm perm).getD (old.slices.getD (r.getD k 0) 0 + d) 0 = inew at *
      have hNi : N.indLen = perm.length := by rw [hNq.2.2, hFi, hnlen]
      rw [Leg.getQindex_nat N inew (by rw [hNi]; exact i1)] at hqn
      simp only at hqn
      obtain ⟨l1, l2, l3, _⟩ := Leg.locateQ_spec hNs.1.shape inew (by rw [hNi]; exact i1)
      rw [← hqn] at l1 l2 l3
      have hch : N.charges.getD qn [] = old.charges.getD (r.getD k 0) [] := by
        rw [← hNs.1.shape.toQflat_getD qn inew l1 l2 l3, hNq.1, hFq inew (by rw [hnlen]; exact i1),
          take?_getD _ _ _ _ i1, i2]
        exact hshape.toQflat_getD (r.getD k 0) _ hrk' (by omega) (by omega)
      have := row_set0 h.legs_ok hkl hL hLm h0.1 (q := qn) l1 (by
        show makeValid a.mods (cscale N.qconj (N.charges.getD qn [])) = _
        rw [hNm.2, hFqc, hch, ← hold]
        rfl)
      exact ⟨this.1, this.2.trans h0.2⟩
    refine ⟨hne, ?_, ?_, ?_, ?_, ?_, by intro hs; cases hs⟩
    · show ∀ m ∈ ArrS.modsOf (a.legs.set k (.plain N)), 1 ≤ m
      rw [hmS]; exact h.mods_pos
    · show ∀ l ∈ a.legs.set k (.plain N), l.ok = true ∧ l.leg.mods = ArrS.modsOf (a.legs.set k (.plain N))
      rw [hmS]; exact hokS
    · show checkValid (ArrS.modsOf (a.legs.set k (.plain N))) a.qtotal = true
      rw [hmS]; exact h.qtotal_valid
    · intro r' hr'
      show rowInRange (a.legs.set k (.plain N)) r' = true ∧
        blockCharge (ArrS.modsOf (a.legs.set k (.plain N))) (a.legs.set k (.plain N)) r' = a.qtotal
      rw [hmS]
      have hr'' : r' ∈ dedupKeep _ := hr'
      rw [mem_dedupKeep] at hr''
      obtain ⟨oq, _, hr''⟩ := List.mem_flatMap.1 hr''
      obtain ⟨r, hr, hr''⟩ := List.mem_flatMap.1 hr''
      obtain ⟨d, hd, rfl⟩ := List.mem_map.1 hr''
      simp only [List.mem_filter, beq_iff_eq] at hr
      obtain ⟨hra, hroq⟩ := hr
      subst hroq
      exact hkey r hra d (List.mem_range.1 hd) _ rfl
    · exact dedupKeep_nodup _

end TenpyModel.C02P2
