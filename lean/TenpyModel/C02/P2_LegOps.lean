import TenpyModel.C02.P2_Basic
/-!
# C02 / Props2 — leg-level operations lifted to tensors, rows kept:
`flip_charges_qconj` / `outer_conj` on one leg, `extend`, `gauge_total_charge`, and `add_leg`.
-/
namespace TenpyModel.C02P2
open TenpyModel.Core TenpyModel.C02

theorem getElem_of_getElem? {α} {l : List α} {k : Nat} {x : α} (h : l[k]? = some x) :
    ∃ hk : k < l.length, l[k] = x := List.getElem?_eq_some_iff.1 h

/-- δ = 0: same physical charges -/
theorem WFP_setLeg_keep0 {a : ArrS} (h : WFP a) {k : Nat} (hk : k < a.legs.length) {L : LegS} (hL : L.ok = true)
    (hLm : L.leg.mods = a.mods) (hbn : (a.legs[k]).blockNumber ≤ L.blockNumber)
    (hc : ∀ q, q < (a.legs[k]).blockNumber →
      makeValid a.mods (L.leg.getCharge q) = makeValid a.mods ((a.legs[k]).leg.getCharge q)) :
    WFP { a with legs := a.legs.set k L } := by
  have hq := C02.checkValid_length h.qtotal_valid
  have := WFP_setLeg_keep h hk hL hLm (czero a.mods.length) a.qtotal (czero_length _)
    (by rw [cadd_czero_right _ _ hq, C02.makeValid_of_checkValid _ _ h.qtotal_valid]) hbn (by
      intro q hq'
      have hok := h.legs_ok _ (List.getElem_mem hk)
      have hlen : ((a.legs[k]).leg.getCharge q).length = a.mods.length := by
        rw [← hok.2]; exact Leg.getCharge_length (LegS.ok_sane hok.1) hq'
      rw [cadd_czero_right _ _ hlen]; exact hc q hq')
  exact this

/-! ### flip -/

theorem getCharge_flip (l : Leg) (q : Nat) (hq : q < l.blockNumber) :
    makeValid l.mods (l.flipChargesQconj.getCharge q) = makeValid l.mods (l.getCharge q) := by
  unfold Leg.getCharge Leg.flipChargesQconj
  simp only
  rw [getD_map' _ _ q [] [] hq]
  exact Leg.flip_phys_charge l.mods l.qconj _

theorem Pipe_ok_outerConj {p : Pipe} (h : C02.Pipe.ok p = true) : C02.Pipe.ok p.outerConj = true := by
  unfold C02.Pipe.ok at *
  simp only [Bool.and_eq_true, List.all_eq_true, Bool.not_eq_true', beq_iff_eq, decide_eq_true_eq] at h
  obtain ⟨⟨⟨⟨⟨⟨h1, h2⟩, h3⟩, h4⟩, h5⟩, h6⟩, h7⟩ := h
  have hbn : p.outerConj.leg.blockNumber = p.leg.blockNumber := by
    simp [Pipe.outerConj, Leg.blockNumber]
  simp only [Bool.and_eq_true, List.all_eq_true, Bool.not_eq_true', beq_iff_eq, decide_eq_true_eq]
  refine ⟨⟨⟨⟨⟨⟨h1, h2⟩, ?_⟩, h4⟩, by rw [hbn]; exact h5⟩, h6⟩, by rw [hbn]; exact h7⟩
  intro row hrow
  have hr := h3 row hrow
  unfold pipeRowOk at hr ⊢
  simp only [Bool.and_eq_true, beq_iff_eq, decide_eq_true_eq] at hr ⊢
  obtain ⟨⟨⟨hr1, hr2⟩, hr3⟩, hr4⟩ := hr
  refine ⟨⟨⟨hr1, by rw [hbn]; exact hr2⟩, hr3⟩, ?_⟩
  show makeValid p.leg.mods (p.leg.flipChargesQconj.getCharge _) = blockCharge p.leg.mods (p.legs.map LegS.plain) _
  rw [← hr4]
  exact getCharge_flip p.leg _ hr2

theorem WFP_flipLeg {a b : ArrS} {k : Nat} (h : WFP a) (hb : a.flipLeg k = some b) : WFP b := by
  unfold ArrS.flipLeg at hb
  split at hb
  · cases hb
  · rename_i l hl
    obtain ⟨hk, hlk⟩ := getElem_of_getElem? hl
    have hok := h.legs_ok _ (List.getElem_mem hk)
    rw [hlk] at hok
    simp only [Option.some.injEq] at hb
    subst hb
    have hmp : ∀ m ∈ l.mods, 1 ≤ m := by
      have := hok.2; simp only [LegS.leg] at this; rw [this]; exact h.mods_pos
    apply WFP_setLeg_keep0 h hk (L := .plain l.flipChargesQconj)
    · exact flip_sane hok.1 hmp
    · exact hok.2
    · rw [hlk]; simp [LegS.blockNumber, LegS.leg, Leg.flipChargesQconj, Leg.blockNumber]
    · intro q hq
      rw [hlk] at hq ⊢
      have := hok.2; simp only [LegS.leg] at this
      rw [← this]
      exact getCharge_flip l q hq
  · rename_i p hl
    obtain ⟨hk, hlk⟩ := getElem_of_getElem? hl
    have hok := h.legs_ok _ (List.getElem_mem hk)
    rw [hlk] at hok
    simp only [Option.some.injEq] at hb
    subst hb
    have hok1 := hok.1
    simp only [LegS.ok, Bool.and_eq_true] at hok1
    have hmp : ∀ m ∈ p.leg.mods, 1 ≤ m := by
      have := hok.2; simp only [LegS.leg] at this; rw [this]; exact h.mods_pos
    apply WFP_setLeg_keep0 h hk (L := .pipe p.outerConj)
    · simp only [LegS.ok, Bool.and_eq_true]
      exact ⟨flip_sane hok1.1 hmp, Pipe_ok_outerConj hok1.2⟩
    · exact hok.2
    · rw [hlk]; simp [LegS.blockNumber, LegS.leg, Pipe.outerConj, Leg.blockNumber]
    · intro q hq
      rw [hlk] at hq ⊢
      have := hok.2; simp only [LegS.leg] at this
      rw [← this]
      exact getCharge_flip p.leg q hq

/-! ### extend -/

theorem extend_sane {l e : Leg} (hl : l.sane = true) (he : e.sane = true) (hm : e.mods = l.mods)
    (hpos : ∀ m ∈ l.mods, 1 ≤ m) : (l.extend e).sane = true := by
  have hv : ∀ c ∈ (l.extend e).charges, checkValid (l.extend e).mods c = true := by
    intro c hc
    have hc' : c ∈ l.charges ++
        (if l.qconj = e.qconj then e.charges else e.charges.map (fun c => makeValid l.mods (cneg c))) := hc
    show checkValid l.mods c = true
    rcases List.mem_append.1 hc' with hcl | hce
    · exact sane_valid hl c hcl
    · split at hce
      · rw [← hm]; exact sane_valid he c hce
      · obtain ⟨c0, hc0, rfl⟩ := List.mem_map.1 hce
        exact C02.checkValid_makeValid _ hpos _ (by
          rw [C02.cneg_length, ← hm]; exact C02.checkValid_length (sane_valid he c0 hc0))
  have hlen := sane_len hl
  have helen := sane_len he
  refine sane_mk ?_ ?_ hv (sane_qconj (l := l) hl) ?_
  · show (l.slices ++ e.slices.tail.map (· + l.indLen)).length = (l.charges ++ _).length + 1
    simp only [List.length_append, List.length_map, List.length_tail]
    unfold Leg.blockNumber at hlen helen
    split <;> (try simp only [List.length_map]) <;> omega
  · show (l.slices ++ e.slices.tail.map (· + l.indLen)).head? = some 0
    have := sane_head hl
    cases hs : l.slices with
    | nil => rw [hs] at this; cases this
    | cons x xs => rw [hs] at this; simpa using this
  · constructor
    · intro hs
      have h1 : (l.extend e).charges.length ≤ 1 := by
        have : decide ((l.extend e).charges.length ≤ 1) = true := hs
        simpa using this
      exact (Leg.flags_of_le_one _ (sane_cl0 hv) h1).1
    · intro hs
      have h1 : (l.extend e).charges.length ≤ 1 := by
        have : decide ((l.extend e).charges.length ≤ 1) = true := hs
        simpa using this
      exact (Leg.flags_of_le_one _ (sane_cl0 hv) h1).2

theorem getCharge_extend (l e : Leg) (q : Nat) (hq : q < l.blockNumber) : (l.extend e).getCharge q = l.getCharge q := by
  unfold Leg.getCharge
  show cscale l.qconj ((l.charges ++ _).getD q []) = _
  rw [getD_append_left' _ _ q [] hq]

theorem blockNumber_extend (l e : Leg) : l.blockNumber ≤ (l.extend e).blockNumber := by
  show l.charges.length ≤ (l.charges ++ _).length
  simp

theorem WFP_extend {a b : ArrS} {axis : Int} {extra : Leg} (h : WFP a) (he : extra.sane = true)
    (hem : extra.mods = a.mods) (hb : a.extend axis extra = some b) : WFP b := by
  unfold ArrS.extend at hb
  cases hax : a.legIndex axis with
  | none => simp [hax] at hb
  | some k =>
    simp only [hax, Option.some.injEq] at hb
    subst hb
    have hk : k < a.legs.length := legIndex_lt hax
    have hok := h.legs_ok _ (List.getElem_mem hk)
    rw [legAt_eq hk]
    have hmp : ∀ m ∈ (a.legs[k]).leg.mods, 1 ≤ m := by rw [hok.2]; exact h.mods_pos
    apply WFP_setLeg_keep0 h hk (L := .plain ((a.legs[k]).leg.extend extra))
    · exact extend_sane (LegS.ok_sane hok.1) he (by rw [hem, hok.2]) hmp
    · exact hok.2
    · exact blockNumber_extend _ _
    · intro q hq
      show makeValid a.mods (((a.legs[k]).leg.extend extra).getCharge q) = _
      rw [getCharge_extend _ _ q hq]

/-! ### gauge_total_charge -/

theorem cadd_cancel (n : Nat) (a b : Charge) (ha : a.length = n) (hb : b.length = n) :
    cadd a (cadd b (cneg a)) = b := by
  rw [C02.cadd_comm b, ← C02.cadd_assoc, cadd_cneg_self, ha, cadd_czero_left n b hb]

theorem cscale_pm_sq (q : Int) (hq : q = 1 ∨ q = -1) (c : Charge) : cscale q (cscale q c) = c := by
  rw [cscale_cscale]
  rcases hq with rfl | rfl <;> simp [cscale]

theorem gauge_charge (M : List Nat) (qc nqc : Int) (hqc : qc = 1 ∨ qc = -1) (hn : nqc = 1 ∨ nqc = -1)
    (c d : Charge) :
    makeValid M (cscale nqc (makeValid M (if qc ≠ nqc then cneg (cadd c (cscale qc d)) else cadd c (cscale qc d))))
      = makeValid M (cadd (cscale qc c) d) := by
  rw [makeValid_scale]
  congr 1
  split
  · rename_i hne
    have hnq : nqc = -qc := by omega
    rw [cneg_eq_cscale, cscale_cscale, cscale_cadd, cscale_cscale]
    have e1 : nqc * -1 = qc := by omega
    have e2 : qc * qc = 1 := by rcases hqc with rfl | rfl <;> rfl
    rw [e1, e2, cscale_one]
  · rename_i he
    have hnq : nqc = qc := by omega
    rw [hnq, cscale_cadd, cscale_pm_sq qc hqc]

theorem WFP_gauge {a b : ArrS} {axis : Int} {newq : Option Charge} {nqc : Option Int} (h : WFP a)
    (hq : ∀ q, newq = some q → q.length = a.mods.length)
    (hb : a.gaugeTotalCharge axis newq nqc = some b) : WFP b := by
  unfold ArrS.gaugeTotalCharge at hb
  cases hax : a.legIndex axis with
  | none => simp [hax] at hb
  | some k =>
    simp only [hax] at hb
    have hk : k < a.legs.length := legIndex_lt hax
    have hok := h.legs_ok _ (List.getElem_mem hk)
    have hsane := LegS.ok_sane hok.1
    rw [legAt_eq hk] at hb
    generalize hold : (a.legs[k]).leg = old at hb hok hsane
    split at hb
    · cases hb
    · rename_i hn0
      have hn : nqc.getD old.qconj = 1 ∨ nqc.getD old.qconj = -1 := by
        simp only [ne_eq, Bool.and_eq_true, decide_eq_true_eq, not_and, Decidable.not_not] at hn0
        by_cases h1 : nqc.getD old.qconj = 1
        · exact Or.inl h1
        · exact Or.inr (hn0 h1)
      simp only [Option.some.injEq] at hb
      subst hb
      generalize hnq : nqc.getD old.qconj = nq at hn
      have hqc := sane_qconj hsane
      have hqt := C02.checkValid_length h.qtotal_valid
      have hnl : (makeValid a.mods (newq.getD (czero a.mods.length))).length = a.mods.length := by
        rw [C02.makeValid_length]
        cases newq with
        | none => simp [czero_length]
        | some q => simp [hq q rfl]
      generalize hNQ : makeValid a.mods (newq.getD (czero a.mods.length)) = NQ at hnl
      have hNQv : makeValid a.mods NQ = NQ := by rw [← hNQ, C02.makeValid_idem]
      have hdl : (cadd NQ (cneg a.qtotal)).length = a.mods.length := by
        rw [C02.cadd_length, C02.cneg_length, hnl, hqt]; simp
      generalize hD : cadd NQ (cneg a.qtotal) = D at hdl
      -- the new charges
      have hch : ∀ (ch3 : List Charge), ch3 = (if old.qconj ≠ nq then
            (old.charges.map (fun c => cadd c (cscale old.qconj D))).map cneg
            else old.charges.map (fun c => cadd c (cscale old.qconj D))).map (makeValid a.mods) →
          ch3 = old.charges.map (fun c => makeValid a.mods
            (if old.qconj ≠ nq then cneg (cadd c (cscale old.qconj D)) else cadd c (cscale old.qconj D))) := by
        intro ch3 e
        rw [e]
        split <;> simp [List.map_map, Function.comp_def]
      generalize hch3 : (if old.qconj ≠ nq then
            (old.charges.map (fun c => cadd c (cscale old.qconj D))).map cneg
            else old.charges.map (fun c => cadd c (cscale old.qconj D))).map (makeValid a.mods) = ch3
      have hch3' := hch ch3 hch3.symm
      have hlen3 : ch3.length = old.charges.length := by rw [hch3']; simp
      have hL : (Leg.fromQind a.mods old.slices ch3 nq).sane = true := by
        apply C02.Leg.sane_fromQind
        · rw [hlen3]; exact sane_len hsane
        · exact sane_head hsane
        · intro c hc
          rw [hch3'] at hc
          obtain ⟨c0, hc0, rfl⟩ := List.mem_map.1 hc
          apply C02.checkValid_makeValid _ h.mods_pos
          have hc0l : c0.length = a.mods.length := by
            rw [← hok.2]; exact C02.checkValid_length (sane_valid hsane c0 hc0)
          split <;> simp [C02.cneg_length, C02.cadd_length, C02.cscale_length, hc0l, hdl]
        · exact hn
      have := WFP_setLeg_keep h hk (L := .plain (Leg.fromQind a.mods old.slices ch3 nq)) hL rfl D NQ hdl
        (by rw [← hD, cadd_cancel _ _ _ hqt hnl, hNQv])
        (by unfold LegS.blockNumber; rw [hold]; show old.charges.length ≤ ch3.length; omega)
        (by
          intro q hq'
          unfold LegS.blockNumber at hq'
          rw [hold] at hq' ⊢
          show makeValid a.mods (cscale nq (ch3.getD q [])) = makeValid a.mods (cadd (cscale old.qconj (old.charges.getD q [])) D)
          rw [hch3', getD_map' _ _ q [] [] hq']
          exact gauge_charge a.mods old.qconj nq hqc hn _ D)
      exact this

/-! ### add_leg -/

theorem csum_insertAt (n k : Nat) (c : Charge) (cs : List Charge) (hc : c.length = n) (h : ∀ c ∈ cs, c.length = n) :
    csum n (insertAt k c cs) = cadd c (csum n cs) := by
  unfold insertAt
  have h1 : ∀ c ∈ cs.take k, c.length = n := fun c hc => h c (List.mem_of_mem_take hc)
  have h2 : ∀ c ∈ cs.drop k, c.length = n := fun c hc => h c (List.mem_of_mem_drop hc)
  rw [csum_append n _ _ h1 (by intro d hd; rcases List.mem_cons.mp hd with rfl | hd; exact hc; exact h2 d hd),
    csum_cons n _ _ hc h2, ← C02.cadd_assoc, C02.cadd_comm _ c, C02.cadd_assoc, ← csum_append n _ _ h1 h2,
    List.take_append_drop]

/-- a new column with the same entry `qi` in every row; some rows may be dropped afterwards -/
theorem WFP_insertCol {a : ArrS} (h : WFP a) (pos qi : Nat) (L : LegS) (hL : L.ok = true) (hLm : L.leg.mods = a.mods)
    (hqi : qi < L.blockNumber) (rows' : List (List Nat)) (hsub : rows'.Sublist (a.qdata.map (insertAt pos qi)))
    (s : Bool) (hs : s = true → rows' = []) :
    WFP { legs := insertAt pos L a.legs, qtotal := makeValid a.mods (cadd a.qtotal (L.leg.getCharge qi)),
          qdata := rows', sorted := s } := by
  have hm : ArrS.modsOf (insertAt pos L a.legs) = a.mods := modsOf_insertAt pos _ a.legs h.rank_pos hLm
  have hok' : ∀ l ∈ insertAt pos L a.legs, l.ok = true ∧ l.leg.mods = a.mods := by
    intro l hl
    rcases mem_insertAt hl with rfl | hl
    · exact ⟨hL, hLm⟩
    · exact h.legs_ok l hl
  have hgl : (L.leg.getCharge qi).length = a.mods.length := by
    rw [← hLm]; exact Leg.getCharge_length (LegS.ok_sane hL) hqi
  refine ⟨?_, ?_, ?_, ?_, ?_, ?_, ?_⟩
  · intro e
    have := congrArg List.length e
    simp [insertAt_length] at this
  · show ∀ m ∈ ArrS.modsOf (insertAt pos L a.legs), 1 ≤ m
    rw [hm]; exact h.mods_pos
  · show ∀ l ∈ insertAt pos L a.legs, l.ok = true ∧ l.leg.mods = ArrS.modsOf (insertAt pos L a.legs)
    rw [hm]; exact hok'
  · show checkValid (ArrS.modsOf (insertAt pos L a.legs)) _ = true
    rw [hm]
    exact C02.checkValid_makeValid _ h.mods_pos _ (by
      rw [C02.cadd_length, C02.checkValid_length h.qtotal_valid, hgl]; simp)
  · intro r hr
    have hr' := hsub.subset hr
    simp only [List.mem_map] at hr'
    obtain ⟨r0, hr0, rfl⟩ := hr'
    have h0 := h.rows_ok r0 hr0
    have hlen := h.row_length hr0
    show rowInRange (insertAt pos L a.legs) (insertAt pos qi r0) = true ∧
      blockCharge (ArrS.modsOf (insertAt pos L a.legs)) (insertAt pos L a.legs) (insertAt pos qi r0) = _
    rw [hm]
    constructor
    · unfold rowInRange at *
      simp only [Bool.and_eq_true, beq_iff_eq, List.all_eq_true] at h0 ⊢
      refine ⟨by simp [insertAt_length, hlen], ?_⟩
      rw [zipWith_insertAt _ _ _ _ _ _ hlen.symm]
      intro b hb
      rcases mem_insertAt hb with rfl | hb
      · simpa using hqi
      · exact h0.1.2 b hb
    · rw [← h0.2]
      unfold blockCharge
      rw [rawCharge_eq, rawCharge_eq]
      unfold chList
      rw [zipWith_insertAt _ _ _ _ _ _ hlen.symm]
      have := csum_insertAt a.mods.length pos (L.leg.getCharge qi) (chList a.legs r0) hgl
        (chList_lengths h.legs_ok h0.1)
      unfold chList at this
      rw [this, C02.makeValid_add_left, C02.cadd_comm]
  · show rows'.Pairwise (· ≠ ·)
    refine List.Pairwise.sublist hsub ?_
    rw [List.pairwise_map]
    have := h.nodup
    rw [List.pairwise_iff_forall_sublist] at this ⊢
    intro x y hxy e
    have hx := h.row_length (hxy.subset (by simp : x ∈ [x, y]))
    have hy := h.row_length (hxy.subset (by simp : y ∈ [x, y]))
    exact this hxy (insertAt_inj pos qi x y (by rw [hx, hy]) e)
  · intro hs'
    show rows'.Pairwise _
    rw [hs hs']
    exact List.Pairwise.nil

theorem WFP_addLeg {a b : ArrS} {leg : LegS} {i axis : Int} {nz : List Bool} (h : WFP a) (hL : leg.ok = true)
    (hLm : leg.leg.mods = a.mods) (hb : a.addLeg leg i axis nz = some b) :
    WFP b ∧ ∀ qi w, leg.leg.getQindex i = some (qi, w) →
      b.qtotal = makeValid a.mods (cadd a.qtotal (leg.leg.getCharge qi)) := by
  unfold ArrS.addLeg at hb
  simp only at hb
  generalize (if axis < 0 then axis + (a.rank : Int) else axis) = ax at hb
  by_cases hc : (decide (ax < 0) || decide (ax > (a.rank : Int))) = true
  · rw [if_pos hc] at hb; cases hb
  · rw [if_neg hc] at hb
    cases hqi : leg.leg.getQindex i with
    | none => simp [hqi] at hb
    | some qw =>
      obtain ⟨qi, w⟩ := qw
      simp only [hqi] at hb
      have hlt := Leg.getQindex_lt (LegS.ok_sane hL) hqi
      generalize ax.toNat = pos at hb
      cases hz : zeros (insertAt pos leg a.legs) (some (cadd a.qtotal (leg.leg.getCharge qi))) with
      | none => simp [hz] at hb
      | some z =>
        simp only [hz, Option.some.injEq] at hb
        subst hb
        unfold zeros at hz
        split at hz
        · cases hz
        · simp only [Option.some.injEq] at hz
          subst hz
          have hm : ArrS.modsOf (insertAt pos leg a.legs) = a.mods := modsOf_insertAt pos _ a.legs h.rank_pos hLm
          have := WFP_insertCol h pos qi leg hL hLm hlt
            (((a.qdata.map (insertAt pos qi)).zip nz).filter (·.2) |>.map (·.1))
            (sublist_zipfilter _ _) (true && (a.qdata.map (insertAt pos qi)).isEmpty) (by
              intro hs
              have : a.qdata.map (insertAt pos qi) = [] := by simpa using hs
              rw [this]; rfl)
          refine ⟨by simpa [ArrS.reinsert, hm] using this, ?_⟩
          intro qi' w' h'
          cases h'
          simp [ArrS.reinsert, hm]

end TenpyModel.C02P2
