import TenpyModel.C02.P2_Project
/-!
# C02 / Props2 — `npc.concatenate`: the blocks of the `i`-th array are shifted by the number of blocks of the
preceding legs; the new leg lists all blocks; rows of different arrays differ in the concatenated column.
-/
namespace TenpyModel.C02P2
open TenpyModel.Core TenpyModel.C02

/-! ### offsets -/

def offsets : Nat → List Nat → List Nat
  | _, [] => []
  | s, n :: ns => s :: offsets (s + n) ns

theorem shifts_eq (ns : List Nat) (pre : List Nat) (s : Nat) :
    ns.foldl (fun (acc : List Nat × Nat) n => (acc.1 ++ [acc.2], acc.2 + n)) (pre, s) = (pre ++ offsets s ns, s + ns.sum) := by
  induction ns generalizing pre s with
  | nil => simp [offsets]
  | cons n ns ih =>
    simp only [List.foldl_cons, ih, offsets, List.sum_cons]
    simp [Nat.add_assoc]

theorem testEqual_refl (l : Leg) : l.testEqual l = true := by
  unfold Leg.testEqual Leg.eq?
  simp

theorem testEqual_symm {a b : Leg} (h : a.testEqual b = true) : b.testEqual a = true := by
  obtain ⟨h1, h2, h3⟩ := testEqual_unpack h
  unfold Leg.testEqual Leg.eq?
  simp [h1, h2, h3]

/-- charge of block `sh + q` of a leg whose charge list is `pre ++ seg ++ post` with `pre.length = sh` -/
theorem getD_segment {α} (pre seg post : List α) (q : Nat) (hq : q < seg.length) (d : α) :
    (pre ++ (seg ++ post)).getD (pre.length + q) d = seg.getD q d := by
  rw [getD_append_right' pre _ _ d]
  exact getD_append_left' seg post q d hq

/-! ### the concatenated leg -/

/-- the charges contributed by one leg -/
def segOf (M : List Nat) (qc0 : Int) (l : Leg) : List Charge :=
  if l.qconj = qc0 then l.charges else l.charges.map (fun c => makeValid M (cneg c))

theorem segOf_length (M : List Nat) (qc0 : Int) (l : Leg) : (segOf M qc0 l).length = l.blockNumber := by
  unfold segOf; split <;> simp [Leg.blockNumber]

theorem segOf_charge (M : List Nat) (qc0 : Int) (l : Leg) (hq0 : qc0 = 1 ∨ qc0 = -1) (hq : l.qconj = 1 ∨ l.qconj = -1)
    (q : Nat) (hlt : q < l.blockNumber) :
    makeValid M (cscale qc0 ((segOf M qc0 l).getD q [])) = makeValid M (l.getCharge q) := by
  unfold segOf Leg.getCharge
  split
  · rename_i he; rw [he]
  · rename_i hne
    have : qc0 = -l.qconj := by omega
    rw [getD_map' _ _ q [] [] hlt, this]
    exact Leg.flip_phys_charge M l.qconj _

/-- every `(leg, shift)` pair: the segment of the leg starts at `shift` in the concatenated charge list -/
theorem segments_spec (M : List Nat) (qc0 : Int) (ls : List Leg) (pre : List Charge) :
    ∀ p ∈ ls.zip (offsets pre.length (ls.map Leg.blockNumber)),
      p.2 + p.1.blockNumber ≤ pre.length + (ls.map Leg.blockNumber).sum ∧
      ∀ q, q < p.1.blockNumber →
        (pre ++ ls.flatMap (segOf M qc0)).getD (p.2 + q) [] = (segOf M qc0 p.1).getD q [] := by
  induction ls generalizing pre with
  | nil => intro p hp; simp at hp
  | cons l ls ih =>
    intro p hp
    simp only [List.map_cons, offsets, List.zip_cons_cons, List.mem_cons] at hp
    rcases hp with rfl | hp
    · refine ⟨by simp, ?_⟩
      intro q hq
      simp only [List.flatMap_cons]
      exact getD_segment pre _ _ q (by rw [segOf_length]; exact hq) []
    · have hl : (pre ++ segOf M qc0 l).length = pre.length + l.blockNumber := by simp [segOf_length]
      have := ih (pre ++ segOf M qc0 l) p (by rw [hl]; exact hp)
      refine ⟨by rw [hl] at this; simp only [List.map_cons, List.sum_cons]; omega, ?_⟩
      intro q hq
      simp only [List.flatMap_cons, ← List.append_assoc]
      exact this.2 q hq

theorem offsets_separated (ls : List Leg) (s : Nat) :
    (ls.zip (offsets s (ls.map Leg.blockNumber))).Pairwise (fun p p' => p.2 + p.1.blockNumber ≤ p'.2) ∧
    ∀ p ∈ ls.zip (offsets s (ls.map Leg.blockNumber)), s ≤ p.2 := by
  induction ls generalizing s with
  | nil => simp
  | cons l ls ih =>
    simp only [List.map_cons, offsets, List.zip_cons_cons, List.pairwise_cons, List.mem_cons]
    have := ih (s + l.blockNumber)
    refine ⟨⟨?_, this.1⟩, ?_⟩
    · intro p hp
      exact this.2 p hp
    · intro p hp
      rcases hp with rfl | hp
      · exact Nat.le_refl _
      · have := this.2 p hp; omega

theorem flatMap_blockSizes_length (ls : List Leg) (h : ∀ l ∈ ls, l.slices.length = l.blockNumber + 1) :
    (ls.flatMap Leg.blockSizes).length = (ls.map Leg.blockNumber).sum := by
  induction ls with
  | nil => rfl
  | cons l ls ih =>
    simp only [List.flatMap_cons, List.length_append, List.map_cons, List.sum_cons,
      ih (fun l' hl' => h l' (by simp [hl'])), sizes_len' (h l (by simp))]

theorem flatMap_segOf_length (M : List Nat) (qc0 : Int) (ls : List Leg) :
    (ls.flatMap (segOf M qc0)).length = (ls.map Leg.blockNumber).sum := by
  induction ls with
  | nil => rfl
  | cons l ls ih => simp only [List.flatMap_cons, List.length_append, List.map_cons, List.sum_cons, ih, segOf_length]

theorem concat_leg_sane (M : List Nat) (hM : ∀ m ∈ M, 1 ≤ m) (qc0 : Int) (hq0 : qc0 = 1 ∨ qc0 = -1) (ls : List Leg)
    (h : ∀ l ∈ ls, l.sane = true ∧ l.mods = M) :
    (Leg.fromQind M (slicesOfSizes (ls.flatMap Leg.blockSizes)) (ls.flatMap (segOf M qc0)) qc0).sane = true := by
  apply C02.Leg.sane_fromQind
  · rw [slicesOfSizes_length, flatMap_blockSizes_length ls (fun l hl => sane_len (h l hl).1), flatMap_segOf_length]
  · exact slicesOfSizes_head _
  · intro c hc
    obtain ⟨l, hl, hcl⟩ := List.mem_flatMap.1 hc
    have hs := h l hl
    unfold segOf at hcl
    split at hcl
    · rw [← hs.2]; exact sane_valid hs.1 c hcl
    · obtain ⟨c0, hc0, rfl⟩ := List.mem_map.1 hcl
      exact C02.checkValid_makeValid _ hM _ (by
        rw [C02.cneg_length, C02.checkValid_length (sane_valid hs.1 c0 hc0), hs.2])
  · exact hq0

/-! ### concatenate -/

theorem getD_set_col (r : List Nat) (k v : Nat) (hk : k < r.length) : (r.set k v).getD k 0 = v :=
  getD_set_self r k v 0 hk

theorem WFP_concatenate {arrs : List ArrS} {axis : Int} {b : ArrS} (h : ∀ a ∈ arrs, WFP a)
    (hmods : ∀ a ∈ arrs, ∀ a' ∈ arrs, a.mods = a'.mods)
    (hb : concatenate arrs axis = some b) : WFP b := by
  unfold concatenate at hb
  cases arrs with
  | nil => simp at hb
  | cons a0 rest =>
    simp only at hb
    cases hax : a0.legIndex axis with
    | none => simp [hax] at hb
    | some k =>
      simp only [hax] at hb
      split at hb
      · cases hb
      · rename_i hall0
        simp only [Bool.not_eq_true', Bool.not_eq_false] at hall0
        have hall : ∀ a ∈ a0 :: rest, a.rank = a0.rank ∧ a.qtotal = a0.qtotal ∧
            ∀ j, j < a0.rank → j ≠ k → (a.legAt j).testEqual (a0.legAt j) = true := by
          intro a ha
          have := List.all_eq_true.1 hall0 a ha
          simp only [Bool.and_eq_true, beq_iff_eq, List.all_eq_true, List.mem_range, Bool.or_eq_true] at this
          refine ⟨this.1.1, this.1.2, ?_⟩
          intro j hj hjk
          rcases this.2 j hj with e | e
          · exact absurd e hjk
          · exact e
        simp only [Option.some.injEq] at hb
        subst hb
        have h0 := h a0 (by simp)
        have hk : k < a0.legs.length := legIndex_lt hax
        have hmods' : ∀ a ∈ a0 :: rest, a.mods = a0.mods := by
          intro a ha; exact hmods a ha a0 (by simp)
        have h0mem : a0 ∈ a0 :: rest := by simp
        clear hmods hall0
        generalize a0 :: rest = arrs at *
        generalize hM : a0.mods = M at *
        generalize hqc : (a0.legAt k).qconj = qc0
        have hq0 : qc0 = 1 ∨ qc0 = -1 := by
          rw [← hqc, legAt_eq hk]
          exact sane_qconj (LegS.ok_sane (h0.legs_ok _ (List.getElem_mem hk)).1)
        generalize hls : arrs.map (fun a => a.legAt k) = ls
        have hrk : ∀ a ∈ arrs, k < a.legs.length := by
          intro a ha; have := (hall a ha).1; unfold ArrS.rank at this; omega
        have hlsok : ∀ l ∈ ls, l.sane = true ∧ l.mods = M := by
          intro l hl
          rw [← hls] at hl
          obtain ⟨a, ha, rfl⟩ := List.mem_map.1 hl
          have hka := hrk a ha
          rw [legAt_eq hka]
          have hok := (h a ha).legs_ok _ (List.getElem_mem hka)
          exact ⟨LegS.ok_sane hok.1, by rw [hok.2]; exact hmods' a ha⟩
        -- the new leg
        have hcharges : (ls.flatMap fun l => if l.qconj = qc0 then l.charges
            else l.charges.map (fun c => makeValid M (cneg c))) = ls.flatMap (segOf M qc0) := rfl
        rw [hcharges]
        generalize hL : Leg.fromQind M (slicesOfSizes (ls.flatMap Leg.blockSizes)) (ls.flatMap (segOf M qc0)) qc0 = L
        have hLs : L.sane = true := by rw [← hL]; exact concat_leg_sane M (hM ▸ h0.mods_pos) qc0 hq0 ls hlsok
        have hLm : L.mods = M := by rw [← hL]; rfl
        have hLc : L.charges = ls.flatMap (segOf M qc0) := by rw [← hL]; rfl
        have hLq : L.qconj = qc0 := by rw [← hL]; rfl
        have hLbn : L.blockNumber = (ls.map Leg.blockNumber).sum := by
          show L.charges.length = _
          rw [hLc, flatMap_segOf_length]
        have hLok : (LegS.plain L).ok = true := hLs
        obtain ⟨hne, hmS, hokS⟩ := legs_set_ok h0 k hLok (by rw [hM]; exact hLm)
        rw [hM] at hmS hokS
        -- shifts
        have hsh : ((ls.map Leg.blockNumber).foldl (fun (acc : List Nat × Nat) n => (acc.1 ++ [acc.2], acc.2 + n)) ([], 0)).1
            = offsets 0 (ls.map Leg.blockNumber) := by
          rw [shifts_eq]; simp
        rw [hsh]
        have hseg := segments_spec M qc0 ls []
        simp only [List.length_nil, Nat.zero_add, List.nil_append] at hseg
        have hsep := (offsets_separated ls 0).1
        -- pairs (array, shift) ↔ pairs (leg, shift)
        have hzip : ∀ p ∈ arrs.zip (offsets 0 (ls.map Leg.blockNumber)),
            p.1 ∈ arrs ∧ (p.1.legAt k, p.2) ∈ ls.zip (offsets 0 (ls.map Leg.blockNumber)) := by
          intro p hp
          refine ⟨(List.of_mem_zip hp).1, ?_⟩
          rw [← hls] at hp ⊢
          obtain ⟨i, hi, rfl⟩ := List.mem_iff_getElem.1 hp
          simp only [List.length_zip, List.length_map] at hi
          rw [List.mem_iff_getElem]
          refine ⟨i, by simp only [List.length_zip, List.length_map]; exact hi, ?_⟩
          simp
        -- one row of the result
        have hrow : ∀ p ∈ arrs.zip (offsets 0 (ls.map Leg.blockNumber)), ∀ r ∈ p.1.qdata,
            r.length = a0.legs.length ∧ r.getD k 0 < (p.1.legAt k).blockNumber ∧
            rowInRange (a0.legs.set k (.plain L)) (r.set k (r.getD k 0 + p.2)) = true ∧
            blockCharge M (a0.legs.set k (.plain L)) (r.set k (r.getD k 0 + p.2)) = a0.qtotal := by
          intro p hp r hr
          obtain ⟨hpa, hpl⟩ := hzip p hp
          have ha := h p.1 hpa
          have hka := hrk p.1 hpa
          obtain ⟨hrank, hqt, hte⟩ := hall p.1 hpa
          have hma : p.1.mods = M := hmods' p.1 hpa
          have hr0 := ha.rows_ok r hr
          rw [hma] at hr0
          have hrl := ha.row_length hr
          have hrank' : p.1.legs.length = a0.legs.length := hrank
          have hqlt : r.getD k 0 < (p.1.legAt k).blockNumber := by
            have := ((rowInRange_iff _ _).mp hr0.1).2 k hka
            rw [legAt_eq hka]; exact this
          -- step 1: legs of `a0` with leg `k` of this array
          have hokA : ∀ l ∈ p.1.legs, l.ok = true ∧ l.leg.mods = M := by
            intro l hl; rw [← hma]; exact ha.legs_ok l hl
          have hok0 : ∀ l ∈ a0.legs, l.ok = true ∧ l.leg.mods = M := by
            intro l hl; rw [← hM]; exact h0.legs_ok l hl
          have hokla : ∀ l ∈ a0.legs.set k (p.1.legs[k]), l.ok = true ∧ l.leg.mods = M := by
            intro l hl
            rcases mem_set hl with rfl | hl
            · exact hokA _ (List.getElem_mem hka)
            · exact hok0 l hl
          have htr := row_transport (la := a0.legs.set k (p.1.legs[k])) (lo := p.1.legs) hokla hokA
            (by simp [hrank']) (by
              intro i h1 h2
              simp only [List.length_set] at h1
              by_cases hik : k = i
              · subst hik; simp [testEqual_refl]
              · simp only [List.getElem_set, hik, ↓reduceIte]
                have := hte i h1 (fun e => hik e.symm)
                rw [legAt_eq h2, legAt_eq h1] at this
                exact testEqual_symm this) hr0.1
          -- step 2: replace leg `k` by the concatenated leg
          have hspec := hseg _ hpl
          have hset := row_set0 hokla (k := k) (by simp [hk]) hLok hLm htr.1 (q := r.getD k 0 + p.2) (by
            show _ < L.blockNumber
            rw [hLbn]; have := hspec.1; simp only at this; omega) (by
            show makeValid M (cscale L.qconj (L.charges.getD _ [])) = _
            have hget : (a0.legs.set k (p.1.legs[k]))[k]'(by simp [hk]) = p.1.legs[k] := by simp
            rw [hget, hLq, hLc, Nat.add_comm, hspec.2 _ hqlt, ← legAt_eq hka]
            have hsl := hlsok (p.1.legAt k) (List.of_mem_zip hpl).1
            exact segOf_charge M qc0 _ hq0 (sane_qconj hsl.1) _ hqlt)
          rw [List.set_set] at hset
          refine ⟨by rw [hrl, hrank'], hqlt, hset.1, ?_⟩
          rw [hset.2, htr.2, hr0.2, hqt]
        refine ⟨hne, ?_, ?_, ?_, ?_, ?_, by intro hs; cases hs⟩
        · show ∀ m ∈ ArrS.modsOf (a0.legs.set k (.plain L)), 1 ≤ m
          rw [hmS, ← hM]; exact h0.mods_pos
        · show ∀ l ∈ a0.legs.set k (.plain L), l.ok = true ∧ l.leg.mods = ArrS.modsOf (a0.legs.set k (.plain L))
          rw [hmS]; exact hokS
        · show checkValid (ArrS.modsOf (a0.legs.set k (.plain L))) a0.qtotal = true
          rw [hmS, ← hM]; exact h0.qtotal_valid
        · intro r' hr'
          obtain ⟨p, hp, hr'⟩ := List.mem_flatMap.1 hr'
          obtain ⟨r, hr, rfl⟩ := List.mem_map.1 hr'
          show rowInRange (a0.legs.set k (.plain L)) _ = true ∧
            blockCharge (ArrS.modsOf (a0.legs.set k (.plain L))) (a0.legs.set k (.plain L)) _ = a0.qtotal
          rw [hmS]
          exact (hrow p hp r hr).2.2
        · show ((arrs.zip (offsets 0 (ls.map Leg.blockNumber))).flatMap
            (fun as => as.1.qdata.map (fun r => r.set k (r.getD k 0 + as.2)))).Pairwise (· ≠ ·)
          rw [List.pairwise_flatMap]
          constructor
          · intro p hp
            have hpa := (hzip p hp).1
            have ha := h p.1 hpa
            have hka := hrk p.1 hpa
            exact (pairwise_set_mono (rows := p.1.qdata) (n := p.1.legs.length) hka (fun r hr => ha.row_length hr)
              (fun q => q + p.2) (by intro x _ y _; omega)).1 ha.nodup
          · -- different arrays: the concatenated column separates the rows
            have hsepA : (arrs.zip (offsets 0 (ls.map Leg.blockNumber))).Pairwise
                (fun p p' => p.2 + (p.1.legAt k).blockNumber ≤ p'.2) := by
              rw [← hls] at hsep ⊢
              rw [List.pairwise_iff_getElem] at hsep ⊢
              intro i j hi hj hij
              simp only [List.length_zip, List.length_map] at hi hj
              have := hsep i j (by simp only [List.length_zip, List.length_map]; exact hi)
                (by simp only [List.length_zip, List.length_map]; exact hj) hij
              simpa using this
            rw [List.pairwise_iff_forall_sublist] at hsepA ⊢
            intro p p' hpp x hx y hy e
            obtain ⟨r, hr, rfl⟩ := List.mem_map.1 hx
            obtain ⟨r', hr', rfl⟩ := List.mem_map.1 hy
            have hp := hpp.subset (by simp : p ∈ [p, p'])
            have hp' := hpp.subset (by simp : p' ∈ [p, p'])
            have f1 := hrow p hp r hr
            have f2 := hrow p' hp' r' hr'
            have hs := hsepA hpp
            have := congrArg (fun l => l.getD k 0) e
            rw [getD_set_col r k _ (by rw [f1.1]; exact hk), getD_set_col r' k _ (by rw [f2.1]; exact hk)] at this
            have := f1.2.1
            omega

end TenpyModel.C02P2
