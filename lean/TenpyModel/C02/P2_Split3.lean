import TenpyModel.C02.P2_Split2
/-!
# C02 / Props2 — `split_legs` assembled.
-/
namespace TenpyModel.C02P2
open TenpyModel.Core TenpyModel.C02

theorem WFP_mk {legs : List LegS} {M : List Nat} {qt : Charge} (hne : legs ≠ []) (hM : ∀ m ∈ M, 1 ≤ m)
    (hok : ∀ l ∈ legs, l.ok = true ∧ l.leg.mods = M) (hqt : checkValid M qt = true) (rows : List (List Nat))
    (hrows : ∀ r ∈ rows, rowInRange legs r = true ∧ blockCharge M legs r = qt)
    (hnd : rows.Pairwise (· ≠ ·)) (s : Bool) (hs : s = true → rows.Pairwise (fun x y => rowLE x y = true)) :
    WFP { legs := legs, qtotal := qt, qdata := rows, sorted := s } := by
  have hm : ArrS.modsOf legs = M := modsOf_eq_of_mem hne (fun l hl => (hok l hl).2)
  refine ⟨hne, ?_, ?_, ?_, ?_, hnd, hs⟩
  · show ∀ m ∈ ArrS.modsOf legs, 1 ≤ m
    rw [hm]; exact hM
  · show ∀ l ∈ legs, l.ok = true ∧ l.leg.mods = ArrS.modsOf legs
    rw [hm]; exact hok
  · show checkValid (ArrS.modsOf legs) qt = true
    rw [hm]; exact hqt
  · intro r hr
    show rowInRange legs r = true ∧ blockCharge (ArrS.modsOf legs) legs r = qt
    rw [hm]; exact hrows r hr

/-- the ranges of `q_map` rows of the sectors addressed by row `r` -/
def rngOf (a : ArrS) (axes : List Nat) (r : List Nat) : List (Nat × Nat) :=
  axes.map (fun k => ((pipeAt a k).qMapSlices.getD (r.getD k 0) 0, (pipeAt a k).qMapSlices.getD (r.getD k 0 + 1) 0))

theorem secOK_of_rangesC {a : ArrS} {axes : List Nat} {r q : List Nat} (hq : q ∈ ArrS.rangesC (rngOf a axes r)) :
    SecOK a axes r q ∧ q.length = axes.length := by
  have hin := mem_rangesC hq
  refine ⟨?_, by simpa [rngOf] using hin.length_eq⟩
  intro k hk
  have hi := List.idxOf_lt_length_of_mem hk
  have := hin.getD (axes.idxOf k) (by simpa [rngOf] using hi)
  unfold rngOf at this
  rw [getD_map' _ _ _ 0 (0, 0) hi, keep_getD_idxOf axes k hk] at this
  exact this

theorem getD_map_const {α} (l : List α) (i : Nat) : (l.map (fun _ => 0)).getD i 0 = 0 := by
  by_cases hi : i < l.length
  · rw [getD_map' _ _ i (l[i]) 0 hi]
  · rw [getD_ge _ _ _ (by simpa using hi)]

theorem WFP_splitLegs {a b : ArrS} {axes : Option (List Int)} (h : WFP a)
    (hsecs : ∀ p, LegS.pipe p ∈ a.legs → ∀ I, I < p.leg.blockNumber →
      p.qMapSlices.getD I 0 < p.qMapSlices.getD (I + 1) 0)
    (hb : a.splitLegs axes = some b) : WFP b := by
  unfold ArrS.splitLegs at hb
  simp only at hb
  split at hb
  · cases hb
  · rename_i axn _
    split at hb
    · cases hb
    · rename_i hc
      simp only [Bool.or_eq_true, Bool.not_eq_true', decide_eq_false_iff_not, List.any_eq_true, not_or,
        Decidable.not_not, not_exists, not_and, Bool.not_eq_false] at hc
      obtain ⟨hnd, hax⟩ := hc
      split at hb
      · cases hb; exact h
      · have hpos : 0 < a.legs.length := List.length_pos_iff.mpr h.rank_pos
        have hneL : (List.range a.rank).flatMap (LSof a axn) ≠ [] := by
          intro e
          have h0 := (LS_ok h axn hax 0 hpos).1
          obtain ⟨l, hl⟩ := List.exists_mem_of_ne_nil _ h0
          have : l ∈ (List.range a.rank).flatMap (LSof a axn) :=
            List.mem_flatMap.2 ⟨0, List.mem_range.2 hpos, hl⟩
          rw [e] at this; cases this
        have hokL : ∀ l ∈ (List.range a.rank).flatMap (LSof a axn), l.ok = true ∧ l.leg.mods = a.mods := by
          intro l hl
          obtain ⟨k, hk, hlk⟩ := List.mem_flatMap.1 hl
          exact (LS_ok h axn hax k (List.mem_range.1 hk)).2 l hlk
        split at hb
        · -- no blocks
          rename_i hq
          simp only [Option.some.injEq] at hb
          subst hb
          show WFP { legs := (List.range a.rank).flatMap (LSof a axn), qtotal := a.qtotal, qdata := a.qdata,
                     sorted := a.sorted }
          rw [hq]
          exact WFP_mk hneL h.mods_pos hokL h.qtotal_valid [] (by simp) List.Pairwise.nil _ (fun _ => List.Pairwise.nil)
        · split at hb
          · -- one block, one row in every `q_map`
            rename_i hfast
            simp only [Bool.and_eq_true, beq_iff_eq, List.all_eq_true, List.mem_map, forall_exists_index, and_imp,
              forall_apply_eq_imp_iff₂] at hfast
            obtain ⟨hlen1, hq1⟩ := hfast
            simp only [Option.some.injEq] at hb
            subst hb
            show WFP { legs := (List.range a.rank).flatMap (LSof a axn), qtotal := a.qtotal,
                       qdata := a.qdata.map (fun r => (List.range a.rank).flatMap (RSof a axn r (axn.map (fun _ => 0)))),
                       sorted := a.sorted }
            match hqd : a.qdata, hlen1 with
            | [r], _ =>
              have hr : r ∈ a.qdata := by rw [hqd]; simp
              have hsec : SecOK a axn r (axn.map (fun _ => 0)) := by
                intro k hk
                obtain ⟨hkl, hlk, hP, _⟩ := pipe_facts h (hax k hk)
                have hbk := ((rowInRange_iff _ _).mp (h.rows_ok r hr).1).2 k hkl
                rw [hlk] at hbk
                have h1 := hsecs (pipeAt a k) (by rw [← hlk]; exact List.getElem_mem hkl) _ hbk
                have h2 := (hP.sector _ hbk).1.2
                have h3 : (pipeAt a k).qMap.length = 1 := hq1 k hk
                rw [getD_map_const]
                omega
              apply WFP_mk hneL h.mods_pos hokL h.qtotal_valid
              · intro r' hr'
                simp only [List.map_cons, List.map_nil, List.mem_singleton] at hr'
                subst hr'
                exact split_row_ok h axn hax hr _ hsec
              · simp
              · intro _; simp
          · -- general branch
            simp only [Option.some.injEq] at hb
            subst hb
            show WFP { legs := (List.range a.rank).flatMap (LSof a axn), qtotal := a.qtotal,
                       qdata := a.qdata.flatMap (fun r => (ArrS.rangesC (rngOf a axn r)).map
                         (fun qrows => (List.range a.rank).flatMap (RSof a axn r qrows))),
                       sorted := false }
            apply WFP_mk hneL h.mods_pos hokL h.qtotal_valid
            · intro r' hr'
              obtain ⟨r, hr, hr'⟩ := List.mem_flatMap.1 hr'
              obtain ⟨q, hq, rfl⟩ := List.mem_map.1 hr'
              exact split_row_ok h axn hax hr q (secOK_of_rangesC hq).1
            · rw [List.pairwise_flatMap]
              -- equal result rows come from the same block and the same choice of `q_map` rows
              have key : ∀ r ∈ a.qdata, ∀ r' ∈ a.qdata, ∀ q ∈ ArrS.rangesC (rngOf a axn r),
                  ∀ q' ∈ ArrS.rangesC (rngOf a axn r'),
                  (List.range a.rank).flatMap (RSof a axn r q) = (List.range a.rank).flatMap (RSof a axn r' q') →
                  r = r' ∧ q = q' := by
                intro r hr r' hr' q hq q' hq' e
                obtain ⟨s1, l1⟩ := secOK_of_rangesC hq
                obtain ⟨s2, l2⟩ := secOK_of_rangesC hq'
                obtain ⟨e1, e2⟩ := split_row_inj h axn hax hr hr' q q' s1 s2 e
                refine ⟨e1, ?_⟩
                apply List.ext_getElem (by rw [l1, l2])
                intro i h1 h2
                have hi : i < axn.length := by omega
                have := e2 axn[i] (List.getElem_mem hi)
                have hidx : axn.idxOf axn[i] = i := List.Nodup.idxOf_getElem hnd i hi
                rw [hidx] at this
                simpa [List.getD, h1, h2] using this
              constructor
              · intro r hr
                rw [List.pairwise_map]
                refine (rangesC_nodup _).imp_of_mem ?_
                intro q q' hq hq' hne e
                exact hne (key r hr r hr q hq q' hq' e).2
              · have hnq := h.nodup
                rw [List.pairwise_iff_forall_sublist] at hnq ⊢
                intro r r' hs x hx y hy e
                obtain ⟨q, hq, rfl⟩ := List.mem_map.1 hx
                obtain ⟨q', hq', rfl⟩ := List.mem_map.1 hy
                exact hnq hs (key r (hs.subset (by simp)) r' (hs.subset (by simp)) q hq q' hq' e).1
            · intro hs; cases hs

end TenpyModel.C02P2
