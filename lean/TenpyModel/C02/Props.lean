import TenpyModel.C02.ColLemmas
/-!
# C02 — `WF` (= `Array.test_sanity()` + truthful `_qdata_sorted` + pairwise distinct rows) is preserved.
Part 1: constructors, copies, row-level in-place methods, transposition, conj, take_slice, add_trivial_leg,
element assignment. Theorems at root namespace `C02_*`.
-/
open TenpyModel.Core TenpyModel.C02

namespace TenpyModel.C02

theorem sublist_zipfilter {α} (l : List α) (k : List Bool) : ((l.zip k).filter (·.2)).map (·.1) |>.Sublist l := by
  induction l generalizing k with
  | nil => simp
  | cons x xs ih =>
    cases k with
    | nil => simp
    | cons b bs =>
      simp only [List.zip_cons_cons, List.filter_cons]
      cases b
      · simpa using (ih bs).trans (List.sublist_cons_self x xs)
      · simpa using (ih bs)

/-- same legs and qtotal, rows taken from the rows of `a` -/
theorem WFP_of_rows_subset {a b : ArrS} (h : WFP a) (hl : b.legs = a.legs) (hq : b.qtotal = a.qtotal)
    (hsub : ∀ r ∈ b.qdata, r ∈ a.qdata) (hn : b.qdata.Pairwise (· ≠ ·))
    (hs : b.sorted = true → b.qdata.Pairwise (fun x y => rowLE x y = true)) : WFP b := by
  have hm : b.mods = a.mods := by unfold ArrS.mods; rw [hl]
  exact ⟨hl ▸ h.rank_pos, hm ▸ h.mods_pos, by rw [hl, hm]; exact h.legs_ok, by rw [hm, hq]; exact h.qtotal_valid,
    by intro r hr; rw [hl, hm, hq]; exact h.rows_ok r (hsub r hr), hn, hs⟩

theorem rowInRange_iff (legs : List LegS) (r : List Nat) :
    rowInRange legs r = true ↔
      r.length = legs.length ∧ ∀ i (hi : i < legs.length), r.getD i 0 < (legs[i]).blockNumber := by
  unfold rowInRange
  simp only [Bool.and_eq_true, beq_iff_eq, List.all_eq_true]
  constructor
  · rintro ⟨hl, h⟩
    refine ⟨hl, ?_⟩
    induction legs generalizing r with
    | nil => intro i hi; simp at hi
    | cons l legs ih =>
      cases r with
      | nil => simp at hl
      | cons q r =>
        intro i hi
        simp only [List.zipWith_cons_cons, List.mem_cons, id_eq, forall_eq_or_imp, decide_eq_true_eq] at h
        cases i with
        | zero => simpa using h.1
        | succ i => simpa using ih r (by simpa using hl) h.2 i (by simpa using hi)
  · rintro ⟨hl, h⟩
    refine ⟨hl, ?_⟩
    induction legs generalizing r with
    | nil => simp
    | cons l legs ih =>
      cases r with
      | nil => simp at hl
      | cons q r =>
        simp only [List.zipWith_cons_cons, List.mem_cons, id_eq, forall_eq_or_imp, decide_eq_true_eq]
        refine ⟨?_, ih r (by simpa using hl) ?_⟩
        · have := h 0 (by simp)
          simpa using this
        · intro i hi
          have := h (i + 1) (by simpa using hi)
          simpa using this

theorem WFP.row_length {a : ArrS} (h : WFP a) {r : List Nat} (hr : r ∈ a.qdata) : r.length = a.legs.length :=
  ((rowInRange_iff _ _).mp (h.rows_ok r hr).1).1

end TenpyModel.C02

/-! ## copies and row-level in-place methods -/

theorem C02_WF_copy (a : ArrS) (h : a.WF) : a.copy.WF := h

theorem C02_WF_zerosLike (a : ArrS) (h : a.WF) : a.zerosLike.WF := by
  rw [WF_iff] at *
  exact WFP_of_rows_subset h rfl rfl (by simp [ArrS.zerosLike]) (by simp [ArrS.zerosLike]) (by simp [ArrS.zerosLike])

/-- `iscale_prefactor`: a zero prefactor drops all blocks and may claim sortedness of the empty list -/
theorem C02_WF_iscalePrefactor (a : ArrS) (z : Bool) (h : a.WF) : (a.iscalePrefactor z).WF := by
  unfold ArrS.iscalePrefactor
  split
  · exact C02_WF_zerosLike a h
  · exact h

/-- `ipurge_zeros` keeps a sub-list of the rows in their order: the flag may be kept -/
theorem C02_WF_ipurgeZeros (a : ArrS) (keep : List Bool) (h : a.WF) : (a.ipurgeZeros keep).WF := by
  unfold ArrS.ipurgeZeros
  split
  · exact h
  · rw [WF_iff] at *
    have hsub := sublist_zipfilter a.qdata keep
    exact WFP_of_rows_subset h rfl rfl (fun r hr => hsub.subset hr) (h.nodup.sublist hsub)
      (fun hs => (h.sorted_ok hs).sublist hsub)

/-- `isort_qdata`: the early exit trusts the flag; otherwise the rows are lexsorted and the flag is set -/
theorem C02_WF_isortQdata (a : ArrS) (h : a.WF) : a.isortQdata.WF := by
  unfold ArrS.isortQdata
  split
  · exact h
  · rw [WF_iff] at *
    split
    · rename_i hlen
      refine WFP_of_rows_subset h rfl rfl (fun r hr => hr) h.nodup (fun _ => ?_)
      match hq : a.qdata, hlen with
      | [], _ => exact List.Pairwise.nil
      | [x], _ => exact List.pairwise_singleton _ _
      | _ :: _ :: _, hlen => simp at hlen; omega
    · have hp := sortRows_perm a.qdata
      refine WFP_of_rows_subset h rfl rfl (fun r hr => hp.mem_iff.mp hr) ?_ (fun _ => ?_)
      · exact (hp.pairwise_iff (fun hab => Ne.symm hab)).mpr h.nodup
      · exact sortRows_sorted a.qdata a.legs.length (fun r hr => h.row_length hr)

/-- non-vacuity witness used by several examples: a U(1) matrix with two stored blocks in the wrong order -/
def TenpyModel.C02.exA : ArrS :=
  { legs := [.plain (Leg.fromQflat [1] [[0], [1]] 1), .plain (Leg.fromQflat [1] [[0], [1]] (-1))]
    qtotal := [0]
    qdata := [[1, 1], [0, 0]]
    sorted := false }

example : exA.WF ∧ exA.isortQdata.qdata = [[0, 0], [1, 1]] ∧ exA.isortQdata.sorted = true := by decide

/-! ## the charge rule: helpers -/
namespace TenpyModel.C02

/-- per-column charges of a row -/
def chList (legs : List LegS) (r : List Nat) : List Charge :=
  List.zipWith (fun (l : LegS) q => l.leg.getCharge q) legs r

theorem rawCharge_eq (qn : Nat) (legs : List LegS) (r : List Nat) : rawCharge qn legs r = csum qn (chList legs r) := rfl

theorem LegS.ok_sane {l : LegS} (h : l.ok = true) : l.leg.sane = true := by
  cases l with
  | plain l => exact h
  | pipe p => simp only [LegS.ok, Bool.and_eq_true] at h; exact h.1

theorem Leg.sane_charges {l : Leg} (h : l.sane = true) : ∀ c ∈ l.charges, checkValid l.mods c = true := by
  unfold Leg.sane at h
  simp only [Bool.and_eq_true, List.all_eq_true] at h
  exact h.1.1.1.2

theorem Leg.getCharge_length {l : Leg} (h : l.sane = true) {q : Nat} (hq : q < l.blockNumber) :
    (l.getCharge q).length = l.mods.length := by
  unfold Leg.getCharge
  rw [cscale_length]
  unfold Leg.blockNumber at hq
  have : l.charges.getD q [] = l.charges[q] := by simp [List.getD, hq]
  rw [this]
  exact checkValid_length (Leg.sane_charges h _ (List.getElem_mem hq))

theorem chList_lengths {legs : List LegS} {M : List Nat} (hok : ∀ l ∈ legs, l.ok = true ∧ l.leg.mods = M)
    {r : List Nat} (hr : rowInRange legs r = true) : ∀ c ∈ chList legs r, c.length = M.length := by
  rw [rowInRange_iff] at hr
  obtain ⟨hl, hlt⟩ := hr
  intro c hc
  unfold chList at hc
  rw [List.mem_iff_getElem] at hc
  obtain ⟨i, hi, rfl⟩ := hc
  simp only [List.length_zipWith] at hi
  have hi1 : i < legs.length := by omega
  have hi2 : i < r.length := by omega
  simp only [List.getElem_zipWith]
  have hlm := hok legs[i] (List.getElem_mem hi1)
  rw [← hlm.2]
  apply Leg.getCharge_length (LegS.ok_sane hlm.1)
  have := hlt i hi1
  simpa [List.getD, hi2, LegS.blockNumber] using this

theorem modsOf_eq_of_mem {legs : List LegS} {M : List Nat} (hne : legs ≠ []) (h : ∀ l ∈ legs, l.leg.mods = M) :
    ArrS.modsOf legs = M := by
  cases legs with
  | nil => exact absurd rfl hne
  | cons l ls => exact h l (by simp)

end TenpyModel.C02
namespace TenpyModel.C02

theorem Leg.sane_conj {l : Leg} (h : l.sane = true) : l.conj.sane = true := by
  unfold Leg.sane at *
  simp only [Leg.conj, Leg.blockNumber, Leg.isSorted, Leg.isBunched, Leg.qnumber, Bool.and_eq_true, Bool.or_eq_true,
    beq_iff_eq] at *
  refine ⟨⟨⟨⟨h.1.1.1.1, h.1.1.1.2⟩, ?_⟩, h.1.2⟩, h.2⟩
  rcases h.1.1.2 with h1 | h1
  · right; omega
  · left; omega

theorem getCharge_conj (l : Leg) (q : Nat) : l.conj.getCharge q = cneg (l.getCharge q) := by
  simp [Leg.getCharge, Leg.conj, cscale, cneg, Int.neg_mul]

theorem LegS.conj_leg (l : LegS) : l.conj.leg = l.leg.conj := by cases l <;> rfl

theorem chList_conj (legs : List LegS) (r : List Nat) : chList (legs.map LegS.conj) r = (chList legs r).map cneg := by
  unfold chList
  induction legs generalizing r with
  | nil => simp
  | cons l legs ih =>
    cases r with
    | nil => simp
    | cons q r => simp [ih, LegS.conj_leg, getCharge_conj]

theorem rowInRange_conj (legs : List LegS) (r : List Nat) : rowInRange (legs.map LegS.conj) r = rowInRange legs r := by
  unfold rowInRange
  congr 1
  · simp
  · congr 1
    induction legs generalizing r with
    | nil => simp
    | cons l legs ih =>
      cases r with
      | nil => simp
      | cons q r =>
        simp only [List.map_cons, List.zipWith_cons_cons, ih]
        congr 2
        cases l <;> rfl

/-- charge rule under conjugation of all legs -/
theorem blockCharge_conj {legs : List LegS} {M : List Nat} (hok : ∀ l ∈ legs, l.ok = true ∧ l.leg.mods = M)
    {r : List Nat} (hr : rowInRange legs r = true) :
    blockCharge M (legs.map LegS.conj) r = makeValid M (cneg (blockCharge M legs r)) := by
  unfold blockCharge
  rw [rawCharge_eq, rawCharge_eq, chList_conj, csum_map_cneg _ _ (chList_lengths hok hr), makeValid_neg]

theorem makeValid_congr_neg {M : List Nat} {x y : Charge} (h : makeValid M x = makeValid M y) :
    makeValid M (cneg x) = makeValid M (cneg y) := by
  rw [← makeValid_neg M x, h, makeValid_neg]

theorem Pipe.ok_conj {p : Pipe} (hs : p.leg.sane = true) (h : Pipe.ok p = true) : Pipe.ok p.conj = true := by
  unfold Pipe.ok at *
  simp only [Bool.and_eq_true, List.all_eq_true, Bool.not_eq_true', beq_iff_eq, decide_eq_true_eq] at h
  obtain ⟨⟨⟨⟨⟨⟨h1, h2⟩, h3⟩, h4⟩, h5⟩, h6⟩, h7⟩ := h
  have hlegs : (p.conj.legs.map LegS.plain) = (p.legs.map LegS.plain).map LegS.conj := by
    simp [Pipe.conj, List.map_map, Function.comp_def, LegS.conj]
  have hok : ∀ l ∈ p.legs.map LegS.plain, l.ok = true ∧ l.leg.mods = p.leg.mods := by
    intro l hl
    obtain ⟨l0, hl0, rfl⟩ := List.mem_map.mp hl
    exact ⟨(h2 l0 hl0).1, (h2 l0 hl0).2⟩
  simp only [Bool.and_eq_true, List.all_eq_true, Bool.not_eq_true', beq_iff_eq, decide_eq_true_eq]
  refine ⟨⟨⟨⟨⟨⟨?_, ?_⟩, ?_⟩, h4⟩, h5⟩, h6⟩, h7⟩
  · simpa [Pipe.conj] using h1
  · intro l hl
    simp only [Pipe.conj, List.mem_map] at hl
    obtain ⟨l0, hl0, rfl⟩ := hl
    exact ⟨Leg.sane_conj (h2 l0 hl0).1, (h2 l0 hl0).2⟩
  · intro row hrow
    have hr := h3 row hrow
    unfold pipeRowOk at hr ⊢
    simp only [Bool.and_eq_true, beq_iff_eq, decide_eq_true_eq] at hr ⊢
    obtain ⟨⟨⟨hr1, hr2⟩, hr3⟩, hr4⟩ := hr
    refine ⟨⟨⟨by simpa [Pipe.conj] using hr1, hr2⟩, ?_⟩, ?_⟩
    · rw [hlegs, rowInRange_conj]; exact hr3
    · rw [hlegs]
      show makeValid p.leg.mods (p.leg.conj.getCharge _) = blockCharge p.leg.mods _ _
      rw [blockCharge_conj hok hr3, getCharge_conj, ← hr4, makeValid_neg]

end TenpyModel.C02

theorem C02_WF_conj (a : ArrS) (h : a.WF) : a.conj.WF := by
  rw [WF_iff] at *
  have hmods : ∀ l ∈ a.legs.map LegS.conj, l.leg.mods = a.mods := by
    intro l hl
    obtain ⟨l0, hl0, rfl⟩ := List.mem_map.mp hl
    rw [LegS.conj_leg]; exact (h.legs_ok l0 hl0).2
  have hm : a.conj.mods = a.mods :=
    modsOf_eq_of_mem (by simpa [ArrS.conj] using h.rank_pos) hmods
  have hqlen : a.qtotal.length = a.mods.length := checkValid_length h.qtotal_valid
  refine ⟨by simpa [ArrS.conj] using h.rank_pos, hm ▸ h.mods_pos, ?_, ?_, ?_, h.nodup, h.sorted_ok⟩
  · intro l hl
    rw [hm]
    refine ⟨?_, hmods l hl⟩
    obtain ⟨l0, hl0, rfl⟩ := List.mem_map.mp hl
    have h0 := (h.legs_ok l0 hl0).1
    cases l0 with
    | plain l => exact Leg.sane_conj h0
    | pipe p =>
      simp only [LegS.ok, Bool.and_eq_true] at h0
      simp only [LegS.conj, LegS.ok, Bool.and_eq_true]
      exact ⟨Leg.sane_conj h0.1, Pipe.ok_conj h0.1 h0.2⟩
  · rw [hm]
    exact checkValid_makeValid _ h.mods_pos _ (by simp [cneg_length, hqlen])
  · intro r hr
    have h0 := h.rows_ok r hr
    rw [hm]
    refine ⟨by simpa [ArrS.conj, rowInRange_conj] using h0.1, ?_⟩
    show blockCharge a.mods (a.legs.map LegS.conj) r = makeValid a.mods (cneg a.qtotal)
    rw [blockCharge_conj h.legs_ok h0.1, h0.2]

/-- documented qtotal of `conj`: the negative total charge -/
theorem C02_qtotal_conj (a : ArrS) : a.conj.qtotal = makeValid a.mods (cneg a.qtotal) := rfl

example : exA.conj.WF := by decide
namespace TenpyModel.C02

theorem zipWith_insertAt {α β γ} (f : α → β → γ) (k : Nat) (x : α) (y : β) (l : List α) (r : List β)
    (h : l.length = r.length) :
    List.zipWith f (insertAt k x l) (insertAt k y r) = insertAt k (f x y) (List.zipWith f l r) := by
  unfold insertAt
  rw [List.zipWith_append (by simp [h])]
  simp [List.take_zipWith, List.drop_zipWith]

theorem insertAt_length {α} (k : Nat) (x : α) (l : List α) : (insertAt k x l).length = l.length + 1 := by
  unfold insertAt
  simp only [List.length_append, List.length_take, List.length_cons, List.length_drop]
  omega

theorem csum_insertAt_zero (n k : Nat) (cs : List Charge) (h : ∀ c ∈ cs, c.length = n) :
    csum n (insertAt k (czero n) cs) = csum n cs := by
  unfold insertAt
  have h1 : ∀ c ∈ cs.take k, c.length = n := fun c hc => h c (List.mem_of_mem_take hc)
  have h2 : ∀ c ∈ cs.drop k, c.length = n := fun c hc => h c (List.mem_of_mem_drop hc)
  rw [csum_append n _ _ h1 (by intro c hc; rcases List.mem_cons.mp hc with rfl | hc; exact czero_length n; exact h2 c hc),
    csum_cons n _ _ (czero_length n) h2, cadd_czero_left n _ (csum_length n _ h2), ← csum_append n _ _ h1 h2,
    List.take_append_drop]

theorem cscale_czero (s : Int) (n : Nat) : cscale s (czero n) = czero n := by simp [cscale, czero]

/-- a leg built by `from_qind` carries truthful flags by construction -/
theorem Leg.sane_fromQind (mods slices charges) (qconj : Int) (h1 : slices.length = charges.length + 1)
    (h2 : slices.head? = some 0) (h3 : ∀ c ∈ charges, checkValid mods c = true) (h4 : qconj = 1 ∨ qconj = -1) :
    (Leg.fromQind mods slices charges qconj).sane = true := by
  unfold Leg.sane Leg.fromQind Leg.mk'
  simp only [Leg.blockNumber, Leg.isSorted, Leg.isBunched, Leg.qnumber, Bool.and_eq_true, beq_iff_eq, List.all_eq_true,
    Bool.or_eq_true, Bool.not_eq_true']
  refine ⟨⟨⟨⟨⟨h1, h2⟩, h3⟩, ?_⟩, ?_⟩, ?_⟩
  · rcases h4 with h | h <;> simp [h]
  · cases h : (Leg.isSortedRows mods.length charges) <;> simp [h]
  · cases h : ((findRowDifferences mods.length charges).length == charges.length + 1) <;> simp_all

theorem trivialLeg_sane (mods : List Nat) (hm : ∀ m ∈ mods, 1 ≤ m) (qconj : Int) (hq : qconj = 1 ∨ qconj = -1) :
    (Leg.fromQflat mods [czero mods.length] qconj).sane = true := by
  unfold Leg.fromQflat
  apply Leg.sane_fromQind
  · simp
  · simp [List.range_succ]
  · intro c hc
    simp only [List.mem_singleton] at hc
    subst hc
    unfold checkValid czero
    simp only [List.length_replicate, beq_self_eq_true, Bool.true_and, List.all_eq_true]
    intro b hb
    obtain ⟨i, hi, rfl⟩ := List.mem_iff_getElem.mp hb
    simp only [List.length_zipWith, List.length_replicate, Nat.min_self] at hi
    simp only [List.getElem_zipWith, List.getElem_replicate, id_eq, cv1, Bool.or_eq_true, beq_iff_eq, Bool.and_eq_true,
      decide_eq_true_eq]
    have := hm mods[i] (List.getElem_mem hi)
    omega
  · exact hq

theorem modsOf_insertAt (k : Nat) (x : LegS) (legs : List LegS) (hne : legs ≠ [])
    (hx : x.leg.mods = ArrS.modsOf legs) : ArrS.modsOf (insertAt k x legs) = ArrS.modsOf legs := by
  cases legs with
  | nil => exact absurd rfl hne
  | cons l ls =>
    cases k with
    | zero => simpa [insertAt, ArrS.modsOf] using hx
    | succ k => simp [insertAt, ArrS.modsOf]

theorem mem_insertAt {α} {k : Nat} {x y : α} {l : List α} (h : y ∈ insertAt k x l) : y = x ∨ y ∈ l := by
  unfold insertAt at h
  rcases List.mem_append.mp h with h | h
  · exact Or.inr (List.mem_of_mem_take h)
  · rcases List.mem_cons.mp h with h | h
    · exact Or.inl h
    · exact Or.inr (List.mem_of_mem_drop h)

end TenpyModel.C02

theorem TenpyModel.C02.WFP_insertTrivial (a : ArrS) (pos : Nat) (qconj : Int) (hq : qconj = 1 ∨ qconj = -1) (h : WFP a) :
    WFP { legs := insertAt pos (.plain (Leg.fromQflat a.mods [czero a.mods.length] qconj)) a.legs, qtotal := a.qtotal,
          qdata := a.qdata.map (insertAt pos 0), sorted := a.sorted } := by
  generalize hleg0 : Leg.fromQflat a.mods [czero a.mods.length] qconj = leg0
  have hsane0 : leg0.sane = true := by rw [← hleg0]; exact trivialLeg_sane a.mods h.mods_pos qconj hq
  have hmods0 : leg0.mods = a.mods := by rw [← hleg0]; rfl
  have hbn0 : leg0.blockNumber = 1 := by rw [← hleg0]; rfl
  have hgc0 : leg0.getCharge 0 = czero a.mods.length := by
    rw [← hleg0]; simp [Leg.getCharge, Leg.fromQflat, Leg.fromQind, Leg.mk', cscale_czero]
  have hm : ArrS.mods { a with legs := insertAt pos (.plain leg0) a.legs, qdata := a.qdata.map (insertAt pos 0) } = a.mods :=
    modsOf_insertAt pos _ a.legs h.rank_pos hmods0
  have hok' : ∀ l ∈ insertAt pos (LegS.plain leg0) a.legs, l.ok = true ∧ l.leg.mods = a.mods := by
    intro l hl
    rcases mem_insertAt hl with rfl | hl
    · exact ⟨hsane0, hmods0⟩
    · exact h.legs_ok l hl
  refine ⟨?_, hm ▸ h.mods_pos, by rw [hm]; exact hok', by rw [hm]; exact h.qtotal_valid, ?_, ?_, ?_⟩
  · intro e
    have := congrArg List.length e
    simp [insertAt_length] at this
  · intro r hr
    simp only [List.mem_map] at hr
    obtain ⟨r0, hr0, rfl⟩ := hr
    have h0 := h.rows_ok r0 hr0
    have hlen := h.row_length hr0
    rw [hm]
    constructor
    · unfold rowInRange at *
      simp only [Bool.and_eq_true, beq_iff_eq, List.all_eq_true] at h0 ⊢
      refine ⟨by simp [insertAt_length, hlen], ?_⟩
      rw [zipWith_insertAt _ _ _ _ _ _ hlen.symm]
      intro b hb
      rcases mem_insertAt hb with rfl | hb
      · simp [LegS.blockNumber, LegS.leg, hbn0]
      · exact h0.1.2 b hb
    · show blockCharge a.mods (insertAt pos (LegS.plain leg0) a.legs) (insertAt pos 0 r0) = a.qtotal
      rw [← h0.2]
      unfold blockCharge
      rw [rawCharge_eq, rawCharge_eq]
      unfold chList
      rw [zipWith_insertAt _ _ _ _ _ _ hlen.symm]
      show makeValid a.mods (csum a.mods.length (insertAt pos (leg0.getCharge 0) _)) = _
      rw [hgc0]
      have := csum_insertAt_zero a.mods.length pos (chList a.legs r0) (chList_lengths h.legs_ok h0.1)
      unfold chList at this
      rw [this]
  · show (a.qdata.map (insertAt pos 0)).Pairwise (· ≠ ·)
    rw [List.pairwise_map]
    have := h.nodup
    rw [List.pairwise_iff_forall_sublist] at this ⊢
    intro x y hxy e
    have hx := h.row_length (hxy.subset (by simp : x ∈ [x, y]))
    have hy := h.row_length (hxy.subset (by simp : y ∈ [x, y]))
    exact this hxy (insertAt_inj pos 0 x y (by rw [hx, hy]) e)
  · intro hs
    show (a.qdata.map (insertAt pos 0)).Pairwise _
    rw [List.pairwise_map]
    have := h.sorted_ok hs
    rw [List.pairwise_iff_forall_sublist] at this ⊢
    intro x y hxy
    have hx := h.row_length (hxy.subset (by simp : x ∈ [x, y]))
    have hy := h.row_length (hxy.subset (by simp : y ∈ [x, y]))
    have := this hxy
    unfold rowLE at *
    rw [rowLT_insertAt pos 0 y x (by rw [hx, hy])]
    exact this

/-- `add_trivial_leg` keeps `_qdata_sorted`: inserting the same entry at the same column of every row does not
change the order of the rows -/
theorem C02_WF_addTrivialLeg (a : ArrS) (axis qconj : Int) (hq : qconj = 1 ∨ qconj = -1) (h : a.WF) :
    (a.addTrivialLeg axis qconj).WF := by
  rw [WF_iff] at *
  exact WFP_insertTrivial a _ qconj hq h

example : (exA.isortQdata.addTrivialLeg 1 (-1)).WF ∧ (exA.isortQdata.addTrivialLeg 1 (-1)).sorted = true := by decide
namespace TenpyModel.C02

theorem perm_range_of_nodup (axes : List Nat) (n : Nat) (hn : axes.Nodup) (hl : axes.length = n)
    (hlt : ∀ i ∈ axes, i < n) : axes.Perm (List.range n) := by
  rw [List.perm_ext_iff_of_nodup hn List.nodup_range]
  intro i
  constructor
  · intro hi; exact List.mem_range.mpr (hlt i hi)
  · intro hi
    have hi' := List.mem_range.mp hi
    apply Classical.byContradiction
    intro hni
    have hsub : axes ⊆ (List.range n).erase i := by
      intro x hx
      have hxi : x ≠ i := fun e => hni (e ▸ hx)
      exact (List.mem_erase_of_ne hxi).mpr (List.mem_range.mpr (hlt x hx))
    have := hn.length_le_of_subset hsub
    rw [List.length_erase] at this
    simp [hi] at this
    omega

theorem map_getD_range {α} (l : List α) (d : α) : (List.range l.length).map (fun i => l.getD i d) = l := by
  apply List.ext_getElem
  · simp
  · intro i h1 h2
    simp at h1
    simp [List.getD, h1]

/-- selecting all columns in a permuted order: legs and row together -/
theorem chList_permute (legs : List LegS) (r : List Nat) (axes : List Nat) (hl : r.length = legs.length)
    (hlt : ∀ i ∈ axes, i < legs.length) :
    chList (axes.filterMap (fun i => legs[i]?)) (selectCols axes r 0) = axes.map (fun i => (chList legs r).getD i []) := by
  unfold selectCols
  induction axes with
  | nil => simp [chList]
  | cons i axes ih =>
    have hi : i < legs.length := hlt i (by simp)
    have hir : i < r.length := by omega
    have ih' := ih (fun j hj => hlt j (by simp [hj]))
    simp only [List.filterMap_cons, List.getElem?_eq_getElem hi, List.map_cons]
    unfold chList at ih' ⊢
    simp only [List.zipWith_cons_cons, ih']
    congr 1
    have hz : i < (List.zipWith (fun (l : LegS) q => l.leg.getCharge q) legs r).length := by
      rw [List.length_zipWith]; omega
    simp only [List.getD, List.getElem?_eq_getElem hz, List.getElem?_eq_getElem hir, Option.getD_some,
      List.getElem_zipWith]

theorem mapM_some_mem {α β} {f : α → Option β} {l : List α} {l' : List β} (h : l.mapM f = some l') :
    ∀ y ∈ l', ∃ x ∈ l, f x = some y := by
  induction l generalizing l' with
  | nil => simp at h; subst h; simp
  | cons a l ih =>
    rw [List.mapM_cons] at h
    cases hfa : f a with
    | none => simp [hfa] at h
    | some b =>
      cases hl : l.mapM f with
      | none => simp [hfa, hl] at h
      | some bs =>
        simp [hfa, hl] at h
        subst h
        intro y hy
        rcases List.mem_cons.mp hy with rfl | hy
        · exact ⟨a, by simp, hfa⟩
        · obtain ⟨x, hx, hfx⟩ := ih hl y hy
          exact ⟨x, by simp [hx], hfx⟩

theorem legIndex_lt {a : ArrS} {i : Int} {k : Nat} (h : a.legIndex i = some k) : k < a.rank := by
  unfold ArrS.legIndex at h
  generalize (if i < 0 then i + (a.rank : Int) else i) = j at h
  simp only at h
  by_cases h1 : j < 0
  · simp [h1] at h
  · by_cases h2 : j ≥ (a.rank : Int)
    · simp [h1, h2] at h
    · simp [h1, h2] at h
      omega

theorem blockCharge_permute {legs : List LegS} {M : List Nat} (hok : ∀ l ∈ legs, l.ok = true ∧ l.leg.mods = M)
    {r : List Nat} (hr : rowInRange legs r = true) (axes : List Nat) (hp : axes.Perm (List.range legs.length)) :
    blockCharge M (axes.filterMap (fun i => legs[i]?)) (selectCols axes r 0) = blockCharge M legs r := by
  have hl := ((rowInRange_iff _ _).mp hr).1
  have hlt : ∀ i ∈ axes, i < legs.length := fun i hi => List.mem_range.mp (hp.mem_iff.mp hi)
  unfold blockCharge
  rw [rawCharge_eq, rawCharge_eq, chList_permute legs r axes hl hlt]
  have hlen := chList_lengths hok hr
  have hcl : (chList legs r).length = legs.length := by simp [chList, hl]
  have hp' : (axes.map (fun i => (chList legs r).getD i [])).Perm (chList legs r) := by
    have := hp.map (fun i => (chList legs r).getD i [])
    rw [← hcl, map_getD_range] at this
    exact this
  rw [csum_perm _ hp' (fun c hc => hlen c (hp'.mem_iff.mp hc))]

theorem rowInRange_permute {legs : List LegS} {r : List Nat} (hr : rowInRange legs r = true) (axes : List Nat)
    (hlt : ∀ i ∈ axes, i < legs.length) :
    rowInRange (axes.filterMap (fun i => legs[i]?)) (selectCols axes r 0) = true := by
  rw [rowInRange_iff] at hr ⊢
  obtain ⟨hl, hb⟩ := hr
  have hfm : axes.filterMap (fun i => legs[i]?) = axes.attach.map (fun i => legs[i.1]'(hlt i.1 i.2)) := by
    induction axes with
    | nil => rfl
    | cons i axes ih =>
      have hi : i < legs.length := hlt i (by simp)
      simp only [List.filterMap_cons, List.getElem?_eq_getElem hi, List.attach_cons, List.map_cons, List.map_map]
      congr 1
      rw [ih (fun j hj => hlt j (by simp [hj]))]
      simp [Function.comp_def]
  refine ⟨by simp [selectCols, hfm], ?_⟩
  intro k hk
  simp only [hfm, List.length_map, List.length_attach] at hk
  simp only [hfm, List.getElem_map, List.getElem_attach, selectCols, List.getD, List.getElem?_map, hk,
    List.getElem?_eq_getElem, Option.map_some, Option.getD_some]
  have := hb axes[k] (hlt _ (List.getElem_mem hk))
  simpa [List.getD] using this

theorem selectCols_inj {axes : List Nat} {n : Nat} (hp : axes.Perm (List.range n)) {x y : List Nat}
    (hx : x.length = n) (hy : y.length = n) (h : selectCols axes x 0 = selectCols axes y 0) : x = y := by
  apply List.ext_getElem (by rw [hx, hy])
  intro i h1 h2
  have hi : i ∈ axes := hp.mem_iff.mpr (List.mem_range.mpr (hx ▸ h1))
  unfold selectCols at h
  have := List.map_inj_left.mp h i hi
  simpa [List.getD, h1, h2] using this

theorem WFP_permuteAxes {a : ArrS} (h : WFP a) (axes : List Nat) (hp : axes.Perm (List.range a.rank)) :
    WFP (a.permuteAxes axes) := by
  have hlt : ∀ i ∈ axes, i < a.legs.length := fun i hi => List.mem_range.mp (hp.mem_iff.mp hi)
  have hmem : ∀ l ∈ axes.filterMap (fun i => a.legs[i]?), l ∈ a.legs := by
    intro l hl
    obtain ⟨i, _, hi⟩ := List.mem_filterMap.mp hl
    exact List.mem_of_getElem? hi
  have hne : axes.filterMap (fun i => a.legs[i]?) ≠ [] := by
    have hpos : 0 < a.legs.length := List.length_pos_iff.mpr h.rank_pos
    have h0 : 0 ∈ axes := hp.mem_iff.mpr (List.mem_range.mpr hpos)
    intro e
    have : a.legs[0] ∈ axes.filterMap (fun i => a.legs[i]?) :=
      List.mem_filterMap.mpr ⟨0, h0, List.getElem?_eq_getElem hpos⟩
    rw [e] at this; cases this
  have hm : (a.permuteAxes axes).mods = a.mods :=
    modsOf_eq_of_mem hne (fun l hl => (h.legs_ok l (hmem l hl)).2)
  refine ⟨hne, hm ▸ h.mods_pos, ?_, by rw [hm]; exact h.qtotal_valid, ?_, ?_, by intro hs; cases hs⟩
  · intro l hl; rw [hm]; exact h.legs_ok l (hmem l hl)
  · intro r hr
    simp only [ArrS.permuteAxes, List.mem_map] at hr
    obtain ⟨r0, hr0, rfl⟩ := hr
    have h0 := h.rows_ok r0 hr0
    rw [hm]
    exact ⟨rowInRange_permute h0.1 axes hlt, by
      show blockCharge a.mods (axes.filterMap fun i => a.legs[i]?) (selectCols axes r0 0) = a.qtotal
      rw [blockCharge_permute h.legs_ok h0.1 axes hp, h0.2]⟩
  · show (a.qdata.map (fun r => selectCols axes r 0)).Pairwise (· ≠ ·)
    rw [List.pairwise_map]
    have := h.nodup
    rw [List.pairwise_iff_forall_sublist] at this ⊢
    intro x y hxy e
    have hx := h.row_length (hxy.subset (by simp : x ∈ [x, y]))
    have hy := h.row_length (hxy.subset (by simp : y ∈ [x, y]))
    exact this hxy (selectCols_inj hp hx hy e)

end TenpyModel.C02

/-- `itranspose` must reset `_qdata_sorted`: permuting the columns destroys the lexicographic order (see the
counterexample below); with the reset the result is well-formed for every permutation of the axes. -/
theorem C02_WF_itranspose (a : ArrS) (axes : Option (List Int)) (b : ArrS) (h : a.WF)
    (hb : a.itranspose axes = some b) : b.WF := by
  rw [WF_iff] at *
  unfold ArrS.itranspose at hb
  cases axes with
  | none =>
    simp only [Option.some.injEq] at hb
    subst hb
    exact WFP_permuteAxes h _ (List.reverse_perm _)
  | some ax =>
    simp only at hb
    cases hax : ax.mapM a.legIndex with
    | none => simp [hax] at hb
    | some axn =>
      simp only [hax] at hb
      split at hb
      · cases hb
      · rename_i hc
        split at hb
        · cases hb; exact h
        · cases hb
          simp only [ne_eq, Bool.or_eq_true, decide_eq_true_eq, Bool.not_eq_true', decide_eq_false_iff_not, not_or,
            Decidable.not_not] at hc
          apply WFP_permuteAxes h
          apply perm_range_of_nodup axn a.rank hc.2 hc.1
          intro i hi
          obtain ⟨j, _, hj⟩ := mapM_some_mem hax i hi
          exact legIndex_lt hj

/-- keeping the flag would be wrong: the transposed rows of this sorted, well-formed array are not sorted -/
theorem C02_itranspose_flag_counterexample :
    ∃ a : ArrS, a.WF ∧ a.sorted = true ∧ ¬ rowsSorted (a.permuteAxes [1, 0]).qdata = true :=
  ⟨{ legs := [.plain (Leg.fromQflat [] [[], []] 1), .plain (Leg.fromQflat [] [[], []] 1)], qtotal := [],
     qdata := [[1, 0], [0, 1]], sorted := true }, by decide⟩

theorem TenpyModel.C02.swap_inj (i j x y : Nat)
    (h : (if x = i then j else if x = j then i else x) = (if y = i then j else if y = j then i else y)) : x = y := by
  split at h <;> split at h <;> (try split at h) <;> (try split at h) <;> omega

theorem TenpyModel.C02.swap_lt (i j x n : Nat) (hi : i < n) (hj : j < n) (hx : x < n) :
    (if x = i then j else if x = j then i else x) < n := by
  split <;> (try split) <;> omega

/-- `iswapaxes` must reset `_qdata_sorted` as well -/
theorem C02_WF_iswapaxes (a : ArrS) (i j : Int) (b : ArrS) (h : a.WF) (hb : a.iswapaxes i j = some b) : b.WF := by
  rw [WF_iff] at *
  unfold ArrS.iswapaxes at hb
  cases hi : a.legIndex i with
  | none => simp [hi] at hb
  | some i' =>
    cases hj : a.legIndex j with
    | none => simp [hi, hj] at hb
    | some j' =>
      simp only [hi, hj] at hb
      split at hb
      · cases hb; exact h
      · cases hb
        have hi' := legIndex_lt hi
        have hj' := legIndex_lt hj
        apply WFP_permuteAxes h
        apply perm_range_of_nodup
        · unfold List.Nodup
          rw [List.pairwise_map]
          refine List.nodup_range.imp ?_
          intro x y hxy e
          exact hxy (swap_inj i' j' x y e)
        · simp
        · intro k hk
          obtain ⟨x, hx, rfl⟩ := List.mem_map.mp hk
          exact swap_lt i' j' x a.rank hi' hj' (List.mem_range.mp hx)

example : (exA.isortQdata.iswapaxes 0 1).map (·.sorted) = some false := by decide
