import TenpyModel.C02.Struct
open TenpyModel.Core TenpyModel.C02
theorem C02_placeholder_Props : True := trivial
