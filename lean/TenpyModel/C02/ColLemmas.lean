import TenpyModel.C02.RowLemmas
import TenpyModel.C02.ChargeLemmas
/-! Column-wise manipulations of `_qdata` rows: removing / inserting / appending columns and the row order. -/
namespace TenpyModel.C02
open TenpyModel.Core

theorem revLT_append {p q : List Nat} (x y : List Nat) (hl : p.length = q.length) :
    revLT (p ++ x) (q ++ y) = (revLT p q || (p == q && revLT x y)) := by
  induction p generalizing q with
  | nil => cases q with
    | nil => simp [revLT]
    | cons b q => simp at hl
  | cons a p ih =>
    cases q with
    | nil => simp at hl
    | cons b q =>
      simp only [List.cons_append, revLT, ih (by simpa using hl)]
      by_cases hab : a = b
      · subst hab; simp
      · have hb : (a == b) = false := by simpa using hab
        simp [hb]

theorem rowLT_cons (x y : Nat) {xs ys : List Nat} (hl : xs.length = ys.length) :
    rowLT (x :: xs) (y :: ys) = (rowLT xs ys || (xs == ys && decide (x < y))) := by
  unfold rowLT
  simp only [List.reverse_cons]
  rw [revLT_append _ _ (by simpa using hl)]
  have e : (xs.reverse == ys.reverse) = (xs == ys) := by
    by_cases h : xs = ys
    · subst h; simp
    · have h' : xs.reverse ≠ ys.reverse := fun e => h (by simpa using congrArg List.reverse e)
      rw [beq_eq_false_iff_ne.mpr h, beq_eq_false_iff_ne.mpr h']
  simp [revLT, e]

def keepIdx (p : Nat → Bool) : Nat → List α → List α
  | _, [] => []
  | i, x :: xs => if p i then x :: keepIdx p (i + 1) xs else keepIdx p (i + 1) xs

theorem keepIdx_length_eq {α} (p : Nat → Bool) (i : Nat) (a b : List α) (h : a.length = b.length) :
    (keepIdx p i a).length = (keepIdx p i b).length := by
  induction a generalizing b i with
  | nil => cases b with
    | nil => rfl
    | cons y b => simp at h
  | cons x a ih =>
    cases b with
    | nil => simp at h
    | cons y b =>
      simp only [keepIdx]
      split <;> simp [ih _ b (by simpa using h)]

theorem selectCols_filter_eq {α} (p : Nat → Bool) (d : α) (r : List α) (i : Nat) :
    ((List.range' i r.length).filter p).map (fun c => r.getD (c - i) d) = keepIdx p i r := by
  induction r generalizing i with
  | nil => simp [keepIdx]
  | cons x xs ih =>
    simp only [List.length_cons, List.range'_succ, keepIdx]
    have hrest : ((List.range' (i + 1) xs.length).filter p).map (fun c => (x :: xs).getD (c - i) d)
        = ((List.range' (i + 1) xs.length).filter p).map (fun c => xs.getD (c - (i + 1)) d) := by
      apply List.map_congr_left
      intro c hc
      have hc' := (List.mem_filter.mp hc).1
      have : i + 1 ≤ c := (List.mem_range'_1.mp hc').1
      have e : c - i = (c - (i + 1)) + 1 := by omega
      rw [e]; simp
    by_cases hp : p i = true
    · simp only [List.filter_cons, hp, ↓reduceIte, List.map_cons, Nat.sub_self, hrest, ih]
      simp
    · simp only [List.filter_cons, hp, Bool.false_eq_true, ↓reduceIte, hrest, ih]

theorem keepIdx_eq_iff (p : Nat → Bool) (i : Nat) (a b : List Nat) (hl : a.length = b.length)
    (hag : ∀ j, j < a.length → p (i + j) = false → a.getD j 0 = b.getD j 0) :
    keepIdx p i a = keepIdx p i b ↔ a = b := by
  induction a generalizing b i with
  | nil => cases b with
    | nil => simp
    | cons y b => simp at hl
  | cons x xs ih =>
    cases b with
    | nil => simp at hl
    | cons y ys =>
      have hl' : xs.length = ys.length := by simpa using hl
      have hag' : ∀ j, j < xs.length → p (i + 1 + j) = false → xs.getD j 0 = ys.getD j 0 := by
        intro j hj hp
        have := hag (j + 1) (by simp; omega) (by rw [← hp]; congr 1; omega)
        simpa using this
      have ih' := ih (i + 1) ys hl' hag'
      simp only [keepIdx]
      by_cases hp : p i = true
      · simp only [hp, ↓reduceIte, List.cons.injEq, ih']
      · have hxy : x = y := by
          have := hag 0 (by simp) (by simpa using hp)
          simpa using this
        simp only [hp, Bool.false_eq_true, ↓reduceIte, ih', List.cons.injEq, hxy, true_and]

theorem keepIdx_rowLT (p : Nat → Bool) (i : Nat) (a b : List Nat) (hl : a.length = b.length)
    (hag : ∀ j, j < a.length → p (i + j) = false → a.getD j 0 = b.getD j 0) :
    rowLT (keepIdx p i a) (keepIdx p i b) = rowLT a b := by
  induction a generalizing b i with
  | nil => cases b with
    | nil => rfl
    | cons y b => simp at hl
  | cons x xs ih =>
    cases b with
    | nil => simp at hl
    | cons y ys =>
      have hl' : xs.length = ys.length := by simpa using hl
      have hag' : ∀ j, j < xs.length → p (i + 1 + j) = false → xs.getD j 0 = ys.getD j 0 := by
        intro j hj hp
        have := hag (j + 1) (by simp; omega) (by rw [← hp]; congr 1; omega)
        simpa using this
      have ih' := ih (i + 1) ys hl' hag'
      have he := keepIdx_eq_iff p (i + 1) xs ys hl' hag'
      rw [rowLT_cons x y hl']
      simp only [keepIdx]
      by_cases hp : p i = true
      · simp only [hp, ↓reduceIte]
        rw [rowLT_cons x y (keepIdx_length_eq p (i + 1) xs ys hl'), ih']
        congr 2
        by_cases hxy : xs = ys
        · subst hxy; simp
        · rw [beq_eq_false_iff_ne.mpr hxy, beq_eq_false_iff_ne.mpr (fun e => hxy (he.mp e))]
      · have hxy : x = y := by
          have := hag 0 (by simp) (by simpa using hp)
          simpa using this
        simp only [hp, Bool.false_eq_true, ↓reduceIte, ih', hxy, Nat.lt_irrefl, decide_false, Bool.and_false,
          Bool.or_false]

/-! ### inserting a column with the same value -/

theorem rowLT_insertAt (k v : Nat) (a b : List Nat) (hl : a.length = b.length) :
    rowLT (insertAt k v a) (insertAt k v b) = rowLT a b := by
  unfold insertAt rowLT
  have e1 : a.reverse = (a.drop k).reverse ++ (a.take k).reverse := by
    rw [← List.reverse_append, List.take_append_drop]
  have e2 : b.reverse = (b.drop k).reverse ++ (b.take k).reverse := by
    rw [← List.reverse_append, List.take_append_drop]
  have hd : ((a.drop k).reverse).length = ((b.drop k).reverse).length := by simp [hl]
  rw [e1, e2, revLT_append _ _ hd]
  simp only [List.reverse_append, List.reverse_cons, List.append_assoc]
  rw [revLT_append _ _ hd]
  simp [revLT]

theorem insertAt_inj (k v : Nat) (a b : List Nat) (hl : a.length = b.length)
    (h : insertAt k v a = insertAt k v b) : a = b := by
  unfold insertAt at h
  have h1 := List.append_inj h (by simp [hl])
  have h2 : a.drop k = b.drop k := by simpa using h1.2
  rw [← List.take_append_drop k a, ← List.take_append_drop k b, h1.1, h2]

/-! ### concatenating rows (outer product): the right part is more significant -/

theorem rowLT_append (a a' b b' : List Nat) (hb : b.length = b'.length) :
    rowLT (a ++ b) (a' ++ b') = (rowLT b b' || (b == b' && rowLT a a')) := by
  unfold rowLT
  simp only [List.reverse_append]
  rw [revLT_append _ _ (by simpa using hb)]
  congr 2
  by_cases h : b = b'
  · subst h; simp
  · have h' : b.reverse ≠ b'.reverse := fun e => h (by simpa using congrArg List.reverse e)
    rw [beq_eq_false_iff_ne.mpr h, beq_eq_false_iff_ne.mpr h']

/-! ### splitting a sum of charges by a predicate on the positions -/

theorem keepIdx_mem {α} (p : Nat → Bool) (i : Nat) (l : List α) (x : α) (h : x ∈ keepIdx p i l) : x ∈ l := by
  induction l generalizing i with
  | nil => simp [keepIdx] at h
  | cons y ys ih =>
    simp only [keepIdx] at h
    split at h
    · rcases List.mem_cons.mp h with rfl | h
      · simp
      · exact List.mem_cons_of_mem _ (ih _ h)
    · exact List.mem_cons_of_mem _ (ih _ h)

theorem csum_split (n : Nat) (p : Nat → Bool) (i : Nat) (cs : List Charge) (h : ∀ c ∈ cs, c.length = n) :
    csum n cs = cadd (csum n (keepIdx p i cs)) (csum n (keepIdx (fun j => !p j) i cs)) := by
  induction cs generalizing i with
  | nil => simp [keepIdx, csum_nil, cadd_czero_left n _ (czero_length n)]
  | cons c cs ih =>
    have hc := h c (by simp)
    have hcs : ∀ c ∈ cs, c.length = n := fun c hc => h c (by simp [hc])
    have hk1 : ∀ d ∈ keepIdx p (i + 1) cs, d.length = n := fun d hd => hcs d (keepIdx_mem _ _ _ _ hd)
    have hk2 : ∀ d ∈ keepIdx (fun j => !p j) (i + 1) cs, d.length = n := fun d hd => hcs d (keepIdx_mem _ _ _ _ hd)
    rw [csum_cons n c cs hc hcs, ih (i + 1) hcs]
    simp only [keepIdx]
    by_cases hp : p i = true
    · simp only [hp, ↓reduceIte, Bool.not_true, Bool.false_eq_true]
      rw [csum_cons n c _ hc hk1, cadd_assoc]
    · have hpf : p i = false := by simpa using hp
      simp only [hpf, Bool.false_eq_true, ↓reduceIte, Bool.not_false]
      rw [csum_cons n c _ hc hk2, ← cadd_assoc, cadd_comm c, cadd_assoc]

theorem keepIdx_zipWith {α β γ} (f : α → β → γ) (p : Nat → Bool) (i : Nat) (l : List α) (r : List β) :
    keepIdx p i (List.zipWith f l r) = List.zipWith f (keepIdx p i l) (keepIdx p i r) := by
  induction l generalizing r i with
  | nil => simp [keepIdx]
  | cons x l ih =>
    cases r with
    | nil => simp [keepIdx]
    | cons y r =>
      simp only [List.zipWith_cons_cons, keepIdx]
      split <;> simp [ih]


end TenpyModel.C02
