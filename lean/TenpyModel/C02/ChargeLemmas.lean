import TenpyModel.Core.Charge
/-! Charge arithmetic used by the C02 proofs (core only): `make_valid` is an idempotent additive homomorphism,
sums of charge vectors of a fixed length. -/
namespace TenpyModel.C02
open TenpyModel.Core

theorem mv1_idem (m : Nat) (x : Int) : mv1 m (mv1 m x) = mv1 m x := by
  unfold mv1; split
  · rfl
  · exact Int.emod_emod_of_dvd x (Int.dvd_refl _)

theorem mv1_add (m : Nat) (x y : Int) : mv1 m (x + mv1 m y) = mv1 m (x + y) := by
  unfold mv1; split
  · rfl
  · exact Int.add_emod_emod ..

theorem mv1_mul (m : Nat) (s x : Int) : mv1 m (s * mv1 m x) = mv1 m (s * x) := by
  unfold mv1; split
  · rfl
  · rw [Int.mul_emod, Int.emod_emod_of_dvd x (Int.dvd_refl _), ← Int.mul_emod]

theorem cv1_mv1 (m : Nat) (hm : 1 ≤ m) (x : Int) : cv1 m (mv1 m x) = true := by
  unfold cv1 mv1
  by_cases h : m = 1
  · simp [h]
  · have hpos : (0 : Int) < (m : Int) := by omega
    simp [h, Int.emod_nonneg x (Int.ne_of_gt hpos), Int.emod_lt_of_pos x hpos]

theorem mv1_of_cv1 (m : Nat) (x : Int) (h : cv1 m x = true) : mv1 m x = x := by
  unfold cv1 at h; unfold mv1
  by_cases h1 : m = 1
  · simp [h1]
  · simp [h1] at h ⊢
    exact Int.emod_eq_of_lt h.1 h.2

theorem makeValid_length (m : List Nat) (q : Charge) : (makeValid m q).length = min m.length q.length := by
  simp [makeValid]

theorem makeValid_idem (m : List Nat) (q : Charge) : makeValid m (makeValid m q) = makeValid m q := by
  unfold makeValid
  induction m generalizing q with
  | nil => simp
  | cons a m ih =>
    cases q with
    | nil => simp
    | cons x q => simp [mv1_idem, ih]

theorem makeValid_add (m : List Nat) (a b : Charge) :
    makeValid m (cadd a (makeValid m b)) = makeValid m (cadd a b) := by
  unfold makeValid cadd
  induction m generalizing a b with
  | nil => simp
  | cons k m ih =>
    cases a with
    | nil => simp
    | cons x a =>
      cases b with
      | nil => simp
      | cons y b => simp [mv1_add, ih]

theorem cadd_comm (a b : Charge) : cadd a b = cadd b a := by
  unfold cadd
  induction a generalizing b with
  | nil => simp
  | cons x a ih =>
    cases b with
    | nil => simp
    | cons y b => simp [Int.add_comm, ih]

theorem cadd_assoc (a b c : Charge) : cadd (cadd a b) c = cadd a (cadd b c) := by
  unfold cadd
  induction a generalizing b c with
  | nil => simp
  | cons x a ih =>
    cases b with
    | nil => simp
    | cons y b =>
      cases c with
      | nil => simp
      | cons z c => simp [Int.add_assoc, ih]

theorem cadd_length (a b : Charge) : (cadd a b).length = min a.length b.length := by simp [cadd]
theorem cneg_length (a : Charge) : (cneg a).length = a.length := by simp [cneg]
theorem cscale_length (s : Int) (a : Charge) : (cscale s a).length = a.length := by simp [cscale]
theorem czero_length (n : Nat) : (czero n).length = n := by simp [czero]

theorem cadd_czero_left (n : Nat) (a : Charge) (h : a.length = n) : cadd (czero n) a = a := by
  subst h
  unfold cadd czero
  induction a with
  | nil => simp
  | cons x a ih => simp [List.replicate_succ, ih]

theorem cadd_czero_right (n : Nat) (a : Charge) (h : a.length = n) : cadd a (czero n) = a := by
  rw [cadd_comm, cadd_czero_left n a h]

theorem cadd_cneg_self (a : Charge) : cadd a (cneg a) = czero a.length := by
  unfold cadd cneg czero
  induction a with
  | nil => simp
  | cons x a ih => simp [List.replicate_succ, ih, Int.add_right_neg]

theorem cneg_cadd (a b : Charge) : cneg (cadd a b) = cadd (cneg a) (cneg b) := by
  unfold cadd cneg
  induction a generalizing b with
  | nil => simp
  | cons x a ih =>
    cases b with
    | nil => simp
    | cons y b => simp [ih, Int.neg_add]

theorem cneg_cneg (a : Charge) : cneg (cneg a) = a := by
  unfold cneg; induction a with
  | nil => rfl
  | cons x a ih => simp only [List.map_cons, Int.neg_neg, ih]

theorem cneg_czero (n : Nat) : cneg (czero n) = czero n := by simp [cneg, czero]

theorem makeValid_add_left (m : List Nat) (a b : Charge) :
    makeValid m (cadd (makeValid m a) b) = makeValid m (cadd a b) := by
  rw [cadd_comm, makeValid_add, cadd_comm]

theorem makeValid_neg (m : List Nat) (a : Charge) : makeValid m (cneg (makeValid m a)) = makeValid m (cneg a) := by
  unfold makeValid cneg
  induction m generalizing a with
  | nil => simp
  | cons k m ih =>
    cases a with
    | nil => simp
    | cons x a =>
      have := mv1_mul k (-1) x
      simp only [Int.neg_mul, Int.one_mul] at this
      simp only [List.zipWith_cons_cons, List.map_cons, this, ih]

theorem checkValid_makeValid (m : List Nat) (hm : ∀ k ∈ m, 1 ≤ k) (q : Charge) (hq : q.length = m.length) :
    checkValid m (makeValid m q) = true := by
  unfold checkValid makeValid
  simp only [List.length_zipWith, hq, Nat.min_self, beq_self_eq_true, Bool.true_and]
  induction m generalizing q with
  | nil => simp
  | cons k m ih =>
    cases q with
    | nil => simp at hq
    | cons x q =>
      simp only [List.zipWith_cons_cons, List.all_cons, id_eq, Bool.and_eq_true]
      refine ⟨cv1_mv1 k (hm k (by simp)) x, ih (fun k hk => hm k (by simp [hk])) q (by simpa using hq)⟩

theorem checkValid_length {m : List Nat} {q : Charge} (h : checkValid m q = true) : q.length = m.length := by
  unfold checkValid at h
  simp only [Bool.and_eq_true, beq_iff_eq] at h
  exact h.1

theorem makeValid_of_checkValid (m : List Nat) (q : Charge) (h : checkValid m q = true) : makeValid m q = q := by
  unfold checkValid at h
  simp only [Bool.and_eq_true, beq_iff_eq] at h
  obtain ⟨hl, hv⟩ := h
  unfold makeValid
  induction m generalizing q with
  | nil => cases q with
    | nil => rfl
    | cons x q => simp at hl
  | cons k m ih =>
    cases q with
    | nil => simp at hl
    | cons x q =>
      simp only [List.zipWith_cons_cons, List.all_cons, id_eq, Bool.and_eq_true] at hv
      simp only [List.zipWith_cons_cons, mv1_of_cv1 k x hv.1, ih q (by simpa using hl) hv.2]

/-! ### sums of charges of length `n` -/

theorem foldl_cadd_eq (n : Nat) (cs : List Charge) (z : Charge) (hz : z.length = n) (h : ∀ c ∈ cs, c.length = n) :
    cs.foldl cadd z = cadd z (cs.foldl cadd (czero n)) := by
  induction cs generalizing z with
  | nil => simp [cadd_czero_right n z hz]
  | cons c cs ih =>
    have hc : c.length = n := h c (by simp)
    have hcs : ∀ c ∈ cs, c.length = n := fun c hc => h c (by simp [hc])
    simp only [List.foldl_cons]
    rw [ih (cadd z c) (by simp [cadd_length, hz, hc]) hcs, ih (cadd (czero n) c) (by simp [cadd_length, czero_length, hc]) hcs,
      cadd_czero_left n c hc, cadd_assoc]

theorem csum_length (n : Nat) (cs : List Charge) (h : ∀ c ∈ cs, c.length = n) : (csum n cs).length = n := by
  unfold csum
  suffices ∀ z : Charge, z.length = n → (cs.foldl cadd z).length = n from this _ (czero_length n)
  induction cs with
  | nil => intro z hz; simpa using hz
  | cons c cs ih =>
    intro z hz
    simp only [List.foldl_cons]
    exact ih (fun c hc => h c (by simp [hc])) _ (by simp [cadd_length, hz, h c (by simp)])

theorem csum_nil (n : Nat) : csum n [] = czero n := rfl

theorem csum_cons (n : Nat) (c : Charge) (cs : List Charge) (hc : c.length = n) (h : ∀ c ∈ cs, c.length = n) :
    csum n (c :: cs) = cadd c (csum n cs) := by
  unfold csum
  simp only [List.foldl_cons]
  rw [foldl_cadd_eq n cs _ (by simp [cadd_length, czero_length, hc]) h, cadd_czero_left n c hc]

theorem csum_append (n : Nat) (xs ys : List Charge) (hx : ∀ c ∈ xs, c.length = n) (hy : ∀ c ∈ ys, c.length = n) :
    csum n (xs ++ ys) = cadd (csum n xs) (csum n ys) := by
  induction xs with
  | nil => simp [csum_nil, cadd_czero_left n _ (csum_length n ys hy)]
  | cons c xs ih =>
    have hc : c.length = n := hx c (by simp)
    have hxs : ∀ c ∈ xs, c.length = n := fun c hc => hx c (by simp [hc])
    rw [List.cons_append, csum_cons n c _ hc (by intro d hd; rcases List.mem_append.mp hd with h | h; exact hxs d h; exact hy d h),
      ih hxs, csum_cons n c xs hc hxs, cadd_assoc]

theorem csum_perm (n : Nat) {xs ys : List Charge} (p : xs.Perm ys) (hx : ∀ c ∈ xs, c.length = n) :
    csum n xs = csum n ys := by
  induction p with
  | nil => rfl
  | cons c _ ih =>
    have hc := hx c (by simp)
    have hxs := fun d hd => hx d (List.mem_cons_of_mem _ hd)
    rename_i l1 l2 p
    have hys : ∀ d ∈ l2, d.length = n := fun d hd => hxs d (p.mem_iff.mpr hd)
    rw [csum_cons n c _ hc hxs, csum_cons n c _ hc hys, ih hxs]
  | swap a b l =>
    have ha := hx a (by simp)
    have hb := hx b (by simp)
    have hl : ∀ d ∈ l, d.length = n := fun d hd => hx d (by simp [hd])
    rw [csum_cons n b _ hb (by intro d hd; rcases List.mem_cons.mp hd with h | h; exact h ▸ ha; exact hl d h),
      csum_cons n a _ ha hl,
      csum_cons n a _ ha (by intro d hd; rcases List.mem_cons.mp hd with h | h; exact h ▸ hb; exact hl d h),
      csum_cons n b _ hb hl, ← cadd_assoc, ← cadd_assoc, cadd_comm b a]
  | trans p1 _ ih1 ih2 =>
    rw [ih1 hx, ih2 (fun d hd => hx d (p1.mem_iff.mpr hd))]

theorem csum_map_cneg (n : Nat) (cs : List Charge) (h : ∀ c ∈ cs, c.length = n) :
    csum n (cs.map cneg) = cneg (csum n cs) := by
  induction cs with
  | nil => simp [csum_nil, cneg_czero]
  | cons c cs ih =>
    have hc := h c (by simp)
    have hcs : ∀ c ∈ cs, c.length = n := fun c hc => h c (by simp [hc])
    rw [List.map_cons, csum_cons n _ _ (by simp [cneg_length, hc]) (by intro d hd; obtain ⟨e, he, rfl⟩ := List.mem_map.mp hd; simp [cneg_length, hcs e he]),
      ih hcs, csum_cons n c cs hc hcs, cneg_cadd]

end TenpyModel.C02
