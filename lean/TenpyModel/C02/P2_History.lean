import TenpyModel.C02.P2_Project
import TenpyModel.C02.P2_Charges
import TenpyModel.C02.P2_Concat
import TenpyModel.C02.P2_Trace
import TenpyModel.C02.P2_Tensordot2
import TenpyModel.C02.P2_Combine4
import TenpyModel.C02.P2_Split3
import TenpyModel.C02.P2_Permute
import TenpyModel.C02.P2_Misc
/-!
# C02 / Props2 — histories over all operation kinds proved so far (the 17 of `PropsHistory` + 16 new ones).
A call whose argument checks fail (the code raises, or the caller's contract on a *new* leg is violated) leaves
the environment unchanged. Scalar results (`trace` / `tensordot` over all legs) are not stored.
-/
namespace TenpyModel.C02P2
open TenpyModel.Core TenpyModel.C02

inductive Op2 where
  | base (op : Op)                                                      -- the 17 kinds of `PropsHistory`
  | flipLeg (i k : Nat)                                                 -- in place: `a.legs[k] = a.legs[k].flip_charges_qconj()`
  | gauge (i : Nat) (axis : Int) (newq : Option Charge) (nqc : Option Int)
  | addLeg (i : Nat) (leg : LegS) (idx axis : Int) (nz : List Bool)
  | extend (i : Nat) (axis : Int) (extra : Leg)
  | iproject (i : Nat) (masks : List (List Bool)) (axes : List Int)      -- in place
  | dropCharge (i k : Nat)
  | changeCharge (i k d : Nat)
  | addCharge (i : Nat) (addLegs : List Leg) (q2 : Charge) (nz : List Bool)
  | concatenate (is : List Nat) (axis : Int)
  | trace (i : Nat) (l1 l2 : Int)
  | tensordot (cy : Bool) (i j : Nat) (axes : Nat ⊕ (List Int × List Int))
  | combineLegs (i : Nat) (groups : List (List Nat)) (newAxes : Option (List Int)) (qconjs : List (Option Int))
  | sortLegcharge (i : Nat) (sort bunch : List Bool)
  | splitLegs (i : Nat) (axes : Option (List Int))
  | dropChargeAll (i : Nat) (nz : List Bool)
  | permute (i : Nat) (perm : List Nat) (axis : Int)

/-- `U(1) → Z_d`, or `Z_m → Z_d` with `d ∣ m`, `d ≠ 1` (decidable form of `coarser`) -/
def coarserB (m d : Nat) : Bool := m == 1 || (d != 1 && (m : Int) % (d : Int) == 0)

theorem coarser_of_B {m d : Nat} (h : coarserB m d = true) : coarser m d := by
  unfold coarserB at h
  simp only [Bool.or_eq_true, beq_iff_eq, Bool.and_eq_true, bne_iff_ne, ne_eq] at h
  rcases h with h | ⟨h1, h2⟩
  · exact Or.inl h
  · exact Or.inr ⟨h1, Int.dvd_of_emod_eq_zero h2⟩

/-- the contract on the arguments of `add_charge` -/
def addChargeOk (a : ArrS) (addLegs : List Leg) (q2 : Charge) : Bool :=
  let M2 := (addLegs.headD nilLeg).mods
  M2.all (fun m => decide (1 ≤ m)) && addLegs.all (fun l => l.sane && l.mods == M2) && q2.length == M2.length
    && a.qdata.all (fun r => blockCharge M2 (addLegs.map LegS.plain) r == makeValid M2 q2)

def newqOk (a : ArrS) (newq : Option Charge) : Bool :=
  match newq with
  | none => true
  | some q => q.length == a.mods.length

def qconjsOk (qconjs : List (Option Int)) : Bool :=
  qconjs.all (fun q => match q with | none => true | some v => v == 1 || v == -1)

/-- every outgoing block of every pipe leg has at least one incoming block combination (`q_map_slices` strictly
increasing: guaranteed by `LegPipe.__init__`, C06_qmap_slices; not part of `test_sanity`) -/
def pipesNonemptyB (a : ArrS) : Bool :=
  a.legs.all (fun l => match l with
    | .plain _ => true
    | .pipe p => (List.range p.leg.blockNumber).all (fun I =>
        decide (p.qMapSlices.getD I 0 < p.qMapSlices.getD (I + 1) 0)))

/-- contract of `permute`: a permutation of the indices of a leg with non-decreasing `slices` -/
def permuteOk (a : ArrS) (perm : List Nat) (axis : Int) : Bool :=
  match a.legIndex axis with
  | none => false
  | some k => decide ((a.legAt k).Shape) && perm.length == (a.legAt k).indLen && decide perm.Nodup
      && perm.all (· < (a.legAt k).indLen)

def step2 (op : Op2) (env : Env) : Option Env :=
  match op with
  | .base op => step op env
  | .flipLeg i k => (env[i]?).bind (fun a => (a.flipLeg k).map (fun b => env.set i b))
  | .gauge i axis newq nqc => (env[i]?).bind (fun a =>
      if newqOk a newq then (a.gaugeTotalCharge axis newq nqc).map (fun b => env ++ [b]) else none)
  | .addLeg i leg idx axis nz => (env[i]?).bind (fun a =>
      if leg.ok && leg.leg.mods == a.mods then (a.addLeg leg idx axis nz).map (fun b => env ++ [b]) else none)
  | .extend i axis extra => (env[i]?).bind (fun a =>
      if extra.sane && extra.mods == a.mods then (a.extend axis extra).map (fun b => env ++ [b]) else none)
  | .iproject i masks axes => (env[i]?).bind (fun a => (a.iproject masks axes).map (fun b => env.set i b))
  | .dropCharge i k => (env[i]?).bind (fun a => (a.dropCharge k).map (fun b => env ++ [b]))
  | .changeCharge i k d => (env[i]?).bind (fun a =>
      if coarserB (a.mods.getD k 1) d then (a.changeCharge k d).map (fun b => env ++ [b]) else none)
  | .addCharge i addLegs q2 nz => (env[i]?).bind (fun a =>
      if addChargeOk a addLegs q2 then (a.addCharge addLegs q2 nz).map (fun b => env ++ [b]) else none)
  | .concatenate is axis =>
      match is.mapM (fun i => env[i]?) with
      | none => none
      | some arrs =>
        if arrs.all (fun a => arrs.all (fun a' => a.mods == a'.mods)) then
          (concatenate arrs axis).map (fun b => env ++ [b]) else none
  | .trace i l1 l2 => (env[i]?).bind (fun a => (trace a l1 l2).map (fun ob => match ob with
      | some b => env ++ [b]
      | none => env))
  | .tensordot cy i j axes =>
      match env[i]?, env[j]? with
      | some a, some b => (tensordot cy a b axes).map (fun oc => match oc with
          | some c => env ++ [c]
          | none => env)
      | _, _ => none
  | .combineLegs i groups newAxes qconjs => (env[i]?).bind (fun a =>
      if qconjsOk qconjs then (a.combineLegs groups newAxes qconjs).map (fun b => env ++ [b]) else none)
  | .sortLegcharge i sort bunch => (env[i]?).bind (fun a => (a.sortLegcharge sort bunch).map (fun b => env ++ [b]))
  | .splitLegs i axes => (env[i]?).bind (fun a =>
      if pipesNonemptyB a then (a.splitLegs axes).map (fun b => env ++ [b]) else none)
  | .dropChargeAll i nz => (env[i]?).map (fun a => env ++ [a.dropChargeAll nz])
  | .permute i perm axis => (env[i]?).bind (fun a =>
      if permuteOk a perm axis then (a.permute perm axis).map (fun b => env ++ [b]) else none)

def run2 (h : List Op2) (env : Env) : Env := h.foldl (fun e op => (step2 op e).getD e) env

theorem mapM_getElem?_mem {env : Env} {is : List Nat} {arrs : List ArrS} (h : is.mapM (fun i => env[i]?) = some arrs) :
    ∀ a ∈ arrs, a ∈ env := by
  intro a ha
  obtain ⟨i, _, hi⟩ := mapM_some_mem h a ha
  exact List.mem_of_getElem? hi

theorem step2_WF (op : Op2) (env env' : Env) (h : EnvWF env) (hs : step2 op env = some env') : EnvWF env' := by
  have get : ∀ {i : Nat} {a : ArrS}, env[i]? = some a → WFP a :=
    fun hi => (WF_iff _).mp (h _ (List.mem_of_getElem? hi))
  have app : ∀ {b : ArrS}, WFP b → EnvWF (env ++ [b]) := fun hb => EnvWF_append h ((WF_iff _).mpr hb)
  have set : ∀ {b : ArrS} (i : Nat), WFP b → EnvWF (env.set i b) := fun i hb => EnvWF_set i h ((WF_iff _).mpr hb)
  cases op with
  | base op => exact step_WF op env env' h hs
  | flipLeg i k =>
    simp only [step2, Option.bind_eq_some_iff, Option.map_eq_some_iff] at hs
    obtain ⟨a, hi, b, hb, rfl⟩ := hs
    exact set i (WFP_flipLeg (get hi) hb)
  | gauge i axis newq nqc =>
    simp only [step2, Option.bind_eq_some_iff] at hs
    obtain ⟨a, hi, hs⟩ := hs
    split at hs
    · rename_i hc
      simp only [Option.map_eq_some_iff] at hs
      obtain ⟨b, hb, rfl⟩ := hs
      refine app (WFP_gauge (get hi) ?_ hb)
      intro q hq
      subst hq
      simpa [newqOk] using hc
    · cases hs
  | addLeg i leg idx axis nz =>
    simp only [step2, Option.bind_eq_some_iff] at hs
    obtain ⟨a, hi, hs⟩ := hs
    split at hs
    · rename_i hc
      simp only [Bool.and_eq_true, beq_iff_eq] at hc
      simp only [Option.map_eq_some_iff] at hs
      obtain ⟨b, hb, rfl⟩ := hs
      exact app (WFP_addLeg (get hi) hc.1 hc.2 hb).1
    · cases hs
  | extend i axis extra =>
    simp only [step2, Option.bind_eq_some_iff] at hs
    obtain ⟨a, hi, hs⟩ := hs
    split at hs
    · rename_i hc
      simp only [Bool.and_eq_true, beq_iff_eq] at hc
      simp only [Option.map_eq_some_iff] at hs
      obtain ⟨b, hb, rfl⟩ := hs
      exact app (WFP_extend (get hi) hc.1 hc.2 hb)
    · cases hs
  | iproject i masks axes =>
    simp only [step2, Option.bind_eq_some_iff, Option.map_eq_some_iff] at hs
    obtain ⟨a, hi, b, hb, rfl⟩ := hs
    exact set i (WFP_iproject (get hi) hb)
  | dropCharge i k =>
    simp only [step2, Option.bind_eq_some_iff, Option.map_eq_some_iff] at hs
    obtain ⟨a, hi, b, hb, rfl⟩ := hs
    exact app (WFP_dropCharge (get hi) hb)
  | changeCharge i k d =>
    simp only [step2, Option.bind_eq_some_iff] at hs
    obtain ⟨a, hi, hs⟩ := hs
    split at hs
    · rename_i hc
      simp only [Option.map_eq_some_iff] at hs
      obtain ⟨b, hb, rfl⟩ := hs
      exact app (WFP_changeCharge (get hi) (coarser_of_B hc) hb)
    · cases hs
  | addCharge i addLegs q2 nz =>
    simp only [step2, Option.bind_eq_some_iff] at hs
    obtain ⟨a, hi, hs⟩ := hs
    split at hs
    · rename_i hc
      unfold addChargeOk at hc
      simp only [Bool.and_eq_true, List.all_eq_true, decide_eq_true_eq, beq_iff_eq] at hc
      obtain ⟨⟨⟨h1, h2⟩, h3⟩, h4⟩ := hc
      simp only [Option.map_eq_some_iff] at hs
      obtain ⟨b, hb, rfl⟩ := hs
      exact app (WFP_addCharge (get hi) h1 h2 h3 h4 hb)
    · cases hs
  | concatenate is axis =>
    simp only [step2] at hs
    split at hs
    · cases hs
    · rename_i arrs harrs
      split at hs
      · rename_i hc
        simp only [List.all_eq_true, beq_iff_eq] at hc
        simp only [Option.map_eq_some_iff] at hs
        obtain ⟨b, hb, rfl⟩ := hs
        exact app (WFP_concatenate (fun a ha => (WF_iff _).mp (h a (mapM_getElem?_mem harrs a ha))) hc hb)
      · cases hs
  | trace i l1 l2 =>
    simp only [step2, Option.bind_eq_some_iff, Option.map_eq_some_iff] at hs
    obtain ⟨a, hi, ob, hb, rfl⟩ := hs
    cases ob with
    | none => exact h
    | some b => exact app (WFP_trace (get hi) hb)
  | tensordot cy i j axes =>
    simp only [step2] at hs
    split at hs
    · rename_i a b hi hj
      simp only [Option.map_eq_some_iff] at hs
      obtain ⟨oc, hc, rfl⟩ := hs
      cases oc with
      | none => exact h
      | some c => exact app (WFP_tensordot (get hi) (get hj) hc)
    · cases hs
  | combineLegs i groups newAxes qconjs =>
    simp only [step2, Option.bind_eq_some_iff] at hs
    obtain ⟨a, hi, hs⟩ := hs
    split at hs
    · rename_i hc
      simp only [Option.map_eq_some_iff] at hs
      obtain ⟨b, hb, rfl⟩ := hs
      refine app (WFP_combineLegs (get hi) ?_ hb).1
      intro v hv
      unfold qconjsOk at hc
      have := List.all_eq_true.1 hc _ hv
      simpa using this
    · cases hs
  | sortLegcharge i sort bunch =>
    simp only [step2, Option.bind_eq_some_iff, Option.map_eq_some_iff] at hs
    obtain ⟨a, hi, b, hb, rfl⟩ := hs
    exact app (WFP_sortLegcharge (get hi) hb).1
  | splitLegs i axes =>
    simp only [step2, Option.bind_eq_some_iff] at hs
    obtain ⟨a, hi, hs⟩ := hs
    split at hs
    · rename_i hc
      simp only [Option.map_eq_some_iff] at hs
      obtain ⟨b, hb, rfl⟩ := hs
      refine app (WFP_splitLegs (get hi) ?_ hb)
      intro p hp I hI
      unfold pipesNonemptyB at hc
      have := List.all_eq_true.1 hc _ hp
      simp only [List.all_eq_true, List.mem_range, decide_eq_true_eq] at this
      exact this I hI
    · cases hs
  | dropChargeAll i nz =>
    simp only [step2, Option.map_eq_some_iff] at hs
    obtain ⟨a, hi, rfl⟩ := hs
    exact app (WFP_dropChargeAll (get hi) nz)
  | permute i perm axis =>
    simp only [step2, Option.bind_eq_some_iff] at hs
    obtain ⟨a, hi, hs⟩ := hs
    split at hs
    · rename_i hc
      simp only [Option.map_eq_some_iff] at hs
      obtain ⟨b, hb, rfl⟩ := hs
      unfold permuteOk at hc
      cases hk : a.legIndex axis with
      | none => simp [hk] at hc
      | some k =>
        simp only [hk, Bool.and_eq_true, decide_eq_true_eq, beq_iff_eq, List.all_eq_true] at hc
        obtain ⟨⟨⟨h1, h2⟩, h3⟩, h4⟩ := hc
        exact app (WFP_permute (get hi) hk h1 (C02.perm_range_of_nodup perm _ h3 h2 h4) hb)
    · cases hs

theorem run2_WF (h : List Op2) (env : Env) (hw : EnvWF env) : EnvWF (run2 h env) := by
  induction h generalizing env with
  | nil => exact hw
  | cons op ops ih =>
    simp only [run2, List.foldl_cons]
    apply ih
    cases hs : step2 op env with
    | none => simpa using hw
    | some env' => simpa using step2_WF op env env' hw hs

end TenpyModel.C02P2
