import TenpyModel.C02.P2_Combine2
/-!
# C02 / Props2 — `combine_legs` with given pipes (`combineWithPipes`): `_combine_legs_new_axes`, the reordering by
`argsort(new_axes)`, the transposition branch.
-/
namespace TenpyModel.C02P2
open TenpyModel.Core TenpyModel.C02

/-! ### `_combine_legs_new_axes` -/

theorem combineNewAxes_spec {rank : Nat} {groups : List (List Nat)} {newAxes : Option (List Int)}
    {na transp : List Nat} (h : ArrS.combineNewAxes rank groups newAxes = some (na, transp)) :
    na.length = groups.length ∧
    transp = (((List.range na.length).mergeSort (fun i j => na.getD i 0 ≤ na.getD j 0)).foldl
      (fun (t : List (List Nat)) s => insertAt (min (na.getD s 0) t.length) (groups.getD s []) t)
      (((List.range rank).filter (fun k => !groups.flatten.contains k)).map (fun k => [k]))).flatten := by
  unfold ArrS.combineNewAxes at h
  cases newAxes with
  | none =>
    simp only [Option.some.injEq, Prod.mk.injEq] at h
    obtain ⟨h1, h2⟩ := h
    subst h1
    exact ⟨by simp, h2.symm⟩
  | some l =>
    simp only at h
    split at h
    · cases h
    · rename_i na0 hna
      simp only [Option.some.injEq, Prod.mk.injEq] at h
      obtain ⟨h1, h2⟩ := h
      subst h1
      split at hna
      · cases hna
      · rename_i hlen
        refine ⟨?_, h2.symm⟩
        rw [mapM_some_length hna]
        simpa using hlen

theorem flatten_insertAt_perm {α} (pos : Nat) (g : List α) (t : List (List α)) :
    (insertAt pos g t).flatten.Perm (g ++ t.flatten) := by
  unfold insertAt
  rw [List.flatten_append, List.flatten_cons]
  conv => rhs; rw [← List.take_append_drop pos t, List.flatten_append]
  exact List.perm_append_comm_assoc _ _ _

theorem foldl_insert_perm {α} (order : List Nat) (f : Nat → Nat) (G : Nat → List α) (t0 : List (List α)) :
    ((order.foldl (fun (t : List (List α)) s => insertAt (min (f s) t.length) (G s) t) t0).flatten).Perm
      ((order.map G).flatten ++ t0.flatten) := by
  induction order generalizing t0 with
  | nil => simp
  | cons s rest ih =>
    simp only [List.foldl_cons, List.map_cons, List.flatten_cons]
    refine (ih _).trans ?_
    refine (List.Perm.append_left _ (flatten_insertAt_perm _ _ _)).trans ?_
    rw [List.append_assoc]
    exact List.perm_append_comm_assoc _ _ _

theorem flatten_map_singleton {α} (l : List α) : (l.map (fun k => [k])).flatten = l := by
  induction l with
  | nil => rfl
  | cons x xs ih => simp [ih]

theorem map_getD_perm {α} (order : List Nat) (l : List α) (d : α) (hp : order.Perm (List.range l.length)) :
    (order.map (fun s => l.getD s d)).Perm l := by
  have := hp.map (fun s => l.getD s d)
  rwa [C02.map_getD_range] at this

/-! ### permuted legs -/

theorem permute_getElem? {α} (axes : List Nat) (legs : List α) (hlt : ∀ i ∈ axes, i < legs.length) (j : Nat)
    (hj : j < axes.length) : (axes.filterMap (fun i => legs[i]?))[j]? = legs[axes.getD j 0]? := by
  induction axes generalizing j with
  | nil => simp at hj
  | cons i axes ih =>
    have hi : i < legs.length := hlt i (by simp)
    simp only [List.filterMap_cons, List.getElem?_eq_getElem hi]
    cases j with
    | zero => simp [hi]
    | succ j =>
      simp only [List.getElem?_cons_succ, List.getD_cons_succ]
      exact ih (fun k hk => hlt k (by simp [hk])) j (by simpa using hj)

theorem permuteAxes_legAt (a : ArrS) (transp : List Nat) (hlt : ∀ i ∈ transp, i < a.legs.length) (j : Nat)
    (hj : j < transp.length) : (a.permuteAxes transp).legAt j = a.legAt (transp.getD j 0) := by
  unfold ArrS.legAt ArrS.legSAt
  show (match (transp.filterMap (fun i => a.legs[i]?))[j]? with | some l => l | none => _).leg = _
  rw [permute_getElem? transp a.legs hlt j hj]
  rfl

/-! ### reordering of the groups -/

theorem zip3_reorder (order : List Nat) (na : List Nat) (groups : List (List Nat)) (pipes : List Pipe)
    (hlt : ∀ s ∈ order, s < groups.length) (hpl : pipes.length = groups.length) :
    (order.filterMap (fun s => pipes[s]?)).length = order.length ∧
    ∀ x ∈ (order.map (fun s => na.getD s 0)).zip
        ((order.map (fun s => groups.getD s [])).zip (order.filterMap (fun s => pipes[s]?))),
      (x.2.1, x.2.2) ∈ groups.zip pipes := by
  induction order with
  | nil => simp
  | cons s rest ih =>
    have hs : s < groups.length := hlt s (by simp)
    have hsp : s < pipes.length := by omega
    have ih' := ih (fun t ht => hlt t (by simp [ht]))
    simp only [List.filterMap_cons, List.getElem?_eq_getElem hsp, List.map_cons, List.length_cons, ih'.1,
      List.zip_cons_cons, List.mem_cons, true_and]
    intro x hx
    rcases hx with rfl | hx
    · simp only
      rw [List.mem_iff_getElem]
      refine ⟨s, by simp; omega, ?_⟩
      simp [List.getD, hs]
    · exact ih'.2 x hx

theorem zip3_map_mid {α β γ} (F : β → β) (na : List α) (gs : List β) (ps : List γ) :
    na.zip ((gs.map F).zip ps) = (na.zip (gs.zip ps)).map (fun x => (x.1, F x.2.1, x.2.2)) := by
  induction na generalizing gs ps with
  | nil => simp
  | cons n na ih =>
    cases gs with
    | nil => simp
    | cons g gs =>
      cases ps with
      | nil => simp
      | cons p ps => simp [ih]

/-- a group seen from the transposed array -/
theorem GoodPipe_permute {a : ArrS} (h : WFP a) (transp : List Nat) (hp : transp.Perm (List.range a.rank))
    {g : List Nat} {p : Pipe} (hg : GoodPipe a g p) :
    GoodPipe (a.permuteAxes transp) (g.map (fun k => (inversePerm transp).getD k 0)) p := by
  have hlen : transp.length = a.rank := by simpa using hp.length_eq
  have hp' : transp.Perm (List.range transp.length) := by rw [hlen]; exact hp
  have hlt : ∀ i ∈ transp, i < a.legs.length := fun i hi => List.mem_range.mp (hp.mem_iff.mp hi)
  have hrank : (a.permuteAxes transp).rank = a.rank := by
    have := WFP_permuteAxes h transp hp
    unfold ArrS.rank ArrS.permuteAxes
    simp only
    have hfm : (transp.filterMap (fun i => a.legs[i]?)).length = transp.length := by
      clear hp hp' hlen this
      induction transp with
      | nil => rfl
      | cons i t ih =>
        have hi := hlt i (by simp)
        simp only [List.filterMap_cons, List.getElem?_eq_getElem hi, List.length_cons,
          ih (fun k hk => hlt k (by simp [hk]))]
    rw [hfm, hlen]; rfl
  refine ⟨?_, ?_, hg.ok, ?_, hg.lookup⟩
  · intro k hk
    obtain ⟨k0, hk0, rfl⟩ := List.mem_map.1 hk
    rw [hrank, ← hlen]
    exact (inversePerm_spec transp hp' k0 (by rw [hlen]; exact hg.lt k0 hk0)).1
  · rw [hg.legs, List.map_map]
    apply List.map_congr_left
    intro k hk
    have hs := inversePerm_spec transp hp' k (by rw [hlen]; exact hg.lt k hk)
    simp only [Function.comp]
    rw [permuteAxes_legAt a transp hlt _ hs.1, hs.2]
  · rw [(permuteAxes_mods h transp hp).1]; exact hg.mods

theorem WFP_combineWithPipes {a b : ArrS} {groups : List (List Nat)} {newAxes : Option (List Int)}
    {pipes : List Pipe} (h : WFP a) (hgood : ∀ x ∈ groups.zip pipes, GoodPipe a x.1 x.2)
    (hb : a.combineWithPipes groups newAxes pipes = some b) : WFP b ∧ b.qtotal = a.qtotal := by
  unfold ArrS.combineWithPipes at hb
  split at hb
  · cases hb
  · rename_i hc1
    simp only [Bool.or_eq_true, List.any_eq_true, ne_eq, decide_eq_true_eq, not_or, Decidable.not_not] at hc1
    have hpl : pipes.length = groups.length := hc1.2
    split at hb
    · cases hb
    · rename_i hc2
      simp only [Bool.or_eq_true, List.any_eq_true, ge_iff_le, decide_eq_true_eq, Bool.not_eq_true',
        decide_eq_false_iff_not, not_or, not_exists, not_and, Nat.not_le, Decidable.not_not] at hc2
      obtain ⟨hglt, hnd⟩ := hc2
      cases hna : ArrS.combineNewAxes a.rank groups newAxes with
      | none => simp [hna] at hb
      | some nt =>
        obtain ⟨na, transp⟩ := nt
        simp only [hna] at hb
        obtain ⟨hnal, htr⟩ := combineNewAxes_spec hna
        split at hb
        · cases hb
        · generalize hord : (List.range na.length).mergeSort (fun i j => na.getD i 0 ≤ na.getD j 0) = order at hb htr
          have hoperm : order.Perm (List.range na.length) := by rw [← hord]; exact List.mergeSort_perm _ _
          have holt : ∀ s ∈ order, s < groups.length := by
            intro s hs; rw [← hnal]; exact List.mem_range.1 (hoperm.mem_iff.1 hs)
          obtain ⟨hpl', hzip⟩ := zip3_reorder order na groups pipes holt hpl
          have hgperm : (order.map (fun s => groups.getD s [])).Perm groups :=
            map_getD_perm order groups [] (by rw [← hnal]; exact hoperm)
          have hnd' : (order.map (fun s => groups.getD s [])).flatten.Nodup :=
            (hgperm.flatten.nodup_iff).2 hnd
          have hgood' : ∀ x ∈ (order.map (fun s => na.getD s 0)).zip
              ((order.map (fun s => groups.getD s [])).zip (order.filterMap (fun s => pipes[s]?))),
              GoodPipe a x.2.1 x.2.2 := fun x hx => hgood _ (hzip x hx)
          -- `transp` is a permutation of the axes
          have htp : transp.Perm (List.range a.rank) := by
            rw [htr]
            refine (foldl_insert_perm order _ _ _).trans ?_
            rw [flatten_map_singleton]
            refine (List.Perm.append_right _ hgperm.flatten).trans ?_
            exact List.perm_append_comm.trans (perm_not_append groups.flatten a.rank hnd hglt)
          split at hb
          · exact WFP_combineStd h (by simp) (by rw [hpl']; simp) hgood' hnd' hb
          · have ha' := WFP_permuteAxes h transp htp
            have hlen : transp.length = a.rank := by simpa using htp.length_eq
            have hp' : transp.Perm (List.range transp.length) := by rw [hlen]; exact htp
            have hq' : (a.permuteAxes transp).qtotal = a.qtotal := rfl
            rw [← hq']
            refine WFP_combineStd ha' (by simp) (by rw [hpl']; simp) ?_ ?_ hb
            · intro x hx
              rw [zip3_map_mid] at hx
              obtain ⟨x0, hx0, rfl⟩ := List.mem_map.1 hx
              exact GoodPipe_permute h transp htp (hgood' x0 hx0)
            · rw [← List.map_flatten]
              have hfl : ∀ k ∈ (order.map (fun s => groups.getD s [])).flatten, k < transp.length := by
                intro k hk; rw [hlen]; exact hglt k (hgperm.flatten.mem_iff.1 hk)
              unfold List.Nodup
              rw [List.pairwise_map]
              refine hnd'.imp_of_mem ?_
              intro k1 k2 hk1 hk2 hne e
              apply hne
              have s1 := (inversePerm_spec transp hp' k1 (hfl k1 hk1)).2
              have s2 := (inversePerm_spec transp hp' k2 (hfl k2 hk2)).2
              rw [← s1, ← s2, e]

end TenpyModel.C02P2
