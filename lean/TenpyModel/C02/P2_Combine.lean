import TenpyModel.C02.P2_Pipe
import TenpyModel.C02.P2_LegOps
import TenpyModel.C02.P2_Tensordot2
/-!
# C02 / Props2 — `combine_legs`, data part in standard form (`combineStd`): every row is mapped through `q_map`
of the pipes; the charge of the pipe's block is the fused charge of the combined blocks (`Pipe.ok`: C06 fusion
rule), so the charge rule is kept; lexsort + first of each run gives a strictly sorted row list.
-/
namespace TenpyModel.C02P2
open TenpyModel.Core TenpyModel.C02

/-- what `combine_legs` needs to know about the pipe `p` used for the group `g` of legs of `a` -/
structure GoodPipe (a : ArrS) (g : List Nat) (p : Pipe) : Prop where
  lt : ∀ k ∈ g, k < a.rank
  legs : p.legs = g.map (fun k => a.legAt k)
  ok : (LegS.pipe p).ok = true
  mods : p.leg.mods = a.mods
  lookup : PipeLookup p

/-- block index of the pipe for the row `r` -/
def isOf (p : Pipe) (g : List Nat) (r : List Nat) : Nat :=
  (p.qMap.getD (p.mapIncomingQind (selectCols g r 0)) []).getD 2 0

/-! ### inserting one leg / one column -/

theorem rowInRange_insertAt {legs : List LegS} {r : List Nat} (h : rowInRange legs r = true) (pos : Nat) (L : LegS)
    (q : Nat) (hq : q < L.blockNumber) : rowInRange (insertAt pos L legs) (insertAt pos q r) = true := by
  have hlen := ((rowInRange_iff _ _).mp h).1
  unfold rowInRange at *
  simp only [Bool.and_eq_true, beq_iff_eq, List.all_eq_true] at h ⊢
  refine ⟨by simp [insertAt_length, hlen], ?_⟩
  rw [zipWith_insertAt _ _ _ _ _ _ hlen.symm]
  intro b hb
  rcases mem_insertAt hb with rfl | hb
  · simpa using hq
  · exact h.2 b hb

theorem blockCharge_insertAt {legs : List LegS} {M : List Nat} (hok : ∀ l ∈ legs, l.ok = true ∧ l.leg.mods = M)
    {r : List Nat} (h : rowInRange legs r = true) (pos : Nat) (L : LegS) (hL : L.ok = true) (hLm : L.leg.mods = M)
    (q : Nat) (hq : q < L.blockNumber) :
    blockCharge M (insertAt pos L legs) (insertAt pos q r) =
      makeValid M (cadd (L.leg.getCharge q) (rawCharge M.length legs r)) := by
  have hlen := ((rowInRange_iff _ _).mp h).1
  unfold blockCharge
  rw [rawCharge_eq, rawCharge_eq]
  unfold chList
  rw [zipWith_insertAt _ _ _ _ _ _ hlen.symm]
  have := csum_insertAt M.length pos (L.leg.getCharge q) (chList legs r)
    (by rw [← hLm]; exact Leg.getCharge_length (LegS.ok_sane hL) hq) (chList_lengths hok h)
  unfold chList at this
  rw [this]

/-! ### the charge of the pipe's block -/

theorem rowInRange_length {legs : List LegS} {r : List Nat} (h : rowInRange legs r = true) : r.length = legs.length :=
  ((rowInRange_iff _ _).mp h).1

theorem selectCols_inRange {a : ArrS} (h : WFP a) {r : List Nat} (hr : r ∈ a.qdata) (g : List Nat)
    (hlt : ∀ k ∈ g, k < a.rank) :
    InRange (selectCols g r 0) ((g.map (fun k => a.legAt k)).map Leg.blockNumber) := by
  induction g with
  | nil => trivial
  | cons k g ih =>
    have hk : k < a.legs.length := hlt k (by simp)
    refine ⟨?_, ih (fun j hj => hlt j (by simp [hj]))⟩
    have := ((rowInRange_iff _ _).mp (h.rows_ok r hr).1).2 k hk
    show r.getD k 0 < (a.legAt k).blockNumber
    rw [legAt_eq hk]; exact this

theorem chList_group {a : ArrS} (h : WFP a) {r : List Nat} (hr : r ∈ a.qdata) (g : List Nat)
    (hlt : ∀ k ∈ g, k < a.rank) :
    chList ((g.map (fun k => a.legAt k)).map LegS.plain) (selectCols g r 0)
      = g.map (fun k => (chList a.legs r).getD k []) := by
  unfold selectCols
  induction g with
  | nil => simp [chList]
  | cons k g ih =>
    have hk : k < a.legs.length := hlt k (by simp)
    have ih' := ih (fun j hj => hlt j (by simp [hj]))
    unfold chList at ih' ⊢
    simp only [List.map_cons, List.zipWith_cons_cons, ih']
    congr 1
    have := chList_getD (h.row_length hr) hk
    unfold chList at this
    rw [this, legAt_eq hk]
    rfl

/-- the block of the pipe selected for row `r` is in range and carries the fused charge of the combined blocks -/
theorem pipe_block {a : ArrS} (h : WFP a) {r : List Nat} (hr : r ∈ a.qdata) {g : List Nat} {p : Pipe}
    (hg : GoodPipe a g p) :
    isOf p g r < p.leg.blockNumber ∧
      makeValid a.mods (p.leg.getCharge (isOf p g r)) =
        makeValid a.mods (csum a.mods.length (g.map (fun k => (chList a.legs r).getD k []))) := by
  have hin := selectCols_inRange h hr g hg.lt
  have hin' : InRange (selectCols g r 0) p.subqshape := by
    unfold Pipe.subqshape; rw [hg.legs]; exact hin
  obtain ⟨hj, hdrop⟩ := hg.lookup _ hin'
  have hok := hg.ok
  simp only [LegS.ok, Bool.and_eq_true] at hok
  have hpok := hok.2
  unfold C02.Pipe.ok at hpok
  simp only [Bool.and_eq_true, List.all_eq_true, Bool.not_eq_true', beq_iff_eq, decide_eq_true_eq] at hpok
  have hrow := hpok.1.1.1.1.2 _ (getD_mem p.qMap _ [] hj)
  unfold pipeRowOk at hrow
  simp only [Bool.and_eq_true, beq_iff_eq, decide_eq_true_eq] at hrow
  obtain ⟨⟨⟨_, hr2⟩, _⟩, hr4⟩ := hrow
  refine ⟨hr2, ?_⟩
  unfold isOf
  rw [hg.mods] at hr4
  rw [hr4, hdrop, hg.legs]
  unfold blockCharge
  rw [rawCharge_eq, chList_group h hr g hg.lt]

/-! ### the joint fold over the pipes -/

def legsStep (ls : List LegS) (x : Nat × List Nat × Pipe) : List LegS :=
  insertAt (min x.1 ls.length) (.pipe x.2.2) ls

def rowStep (r : List Nat) (row : List Nat) (x : Nat × List Nat × Pipe) : List Nat :=
  insertAt (min x.1 row.length) (isOf x.2.2 x.2.1 r) row

def colsStep (cols : List Nat) (x : Nat × List Nat × Pipe) : List Nat := x.2.1 ++ cols

theorem combine_fold {a : ArrS} (h : WFP a) {r : List Nat} (hr : r ∈ a.qdata)
    (ngps : List (Nat × List Nat × Pipe)) (hgood : ∀ x ∈ ngps, GoodPipe a x.2.1 x.2.2)
    (legsC : List LegS) (rowC : List Nat) (cols : List Nat)
    (hok : ∀ l ∈ legsC, l.ok = true ∧ l.leg.mods = a.mods) (hrow : rowInRange legsC rowC = true)
    (hcols : ∀ k ∈ cols, k < a.rank)
    (hch : blockCharge a.mods legsC rowC =
      makeValid a.mods (csum a.mods.length (cols.map (fun k => (chList a.legs r).getD k [])))) :
    (∀ l ∈ ngps.foldl legsStep legsC, l.ok = true ∧ l.leg.mods = a.mods) ∧
    rowInRange (ngps.foldl legsStep legsC) (ngps.foldl (rowStep r) rowC) = true ∧
    (∀ k ∈ ngps.foldl colsStep cols, k < a.rank) ∧
    blockCharge a.mods (ngps.foldl legsStep legsC) (ngps.foldl (rowStep r) rowC) =
      makeValid a.mods (csum a.mods.length ((ngps.foldl colsStep cols).map (fun k => (chList a.legs r).getD k []))) := by
  induction ngps generalizing legsC rowC cols with
  | nil => exact ⟨hok, hrow, hcols, hch⟩
  | cons x ngps ih =>
    simp only [List.foldl_cons]
    have hg := hgood x (by simp)
    obtain ⟨hlt, hcharge⟩ := pipe_block h hr hg
    have hlen := rowInRange_length hrow
    have hpos : min x.1 rowC.length = min x.1 legsC.length := by rw [hlen]
    have hclen : ∀ c ∈ (chList a.legs r), c.length = a.mods.length := chList_lengths h.legs_ok (h.rows_ok r hr).1
    have hcl : (chList a.legs r).length = a.rank := by simp [chList, h.row_length hr, ArrS.rank]
    have hmaplen : ∀ (cs : List Nat), (∀ k ∈ cs, k < a.rank) →
        ∀ c ∈ cs.map (fun k => (chList a.legs r).getD k []), c.length = a.mods.length := by
      intro cs hcs c hc
      obtain ⟨k, hk, rfl⟩ := List.mem_map.1 hc
      exact hclen _ (getD_mem _ _ _ (by rw [hcl]; exact hcs k hk))
    apply ih (fun y hy => hgood y (by simp [hy]))
    · intro l hl
      unfold legsStep at hl
      rcases mem_insertAt hl with rfl | hl
      · exact ⟨hg.ok, hg.mods⟩
      · exact hok l hl
    · unfold legsStep rowStep
      rw [hpos]
      exact rowInRange_insertAt hrow _ _ _ hlt
    · intro k hk
      unfold colsStep at hk
      rcases List.mem_append.1 hk with hk | hk
      · exact hg.lt k hk
      · exact hcols k hk
    · unfold legsStep rowStep colsStep
      rw [hpos, blockCharge_insertAt hok hrow _ _ hg.ok hg.mods _ hlt, List.map_append,
        csum_append _ _ _ (hmaplen _ hg.lt) (hmaplen _ hcols)]
      unfold blockCharge at hch
      rw [← C02.makeValid_add, hch, C02.makeValid_add]
      exact mv_congr_left a.mods _ hcharge

/-! ### all columns are used exactly once -/

theorem foldl_colsStep_perm (ngps : List (Nat × List Nat × Pipe)) (cols : List Nat) :
    (ngps.foldl colsStep cols).Perm ((ngps.map (fun x => x.2.1)).flatten ++ cols) := by
  induction ngps generalizing cols with
  | nil => simp
  | cons x ngps ih =>
    simp only [List.foldl_cons, List.map_cons, List.flatten_cons]
    refine (ih _).trans ?_
    unfold colsStep
    rw [List.append_assoc]
    refine (List.perm_append_comm_assoc _ _ _)

theorem blockCharge_all_cols {a : ArrS} (h : WFP a) {r : List Nat} (hr : r ∈ a.qdata) (cols : List Nat)
    (hp : cols.Perm (List.range a.rank)) :
    makeValid a.mods (csum a.mods.length (cols.map (fun k => (chList a.legs r).getD k []))) = a.qtotal := by
  have h0 := h.rows_ok r hr
  have hlen := chList_lengths h.legs_ok h0.1
  have hcl : (chList a.legs r).length = a.rank := by simp [chList, h.row_length hr, ArrS.rank]
  have hp' : (cols.map (fun i => (chList a.legs r).getD i [])).Perm (chList a.legs r) := by
    have := hp.map (fun i => (chList a.legs r).getD i [])
    rw [← hcl, C02.map_getD_range] at this
    exact this
  rw [csum_perm _ hp' (fun c hc => hlen c (hp'.mem_iff.mp hc)), ← h0.2]
  rfl

end TenpyModel.C02P2
