import TenpyModel.C02.Props
/-!
# C02 part 2 — removing columns: `take_slice` (qtotal − removed charges, row filter, flag kept).
-/
open TenpyModel.Core TenpyModel.C02
namespace TenpyModel.C02

theorem keepIdx_length_eq2 {α β} (p : Nat → Bool) (i : Nat) (a : List α) (b : List β) (h : a.length = b.length) :
    (keepIdx p i a).length = (keepIdx p i b).length := by
  induction a generalizing b i with
  | nil => cases b with
    | nil => rfl
    | cons y b => simp at h
  | cons x a ih =>
    cases b with
    | nil => simp at h
    | cons y b =>
      simp only [keepIdx]
      split <;> simp [ih _ b (by simpa using h)]

theorem filterMap_congr_mem {α β} {f g : α → Option β} {l : List α} (h : ∀ x ∈ l, f x = g x) :
    l.filterMap f = l.filterMap g := by
  induction l with
  | nil => rfl
  | cons x xs ih =>
    simp only [List.filterMap_cons, h x (by simp), ih (fun y hy => h y (by simp [hy]))]

theorem filterMap_filter_eq {α} (p : Nat → Bool) (l : List α) (i : Nat) :
    ((List.range' i l.length).filter p).filterMap (fun c => l[c - i]?) = keepIdx p i l := by
  induction l generalizing i with
  | nil => simp [keepIdx]
  | cons x xs ih =>
    simp only [List.length_cons, List.range'_succ, keepIdx]
    have hrest : ((List.range' (i + 1) xs.length).filter p).filterMap (fun c => (x :: xs)[c - i]?)
        = ((List.range' (i + 1) xs.length).filter p).filterMap (fun c => xs[c - (i + 1)]?) := by
      apply filterMap_congr_mem
      intro c hc
      have hc' := (List.mem_filter.mp hc).1
      have : i + 1 ≤ c := (List.mem_range'_1.mp hc').1
      have e : c - i = (c - (i + 1)) + 1 := by omega
      rw [e]; simp
    by_cases hp : p i = true
    · simp only [List.filter_cons, hp, ↓reduceIte, List.filterMap_cons, Nat.sub_self, List.getElem?_cons_zero, hrest, ih]
    · simp only [List.filter_cons, hp, Bool.false_eq_true, ↓reduceIte, hrest, ih]

theorem selectCols_keep_eq (p : Nat → Bool) (r : List Nat) :
    selectCols ((List.range r.length).filter p) r 0 = keepIdx p 0 r := by
  have := selectCols_filter_eq p 0 r 0
  simpa [selectCols, List.range_eq_range'] using this

theorem legs_keep_eq {α} (p : Nat → Bool) (l : List α) :
    ((List.range l.length).filter p).filterMap (fun k => l[k]?) = keepIdx p 0 l := by
  have := filterMap_filter_eq p l 0
  simpa [List.range_eq_range'] using this

theorem rowInRange_keepIdx (p : Nat → Bool) {legs : List LegS} {r : List Nat} (h : rowInRange legs r = true) :
    rowInRange (keepIdx p 0 legs) (keepIdx p 0 r) = true := by
  unfold rowInRange at *
  simp only [Bool.and_eq_true, beq_iff_eq, List.all_eq_true] at h ⊢
  refine ⟨keepIdx_length_eq2 p 0 r legs h.1, ?_⟩
  rw [← keepIdx_zipWith]
  intro b hb
  exact h.2 b (keepIdx_mem _ _ _ _ hb)

theorem cadd_sub_cancel (n : Nat) (K D : Charge) (hK : K.length = n) (hD : D.length = n) :
    cadd (cadd K D) (cneg D) = K := by
  rw [cadd_assoc, cadd_cneg_self, hD, cadd_czero_right n K hK]

theorem foldl_sub_eq (n : Nat) (q : Charge) (cs : List Charge) (hq : q.length = n) (h : ∀ c ∈ cs, c.length = n) :
    cs.foldl (fun acc c => cadd acc (cneg c)) q = cadd q (cneg (csum n cs)) := by
  induction cs generalizing q with
  | nil => simp [csum_nil, cneg_czero, cadd_czero_right n q hq]
  | cons c cs ih =>
    have hc := h c (by simp)
    have hcs : ∀ c ∈ cs, c.length = n := fun c hc => h c (by simp [hc])
    simp only [List.foldl_cons]
    rw [ih _ (by simp [cadd_length, cneg_length, hq, hc]) hcs, csum_cons n c cs hc hcs, cneg_cadd, cadd_assoc]

/-- charge of the kept columns = total charge − charge of the dropped columns (before `make_valid`) -/
theorem csum_keep_eq (n : Nat) (p : Nat → Bool) (cs : List Charge) (h : ∀ c ∈ cs, c.length = n) :
    csum n (keepIdx p 0 cs) = cadd (csum n cs) (cneg (csum n (keepIdx (fun j => !p j) 0 cs))) := by
  have hk1 : ∀ d ∈ keepIdx p 0 cs, d.length = n := fun d hd => h d (keepIdx_mem _ _ _ _ hd)
  have hk2 : ∀ d ∈ keepIdx (fun j => !p j) 0 cs, d.length = n := fun d hd => h d (keepIdx_mem _ _ _ _ hd)
  rw [csum_split n p 0 cs h, cadd_sub_cancel n _ _ (csum_length n _ hk1) (csum_length n _ hk2)]


theorem takeWhile_length_lt {α} (p : α → Bool) (l : List α) (h : ∃ x ∈ l, p x = false) :
    (l.takeWhile p).length < l.length := by
  induction l with
  | nil => obtain ⟨x, hx, _⟩ := h; cases hx
  | cons y ys ih =>
    simp only [List.takeWhile_cons]
    split
    · rename_i hy
      obtain ⟨x, hx, hpx⟩ := h
      rcases List.mem_cons.mp hx with rfl | hx
      · rw [hy] at hpx; cases hpx
      · simpa using ih ⟨x, hx, hpx⟩
    · simp

theorem Leg.sane_slices {l : Leg} (h : l.sane = true) :
    l.slices.length = l.blockNumber + 1 ∧ l.slices.head? = some 0 := by
  unfold Leg.sane at h
  simp only [Bool.and_eq_true, beq_iff_eq] at h
  exact ⟨h.1.1.1.1.1, h.1.1.1.1.2⟩

/-- the block index returned by `get_qindex` is a valid one -/
theorem Leg.getQindex_lt {l : Leg} (h : l.sane = true) {i : Int} {q w : Nat} (hq : l.getQindex i = some (q, w)) :
    q < l.blockNumber := by
  obtain ⟨hlen, hhead⟩ := Leg.sane_slices h
  dsimp only [Leg.getQindex] at hq
  generalize (if i < 0 then i + (l.indLen : Int) else i) = j at hq
  by_cases h1 : j < 0
  · simp [h1] at hq
  · by_cases h2 : j ≥ (l.indLen : Int)
    · simp [h1, h2] at hq
    · simp only [h1, h2, ↓reduceIte, Option.some.injEq, Prod.mk.injEq] at hq
      obtain ⟨hq, _⟩ := hq
      subst hq
      have hk : j.toNat < l.indLen := by omega
      have hne : l.slices ≠ [] := by intro e; simp [e] at hlen
      have hlast : l.indLen = l.slices.getLast hne := by
        simp [Leg.indLen, List.getLast?_eq_getLast hne]
      have hm : (l.slices.takeWhile (fun s => decide (s ≤ j.toNat))).length < l.slices.length := by
        apply takeWhile_length_lt
        exact ⟨l.slices.getLast hne, List.getLast_mem hne, by simp; omega⟩
      unfold Leg.bisectRight
      have hbn : 0 < l.blockNumber := by
        apply Classical.byContradiction
        intro hc
        have h0 : l.blockNumber = 0 := by omega
        have h1len : l.slices.length = 1 := by omega
        match hs : l.slices, h1len with
        | [s], _ =>
          simp [hs] at hhead
          subst hhead
          simp [Leg.indLen, hs] at hk
      omega


theorem mapM_some_length {α β} {f : α → Option β} {l : List α} {l' : List β} (h : l.mapM f = some l') :
    l'.length = l.length := by
  induction l generalizing l' with
  | nil => simp at h; subst h; rfl
  | cons a l ih =>
    rw [List.mapM_cons] at h
    cases hfa : f a with
    | none => simp [hfa] at h
    | some b =>
      cases hl : l.mapM f with
      | none => simp [hfa, hl] at h
      | some bs => simp [hfa, hl] at h; subst h; simp [ih hl]

theorem mapM_some_getElem {α β} {f : α → Option β} {l : List α} {l' : List β} (h : l.mapM f = some l')
    (j : Nat) (h1 : j < l.length) (h2 : j < l'.length) : f l[j] = some l'[j] := by
  induction l generalizing l' j with
  | nil => simp at h1
  | cons a l ih =>
    rw [List.mapM_cons] at h
    cases hfa : f a with
    | none => simp [hfa] at h
    | some b =>
      cases hl : l.mapM f with
      | none => simp [hfa, hl] at h
      | some bs =>
        simp [hfa, hl] at h; subst h
        cases j with
        | zero => simpa using hfa
        | succ j => simpa using ih hl j (by simpa using h1) (by simpa using h2)

theorem legAt_eq {a : ArrS} {k : Nat} (hk : k < a.legs.length) : a.legAt k = (a.legs[k]).leg := by
  simp [ArrS.legAt, ArrS.legSAt, List.getElem?_eq_getElem hk]

theorem chList_getD {legs : List LegS} {r : List Nat} (hl : r.length = legs.length) {k : Nat} (hk : k < legs.length) :
    (chList legs r).getD k [] = (legs[k]).leg.getCharge (r.getD k 0) := by
  have hz : k < (chList legs r).length := by simp [chList]; omega
  have hr : k < r.length := by omega
  simp only [List.getD, List.getElem?_eq_getElem hz, List.getElem?_eq_getElem hr, Option.getD_some]
  simp [chList]

theorem filter_contains_perm (axn : List Nat) (n : Nat) (hnd : axn.Nodup) (hlt : ∀ k ∈ axn, k < n) :
    ((List.range n).filter (fun k => axn.contains k)).Perm axn := by
  rw [List.perm_ext_iff_of_nodup (List.nodup_range.filter _) hnd]
  intro k
  simp only [List.mem_filter, List.mem_range, List.contains_iff_mem]
  exact ⟨fun h => h.2, fun h => ⟨hlt k h, h⟩⟩


theorem map_zip_map_right {α β γ} (l : List α) (g : α → β) (f : α × β → γ) :
    (l.zip (l.map g)).map f = l.map (fun x => f (x, g x)) := by
  induction l with
  | nil => rfl
  | cons x xs ih => simp [ih]

/-- removing the columns `axn` (with prescribed block indices `qis`) from legs and rows -/
theorem WFP_dropCols {a : ArrS} (h : WFP a) (axn qis : List Nat) (hnd : axn.Nodup) (hlt : ∀ k ∈ axn, k < a.rank)
    (hql : qis.length = axn.length)
    (hqb : ∀ j (h1 : j < axn.length) (h2 : j < qis.length), qis[j] < (a.legAt axn[j]).blockNumber)
    (hkeep : keepIdx (fun k => !axn.contains k) 0 a.legs ≠ []) :
    WFP { legs := keepIdx (fun k => !axn.contains k) 0 a.legs,
          qtotal := makeValid a.mods (((axn.zip qis).map (fun aq => (a.legAt aq.1).getCharge aq.2)).foldl
                      (fun acc c => cadd acc (cneg c)) a.qtotal),
          qdata := (a.qdata.filter (fun r => selectCols axn r 0 == qis)).map (keepIdx (fun k => !axn.contains k) 0),
          sorted := a.sorted } := by
  generalize hp : (fun k => !axn.contains k) = p at *
  have hpf : ∀ k, p k = false ↔ k ∈ axn := by intro k; rw [← hp]; simp
  have hmemL : ∀ l ∈ keepIdx p 0 a.legs, l ∈ a.legs := fun l hl => keepIdx_mem _ _ _ _ hl
  have hm : ArrS.modsOf (keepIdx p 0 a.legs) = a.mods := modsOf_eq_of_mem hkeep (fun l hl => (h.legs_ok l (hmemL l hl)).2)
  have hqlen : a.qtotal.length = a.mods.length := checkValid_length h.qtotal_valid
  -- the removed charges
  have hrem : ∀ c ∈ (axn.zip qis).map (fun aq => (a.legAt aq.1).getCharge aq.2), c.length = a.mods.length := by
    intro c hc
    obtain ⟨⟨ax, q⟩, haq, rfl⟩ := List.mem_map.mp hc
    obtain ⟨j, hj, hje⟩ := List.mem_iff_getElem.mp haq
    simp only [List.length_zip] at hj
    have hj1 : j < axn.length := by omega
    have hj2 : j < qis.length := by omega
    simp only [List.getElem_zip, Prod.mk.injEq] at hje
    obtain ⟨rfl, rfl⟩ := hje
    have hk := hlt axn[j] (List.getElem_mem hj1)
    have hok := h.legs_ok (a.legs[axn[j]]'hk) (List.getElem_mem hk)
    have := hqb j hj1 hj2
    rw [legAt_eq hk] at this ⊢
    rw [← hok.2]
    exact Leg.getCharge_length (LegS.ok_sane hok.1) this
  refine ⟨hkeep, ?_, ?_, ?_, ?_, ?_, ?_⟩
  · show ∀ m ∈ ArrS.modsOf (keepIdx p 0 a.legs), 1 ≤ m
    rw [hm]; exact h.mods_pos
  · intro l hl
    show l.ok = true ∧ l.leg.mods = ArrS.modsOf (keepIdx p 0 a.legs)
    rw [hm]; exact h.legs_ok l (hmemL l hl)
  · show checkValid (ArrS.modsOf (keepIdx p 0 a.legs)) (makeValid a.mods _) = true
    rw [hm]
    apply checkValid_makeValid _ h.mods_pos
    rw [foldl_sub_eq _ _ _ hqlen hrem]
    simp [cadd_length, cneg_length, hqlen, csum_length _ _ hrem]
  · intro r' hr'
    simp only [List.mem_map, List.mem_filter, beq_iff_eq] at hr'
    obtain ⟨r, ⟨hr, hsel⟩, rfl⟩ := hr'
    have h0 := h.rows_ok r hr
    have hlen := h.row_length hr
    show rowInRange (keepIdx p 0 a.legs) (keepIdx p 0 r) = true ∧
      blockCharge (ArrS.modsOf (keepIdx p 0 a.legs)) (keepIdx p 0 a.legs) (keepIdx p 0 r) = makeValid a.mods _
    rw [hm]
    refine ⟨rowInRange_keepIdx p h0.1, ?_⟩
    have hcs := chList_lengths h.legs_ok h0.1
    unfold blockCharge
    rw [rawCharge_eq]
    have hkz : chList (keepIdx p 0 a.legs) (keepIdx p 0 r) = keepIdx p 0 (chList a.legs r) := by
      unfold chList; rw [keepIdx_zipWith]
    rw [hkz, csum_keep_eq _ p _ hcs, foldl_sub_eq _ _ _ hqlen hrem, ← h0.2]
    unfold blockCharge
    rw [rawCharge_eq, makeValid_add_left]
    congr 3
    -- the dropped part of this row is the list of removed charges, up to the order
    have hcl : (chList a.legs r).length = a.rank := by simp [chList, hlen, ArrS.rank]
    have hD : keepIdx (fun j => !p j) 0 (chList a.legs r)
        = ((List.range a.rank).filter (fun k => axn.contains k)).map (fun k => (chList a.legs r).getD k []) := by
      have := selectCols_filter_eq (fun j => !p j) ([] : Charge) (chList a.legs r) 0
      rw [← this, hcl, ← hp]
      simp [List.range_eq_range']
    have hR : (axn.zip qis).map (fun aq => (a.legAt aq.1).getCharge aq.2)
        = axn.map (fun k => (chList a.legs r).getD k []) := by
      rw [← hsel]
      unfold selectCols
      rw [map_zip_map_right]
      apply List.map_congr_left
      intro k hk
      have hk' := hlt k hk
      rw [chList_getD hlen hk', legAt_eq hk']
    rw [hD, hR]
    apply csum_perm
    · exact (filter_contains_perm axn a.rank hnd hlt).map _
    · intro c hc
      obtain ⟨k, hk, rfl⟩ := List.mem_map.mp hc
      have hk' : k < a.rank := List.mem_range.mp (List.mem_filter.mp hk).1
      rw [List.getD, List.getElem?_eq_getElem (by rw [hcl]; exact hk')]
      exact hcs _ (List.getElem_mem _)
  · show ((a.qdata.filter _).map (keepIdx p 0)).Pairwise (· ≠ ·)
    rw [List.pairwise_map]
    have := h.nodup.sublist (List.filter_sublist (l := a.qdata) (p := fun r => selectCols axn r 0 == qis))
    rw [List.pairwise_iff_forall_sublist] at this ⊢
    intro x y hxy e
    have hxm := (hxy.subset (by simp : x ∈ [x, y]))
    have hym := (hxy.subset (by simp : y ∈ [x, y]))
    simp only [List.mem_filter, beq_iff_eq] at hxm hym
    have hx := h.row_length hxm.1
    have hy := h.row_length hym.1
    refine this hxy ((keepIdx_eq_iff p 0 x y (by rw [hx, hy]) ?_).mp e)
    intro j hj hpj
    rw [Nat.zero_add, hpf] at hpj
    have := hxm.2.trans hym.2.symm
    unfold selectCols at this
    exact List.map_inj_left.mp this j hpj
  · intro hs
    show ((a.qdata.filter _).map (keepIdx p 0)).Pairwise _
    rw [List.pairwise_map]
    have := (h.sorted_ok hs).sublist (List.filter_sublist (l := a.qdata) (p := fun r => selectCols axn r 0 == qis))
    rw [List.pairwise_iff_forall_sublist] at this ⊢
    intro x y hxy
    have hxm := (hxy.subset (by simp : x ∈ [x, y]))
    have hym := (hxy.subset (by simp : y ∈ [x, y]))
    simp only [List.mem_filter, beq_iff_eq] at hxm hym
    have hx := h.row_length hxm.1
    have hy := h.row_length hym.1
    have hle := this hxy
    unfold rowLE at *
    rw [keepIdx_rowLT p 0 y x (by rw [hx, hy])]
    · exact hle
    · intro j hj hpj
      rw [Nat.zero_add, hpf] at hpj
      have := hym.2.trans hxm.2.symm
      unfold selectCols at this
      exact List.map_inj_left.mp this j hpj

end TenpyModel.C02

/-- `take_slice` keeps `_qdata_sorted`: the removed columns are constant on the kept rows, so the order of the rows
is decided by the remaining columns exactly as before; `qtotal` loses the charges of the fixed indices.
(The axes must be distinct: checked by the repaired code; the code under test does not, see the known finding.) -/
theorem C02_WF_takeSlice (a : ArrS) (indices axes : List Int) (b : ArrS) (h : a.WF)
    (hb : a.takeSlice indices axes = some b) : b.WF := by
  rw [WF_iff] at *
  unfold ArrS.takeSlice at hb
  cases hax : axes.mapM a.legIndex with
  | none => simp [hax] at hb
  | some axn =>
    simp only [hax] at hb
    split at hb
    · cases hb
    · rename_i hlen
      split at hb
      · cases hb
      · rename_i hnd0
        have hnd : axn.Nodup := by simpa using hnd0
        split at hb
        · cases hb; exact h
        · cases hpos : (axn.zip indices).mapM (fun ai => (a.legAt ai.1).getQindex ai.2) with
          | none => simp [hpos] at hb
          | some pos =>
          simp only [hpos] at hb
          split at hb
          · cases hb
          · rename_i hkeep
            cases hb
            have hlt : ∀ k ∈ axn, k < a.rank := by
              intro k hk
              obtain ⟨j, _, hj⟩ := mapM_some_mem hax k hk
              exact legIndex_lt hj
            have hlen' : axn.length = indices.length := by simpa using hlen
            have hpl : pos.length = axn.length := by
              rw [mapM_some_length hpos, List.length_zip]; omega
            have hW := WFP_dropCols h axn (pos.map (·.1)) hnd hlt (by simp [hpl]) (by
              intro j h1 h2
              have hz : j < (axn.zip indices).length := by rw [List.length_zip]; omega
              have hpj : j < pos.length := by omega
              have := mapM_some_getElem hpos j hz hpj
              simp only [List.getElem_zip] at this
              have hk := hlt axn[j] (List.getElem_mem h1)
              have hok := h.legs_ok (a.legs[axn[j]]'hk) (List.getElem_mem hk)
              rw [legAt_eq hk] at this ⊢
              have hq : (pos[j].1, pos[j].2) = pos[j] := rfl
              rw [← hq] at this
              simpa using Leg.getQindex_lt (LegS.ok_sane hok.1) this) (by
              rw [← legs_keep_eq]
              intro e
              apply hkeep
              have : ((List.range a.legs.length).filter (fun k => !axn.contains k)) = [] := by
                apply Classical.byContradiction
                intro hne
                obtain ⟨k, hk⟩ := List.exists_mem_of_ne_nil _ hne
                have hkl : k < a.legs.length := List.mem_range.mp (List.mem_filter.mp hk).1
                have : a.legs[k] ∈ List.filterMap (fun k => a.legs[k]?) ((List.range a.legs.length).filter (fun k => !axn.contains k)) :=
                  List.mem_filterMap.mpr ⟨k, hk, List.getElem?_eq_getElem hkl⟩
                rw [e] at this; cases this
              simpa [ArrS.rank] using congrArg List.isEmpty this)
            have hlegs : ((List.range a.rank).filter (fun k => !axn.contains k)).filterMap (fun k => a.legs[k]?)
                = keepIdx (fun k => !axn.contains k) 0 a.legs := legs_keep_eq _ _
            have hrows : ∀ r ∈ a.qdata.filter (fun r => selectCols axn r 0 == pos.map (·.1)),
                selectCols ((List.range a.rank).filter (fun k => !axn.contains k)) r 0
                  = keepIdx (fun k => !axn.contains k) 0 r := by
              intro r hr
              have := h.row_length (List.mem_filter.mp hr).1
              rw [← selectCols_keep_eq, this]; rfl
            simp only [hlegs, List.map_congr_left hrows]
            exact hW

/-- documented qtotal of `take_slice`: the charges of the removed indices are subtracted -/
theorem C02_qtotal_takeSlice (a : ArrS) (i ax : Int) (b : ArrS) (k q w : Nat) (hk : a.legIndex ax = some k)
    (hq : (a.legAt k).getQindex i = some (q, w)) (hb : a.takeSlice [i] [ax] = some b) :
    b.qtotal = makeValid a.mods (cadd a.qtotal (cneg ((a.legAt k).getCharge q))) := by
  unfold ArrS.takeSlice at hb
  simp [hk, hq] at hb
  rw [← hb.2]

example : ((exA.isortQdata.takeSlice [1] [0]).map (fun b => (b.qdata, b.sorted, b.qtotal, decide b.WF)))
    = some ([[1]], true, [-1], true) := by decide
