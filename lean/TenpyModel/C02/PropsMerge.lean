import TenpyModel.C02.PropsSlice
/-!
# C02 part 3 — merge of two sorted row lists (`ibinary_blockwise`, `iadd_prefactor_other`), `outer`.
-/
open TenpyModel.Core TenpyModel.C02
namespace TenpyModel.C02

/-! ### the merge loop on two strictly ascending key lists -/

theorem mergeKeys_mem (key : List Nat → Nat) (as bs : List (List Nat)) :
    ∀ z ∈ ArrS.mergeKeys key as bs, z ∈ as ∨ z ∈ bs := by
  fun_induction ArrS.mergeKeys key as bs with
  | case1 bs => intro z hz; exact Or.inr hz
  | case2 as _ => intro z hz; exact Or.inl hz
  | case3 x xs y ys hk ih =>
    intro z hz
    rcases List.mem_cons.mp hz with rfl | hz
    · exact Or.inl (by simp)
    · rcases ih z hz with h | h
      · exact Or.inl (by simp [h])
      · exact Or.inr (by simp [h])
  | case4 x xs y ys hk hgt ih =>
    intro z hz
    rcases List.mem_cons.mp hz with rfl | hz
    · exact Or.inr (by simp)
    · rcases ih z hz with h | h
      · exact Or.inl h
      · exact Or.inr (by simp [h])
  | case5 x xs y ys hk hgt ih =>
    intro z hz
    rcases List.mem_cons.mp hz with rfl | hz
    · exact Or.inl (by simp)
    · rcases ih z hz with h | h
      · exact Or.inl (by simp [h])
      · exact Or.inr h

theorem mergeKeys_sorted (key : List Nat → Nat) (as bs : List (List Nat))
    (ha : as.Pairwise (fun x y => key x < key y)) (hb : bs.Pairwise (fun x y => key x < key y)) :
    (ArrS.mergeKeys key as bs).Pairwise (fun x y => key x < key y) := by
  fun_induction ArrS.mergeKeys key as bs with
  | case1 bs => exact hb
  | case2 as _ => exact ha
  | case3 x xs y ys hk ih =>
    rw [List.pairwise_cons] at ha hb ⊢
    refine ⟨?_, ih ha.2 hb.2⟩
    intro z hz
    rcases mergeKeys_mem key xs ys z hz with h | h
    · exact ha.1 z h
    · rw [hk]; exact hb.1 z h
  | case4 x xs y ys hk hgt ih =>
    rw [List.pairwise_cons] at hb ⊢
    refine ⟨?_, ih ha hb.2⟩
    intro z hz
    rcases mergeKeys_mem key (x :: xs) ys z hz with h | h
    · rcases List.mem_cons.mp h with rfl | h
      · exact hgt
      · exact Nat.lt_trans hgt ((List.pairwise_cons.mp ha).1 z h)
    · exact hb.1 z h
  | case5 x xs y ys hk hgt ih =>
    rw [List.pairwise_cons] at ha ⊢
    have hlt : key x < key y := by omega
    refine ⟨?_, ih ha.2 hb⟩
    intro z hz
    rcases mergeKeys_mem key xs (y :: ys) z hz with h | h
    · exact ha.1 z h
    · rcases List.mem_cons.mp h with rfl | h
      · exact hlt
      · exact Nat.lt_trans hlt ((List.pairwise_cons.mp hb).1 z h)

end TenpyModel.C02

namespace TenpyModel.C02

/-! ### F-style keys are strictly monotone in the row order (rows in range) -/

theorem foldl_add_shift (l : List Nat) (z : Nat) : l.foldl (· + ·) z = z + l.foldl (· + ·) 0 := by
  induction l generalizing z with
  | nil => simp
  | cons x xs ih => simp only [List.foldl_cons]; rw [ih (z + x), ih (0 + x)]; omega

theorem dot_cons (x y : Nat) (xs ys : List Nat) : dot (x :: xs) (y :: ys) = x * y + dot xs ys := by
  unfold dot
  simp only [List.zipWith_cons_cons, List.foldl_cons]
  rw [foldl_add_shift]; omega

theorem dot_nil_left (ys : List Nat) : dot [] ys = 0 := by simp [dot]

theorem dot_go_scale (acc : Nat) (shape r : List Nat) :
    dot r (makeStrideF.go acc shape) = acc * dot r (makeStrideF.go 1 shape) := by
  induction shape generalizing acc r with
  | nil => simp [makeStrideF.go, dot]
  | cons s rest ih =>
    cases r with
    | nil => simp [dot_nil_left]
    | cons x xs =>
      simp only [makeStrideF.go, dot_cons]
      rw [ih (acc * s), ih (1 * s)]
      simp [Nat.mul_add, Nat.mul_assoc, Nat.mul_comm, Nat.mul_left_comm]

theorem keyF_cons (s : Nat) (rest : List Nat) (x : Nat) (xs : List Nat) :
    ArrS.keyF (s :: rest) (x :: xs) = x + s * ArrS.keyF rest xs := by
  unfold ArrS.keyF makeStrideF
  simp only [makeStrideF.go, dot_cons, Nat.mul_one]
  rw [dot_go_scale (1 * s)]
  simp

/-- rows within `shape`: same length and entry-wise smaller -/
def inShape : List Nat → List Nat → Prop
  | [], [] => True
  | s :: shape, x :: xs => x < s ∧ inShape shape xs
  | _, _ => False

theorem keyF_mono (shape x y : List Nat) (hx : inShape shape x) (hy : inShape shape y) :
    (rowLT x y = true ↔ ArrS.keyF shape x < ArrS.keyF shape y) ∧ (x = y ↔ ArrS.keyF shape x = ArrS.keyF shape y) := by
  induction shape generalizing x y with
  | nil =>
    cases x <;> cases y <;> simp_all [inShape, rowLT, revLT]
  | cons s rest ih =>
    cases x with
    | nil => simp [inShape] at hx
    | cons a xs =>
      cases y with
      | nil => simp [inShape] at hy
      | cons b ys =>
        simp only [inShape] at hx hy
        obtain ⟨h1, h2⟩ := ih xs ys hx.2 hy.2
        have hl : xs.length = ys.length := by
          have lenOf : ∀ (sh r : List Nat), inShape sh r → r.length = sh.length := by
            intro sh
            induction sh with
            | nil => intro r hr; cases r <;> simp_all [inShape]
            | cons s sh ihs => intro r hr; cases r <;> simp_all [inShape]
          rw [lenOf rest xs hx.2, lenOf rest ys hy.2]
        rw [rowLT_cons a b hl, keyF_cons, keyF_cons]
        generalize ArrS.keyF rest xs = k1 at *
        generalize ArrS.keyF rest ys = k2 at *
        have ha := hx.1
        have hb := hy.1
        constructor
        · constructor
          · intro h
            simp only [Bool.or_eq_true, Bool.and_eq_true, beq_iff_eq, decide_eq_true_eq] at h
            rcases h with h | ⟨h, hab⟩
            · have hk := h1.mp h
              have : s * k1 + s ≤ s * k2 := by
                have := Nat.mul_le_mul_left s (show k1 + 1 ≤ k2 from hk)
                rwa [Nat.mul_add, Nat.mul_one] at this
              omega
            · have hk := h2.mp h
              subst hk; omega
          · intro h
            simp only [Bool.or_eq_true, Bool.and_eq_true, beq_iff_eq, decide_eq_true_eq]
            rcases Nat.lt_trichotomy k1 k2 with hk | hk | hk
            · left; exact h1.mpr hk
            · right; subst hk; exact ⟨h2.mpr rfl, by omega⟩
            · exfalso
              have : s * k2 + s ≤ s * k1 := by
                have := Nat.mul_le_mul_left s (show k2 + 1 ≤ k1 from hk)
                rwa [Nat.mul_add, Nat.mul_one] at this
              omega
        · constructor
          · intro h
            simp only [List.cons.injEq] at h
            rw [h.1, h2.mp h.2]
          · intro h
            rcases Nat.lt_trichotomy k1 k2 with hk | hk | hk
            · exfalso
              have : s * k1 + s ≤ s * k2 := by
                have := Nat.mul_le_mul_left s (show k1 + 1 ≤ k2 from hk)
                rwa [Nat.mul_add, Nat.mul_one] at this
              omega
            · subst hk
              rw [h2.mpr rfl]
              congr 1; omega
            · exfalso
              have : s * k2 + s ≤ s * k1 := by
                have := Nat.mul_le_mul_left s (show k2 + 1 ≤ k1 from hk)
                rwa [Nat.mul_add, Nat.mul_one] at this
              omega

theorem inShape_of_rowInRange {legs : List LegS} {r : List Nat} (h : rowInRange legs r = true) :
    inShape (legs.map LegS.blockNumber) r := by
  unfold rowInRange at h
  simp only [Bool.and_eq_true, beq_iff_eq, List.all_eq_true] at h
  obtain ⟨hl, h⟩ := h
  induction legs generalizing r with
  | nil => cases r with
    | nil => trivial
    | cons q r => simp at hl
  | cons l legs ih =>
    cases r with
    | nil => simp at hl
    | cons q r =>
      simp only [List.zipWith_cons_cons, List.mem_cons, id_eq, forall_eq_or_imp, decide_eq_true_eq] at h
      exact ⟨h.1, ih (by simpa using hl) h.2⟩

end TenpyModel.C02

namespace TenpyModel.C02

/-! ### legs that are `test_equal` carry the same charge rule -/

theorem makeValid_csum_congr (M : List Nat) (cs ds : List Charge) (hl : cs.length = ds.length)
    (hcs : ∀ c ∈ cs, c.length = M.length) (hds : ∀ c ∈ ds, c.length = M.length)
    (h : ∀ i (h1 : i < cs.length) (h2 : i < ds.length), makeValid M cs[i] = makeValid M ds[i]) :
    makeValid M (csum M.length cs) = makeValid M (csum M.length ds) := by
  induction cs generalizing ds with
  | nil => cases ds with
    | nil => rfl
    | cons d ds => simp at hl
  | cons c cs ih =>
    cases ds with
    | nil => simp at hl
    | cons d ds =>
      have hc := hcs c (by simp)
      have hd := hds d (by simp)
      have hcs' : ∀ c ∈ cs, c.length = M.length := fun c hc => hcs c (by simp [hc])
      have hds' : ∀ c ∈ ds, c.length = M.length := fun c hc => hds c (by simp [hc])
      rw [csum_cons _ c cs hc hcs', csum_cons _ d ds hd hds']
      have h0 := h 0 (by simp) (by simp)
      simp only [List.getElem_cons_zero] at h0
      have ih' := ih ds (by simpa using hl) hcs' hds' (by
        intro i h1 h2
        have := h (i + 1) (by simpa using h1) (by simpa using h2)
        simpa using this)
      rw [← makeValid_add, ← makeValid_add_left, h0, ih', makeValid_add_left, makeValid_add]

theorem testEqual_unpack {la lb : Leg} (h : la.testEqual lb = true) :
    la.mods = lb.mods ∧ la.slices = lb.slices ∧ la.physCharges = lb.physCharges := by
  unfold Leg.testEqual Leg.eq? at h
  by_cases hm : la.mods ≠ lb.mods
  · simp [hm] at h
  · simp only [hm, ↓reduceIte, beq_iff_eq, Option.some.injEq, Bool.and_eq_true] at h
    exact ⟨by simpa using hm, h.1, h.2⟩

theorem blockNumber_of_slices {l : Leg} (h : l.sane = true) : l.blockNumber = l.slices.length - 1 := by
  have := (Leg.sane_slices h).1; omega

theorem physCharges_getElem {la lb : Leg} (h : la.physCharges = lb.physCharges) (hm : la.mods = lb.mods)
    (i : Nat) (h1 : i < la.blockNumber) (h2 : i < lb.blockNumber) :
    makeValid la.mods (la.getCharge i) = makeValid la.mods (lb.getCharge i) := by
  unfold Leg.physCharges at h
  unfold Leg.blockNumber at h1 h2
  have := congrArg (fun l => l[i]?) h
  simp only [List.getElem?_map, List.getElem?_eq_getElem h1, List.getElem?_eq_getElem h2, Option.map_some,
    Option.some.injEq] at this
  unfold Leg.getCharge
  simp only [List.getD, List.getElem?_eq_getElem h1, List.getElem?_eq_getElem h2, Option.getD_some]
  rw [this, hm]

/-- a row that is admissible for legs `lo` is admissible for `test_equal` legs `la`, with the same block charge -/
theorem row_transport {la lo : List LegS} {M : List Nat}
    (hoka : ∀ l ∈ la, l.ok = true ∧ l.leg.mods = M) (hoko : ∀ l ∈ lo, l.ok = true ∧ l.leg.mods = M)
    (hlen : la.length = lo.length)
    (heq : ∀ i (h1 : i < la.length) (h2 : i < lo.length), (la[i]).leg.testEqual (lo[i]).leg = true)
    {r : List Nat} (hr : rowInRange lo r = true) :
    rowInRange la r = true ∧ blockCharge M la r = blockCharge M lo r := by
  have hr' := (rowInRange_iff _ _).mp hr
  have hbn : ∀ i (h1 : i < la.length) (h2 : i < lo.length), (la[i]).blockNumber = (lo[i]).blockNumber := by
    intro i h1 h2
    have hu := testEqual_unpack (heq i h1 h2)
    have sa := LegS.ok_sane (hoka _ (List.getElem_mem h1)).1
    have so := LegS.ok_sane (hoko _ (List.getElem_mem h2)).1
    unfold LegS.blockNumber
    rw [blockNumber_of_slices sa, blockNumber_of_slices so, hu.2.1]
  have hra : rowInRange la r = true := by
    rw [rowInRange_iff]
    refine ⟨by rw [hr'.1, hlen], ?_⟩
    intro i hi
    rw [hbn i hi (by omega)]
    exact hr'.2 i (by omega)
  refine ⟨hra, ?_⟩
  unfold blockCharge
  rw [rawCharge_eq, rawCharge_eq]
  have hla := chList_lengths hoka hra
  have hlo := chList_lengths hoko hr
  apply makeValid_csum_congr M _ _ (by simp [chList, hlen]) hla hlo
  intro i h1 h2
  simp only [chList, List.length_zipWith] at h1 h2
  have hi1 : i < la.length := by omega
  have hi2 : i < lo.length := by omega
  have hir : i < r.length := by omega
  simp only [chList, List.getElem_zipWith]
  have hu := testEqual_unpack (heq i hi1 hi2)
  have hq := hr'.2 i hi2
  simp only [List.getD, List.getElem?_eq_getElem hir, Option.getD_some] at hq
  have := physCharges_getElem hu.2.2 hu.1 r[i] (by rw [← LegS.blockNumber, hbn i hi1 hi2]; exact hq) hq
  rw [(hoka _ (List.getElem_mem hi1)).2] at this
  exact this

end TenpyModel.C02

namespace TenpyModel.C02

theorem legsEqual_unpack {a o : ArrS} (h : ArrS.legsEqual a o = true) :
    a.legs.length = o.legs.length ∧
      ∀ i (h1 : i < a.legs.length) (h2 : i < o.legs.length), (a.legs[i]).leg.testEqual (o.legs[i]).leg = true := by
  unfold ArrS.legsEqual ArrS.rank at h
  simp only [Bool.and_eq_true, beq_iff_eq, List.all_eq_true] at h
  refine ⟨h.1, ?_⟩
  intro i h1 h2
  have hz : i < (a.legs.zip o.legs).length := by simp [List.length_zip]; omega
  have := h.2 ((a.legs.zip o.legs)[i]) (List.getElem_mem hz)
  simpa [List.getElem_zip] using this

theorem isort_sorted (a : ArrS) : a.isortQdata.sorted = true := by
  unfold ArrS.isortQdata
  split
  · assumption
  · split <;> rfl

/-- merge of the rows of two lexsorted, duplicate-free arrays with `test_equal` legs and equal `qtotal` -/
theorem WFP_merge {a o : ArrS} (ha : WFP a) (ho : WFP o) (hsa : a.sorted = true) (hso : o.sorted = true)
    (heq : ArrS.legsEqual a o = true) (hq : a.qtotal = o.qtotal) :
    WFP { a with qdata := if a.qdata == o.qdata then a.qdata
                          else ArrS.mergeKeys (ArrS.keyF a.qshape) a.qdata o.qdata } := by
  split
  · exact ha
  · obtain ⟨hlen, hte⟩ := legsEqual_unpack heq
    have hmods : o.mods = a.mods := by
      have hpos : 0 < a.legs.length := List.length_pos_iff.mpr ha.rank_pos
      have h0 := testEqual_unpack (hte 0 hpos (by omega))
      rw [← (ha.legs_ok _ (List.getElem_mem hpos)).2, ← (ho.legs_ok _ (List.getElem_mem (by omega : 0 < o.legs.length))).2]
      exact h0.1.symm
    have hoko : ∀ l ∈ o.legs, l.ok = true ∧ l.leg.mods = a.mods := by
      intro l hl; rw [← hmods]; exact ho.legs_ok l hl
    -- every row of `o` is admissible for the legs of `a`
    have hrow_o : ∀ r ∈ o.qdata, rowInRange a.legs r = true ∧ blockCharge a.mods a.legs r = a.qtotal := by
      intro r hr
      have h0 := ho.rows_ok r hr
      have := row_transport ha.legs_ok hoko hlen hte h0.1
      refine ⟨this.1, ?_⟩
      rw [this.2, hq, ← h0.2, hmods]
    have hin_a : ∀ r ∈ a.qdata, inShape a.qshape r := fun r hr => inShape_of_rowInRange (ha.rows_ok r hr).1
    have hin_o : ∀ r ∈ o.qdata, inShape a.qshape r := fun r hr => inShape_of_rowInRange (hrow_o r hr).1
    have hlen_of : ∀ r, inShape a.qshape r → r.length = a.qshape.length := by
      have lenOf : ∀ (sh r : List Nat), inShape sh r → r.length = sh.length := by
        intro sh
        induction sh with
        | nil => intro r hr; cases r <;> simp_all [inShape]
        | cons s sh ihs => intro r hr; cases r <;> simp_all [inShape]
      exact fun r hr => lenOf _ r hr
    -- strictly ascending keys
    have key_of : ∀ (rows : List (List Nat)), (∀ r ∈ rows, inShape a.qshape r) →
        rows.Pairwise (fun x y => rowLE x y = true) → rows.Pairwise (· ≠ ·) →
        rows.Pairwise (fun x y => ArrS.keyF a.qshape x < ArrS.keyF a.qshape y) := by
      intro rows hin h1 h2
      have hlt := (pairwise_rowLT_iff (n := a.qshape.length) (fun r hr => hlen_of r (hin r hr))).mpr ⟨h1, h2⟩
      rw [List.pairwise_iff_forall_sublist] at hlt ⊢
      intro x y hxy
      have hx := hin x (hxy.subset (by simp))
      have hy := hin y (hxy.subset (by simp))
      exact (keyF_mono a.qshape x y hx hy).1.mp (hlt hxy)
    have hka := key_of a.qdata hin_a (ha.sorted_ok hsa) ha.nodup
    have hko := key_of o.qdata hin_o (ho.sorted_ok hso) ho.nodup
    have hmem := mergeKeys_mem (ArrS.keyF a.qshape) a.qdata o.qdata
    have hsorted := mergeKeys_sorted (ArrS.keyF a.qshape) a.qdata o.qdata hka hko
    have hin_m : ∀ r ∈ ArrS.mergeKeys (ArrS.keyF a.qshape) a.qdata o.qdata, inShape a.qshape r := by
      intro r hr; rcases hmem r hr with h | h; exact hin_a r h; exact hin_o r h
    have hlt_m : (ArrS.mergeKeys (ArrS.keyF a.qshape) a.qdata o.qdata).Pairwise (fun x y => rowLT x y = true) := by
      rw [List.pairwise_iff_forall_sublist] at hsorted ⊢
      intro x y hxy
      have hx := hin_m x (hxy.subset (by simp))
      have hy := hin_m y (hxy.subset (by simp))
      exact (keyF_mono a.qshape x y hx hy).1.mpr (hsorted hxy)
    have hboth := (pairwise_rowLT_iff (n := a.qshape.length) (fun r hr => hlen_of r (hin_m r hr))).mp hlt_m
    refine ⟨ha.rank_pos, ha.mods_pos, ha.legs_ok, ha.qtotal_valid, ?_, hboth.2, fun _ => hboth.1⟩
    intro r hr
    rcases hmem r hr with h | h
    · exact ha.rows_ok r h
    · exact hrow_o r h

end TenpyModel.C02

/-- `ibinary_blockwise` (`+=`, `-=`, …): both operands are lexsorted first, the merge of two sorted duplicate-free
row lists is sorted and duplicate-free, so the flag set by `isort_qdata` stays truthful. `other` is sorted in place
(or untouched when it had to be transposed). `hperm`: the label transposition is a permutation of the axes. -/
theorem C02_WF_ibinary (a b : ArrS) (perm : Option (List Nat)) (a' b' : ArrS) (ha : a.WF) (hb : b.WF)
    (hperm : ∀ ax, perm = some ax → ax.Perm (List.range b.rank))
    (h : a.ibinary b perm = some (a', b')) : a'.WF ∧ b'.WF := by
  unfold ArrS.ibinary at h
  simp only at h
  split at h
  · cases h
  · rename_i hc
    simp only [Bool.or_eq_true, Bool.not_eq_true', bne_iff_ne, ne_eq, not_or, Bool.not_eq_false, Decidable.not_not] at hc
    have ho : (ArrS.transposeSame b perm).WF := by
      unfold ArrS.transposeSame
      cases perm with
      | none => exact hb
      | some ax => rw [WF_iff] at *; exact WFP_permuteAxes hb ax (hperm ax rfl)
    have ha1 := C02_WF_isortQdata a ha
    have ho1 := C02_WF_isortQdata _ ho
    simp only [Option.some.injEq, Prod.mk.injEq] at h
    obtain ⟨h1, h2⟩ := h
    constructor
    · rw [← h1]
      rw [WF_iff] at ha1 ho1 ⊢
      have hle : ArrS.legsEqual a.isortQdata (ArrS.transposeSame b perm).isortQdata = true := by
        have e1 : a.isortQdata.legs = a.legs := by unfold ArrS.isortQdata; split; rfl; split <;> rfl
        have e2 : (ArrS.transposeSame b perm).isortQdata.legs = (ArrS.transposeSame b perm).legs := by
          unfold ArrS.isortQdata; split; rfl; split <;> rfl
        unfold ArrS.legsEqual ArrS.rank at *
        rw [e1, e2]; exact hc.1
      have hqe : a.isortQdata.qtotal = (ArrS.transposeSame b perm).isortQdata.qtotal := by
        have e1 : a.isortQdata.qtotal = a.qtotal := by unfold ArrS.isortQdata; split; rfl; split <;> rfl
        have e2 : (ArrS.transposeSame b perm).isortQdata.qtotal = (ArrS.transposeSame b perm).qtotal := by
          unfold ArrS.isortQdata; split; rfl; split <;> rfl
        rw [e1, e2]; exact hc.2
      have hqs : a.isortQdata.qshape = a.qshape := by
        unfold ArrS.qshape; congr 1; unfold ArrS.isortQdata; split; rfl; split <;> rfl
      have := WFP_merge ha1 ho1 (isort_sorted a) (isort_sorted _) hle hqe
      rw [hqs] at this
      exact this
    · rw [← h2]
      split
      · exact hb
      · exact ho1

example : ((exA.ibinary exA.isortQdata none).map (fun p => (p.1.qdata, p.1.sorted, p.2.sorted)))
    = some ([[0, 0], [1, 1]], true, true) := by decide

/-- `iadd_prefactor_other` in both kernels (compiled twin as repaired: label transposition first) -/
theorem C02_WF_iaddPrefactorOther (cy : Bool) (a b : ArrS) (perm : Option (List Nat)) (isZero : Bool) (a' b' : ArrS)
    (ha : a.WF) (hb : b.WF) (hperm : ∀ ax, perm = some ax → ax.Perm (List.range b.rank))
    (h : ArrS.iaddPrefactorOther cy a b perm isZero = some (a', b')) : a'.WF ∧ b'.WF := by
  unfold ArrS.iaddPrefactorOther at h
  cases cy with
  | true =>
    simp only [↓reduceIte] at h
    split at h
    · cases h
    · split at h
      · simp only [Option.some.injEq, Prod.mk.injEq] at h
        exact ⟨h.1 ▸ ha, h.2 ▸ hb⟩
      · exact C02_WF_ibinary a b perm a' b' ha hb hperm h
  | false =>
    simp only [Bool.false_eq_true, ↓reduceIte] at h
    cases hib : a.ibinary (b.iscalePrefactor isZero) perm with
    | none => simp [hib] at h
    | some p =>
      obtain ⟨x, y⟩ := p
      simp only [hib, Option.some.injEq, Prod.mk.injEq] at h
      have hbs := C02_WF_iscalePrefactor b isZero hb
      have hr : (b.iscalePrefactor isZero).rank = b.rank := by
        unfold ArrS.iscalePrefactor ArrS.rank; split <;> rfl
      have := C02_WF_ibinary a _ perm x y ha hbs (by intro ax hax; rw [hr]; exact hperm ax hax) hib
      exact ⟨h.1 ▸ this.1, h.2 ▸ hb⟩

/-- an addition keeps the total charge -/
theorem C02_qtotal_ibinary (a b : ArrS) (perm : Option (List Nat)) (a' b' : ArrS)
    (h : a.ibinary b perm = some (a', b')) : a'.qtotal = a.qtotal := by
  unfold ArrS.ibinary at h
  simp only at h
  split at h
  · cases h
  · simp only [Option.some.injEq, Prod.mk.injEq] at h
    rw [← h.1]
    show a.isortQdata.qtotal = a.qtotal
    unfold ArrS.isortQdata; split; rfl; split <;> rfl

namespace TenpyModel.C02

theorem rowInRange_append {la lb : List LegS} {ra rb : List Nat} (ha : rowInRange la ra = true)
    (hb : rowInRange lb rb = true) : rowInRange (la ++ lb) (ra ++ rb) = true := by
  unfold rowInRange at *
  simp only [Bool.and_eq_true, beq_iff_eq, List.all_eq_true] at *
  refine ⟨by simp [ha.1, hb.1], ?_⟩
  rw [List.zipWith_append ha.1.symm]
  intro x hx
  rcases List.mem_append.mp hx with h | h
  · exact ha.2 x h
  · exact hb.2 x h

theorem chList_append {la lb : List LegS} {ra rb : List Nat} (h : ra.length = la.length) :
    chList (la ++ lb) (ra ++ rb) = chList la ra ++ chList lb rb := by
  unfold chList
  rw [List.zipWith_append h.symm]

end TenpyModel.C02

/-- `outer`: rows are all concatenations `ra ++ rb` with `a` running fastest; this list is lexsorted exactly when
both factors are (the columns of `b` are the more significant ones), which is the flag the code sets. -/
theorem C02_WF_outer (a b c : ArrS) (ha : a.WF) (hb : b.WF) (h : outer a b = some c) : c.WF := by
  rw [WF_iff] at *
  unfold outer at h
  split at h
  · cases h
  · rename_i hm
    simp only [ne_eq, Decidable.not_not] at hm
    cases h
    have hmods : ArrS.modsOf (a.legs ++ b.legs) = a.mods := by
      unfold ArrS.mods
      cases hl : a.legs with
      | nil => exact absurd hl ha.rank_pos
      | cons l ls => rfl
    have hok : ∀ l ∈ a.legs ++ b.legs, l.ok = true ∧ l.leg.mods = a.mods := by
      intro l hl
      rcases List.mem_append.mp hl with h | h
      · exact ha.legs_ok l h
      · rw [hm]; exact hb.legs_ok l h
    have hqa := checkValid_length ha.qtotal_valid
    have hqb := checkValid_length hb.qtotal_valid
    have hla : ∀ r ∈ a.qdata, r.length = a.legs.length := fun r hr => ha.row_length hr
    have hlb : ∀ r ∈ b.qdata, r.length = b.legs.length := fun r hr => hb.row_length hr
    refine ⟨by simp [ha.rank_pos], ?_, ?_, ?_, ?_, ?_, ?_⟩
    · show ∀ m ∈ ArrS.modsOf (a.legs ++ b.legs), 1 ≤ m
      rw [hmods]; exact ha.mods_pos
    · show ∀ l ∈ a.legs ++ b.legs, l.ok = true ∧ l.leg.mods = ArrS.modsOf (a.legs ++ b.legs)
      rw [hmods]; exact hok
    · show checkValid (ArrS.modsOf (a.legs ++ b.legs)) (makeValid a.mods (cadd a.qtotal b.qtotal)) = true
      rw [hmods]
      exact checkValid_makeValid _ ha.mods_pos _ (by simp [cadd_length, hqa, hqb, hm])
    · intro r hr
      simp only [List.mem_flatMap, List.mem_map] at hr
      obtain ⟨rb, hrb, ra, hra, rfl⟩ := hr
      have h0a := ha.rows_ok ra hra
      have h0b := hb.rows_ok rb hrb
      show rowInRange (a.legs ++ b.legs) (ra ++ rb) = true ∧
        blockCharge (ArrS.modsOf (a.legs ++ b.legs)) (a.legs ++ b.legs) (ra ++ rb) = makeValid a.mods (cadd a.qtotal b.qtotal)
      rw [hmods]
      refine ⟨rowInRange_append h0a.1 h0b.1, ?_⟩
      unfold blockCharge
      rw [rawCharge_eq, chList_append (hla ra hra)]
      have hca := chList_lengths ha.legs_ok h0a.1
      have hcb := chList_lengths hb.legs_ok h0b.1
      rw [← hm] at hcb
      rw [csum_append _ _ _ hca hcb, ← makeValid_add, ← makeValid_add_left]
      have e1 : makeValid a.mods (csum a.mods.length (chList a.legs ra)) = a.qtotal := h0a.2
      have e2 : makeValid a.mods (csum a.mods.length (chList b.legs rb)) = b.qtotal := by rw [hm]; exact h0b.2
      rw [e1, e2]
    · show (b.qdata.flatMap (fun rb => a.qdata.map (fun ra => ra ++ rb))).Pairwise (· ≠ ·)
      rw [List.pairwise_flatMap]
      constructor
      · intro rb _
        rw [List.pairwise_map]
        exact ha.nodup.imp (fun hne e => hne (List.append_cancel_right e))
      · have := hb.nodup
        rw [List.pairwise_iff_forall_sublist] at this ⊢
        intro rb rb' hs x hx y hy e
        obtain ⟨ra, hra, rfl⟩ := List.mem_map.mp hx
        obtain ⟨ra', hra', rfl⟩ := List.mem_map.mp hy
        have := this hs
        exact this (List.append_inj e (by rw [hla ra hra, hla ra' hra'])).2
    · intro hs
      simp only [Bool.and_eq_true] at hs
      show (b.qdata.flatMap (fun rb => a.qdata.map (fun ra => ra ++ rb))).Pairwise _
      rw [List.pairwise_flatMap]
      constructor
      · intro rb _
        rw [List.pairwise_map]
        refine (ha.sorted_ok hs.1).imp ?_
        intro x y hxy
        unfold rowLE at *
        rw [rowLT_append_same_suffix]; exact hxy
      · have hsb := (pairwise_rowLT_iff (n := b.legs.length) hlb).mpr ⟨hb.sorted_ok hs.2, hb.nodup⟩
        rw [List.pairwise_iff_forall_sublist] at hsb ⊢
        intro rb rb' hsub x hx y hy
        obtain ⟨ra, hra, rfl⟩ := List.mem_map.mp hx
        obtain ⟨ra', hra', rfl⟩ := List.mem_map.mp hy
        have hmb := hlb rb (hsub.subset (by simp))
        have hmb' := hlb rb' (hsub.subset (by simp))
        exact rowLE_of_rowLT (rowLT_append_of_suffix (by rw [hmb, hmb']) (hsb hsub))

/-- documented qtotal of `outer` (and of every contraction): the sum of the total charges -/
theorem C02_qtotal_outer (a b c : ArrS) (h : outer a b = some c) : c.qtotal = makeValid a.mods (cadd a.qtotal b.qtotal) := by
  unfold outer at h
  split at h
  · cases h
  · cases h; rfl

example : ((outer exA.isortQdata exA.isortQdata).map (fun c => (c.sorted, decide c.WF, c.qdata.length))) = some (true, true, 4) := by
  decide

/-- with one unsorted factor the product rows are not sorted: the flag has to be the conjunction -/
example : ((outer exA exA.isortQdata).map (fun c => (c.sorted, rowsSorted c.qdata))) = some (false, false) := by decide
