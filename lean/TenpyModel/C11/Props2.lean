import TenpyModel.C11.P2_AddMain
import TenpyModel.C11.P2_PrefMain
import TenpyModel.C11.P2_UIMain
import TenpyModel.C11.P2_PlusIdMain
/-!
# C11 — property theorems, part 2: the integer-index models of the MPO algebra

`Props.lean` proves the MPO algebra for automata with symbolic virtual indices.  This file proves the
corresponding statements for the executable, integer-indexed model `MPOM` of `Ops/MPO.lean` (the one that is
compared tensor by tensor with the implementation), with the markers `IdL[b]`, `IdR[b]` of every bond at
arbitrary positions.  Helper files: `C11/P2_*.lean`.
-/
open TenpyModel.Ops

/-- **`MPO.__add__`, index level.**  For the integer-indexed model `MPOM.add` of `MPO.__add__` +
`_get_block_projections` — per site the 4×4 grid of blocks `IdL / other(self) / other(other) / IdR`, rows and
columns whose blocks are all `None` dropped, `IdL = 0`, `IdR = -1` where the corner blocks exist — and any two
finite operands in standard sum form (`AddHyp`: same length ≥ 1; `IdL` set on a prefix and `IdR` on a suffix of
the bonds, possibly PARTIAL marker lists, `IdL[0]`, `IdR[L]` set, `IdL[b] ≠ IdR[b]`; no dead ends, which makes
the row groups computed on site `i` and the column groups computed on site `i-1` describe bond `i`
consistently; entries inside the bond dimensions; nothing enters `IdL[i+1]` except from `IdL[i]`, nothing
leaves `IdR[i]` except to `IdR[i+1]`; where both operands have an `IdL → IdL` (`IdR → IdR`) entry the two are
the same local operator): the sum MPO denotes the sum of the two denoted operators, coefficient by
coefficient — every chain length, bond dimension and marker position.  (Proof: the layers of `MPOM.add` are a
per-bond injective renaming of a glued symbolic automaton, `P2_Add10.addLayer_eq`; path sums are invariant
under such renamings, `P2_Add2.relabel_paths`; the glued automaton denotes the sum, `P2_Add7.sym_sum`,
generalising `C11_add` to per-bond optional markers.) -/
theorem C11_add_indices {α : Type} [Semiring α] [DecidableEq α] (a b : MPOM α) (h : AddHyp a b) (t : OpStr) :
    coeff (MPOM.add a b).denote t = coeff a.denote t + coeff b.denote t :=
  add_indices a b h t

/-- **`MPO.prefactor(i, ops)`.**  For every finite MPO, position `i` and operator string `ops` satisfying
`PrefHyp` (identity entries `IdL → IdL` left of the string and `IdR → IdR` right of it, no other edge named
`"Id"` leaving `IdL` / entering `IdR` there, the first/last name of a string of length ≥ 2 not contained in
the `IdL → IdL` / `IdR → IdR` entry of its site, standard form on the inner bonds of the string — see
`PrefHyp`; `PrefStd.toPrefHyp` derives it from the usual standard form of the whole chain with
`ops.head ≠ "Id" ≠ ops.getLast`), the value computed by `prefactor` — start in `IdL[i]`, read `ops`,
project away from `IdL`/`IdR` on the inner bonds, end in `IdR[i+len]` — is the coefficient of
`Id^i ⊗ ops ⊗ Id^(L-i-len)` in the operator denoted by the MPO.  Any (also non-commutative) semiring. -/
theorem C11_prefactor {α : Type} [Semiring α] (m : MPOM α) (i : Nat) (ops : List String)
    (h : PrefHyp m i ops) :
    m.prefactor i ops = coeff m.denote (idStr i ++ ops ++ idStr (m.L - i - ops.length)) :=
  prefactor_coeff m i ops h

/-- **`MPO.plus_identity(alpha, beta, sites)` on `N ≥ 1` contiguous sites, index level** (completes
`C11_plus_identity_partial`).  For the integer-indexed model `MPOM.plusIdentity` (`_partition_W`, the factors
`b = beta^(1/N)`, `a = alpha/N`, `b^counter` on `IdL → other`, `b^N` and `+ a·Id` on `IdL → IdR`, `b` on
`other → other`, `b^(N-counter+1)` on `other → IdR`, `d·Id` / `g·Id` on the `IdL → IdL` / `IdR → IdR` entries with
`d = beta` on the last and `g = beta` on the first site of the block, output bonds laid out `[IdL, other…, IdR]`,
`from_grids` projection of the first row / last column) and every finite MPO with both markers on every bond at
arbitrary positions whose sites are in standard form (`PlusIdHyp`): if `tb^N = beta` and `N·ta = alpha` the
result denotes `beta·H + alpha·1`, coefficient by coefficient — every chain length, bond dimension, block
position `s0` and block length `N`. -/
theorem C11_plus_identity {α : Type} [CommSemiring α] (m : MPOM α) (alpha beta tb ta : α) (s0 N : Nat)
    (h : PlusIdHyp m s0 N) (hb : tb ^ N = beta) (ha : (N : α) * ta = alpha) (t : OpStr) :
    coeff (m.plusIdentity beta tb ta (List.range' s0 N) (fun _ => [("Id", 1)])).denote t
      = beta * coeff m.denote t + coeff [(idStr m.L, alpha)] t :=
  plus_identity_indices m alpha beta tb ta s0 N h hb ha t

/-- **`plus_identity` on `N` contiguous sites, symbolic virtual indices**: the same exponent bookkeeping for
automata with one pair of keys `lk`, `rk` (`plusIdLayers`), layers in `StdId` form. -/
theorem C11_plus_identity_symbolic {κ α : Type} [DecidableEq κ] [CommSemiring α] (lk rk : κ) (hlr : lk ≠ rk)
    (alpha beta tb ta : α) (s0 N : Nat) (hN : 1 ≤ N) (hb : tb ^ N = beta) (ha : (N : α) * ta = alpha)
    (as : List (List (Edge κ α))) (h : ∀ la ∈ as, StdId lk rk la) (hend : s0 + N ≤ as.length) (t : OpStr) :
    coeff (pathsFrom rk (plusIdLayers lk rk beta tb ta s0 N 0 as) lk) t
      = beta * coeff (pathsFrom rk as lk) t + coeff [(idStr as.length, alpha)] t :=
  plus_identity_multi lk rk hlr alpha beta tb ta s0 N hN hb ha as h hend t

/-- **`MPO.make_U_I(dt)`, first order, index level.**  For the integer-indexed model `MPOM.makeUI` (column
`IdL` absorbs `dt ×` column `IdR`, row `IdR[i]` and column `IdR[i+1]` are removed, larger indices shift down,
`IdL = IdR = IdLR` afterwards) applied to an MPO whose sites are in standard form w.r.t. the markers of their
two bonds (`UIHyp`: nothing enters `IdL[i+1]` except from `IdL[i]`, nothing leaves `IdR[i]` except to
`IdR[i+1]`, identity entries `IdL → IdL`, `IdR → IdR`, `IdL[b] ≠ IdR[b]` on every bond; markers at arbitrary
positions): over the dual numbers (`dt = ε`, `ε² = 0`) the coefficient of `dt⁰` of the denoted operator is the
identity string and the coefficient of `dt¹` is the operator denoted by the Hamiltonian MPO — every chain
length and bond dimension. -/
theorem C11_make_U_I_indices {α : Type} [CommSemiring α] (m : MPOM α) (fin : Bool) (h : UIHyp m) (t : OpStr) :
    (coeff (m.lift.makeUI (DualNumber.eps : DualNumber α) fin).denote t).fst = coeff [(idStr m.L, (1 : α))] t ∧
    (coeff (m.lift.makeUI (DualNumber.eps : DualNumber α) fin).denote t).snd = coeff m.denote t :=
  makeUI_first_order m fin h t

/-! ## non-vacuity (concrete chains; more examples and `decide`d counterexamples for every hypothesis of
`PrefHyp` are in `P2_PrefMain.lean`, `P2_UIMain.lean`) -/
section examples

/-- (markers on every bond) + (IdL only on bonds 0, 1, IdR only on bonds 2, 3) and two operands with partial
marker lists meet `AddHyp`; the sums are computed by the executable model -/
example : AddHyp exA3 exB3 ∧ AddHyp exB3 exC3 := ⟨exAB_hyp, exBC_hyp⟩
example : canon 0 (MPOM.add exB3 exC3).denote = canon 0 (exB3.denote ++ exC3.denote) := by decide +kernel

/-- the 4-site chain `exP` (markers at different indices on different bonds, an inner state) meets `PrefHyp`
for the two-site string `A_1 B_2`, whose prefactor is 3 -/
example : PrefHyp exP 1 ["A", "B"] ∧ exP.prefactor 1 ["A", "B"] = 3 := by decide

/-- the 3-site chain `exPI` (permuted markers, an inner state) meets `PlusIdHyp` for the block `[0, 1]`;
`6·1 + 4·H` with `tb = 2`, `ta = 3` computed by the executable model -/
example : PlusIdHyp exPI 0 2 := exPI_hyp
example : canon 0 (exPI.plusIdentity 4 2 3 [0, 1] (fun _ => [("Id", 1)])).denote
    = canon 0 (Sym.smul 4 exPI.denote ++ [(idStr 3, 6)]) := by decide +kernel

/-- the 3-site chain `exUI` (markers swapped on bond 1) meets `UIHyp` -/
example : UIHyp exUI := exUI_hyp

end examples
