import TenpyModel.C11.ExtEnvProofs1
/-!
# C11 extension, helper lemmas 2: `MPOEnvironment.full_contraction`
-/
namespace TenpyModel.Ops

/-! ## lists -/

theorem list_eq_range_map_getD {β : Type} (l : List β) (d : β) :
    l = (List.range l.length).map (fun i => l.getD i d) := by
  apply List.ext_getElem
  · simp
  · intro i h1 h2
    simp [List.getD_eq_getElem?_getD, h1]

theorem rev_range_eq (L i0 : Nat) :
    (List.range (L - 1 - i0)).map (fun d => L - 1 - d)
      = ((List.range (L - 1 - i0)).map (fun d => i0 + 1 + d)).reverse := by
  apply List.ext_getElem
  · simp
  · intro i h1 h2
    simp only [List.length_map, List.length_range] at h1
    simp only [List.getElem_map, List.getElem_range, List.getElem_reverse, List.length_map,
      List.length_range]
    omega

section env
variable {α : Type} [CommSemiring α]

theorem denote_eq_env (a : MPOM α) (l r : Nat) (hl : a.idL.getD 0 none = some l)
    (hr : a.idR.getD a.L none = some r) (lenR : a.idR.length = a.L + 1) :
    a.denote = pathsFrom r a.layers l := by
  have h1 : a.idL.head? = some (some l) := by
    cases h : a.idL with
    | nil => rw [h] at hl; simp at hl
    | cons x l => rw [h] at hl; simp at hl; simp [hl]
  have h2 : a.idR.getLast? = some (some r) := by
    rw [List.getLast?_eq_getElem?, lenR]
    rw [List.getD_eq_getElem?_getD] at hr
    have : a.L < a.idR.length := by omega
    simp [this] at hr ⊢
    exact hr
  unfold MPOM.denote
  rw [h1, h2]

/-- layer `i` of the mixed form with the centre right of site `i0` -/
def MPSM.mixedL (psi : MPSM α) (i0 i : Nat) : List (Edge Nat α) :=
  if i < i0 then psi.A.getD i []
  else if i = i0 then
    (psi.A.getD i []).map (fun e => { e with c := e.c * (psi.S.getD (i0 + 1) []).getD e.kR 0 })
  else psi.B.getD i []

theorem MPSM.mixedLayers_eq (psi : MPSM α) (i0 : Nat) :
    psi.mixedLayers i0 = (List.range psi.B.length).map (psi.mixedL i0) := rfl

/-- the network of site `i` in the mixed form -/
def Env.siteM (mel : String → String → String → α) (cj : α → α) (e : Env α) (i0 i : Nat) :
    List (WEdge EnvKey α) :=
  prod3 mel cj (e.bra.mixedL i0 i) (e.H.layers.getD i []) (e.ket.mixedL i0 i)

theorem Env.siteM_lt (mel : String → String → String → α) (cj : α → α) (e : Env α) (i0 i : Nat)
    (h : i < i0) : e.siteM mel cj i0 i = e.siteA mel cj i := by
  simp [Env.siteM, Env.siteA, MPSM.mixedL, h]

theorem Env.siteM_gt (mel : String → String → String → α) (cj : α → α) (e : Env α) (i0 i : Nat)
    (h : i0 < i) : e.siteM mel cj i0 i = e.siteB mel cj i := by
  have h1 : ¬ i < i0 := by omega
  have h2 : ¬ i = i0 := by omega
  simp [Env.siteM, Env.siteB, MPSM.mixedL, h1, h2]

/-- the singular values are absorbed into the `A` tensors of site `i0` -/
theorem Env.lstep_scale (mel : String → String → String → α) (cj : α →+* α) (e : Env α) (i0 : Nat)
    (G : EnvKey → α) :
    KVec.lstep (e.siteA mel cj i0) (fun k => cj ((e.bra.S.getD (i0 + 1) []).getD k.1 0)
        * (e.ket.S.getD (i0 + 1) []).getD k.2.2 0 * G k)
      = KVec.lstep (e.siteM mel cj i0 i0) G := by
  funext k
  simp only [KVec.lstep, Env.siteA, Env.siteM, MPSM.mixedL, Nat.lt_irrefl, if_false, if_true, prod3,
    lsum_filter, lsum_flatMap, lsum_map, map_mul]
  apply lsum_congr
  intro ek _
  apply lsum_congr
  intro ew _
  apply lsum_congr
  intro eb _
  split
  · ring
  · rfl

theorem Env.wsum_scaleS (cj : α → α) (e : Env α) (i0 : Nat) (F : EnvKey → α) (lp : KVec EnvKey α) :
    KVec.wsum F (e.scaleS cj i0 lp)
      = KVec.wsum (fun k => cj ((e.bra.S.getD (i0 + 1) []).getD k.1 0)
          * (e.ket.S.getD (i0 + 1) []).getD k.2.2 0 * F k) lp := by
  simp only [KVec.wsum, Env.scaleS, lsum_map]
  apply lsum_congr
  intro p _
  ring

theorem Env.initLP_eq (e : Env α) (h : EnvHyp e) (l : Nat) (hl : e.H.idL.getD 0 none = some l) :
    e.initLP = some [((0, l, 0), 1)] := by
  unfold Env.initLP
  rw [hl, h.braChi0, h.ketChi0]
  simp [List.range_succ]

theorem Env.initRP_eq (e : Env α) (h : EnvHyp e) (r : Nat) (hr : e.H.idR.getD e.H.L none = some r) :
    e.initRP = some [((0, r, 0), 1)] := by
  unfold Env.initRP
  rw [hr, h.braChiL, h.ketChiL]
  simp [List.range_succ]

/-- the layers contracted by `full_contraction(i0)` -/
theorem Env.layers_split (mel : String → String → String → α) (cj : α → α) (e : Env α) (i0 : Nat)
    (hi : i0 < e.H.L) :
    (List.range i0).map (e.siteA mel cj) ++ ([e.siteM mel cj i0 i0]
        ++ ((List.range (e.H.L - 1 - i0)).map (fun d => i0 + 1 + d)).map (e.siteB mel cj))
      = (List.range e.H.L).map (e.siteM mel cj i0) := by
  have hL : e.H.L = i0 + (1 + (e.H.L - 1 - i0)) := by omega
  conv_rhs => rw [hL, List.range_add, List.range_add]
  simp only [List.map_append, List.map_map, List.range_one, List.map_cons, List.map_nil]
  congr 1
  · apply List.map_congr_left
    intro i hi'
    exact (Env.siteM_lt mel cj e i0 i (List.mem_range.1 hi')).symm
  · congr 1
    apply List.map_congr_left
    intro d _
    simp only [Function.comp_def]
    rw [Env.siteM_gt mel cj e i0 _ (by omega)]
    congr 1
    omega

variable [DecidableEq α]

theorem Env.contraction_val (mel : String → String → String → α) (cj : α →+* α) (e : Env α)
    (h : EnvHyp e) (i0 : Nat) (hi : i0 < e.H.L) (l r : Nat) (hl : e.H.idL.getD 0 none = some l)
    (hr : e.H.idR.getD e.H.L none = some r) :
    KVec.dot (e.scaleS cj i0 (e.getLP mel cj [((0, l, 0), 1)] (i0 + 1))) (e.getRP mel cj [((0, r, 0), 1)] i0)
      = tri mel cj (e.bra.state i0) e.H.denote (e.ket.state i0) := by
  rw [KVec.dot_eq_wsum, Env.wsum_scaleS]
  unfold Env.getLP Env.getRP Env.contractLP Env.contractRP
  rw [KVec.wsum_foldl_stepL _ (e.siteA mel cj), List.range_succ, List.map_append, KVec.wpathsF_append,
    rev_range_eq, List.foldl_reverse, KVec.get_foldr_stepR (e.siteB mel cj)]
  simp only [List.map_cons, List.map_nil, KVec.wpathsF]
  rw [Env.lstep_scale]
  have e1 : KVec.lstep (e.siteM mel cj i0 i0)
      (KVec.wpathsF (KVec.get [((0, r, 0), (1 : α))])
        (((List.range (e.H.L - 1 - i0)).map (fun d => i0 + 1 + d)).map (e.siteB mel cj)))
      = KVec.wpathsF (KVec.get [((0, r, 0), (1 : α))]) ([e.siteM mel cj i0 i0]
        ++ ((List.range (e.H.L - 1 - i0)).map (fun d => i0 + 1 + d)).map (e.siteB mel cj)) := rfl
  rw [e1, ← KVec.wpathsF_append, Env.layers_split mel cj e i0 hi, KVec.wsum_singleton]
  unfold Env.siteM
  rw [wpathsF_prod3 mel cj (e.bra.mixedL i0) (fun i => e.H.layers.getD i []) (e.ket.mixedL i0) 0 r 0 _
    (fun k => KVec.get_singleton _ k)]
  rw [denote_eq_env e.H l r hl hr h.idR]
  unfold MPSM.state
  rw [MPSM.mixedLayers_eq, MPSM.mixedLayers_eq, h.braB, h.ketB]
  congr 2
  conv_rhs => rw [list_eq_range_map_getD e.H.layers [], h.layers]

/-- `full_contraction(i0)`, with and without `explicit_plus_hc` -/
theorem full_contraction_val (mel : String → String → String → α) (cj : α →+* α) (e : Env α)
    (h : EnvHyp e) (i0 : Nat) (hi : i0 < e.H.L) :
    Env.fullContraction mel cj e i0
      = some (if e.plusHc then tri mel cj (e.bra.state i0) e.H.denote (e.ket.state i0)
            + cj (tri mel cj (e.bra.state i0) e.H.denote (e.ket.state i0))
          else tri mel cj (e.bra.state i0) e.H.denote (e.ket.state i0)) := by
  obtain ⟨l, hl⟩ := Option.isSome_iff_exists.1 h.mL
  obtain ⟨r, hr⟩ := Option.isSome_iff_exists.1 h.mR
  unfold Env.fullContraction
  rw [if_neg (Nat.not_le.2 hi), Env.initLP_eq e h l hl, Env.initRP_eq e h r hr]
  simp only []
  rw [Env.contraction_val mel cj e h i0 hi l r hl hr]

theorem full_contraction_spec (mel : String → String → String → α) (cj : α →+* α) (e : Env α)
    (h : EnvHyp e) (hp : e.plusHc = false) (i0 : Nat) (hi : i0 < e.H.L) :
    Env.fullContraction mel cj e i0
      = some (tri mel cj (e.bra.state i0) e.H.denote (e.ket.state i0)) := by
  rw [full_contraction_val mel cj e h i0 hi, hp]
  rfl

end env
end TenpyModel.Ops
