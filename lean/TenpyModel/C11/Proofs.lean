import Mathlib.Algebra.Ring.Hom.Defs
import TenpyModel.Ops.PathProofs
import TenpyModel.Ops.MPO
/-!
# C11 helper lemmas: dagger, transfer-matrix overlap
-/
namespace TenpyModel.Ops

section dagger
variable {κ α : Type} [DecidableEq κ] [Semiring α]

theorem dagger_consOp (hc : String → String) (cj : α →+* α) (op : String) (c : α) (s : Sym α) :
    Sym.dagger hc cj (Sym.consOp op c s) = Sym.consOp (hc op) (cj c) (Sym.dagger hc cj s) := by
  simp [Sym.dagger, Sym.consOp, List.map_map, Function.comp_def, map_mul]

omit [Semiring α] in
theorem dagger_flatMap {β : Type} (hc : String → String) (cj : α → α) (l : List β) (f : β → Sym α) :
    Sym.dagger hc cj (l.flatMap f) = l.flatMap (fun x => Sym.dagger hc cj (f x)) := by
  simp [Sym.dagger, List.map_flatMap]

/-- the path sum of the entry-wise conjugated automaton is the dagger of the path sum — as lists -/
theorem pathsFrom_dagger (hc : String → String) (cj : α →+* α) (fin : κ) (layers : List (List (Edge κ α)))
    (k : κ) :
    pathsFrom fin (layers.map (fun l => l.map (fun e => { e with op := hc e.op, c := cj e.c }))) k
      = Sym.dagger hc cj (pathsFrom fin layers k) := by
  induction layers generalizing k with
  | nil =>
    simp only [List.map_nil, pathsFrom_nil]
    split <;> simp [Sym.dagger]
  | cons layer rest ih =>
    simp only [List.map_cons, pathsFrom_cons, dagger_flatMap, List.flatMap_map]
    apply List.flatMap_congr
    intro e _
    by_cases h : e.kL = k
    · simp only [h, if_true, ih, dagger_consOp]
    · simp [h, Sym.dagger]

end dagger

section overlap
variable {α : Type} [CommSemiring α]

theorem sum_flatMap' {β : Type} (l : List β) (f : β → List α) :
    (l.flatMap f).sum = (l.map (fun x => (f x).sum)).sum := by
  induction l with
  | nil => rfl
  | cons x l ih => simp [List.flatMap_cons, ih]

theorem sum_map_mul_left' {β : Type} (l : List β) (a : α) (f : β → α) :
    (l.map (fun x => a * f x)).sum = a * (l.map f).sum := by
  induction l with
  | nil => simp
  | cons x l ih => simp [ih, mul_add]

/-- weight of a pair of strings: `Π_k gram x_k y_k` -/
def pairW (gram : String → String → α) (x y : OpStr) : α :=
  (x.zip y).foldr (fun xy acc => gram xy.1 xy.2 * acc) 1

theorem frob_eq_sum (gram : String → String → α) (cj : α → α) (s t : Sym α) :
    MPOM.frob gram cj s t =
      (s.map (fun p => (t.map (fun q => cj p.2 * q.2 * pairW gram p.1 q.1)).sum)).sum := by
  unfold MPOM.frob
  have : ∀ l : List α, l.foldr (· + ·) 0 = l.sum := fun l => by
    induction l with
    | nil => rfl
    | cons a l ih => simp [List.foldr, ih]
  rw [this, sum_flatMap']
  rfl

theorem frob_nil_left (gram : String → String → α) (cj : α → α) (t : Sym α) :
    MPOM.frob gram cj [] t = 0 := by simp [frob_eq_sum]

theorem frob_nil_right (gram : String → String → α) (cj : α → α) (s : Sym α) :
    MPOM.frob gram cj s [] = 0 := by simp [frob_eq_sum]

theorem frob_append_left (gram : String → String → α) (cj : α → α) (s s' t : Sym α) :
    MPOM.frob gram cj (s ++ s') t = MPOM.frob gram cj s t + MPOM.frob gram cj s' t := by
  simp [frob_eq_sum]

theorem frob_append_right (gram : String → String → α) (cj : α → α) (s t t' : Sym α) :
    MPOM.frob gram cj s (t ++ t') = MPOM.frob gram cj s t + MPOM.frob gram cj s t' := by
  induction s with
  | nil => simp [frob_eq_sum]
  | cons p s ih =>
    simp only [frob_eq_sum, List.map_cons, List.sum_cons, List.map_append, List.sum_append] at ih ⊢
    rw [ih]
    ring

theorem frob_flatMap_left {β : Type} (gram : String → String → α) (cj : α → α) (l : List β)
    (f : β → Sym α) (t : Sym α) :
    MPOM.frob gram cj (l.flatMap f) t = (l.map (fun x => MPOM.frob gram cj (f x) t)).sum := by
  induction l with
  | nil => simp [frob_nil_left]
  | cons x l ih => simp [List.flatMap_cons, frob_append_left, ih]

theorem frob_flatMap_right {β : Type} (gram : String → String → α) (cj : α → α) (s : Sym α) (l : List β)
    (f : β → Sym α) :
    MPOM.frob gram cj s (l.flatMap f) = (l.map (fun x => MPOM.frob gram cj s (f x))).sum := by
  induction l with
  | nil => simp [frob_nil_right]
  | cons x l ih => simp [List.flatMap_cons, frob_append_right, ih]

theorem frob_consOp (gram : String → String → α) (cj : α →+* α) (op op' : String) (c c' : α) (s t : Sym α) :
    MPOM.frob gram cj (Sym.consOp op c s) (Sym.consOp op' c' t)
      = cj c * c' * gram op op' * MPOM.frob gram cj s t := by
  simp only [frob_eq_sum, Sym.consOp, List.map_map, Function.comp_def, pairW, List.zip_cons_cons,
    List.foldr_cons, map_mul]
  rw [← sum_map_mul_left']
  congr 1
  apply List.map_congr_left
  intro p _
  rw [← sum_map_mul_left']
  congr 1
  apply List.map_congr_left
  intro q _
  ring

theorem sum_filter_map {β : Type} (l : List β) (p : β → Bool) (f : β → α) :
    ((l.filter p).map f).sum = (l.map (fun x => if p x then f x else 0)).sum := by
  induction l with
  | nil => rfl
  | cons x l ih =>
    by_cases h : p x
    · simp [List.filter_cons, h, ih]
    · simp [List.filter_cons, h, ih]

theorem vecAt_eq_sum (v : List ((Nat × Nat) × α)) (k : Nat × Nat) :
    MPOM.vecAt v k = (v.map (fun p => if p.1 = k then p.2 else 0)).sum := by
  induction v with
  | nil => rfl
  | cons p v ih =>
    simp only [MPOM.vecAt, List.foldr_cons, List.map_cons, List.sum_cons] at ih ⊢
    rw [ih]
    split <;> simp

theorem frob_unit (gram : String → String → α) (cj : α →+* α) :
    MPOM.frob gram cj [([], 1)] [([], 1)] = 1 := by
  simp [frob_eq_sum, pairW]

/-- transfer-matrix run over zipped layers -/
def tmRun (gram : String → String → α) (cj : α → α)
    (zs : List (List (Edge Nat α) × List (Edge Nat α))) (v : List ((Nat × Nat) × α)) :
    List ((Nat × Nat) × α) :=
  zs.foldl (fun v xy => MPOM.tmStep gram cj xy.1 xy.2 v) v

theorem tmRun_spec (gram : String → String → α) (cj : α →+* α) (ra rb : Nat)
    (zs : List (List (Edge Nat α) × List (Edge Nat α))) (v : List ((Nat × Nat) × α)) :
    MPOM.vecAt (tmRun gram cj zs v) (ra, rb) =
      (v.map (fun p => p.2 * MPOM.frob gram cj (pathsFrom ra (zs.map Prod.fst) p.1.1)
        (pathsFrom rb (zs.map Prod.snd) p.1.2))).sum := by
  induction zs generalizing v with
  | nil =>
    simp only [tmRun, List.foldl_nil, List.map_nil, pathsFrom_nil, vecAt_eq_sum]
    congr 1
    apply List.map_congr_left
    intro p _
    obtain ⟨⟨a, b⟩, x⟩ := p
    by_cases ha : a = ra <;> by_cases hb : b = rb <;>
      simp [ha, hb, frob_unit, frob_nil_left, frob_nil_right]
  | cons z zs ih =>
    obtain ⟨la, lb⟩ := z
    have hrun : tmRun gram cj ((la, lb) :: zs) v = tmRun gram cj zs (MPOM.tmStep gram cj la lb v) := rfl
    rw [hrun, ih]
    simp only [MPOM.tmStep, List.map_flatMap, sum_flatMap', List.map_cons, pathsFrom_cons]
    congr 1
    apply List.map_congr_left
    intro p _
    obtain ⟨⟨a, b⟩, x⟩ := p
    simp only [List.map_map, Function.comp_def]
    rw [frob_flatMap_left, ← sum_map_mul_left']
    simp only [sum_filter_map (α := α) la]
    congr 1
    apply List.map_congr_left
    intro ea _
    by_cases hea : ea.kL = a
    · simp only [hea, decide_true, if_true]
      rw [frob_flatMap_right, ← sum_map_mul_left']
      simp only [sum_filter_map (α := α) lb]
      congr 1
      apply List.map_congr_left
      intro eb _
      by_cases heb : eb.kL = b
      · simp only [heb, decide_true, if_true, frob_consOp]
        ring
      · simp [heb, frob_nil_right]
    · simp [hea, frob_nil_left]

end overlap
end TenpyModel.Ops
