import TenpyModel.C11.ExtStructProofs3
/-!
# C11 extension, proofs 4: `groupSizes`, `enlarge_mps_unit_cell`, `extract_segment`, rejected calls
-/
namespace TenpyModel.Ops

variable {α : Type}

/-! ## default group sizes -/

theorem groupSizes_spec (L n : Nat) (hn : 0 < n) :
    (groupSizes L n).sum = L ∧ ∀ s ∈ groupSizes L n, 0 < s ∧ s ≤ n := by
  unfold groupSizes
  constructor
  · rw [List.sum_append, List.sum_replicate_nat]
    have := Nat.div_add_mod L n
    split
    · simp only [List.sum_nil]; rw [Nat.mul_comm]; omega
    · simp only [List.sum_cons, List.sum_nil]; rw [Nat.mul_comm]; omega
  · intro s hs
    rcases List.mem_append.1 hs with h | h
    · have := (List.mem_replicate.1 h).2
      omega
    · split at h
      · simp at h
      · have hlt := Nat.mod_lt L hn
        simp at h
        omega

/-! ## enlarge_mps_unit_cell -/

theorem flatten_replicate_replicate {β : Type} (l : List β) (f n : Nat) :
    (List.replicate n (List.replicate f l).flatten).flatten = (List.replicate (f * n) l).flatten := by
  induction n with
  | zero => simp
  | succ n ih =>
    rw [List.replicate_succ, List.flatten_cons, ih, Nat.mul_succ, Nat.add_comm, List.replicate_add,
      List.flatten_append]

theorem head?_enlarge {β : Type} (xs : List β) (f L : Nat) (d : β) (hx : xs.length = L + 1) (hL : 0 < L)
    (hf : 1 < f) : ((List.replicate f xs.dropLast).flatten ++ [xs.getLastD d]).head? = xs.head? := by
  obtain ⟨f', rfl⟩ : ∃ f', f = f' + 1 := ⟨f - 1, by omega⟩
  match xs, hx with
  | a :: b :: xs, _ => simp [List.replicate_succ, List.dropLast]
  | [a], hx => simp at hx; omega
  | [], hx => simp at hx

theorem getLast?_enlarge {β : Type} (xs ys : List β) (d : β) (hx : xs ≠ []) :
    (ys ++ [xs.getLastD d]).getLast? = xs.getLast? := by
  rw [List.getLast?_append, List.getLast?_singleton]
  cases xs with
  | nil => exact absurd rfl hx
  | cons a xs => simp [List.getLastD, List.getLast?_eq_getLast_of_ne_nil]

theorem enlarge_denoteWindow [Semiring α] (m : MPOM α) (factor n : Nat) (g : MPOM α)
    (hL : 0 < m.L) (hl : m.idL.length = m.L + 1) (hr : m.idR.length = m.L + 1)
    (hg : m.enlargeUnitCell false factor = some g) :
    g.denoteWindow n = m.denoteWindow (factor * n) := by
  unfold MPOM.enlargeUnitCell at hg
  split at hg
  · exact absurd hg (by simp)
  rename_i hf
  have hf1 : 1 < factor := by simpa using hf
  have hg' := (Option.some.inj hg).symm
  have hgL : g.idL.head? = m.idL.head? := by
    rw [hg']; exact head?_enlarge m.idL factor m.L none hl hL hf1
  have hgR : g.idR.getLast? = m.idR.getLast? := by
    rw [hg']
    exact getLast?_enlarge m.idR _ none (by intro h0; rw [h0] at hr; simp at hr)
  have hlay : (List.replicate n g.layers).flatten = (List.replicate (factor * n) m.layers).flatten := by
    rw [hg']; exact flatten_replicate_replicate m.layers factor n
  unfold MPOM.denoteWindow
  rw [hgL, hgR, hlay]

/-! ## extract_segment -/

theorem map_range_getD {β : Type} (l : List β) (d : β) :
    (List.range l.length).map (fun i => l.getD i d) = l := by
  apply List.ext_getElem
  · simp
  · intro i h1 h2
    simp [List.getD_eq_getElem?_getD, h2]

theorem map_range_mod {β : Type} (l : List β) (d : β) (L n : Nat) (hl : l.length = L) :
    (List.range (n * L)).map (fun i => l.getD (i % L) d) = (List.replicate n l).flatten := by
  induction n with
  | zero => simp
  | succ n ih =>
    rw [Nat.succ_mul, List.range_add, List.map_append, ih, List.replicate_succ', List.flatten_append,
      List.map_map]
    congr 1
    simp only [List.flatten_cons, List.flatten_nil, List.append_nil]
    conv_rhs => rw [← map_range_getD l d, hl]
    apply List.map_congr_left
    intro i hi
    have hi' : i < L := List.mem_range.1 hi
    simp only [Function.comp_apply]
    rw [Nat.mul_add_mod_self_right, Nat.mod_eq_of_lt hi']

theorem last_mod (n L : Nat) (hn : 0 < n) (hL : 0 < L) : (n * L - 1) % L + 1 = L := by
  obtain ⟨n', rfl⟩ : ∃ n', n = n' + 1 := ⟨n - 1, by omega⟩
  have h1 : (n' + 1) * L - 1 = n' * L + (L - 1) := by rw [Nat.succ_mul]; omega
  rw [h1, Nat.mul_add_mod_self_right, Nat.mod_eq_of_lt (by omega)]
  omega

theorem extract_segment_denote [Semiring α] (m : MPOM α) (ucw n : Nat) (g : MPOM α)
    (hn : 0 < n) (hL : 0 < m.L) (hlay : m.layers.length = m.L) (hl : m.idL.length = m.L + 1)
    (hr : m.idR.length = m.L + 1)
    (hg : m.extractSegment ucw 0 (n * m.L - 1) = some g) :
    g.denote = m.denoteWindow n := by
  have hpos : 0 < n * m.L := Nat.mul_pos hn hL
  have hcnt : n * m.L - 1 + 1 - 0 = n * m.L := by omega
  unfold MPOM.extractSegment at hg
  simp only at hg
  split at hg
  · exact absurd hg (by simp)
  split at hg
  · exact absurd hg (by simp)
  have hg' := (Option.some.inj hg).symm
  rw [hcnt, last_mod n m.L hn hL] at hg'
  simp only [Nat.add_zero, List.map_id'] at hg'
  have hgl : g.layers = (List.replicate n m.layers).flatten := by
    rw [hg']; exact map_range_mod m.layers [] m.L n hlay
  have hrange : List.range (n * m.L) = 0 :: (List.range (n * m.L - 1)).map (· + 1) := by
    obtain ⟨k, hk⟩ : ∃ k, n * m.L = k + 1 := ⟨n * m.L - 1, by omega⟩
    rw [hk, List.range_succ_eq_map]; simp
  have hgL : g.idL.head? = m.idL.head? := by
    rw [hg']
    simp only
    rw [hrange, List.map_cons, List.cons_append, List.head?_cons, Nat.zero_mod,
      head?_eq_some_getD m.idL none (by omega)]
  have hgR : g.idR.getLast? = m.idR.getLast? := by
    rw [hg']
    simp only
    rw [List.getLast?_append, List.getLast?_singleton, getLast?_eq_some_getD m.idR none m.L hr]
    rfl
  unfold MPOM.denote MPOM.denoteWindow
  rw [hgL, hgR, hgl]

/-! ## rejected calls -/

theorem struct_rejects [Semiring α] (join : String → String → String) (m : MPOM α)
    (factor ucw first last : Nat) (sizes : Option (List Nat)) :
    m.enlargeUnitCell true factor = none ∧ (factor ≤ 1 → m.enlargeUnitCell false factor = none) ∧
    ((last + 1 - first) % (m.L / ucw) ≠ 0 → m.extractSegment ucw first last = none) ∧
    m.groupSites join 0 sizes = none := by
  refine ⟨?_, ?_, ?_, ?_⟩
  · simp [MPOM.enlargeUnitCell]
  · intro h; simp [MPOM.enlargeUnitCell, h]
  · intro h
    unfold MPOM.extractSegment
    simp only
    split <;> rfl
  · simp [MPOM.groupSites]

end TenpyModel.Ops
