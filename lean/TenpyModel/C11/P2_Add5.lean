import TenpyModel.C11.P2_Add4
/-!
# `MPO.__add__` on integer indices, part 5: the per-site step for the key `IdR`
-/
namespace TenpyModel.Ops

variable {κ α : Type} [DecidableEq κ] [Semiring α]
variable {m m' : BM κ} {A B : List (Edge κ α)} {sA sB : κ → α} {sS : SK κ → α}

theorem sum_map_eq_zero {β : Type} (l : List β) (f : β → α) (h : ∀ x ∈ l, f x = 0) :
    (l.map f).sum = 0 := by
  rw [← sum_map_zero' (α := α) l]
  exact sum_congr_map l f _ h

/-- `A`-part of the step from `IdR` when the first summand has `IdR` on the left bond -/
theorem step_r_A_some (hs : SiteHyp m m' A B) (hn : NextOK m' sA sB sS) (op : String) (ka : κ)
    (ha : m.ra = some ka) :
    (A.map (fun e => if keepAo m m' e then (if injAo m e.kL = SK.r ∧ e.op = op
        then e.c * sS (injAo m' e.kR) else 0) else 0)).sum = stepSum sA A op ka := by
  rw [stepSum]
  apply sum_congr_map
  intro e he
  obtain ⟨h1, h2⟩ := hs.stdA e he
  rw [keepAo_of_std m m' e h1 h2, if_pos rfl, hn.val _ (validO_injAo m' e.kR)]
  by_cases hc : e.kL = ka ∧ e.op = op
  · have hkr : some e.kL = m.ra := by rw [hc.1, ha]
    have hkl : some e.kL ≠ m.la := fun h => hs.distA e.kL h.symm hkr.symm
    have hr' := h2 hkr
    have hne : some e.kR ≠ m'.la := fun h => hs.distA' e.kR h.symm hr'.symm
    rw [if_pos hc, if_pos ⟨(injAo_eq_r m e.kL).2 ⟨hkl, hkr⟩, hc.2⟩, expectO_injAo_ne m' sA sB e.kR hne]
  · rw [if_neg hc, if_neg]
    intro h
    have := ((injAo_eq_r m e.kL).1 h.1).2
    rw [ha] at this
    exact hc ⟨Option.some.inj this, h.2⟩

/-- `A`-part of the step from `IdR` when the first summand has no `IdR` on the left bond -/
theorem step_r_A_none (op : String) (ha : m.ra = none) :
    (A.map (fun e => if keepAo m m' e then (if injAo m e.kL = SK.r ∧ e.op = op
        then e.c * sS (injAo m' e.kR) else 0) else 0)).sum = 0 := by
  apply sum_map_eq_zero
  intro e _
  have : ¬ (injAo m e.kL = SK.r ∧ e.op = op) := by
    intro h
    have := ((injAo_eq_r m e.kL).1 h.1).2
    rw [ha] at this
    cases this
  rw [if_neg this]
  simp

/-- `B`-part of the step from `IdR` when the first summand has `IdR` on the left bond: dropped -/
theorem step_r_B_drop (hs : SiteHyp m m' A B) (op : String) (ka : κ) (ha : m.ra = some ka) :
    (B.map (fun e => if keepBo m m' e then (if injBo m e.kL = SK.r ∧ e.op = op
        then e.c * sS (injBo m' e.kR) else 0) else 0)).sum = 0 := by
  apply sum_map_eq_zero
  intro e he
  obtain ⟨h1, h2⟩ := hs.stdB e he
  by_cases hc : injBo m e.kL = SK.r ∧ e.op = op
  · have hkr := ((injBo_eq_r m e.kL).1 hc.1).2
    have hr' := h2 hkr
    have ha' : m'.ra.isSome = true := by
      cases h : m'.ra with
      | none => rw [hs.sufA h] at ha; cases ha
      | some _ => rfl
    have : keepBo m m' e = false := by
      rw [keepBo_of_std m m' e hs.distB h1 h2]
      simp [hkr, hr', ha, ha']
    rw [this]
    simp
  · rw [if_neg hc]
    simp

/-- `B`-part of the step from `IdR` when only the second summand has `IdR` on the left bond -/
theorem step_r_B_some (hs : SiteHyp m m' A B) (hn : NextOK m' sA sB sS) (op : String) (kb : κ)
    (ha : m.ra = none) (hb : m.rb = some kb) :
    (B.map (fun e => if keepBo m m' e then (if injBo m e.kL = SK.r ∧ e.op = op
        then e.c * sS (injBo m' e.kR) else 0) else 0)).sum = stepSum sB B op kb := by
  rw [stepSum]
  apply sum_congr_map
  intro e he
  obtain ⟨h1, h2⟩ := hs.stdB e he
  rw [hn.val _ (validO_injBo m' e.kR)]
  by_cases hc : e.kL = kb ∧ e.op = op
  · have hkr : some e.kL = m.rb := by rw [hc.1, hb]
    have hkl : some e.kL ≠ m.lb := fun h => hs.distB e.kL h.symm hkr.symm
    have hr' := h2 hkr
    have hne : some e.kR ≠ m'.lb := fun h => hs.distB' e.kR h.symm hr'.symm
    have hkeep : keepBo m m' e = true := by
      rw [keepBo_of_std m m' e hs.distB h1 h2]
      simp [hkl, ha]
    rw [hkeep, if_pos rfl, if_pos hc, if_pos ⟨(injBo_eq_r m e.kL).2 ⟨hkl, hkr⟩, hc.2⟩,
      expectO_injBo_ne m' sA sB e.kR hne hn.req]
  · rw [if_neg hc]
    have : ¬ (injBo m e.kL = SK.r ∧ e.op = op) := by
      intro h
      have := ((injBo_eq_r m e.kL).1 h.1).2
      rw [hb] at this
      exact hc ⟨Option.some.inj this, h.2⟩
    rw [if_neg this]
    simp

theorem step_r_B_none (op : String) (hb : m.rb = none) :
    (B.map (fun e => if keepBo m m' e then (if injBo m e.kL = SK.r ∧ e.op = op
        then e.c * sS (injBo m' e.kR) else 0) else 0)).sum = 0 := by
  apply sum_map_eq_zero
  intro e _
  have : ¬ (injBo m e.kL = SK.r ∧ e.op = op) := by
    intro h
    have := ((injBo_eq_r m e.kL).1 h.1).2
    rw [hb] at this
    cases this
  rw [if_neg this]
  simp

theorem step_r (hs : SiteHyp m m' A B) (hn : NextOK m' sA sB sS) (op : String) :
    stepSum sS (symLayer m m' A B) op SK.r
      = expectO m (stepSum sA A op) (stepSum sB B op) SK.r := by
  rw [stepSum_symLayer]
  cases ha : m.ra with
  | some ka =>
    rw [step_r_A_some hs hn op ka ha, step_r_B_drop hs op ka ha, add_zero]
    simp only [expectO, ha]
  | none =>
    rw [step_r_A_none op ha, zero_add]
    cases hb : m.rb with
    | some kb =>
      rw [step_r_B_some hs hn op kb ha hb]
      simp only [expectO, ha, hb]
    | none =>
      rw [step_r_B_none op hb]
      simp only [expectO, ha, hb]

end TenpyModel.Ops
