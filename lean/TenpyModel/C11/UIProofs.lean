import Mathlib.Algebra.DualNumber
import TenpyModel.C11.SumProofs
/-!
# C11: first-order expansion of `make_U_I` for automata with symbolic keys
-/
namespace TenpyModel.Ops
open TrivSqZeroExt DualNumber

variable {κ α : Type} [DecidableEq κ] [CommSemiring α]

/-- coefficients `c ↦ c + 0·ε` -/
def liftEdge (e : Edge κ α) : Edge κ (DualNumber α) := ⟨e.kL, e.kR, e.op, inl e.c⟩

/-- `W_I` of one site, symbolic keys: the column `IdL` absorbs `dt ×` the column `IdR`, the row and the
column `IdR` disappear (`lk`, `rk` = keys of `IdL`, `IdR`) -/
def uiLayer {β : Type} [Mul β] (lk rk : κ) (dt : β) (la : List (Edge κ β)) : List (Edge κ β) :=
  la.flatMap (fun e => if e.kL = rk then [] else if e.kR = rk then [⟨e.kL, lk, e.op, dt * e.c⟩] else [e])

/-- standard form of one layer with identity entries `IdL → IdL`, `IdR → IdR` -/
structure StdId (lk rk : κ) (la : List (Edge κ α)) : Prop where
  intoL : ∀ e ∈ la, e.kR = lk → e.kL = lk
  fromR : ∀ e ∈ la, e.kL = rk → e.kR = rk
  idL : ∀ op, entryCoeff la lk lk op = if op = "Id" then 1 else 0
  idR : ∀ op, entryCoeff la rk rk op = if op = "Id" then 1 else 0

theorem fst_list_sum (l : List (DualNumber α)) : l.sum.fst = (l.map fst).sum := by
  induction l with
  | nil => simp
  | cons a l ih => simp [ih]

theorem snd_list_sum (l : List (DualNumber α)) : l.sum.snd = (l.map snd).sum := by
  induction l with
  | nil => simp
  | cons a l ih => simp [ih]

end TenpyModel.Ops

namespace TenpyModel.Ops
open TrivSqZeroExt DualNumber
variable {κ α : Type} [DecidableEq κ] [CommSemiring α]

theorem sum_map_flatMap {β γ : Type} {M : Type} [AddCommMonoid M] (l : List β) (f : β → List γ) (h : γ → M) :
    ((l.flatMap f).map h).sum = (l.map (fun x => ((f x).map h).sum)).sum := by
  induction l with
  | nil => rfl
  | cons x l ih => simp [List.flatMap_cons, ih]

/-- coefficient recursion through one `W_I` layer -/
theorem coeff_ui_cons (lk rk : κ) (la : List (Edge κ α)) (U' : List (List (Edge κ (DualNumber α)))) (k : κ)
    (op : String) (t : OpStr) :
    coeff (pathsFrom lk (uiLayer lk rk (ε : DualNumber α) (la.map liftEdge) :: U') k) (op :: t) =
      (la.map (fun e =>
        if e.kL = rk then 0
        else if e.kR = rk then
          (if e.kL = k ∧ e.op = op then (ε * inl e.c) * coeff (pathsFrom lk U' lk) t else 0)
        else (if e.kL = k ∧ e.op = op then inl e.c * coeff (pathsFrom lk U' e.kR) t else 0))).sum := by
  rw [coeff_pathsFrom_cons, uiLayer, sum_map_flatMap, List.map_map]
  congr 1
  apply List.map_congr_left
  intro e _
  simp only [Function.comp, liftEdge]
  by_cases h1 : e.kL = rk
  · simp [h1]
  · by_cases h2 : e.kR = rk
    · simp [h1, h2]
    · simp [h1, h2]

end TenpyModel.Ops

namespace TenpyModel.Ops
open TrivSqZeroExt DualNumber
variable {κ α : Type} [DecidableEq κ] [CommSemiring α]

/-- the summand of `coeff_ui_cons` for one edge -/
def uiTerm (lk rk k : κ) (op : String) (R' : κ → DualNumber α) (e : Edge κ α) : DualNumber α :=
  if e.kL = rk then 0
  else if e.kR = rk then (if e.kL = k ∧ e.op = op then (ε * inl e.c) * R' lk else 0)
  else (if e.kL = k ∧ e.op = op then inl e.c * R' e.kR else 0)

theorem snd_uiTerm (lk rk k : κ) (hk : k ≠ rk) (op : String) (R' : κ → DualNumber α) (H' : κ → α)
    (hfl : (R' lk).fst = H' rk) (hs : ∀ x, x ≠ rk → (R' x).snd = H' x) (e : Edge κ α) :
    (uiTerm lk rk k op R' e).snd = if e.kL = k ∧ e.op = op then e.c * H' e.kR else 0 := by
  unfold uiTerm
  by_cases h1 : e.kL = rk
  · have h3 : ¬ (e.kL = k ∧ e.op = op) := fun hh => hk (hh.1.symm.trans h1)
    simp only [if_pos h1, if_neg h3, snd_zero]
  · by_cases h3 : e.kL = k ∧ e.op = op
    · by_cases h2 : e.kR = rk
      · simp only [if_neg h1, if_pos h2, if_pos h3]
        rw [h2]
        simp [hfl, mul_comm]
      · simp only [if_neg h1, if_neg h2, if_pos h3]
        simp [hs e.kR h2]
    · by_cases h2 : e.kR = rk
      · simp only [if_neg h1, if_pos h2, if_neg h3, snd_zero]
      · simp only [if_neg h1, if_neg h2, if_neg h3, snd_zero]

theorem fst_uiTerm (lk rk k : κ) (op : String) (R' : κ → DualNumber α) (e : Edge κ α) :
    (uiTerm lk rk k op R' e).fst =
      if e.kL = k ∧ e.op = op ∧ e.kL ≠ rk ∧ e.kR ≠ rk then e.c * (R' e.kR).fst else 0 := by
  unfold uiTerm
  by_cases h1 : e.kL = rk
  · have : ¬ (e.kL = k ∧ e.op = op ∧ e.kL ≠ rk ∧ e.kR ≠ rk) := fun hh => hh.2.2.1 h1
    simp only [if_pos h1, if_neg this, fst_zero]
  · by_cases h2 : e.kR = rk
    · have : ¬ (e.kL = k ∧ e.op = op ∧ e.kL ≠ rk ∧ e.kR ≠ rk) := fun hh => hh.2.2.2 h2
      simp only [if_neg h1, if_pos h2, if_neg this]
      split <;> simp
    · by_cases h3 : e.kL = k ∧ e.op = op
      · have : e.kL = k ∧ e.op = op ∧ e.kL ≠ rk ∧ e.kR ≠ rk := ⟨h3.1, h3.2, h1, h2⟩
        simp only [if_neg h1, if_neg h2, if_pos h3, if_pos this]
        simp
      · have : ¬ (e.kL = k ∧ e.op = op ∧ e.kL ≠ rk ∧ e.kR ≠ rk) := fun hh => h3 ⟨hh.1, hh.2.1⟩
        simp only [if_neg h1, if_neg h2, if_neg h3, if_neg this, fst_zero]

/-- the propagator automaton of a list of layers -/
def uiLayers (lk rk : κ) (as : List (List (Edge κ α))) : List (List (Edge κ (DualNumber α))) :=
  as.map (fun la => uiLayer lk rk (ε : DualNumber α) (la.map liftEdge))

theorem idStr_succ' (n : Nat) : idStr (n + 1) = "Id" :: idStr n := by
  simp [idStr, List.replicate_succ]

theorem stdLayer_of_stdId (lk rk : κ) (la : List (Edge κ α)) (h : StdId lk rk la) : StdLayer lk rk la :=
  fun e he => ⟨h.intoL e he, h.fromR e he⟩

theorem coeff_ui_cons' (lk rk : κ) (la : List (Edge κ α)) (U' : List (List (Edge κ (DualNumber α)))) (k : κ)
    (op : String) (t : OpStr) :
    coeff (pathsFrom lk (uiLayer lk rk (ε : DualNumber α) (la.map liftEdge) :: U') k) (op :: t) =
      (la.map (uiTerm lk rk k op (fun x => coeff (pathsFrom lk U' x) t))).sum := by
  rw [coeff_ui_cons]; rfl

theorem ui_first_order (lk rk : κ) (hlr : lk ≠ rk) (as : List (List (Edge κ α)))
    (h : ∀ la ∈ as, StdId lk rk la) :
    (∀ t, coeff (pathsFrom rk as rk) t = coeff [(idStr as.length, (1 : α))] t) ∧
    (∀ t, (coeff (pathsFrom lk (uiLayers lk rk as) lk) t).fst = coeff [(idStr as.length, (1 : α))] t ∧
          (coeff (pathsFrom lk (uiLayers lk rk as) lk) t).snd = coeff (pathsFrom rk as lk) t) ∧
    (∀ k, k ≠ lk → k ≠ rk → ∀ t,
          (coeff (pathsFrom lk (uiLayers lk rk as) k) t).fst = 0 ∧
          (coeff (pathsFrom lk (uiLayers lk rk as) k) t).snd = coeff (pathsFrom rk as k) t) := by
  induction as with
  | nil =>
    refine ⟨fun t => by simp [idStr], fun t => ?_, fun k hk1 hk2 t => ?_⟩
    · simp only [uiLayers, List.map_nil, pathsFrom_nil, if_true, List.length_nil, idStr, List.replicate_zero,
        coeff_singleton, if_neg hlr, coeff_nil]
      split <;> simp
    · simp [uiLayers, hk1, hk2]
  | cons la as ih =>
    have hla := h la List.mem_cons_self
    obtain ⟨ihR, ihL, ihA⟩ := ih (fun l hl => h l (List.mem_cons_of_mem _ hl))
    have hUI : uiLayers lk rk (la :: as) = uiLayer lk rk (ε : DualNumber α) (la.map liftEdge) :: uiLayers lk rk as := rfl
    have hδ : ∀ (op : String) (t : OpStr), coeff [(idStr (la :: as).length, (1 : α))] (op :: t)
        = (if op = "Id" then 1 else 0) * coeff [(idStr as.length, (1 : α))] t := by
      intro op t
      rw [List.length_cons, idStr_succ', coeff_singleton, coeff_singleton]
      by_cases h1 : op = "Id"
      · subst h1
        by_cases h2 : idStr as.length = t
        · simp [h2]
        · simp [h2]
      · have : ¬ ("Id" :: idStr as.length = op :: t) := fun hh => h1 (List.cons.inj hh).1.symm
        simp [h1, this]
    have hR : ∀ t, coeff (pathsFrom rk (la :: as) rk) t = coeff [(idStr (la :: as).length, (1 : α))] t := by
      intro t
      cases t with
      | nil => rw [coeff_pathsFrom_cons_nil]; simp [coeff_singleton, idStr]
      | cons op t =>
        rw [coeff_from_r lk rk la as (stdLayer_of_stdId lk rk la hla), hla.idR op, ihR t, hδ]
    -- the suffix of H one site further, as a function of the key
    have hsnd : ∀ t x, x ≠ rk →
        (coeff (pathsFrom lk (uiLayers lk rk as) x) t).snd = coeff (pathsFrom rk as x) t := by
      intro t x hx
      by_cases hxl : x = lk
      · subst hxl; exact (ihL t).2
      · exact (ihA x hxl hx t).2
    have hfl : ∀ t, (coeff (pathsFrom lk (uiLayers lk rk as) lk) t).fst = coeff (pathsFrom rk as rk) t :=
      fun t => (ihL t).1.trans (ihR t).symm
    have hsndAll : ∀ k, k ≠ rk → ∀ op t,
        (coeff (pathsFrom lk (uiLayers lk rk (la :: as)) k) (op :: t)).snd
          = coeff (pathsFrom rk (la :: as) k) (op :: t) := by
      intro k hk op t
      rw [hUI, coeff_ui_cons', snd_list_sum, List.map_map, coeff_pathsFrom_cons]
      apply sum_congr_map
      intro e _
      simp only [Function.comp]
      rw [snd_uiTerm lk rk k hk op _ (fun x => coeff (pathsFrom rk as x) t) (hfl t) (hsnd t) e]
    refine ⟨hR, ?_, ?_⟩
    · intro t
      cases t with
      | nil =>
        rw [hUI, coeff_pathsFrom_cons_nil, coeff_pathsFrom_cons_nil]
        simp [coeff_singleton, idStr]
      | cons op t =>
        refine ⟨?_, hsndAll lk hlr op t⟩
        rw [hUI, coeff_ui_cons', fst_list_sum, List.map_map, hδ, ← hla.idL op, entryCoeff,
          ← sum_map_mul_right'']
        apply sum_congr_map
        intro e he
        simp only [Function.comp]
        rw [fst_uiTerm]
        by_cases h3 : e.kL = lk ∧ e.kR = lk ∧ e.op = op
        · have : e.kL = lk ∧ e.op = op ∧ e.kL ≠ rk ∧ e.kR ≠ rk :=
            ⟨h3.1, h3.2.2, h3.1 ▸ hlr, h3.2.1 ▸ hlr⟩
          rw [if_pos this, if_pos h3, h3.2.1, (ihL t).1]
        · rw [if_neg h3, zero_mul]
          split
          · next hc =>
            have hkR : e.kR ≠ lk := fun hh => h3 ⟨hc.1, hh, hc.2.1⟩
            rw [(ihA e.kR hkR hc.2.2.2 t).1, mul_zero]
          · rfl
    · intro k hk1 hk2 t
      cases t with
      | nil =>
        rw [hUI, coeff_pathsFrom_cons_nil, coeff_pathsFrom_cons_nil]
        simp
      | cons op t =>
        refine ⟨?_, hsndAll k hk2 op t⟩
        rw [hUI, coeff_ui_cons', fst_list_sum, List.map_map]
        apply List.sum_eq_zero
        intro x hx
        obtain ⟨e, he, rfl⟩ := List.mem_map.1 hx
        simp only [Function.comp]
        rw [fst_uiTerm]
        split
        · next hc =>
          have hkR : e.kR ≠ lk := fun hh => hk1 (hc.1 ▸ hla.intoL e he hh)
          rw [(ihA e.kR hkR hc.2.2.2 t).1, mul_zero]
        · rfl

end TenpyModel.Ops
