import TenpyModel.C11.P2_PlusId3
/-!
# C11 / `plus_identity`, index-level model: row functionals of the model's layers

* matrix form of a row functional (`rowSum_eq_entries`): `Σ_e c_e R(kR_e) = Σ_{r ∈ S} W[a, r] · R r` for a duplicate-free
  list `S` of column indices that covers the layer
* `mem_other`, `nodup_other`, `length_other` — the "other" indices of `_partition_W`
* `rowSum_piLayerF_zero / _mid / _last` — the three kinds of rows of `piLayerF`
-/
namespace TenpyModel.Ops
open MPOM
variable {α : Type} [CommSemiring α]

/-! ## list sums -/

theorem rowSum_flatMap {κ β : Type} [DecidableEq κ] (l : List β) (f : β → List (Edge κ α)) (K : κ) (op : String)
    (R : κ → α) : rowSum (l.flatMap f) K op R = (l.map (fun x => rowSum (f x) K op R)).sum := by
  unfold rowSum
  rw [sum_map_flatMap]

theorem sum_zipIdx_pick {β : Type} (S : List β) (n : Nat) (x : β) (q : Nat) (hx : (x, q) ∈ S.zipIdx n) (F : β → α) :
    ((S.zipIdx n).map (fun p => if p.2 = q then F p.1 else 0)).sum = F x := by
  induction S generalizing n with
  | nil => simp at hx
  | cons y S ih =>
    rw [List.zipIdx_cons] at hx ⊢
    rw [List.map_cons, List.sum_cons]
    rcases List.mem_cons.1 hx with h | h
    · obtain ⟨rfl, rfl⟩ := Prod.mk.inj h
      have h0 : ((S.zipIdx (q + 1)).map (fun p => if p.2 = q then F p.1 else 0)).sum = 0 := by
        apply List.sum_eq_zero
        intro z hz
        obtain ⟨p, hp, rfl⟩ := List.mem_map.1 hz
        have := List.le_snd_of_mem_zipIdx hp
        rw [if_neg (by omega)]
      rw [h0, add_zero]
      simp
    · have := List.le_snd_of_mem_zipIdx h
      have hne : ¬ ((y, n).2 = q) := by simp only; omega
      rw [if_neg hne, zero_add, ih (n + 1) h]

theorem sum_zipIdx_fst {β : Type} (S : List β) (g : β → α) :
    (S.zipIdx.map (fun p => g p.1)).sum = (S.map g).sum := by
  conv_rhs => rw [← List.zipIdx_map_fst 0 S, List.map_map]
  rfl

/-! ## matrix form of a row functional -/

theorem sum_entries_nodup (la : List (Edge Nat α)) (a : Nat) (op : String) (H : Nat → α) (S : List Nat)
    (hS : S.Nodup) :
    (S.map (fun r => entryCoeff la a r op * H r)).sum
      = (la.map (fun e => if e.kL = a ∧ e.op = op ∧ e.kR ∈ S then e.c * H e.kR else 0)).sum := by
  induction S with
  | nil =>
    symm
    apply List.sum_eq_zero
    intro z hz
    obtain ⟨e, _, rfl⟩ := List.mem_map.1 hz
    simp
  | cons r S ih =>
    obtain ⟨hr, hS'⟩ := List.nodup_cons.1 hS
    rw [List.map_cons, List.sum_cons, ih hS', entryCoeff, ← sum_map_mul_right'', ← sum_map_add]
    apply sum_congr_map
    intro e _
    by_cases h1 : e.kL = a ∧ e.op = op
    · by_cases h2 : e.kR = r
      · have h3 : e.kL = a ∧ e.kR = r ∧ e.op = op := ⟨h1.1, h2, h1.2⟩
        have h4 : ¬ (e.kL = a ∧ e.op = op ∧ e.kR ∈ S) := fun h => hr (h2 ▸ h.2.2)
        have h5 : e.kL = a ∧ e.op = op ∧ e.kR ∈ r :: S := ⟨h1.1, h1.2, h2 ▸ List.mem_cons_self⟩
        rw [if_pos h3, if_neg h4, if_pos h5, add_zero, h2]
      · have h3 : ¬ (e.kL = a ∧ e.kR = r ∧ e.op = op) := fun h => h2 h.2.1
        rw [if_neg h3, zero_mul, zero_add]
        by_cases h6 : e.kR ∈ S
        · rw [if_pos ⟨h1.1, h1.2, h6⟩, if_pos ⟨h1.1, h1.2, List.mem_cons_of_mem _ h6⟩]
        · have h7 : ¬ (e.kL = a ∧ e.op = op ∧ e.kR ∈ S) := fun h => h6 h.2.2
          have h8 : ¬ (e.kL = a ∧ e.op = op ∧ e.kR ∈ r :: S) := fun h => by
            rcases List.mem_cons.1 h.2.2 with h | h
            · exact h2 h
            · exact h6 h
          rw [if_neg h7, if_neg h8]
    · have h3 : ¬ (e.kL = a ∧ e.kR = r ∧ e.op = op) := fun h => h1 ⟨h.1, h.2.2⟩
      have h7 : ¬ (e.kL = a ∧ e.op = op ∧ e.kR ∈ S) := fun h => h1 ⟨h.1, h.2.1⟩
      have h8 : ¬ (e.kL = a ∧ e.op = op ∧ e.kR ∈ r :: S) := fun h => h1 ⟨h.1, h.2.1⟩
      rw [if_neg h3, if_neg h7, if_neg h8, zero_mul, zero_add]

theorem rowSum_eq_entries (la : List (Edge Nat α)) (a : Nat) (op : String) (H : Nat → α) (S : List Nat)
    (hS : S.Nodup) (hcov : ∀ e ∈ la, e.kR ∈ S) :
    rowSum la a op H = (S.map (fun r => entryCoeff la a r op * H r)).sum := by
  rw [sum_entries_nodup la a op H S hS, rowSum]
  apply sum_congr_map
  intro e he
  by_cases h1 : e.kL = a ∧ e.op = op
  · rw [if_pos h1, if_pos ⟨h1.1, h1.2, hcov e he⟩]
  · have : ¬ (e.kL = a ∧ e.op = op ∧ e.kR ∈ S) := fun h => h1 ⟨h.1, h.2.1⟩
    rw [if_neg h1, if_neg this]

theorem entryCoeff_eq_zero (la : List (Edge Nat α)) (a b : Nat) (op : String)
    (h : ∀ e ∈ la, ¬ (e.kL = a ∧ e.kR = b)) : entryCoeff la a b op = 0 := by
  unfold entryCoeff
  apply List.sum_eq_zero
  intro z hz
  obtain ⟨e, he, rfl⟩ := List.mem_map.1 hz
  have : ¬ (e.kL = a ∧ e.kR = b ∧ e.op = op) := fun hh => h e he ⟨hh.1, hh.2.1⟩
  rw [if_neg this]

/-! ## entries of the model's layer -/

theorem rowSum_scaled_entry (m : MPOM α) (k a b L R : Nat) (c : α) (K : Nat) (op : String) (R' : Nat → α) :
    rowSum (scaledE L R c (m.entry k a b)) K op R'
      = if L = K then c * (entryCoeff (m.layers.getD k []) a b op * R' R) else 0 := by
  unfold rowSum scaledE MPOM.entry entryCoeff
  rw [List.map_map, List.map_map, sum_filter_map']
  by_cases h : L = K
  · rw [if_pos h, ← sum_map_mul_right'', ← sum_map_mul_left']
    apply sum_congr_map
    intro e _
    simp only [Function.comp]
    by_cases h1 : e.kL = a
    · by_cases h2 : e.kR = b
      · by_cases h3 : e.op = op
        · simp [h, h1, h2, h3, mul_assoc]
        · simp [h1, h2, h3]
      · simp [h1, h2]
    · simp [h1]
  · rw [if_neg h]
    apply List.sum_eq_zero
    intro z hz
    obtain ⟨e, _, rfl⟩ := List.mem_map.1 hz
    simp [h]

theorem rowSum_scaled_id (L R : Nat) (c : α) (K : Nat) (op : String) (R' : Nat → α) :
    rowSum (scaledE L R c [("Id", (1 : α))]) K op R' = if L = K ∧ "Id" = op then c * R' R else 0 := by
  simp [rowSum, scaledE]

end TenpyModel.Ops

/-! ## the "other" indices -/
namespace TenpyModel.Ops
open MPOM
variable {α : Type}

theorem mem_other (m : MPOM α) (b : Nat) (hl : m.idL.getD b none = some (mL m b))
    (hr : m.idR.getD b none = some (mR m b)) (x : Nat) :
    x ∈ (m.blocks b).other ↔ x < mChi m b ∧ x ≠ mL m b ∧ x ≠ mR m b := by
  unfold MPOM.blocks
  simp only [List.mem_filter, List.mem_range, hl, hr, mChi]
  simp

theorem nodup_other (m : MPOM α) (b : Nat) : (m.blocks b).other.Nodup := by
  unfold MPOM.blocks
  exact List.Nodup.filter _ List.nodup_range

/-- `IdL`, `IdR` and the other indices are pairwise different indices below `chi` -/
theorem nodup_all (m : MPOM α) (b : Nat) (hl : m.idL.getD b none = some (mL m b))
    (hr : m.idR.getD b none = some (mR m b)) (hne : mL m b ≠ mR m b) :
    (mL m b :: mR m b :: (m.blocks b).other).Nodup := by
  rw [List.nodup_cons, List.nodup_cons]
  refine ⟨?_, ?_, nodup_other m b⟩
  · intro h
    rcases List.mem_cons.1 h with h | h
    · exact hne h
    · exact ((mem_other m b hl hr _).1 h).2.1 rfl
  · intro h
    exact ((mem_other m b hl hr _).1 h).2.2 rfl

theorem length_other (m : MPOM α) (b : Nat) (hl : m.idL.getD b none = some (mL m b))
    (hr : m.idR.getD b none = some (mR m b)) (hne : mL m b ≠ mR m b) (h1 : mL m b < mChi m b)
    (h2 : mR m b < mChi m b) : (m.blocks b).other.length + 2 ≤ mChi m b := by
  have hsub : (mL m b :: mR m b :: (m.blocks b).other) ⊆ List.range (mChi m b) := by
    intro x hx
    rw [List.mem_range]
    rcases List.mem_cons.1 hx with h | h
    · rw [h]; exact h1
    · rcases List.mem_cons.1 h with h | h
      · rw [h]; exact h2
      · exact ((mem_other m b hl hr x).1 h).1
  have := (nodup_all m b hl hr hne).length_le_of_subset hsub
  simpa using this

theorem cover_all (m : MPOM α) (b : Nat) (hl : m.idL.getD b none = some (mL m b))
    (hr : m.idR.getD b none = some (mR m b)) (x : Nat) (hx : x < mChi m b) :
    x ∈ mL m b :: mR m b :: (m.blocks b).other := by
  by_cases h1 : x = mL m b
  · rw [h1]; exact List.mem_cons_self
  · by_cases h2 : x = mR m b
    · rw [h2]; exact List.mem_cons_of_mem _ List.mem_cons_self
    · exact List.mem_cons_of_mem _ (List.mem_cons_of_mem _ ((mem_other m b hl hr x).2 ⟨hx, h1, h2⟩))

end TenpyModel.Ops
