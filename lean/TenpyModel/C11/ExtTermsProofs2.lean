import TenpyModel.C11.ExtTermsProofs1
import TenpyModel.C11.P2_UIMain
/-!
# C11 extension / `to_TermList`, helper lemmas 2

* `tl_termStep_edges`: the value of the outputs of one site step as a sum over the edges of the layer;
* `tl_termStep_struct`: `partial_R[IdR]` stays empty, the sites of the terms of `partial_R` are `≤ j`;
* `termStr` of extended terms;
* `tl_W m b x u`: coefficient of `u` in the paths from the index `x` of bond `b` to `IdR[L]`; the weights
  `tl_g`, `tl_gF` of partial / finished terms w.r.t. a fixed string `t`, and the recursion `tl_g_step` that
  makes `termStep` preserve the total value.
-/
namespace TenpyModel.Ops

/-! ## `op_W` and sums over edges -/
section edges
variable {α : Type} [CommSemiring α]

theorem tl_opW_eq (lay : List (Edge Nat α)) (op : String) (x y : Nat) :
    MPOX.opW lay op x y = lsum lay (fun e => if e.kL = x ∧ e.kR = y ∧ e.op = op then e.c else 0) := by
  unfold MPOX.opW
  rw [tl_foldr_add, lsum_filter]
  apply lsum_congr
  intro e _
  simp only [Bool.and_eq_true, decide_eq_true_eq, and_assoc]

/-- `Σ_op Σ_y op_W[x, y] · K op y` over a basis without repetition that contains every name of the layer -/
theorem tl_edge_sum (lay : List (Edge Nat α)) (basis : List String) (hnd : basis.Nodup) (chiR : Nat)
    (hlay : ∀ e ∈ lay, e.op ∈ basis ∧ e.kR < chiR) (x : Nat) (K : String → Nat → α) :
    lsum basis (fun op => lsum (List.range chiR) (fun y => MPOX.opW lay op x y * K op y))
      = lsum lay (fun e => if e.kL = x then e.c * K e.op e.kR else 0) := by
  have h1 : lsum basis (fun op => lsum (List.range chiR) (fun y => MPOX.opW lay op x y * K op y))
      = lsum basis (fun op => lsum lay (fun e => lsum (List.range chiR) (fun y =>
          (if e.kL = x ∧ e.kR = y ∧ e.op = op then e.c else 0) * K op y))) := by
    apply lsum_congr
    intro op _
    rw [← lsum_comm]
    apply lsum_congr
    intro y _
    rw [tl_opW_eq, lsum_mul_right]
  rw [h1, lsum_comm]
  apply lsum_congr
  intro e he
  have h2 : ∀ op, lsum (List.range chiR) (fun y =>
      (if e.kL = x ∧ e.kR = y ∧ e.op = op then e.c else 0) * K op y)
      = if op = e.op then (if e.kL = x then e.c * K op e.kR else 0) else 0 := by
    intro op
    rw [← tl_lsum_range_single chiR e.kR (hlay e he).2
      (fun y => if op = e.op then (if e.kL = x then e.c * K op y else 0) else 0)]
    apply lsum_congr
    intro y _
    by_cases hy : y = e.kR
    · subst hy
      by_cases ho : op = e.op
      · subst ho
        by_cases hx : e.kL = x <;> simp [hx]
      · have : ¬ (e.op = op) := fun hh => ho hh.symm
        simp [ho, this]
    · have : ¬ (e.kR = y) := fun hh => hy hh.symm
      simp [hy, this]
  rw [lsum_congr (fun op _ => h2 op), tl_lsum_single basis hnd e.op (hlay e he).1
    (fun op => if e.kL = x then e.c * K op e.kR else 0)]

/-- **one site step, edge form.** -/
theorem tl_termStep_edges (small : α → Bool) (hsmall : ∀ x, small x = true → x = 0) (ignore : List String)
    (lay : List (Edge Nat α)) (basis : List String) (hnd : basis.Nodup) (chiL chiR : Nat)
    (hlay : ∀ e ∈ lay, e.op ∈ basis ∧ e.kR < chiR) (idL idR : Option Nat) (k j : Nat)
    (partialL : List (List (TTerm α))) (gF : List (String × Nat) → α) (gR : Nat → List (String × Nat) → α) :
    tl_M chiR gF gR (MPOX.termStep small ignore lay basis chiL chiR idL idR k j partialL) =
      tl_psum chiL (tl_pL k idL partialL) (fun x term =>
        lsum lay (fun e => if e.kL = x then e.c * tl_K ignore idR k j gF gR e.op e.kR term else 0)) := by
  rw [(tl_termStep_meas small hsmall ignore lay basis chiL chiR idL idR k j partialL gF gR).2, lsum_comm]
  unfold tl_psum
  apply lsum_congr
  intro x _
  have h1 : tl_tsum ((tl_pL k idL partialL).getD x []) (fun term =>
        lsum lay (fun e => if e.kL = x then e.c * tl_K ignore idR k j gF gR e.op e.kR term else 0))
      = tl_tsum ((tl_pL k idL partialL).getD x []) (fun term =>
        lsum basis (fun op => lsum (List.range chiR) (fun y =>
          MPOX.opW lay op x y * tl_K ignore idR k j gF gR op y term))) := by
    apply tl_tsum_congr
    intro tm _
    exact (tl_edge_sum lay basis hnd chiR hlay x (fun op y => tl_K ignore idR k j gF gR op y tm.1)).symm
  rw [h1, tl_tsum_lsum]
  apply lsum_congr
  intro op _
  rw [tl_tsum_lsum]

end edges

/-! ## structure of `partial_R` -/
section struct
variable {α : Type} [CommSemiring α]

/-- the invariant of the loops of `termStep` -/
def tl_SInv (idR : Option Nat) (j : Nat) (s : List (TTerm α) × List (List (TTerm α))) : Prop :=
  (∀ r, idR = some r → s.2.getD r [] = []) ∧ (∀ y, ∀ tm ∈ s.2.getD y [], ∀ p ∈ tm.1, p.2 < j + 1)

omit [CommSemiring α] in
theorem tl_SInv_modify (idR : Option Nat) (j : Nat) (s : List (TTerm α) × List (List (TTerm α)))
    (hs : tl_SInv idR j s) (y : Nat) (hy : some y ≠ idR) (add : List (TTerm α))
    (hadd : ∀ tm ∈ add, ∀ p ∈ tm.1, p.2 < j + 1) (fin : List (TTerm α)) :
    tl_SInv idR j (fin, s.2.modify y (fun l => l ++ add)) := by
  refine ⟨?_, ?_⟩
  · intro r hr
    have hne : r ≠ y := fun hh => hy (by rw [hr, hh])
    show (s.2.modify y _).getD r [] = []
    rw [tl_getD_modify]
    simp only [hne, false_and, if_false]
    exact hs.1 r hr
  · intro y' tm htm p hp
    change tm ∈ (s.2.modify y _).getD y' [] at htm
    rw [tl_getD_modify] at htm
    split at htm
    · rcases List.mem_append.1 htm with h1 | h1
      · exact hs.2 y' tm h1 p hp
      · exact hadd tm h1 p hp
    · exact hs.2 y' tm htm p hp

theorem tl_body_SInv (small : α → Bool) (ignore : List String) (lay : List (Edge Nat α)) (idR : Option Nat)
    (k j : Nat) (pL : List (List (TTerm α))) (hsites : ∀ x, ∀ tm ∈ pL.getD x [], ∀ p ∈ tm.1, p.2 < j)
    (op : String) (x : Nat) (s : List (TTerm α) × List (List (TTerm α))) (y : Nat) (hs : tl_SInv idR j s) :
    tl_SInv idR j (tl_body small ignore lay idR k j pL op x s y) := by
  unfold tl_body
  simp only
  split
  · exact hs
  · split
    · exact hs
    · next hr =>
      split
      · apply tl_SInv_modify idR j s hs y hr
        intro tm htm p hp
        obtain ⟨t0, ht0, rfl⟩ := List.mem_map.1 htm
        have := hsites x t0 ht0 p hp
        omega
      · apply tl_SInv_modify idR j s hs y hr
        intro tm htm p hp
        obtain ⟨t0, ht0, rfl⟩ := List.mem_map.1 htm
        rcases List.mem_append.1 hp with h1 | h1
        · have := hsites x t0 ht0 p h1
          omega
        · simp only [List.mem_singleton] at h1
          subst h1
          exact Nat.lt_succ_self j

/-- `partial_R[IdR]` is empty (a term reaching `IdR` is finished) and the terms of `partial_R` live on the
sites `≤ j` -/
theorem tl_termStep_struct (small : α → Bool) (ignore : List String) (lay : List (Edge Nat α))
    (basis : List String) (chiL chiR : Nat) (idL idR : Option Nat) (k j : Nat)
    (partialL : List (List (TTerm α)))
    (hsites : ∀ x, ∀ tm ∈ (tl_pL k idL partialL).getD x [], ∀ p ∈ tm.1, p.2 < j) :
    tl_SInv idR j (MPOX.termStep small ignore lay basis chiL chiR idL idR k j partialL) := by
  rw [tl_termStep_eq]
  apply tl_foldl_inv (tl_SInv idR j)
  · intro s op _ hs
    apply tl_foldl_inv (tl_SInv idR j) _ _ _ s hs
    intro s x _ hs
    apply tl_foldl_inv (tl_SInv idR j) _ _ _ s hs
    intro s y _ hs
    exact tl_body_SInv small ignore lay idR k j _ hsites op x s y hs
  · refine ⟨?_, ?_⟩
    · intro r _
      simp [List.getD_eq_getElem?_getD, List.getElem?_replicate]
      split <;> rfl
    · intro y tm htm
      simp only [List.getD_eq_getElem?_getD, List.getElem?_replicate] at htm
      split at htm <;> simp at htm

end struct

/-! ## `termStr` -/
section termStr

/-- the name a term puts on site `i` -/
def tl_at (t : List (String × Nat)) (i : Nat) : String :=
  match t.find? (fun p => p.2 = i) with | some p => p.1 | none => "Id"

theorem tl_termStr_eq (n : Nat) (t : List (String × Nat)) :
    MPOX.termStr n t = (List.range n).map (tl_at t) := rfl

theorem tl_termStr_length (n : Nat) (t : List (String × Nat)) : (MPOX.termStr n t).length = n := by
  simp [tl_termStr_eq]

theorem tl_termStr_succ (n : Nat) (t : List (String × Nat)) :
    MPOX.termStr (n + 1) t = MPOX.termStr n t ++ [tl_at t n] := by
  simp [tl_termStr_eq, List.range_succ]

theorem tl_at_none (t : List (String × Nat)) (i : Nat) (h : ∀ p ∈ t, p.2 ≠ i) : tl_at t i = "Id" := by
  unfold tl_at
  have : t.find? (fun p => p.2 = i) = none := by
    rw [List.find?_eq_none]
    intro p hp
    simpa using h p hp
  rw [this]

theorem tl_at_snoc_ne (t : List (String × Nat)) (op : String) (j i : Nat) (h : i ≠ j) :
    tl_at (t ++ [(op, j)]) i = tl_at t i := by
  unfold tl_at
  rw [List.find?_append]
  have : List.find? (fun p : String × Nat => decide (p.2 = i)) [(op, j)] = none := by
    have : ¬ (j = i) := fun hh => h hh.symm
    simp [this]
  rw [this, Option.or_none]

theorem tl_at_snoc_self (t : List (String × Nat)) (op : String) (j : Nat) (h : ∀ p ∈ t, p.2 < j) :
    tl_at (t ++ [(op, j)]) j = op := by
  unfold tl_at
  rw [List.find?_append]
  have : t.find? (fun p => p.2 = j) = none := by
    rw [List.find?_eq_none]
    intro p hp
    have := h p hp
    simp; omega
  rw [this]
  simp

theorem tl_termStr_snoc (t : List (String × Nat)) (op : String) (j n : Nat) (hn : n ≤ j) :
    MPOX.termStr n (t ++ [(op, j)]) = MPOX.termStr n t := by
  rw [tl_termStr_eq, tl_termStr_eq]
  apply List.map_congr_left
  intro i hi
  have := List.mem_range.1 hi
  exact tl_at_snoc_ne t op j i (by omega)

/-- beyond its sites a term is the identity -/
theorem tl_termStr_add (t : List (String × Nat)) (b : Nat) (h : ∀ p ∈ t, p.2 < b) (n : Nat) :
    MPOX.termStr (b + n) t = MPOX.termStr b t ++ idStr n := by
  induction n with
  | zero => simp [idStr]
  | succ n ih =>
    rw [← Nat.add_assoc, tl_termStr_succ, ih, tl_at_none t (b + n) (fun p hp => by have := h p hp; omega)]
    simp [idStr, List.replicate_succ', List.append_assoc]

theorem tl_termStr_nil (n : Nat) : MPOX.termStr n [] = idStr n := by
  have := tl_termStr_add [] 0 (by simp) n
  simpa [tl_termStr_eq] using this

theorem tl_termStr_succ_snoc (t : List (String × Nat)) (op : String) (j : Nat) (h : ∀ p ∈ t, p.2 < j) :
    MPOX.termStr (j + 1) (t ++ [(op, j)]) = MPOX.termStr j t ++ [op] := by
  rw [tl_termStr_succ, tl_termStr_snoc t op j j (Nat.le_refl _), tl_at_snoc_self t op j h]

theorem tl_termStr_succ_id (t : List (String × Nat)) (j : Nat) (h : ∀ p ∈ t, p.2 < j) :
    MPOX.termStr (j + 1) t = MPOX.termStr j t ++ ["Id"] := by
  rw [tl_termStr_succ, tl_at_none t j (fun p hp => by have := h p hp; omega)]

/-- a finished term on the whole chain -/
theorem tl_termStr_finish (t : List (String × Nat)) (op : String) (j L : Nat) (h : ∀ p ∈ t, p.2 < j)
    (hj : j < L) :
    MPOX.termStr L (t ++ [(op, j)]) = MPOX.termStr j t ++ op :: idStr (L - j - 1) := by
  have h1 : L = (j + 1) + (L - j - 1) := by omega
  have h2 : ∀ p ∈ t ++ [(op, j)], p.2 < j + 1 := by
    intro p hp
    rcases List.mem_append.1 hp with h3 | h3
    · have := h p h3; omega
    · simp only [List.mem_singleton] at h3
      subst h3; exact Nat.lt_succ_self j
  conv_lhs => rw [h1]
  rw [tl_termStr_add _ (j + 1) h2, tl_termStr_succ_snoc t op j h]
  simp

/-- a not finished term, extended on site `j` (`ignore` contains nothing but `"Id"`) -/
theorem tl_termStr_ext (ignore : List String) (hign : ∀ o ∈ ignore, o = "Id") (k : Nat)
    (t : List (String × Nat)) (op : String) (j : Nat) (h : ∀ p ∈ t, p.2 < j) :
    MPOX.termStr (j + 1) (tl_ext ignore k j op t) = MPOX.termStr j t ++ [op] := by
  unfold tl_ext
  split
  · next hc =>
    simp only [Bool.and_eq_true, decide_eq_true_eq, List.contains_iff_mem] at hc
    rw [hign op hc.2]
    exact tl_termStr_succ_id t j h
  · exact tl_termStr_succ_snoc t op j h

end termStr

/-! ## path sums to the right end and the weights of the terms -/
section weights
variable {α : Type} [CommSemiring α]

/-- coefficient of `u` in the paths from the index `x` of bond `b` to `IdR[L]` -/
def tl_W (m : MPOM α) (b x : Nat) (u : OpStr) : α :=
  coeff (pathsFrom (m.mR m.L) (hFrom (fun j => m.layers.getD j []) b (m.L - b)) x) u

theorem tl_W_cons (m : MPOM α) (b : Nat) (hb : b < m.L) (x : Nat) (op : String) (u : OpStr) :
    tl_W m b x (op :: u) = lsum (m.layers.getD b [])
      (fun e => if e.kL = x ∧ e.op = op then e.c * tl_W m (b + 1) e.kR u else 0) := by
  unfold tl_W
  have : m.L - b = (m.L - (b + 1)) + 1 := by omega
  rw [this, hFrom_succ, coeff_pathsFrom_cons]
  rfl

theorem tl_W_idR (m : MPOM α) (h : UIHyp m) (b : Nat) (hb : b ≤ m.L) (u : OpStr) :
    tl_W m b (m.mR b) u = if u = idStr (m.L - b) then 1 else 0 := by
  unfold tl_W
  rw [(ui_idx_first_order (fun j => m.layers.getD j []) m.mL m.mR m.L h.ne h.std (m.L - b) b (by omega)).1 u,
    coeff_singleton]
  by_cases hu : u = idStr (m.L - b)
  · simp [hu]
  · have : ¬ (idStr (m.L - b) = u) := fun hh => hu hh.symm
    simp [hu, this]

theorem tl_W_last (m : MPOM α) (x : Nat) (hx : x ≠ m.mR m.L) (u : OpStr) : tl_W m m.L x u = 0 := by
  unfold tl_W
  simp [hFrom, hx]

theorem tl_W_denote (m : MPOM α) (h : UIHyp m) (t : OpStr) : coeff m.denote t = tl_W m 0 (m.mL 0) t := by
  rw [MPOM.denote_of_hyp m h]
  rfl

/-- weight of a partial term that has reached the index `x` of bond `b`, w.r.t. the string `t` -/
def tl_g (m : MPOM α) (t : OpStr) (b x : Nat) (term : List (String × Nat)) : α :=
  if MPOX.termStr b term = t.take b then tl_W m b x (t.drop b) else 0

/-- weight of a finished term -/
def tl_gF (L : Nat) (t : OpStr) (term : List (String × Nat)) : α :=
  if MPOX.termStr L term = t then 1 else 0

theorem tl_split (t : OpStr) (j : Nat) (hj : j < t.length) :
    t.take (j + 1) = t.take j ++ [t[j]] ∧ t.drop j = t[j] :: t.drop (j + 1) ∧
    t = t.take j ++ t[j] :: t.drop (j + 1) ∧ (t.take j).length = j := by
  refine ⟨?_, List.drop_eq_getElem_cons hj, ?_, ?_⟩
  · rw [List.take_add_one, List.getElem?_eq_getElem hj]; rfl
  · conv_lhs => rw [← List.take_append_drop j t, List.drop_eq_getElem_cons hj]
  · simp; omega

/-- **the recursion of the weights**: the weight of a partial term at `(j, x)` is the sum over the edges
leaving `x` of the weights of its extensions (finished iff the edge enters `IdR[j+1]`) -/
theorem tl_g_step (m : MPOM α) (h : UIHyp m) (t : OpStr) (ht : t.length = m.L) (ignore : List String)
    (hign : ∀ o ∈ ignore, o = "Id") (k j : Nat) (hj : j < m.L) (x : Nat) (term : List (String × Nat))
    (hs : ∀ p ∈ term, p.2 < j) :
    tl_g m t j x term = lsum (m.layers.getD j []) (fun e => if e.kL = x then
      e.c * tl_K ignore (some (m.mR (j + 1))) k j (tl_gF m.L t) (tl_g m t (j + 1)) e.op e.kR term else 0) := by
  obtain ⟨h1, h2, h3, h4⟩ := tl_split t j (by omega)
  have hlen : (MPOX.termStr j term).length = (t.take j).length := by rw [tl_termStr_length, h4]
  have hK : ∀ e : Edge Nat α,
      tl_K ignore (some (m.mR (j + 1))) k j (tl_gF m.L t) (tl_g m t (j + 1)) e.op e.kR term
        = if MPOX.termStr j term = t.take j ∧ e.op = t[j] then tl_W m (j + 1) e.kR (t.drop (j + 1)) else 0 := by
    intro e
    unfold tl_K
    by_cases hr : e.kR = m.mR (j + 1)
    · rw [if_pos (by rw [hr]), hr, tl_W_idR m h (j + 1) (by omega)]
      unfold tl_gF
      rw [tl_termStr_finish term e.op j m.L hs hj]
      have hiff : (MPOX.termStr j term ++ e.op :: idStr (m.L - j - 1) = t) ↔
          ((MPOX.termStr j term = t.take j ∧ e.op = t[j]) ∧ t.drop (j + 1) = idStr (m.L - (j + 1))) := by
        constructor
        · intro hh
          rw [h3] at hh
          have := List.append_inj hh hlen
          have h5 := List.cons.inj this.2
          exact ⟨⟨this.1, h5.1⟩, h5.2.symm⟩
        · rintro ⟨⟨ha, hb⟩, hc⟩
          conv_rhs => rw [h3]
          rw [ha, hb, hc]
          rfl
      by_cases hc : MPOX.termStr j term ++ e.op :: idStr (m.L - j - 1) = t
      · have := hiff.1 hc
        rw [if_pos hc, if_pos this.1, if_pos this.2]
      · rw [if_neg hc]
        by_cases hd : MPOX.termStr j term = t.take j ∧ e.op = t[j]
        · have : ¬ (t.drop (j + 1) = idStr (m.L - (j + 1))) := fun hh => hc (hiff.2 ⟨hd, hh⟩)
          rw [if_pos hd, if_neg this]
        · rw [if_neg hd]
    · have : ¬ (some e.kR = some (m.mR (j + 1))) := fun hh => hr (Option.some.inj hh)
      rw [if_neg this]
      unfold tl_g
      rw [tl_termStr_ext ignore hign k term e.op j hs, h1]
      have hiff : (MPOX.termStr j term ++ [e.op] = t.take j ++ [t[j]]) ↔
          (MPOX.termStr j term = t.take j ∧ e.op = t[j]) := by
        constructor
        · intro hh
          have := List.append_inj hh hlen
          exact ⟨this.1, (List.cons.inj this.2).1⟩
        · rintro ⟨ha, hb⟩
          rw [ha, hb]
      by_cases hc : MPOX.termStr j term ++ [e.op] = t.take j ++ [t[j]]
      · rw [if_pos hc, if_pos (hiff.1 hc)]
      · rw [if_neg hc, if_neg (fun hh => hc (hiff.2 hh))]
  rw [lsum_congr (fun e _ => by rw [hK e])]
  unfold tl_g
  rw [h2]
  by_cases hp : MPOX.termStr j term = t.take j
  · rw [if_pos hp, tl_W_cons m j hj]
    apply lsum_congr
    intro e _
    by_cases hx : e.kL = x
    · by_cases ho : e.op = t[j]
      · simp [hx, ho, hp]
      · simp [hx, ho]
    · simp [hx]
  · rw [if_neg hp, lsum_congr (g := fun _ => (0 : α)) (fun e _ => by simp [hp]), lsum_zero]

end weights
end TenpyModel.Ops
