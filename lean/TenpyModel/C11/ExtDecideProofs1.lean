import Mathlib.Algebra.Ring.Hom.Defs
import Mathlib.Algebra.BigOperators.Group.List.Basic
import Mathlib.Tactic.Ring
import TenpyModel.C11.Proofs
import TenpyModel.C11.ExtEnvProofs1
import TenpyModel.C11.ExtDecide
/-!
# C11 extension, helper lemmas 1: `_overlap_no_hc` on a window, the Frobenius product and `dagger`,
`frob` depends on its arguments only through `coeff`
-/
namespace TenpyModel.Ops

section window
variable {α : Type} [CommSemiring α]

/-- the tensors of the first `n` sites (`get_W(i)`, modulo `L`) -/
def winLayers (m : MPOM α) (n : Nat) : List (List (Edge Nat α)) :=
  (List.range n).map (fun i => m.layers.getD (i % m.L) [])

theorem denoteSites_eq (m : MPOM α) (n : Nat) (hn : n ≠ 0) (l r : Nat)
    (hl : m.idL.getD 0 none = some l) (hr : m.idR.getD ((n - 1) % m.L + 1) none = some r) :
    m.denoteSites n = pathsFrom r (winLayers m n) l := by
  unfold MPOM.denoteSites winLayers
  rw [if_neg hn, hl, hr]

/-- transfer-matrix run with the entries of equal index pair added up after every site -/
def tmRunC (gram : String → String → α) (cj : α → α)
    (zs : List (List (Edge Nat α) × List (Edge Nat α))) (v : List ((Nat × Nat) × α)) :
    List ((Nat × Nat) × α) :=
  zs.foldl (fun v xy => KVec.compress (MPOM.tmStep gram cj xy.1 xy.2 v)) v

/-- `tmRun_spec` as a weighted sum -/
theorem tmRun_wsum (gram : String → String → α) (cj : α →+* α) (ra rb : Nat)
    (zs : List (List (Edge Nat α) × List (Edge Nat α))) (v : List ((Nat × Nat) × α)) :
    MPOM.vecAt (tmRun gram cj zs v) (ra, rb) =
      KVec.wsum (fun k => MPOM.frob gram cj (pathsFrom ra (zs.map Prod.fst) k.1)
        (pathsFrom rb (zs.map Prod.snd) k.2)) v := by
  rw [tmRun_spec]; rfl

/-- adding up equal index pairs after every site does not change the contraction -/
theorem tmRunC_eq (gram : String → String → α) (cj : α →+* α) (ra rb : Nat)
    (zs : List (List (Edge Nat α) × List (Edge Nat α))) (v : List ((Nat × Nat) × α)) :
    MPOM.vecAt (tmRunC gram cj zs v) (ra, rb) = MPOM.vecAt (tmRun gram cj zs v) (ra, rb) := by
  induction zs generalizing v with
  | nil => rfl
  | cons z zs ih =>
    have h1 : tmRunC gram cj (z :: zs) v = tmRunC gram cj zs (KVec.compress (MPOM.tmStep gram cj z.1 z.2 v)) := rfl
    have h2 : tmRun gram cj (z :: zs) v = tmRun gram cj zs (MPOM.tmStep gram cj z.1 z.2 v) := rfl
    rw [h1, h2, ih, tmRun_wsum, tmRun_wsum, KVec.wsum_compress]

/-- the fold of `overlapNoHc` is a (compressed) transfer-matrix run over the zipped window layers -/
theorem window_fold (g : String → String → α) (c : α →+* α) (a b : MPOM α) (n la lb ra rb : Nat) :
    MPOM.vecAt ((List.range n).foldl (fun v i => KVec.compress
        (MPOM.tmStep g c (a.layers.getD (i % a.L) []) (b.layers.getD (i % b.L) []) v)) [((la, lb), 1)]) (ra, rb)
      = MPOM.frob g c (pathsFrom ra (winLayers a n) la) (pathsFrom rb (winLayers b n) lb) := by
  have h := tmRun_spec g c ra rb
    ((List.range n).map (fun i => (a.layers.getD (i % a.L) [], b.layers.getD (i % b.L) []))) [((la, lb), 1)]
  rw [← tmRunC_eq] at h
  simp only [tmRunC, List.foldl_map, List.map_map, Function.comp_def, List.map_cons, List.map_nil,
    List.sum_cons, List.sum_nil, one_mul, add_zero] at h
  exact h

theorem pairW_hconj (gram : String → String → α) (hc : String → String) (x y : OpStr) :
    pairW (fun x y => gram (hc x) y) x y = pairW gram (x.map hc) y := by
  induction x generalizing y with
  | nil => rfl
  | cons a x ih =>
    cases y with
    | nil => rfl
    | cons b y =>
      simp only [pairW, List.map_cons, List.zip_cons_cons, List.foldr_cons] at ih ⊢
      rw [ih]

/-- crosswise contraction without conjugation = Frobenius product with the Hermitian conjugate -/
theorem frob_hconj (gram : String → String → α) (cj : α →+* α) (hc : String → String)
    (hcj : ∀ x, cj (cj x) = x) (s t : Sym α) :
    MPOM.frob (fun x y => gram (hc x) y) (RingHom.id α) s t
      = MPOM.frob gram cj (Sym.dagger hc cj s) t := by
  simp only [frob_eq_sum, Sym.dagger, List.map_map, Function.comp_def, hcj, pairW_hconj, RingHom.id_apply]

theorem pairW_dagger (gram : String → String → α) (cj : α →+* α) (hc : String → String)
    (hgram : ∀ x y, gram (hc x) (hc y) = cj (gram x y)) (x y : OpStr) :
    pairW gram (x.map hc) (y.map hc) = cj (pairW gram x y) := by
  induction x generalizing y with
  | nil => simp [pairW]
  | cons a x ih =>
    cases y with
    | nil => simp [pairW]
    | cons b y =>
      simp only [pairW, List.map_cons, List.zip_cons_cons, List.foldr_cons, map_mul] at ih ⊢
      rw [ih, hgram]

theorem map_list_sum' (cj : α →+* α) (l : List α) : cj l.sum = (l.map cj).sum := by
  induction l with
  | nil => simp
  | cons a l ih => simp [ih]

theorem frob_dagger_dagger (gram : String → String → α) (cj : α →+* α) (hc : String → String)
    (hgram : ∀ x y, gram (hc x) (hc y) = cj (gram x y)) (s t : Sym α) :
    MPOM.frob gram cj (Sym.dagger hc cj s) (Sym.dagger hc cj t) = cj (MPOM.frob gram cj s t) := by
  simp only [frob_eq_sum, Sym.dagger, List.map_map, Function.comp_def, map_list_sum', map_mul,
    pairW_dagger gram cj hc hgram]

omit [CommSemiring α] in
theorem symDagger_invol (cj : α → α) (hc : String → String) (hcj : ∀ x, cj (cj x) = x)
    (hhc : ∀ x, hc (hc x) = x) (s : Sym α) : Sym.dagger hc cj (Sym.dagger hc cj s) = s := by
  simp only [Sym.dagger, List.map_map]
  conv_rhs => rw [← List.map_id s]
  apply List.map_congr_left
  intro p _
  obtain ⟨u, c⟩ := p
  simp only [Function.comp, id, hcj, Prod.mk.injEq, and_true, List.map_map]
  conv_rhs => rw [← List.map_id u]
  apply List.map_congr_left
  intro x _
  simp [hhc]

theorem frob_right_dagger (gram : String → String → α) (cj : α →+* α) (hc : String → String)
    (hcj : ∀ x, cj (cj x) = x) (hhc : ∀ x, hc (hc x) = x)
    (hgram : ∀ x y, gram (hc x) (hc y) = cj (gram x y)) (s t : Sym α) :
    MPOM.frob gram cj s (Sym.dagger hc cj t) = cj (MPOM.frob gram cj (Sym.dagger hc cj s) t) := by
  rw [← frob_dagger_dagger gram cj hc hgram, symDagger_invol cj hc hcj hhc]

/-! ### scalar multiples, exchange of the arguments -/

theorem frob_smul_left (gram : String → String → α) (cj : α →+* α) (c : α) (s t : Sym α) :
    MPOM.frob gram cj (Sym.smul c s) t = cj c * MPOM.frob gram cj s t := by
  simp only [frob_eq_sum, Sym.smul, List.map_map, Function.comp_def, map_mul]
  rw [← sum_map_mul_left']
  congr 1
  apply List.map_congr_left
  intro p _
  rw [← sum_map_mul_left']
  congr 1
  apply List.map_congr_left
  intro q _
  ring

theorem frob_smul_right (gram : String → String → α) (cj : α →+* α) (c : α) (s t : Sym α) :
    MPOM.frob gram cj s (Sym.smul c t) = c * MPOM.frob gram cj s t := by
  simp only [frob_eq_sum, Sym.smul, List.map_map, Function.comp_def]
  rw [← sum_map_mul_left']
  congr 1
  apply List.map_congr_left
  intro p _
  rw [← sum_map_mul_left']
  congr 1
  apply List.map_congr_left
  intro q _
  ring

theorem pairW_swap (gram : String → String → α) (cj : α →+* α)
    (hsym : ∀ x y, gram y x = cj (gram x y)) (x y : OpStr) :
    pairW gram y x = cj (pairW gram x y) := by
  induction x generalizing y with
  | nil => cases y <;> simp [pairW]
  | cons a x ih =>
    cases y with
    | nil => simp [pairW]
    | cons b y =>
      simp only [pairW, List.zip_cons_cons, List.foldr_cons, map_mul] at ih ⊢
      rw [ih, hsym]

/-- `<B|A> = conj <A|B>` for a Hermitian local trace form -/
theorem frob_swap (gram : String → String → α) (cj : α →+* α) (hcj : ∀ x, cj (cj x) = x)
    (hsym : ∀ x y, gram y x = cj (gram x y)) (s t : Sym α) :
    MPOM.frob gram cj t s = cj (MPOM.frob gram cj s t) := by
  simp only [frob_eq_sum, map_list_sum', List.map_map, Function.comp_def, map_mul, hcj,
    ← pairW_swap gram cj hsym]
  have := lsum_comm t s (fun q p => cj q.2 * p.2 * pairW gram q.1 p.1)
  simp only [lsum] at this
  rw [this]
  congr 1
  apply List.map_congr_left
  intro p _
  congr 1
  apply List.map_congr_left
  intro q _
  ring

end window

/-! ## `frob` depends on its arguments only through `coeff` -/
section congr
variable {α : Type} [CommSemiring α]

/-- `Σ_{q ∈ t} f q.2 · G q.1` -/
def linSum (f : α → α) (G : OpStr → α) (t : Sym α) : α := (t.map (fun q => f q.2 * G q.1)).sum

theorem linSum_nil (f : α → α) (G : OpStr → α) : linSum f G [] = 0 := rfl

theorem linSum_cons (f : α → α) (G : OpStr → α) (q : OpStr × α) (t : Sym α) :
    linSum f G (q :: t) = f q.2 * G q.1 + linSum f G t := by
  simp [linSum]

theorem linSum_filter_eq (f : α → α) (hf0 : f 0 = 0) (hfa : ∀ x y, f (x + y) = f x + f y)
    (G : OpStr → α) (t : Sym α) (o : OpStr) :
    linSum f G (t.filter (fun q => decide (q.1 = o))) = f (coeff t o) * G o := by
  induction t with
  | nil => simp [linSum_nil, hf0]
  | cons q t ih =>
    obtain ⟨u, c⟩ := q
    by_cases h : u = o
    · subst h
      simp only [List.filter_cons, decide_true, if_true, linSum_cons, ih, coeff_cons, hfa]
      ring
    · simp only [List.filter_cons, h, decide_false, coeff_cons, if_false]
      simpa using ih

theorem linSum_split (f : α → α) (G : OpStr → α) (t : Sym α) (o : OpStr) :
    linSum f G t = linSum f G (t.filter (fun q => decide (q.1 = o)))
      + linSum f G (t.filter (fun q => !decide (q.1 = o))) := by
  induction t with
  | nil => simp [linSum_nil]
  | cons q t ih =>
    by_cases h : q.1 = o
    · simp only [List.filter_cons, h, decide_true, if_true, Bool.not_true, linSum_cons]
      simp only [Bool.false_eq_true, if_false]
      rw [ih]; ring
    · simp only [List.filter_cons, h, decide_false, Bool.not_false, if_true, linSum_cons]
      simp only [Bool.false_eq_true, if_false]
      rw [ih]; ring

theorem coeff_filter_neKey (t : Sym α) (o u : OpStr) :
    coeff (t.filter (fun q => !decide (q.1 = o))) u = if u = o then 0 else coeff t u := by
  induction t with
  | nil => simp
  | cons q t ih =>
    obtain ⟨w, c⟩ := q
    by_cases h : w = o
    · subst h
      simp only [List.filter_cons, decide_true, Bool.not_true, Bool.false_eq_true, if_false, ih, coeff_cons]
      by_cases h2 : u = w
      · simp [h2]
      · have : ¬ w = u := fun e => h2 e.symm
        simp [h2, this]
    · simp only [List.filter_cons, h, decide_false, Bool.not_false, if_true, coeff_cons, ih]
      by_cases h2 : u = o
      · subst h2
        simp [h]
      · simp [h2]

theorem linSum_congr_aux (f : α → α) (hf0 : f 0 = 0) (hfa : ∀ x y, f (x + y) = f x + f y)
    (G : OpStr → α) : ∀ (n : Nat) (t t' : Sym α), t.length + t'.length ≤ n → Sym.Equiv t t' →
      linSum f G t = linSum f G t' := by
  intro n
  induction n with
  | zero =>
    intro t t' hlen _
    have h1 : t = [] := List.eq_nil_of_length_eq_zero (by omega)
    have h2 : t' = [] := List.eq_nil_of_length_eq_zero (by omega)
    rw [h1, h2]
  | succ n ih =>
    intro t t' hlen heq
    -- a string occurring in one of the two lists
    have key : ∀ o : OpStr, (∃ c, (o, c) ∈ t ∨ (o, c) ∈ t') → linSum f G t = linSum f G t' := by
      intro o ⟨c, hmem⟩
      rw [linSum_split f G t o, linSum_split f G t' o, linSum_filter_eq f hf0 hfa, linSum_filter_eq f hf0 hfa,
        heq o]
      congr 1
      apply ih
      · have l1 := List.length_filter_le (fun q : OpStr × α => !decide (q.1 = o)) t
        have l2 := List.length_filter_le (fun q : OpStr × α => !decide (q.1 = o)) t'
        rcases hmem with hm | hm
        · have : (t.filter (fun q : OpStr × α => !decide (q.1 = o))).length < t.length :=
            List.length_filter_lt_length_iff_exists.2 ⟨(o, c), hm, by simp⟩
          omega
        · have : (t'.filter (fun q : OpStr × α => !decide (q.1 = o))).length < t'.length :=
            List.length_filter_lt_length_iff_exists.2 ⟨(o, c), hm, by simp⟩
          omega
      · intro u
        rw [coeff_filter_neKey, coeff_filter_neKey, heq u]
    cases t with
    | nil =>
      cases t' with
      | nil => rfl
      | cons q t' => exact key q.1 ⟨q.2, Or.inr (by simp)⟩
    | cons q t => exact key q.1 ⟨q.2, Or.inl (by simp)⟩

theorem linSum_congr (f : α → α) (hf0 : f 0 = 0) (hfa : ∀ x y, f (x + y) = f x + f y)
    (G : OpStr → α) (t t' : Sym α) (h : Sym.Equiv t t') : linSum f G t = linSum f G t' :=
  linSum_congr_aux f hf0 hfa G _ t t' (Nat.le_refl _) h

theorem frob_eq_linSum (gram : String → String → α) (cj : α → α) (s t : Sym α) :
    MPOM.frob gram cj s t = linSum cj (fun o => linSum id (pairW gram o) t) s := by
  rw [frob_eq_sum]
  unfold linSum
  congr 1
  apply List.map_congr_left
  intro p _
  rw [← sum_map_mul_left']
  congr 1
  apply List.map_congr_left
  intro q _
  simp only [id]
  ring

theorem frob_congr (gram : String → String → α) (cj : α →+* α) (s s' t t' : Sym α)
    (hs : Sym.Equiv s s') (ht : Sym.Equiv t t') :
    MPOM.frob gram cj s t = MPOM.frob gram cj s' t' := by
  rw [frob_eq_linSum, frob_eq_linSum]
  have hG : (fun o => linSum id (pairW gram o) t) = (fun o => linSum id (pairW gram o) t') := by
    funext o
    exact linSum_congr id rfl (fun _ _ => rfl) _ t t' ht
  rw [hG]
  exact linSum_congr cj (map_zero cj) (map_add cj) _ s s' hs

end congr
end TenpyModel.Ops
