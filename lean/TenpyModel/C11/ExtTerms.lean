import TenpyModel.C11.ExtDecide
/-!
# C11 extension, part 4: `MPO.to_TermList` (tenpy/networks/mpo.py)

The local operator basis is a list of names per site; `op_W[x, y]` (the coefficient of `opname` in the entry
`W[x, y]`, `tr(op† W)/tr(op† op)` for an orthogonal basis) is the sum of the coefficients of the edges
`(x, y, opname)`.  `small c` = `|c| < cutoff`.

A term is a list of `(opname, site)`; `partial_L[x]` = the terms that have reached the virtual index `x`
(`None` and `[]` are not distinguished: they differ only in the early exit of the loop over `k`).
-/
namespace TenpyModel.Ops

abbrev TTerm (α : Type) := List (String × Nat) × α

namespace MPOX
variable {α : Type}

/-- `max_range` of `to_TermList(max_range=None)`: `5·L`, at most `self.max_range` if that is known -/
def termListRange (a : MPOX α) (maxRange : Option Nat) : Nat :=
  match maxRange with
  | some r => r
  | none =>
    match a.maxRange with
    | .fin r => min (5 * a.m.L) r.toNat
    | _ => 5 * a.m.L

/-- `op_W[x, y]` for one operator name -/
def opW [Add α] [Zero α] (lay : List (Edge Nat α)) (op : String) (x y : Nat) : α :=
  (lay.filter (fun e => e.kL = x && e.kR = y && e.op = op)).foldr (fun e acc => e.c + acc) 0

/-- one site `j = i + k` of the loop: returns (finished terms, `partial_R`) -/
def termStep [Add α] [Mul α] [Zero α] (small : α → Bool) (ignore : List String) (lay : List (Edge Nat α))
    (basis : List String) (chiL chiR : Nat) (idL idR : Option Nat) (k j : Nat)
    (partialL : List (List (TTerm α))) : List (TTerm α) × List (List (TTerm α)) :=
  -- `if k > 0 and IdL is not None: partial_L[IdL] = None`
  let pL := if k > 0 then (match idL with | some l => partialL.set l [] | none => partialL) else partialL
  let init : List (TTerm α) × List (List (TTerm α)) := ([], List.replicate chiR [])
  basis.foldl (fun acc op =>
    (List.range chiL).foldl (fun acc x =>
      (List.range chiR).foldl (fun (acc : List (TTerm α) × List (List (TTerm α))) y =>
        let c := opW lay op x y
        if small c then acc else
        let src := pL.getD x []
        if some y = idR then
          (acc.1 ++ (src.filter (fun t => !small (t.2 * c))).map (fun t => (t.1 ++ [(op, j)], t.2 * c)), acc.2)
        else if k > 0 && ignore.contains op then
          (acc.1, acc.2.modify y (fun l => l ++ src.map (fun t => (t.1, t.2 * c))))
        else
          (acc.1, acc.2.modify y (fun l => l ++ src.map (fun t => (t.1 ++ [(op, j)], t.2 * c))))) acc) acc) init

/-- the terms starting on site `i` -/
def termsFrom [Add α] [Mul α] [Zero α] [One α] (small : α → Bool) (ignore : List String) (a : MPOX α)
    (basis : Nat → List String) (maxRange i : Nat) : List (TTerm α) :=
  let L := a.m.L
  match a.m.idL.getD (i % L) none with
  | none => []
  | some l0 =>
    let mr := if a.finite then min maxRange (L - i - 1) else maxRange
    let start : List (List (TTerm α)) := (List.replicate (a.m.chi.getD (i % L) 0) []).set l0 [([], 1)]
    ((List.range (mr + 1)).foldl (fun (acc : List (TTerm α) × List (List (TTerm α))) k =>
      let j := i + k
      let s := j % L
      let r := termStep small ignore (a.m.layers.getD s []) (basis j) (a.m.chi.getD s 0) (a.m.chi.getD (s + 1) 0)
        (a.m.idL.getD s none) (a.m.idR.getD (s + 1) none) k j acc.2
      (acc.1 ++ r.1, r.2)) ([], start)).1

/-- `to_TermList(op_basis, start, max_range, cutoff, ignore)`; `basis j` = `op_basis[j % len(op_basis)]`.
`none`: a start site outside a finite chain (`IndexError`) -/
def toTermList [Add α] [Mul α] [Zero α] [One α] (small : α → Bool) (ignore : List String) (a : MPOX α)
    (basis : Nat → List String) (start : Option (List Nat)) (maxRange : Option Nat) : Option (List (TTerm α)) :=
  let st := start.getD (List.range a.m.L)
  if a.finite && st.any (fun i => a.m.L ≤ i) then none else
  some (st.flatMap (fun i => termsFrom small ignore a basis (termListRange a maxRange) i))

/-- the operator string (on `n` sites from site 0) of a term whose sites are increasing: `Id` elsewhere -/
def termStr (n : Nat) (t : List (String × Nat)) : OpStr :=
  (List.range n).map (fun i => match t.find? (fun p => p.2 = i) with | some p => p.1 | none => "Id")

/-- the formal sum of a term list on `n` sites -/
def termsSym (n : Nat) (ts : List (TTerm α)) : Sym α := ts.map (fun t => (termStr n t.1, t.2))

end MPOX
end TenpyModel.Ops
