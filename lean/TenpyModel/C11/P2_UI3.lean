import TenpyModel.C11.P2_UI2
/-!
# C11 / `make_U_I` on integer indices, part 3: a decidable sufficient check for `StdSite`

`stdSiteB l0 r0 l1 r1 la = true → StdSite l0 r0 l1 r1 la`: the two entries `IdL → IdL`, `IdR → IdR` are
required to consist of the single edge `("Id", 1)` (sufficient, not necessary: `StdSite` only fixes the
coefficient function of the entry).
-/
namespace TenpyModel.Ops

variable {α : Type} [CommSemiring α]

/-- the entry `W[k, k']` as a list of `(name, coefficient)` -/
def entryList (la : List (Edge Nat α)) (k k' : Nat) : List (String × α) :=
  (la.filter (fun e => e.kL = k && e.kR = k')).map (fun e => (e.op, e.c))

theorem entryCoeff_eq_entryList (la : List (Edge Nat α)) (k k' : Nat) (op : String) :
    entryCoeff la k k' op = ((entryList la k k').map (fun p => if p.1 = op then p.2 else 0)).sum := by
  unfold entryCoeff entryList
  induction la with
  | nil => rfl
  | cons e la ih =>
    by_cases h : e.kL = k ∧ e.kR = k'
    · have hf : (decide (e.kL = k) && decide (e.kR = k')) = true := by simp [h.1, h.2]
      simp only [List.filter_cons, hf, if_true, List.map_cons, List.sum_cons, ih]
      simp [h.1, h.2]
    · have hf : (decide (e.kL = k) && decide (e.kR = k')) = false := by
        rw [Bool.eq_false_iff]; simpa using h
      simp only [List.filter_cons, hf, List.map_cons, List.sum_cons, ih]
      have : ¬ (e.kL = k ∧ e.kR = k' ∧ e.op = op) := fun hh => h ⟨hh.1, hh.2.1⟩
      rw [if_neg this, zero_add]
      simp

theorem entryCoeff_of_entryList_id (la : List (Edge Nat α)) (k k' : Nat)
    (h : entryList la k k' = [("Id", 1)]) (op : String) :
    entryCoeff la k k' op = if op = "Id" then 1 else 0 := by
  rw [entryCoeff_eq_entryList, h]
  by_cases h1 : op = "Id"
  · subst h1; simp
  · have : ¬ ("Id" = op) := fun hh => h1 hh.symm
    simp [h1, this]

/-- decidable sufficient check for `StdSite` -/
def stdSiteB [DecidableEq α] (l0 r0 l1 r1 : Nat) (la : List (Edge Nat α)) : Bool :=
  la.all (fun e => (e.kR != l1 || e.kL == l0) && (e.kL != r0 || e.kR == r1))
    && decide (entryList la l0 l1 = [("Id", 1)]) && decide (entryList la r0 r1 = [("Id", 1)])

theorem stdSite_of_check [DecidableEq α] (l0 r0 l1 r1 : Nat) (la : List (Edge Nat α))
    (h : stdSiteB l0 r0 l1 r1 la = true) : StdSite l0 r0 l1 r1 la := by
  unfold stdSiteB at h
  simp only [Bool.and_eq_true, List.all_eq_true, decide_eq_true_eq] at h
  obtain ⟨⟨hall, hl⟩, hr⟩ := h
  refine ⟨?_, ?_, entryCoeff_of_entryList_id la l0 l1 hl, entryCoeff_of_entryList_id la r0 r1 hr⟩
  · intro e he h1
    have := (hall e he).1
    simp only [Bool.or_eq_true, bne_iff_ne, ne_eq, beq_iff_eq] at this
    exact this.resolve_left (fun hh => hh h1)
  · intro e he h1
    have := (hall e he).2
    simp only [Bool.or_eq_true, bne_iff_ne, ne_eq, beq_iff_eq] at this
    exact this.resolve_left (fun hh => hh h1)

end TenpyModel.Ops
