import TenpyModel.C11.P2_PlusId5
/-!
# C11 / `MPO.plus_identity(alpha, beta, sites)` on `N ≥ 1` contiguous sites denotes `alpha·1 + beta·H`

Deliverables
* `plus_identity_multi` (file `P2_PlusId2`): symbolic virtual indices, one pair of keys `IdL`, `IdR`.
* `plus_identity_indices` (this file): the executable index-level model `MPOM.plusIdentity` (with `_partition_W` and the
  finite-bc projection of `MPO.from_grids`), for every MPO satisfying `PlusIdHyp`.

`PlusIdHyp m s0 N` (documented at the structure): shapes, markers `IdL[b]`, `IdR[b]` present, different and `< chi[b]` on
every bond `0 … L` (hence `chi[b] ≥ 2` everywhere: `from_grids` cuts the first grid to its row `0` = the new `IdL` and the
last one to its last column = the new `IdR`, which does not change the denoted operator; *no* condition like
`idL[0] = 0` is needed since the output layout `[IdL, other…, IdR]` is independent of the input positions), column
indices of all entries `< chi`, and the standard form of every site.
-/
namespace TenpyModel.Ops
open MPOM
variable {α : Type} [CommSemiring α]

/-- Hypotheses of `plus_identity_indices` on the MPO `m` and the block `sites = [s0, …, s0+N-1]`.
`mL m b`, `mR m b`, `mChi m b` are `IdL[b]`, `IdR[b]`, `chi[b]`.
* `markers`: on every bond `b ≤ L` both markers are present (`some`), different and `< chi[b]`;
* `edges`: the indices of all stored entries of `W_k` are `< chi`;
* `std`: `W_k` is in standard form w.r.t. the markers of its two bonds: nothing enters `IdL[k+1]` except from `IdL[k]`,
  nothing leaves `IdR[k]` except to `IdR[k+1]`, the entries `IdL[k] → IdL[k+1]` and `IdR[k] → IdR[k+1]` are exactly the
  identity (`PiStdSite`).
(`hchi`, `hidL` follow from `markers`; they are listed for completeness and not used by the proof.) -/
structure PlusIdHyp (m : MPOM α) (s0 N : Nat) : Prop where
  hN : 1 ≤ N
  hsN : s0 + N ≤ m.L
  hlen : m.layers.length = m.L
  hchi : m.chi.length = m.L + 1
  hidL : m.idL.length = m.L + 1
  hidR : m.idR.length = m.L + 1
  markers : ∀ b, b ≤ m.L → m.idL.getD b none = some (mL m b) ∧ m.idR.getD b none = some (mR m b) ∧
    mL m b ≠ mR m b ∧ mL m b < mChi m b ∧ mR m b < mChi m b
  edges : ∀ k, k < m.L → ∀ e ∈ m.layers.getD k [], e.kL < mChi m k ∧ e.kR < mChi m (k + 1)
  std : ∀ k, k < m.L → PiStdSite (m.layers.getD k []) (mL m k) (mR m k) (mL m (k + 1)) (mR m (k + 1))

theorem PlusIdHyp.siteOK {m : MPOM α} {s0 N : Nat} (h : PlusIdHyp m s0 N) (k : Nat) (hk : k < m.L) : SiteOK m k := by
  obtain ⟨a1, a2, a3, a4, a5⟩ := h.markers k (by omega)
  obtain ⟨b1, b2, b3, b4, b5⟩ := h.markers (k + 1) (by omega)
  exact ⟨a1, a2, a3, a4, a5, b1, b2, b3, b4, b5, fun e he => (h.edges k hk e he).2, h.std k hk⟩

/-- the layers `b, …, b+n-1` of the result before the `from_grids` projection -/
def piLayers (m : MPOM α) (beta tb ta : α) (s0 N b n : Nat) : List (List (Edge Nat α)) :=
  (List.range' b n).map (fun k => piLayerF m idOne (siteFac beta tb ta s0 N k) k)

/-- the suffix-sum invariant on bond `b` (`n = L - b` sites to the right) -/
theorem piSuffix (m : MPOM α) (beta tb ta : α) (s0 N : Nat) (h : PlusIdHyp m s0 N) (hb : tb ^ N = beta) :
    ∀ n b, b + n = m.L →
      (∀ t, coeff (pathsFrom (mChi m m.L - 1) (piLayers m beta tb ta s0 N b n) (mChi m b - 1)) t
          = sufG beta s0 b * coeff [(idStr n, (1 : α))] t) ∧
      (∀ t, coeff (pathsFrom (mR m m.L) (m.layers.drop b) (mR m b)) t = coeff [(idStr n, (1 : α))] t) ∧
      (∀ x q, (x, q) ∈ (m.blocks b).other.zipIdx → ∀ t,
        coeff (pathsFrom (mChi m m.L - 1) (piLayers m beta tb ta s0 N b n) (q + 1)) t
          = sufF tb s0 N b * coeff (pathsFrom (mR m m.L) (m.layers.drop b) x) t) ∧
      (∀ t, coeff (pathsFrom (mChi m m.L - 1) (piLayers m beta tb ta s0 N b n) 0) t
          = sufD beta s0 N b * coeff (pathsFrom (mR m m.L) (m.layers.drop b) (mL m b)) t
            + sufA ta s0 N b * coeff [(idStr n, (1 : α))] t) := by
  intro n
  induction n with
  | zero =>
    intro b hbn
    have hbL : b = m.L := by omega
    subst hbL
    obtain ⟨a1, a2, a3, a4, a5⟩ := h.markers m.L (Nat.le_refl _)
    have hlo := length_other m m.L a1 a2 a3 a4 a5
    obtain ⟨e1, e2, e3, e4⟩ := suf_end beta tb ta s0 N m.L h.hN h.hsN
    have hd : m.layers.drop m.L = [] := by rw [List.drop_eq_nil_iff, h.hlen]
    have hp : piLayers m beta tb ta s0 N m.L 0 = [] := rfl
    rw [hd, hp, e1, e2, e3, e4]
    refine ⟨fun t => ?_, fun t => ?_, fun x q hx t => ?_, fun t => ?_⟩
    · simp [idStr]
    · simp [idStr]
    · have hq := List.snd_lt_of_mem_zipIdx hx
      have hxo := (mem_other m m.L a1 a2 x).1 (List.fst_mem_of_mem_zipIdx hx)
      simp only at hq hxo
      have h1 : ¬ (q + 1 = mChi m m.L - 1) := by omega
      simp [h1, hxo.2.2]
    · have h1 : ¬ (0 = mChi m m.L - 1) := by omega
      simp [h1, a3]
  | succ n ih =>
    intro b hbn
    have hbL : b < m.L := by omega
    obtain ⟨ihR, ihH, ihO, ihL⟩ := ih (b + 1) (by omega)
    have hok := h.siteOK b hbL
    have hc := siteFac_compat beta tb ta s0 N h.hN hb b
    have hdrop : m.layers.drop b = m.layers.getD b [] :: m.layers.drop (b + 1) := by
      have hb' : b < m.layers.length := by rw [h.hlen]; exact hbL
      rw [List.drop_eq_getElem_cons hb', List.getD_eq_getElem?_getD, List.getElem?_eq_getElem hb']
      rfl
    have hpl : piLayers m beta tb ta s0 N b (n + 1)
        = piLayerF m idOne (siteFac beta tb ta s0 N b) b :: piLayers m beta tb ta s0 N (b + 1) n := by
      unfold piLayers
      rw [List.range'_succ, List.map_cons]
    have hs : ∀ t, SufRelI m b
        (fun x => coeff (pathsFrom (mChi m m.L - 1) (piLayers m beta tb ta s0 N (b + 1) n) x) t)
        (fun x => coeff (pathsFrom (mR m m.L) (m.layers.drop (b + 1)) x) t) (coeff [(idStr n, (1 : α))] t)
        (sufG beta s0 (b + 1)) (sufF tb s0 N (b + 1)) (sufD beta s0 N (b + 1)) (sufA ta s0 N (b + 1)) :=
      fun t => ⟨ihR t, ihH t, fun x p hx => ihO x p hx t, ihL t⟩
    rw [hdrop, hpl]
    refine ⟨fun t => ?_, fun t => ?_, fun x q hx t => ?_, fun t => ?_⟩
    · cases t with
      | nil => rw [coeff_pathsFrom_cons_nil, coeff_idStr_nil, mul_zero]
      | cons op t =>
        rw [coeff_pathsFrom_cons_rowSum, coeff_idStr_cons]
        exact piStep_R m b hok _ _ _ _ _ _ _ _ _ _ _ _ (hs t) hc op
    · cases t with
      | nil => rw [coeff_pathsFrom_cons_nil, coeff_idStr_nil]
      | cons op t =>
        rw [coeff_pathsFrom_cons_rowSum, coeff_idStr_cons, old_R m b hok op, ihH t]
    · cases t with
      | nil => rw [coeff_pathsFrom_cons_nil, coeff_pathsFrom_cons_nil, mul_zero]
      | cons op t =>
        rw [coeff_pathsFrom_cons_rowSum, coeff_pathsFrom_cons_rowSum]
        exact piStep_O m b hok _ _ _ _ _ _ _ _ _ _ _ _ (hs t) hc x q hx op
    · cases t with
      | nil =>
        rw [coeff_pathsFrom_cons_nil, coeff_pathsFrom_cons_nil, coeff_idStr_nil, mul_zero, mul_zero, add_zero]
      | cons op t =>
        rw [coeff_pathsFrom_cons_rowSum, coeff_pathsFrom_cons_rowSum, coeff_idStr_cons]
        exact piStep_L m b hok _ _ _ _ _ _ _ _ _ _ _ _ (hs t) hc op

/-- `denote` of an MPO whose outer markers are present -/
theorem denote_of_markers (m : MPOM α) (hidR : m.idR.length = m.L + 1)
    (hl : m.idL.getD 0 none = some (mL m 0)) (hr : m.idR.getD m.L none = some (mR m m.L)) :
    m.denote = pathsFrom (mR m m.L) m.layers (mL m 0) := by
  unfold MPOM.denote
  have e1 : m.idL.head? = some (some (mL m 0)) := by
    rw [List.head?_eq_getElem?]
    rw [List.getD_eq_getElem?_getD] at hl
    cases hh : m.idL[0]? with
    | none => rw [hh] at hl; simp at hl
    | some v => rw [hh] at hl; simp at hl; rw [hl]
  have e2 : m.idR.getLast? = some (some (mR m m.L)) := by
    rw [List.getLast?_eq_getElem?, hidR, Nat.add_sub_cancel]
    rw [List.getD_eq_getElem?_getD] at hr
    cases hh : m.idR[m.L]? with
    | none => rw [hh] at hr; simp at hr
    | some v => rw [hh] at hr; simp at hr; rw [hr]
  rw [e1, e2]

omit [CommSemiring α] in
theorem chi_getD_one (m : MPOM α) (b : Nat) (h : 0 < mChi m b) : m.chi.getD b 1 = mChi m b := by
  unfold mChi at *
  rw [List.getD_eq_getElem?_getD] at *
  cases hh : m.chi[b]? with
  | none => rw [hh] at h; simp at h
  | some v => simp [hh]

/-- **`MPO.plus_identity(alpha, beta, sites)` on `N ≥ 1` contiguous sites** (`sites = [s0, …, s0+N-1]`), index-level
model: for `tb^N = beta` (`tb = beta ** (1/N)`), `N·ta = alpha` (`ta = alpha / N`) the result of the model of
`plus_identity` + `_partition_W` + the finite-bc projection of `from_grids` denotes `beta·H + alpha·1`, for every MPO
with `PlusIdHyp`: every length, bond dimensions, marker positions, position and length of the block, every commutative
semiring of coefficients. -/
theorem plus_identity_indices (m : MPOM α) (alpha beta tb ta : α) (s0 N : Nat)
    (h : PlusIdHyp m s0 N) (hb : tb ^ N = beta) (ha : (N : α) * ta = alpha) (t : OpStr) :
    coeff (m.plusIdentity beta tb ta (List.range' s0 N) (fun _ => [("Id", 1)])).denote t
      = beta * coeff m.denote t + coeff [(idStr m.L, alpha)] t := by
  have hL : 1 ≤ m.L := by have := h.hN; have := h.hsN; omega
  obtain ⟨a1, a2, a3, a4, a5⟩ := h.markers 0 (by omega)
  obtain ⟨b1, b2, b3, b4, b5⟩ := h.markers m.L (Nat.le_refl _)
  have hc0 := chi_getD_one m 0 (by omega)
  have hcL := chi_getD_one m m.L (by omega)
  have hlay : (List.range m.L).map
      (fun k => piLayerF m (fun _ => [("Id", (1 : α))]) (modelFac beta tb ta (List.range' s0 N) k) k)
      = piLayers m beta tb ta s0 N 0 m.L := by
    unfold piLayers
    rw [List.range_eq_range']
    apply List.map_congr_left
    intro k _
    rw [modelFac_range']
    rfl
  rw [plusIdentity_denote m beta tb ta _ _ hL, hlay,
    pathsFrom_piCut m _ hL (by simp [piLayers]) (by omega) (by omega), hcL,
    denote_of_markers m h.hidR a1 b2,
    (piSuffix m beta tb ta s0 N h hb m.L 0 (by omega)).2.2.2 t, List.drop_zero,
    (suf_start beta ta s0 N h.hN).1, (suf_start beta ta s0 N h.hN).2, ha, coeff_single_scale (idStr m.L) alpha]

/-! ## non-vacuity -/

/-- decidable sufficient condition for `PiStdSite`: the two identity entries are stored as the single edge `1·Id` -/
def PiStdSiteCheck [DecidableEq α] (la : List (Edge Nat α)) (l r l' r' : Nat) : Prop :=
  (∀ e ∈ la, e.kR = l' → e.kL = l) ∧ (∀ e ∈ la, e.kL = r → e.kR = r') ∧
  (la.filter (fun e => e.kL = l && e.kR = l')).map (fun e => (e.op, e.c)) = [("Id", 1)] ∧
  (la.filter (fun e => e.kL = r && e.kR = r')).map (fun e => (e.op, e.c)) = [("Id", 1)]

instance [DecidableEq α] (la : List (Edge Nat α)) (l r l' r' : Nat) : Decidable (PiStdSiteCheck la l r l' r') := by
  unfold PiStdSiteCheck; infer_instance

theorem entryCoeff_eq_filter (la : List (Edge Nat α)) (a b : Nat) (op : String) :
    entryCoeff la a b op
      = (((la.filter (fun e => e.kL = a && e.kR = b)).map (fun e => (e.op, e.c))).map
          (fun p => if p.1 = op then p.2 else 0)).sum := by
  unfold entryCoeff
  rw [List.map_map, sum_filter_map']
  apply sum_congr_map
  intro e _
  by_cases h1 : e.kL = a
  · by_cases h2 : e.kR = b
    · simp [h1, h2]
    · simp [h1, h2]
  · simp [h1]

theorem piStdSite_of_check [DecidableEq α] (la : List (Edge Nat α)) (l r l' r' : Nat)
    (h : PiStdSiteCheck la l r l' r') : PiStdSite la l r l' r' := by
  obtain ⟨h1, h2, h3, h4⟩ := h
  refine ⟨h1, h2, fun op => ?_, fun op => ?_⟩
  · rw [entryCoeff_eq_filter, h3]
    by_cases ho : op = "Id"
    · subst ho; simp
    · have : ¬ ("Id" = op) := fun hh => ho hh.symm
      simp [ho, this]
  · rw [entryCoeff_eq_filter, h4]
    by_cases ho : op = "Id"
    · subst ho; simp
    · have : ¬ ("Id" = op) := fun hh => ho hh.symm
      simp [ho, this]

section examples

/-- a 3-site MPO over the integers in standard form with markers at non-standard positions and one inner state on
the bonds 1 and 2: bond 0: `chi = 2`, `IdL = 1`, `IdR = 0`; bond 1: `chi = 3`, `IdL = 2`, `IdR = 1`, other `0`;
bond 2: `chi = 3`, `IdL = 0`, `IdR = 1`, other `2`; bond 3: `chi = 2`, `IdL = 1`, `IdR = 0`.
`H = 5·A₀ + 14·X₀X₁ + 2·X₀S₁Z₂ + B₁ + 3·Y₁Z₂ + 11·C₂` -/
def exPI : MPOM Int :=
  ⟨3, [[⟨1, 2, "Id", 1⟩, ⟨1, 0, "X", 2⟩, ⟨1, 1, "A", 5⟩, ⟨0, 1, "Id", 1⟩],
       [⟨2, 0, "Id", 1⟩, ⟨2, 2, "Y", 3⟩, ⟨0, 2, "S", 1⟩, ⟨0, 1, "X", 7⟩, ⟨2, 1, "B", 1⟩, ⟨1, 1, "Id", 1⟩],
       [⟨0, 1, "Id", 1⟩, ⟨2, 0, "Z", 1⟩, ⟨0, 0, "C", 11⟩, ⟨1, 0, "Id", 1⟩]], [2, 3, 3, 2],
   [some 1, some 2, some 0, some 1], [some 0, some 1, some 1, some 0]⟩

theorem exPI_hyp : PlusIdHyp exPI 0 2 where
  hN := by decide
  hsN := by decide
  hlen := rfl
  hchi := rfl
  hidL := rfl
  hidR := rfl
  markers := by decide
  edges := by decide
  std := fun k hk => piStdSite_of_check _ _ _ _ _ (by revert k; decide)

example : canon 0 exPI.denote
    = [([(0, "A")], 5), ([(0, "X"), (1, "S"), (2, "Z")], 2), ([(0, "X"), (1, "X")], 14), ([(1, "B")], 1),
        ([(1, "Y"), (2, "Z")], 3), ([(2, "C")], 11)] := by decide +kernel

/-- `tb = 2`, `N = 2`, `beta = 4`, `ta = 3`, `alpha = 6` on the sites `[0, 1]` -/
example : canon 0 (exPI.plusIdentity 4 2 3 [0, 1] (fun _ => [("Id", 1)])).denote
    = canon 0 (Sym.smul 4 exPI.denote ++ [(idStr 3, 6)]) := by decide +kernel

/-- the theorem applied to the instance -/
example (t : OpStr) :
    coeff (exPI.plusIdentity 4 2 3 [0, 1] (fun _ => [("Id", 1)])).denote t
      = 4 * coeff exPI.denote t + coeff [(idStr 3, 6)] t :=
  plus_identity_indices exPI 6 4 2 3 0 2 exPI_hyp (by decide) (by decide) t

/-- symbolic version on a concrete instance: `IdL = 0`, `IdR = 9`, inner state `5`, block `[1, 2]` of 3 sites -/
example : canon 0 (pathsFrom (α := Int) 9 (plusIdLayers 0 9 4 2 3 1 2 0
      [[⟨0, 0, "Id", 1⟩, ⟨0, 5, "X", 2⟩, ⟨9, 9, "Id", 1⟩],
       [⟨0, 0, "Id", 1⟩, ⟨5, 5, "S", 1⟩, ⟨5, 9, "X", 7⟩, ⟨0, 9, "B", 1⟩, ⟨9, 9, "Id", 1⟩],
       [⟨0, 0, "Id", 1⟩, ⟨5, 9, "Z", 1⟩, ⟨0, 9, "C", 11⟩, ⟨9, 9, "Id", 1⟩]]) 0)
    = [([], 6), ([(0, "X"), (1, "S"), (2, "Z")], 8), ([(0, "X"), (1, "X")], 56), ([(1, "B")], 4), ([(2, "C")], 44)] := by
  decide +kernel

end examples

end TenpyModel.Ops

section axcheck
open TenpyModel.Ops
#print axioms plus_identity_multi
#print axioms plus_identity_indices
#print axioms exPI_hyp
end axcheck
