import TenpyModel.C11.ExtEnvProofs2
/-!
# C11 extension, helper lemmas 4: `MPO.variance` (two MPO layers, `prod4`, `quad`)
-/
namespace TenpyModel.Ops

section quad
variable {α : Type} [CommSemiring α]

/-- `quad` with the site counter starting at `n`, summation order `u, t1, t2, s` (the order of `prod4`) -/
def quadN (mel : String → String → String → α) (cj : α → α) (names : Nat → List String) (n : Nat)
    (s t2 t1 u : Sym α) : α :=
  lsum u (fun r => lsum t1 (fun q1 => lsum t2 (fun q2 => lsum s (fun p =>
    cj p.2 * (q2.2 * q1.2) * r.2 * quadW mel names n p.1 q2.1 q1.1 r.1))))

theorem lsum_comm4 {β γ δ ε : Type} (a : List β) (b : List γ) (c : List δ) (l : List ε)
    (f : β → γ → δ → ε → α) :
    lsum a (fun p => lsum b (fun q => lsum c (fun r => lsum l (fun x => f p q r x))))
      = lsum l (fun x => lsum a (fun p => lsum b (fun q => lsum c (fun r => f p q r x)))) := by
  rw [lsum_comm l a]
  apply lsum_congr
  intro p _
  rw [lsum_comm3]

theorem quad_eq_quadN (mel : String → String → String → α) (cj : α → α) (names : Nat → List String)
    (s t2 t1 u : Sym α) : quad mel cj names s t2 t1 u = quadN mel cj names 0 s t2 t1 u := by
  have h0 : quad mel cj names s t2 t1 u = lsum s (fun p => lsum t2 (fun q2 => lsum t1 (fun q1 =>
      lsum u (fun r => cj p.2 * (q2.2 * q1.2) * r.2 * quadW mel names 0 p.1 q2.1 q1.1 r.1)))) := by
    unfold quad
    rw [foldr_add_eq_sum, sum_flatMap_lsum]
    apply lsum_congr
    intro p _
    rw [sum_flatMap_lsum]
    apply lsum_congr
    intro q2 _
    rw [sum_flatMap_lsum]
    rfl
  rw [h0, lsum_comm4]
  unfold quadN
  apply lsum_congr
  intro r _
  rw [lsum_comm3]
  apply lsum_congr
  intro q1 _
  rw [lsum_comm]

variable (mel : String → String → String → α) (names : Nat → List String)

theorem quadN_nil_s (cj : α → α) (n : Nat) (t2 t1 u : Sym α) : quadN mel cj names n [] t2 t1 u = 0 := by
  simp [quadN, lsum_zero]

theorem quadN_nil_t2 (cj : α → α) (n : Nat) (s t1 u : Sym α) : quadN mel cj names n s [] t1 u = 0 := by
  simp [quadN, lsum_zero]

theorem quadN_nil_t1 (cj : α → α) (n : Nat) (s t2 u : Sym α) : quadN mel cj names n s t2 [] u = 0 := by
  simp [quadN, lsum_zero]

theorem quadN_nil_u (cj : α → α) (n : Nat) (s t2 t1 : Sym α) : quadN mel cj names n s t2 t1 [] = 0 := by
  simp [quadN]

theorem quadN_flatMap_u {β : Type} (cj : α → α) (n : Nat) (l : List β) (g : β → Sym α) (s t2 t1 : Sym α) :
    quadN mel cj names n s t2 t1 (l.flatMap g) = lsum l (fun x => quadN mel cj names n s t2 t1 (g x)) := by
  simp only [quadN, lsum_flatMap]

theorem quadN_flatMap_t1 {β : Type} (cj : α → α) (n : Nat) (l : List β) (g : β → Sym α) (s t2 u : Sym α) :
    quadN mel cj names n s t2 (l.flatMap g) u = lsum l (fun x => quadN mel cj names n s t2 (g x) u) := by
  simp only [quadN, lsum_flatMap]
  rw [lsum_comm]

theorem quadN_flatMap_t2 {β : Type} (cj : α → α) (n : Nat) (l : List β) (g : β → Sym α) (s t1 u : Sym α) :
    quadN mel cj names n s (l.flatMap g) t1 u = lsum l (fun x => quadN mel cj names n s (g x) t1 u) := by
  simp only [quadN, lsum_flatMap]
  rw [lsum_comm3]

theorem quadN_flatMap_s {β : Type} (cj : α → α) (n : Nat) (l : List β) (g : β → Sym α) (t2 t1 u : Sym α) :
    quadN mel cj names n (l.flatMap g) t2 t1 u = lsum l (fun x => quadN mel cj names n (g x) t2 t1 u) := by
  simp only [quadN, lsum_flatMap]
  rw [lsum_comm4]

theorem quadN_consOp (cj : α →+* α) (n : Nat) (x o2 o1 y : String) (c d2 d1 e : α) (s t2 t1 u : Sym α) :
    quadN mel cj names n (Sym.consOp x c s) (Sym.consOp o2 d2 t2) (Sym.consOp o1 d1 t1) (Sym.consOp y e u)
      = cj c * (d2 * d1 * ((names n).map (fun r => mel o2 x r * mel o1 r y)).foldr (· + ·) 0) * e
          * quadN mel cj names (n + 1) s t2 t1 u := by
  simp only [quadN, Sym.consOp, lsum_map, quadW, map_mul]
  rw [← lsum_mul_left]
  apply lsum_congr
  intro r _
  rw [← lsum_mul_left]
  apply lsum_congr
  intro q1 _
  rw [← lsum_mul_left]
  apply lsum_congr
  intro q2 _
  rw [← lsum_mul_left]
  apply lsum_congr
  intro p _
  ring

theorem quadN_unit (cj : α →+* α) (n : Nat) :
    quadN mel cj names n [([], 1)] [([], 1)] [([], 1)] [([], 1)] = 1 := by
  simp [quadN, lsum_singleton, quadW]

/-- one site of the product automaton with two MPO layers -/
theorem lstep_prod4 (cj : α →+* α) (n : Nat) (bra W ket : List (Edge Nat α))
    (PA PW2 PW1 PB : Nat → Sym α) (a w1 w2 b : Nat) :
    KVec.lstep (prod4 mel cj (names n) bra W ket)
        (fun k => quadN mel cj names (n + 1) (PA k.1) (PW2 k.2.1.2) (PW1 k.2.1.1) (PB k.2.2)) (a, (w1, w2), b)
      = quadN mel cj names n
          (bra.flatMap (fun e => if e.kL = a then Sym.consOp e.op e.c (PA e.kR) else []))
          (W.flatMap (fun e => if e.kL = w2 then Sym.consOp e.op e.c (PW2 e.kR) else []))
          (W.flatMap (fun e => if e.kL = w1 then Sym.consOp e.op e.c (PW1 e.kR) else []))
          (ket.flatMap (fun e => if e.kL = b then Sym.consOp e.op e.c (PB e.kR) else [])) := by
  rw [quadN_flatMap_u]
  simp only [quadN_flatMap_t1, quadN_flatMap_t2, quadN_flatMap_s]
  unfold KVec.lstep prod4
  rw [lsum_filter]
  simp only [lsum_flatMap, lsum_map]
  apply lsum_congr
  intro ek _
  apply lsum_congr
  intro e1 _
  apply lsum_congr
  intro e2 _
  apply lsum_congr
  intro eb _
  by_cases h1 : eb.kL = a <;> by_cases h2 : e2.kL = w2 <;> by_cases h3 : e1.kL = w1 <;>
    by_cases h4 : ek.kL = b <;>
    simp only [h1, h2, h3, h4, quadN_nil_s, quadN_nil_t2, quadN_nil_t1, quadN_nil_u, quadN_consOp, if_true,
      if_false, Prod.mk.injEq, and_self, and_true, and_false, decide_true, decide_false,
      Bool.false_eq_true]

/-- the path sum of the product automaton `bra* – W – W – ket` -/
theorem wpathsF_prod4 (cj : α →+* α) (fa fw fb : Nat → List (Edge Nat α)) (ra r2 r1 rb : Nat)
    (F : VarKey → α) (hF : ∀ k, F k = if k = (ra, (r1, r2), rb) then 1 else 0) (len n : Nat)
    (a w1 w2 b : Nat) :
    KVec.wpathsF F ((List.range' n len).map (fun i => prod4 mel cj (names i) (fa i) (fw i) (fb i)))
        (a, (w1, w2), b)
      = quadN mel cj names n (pathsFrom ra ((List.range' n len).map fa) a)
          (pathsFrom r2 ((List.range' n len).map fw) w2) (pathsFrom r1 ((List.range' n len).map fw) w1)
          (pathsFrom rb ((List.range' n len).map fb) b) := by
  induction len generalizing n a w1 w2 b with
  | zero =>
    simp only [List.range'_zero, List.map_nil, KVec.wpathsF, pathsFrom_nil, hF, Prod.mk.injEq]
    by_cases h1 : a = ra <;> by_cases h2 : w2 = r2 <;> by_cases h3 : w1 = r1 <;> by_cases h4 : b = rb <;>
      simp [h1, h2, h3, h4, quadN_nil_s, quadN_nil_t2, quadN_nil_t1, quadN_nil_u, quadN_unit]
  | succ len ih =>
    simp only [List.range'_succ, List.map_cons, KVec.wpathsF, pathsFrom_cons]
    rw [← lstep_prod4]
    congr 1
    funext k
    obtain ⟨a', ⟨w1', w2'⟩, b'⟩ := k
    exact ih (n + 1) a' w1' w2' b'

end quad

section variance
variable {α : Type} [CommSemiring α]

/-- layer `i` of `theta[0] B[1] … B[L-1]` -/
def MPSM.thetaL (psi : MPSM α) (i : Nat) : List (Edge Nat α) :=
  if i = 0 then (psi.B.getD 0 []).map (fun e => { e with c := (psi.S.getD 0 []).getD e.kL 0 * e.c })
  else psi.B.getD i []

theorem MPSM.thetaLayers_eq (psi : MPSM α) : psi.thetaLayers = (List.range psi.B.length).map psi.thetaL := rfl

/-- the network of site `i` of `MPO.variance` -/
def MPOM.siteV (mel : String → String → String → α) (cj : α → α) (names : Nat → List String) (m : MPOM α)
    (psi : MPSM α) (i : Nat) : List (WEdge VarKey α) :=
  prod4 mel cj (names i) (psi.thetaL i) (m.layers.getD i []) (psi.thetaL i)

theorem MPOM.var_fold (mel : String → String → String → α) (cj : α → α) (names : Nat → List String)
    (m : MPOM α) (psi : MPSM α) (v0 : KVec VarKey α) :
    ((List.range (m.L - 1)).map (· + 1)).foldl (fun v i =>
        KVec.stepL (prod4 mel cj (names i) (psi.B.getD i []) (m.layers.getD i []) (psi.B.getD i [])) v)
      (KVec.stepL (prod4 mel cj (names 0)
        ((psi.B.getD 0 []).map (fun e => { e with c := (psi.S.getD 0 []).getD e.kL 0 * e.c }))
        (m.layers.getD 0 [])
        ((psi.B.getD 0 []).map (fun e => { e with c := (psi.S.getD 0 []).getD e.kL 0 * e.c }))) v0)
      = (List.range' 0 (m.L - 1 + 1)).foldl (fun v i => KVec.stepL (m.siteV mel cj names psi i) v) v0 := by
  rw [← List.range_eq_range', List.range_succ_eq_map, List.foldl_cons, List.foldl_map, List.foldl_map]
  have h0 : m.siteV mel cj names psi 0 = prod4 mel cj (names 0)
        ((psi.B.getD 0 []).map (fun e => { e with c := (psi.S.getD 0 []).getD e.kL 0 * e.c }))
        (m.layers.getD 0 [])
        ((psi.B.getD 0 []).map (fun e => { e with c := (psi.S.getD 0 []).getD e.kL 0 * e.c })) := by
    simp [MPOM.siteV, MPSM.thetaL]
  rw [h0]
  rfl

variable [DecidableEq α]

theorem variance_contr_spec (mel : String → String → String → α) (cj : α →+* α) (names : Nat → List String)
    (m : MPOM α) (psi : MPSM α) (h : EnvHyp ⟨psi, m, psi, false⟩) (hL : 0 < m.L) :
    m.varianceContr mel cj names psi
      = some (quad mel cj names psi.thetaState m.denote m.denote psi.thetaState) := by
  have hlay : m.layers.length = m.L := h.layers
  have hidR : m.idR.length = m.L + 1 := h.idR
  have hB : psi.B.length = m.L := h.ketB
  have hc0 : psi.chi.getD 0 1 = 1 := h.ketChi0
  have hcL : psi.chi.getD m.L 1 = 1 := h.ketChiL
  obtain ⟨l, hl⟩ := Option.isSome_iff_exists.1 h.mL
  obtain ⟨r, hr⟩ := Option.isSome_iff_exists.1 h.mR
  have hl' : m.idL.getD 0 none = some l := hl
  have hr' : m.idR.getD m.L none = some r := hr
  have hL1 : m.L - 1 + 1 = m.L := by omega
  unfold MPOM.varianceContr
  rw [if_neg (by omega), hl', hr']
  simp only []
  rw [hc0, hcL, MPOM.var_fold, foldr_add_eq_sum]
  simp only [List.range_one, List.map_cons, List.map_nil, List.sum_cons, List.sum_nil, add_zero]
  rw [KVec.get_eq_wsum, KVec.wsum_foldl_stepL _ (m.siteV mel cj names psi), KVec.wsum_singleton, hL1]
  unfold MPOM.siteV
  rw [wpathsF_prod4 mel names cj psi.thetaL (fun i => m.layers.getD i []) psi.thetaL 0 r r 0 _
    (fun _ => rfl)]
  rw [quad_eq_quadN, denote_eq_env m l r hl' hr' hidR]
  unfold MPSM.thetaState
  rw [MPSM.thetaLayers_eq, hB, ← List.range_eq_range']
  have e1 : (List.range m.L).map (fun i => m.layers.getD i []) = m.layers := by
    conv_rhs => rw [list_eq_range_map_getD m.layers [], hlay]
  rw [e1]

end variance

theorem variance_spec {α : Type} [CommRing α] [DecidableEq α] (mel : String → String → String → α)
    (cj : α →+* α) (names : Nat → List String) (m : MPOM α) (psi : MPSM α)
    (h : EnvHyp ⟨psi, m, psi, false⟩) (hL : 0 < m.L) :
    m.varianceContr mel cj names psi
        = some (quad mel cj names psi.thetaState m.denote m.denote psi.thetaState) ∧
    m.variance mel cj names true false psi
        = some (quad mel cj names psi.thetaState m.denote m.denote psi.thetaState
                - tri mel cj (psi.state 0) m.denote (psi.state 0)
                  * tri mel cj (psi.state 0) m.denote (psi.state 0)) := by
  have hc := variance_contr_spec mel cj names m psi h hL
  refine ⟨hc, ?_⟩
  have hB : psi.B.length = m.L := h.ketB
  have hev : m.expectationValueFinite mel cj false psi
      = some (tri mel cj (psi.state 0) m.denote (psi.state 0)) :=
    full_contraction_spec mel cj ⟨psi, m, psi, false⟩ h rfl 0 hL
  unfold MPOM.variance
  rw [hc, hev]
  simp [hB]

end TenpyModel.Ops
