import TenpyModel.C11.ExtTermsProofs1
import TenpyModel.C11.ExtTermsProofs2
import TenpyModel.C11.ExtTermsProofs3
/-!
# C11 extension, helper lemmas for `PropsExtTerms.lean` (`MPO.to_TermList`)

* `ExtTermsProofs1`: values of term lists (`tl_tsum`, `tl_psum`), the triple loop of `termStep` as a fold of
  `tl_body`, `tl_termStep_meas` (value of the outputs of one site step in terms of `op_W`).
* `ExtTermsProofs2`: `tl_termStep_edges` (the same as a sum over the edges of the layer), `tl_termStep_struct`
  (`partial_R[IdR]` empty, sites of the partial terms), `termStr` of extended terms, the weights `tl_g`, `tl_gF`
  and their recursion `tl_g_step`.
* `ExtTermsProofs3`: `TermHyp`, the loop over `k` (`tl_state_inv`), `tl_terms_from_site`, the telescoping sum
  over the start sites `tl_to_TermList`, `MPOM.tailSym`, the decidable check `termCheck`.
-/
