import Mathlib.Algebra.Ring.Hom.Defs
import Mathlib.Algebra.BigOperators.Group.List.Basic
import Mathlib.Tactic.Ring
import TenpyModel.Ops.PathProofs
import TenpyModel.C11.ExtEnv
/-!
# C11 extension, helper lemmas 1: list sums, sparse vectors, weighted layered graphs, `tri`, `prod3`
-/
namespace TenpyModel.Ops

/-! ## sums over lists -/
section lsum
variable {α : Type} [CommSemiring α]

/-- `Σ_{x ∈ l} f x` -/
def lsum {β : Type} (l : List β) (f : β → α) : α := (l.map f).sum

theorem foldr_add_eq_sum (l : List α) : l.foldr (· + ·) 0 = l.sum := by
  induction l with
  | nil => rfl
  | cons a l ih => simp [List.foldr, ih]

variable {β γ : Type}

@[simp] theorem lsum_nil (f : β → α) : lsum [] f = 0 := rfl

theorem lsum_cons (x : β) (l : List β) (f : β → α) : lsum (x :: l) f = f x + lsum l f := by
  simp [lsum]

theorem lsum_singleton (x : β) (f : β → α) : lsum [x] f = f x := by simp [lsum]

theorem lsum_append (l l' : List β) (f : β → α) : lsum (l ++ l') f = lsum l f + lsum l' f := by
  simp [lsum]

theorem lsum_map (l : List γ) (g : γ → β) (f : β → α) : lsum (l.map g) f = lsum l (fun x => f (g x)) := by
  simp [lsum, List.map_map, Function.comp_def]

theorem lsum_flatMap (l : List γ) (g : γ → List β) (f : β → α) :
    lsum (l.flatMap g) f = lsum l (fun x => lsum (g x) f) := by
  induction l with
  | nil => rfl
  | cons x l ih => rw [List.flatMap_cons, lsum_append, lsum_cons, ih]

theorem sum_flatMap_lsum (l : List γ) (g : γ → List α) :
    (l.flatMap g).sum = lsum l (fun x => (g x).sum) := by
  induction l with
  | nil => rfl
  | cons x l ih => simp [List.flatMap_cons, lsum_cons, ih]

theorem lsum_congr {l : List β} {f g : β → α} (h : ∀ x ∈ l, f x = g x) : lsum l f = lsum l g := by
  unfold lsum
  rw [List.map_congr_left h]

theorem lsum_zero (l : List β) : lsum l (fun _ => (0 : α)) = 0 := by
  induction l with
  | nil => rfl
  | cons x l ih => rw [lsum_cons, ih, add_zero]

theorem lsum_add (l : List β) (f g : β → α) : lsum l (fun x => f x + g x) = lsum l f + lsum l g := by
  induction l with
  | nil => simp
  | cons x l ih =>
    simp only [lsum_cons, ih]
    ring

theorem lsum_mul_left (l : List β) (a : α) (f : β → α) : lsum l (fun x => a * f x) = a * lsum l f := by
  induction l with
  | nil => simp
  | cons x l ih => simp only [lsum_cons, ih, mul_add]

theorem lsum_mul_right (l : List β) (a : α) (f : β → α) : lsum l (fun x => f x * a) = lsum l f * a := by
  induction l with
  | nil => simp
  | cons x l ih => simp only [lsum_cons, ih, add_mul]

theorem lsum_comm (l : List β) (m : List γ) (f : β → γ → α) :
    lsum l (fun x => lsum m (fun y => f x y)) = lsum m (fun y => lsum l (fun x => f x y)) := by
  induction l with
  | nil => simp [lsum_zero]
  | cons x l ih => simp only [lsum_cons, ih, lsum_add]

theorem lsum_filter (l : List β) (p : β → Bool) (f : β → α) :
    lsum (l.filter p) f = lsum l (fun x => if p x then f x else 0) := by
  induction l with
  | nil => rfl
  | cons x l ih =>
    by_cases h : p x
    · simp [h, lsum_cons, ih]
    · simp [h, lsum_cons, ih]

theorem lsum_ite_const (l : List β) (c : Prop) [Decidable c] (f : β → α) :
    lsum l (fun x => if c then f x else 0) = if c then lsum l f else 0 := by
  by_cases h : c
  · simp [h]
  · simp [h, lsum_zero]

theorem lsum_ite_list (c : Prop) [Decidable c] (X : List β) (f : β → α) :
    lsum (if c then X else []) f = if c then lsum X f else 0 := by
  by_cases h : c <;> simp [h]

theorem map_lsum (cj : α →+* α) (l : List β) (f : β → α) : cj (lsum l f) = lsum l (fun x => cj (f x)) := by
  induction l with
  | nil => simp
  | cons x l ih => simp only [lsum_cons, map_add, ih]

/-- a single non-zero summand -/
theorem lsum_range_one (f : Nat → α) : lsum (List.range 1) f = f 0 := by
  simp [lsum]

end lsum

/-! ## sparse vectors -/
namespace KVec
variable {κ α : Type} [DecidableEq κ] [CommSemiring α]

/-- `Σ_k v[k] · F k` -/
def wsum (F : κ → α) (v : KVec κ α) : α := lsum v (fun p => p.2 * F p.1)

theorem get_eq_lsum (v : KVec κ α) (k : κ) : get v k = lsum v (fun p => if p.1 = k then p.2 else 0) := by
  induction v with
  | nil => rfl
  | cons p v ih =>
    simp only [get, List.foldr_cons, lsum_cons] at ih ⊢
    rw [ih]
    split <;> simp

theorem get_eq_wsum (v : KVec κ α) (k : κ) : get v k = wsum (fun k' => if k' = k then 1 else 0) v := by
  rw [get_eq_lsum, wsum]
  apply lsum_congr
  intro p _
  split <;> simp

theorem get_singleton (k0 : κ) (k : κ) : get [(k0, (1 : α))] k = if k = k0 then 1 else 0 := by
  rw [get_eq_lsum, lsum_singleton]
  by_cases h : k0 = k
  · simp [h]
  · have h' : ¬ k = k0 := fun e => h e.symm
    simp [h, h']

omit [DecidableEq κ] in
theorem wsum_singleton (F : κ → α) (k0 : κ) : wsum F [(k0, (1 : α))] = F k0 := by
  simp [wsum, lsum_singleton]

theorem wsum_addAt (F : κ → α) (k : κ) (x : α) (v : KVec κ α) :
    wsum F (addAt k x v) = x * F k + wsum F v := by
  induction v with
  | nil => simp [addAt, wsum, lsum_singleton]
  | cons p v ih =>
    unfold addAt
    by_cases h : p.1 = k
    · simp only [h, if_true, wsum, lsum_cons]
      rw [← h]
      ring
    · simp only [h, if_false]
      simp only [wsum, lsum_cons] at ih ⊢
      rw [ih]
      ring

theorem wsum_foldl_addAt (F : κ → α) (v acc : KVec κ α) :
    wsum F (v.foldl (fun acc p => addAt p.1 p.2 acc) acc) = wsum F acc + wsum F v := by
  induction v generalizing acc with
  | nil => simp [wsum]
  | cons p v ih =>
    rw [List.foldl_cons, ih, wsum_addAt]
    simp only [wsum, lsum_cons]
    ring

theorem wsum_compress (F : κ → α) (v : KVec κ α) : wsum F (compress v) = wsum F v := by
  unfold compress
  rw [wsum_foldl_addAt]
  simp [wsum]

theorem get_compress (v : KVec κ α) (k : κ) : get (compress v) k = get v k := by
  rw [get_eq_wsum, get_eq_wsum, wsum_compress]

theorem dot_eq_wsum (lp rp : KVec κ α) : dot lp rp = wsum (get rp) lp := by
  unfold dot
  rw [foldr_add_eq_sum]
  rfl

/-- one layer applied to a function on the keys: `(M F)(k) = Σ_{e : k → k'} e.c · F k'` -/
def lstep (es : List (WEdge κ α)) (F : κ → α) (k : κ) : α :=
  lsum (es.filter (fun e => e.kL = k)) (fun e => e.c * F e.kR)

theorem wsum_stepL (F : κ → α) (es : List (WEdge κ α)) (v : KVec κ α) :
    wsum F (stepL es v) = wsum (lstep es F) v := by
  unfold stepL
  rw [wsum_compress]
  simp only [wsum, lsum_flatMap, lsum_map, lstep]
  apply lsum_congr
  intro p _
  rw [← lsum_mul_left]
  apply lsum_congr
  intro e _
  ring

theorem get_stepR (es : List (WEdge κ α)) (v : KVec κ α) (k : κ) :
    get (stepR es v) k = lstep es (get v) k := by
  unfold stepR
  rw [get_compress, get_eq_lsum]
  simp only [lsum_flatMap, lsum_map, lstep, lsum_filter]
  rw [lsum_comm]
  apply lsum_congr
  intro e _
  by_cases h : e.kL = k
  · simp only [h, if_true, decide_true, get_eq_lsum]
    rw [← lsum_mul_left]
    apply lsum_congr
    intro p _
    by_cases h2 : e.kR = p.1
    · simp [h2]
    · have h2' : ¬ p.1 = e.kR := fun x => h2 x.symm
      simp [h2, h2']
  · simp [h, lsum_zero]

/-- weighted path sum with a final weight function -/
def wpathsF (F : κ → α) : List (List (WEdge κ α)) → κ → α
  | [] => F
  | l :: rest => lstep l (wpathsF F rest)

theorem wpathsF_append (F : κ → α) (l1 l2 : List (List (WEdge κ α))) :
    wpathsF F (l1 ++ l2) = wpathsF (wpathsF F l2) l1 := by
  induction l1 with
  | nil => rfl
  | cons l l1 ih => simp only [List.cons_append, wpathsF, ih]

theorem wsum_foldl_stepL {ι : Type} (F : κ → α) (f : ι → List (WEdge κ α)) (idx : List ι) (v : KVec κ α) :
    wsum F (idx.foldl (fun lp j => stepL (f j) lp) v) = wsum (wpathsF F (idx.map f)) v := by
  induction idx generalizing v with
  | nil => rfl
  | cons j idx ih => rw [List.foldl_cons, ih, wsum_stepL]; rfl

theorem get_foldr_stepR {ι : Type} (f : ι → List (WEdge κ α)) (idx : List ι) (v : KVec κ α) :
    get (idx.foldr (fun j rp => stepR (f j) rp) v) = wpathsF (get v) (idx.map f) := by
  induction idx with
  | nil => rfl
  | cons j idx ih =>
    funext k
    rw [List.foldr_cons, get_stepR, ih]
    rfl

end KVec

/-! ## `tri` -/
section tri
variable {α : Type} [CommSemiring α]

theorem tri_eq_lsum (mel : String → String → String → α) (cj : α → α) (s t u : Sym α) :
    tri mel cj s t u = lsum s (fun p => lsum t (fun q => lsum u (fun r =>
      cj p.2 * q.2 * r.2 * triW mel p.1 q.1 r.1))) := by
  unfold tri
  rw [foldr_add_eq_sum, sum_flatMap_lsum]
  apply lsum_congr
  intro p _
  rw [sum_flatMap_lsum]
  rfl

theorem lsum_comm3 {β γ δ : Type} (s : List β) (t : List γ) (l : List δ) (f : β → γ → δ → α) :
    lsum s (fun p => lsum t (fun q => lsum l (fun x => f p q x)))
      = lsum l (fun x => lsum s (fun p => lsum t (fun q => f p q x))) := by
  rw [lsum_comm l s]
  apply lsum_congr
  intro p _
  rw [lsum_comm]

theorem tri_nil_left (mel : String → String → String → α) (cj : α → α) (t u : Sym α) :
    tri mel cj [] t u = 0 := by simp [tri_eq_lsum]

theorem tri_nil_mid (mel : String → String → String → α) (cj : α → α) (s u : Sym α) :
    tri mel cj s [] u = 0 := by simp [tri_eq_lsum, lsum_zero]

theorem tri_nil_right (mel : String → String → String → α) (cj : α → α) (s t : Sym α) :
    tri mel cj s t [] = 0 := by simp [tri_eq_lsum, lsum_zero]

theorem tri_flatMap_left {β : Type} (mel : String → String → String → α) (cj : α → α) (l : List β)
    (g : β → Sym α) (t u : Sym α) :
    tri mel cj (l.flatMap g) t u = lsum l (fun x => tri mel cj (g x) t u) := by
  simp only [tri_eq_lsum, lsum_flatMap]

theorem tri_flatMap_mid {β : Type} (mel : String → String → String → α) (cj : α → α) (l : List β)
    (g : β → Sym α) (s u : Sym α) :
    tri mel cj s (l.flatMap g) u = lsum l (fun x => tri mel cj s (g x) u) := by
  simp only [tri_eq_lsum, lsum_flatMap]
  rw [lsum_comm]

theorem tri_flatMap_right {β : Type} (mel : String → String → String → α) (cj : α → α) (l : List β)
    (g : β → Sym α) (s t : Sym α) :
    tri mel cj s t (l.flatMap g) = lsum l (fun x => tri mel cj s t (g x)) := by
  simp only [tri_eq_lsum, lsum_flatMap]
  rw [lsum_comm3]

theorem tri_append_mid (mel : String → String → String → α) (cj : α → α) (s t t' u : Sym α) :
    tri mel cj s (t ++ t') u = tri mel cj s t u + tri mel cj s t' u := by
  simp only [tri_eq_lsum, lsum_append, lsum_add]

theorem lsum_consOp (o : String) (c : α) (s : Sym α) (f : OpStr × α → α) :
    lsum (Sym.consOp o c s) f = lsum s (fun p => f (o :: p.1, c * p.2)) := by
  unfold Sym.consOp
  rw [lsum_map]

theorem tri_consOp (mel : String → String → String → α) (cj : α →+* α) (x o y : String) (c d e : α)
    (s t u : Sym α) :
    tri mel cj (Sym.consOp x c s) (Sym.consOp o d t) (Sym.consOp y e u)
      = cj c * d * e * mel o x y * tri mel cj s t u := by
  simp only [tri_eq_lsum, Sym.consOp, lsum_map, triW, map_mul]
  rw [← lsum_mul_left]
  apply lsum_congr
  intro p _
  rw [← lsum_mul_left]
  apply lsum_congr
  intro q _
  rw [← lsum_mul_left]
  apply lsum_congr
  intro r _
  ring

theorem tri_unit (mel : String → String → String → α) (cj : α →+* α) :
    tri mel cj [([], 1)] [([], 1)] [([], 1)] = 1 := by
  simp [tri_eq_lsum, lsum_singleton, triW]

/-- one site of the product automaton -/
theorem lstep_prod3 (mel : String → String → String → α) (cj : α →+* α) (bra W ket : List (Edge Nat α))
    (PA PW PB : Nat → Sym α) (a w b : Nat) :
    KVec.lstep (prod3 mel cj bra W ket) (fun k => tri mel cj (PA k.1) (PW k.2.1) (PB k.2.2)) (a, w, b)
      = tri mel cj
          (bra.flatMap (fun e => if e.kL = a then Sym.consOp e.op e.c (PA e.kR) else []))
          (W.flatMap (fun e => if e.kL = w then Sym.consOp e.op e.c (PW e.kR) else []))
          (ket.flatMap (fun e => if e.kL = b then Sym.consOp e.op e.c (PB e.kR) else [])) := by
  rw [tri_flatMap_right]
  simp only [tri_flatMap_mid, tri_flatMap_left]
  unfold KVec.lstep prod3
  rw [lsum_filter]
  simp only [lsum_flatMap, lsum_map]
  apply lsum_congr
  intro ek _
  apply lsum_congr
  intro ew _
  apply lsum_congr
  intro eb _
  by_cases h1 : eb.kL = a <;> by_cases h2 : ew.kL = w <;> by_cases h3 : ek.kL = b <;>
    simp [h1, h2, h3, tri_nil_left, tri_nil_mid, tri_nil_right, tri_consOp]
  ring

/-- the path sum of the product automaton `bra* – W – ket` is the matrix element of the path sums -/
theorem wpathsF_prod3 {ι : Type} (mel : String → String → String → α) (cj : α →+* α)
    (fa fw fb : ι → List (Edge Nat α)) (ra rw rb : Nat) (F : EnvKey → α)
    (hF : ∀ k, F k = if k = (ra, rw, rb) then 1 else 0) (idx : List ι) (a w b : Nat) :
    KVec.wpathsF F (idx.map (fun i => prod3 mel cj (fa i) (fw i) (fb i))) (a, w, b)
      = tri mel cj (pathsFrom ra (idx.map fa) a) (pathsFrom rw (idx.map fw) w)
          (pathsFrom rb (idx.map fb) b) := by
  induction idx generalizing a w b with
  | nil =>
    simp only [List.map_nil, KVec.wpathsF, pathsFrom_nil, hF, Prod.mk.injEq]
    by_cases h1 : a = ra <;> by_cases h2 : w = rw <;> by_cases h3 : b = rb <;>
      simp [h1, h2, h3, tri_nil_left, tri_nil_mid, tri_nil_right, tri_unit]
  | cons i idx ih =>
    simp only [List.map_cons, KVec.wpathsF, pathsFrom_cons]
    rw [← lstep_prod3]
    congr 1
    funext k
    obtain ⟨a', w', b'⟩ := k
    exact ih a' w' b'

end tri
end TenpyModel.Ops
