import TenpyModel.C11.ExtStructProofs1
import TenpyModel.C11.ExtStructProofs2
import TenpyModel.C11.ExtStructProofs3
import TenpyModel.C11.ExtStructProofs4
/-!
# C11 extension, helper lemmas for `PropsExtStruct.lean`

* `ExtStructProofs1`  `sortPerm_perm`, `sortPerm_sorted`, `newIdx_sortPerm_inj`
* `ExtStructProofs2`  `sort_legcharges_denote` (via `relabel_paths` of `P2_Add2`)
* `ExtStructProofs3`  `group_sites_denote` (`pathsFrom_composeLayer`, `pathsFrom_composeGroup`,
                      `pathsFrom_groupLayers`)
* `ExtStructProofs4`  `groupSizes_spec`, `enlarge_denoteWindow`, `extract_segment_denote`, `struct_rejects`
-/
