import TenpyModel.C11.UIProofs
import TenpyModel.C11.Proofs
/-!
# C11: `plus_identity` on a single site, symbolic indices
-/
namespace TenpyModel.Ops
variable {κ α : Type} [DecidableEq κ] [CommSemiring α]

def scaleEdge (c : α) (e : Edge κ α) : Edge κ α := { e with c := c * e.c }

/-- scaling every entry of one layer scales the path sum -/
theorem pathsFrom_scale_layer (fin : κ) (c : α) (pre : List (List (Edge κ α))) (layer : List (Edge κ α))
    (post : List (List (Edge κ α))) (k : κ) :
    Sym.Equiv (pathsFrom fin (pre ++ (layer.map (scaleEdge c)) :: post) k)
      (Sym.smul c (pathsFrom fin (pre ++ layer :: post) k)) := by
  induction pre generalizing k with
  | nil =>
    intro t
    rw [coeff_smul]
    cases t with
    | nil => simp [coeff_pathsFrom_cons_nil]
    | cons op t =>
      simp only [List.nil_append, coeff_pathsFrom_cons, List.map_map]
      rw [← sum_map_mul_left']
      apply sum_congr_map
      intro e _
      by_cases hc : e.kL = k ∧ e.op = op
      · simp [scaleEdge, hc, mul_assoc]
      · simp [scaleEdge, hc]
  | cons l pre ih =>
    intro t
    rw [coeff_smul]
    cases t with
    | nil => simp [coeff_pathsFrom_cons_nil]
    | cons op t =>
      simp only [List.cons_append, coeff_pathsFrom_cons]
      rw [← sum_map_mul_left']
      apply sum_congr_map
      intro e _
      by_cases hc : e.kL = k ∧ e.op = op
      · rw [if_pos hc, if_pos hc, ih e.kR t, coeff_smul, mul_left_comm]
      · rw [if_neg hc, if_neg hc, mul_zero]

end TenpyModel.Ops

namespace TenpyModel.Ops
variable {κ α : Type} [DecidableEq κ] [CommSemiring α]

/-- tensor product of two formal sums living on adjacent segments of the chain -/
def mulConcat (a b : Sym α) : Sym α := a.flatMap (fun p => b.map (fun q => (p.1 ++ q.1, p.2 * q.2)))

theorem pathsFrom_length (fin : κ) (layers : List (List (Edge κ α))) (k : κ) :
    ∀ p ∈ pathsFrom fin layers k, p.1.length = layers.length := by
  induction layers generalizing k with
  | nil =>
    intro p hp
    rw [pathsFrom_nil] at hp
    split at hp
    · simp at hp; subst hp; rfl
    · simp at hp
  | cons l rest ih =>
    intro p hp
    rw [pathsFrom_cons, List.mem_flatMap] at hp
    obtain ⟨e, _, hp⟩ := hp
    split at hp
    · simp only [Sym.consOp, List.mem_map] at hp
      obtain ⟨q, hq, rfl⟩ := hp
      simp [ih e.kR q hq]
    · simp at hp

theorem coeff_map_prepend (u : OpStr) (c : α) (b : Sym α) (n : Nat) (hu : u.length = n) (t : OpStr) :
    coeff (b.map (fun q => (u ++ q.1, c * q.2))) t
      = if u = t.take n then c * coeff b (t.drop n) else 0 := by
  induction b with
  | nil => simp
  | cons q b ihb =>
    obtain ⟨v, d⟩ := q
    simp only [List.map_cons, coeff_cons, ihb]
    by_cases h1 : u = t.take n
    · by_cases h2 : v = t.drop n
      · have : u ++ v = t := by rw [h1, h2, List.take_append_drop]
        simp only [if_pos this, if_pos h1, if_pos h2, mul_add]
      · have : ¬ u ++ v = t := by
          intro hh
          apply h2
          have := congrArg (List.drop n) hh
          rwa [List.drop_left' hu] at this
        simp only [if_neg this, if_pos h1, if_neg h2]
    · have : ¬ u ++ v = t := by
        intro hh
        apply h1
        have := congrArg (List.take n) hh
        rwa [List.take_left' hu] at this
      simp only [if_neg this, if_neg h1]

theorem coeff_mulConcat (a b : Sym α) (n : Nat) (hlen : ∀ p ∈ a, p.1.length = n) (t : OpStr) :
    coeff (mulConcat a b) t = coeff a (t.take n) * coeff b (t.drop n) := by
  induction a with
  | nil => simp [mulConcat]
  | cons p a ih =>
    obtain ⟨u, c⟩ := p
    have hu : u.length = n := hlen (u, c) List.mem_cons_self
    have ih' := ih (fun p hp => hlen p (List.mem_cons_of_mem _ hp))
    simp only [mulConcat, List.flatMap_cons, coeff_append, coeff_cons] at ih' ⊢
    rw [ih', coeff_map_prepend u c b n hu t]
    by_cases h1 : u = t.take n
    · simp only [if_pos h1, add_mul]
    · simp only [if_neg h1, zero_add]

end TenpyModel.Ops

namespace TenpyModel.Ops
variable {κ α : Type} [DecidableEq κ] [CommSemiring α]

/-- **edge addition**: one more edge `e` in a layer adds the paths through `e`:
(paths from the start to `e.kL`) ⊗ `e` ⊗ (paths from `e.kR` to the end) -/
theorem coeff_pathsFrom_add_edge (fin : κ) (pre : List (List (Edge κ α))) (layer : List (Edge κ α))
    (e : Edge κ α) (post : List (List (Edge κ α))) (k0 : κ) (t : OpStr) :
    coeff (pathsFrom fin (pre ++ (layer ++ [e]) :: post) k0) t
      = coeff (pathsFrom fin (pre ++ layer :: post) k0) t
        + coeff (pathsFrom e.kL pre k0) (t.take pre.length)
          * coeff (Sym.consOp e.op e.c (pathsFrom fin post e.kR)) (t.drop pre.length) := by
  induction pre generalizing k0 t with
  | nil =>
    simp only [List.nil_append, List.length_nil, List.take_zero, List.drop_zero, pathsFrom_nil]
    rw [pathsFrom_append_layer, coeff_append]
    congr 1
    rw [pathsFrom_cons]
    by_cases h : e.kL = k0
    · simp [h, coeff_singleton]
    · have : ¬ k0 = e.kL := fun hh => h hh.symm
      simp [h, this]
  | cons l pre ih =>
    cases t with
    | nil =>
      simp only [List.cons_append, coeff_pathsFrom_cons_nil, List.take_nil, zero_mul, add_zero]
    | cons op t =>
      simp only [List.cons_append, List.length_cons, List.take_succ_cons, List.drop_succ_cons,
        coeff_pathsFrom_cons]
      rw [← sum_map_mul_right'', ← sum_map_add]
      apply sum_congr_map
      intro e0 _
      by_cases hc : e0.kL = k0 ∧ e0.op = op
      · simp only [if_pos hc]
        rw [ih e0.kR t, mul_add, mul_assoc]
      · simp only [if_neg hc, zero_mul, add_zero]

/-- in standard form the only path from `IdL` to `IdL` is the identity string -/
theorem prefix_id (lk rk : κ) (as : List (List (Edge κ α))) (h : ∀ la ∈ as, StdId lk rk la) :
    (∀ t, coeff (pathsFrom lk as lk) t = coeff [(idStr as.length, (1 : α))] t) ∧
    (∀ k, k ≠ lk → ∀ t, coeff (pathsFrom lk as k) t = 0) := by
  induction as with
  | nil =>
    refine ⟨fun t => by simp [idStr], fun k hk t => by simp [hk]⟩
  | cons la as ih =>
    have hla := h la List.mem_cons_self
    obtain ⟨ih1, ih2⟩ := ih (fun l hl => h l (List.mem_cons_of_mem _ hl))
    constructor
    · intro t
      cases t with
      | nil => rw [coeff_pathsFrom_cons_nil]; simp [coeff_singleton, idStr]
      | cons op t =>
        rw [coeff_pathsFrom_cons]
        have hδ : coeff [(idStr (la :: as).length, (1 : α))] (op :: t)
            = entryCoeff la lk lk op * coeff [(idStr as.length, (1 : α))] t := by
          rw [hla.idL op, List.length_cons, idStr_succ', coeff_singleton, coeff_singleton]
          by_cases h1 : op = "Id"
          · subst h1
            by_cases h2 : idStr as.length = t
            · simp [h2]
            · simp [h2]
          · have : ¬ ("Id" :: idStr as.length = op :: t) := fun hh => h1 (List.cons.inj hh).1.symm
            simp [h1, this]
        rw [hδ, entryCoeff, ← sum_map_mul_right'']
        apply sum_congr_map
        intro e _
        by_cases hc : e.kL = lk ∧ e.op = op
        · by_cases h2 : e.kR = lk
          · have : e.kL = lk ∧ e.kR = lk ∧ e.op = op := ⟨hc.1, h2, hc.2⟩
            simp only [if_pos hc, if_pos this]
            rw [h2, ih1 t]
          · have : ¬ (e.kL = lk ∧ e.kR = lk ∧ e.op = op) := fun hh => h2 hh.2.1
            simp only [if_pos hc, if_neg this, ih2 e.kR h2 t, mul_zero, zero_mul]
        · have : ¬ (e.kL = lk ∧ e.kR = lk ∧ e.op = op) := fun hh => hc ⟨hh.1, hh.2.2⟩
          simp only [if_neg hc, if_neg this, zero_mul]
    · intro k hk t
      cases t with
      | nil => rw [coeff_pathsFrom_cons_nil]
      | cons op t =>
        rw [coeff_pathsFrom_cons]
        apply List.sum_eq_zero
        intro x hx
        obtain ⟨e, he, rfl⟩ := List.mem_map.1 hx
        by_cases hc : e.kL = k ∧ e.op = op
        · have h2 : e.kR ≠ lk := fun hh => hk (hc.1 ▸ hla.intoL e he hh)
          simp only [if_pos hc, ih2 e.kR h2 t, mul_zero]
        · simp only [if_neg hc]

end TenpyModel.Ops

namespace TenpyModel.Ops
variable {κ α : Type} [DecidableEq κ] [CommSemiring α]

/-- `plus_identity(alpha, beta, sites=[s])` with symbolic indices: every entry of site `s` is multiplied by
`beta` and `alpha·Id` is added to the `IdL → IdR` entry -/
def plusIdLayer (lk rk : κ) (alpha beta : α) (la : List (Edge κ α)) : List (Edge κ α) :=
  la.map (scaleEdge beta) ++ [⟨lk, rk, "Id", alpha⟩]

theorem equiv_consOp' (op : String) (c : α) {a b : Sym α} (h : Sym.Equiv a b) :
    Sym.Equiv (Sym.consOp op c a) (Sym.consOp op c b) := by
  intro t
  cases t with
  | nil => rw [coeff_consOp_nil, coeff_consOp_nil]
  | cons o t => rw [coeff_consOp_cons, coeff_consOp_cons, h t]

theorem idStr_split (n m : Nat) (a : α) :
    mulConcat [(idStr n, (1 : α))] (Sym.consOp "Id" a [(idStr m, (1 : α))]) = [(idStr (n + 1 + m), a)] := by
  have e : idStr n ++ "Id" :: idStr m = idStr (n + 1 + m) := by
    unfold idStr
    rw [show n + 1 + m = n + (m + 1) by omega, List.replicate_add, List.replicate_succ]
  simp only [mulConcat, Sym.consOp, List.flatMap_cons, List.flatMap_nil, List.append_nil, List.map_cons,
    List.map_nil, e, mul_one, one_mul]

theorem plus_identity_single (lk rk : κ) (hlr : lk ≠ rk) (alpha beta : α)
    (pre : List (List (Edge κ α))) (la : List (Edge κ α)) (post : List (List (Edge κ α)))
    (hpre : ∀ l ∈ pre, StdId lk rk l) (hpost : ∀ l ∈ post, StdId lk rk l) (t : OpStr) :
    coeff (pathsFrom rk (pre ++ plusIdLayer lk rk alpha beta la :: post) lk) t
      = beta * coeff (pathsFrom rk (pre ++ la :: post) lk) t
        + coeff [(idStr (pre.length + 1 + post.length), alpha)] t := by
  unfold plusIdLayer
  rw [coeff_pathsFrom_add_edge, pathsFrom_scale_layer rk beta pre la post lk t, coeff_smul]
  congr 1
  simp only
  rw [(prefix_id lk rk pre hpre).1,
    equiv_consOp' "Id" alpha (ui_first_order lk rk hlr post hpost).1 (t.drop pre.length),
    ← idStr_split pre.length post.length alpha,
    coeff_mulConcat _ _ pre.length (by intro p hp; simp at hp; subst hp; simp [idStr])]

end TenpyModel.Ops
