import Mathlib.Algebra.DualNumber
import TenpyModel.Ops.MPO
import TenpyModel.C11.UIProofs
/-!
# C11 / `make_U_I` on integer indices, part 1: one site

`uiSite rL rR lR dt lay` is literally the per-site computation of `MPOM.makeUI` (row `rL = IdR[i]` and
column `rR = IdR[i+1]` removed, column `lR = IdL[i+1]` absorbs `dt ×` column `rR`, indices above the
removed ones shift down).  `coeff_uiSite_cons` is the coefficient recursion through such a layer, stated
on the *unshifted* indices: the summand of an edge `e` of the Hamiltonian layer is `uiTerm2 … e`.
-/
namespace TenpyModel.Ops
open TrivSqZeroExt DualNumber

/-- index after removing the index `removed` (only applied to indices `≠ removed`) -/
def shiftIdx (removed k : Nat) : Nat := if k > removed then k - 1 else k

theorem shiftIdx_inj (r a b : Nat) (ha : a ≠ r) (hb : b ≠ r) : shiftIdx r a = shiftIdx r b ↔ a = b := by
  unfold shiftIdx
  constructor
  · intro h
    split at h <;> split at h <;> omega
  · rintro rfl; rfl

/-- the per-site computation of `MPOM.makeUI` -/
def uiSite {β : Type} [Mul β] (rL rR lR : Nat) (dt : β) (lay : List (Edge Nat β)) : List (Edge Nat β) :=
  let extra := (lay.filter (fun e => e.kR = rR)).map (fun e => ({ e with kR := lR, c := dt * e.c } : Edge Nat β))
  let kept := (lay ++ extra).filter (fun e => e.kR ≠ rR && e.kL ≠ rL)
  kept.map (fun e => ({ e with kL := shiftIdx rL e.kL, kR := shiftIdx rR e.kR } : Edge Nat β))

/-- `IdL[b]`, `IdR[b]` as used by `makeUI` (`0` for a missing marker) -/
def MPOM.mL {α : Type} (m : MPOM α) (b : Nat) : Nat := (m.idL.getD b none).getD 0
def MPOM.mR {α : Type} (m : MPOM α) (b : Nat) : Nat := (m.idR.getD b none).getD 0

theorem MPOM.makeUI_layers {β : Type} [Mul β] (m : MPOM β) (dt : β) (fin : Bool) :
    (m.makeUI dt fin).layers = (List.range m.L).map (fun i =>
      uiSite (m.mR i) (m.mR (i + 1)) (m.mL (i + 1)) dt (m.layers.getD i [])) := rfl

theorem MPOM.makeUI_idL {β : Type} [Mul β] (m : MPOM β) (dt : β) (fin : Bool) :
    (m.makeUI dt fin).idL = (List.range (m.L + 1)).map (fun b => some (shiftIdx (m.mR b) (m.mL b))) := rfl

theorem MPOM.makeUI_idR {β : Type} [Mul β] (m : MPOM β) (dt : β) (fin : Bool) :
    (m.makeUI dt fin).idR = (List.range (m.L + 1)).map (fun b => some (shiftIdx (m.mR b) (m.mL b))) := rfl

variable {α : Type} [CommSemiring α]

/-- the summand of `coeff_uiSite_cons` for one edge of the Hamiltonian layer; `R x` = suffix sum of the
propagator from the (unshifted) index `x` of the right bond -/
def uiTerm2 (rL rR lR k : Nat) (op : String) (R : Nat → DualNumber α) (e : Edge Nat α) : DualNumber α :=
  if e.kL = rL then 0
  else if e.kR = rR then (if e.kL = k ∧ e.op = op then (ε * inl e.c) * R lR else 0)
  else (if e.kL = k ∧ e.op = op then inl e.c * R e.kR else 0)

theorem sum_filter_map_gen {β : Type} {M : Type} [AddCommMonoid M] (l : List β) (p : β → Bool) (f : β → M) :
    ((l.filter p).map f).sum = (l.map (fun x => if p x then f x else 0)).sum := by
  induction l with
  | nil => rfl
  | cons x l ih =>
    by_cases h : p x
    · simp [h, ih]
    · simp [h, ih]

theorem sum_map_add_gen {β : Type} {M : Type} [AddCommMonoid M] (l : List β) (f g : β → M) :
    (l.map (fun x => f x + g x)).sum = (l.map f).sum + (l.map g).sum := by
  induction l with
  | nil => simp
  | cons x l ih =>
    simp only [List.map_cons, List.sum_cons, ih]
    rw [add_add_add_comm]

/-- sum over a `uiSite` layer as a sum over the original layer -/
theorem sum_uiSite {β : Type} [Mul β] {M : Type} [AddCommMonoid M] (rL rR lR : Nat) (dt : β)
    (lay : List (Edge Nat β)) (T : Edge Nat β → M) :
    ((uiSite rL rR lR dt lay).map T).sum =
      (lay.map (fun e =>
        (if (decide (e.kR ≠ rR) && decide (e.kL ≠ rL)) then
          T { e with kL := shiftIdx rL e.kL, kR := shiftIdx rR e.kR } else 0) +
        (if e.kR = rR then
          (if (decide (lR ≠ rR) && decide (e.kL ≠ rL)) then
            T ⟨shiftIdx rL e.kL, shiftIdx rR lR, e.op, dt * e.c⟩ else 0) else 0))).sum := by
  unfold uiSite
  simp only
  rw [List.filter_append, List.map_append, List.map_append, List.sum_append, List.map_map,
    sum_filter_map_gen, sum_map_add_gen]
  congr 1
  rw [List.filter_map, List.map_map, List.map_map, List.filter_filter, sum_filter_map_gen]
  apply congrArg
  apply List.map_congr_left
  intro e _
  by_cases h1 : e.kR = rR
  · simp [h1, Function.comp]
  · simp [h1, Function.comp]

/-- coefficient recursion through one `W_I` layer on integer indices, from the index `k ≠ IdR` of the left
bond -/
theorem coeff_uiSite_cons (rL rR lR : Nat) (hlr : lR ≠ rR) (la : List (Edge Nat α))
    (U' : List (List (Edge Nat (DualNumber α)))) (F k : Nat) (hk : k ≠ rL) (op : String) (t : OpStr) :
    coeff (pathsFrom F (uiSite rL rR lR (ε : DualNumber α) (la.map liftEdge) :: U') (shiftIdx rL k)) (op :: t) =
      (la.map (uiTerm2 rL rR lR k op (fun x => coeff (pathsFrom F U' (shiftIdx rR x)) t))).sum := by
  rw [coeff_pathsFrom_cons, sum_uiSite, List.map_map]
  apply congrArg
  apply List.map_congr_left
  intro e _
  simp only [Function.comp, liftEdge, uiTerm2]
  by_cases h1 : e.kL = rL
  · simp [h1]
  · have hs : shiftIdx rL e.kL = shiftIdx rL k ↔ e.kL = k := shiftIdx_inj rL e.kL k h1 hk
    by_cases h2 : e.kR = rR
    · simp [h1, h2, hlr, hs]
    · simp [h1, h2, hs]

theorem snd_uiTerm2 (rL rR lR k : Nat) (hk : k ≠ rL) (op : String) (R : Nat → DualNumber α) (H' : Nat → α)
    (hfl : (R lR).fst = H' rR) (hs : ∀ x, x ≠ rR → (R x).snd = H' x) (e : Edge Nat α) :
    (uiTerm2 rL rR lR k op R e).snd = if e.kL = k ∧ e.op = op then e.c * H' e.kR else 0 := by
  unfold uiTerm2
  by_cases h1 : e.kL = rL
  · have h3 : ¬ (e.kL = k ∧ e.op = op) := fun hh => hk (hh.1.symm.trans h1)
    simp only [if_pos h1, if_neg h3, snd_zero]
  · by_cases h3 : e.kL = k ∧ e.op = op
    · by_cases h2 : e.kR = rR
      · simp only [if_neg h1, if_pos h2, if_pos h3]
        rw [h2]
        simp [hfl, mul_comm]
      · simp only [if_neg h1, if_neg h2, if_pos h3]
        simp [hs e.kR h2]
    · by_cases h2 : e.kR = rR
      · simp only [if_neg h1, if_pos h2, if_neg h3, snd_zero]
      · simp only [if_neg h1, if_neg h2, if_neg h3, snd_zero]

theorem fst_uiTerm2 (rL rR lR k : Nat) (op : String) (R : Nat → DualNumber α) (e : Edge Nat α) :
    (uiTerm2 rL rR lR k op R e).fst =
      if e.kL = k ∧ e.op = op ∧ e.kL ≠ rL ∧ e.kR ≠ rR then e.c * (R e.kR).fst else 0 := by
  unfold uiTerm2
  by_cases h1 : e.kL = rL
  · have : ¬ (e.kL = k ∧ e.op = op ∧ e.kL ≠ rL ∧ e.kR ≠ rR) := fun hh => hh.2.2.1 h1
    simp only [if_pos h1, if_neg this, fst_zero]
  · by_cases h2 : e.kR = rR
    · have : ¬ (e.kL = k ∧ e.op = op ∧ e.kL ≠ rL ∧ e.kR ≠ rR) := fun hh => hh.2.2.2 h2
      simp only [if_neg h1, if_pos h2, if_neg this]
      split <;> simp
    · by_cases h3 : e.kL = k ∧ e.op = op
      · have : e.kL = k ∧ e.op = op ∧ e.kL ≠ rL ∧ e.kR ≠ rR := ⟨h3.1, h3.2, h1, h2⟩
        simp only [if_neg h1, if_neg h2, if_pos h3, if_pos this]
        simp
      · have : ¬ (e.kL = k ∧ e.op = op ∧ e.kL ≠ rL ∧ e.kR ≠ rR) := fun hh => h3 ⟨hh.1, hh.2.1⟩
        simp only [if_neg h1, if_neg h2, if_neg h3, if_neg this, fst_zero]

end TenpyModel.Ops
