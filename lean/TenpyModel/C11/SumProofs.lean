import TenpyModel.Ops.PathProofs
/-!
# C11: the sum of two MPOs in standard form (block structure of `MPO.__add__`) at the level of
weighted automata with symbolic keys

`sumLayers` glues two automata at their `IdL` and `IdR` states: the states of the sum are `IdL`, the
other states of the first summand (`SK.a`), the other states of the second summand (`SK.b`) and `IdR`;
the first summand contributes all its edges, the second all but its `IdL → IdL` and `IdR → IdR`
edges.  This is the grid
```
[[s00, s01, o01, s02+o02], [ - , s11,  - , s12], [ - ,  - , o11, o12], [ - ,  - ,  - , s22]]
```
of `MPO.__add__`, with virtual indices replaced by symbolic keys.
-/
namespace TenpyModel.Ops

inductive SK (κ : Type) where
  | l
  | r
  | a (k : κ)
  | b (k : κ)
deriving DecidableEq

variable {κ α : Type} [DecidableEq κ] [Semiring α]

def injA (lk rk : κ) (k : κ) : SK κ := if k = lk then .l else if k = rk then .r else .a k
def injB (lk rk : κ) (k : κ) : SK κ := if k = lk then .l else if k = rk then .r else .b k

def relabel (f : κ → SK κ) (e : Edge κ α) : Edge (SK κ) α := ⟨f e.kL, f e.kR, e.op, e.c⟩

/-- is `e` an `IdL → IdL` or `IdR → IdR` edge -/
def isLoop (lk rk : κ) (e : Edge κ α) : Bool := (e.kL = lk && e.kR = lk) || (e.kL = rk && e.kR = rk)

def sumLayer (lk rk : κ) (la lb : List (Edge κ α)) : List (Edge (SK κ) α) :=
  la.map (relabel (injA lk rk)) ++ (lb.filter (fun e => !isLoop lk rk e)).map (relabel (injB lk rk))

def sumLayers (lk rk : κ) : List (List (Edge κ α)) → List (List (Edge κ α)) → List (List (Edge (SK κ) α))
  | la :: as, lb :: bs => sumLayer lk rk la lb :: sumLayers lk rk as bs
  | _, _ => []

/-- standard form of one layer: nothing enters `IdL` except from `IdL`, nothing leaves `IdR` except to `IdR` -/
def StdLayer (lk rk : κ) (l : List (Edge κ α)) : Prop :=
  ∀ e ∈ l, (e.kR = lk → e.kL = lk) ∧ (e.kL = rk → e.kR = rk)

/-- local coefficient of the name `op` in the entry `W[k, k']` -/
def entryCoeff (l : List (Edge κ α)) (k k' : κ) (op : String) : α :=
  (l.map (fun e => if e.kL = k ∧ e.kR = k' ∧ e.op = op then e.c else 0)).sum

/-- the `IdL → IdL` and `IdR → IdR` entries of the two layers are the same local operator -/
def AgreeLayer (lk rk : κ) (la lb : List (Edge κ α)) : Prop :=
  ∀ op, entryCoeff la lk lk op = entryCoeff lb lk lk op ∧ entryCoeff la rk rk op = entryCoeff lb rk rk op

theorem sum_congr_map {β : Type} (l : List β) (f g : β → α) (h : ∀ x ∈ l, f x = g x) :
    (l.map f).sum = (l.map g).sum := by
  rw [List.map_congr_left h]

theorem sum_map_add {β : Type} (l : List β) (f g : β → α) :
    (l.map (fun x => f x + g x)).sum = (l.map f).sum + (l.map g).sum := by
  induction l with
  | nil => simp
  | cons x l ih =>
    simp only [List.map_cons, List.sum_cons, ih]
    rw [add_add_add_comm]

theorem sum_map_mul_right'' {β : Type} (l : List β) (a : α) (f : β → α) :
    (l.map (fun x => f x * a)).sum = (l.map f).sum * a := by
  induction l with
  | nil => simp
  | cons x l ih => simp [ih, add_mul]

theorem sum_map_zero' {β : Type} (l : List β) : (l.map (fun _ => (0 : α))).sum = 0 := by
  induction l with
  | nil => rfl
  | cons x l ih => simp [ih]

theorem sum_filter_map' {β : Type} (l : List β) (p : β → Bool) (f : β → α) :
    ((l.filter p).map f).sum = (l.map (fun x => if p x then f x else 0)).sum := by
  induction l with
  | nil => rfl
  | cons x l ih =>
    by_cases h : p x
    · simp [h, ih]
    · simp [h, ih]

/-- the expected suffix sums of the glued automaton -/
def expect (lk rk : κ) (as bs : List (List (Edge κ α))) (K : SK κ) (t : OpStr) : α :=
  match K with
  | .l => coeff (pathsFrom rk as lk) t + coeff (pathsFrom rk bs lk) t
  | .r => coeff (pathsFrom rk as rk) t
  | .a k => coeff (pathsFrom rk as k) t
  | .b k => coeff (pathsFrom rk bs k) t

/-- coefficient recursion specialised to a glued layer -/
theorem coeff_sumLayer_cons (lk rk : κ) (la lb : List (Edge κ α)) (rest : List (List (Edge (SK κ) α)))
    (K : SK κ) (op : String) (t : OpStr) :
    coeff (pathsFrom SK.r (sumLayer lk rk la lb :: rest) K) (op :: t) =
      (la.map (fun e => if injA lk rk e.kL = K ∧ e.op = op
        then e.c * coeff (pathsFrom SK.r rest (injA lk rk e.kR)) t else 0)).sum +
      (lb.map (fun e => if !isLoop lk rk e then (if injB lk rk e.kL = K ∧ e.op = op
        then e.c * coeff (pathsFrom SK.r rest (injB lk rk e.kR)) t else 0) else 0)).sum := by
  rw [coeff_pathsFrom_cons, sumLayer, List.map_append, List.sum_append, List.map_map, List.map_map,
    sum_filter_map']
  rfl

end TenpyModel.Ops

namespace TenpyModel.Ops
variable {κ α : Type} [DecidableEq κ] [Semiring α]

/-- keys of the glued automaton that actually occur: `SK.a k`, `SK.b k` only for other states -/
def ValidKey (lk rk : κ) : SK κ → Prop
  | .a k => k ≠ lk ∧ k ≠ rk
  | .b k => k ≠ lk ∧ k ≠ rk
  | _ => True

theorem validKey_injA (lk rk k : κ) : ValidKey lk rk (injA lk rk k) := by
  unfold injA
  split
  · trivial
  · split
    · trivial
    · exact ⟨by assumption, by assumption⟩

theorem validKey_injB (lk rk k : κ) : ValidKey lk rk (injB lk rk k) := by
  unfold injB
  split
  · trivial
  · split
    · trivial
    · exact ⟨by assumption, by assumption⟩

theorem injA_eq_a (lk rk x k : κ) (hk : k ≠ lk ∧ k ≠ rk) : injA lk rk x = SK.a k ↔ x = k := by
  unfold injA
  constructor
  · intro h
    split at h
    · cases h
    · split at h
      · cases h
      · injection h
  · rintro rfl
    simp [hk.1, hk.2]

theorem injB_eq_b (lk rk x k : κ) (hk : k ≠ lk ∧ k ≠ rk) : injB lk rk x = SK.b k ↔ x = k := by
  unfold injB
  constructor
  · intro h
    split at h
    · cases h
    · split at h
      · cases h
      · injection h
  · rintro rfl
    simp [hk.1, hk.2]

theorem injA_ne_b (lk rk x k : κ) : injA lk rk x ≠ SK.b k := by
  unfold injA; split <;> [skip; split] <;> intro h <;> cases h

theorem injB_ne_a (lk rk x k : κ) : injB lk rk x ≠ SK.a k := by
  unfold injB; split <;> [skip; split] <;> intro h <;> cases h

theorem injA_eq_l (lk rk x : κ) : injA lk rk x = SK.l ↔ x = lk := by
  unfold injA
  constructor
  · intro h
    split at h
    · assumption
    · split at h <;> cases h
  · rintro rfl; simp

theorem injB_eq_l (lk rk x : κ) : injB lk rk x = SK.l ↔ x = lk := by
  unfold injB
  constructor
  · intro h
    split at h
    · assumption
    · split at h <;> cases h
  · rintro rfl; simp

theorem injA_eq_r (lk rk x : κ) (hlr : lk ≠ rk) : injA lk rk x = SK.r ↔ x = rk := by
  unfold injA
  constructor
  · intro h
    split at h
    · cases h
    · split at h
      · assumption
      · cases h
  · rintro rfl; simp [Ne.symm hlr]

theorem injB_eq_r (lk rk x : κ) (hlr : lk ≠ rk) : injB lk rk x = SK.r ↔ x = rk := by
  unfold injB
  constructor
  · intro h
    split at h
    · cases h
    · split at h
      · assumption
      · cases h
  · rintro rfl; simp [Ne.symm hlr]

end TenpyModel.Ops

namespace TenpyModel.Ops
variable {κ α : Type} [DecidableEq κ] [Semiring α]

/-- what the induction carries for a pair of layers -/
structure GoodPair (lk rk : κ) (la lb : List (Edge κ α)) : Prop where
  stdA : StdLayer lk rk la
  stdB : StdLayer lk rk lb
  agree : AgreeLayer lk rk la lb

/-- value of the suffix of the glued automaton at the target of an `A` edge that does not enter `IdL` -/
theorem expect_injA_of_ne (lk rk : κ) (as bs : List (List (Edge κ α))) (x : κ) (hx : x ≠ lk) (t : OpStr) :
    expect lk rk as bs (injA lk rk x) t = coeff (pathsFrom rk as x) t := by
  unfold injA
  rw [if_neg hx]
  split
  · next h => subst h; rfl
  · rfl

theorem expect_injB_of_ne (lk rk : κ) (as bs : List (List (Edge κ α))) (x : κ) (hx : x ≠ lk) (t : OpStr)
    (hr : coeff (pathsFrom rk as rk) t = coeff (pathsFrom rk bs rk) t) :
    expect lk rk as bs (injB lk rk x) t = coeff (pathsFrom rk bs x) t := by
  unfold injB
  rw [if_neg hx]
  split
  · next h => subst h; exact hr
  · rfl

/-- suffix sum from `IdR`: only the `IdR → IdR` entry matters -/
theorem coeff_from_r (lk rk : κ) (la : List (Edge κ α)) (as : List (List (Edge κ α)))
    (h : StdLayer lk rk la) (op : String) (t : OpStr) :
    coeff (pathsFrom rk (la :: as) rk) (op :: t) = entryCoeff la rk rk op * coeff (pathsFrom rk as rk) t := by
  rw [coeff_pathsFrom_cons, entryCoeff, ← sum_map_mul_right'']
  apply sum_congr_map
  intro e he
  by_cases h1 : e.kL = rk
  · have h2 := (h e he).2 h1
    by_cases h3 : e.op = op
    · simp [h1, h2, h3]
    · simp [h3]
  · simp [h1]

end TenpyModel.Ops

namespace TenpyModel.Ops
variable {κ α : Type} [DecidableEq κ] [Semiring α]

theorem sum_glued (lk rk : κ) (hlr : lk ≠ rk) (as bs : List (List (Edge κ α)))
    (h : List.Forall₂ (GoodPair lk rk) as bs) :
    (∀ t, coeff (pathsFrom rk as rk) t = coeff (pathsFrom rk bs rk) t) ∧
    ∀ K, ValidKey lk rk K → ∀ t,
      coeff (pathsFrom SK.r (sumLayers lk rk as bs) K) t = expect lk rk as bs K t := by
  induction h with
  | nil =>
    refine ⟨fun _ => rfl, ?_⟩
    intro K hK t
    cases K with
    | l => simp [sumLayers, expect, hlr]
    | r => simp [sumLayers, expect]
    | a k => simp [sumLayers, expect, hK.2]
    | b k => simp [sumLayers, expect, hK.2]
  | @cons la lb as bs hg _ ih =>
    obtain ⟨ihr, ihK⟩ := ih
    have hr : ∀ t, coeff (pathsFrom rk (la :: as) rk) t = coeff (pathsFrom rk (lb :: bs) rk) t := by
      intro t
      cases t with
      | nil => rw [coeff_pathsFrom_cons_nil, coeff_pathsFrom_cons_nil]
      | cons op t =>
        rw [coeff_from_r lk rk la as hg.stdA, coeff_from_r lk rk lb bs hg.stdB, (hg.agree op).2, ihr t]
    refine ⟨hr, ?_⟩
    intro K hK t
    cases t with
    | nil =>
      have : sumLayers lk rk (la :: as) (lb :: bs) = sumLayer lk rk la lb :: sumLayers lk rk as bs := rfl
      rw [this, coeff_pathsFrom_cons_nil]
      cases K <;> simp [expect, coeff_pathsFrom_cons_nil]
    | cons op t =>
      have hsl : sumLayers lk rk (la :: as) (lb :: bs) = sumLayer lk rk la lb :: sumLayers lk rk as bs := rfl
      rw [hsl, coeff_sumLayer_cons]
      -- rewrite the suffix coefficients of the glued automaton by the induction hypothesis
      have hA : ∀ x, coeff (pathsFrom SK.r (sumLayers lk rk as bs) (injA lk rk x)) t
          = expect lk rk as bs (injA lk rk x) t := fun x => ihK _ (validKey_injA lk rk x) t
      have hB : ∀ x, coeff (pathsFrom SK.r (sumLayers lk rk as bs) (injB lk rk x)) t
          = expect lk rk as bs (injB lk rk x) t := fun x => ihK _ (validKey_injB lk rk x) t
      simp only [hA, hB]
      cases K with
      | a k =>
        have hk : k ≠ lk ∧ k ≠ rk := hK
        have hb0 : (lb.map (fun e => if !isLoop lk rk e then (if injB lk rk e.kL = SK.a k ∧ e.op = op
            then e.c * expect lk rk as bs (injB lk rk e.kR) t else 0) else 0)).sum = 0 := by
          rw [← sum_map_zero' (α := α) lb]
          apply sum_congr_map
          intro e _
          simp [injB_ne_a]
        rw [hb0, add_zero]
        show _ = coeff (pathsFrom rk (la :: as) k) (op :: t)
        rw [coeff_pathsFrom_cons]
        apply sum_congr_map
        intro e he
        simp only [injA_eq_a lk rk e.kL k hk]
        by_cases h1 : e.kL = k ∧ e.op = op
        · rw [if_pos h1, if_pos h1]
          have hne : e.kR ≠ lk := fun h2 => hk.1 (h1.1 ▸ (hg.stdA e he).1 h2)
          rw [expect_injA_of_ne lk rk as bs e.kR hne]
        · rw [if_neg h1, if_neg h1]
      | b k =>
        have hk : k ≠ lk ∧ k ≠ rk := hK
        have ha0 : (la.map (fun e => if injA lk rk e.kL = SK.b k ∧ e.op = op
            then e.c * expect lk rk as bs (injA lk rk e.kR) t else 0)).sum = 0 := by
          rw [← sum_map_zero' (α := α) la]
          apply sum_congr_map
          intro e _
          simp [injA_ne_b]
        rw [ha0, zero_add]
        show _ = coeff (pathsFrom rk (lb :: bs) k) (op :: t)
        rw [coeff_pathsFrom_cons]
        apply sum_congr_map
        intro e he
        simp only [injB_eq_b lk rk e.kL k hk]
        by_cases h1 : e.kL = k ∧ e.op = op
        · have hnl : isLoop lk rk e = false := by
            simp [isLoop, h1.1, hk.1, hk.2]
          rw [if_pos h1, if_pos h1, hnl]
          have hne : e.kR ≠ lk := fun h2 => hk.1 (h1.1 ▸ (hg.stdB e he).1 h2)
          simp [expect_injB_of_ne lk rk as bs e.kR hne t (ihr t)]
        · rw [if_neg h1, if_neg h1]; simp
      | r =>
        have hb0 : (lb.map (fun e => if !isLoop lk rk e then (if injB lk rk e.kL = SK.r ∧ e.op = op
            then e.c * expect lk rk as bs (injB lk rk e.kR) t else 0) else 0)).sum = 0 := by
          rw [← sum_map_zero' (α := α) lb]
          apply sum_congr_map
          intro e he
          by_cases h1 : e.kL = rk
          · have h2 := (hg.stdB e he).2 h1
            simp [isLoop, h1, h2]
          · simp [injB_eq_r lk rk e.kL hlr, h1]
        rw [hb0, add_zero]
        show _ = coeff (pathsFrom rk (la :: as) rk) (op :: t)
        rw [coeff_pathsFrom_cons]
        apply sum_congr_map
        intro e he
        simp only [injA_eq_r lk rk e.kL hlr]
        by_cases h1 : e.kL = rk ∧ e.op = op
        · rw [if_pos h1, if_pos h1]
          have hne : e.kR ≠ lk := fun h2 => hlr ((hg.stdA e he).2 h1.1 ▸ h2).symm
          rw [expect_injA_of_ne lk rk as bs e.kR hne]
        · rw [if_neg h1, if_neg h1]
      | l =>
        show _ = coeff (pathsFrom rk (la :: as) lk) (op :: t) + coeff (pathsFrom rk (lb :: bs) lk) (op :: t)
        rw [coeff_pathsFrom_cons, coeff_pathsFrom_cons]
        -- A part: edges lk → lk carry the extra suffix of B
        have hAsum : (la.map (fun e => if injA lk rk e.kL = SK.l ∧ e.op = op
            then e.c * expect lk rk as bs (injA lk rk e.kR) t else 0)).sum
            = (la.map (fun e => if e.kL = lk ∧ e.op = op then e.c * coeff (pathsFrom rk as e.kR) t else 0)).sum
              + entryCoeff la lk lk op * coeff (pathsFrom rk bs lk) t := by
          rw [entryCoeff, ← sum_map_mul_right'', ← sum_map_add]
          apply sum_congr_map
          intro e _
          simp only [injA_eq_l]
          by_cases h1 : e.kL = lk ∧ e.op = op
          · rw [if_pos h1, if_pos h1]
            by_cases h2 : e.kR = lk
            · have h3 : e.kL = lk ∧ e.kR = lk ∧ e.op = op := ⟨h1.1, h2, h1.2⟩
              rw [if_pos h3, h2]
              have : injA lk rk lk = SK.l := by simp [injA]
              rw [this]
              show e.c * (coeff (pathsFrom rk as lk) t + coeff (pathsFrom rk bs lk) t) = _
              rw [mul_add]
            · have h3 : ¬ (e.kL = lk ∧ e.kR = lk ∧ e.op = op) := fun h => h2 h.2.1
              rw [if_neg h3, zero_mul, add_zero, expect_injA_of_ne lk rk as bs e.kR h2]
          · have h3 : ¬ (e.kL = lk ∧ e.kR = lk ∧ e.op = op) := fun h => h1 ⟨h.1, h.2.2⟩
            rw [if_neg h1, if_neg h1, if_neg h3, zero_mul, add_zero]
        -- B part: all edges lk → (not lk)
        have hBsum : (lb.map (fun e => if e.kL = lk ∧ e.op = op then e.c * coeff (pathsFrom rk bs e.kR) t else 0)).sum
            = entryCoeff lb lk lk op * coeff (pathsFrom rk bs lk) t
              + (lb.map (fun e => if !isLoop lk rk e then (if injB lk rk e.kL = SK.l ∧ e.op = op
                  then e.c * expect lk rk as bs (injB lk rk e.kR) t else 0) else 0)).sum := by
          rw [entryCoeff, ← sum_map_mul_right'', ← sum_map_add]
          apply sum_congr_map
          intro e _
          simp only [injB_eq_l]
          by_cases h1 : e.kL = lk ∧ e.op = op
          · rw [if_pos h1, if_pos h1]
            by_cases h2 : e.kR = lk
            · have h3 : e.kL = lk ∧ e.kR = lk ∧ e.op = op := ⟨h1.1, h2, h1.2⟩
              have hl : isLoop lk rk e = true := by simp [isLoop, h1.1, h2]
              rw [if_pos h3, hl, h2]
              simp
            · have h3 : ¬ (e.kL = lk ∧ e.kR = lk ∧ e.op = op) := fun h => h2 h.2.1
              have hl : isLoop lk rk e = false := by simp [isLoop, h1.1, h2, hlr]
              rw [if_neg h3, hl, zero_mul, zero_add,
                expect_injB_of_ne lk rk as bs e.kR h2 t (ihr t)]
              simp
          · have h3 : ¬ (e.kL = lk ∧ e.kR = lk ∧ e.op = op) := fun h => h1 ⟨h.1, h.2.2⟩
            rw [if_neg h1, if_neg h3, zero_mul, zero_add]
            by_cases hl : isLoop lk rk e <;> simp [hl, h1]
        rw [hAsum, hBsum, (hg.agree op).1, add_assoc]

end TenpyModel.Ops
