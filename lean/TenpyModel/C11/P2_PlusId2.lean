import TenpyModel.C11.P2_PlusId1
/-!
# C11 / `plus_identity` on `N` contiguous sites, symbolic virtual indices (`plus_identity_multi`)

One pair of keys `lk`, `rk` (`IdL`, `IdR`) for all bonds, as in `PlusIdProofs.lean`.  `plusIdLayerF` applies the
seven factors of one site exactly as the code does: the `IdL→IdL` / `IdR→IdR` entries are *replaced* by `d·Id` /
`g·Id`, `a·Id` is added to `IdL→IdR`, all other entries are scaled according to their block.
-/
namespace TenpyModel.Ops
variable {κ α : Type} [DecidableEq κ] [CommSemiring α]

/-- the row functional of one layer: `Σ_{e : k → ·, name op} e.c · R(e.kR)` -/
def rowSum (la : List (Edge κ α)) (k : κ) (op : String) (R : κ → α) : α :=
  (la.map (fun e => if e.kL = k ∧ e.op = op then e.c * R e.kR else 0)).sum

theorem coeff_pathsFrom_cons_rowSum (fin : κ) (la : List (Edge κ α)) (rest : List (List (Edge κ α))) (k : κ)
    (op : String) (t : OpStr) :
    coeff (pathsFrom fin (la :: rest) k) (op :: t) = rowSum la k op (fun x => coeff (pathsFrom fin rest x) t) :=
  coeff_pathsFrom_cons fin la rest k op t

theorem rowSum_append (l1 l2 : List (Edge κ α)) (k : κ) (op : String) (R : κ → α) :
    rowSum (l1 ++ l2) k op R = rowSum l1 k op R + rowSum l2 k op R := by
  simp [rowSum, List.map_append, List.sum_append]

theorem rowSum_nil (k : κ) (op : String) (R : κ → α) : rowSum ([] : List (Edge κ α)) k op R = 0 := rfl

theorem rowSum_cons (e : Edge κ α) (l : List (Edge κ α)) (k : κ) (op : String) (R : κ → α) :
    rowSum (e :: l) k op R = (if e.kL = k ∧ e.op = op then e.c * R e.kR else 0) + rowSum l k op R := by
  simp [rowSum]

/-- factor of a non-loop edge according to its block -/
def pfacOf (lk rk : κ) (F : PFac α) (e : Edge κ α) : α :=
  if e.kL = lk then (if e.kR = rk then F.cLR else F.cLO)
  else (if e.kR = rk then F.cOR else F.cOO)

/-- one site of `plus_identity` with symbolic indices -/
def plusIdLayerF (lk rk : κ) (F : PFac α) (la : List (Edge κ α)) : List (Edge κ α) :=
  [⟨lk, lk, "Id", F.d⟩, ⟨lk, rk, "Id", F.a⟩, ⟨rk, rk, "Id", F.g⟩] ++
    (la.filter (fun e => !isLoop lk rk e)).map (fun e => scaleEdge (pfacOf lk rk F e) e)

/-- `plus_identity(alpha, beta, sites = [s0, …, s0+N-1])` on layers numbered from `k0` -/
def plusIdLayers (lk rk : κ) (beta tb ta : α) (s0 N : Nat) : Nat → List (List (Edge κ α)) → List (List (Edge κ α))
  | _, [] => []
  | k0, la :: as => plusIdLayerF lk rk (siteFac beta tb ta s0 N k0) la :: plusIdLayers lk rk beta tb ta s0 N (k0 + 1) as

theorem rowSum_plusIdLayerF (lk rk : κ) (F : PFac α) (la : List (Edge κ α)) (K : κ) (op : String) (R : κ → α) :
    rowSum (plusIdLayerF lk rk F la) K op R =
      (if lk = K ∧ "Id" = op then F.d * R lk else 0) + ((if lk = K ∧ "Id" = op then F.a * R rk else 0)
        + ((if rk = K ∧ "Id" = op then F.g * R rk else 0)
        + (la.map (fun e => if !isLoop lk rk e then
            (if e.kL = K ∧ e.op = op then (pfacOf lk rk F e * e.c) * R e.kR else 0) else 0)).sum)) := by
  unfold plusIdLayerF
  rw [List.cons_append, List.cons_append, List.cons_append, List.nil_append, rowSum_cons, rowSum_cons, rowSum_cons]
  congr 3
  rw [rowSum, List.map_map, sum_filter_map']
  rfl

/-- the part of the row functional of `IdL` that does not stay in `IdL` -/
def nlSum (lk : κ) (la : List (Edge κ α)) (op : String) (R : κ → α) : α :=
  (la.map (fun e => if e.kL = lk ∧ e.op = op ∧ e.kR ≠ lk then e.c * R e.kR else 0)).sum

theorem rowSum_lk_split (lk : κ) (la : List (Edge κ α)) (op : String) (R : κ → α) :
    rowSum la lk op R = entryCoeff la lk lk op * R lk + nlSum lk la op R := by
  rw [rowSum, entryCoeff, nlSum, ← sum_map_mul_right'', ← sum_map_add]
  apply sum_congr_map
  intro e _
  by_cases h1 : e.kL = lk ∧ e.op = op
  · by_cases h2 : e.kR = lk
    · have h3 : e.kL = lk ∧ e.kR = lk ∧ e.op = op := ⟨h1.1, h2, h1.2⟩
      have h4 : ¬ (e.kL = lk ∧ e.op = op ∧ e.kR ≠ lk) := fun h => h.2.2 h2
      rw [if_pos h1, if_pos h3, if_neg h4, add_zero, h2]
    · have h3 : ¬ (e.kL = lk ∧ e.kR = lk ∧ e.op = op) := fun h => h2 h.2.1
      have h4 : e.kL = lk ∧ e.op = op ∧ e.kR ≠ lk := ⟨h1.1, h1.2, h2⟩
      rw [if_pos h1, if_neg h3, if_pos h4, zero_mul, zero_add]
  · have h3 : ¬ (e.kL = lk ∧ e.kR = lk ∧ e.op = op) := fun h => h1 ⟨h.1, h.2.2⟩
    have h4 : ¬ (e.kL = lk ∧ e.op = op ∧ e.kR ≠ lk) := fun h => h1 ⟨h.1, h.2.1⟩
    rw [if_neg h1, if_neg h3, if_neg h4, zero_mul, zero_add]

end TenpyModel.Ops

namespace TenpyModel.Ops
variable {κ α : Type} [DecidableEq κ] [CommSemiring α]

/-- what is known about the suffix values right of a site: `R'` new automaton, `H` old automaton, `δ'` identity -/
structure SufRel (lk rk : κ) (R' H : κ → α) (δ' G' f' D' A' : α) : Prop where
  hR : R' rk = G' * δ'
  hHr : H rk = δ'
  hO : ∀ x, x ≠ lk → x ≠ rk → R' x = f' * H x
  hL : R' lk = D' * H lk + A' * δ'

/-- one site, from `IdR` -/
theorem plusStep_R (lk rk : κ) (hlr : lk ≠ rk) (F : PFac α) (la : List (Edge κ α)) (hla : StdId lk rk la)
    (R' H : κ → α) (δ' G' f' D' A' G f D A : α) (hs : SufRel lk rk R' H δ' G' f' D' A')
    (hc : FacCompat F G' f' D' A' G f D A) (op : String) :
    rowSum (plusIdLayerF lk rk F la) rk op R' = G * ((if op = "Id" then 1 else 0) * δ') := by
  rw [rowSum_plusIdLayerF]
  have h0 : (la.map (fun e => if !isLoop lk rk e then
      (if e.kL = rk ∧ e.op = op then (pfacOf lk rk F e * e.c) * R' e.kR else 0) else 0)).sum = 0 := by
    apply List.sum_eq_zero
    intro x hx
    obtain ⟨e, he, rfl⟩ := List.mem_map.1 hx
    by_cases h1 : e.kL = rk
    · have h2 := hla.fromR e he h1
      simp [isLoop, h1, h2]
    · simp [h1]
  have hn : ¬ (lk = rk ∧ "Id" = op) := fun h => hlr h.1
  rw [h0, if_neg hn, if_neg hn, zero_add, zero_add, add_zero, hs.hR, ← mul_assoc, hc.hg]
  by_cases h : op = "Id"
  · subst h; simp
  · have : ¬ (rk = rk ∧ "Id" = op) := fun hh => h hh.2.symm
    rw [if_neg this, if_neg h]; simp

/-- one site, from an inner state -/
theorem plusStep_O (lk rk : κ) (F : PFac α) (la : List (Edge κ α)) (hla : StdId lk rk la)
    (R' H : κ → α) (δ' G' f' D' A' G f D A : α) (hs : SufRel lk rk R' H δ' G' f' D' A')
    (hc : FacCompat F G' f' D' A' G f D A) (K : κ) (hK1 : K ≠ lk) (hK2 : K ≠ rk) (op : String) :
    rowSum (plusIdLayerF lk rk F la) K op R' = f * rowSum la K op H := by
  rw [rowSum_plusIdLayerF]
  have hn1 : ¬ (lk = K ∧ "Id" = op) := fun h => hK1 h.1.symm
  have hn2 : ¬ (rk = K ∧ "Id" = op) := fun h => hK2 h.1.symm
  rw [if_neg hn1, if_neg hn1, if_neg hn2, zero_add, zero_add, zero_add, rowSum, ← sum_map_mul_left']
  apply sum_congr_map
  intro e he
  by_cases h1 : e.kL = K ∧ e.op = op
  · have hkl : e.kL ≠ lk := fun h => hK1 (h1.1 ▸ h)
    have hkr : e.kL ≠ rk := fun h => hK2 (h1.1 ▸ h)
    have hnl : isLoop lk rk e = false := by simp [isLoop, hkl, hkr]
    have hR : e.kR ≠ lk := fun h => hkl (hla.intoL e he h)
    rw [hnl, if_pos h1, if_pos h1]
    simp only [Bool.not_false, if_true, pfacOf, if_neg hkl]
    by_cases h2 : e.kR = rk
    · rw [if_pos h2, h2, hs.hR, hs.hHr, ← hc.hOR]; ring
    · rw [if_neg h2, hs.hO e.kR hR h2, ← hc.hOO]; ring
  · rw [if_neg h1, if_neg h1, mul_zero]; simp

/-- the non-loop part of the `IdL` row is multiplied by `D` -/
theorem plus_nlSum (lk rk : κ) (hlr : lk ≠ rk) (F : PFac α) (la : List (Edge κ α))
    (R' H : κ → α) (δ' G' f' D' A' G f D A : α) (hs : SufRel lk rk R' H δ' G' f' D' A')
    (hc : FacCompat F G' f' D' A' G f D A) (op : String) :
    (la.map (fun e => if !isLoop lk rk e then
        (if e.kL = lk ∧ e.op = op then (pfacOf lk rk F e * e.c) * R' e.kR else 0) else 0)).sum
      = D * nlSum lk la op H := by
  rw [nlSum, ← sum_map_mul_left']
  apply sum_congr_map
  intro e _
  by_cases h1 : e.kL = lk ∧ e.op = op
  · by_cases h2 : e.kR = lk
    · have hl : isLoop lk rk e = true := by simp [isLoop, h1.1, h2]
      have h4 : ¬ (e.kL = lk ∧ e.op = op ∧ e.kR ≠ lk) := fun h => h.2.2 h2
      rw [hl, if_neg h4, mul_zero]; simp
    · have hl : isLoop lk rk e = false := by simp [isLoop, h1.1, h2, hlr]
      have h4 : e.kL = lk ∧ e.op = op ∧ e.kR ≠ lk := ⟨h1.1, h1.2, h2⟩
      rw [hl, if_pos h4]
      simp only [Bool.not_false, if_true, if_pos h1, pfacOf, if_pos h1.1]
      by_cases h3 : e.kR = rk
      · rw [if_pos h3, h3, hs.hR, hs.hHr, ← hc.hLR]; ring
      · rw [if_neg h3, hs.hO e.kR h2 h3, ← hc.hLO]; ring
  · have h4 : ¬ (e.kL = lk ∧ e.op = op ∧ e.kR ≠ lk) := fun h => h1 ⟨h.1, h.2.1⟩
    rw [if_neg h1, if_neg h4, mul_zero]; simp

/-- one site, from `IdL` -/
theorem plusStep_L (lk rk : κ) (hlr : lk ≠ rk) (F : PFac α) (la : List (Edge κ α)) (hla : StdId lk rk la)
    (R' H : κ → α) (δ' G' f' D' A' G f D A : α) (hs : SufRel lk rk R' H δ' G' f' D' A')
    (hc : FacCompat F G' f' D' A' G f D A) (op : String) :
    rowSum (plusIdLayerF lk rk F la) lk op R'
      = D * rowSum la lk op H + A * ((if op = "Id" then 1 else 0) * δ') := by
  rw [rowSum_plusIdLayerF, plus_nlSum lk rk hlr F la R' H δ' G' f' D' A' G f D A hs hc op,
    rowSum_lk_split, hla.idL op]
  have hn : ¬ (rk = lk ∧ "Id" = op) := fun h => hlr h.1.symm
  rw [if_neg hn, zero_add, hs.hL, hs.hR, ← hc.hA, ← hc.hd]
  by_cases h : op = "Id"
  · subst h
    simp only [and_self, if_true]
    ring
  · have : ¬ (lk = lk ∧ "Id" = op) := fun hh => h hh.2.symm
    rw [if_neg this, if_neg this, if_neg h]; ring

end TenpyModel.Ops

namespace TenpyModel.Ops
variable {κ α : Type} [DecidableEq κ] [CommSemiring α]

/-- the suffix-sum invariant of `plus_identity` on the block `[s0, s0+N)`, layers numbered from `k0` -/
theorem plus_identity_suffix (lk rk : κ) (hlr : lk ≠ rk) (beta tb ta : α) (s0 N : Nat) (hN : 1 ≤ N)
    (hb : tb ^ N = beta) (as : List (List (Edge κ α))) (h : ∀ la ∈ as, StdId lk rk la) (k0 : Nat)
    (hend : s0 + N ≤ k0 + as.length) :
    (∀ t, coeff (pathsFrom rk (plusIdLayers lk rk beta tb ta s0 N k0 as) rk) t
        = sufG beta s0 k0 * coeff [(idStr as.length, (1 : α))] t) ∧
    (∀ k, k ≠ lk → k ≠ rk → ∀ t, coeff (pathsFrom rk (plusIdLayers lk rk beta tb ta s0 N k0 as) k) t
        = sufF tb s0 N k0 * coeff (pathsFrom rk as k) t) ∧
    (∀ t, coeff (pathsFrom rk (plusIdLayers lk rk beta tb ta s0 N k0 as) lk) t
        = sufD beta s0 N k0 * coeff (pathsFrom rk as lk) t
          + sufA ta s0 N k0 * coeff [(idStr as.length, (1 : α))] t) := by
  induction as generalizing k0 with
  | nil =>
    obtain ⟨e1, e2, e3, e4⟩ := suf_end beta tb ta s0 N k0 hN (by simpa using hend)
    rw [e1, e2, e3, e4]
    refine ⟨fun t => ?_, fun k hk1 hk2 t => ?_, fun t => ?_⟩
    · simp [plusIdLayers, idStr]
    · simp [plusIdLayers, hk2]
    · simp [plusIdLayers, hlr]
  | cons la as ih =>
    have hla := h la List.mem_cons_self
    have has : ∀ l ∈ as, StdId lk rk l := fun l hl => h l (List.mem_cons_of_mem _ hl)
    obtain ⟨ihR, ihO, ihL⟩ := ih has (k0 + 1) (by simp only [List.length_cons] at hend; omega)
    have hHr := (ui_first_order lk rk hlr as has).1
    have hc := siteFac_compat beta tb ta s0 N hN hb k0
    have hs : ∀ t, SufRel lk rk (fun x => coeff (pathsFrom rk (plusIdLayers lk rk beta tb ta s0 N (k0 + 1) as) x) t)
        (fun x => coeff (pathsFrom rk as x) t) (coeff [(idStr as.length, (1 : α))] t)
        (sufG beta s0 (k0 + 1)) (sufF tb s0 N (k0 + 1)) (sufD beta s0 N (k0 + 1)) (sufA ta s0 N (k0 + 1)) :=
      fun t => ⟨ihR t, hHr t, fun x hx1 hx2 => ihO x hx1 hx2 t, ihL t⟩
    have hdef : plusIdLayers lk rk beta tb ta s0 N k0 (la :: as)
        = plusIdLayerF lk rk (siteFac beta tb ta s0 N k0) la :: plusIdLayers lk rk beta tb ta s0 N (k0 + 1) as := rfl
    rw [hdef]
    refine ⟨fun t => ?_, fun k hk1 hk2 t => ?_, fun t => ?_⟩
    · cases t with
      | nil => rw [coeff_pathsFrom_cons_nil, List.length_cons, coeff_idStr_nil, mul_zero]
      | cons op t =>
        rw [coeff_pathsFrom_cons_rowSum, List.length_cons, coeff_idStr_cons]
        exact plusStep_R lk rk hlr _ la hla _ _ _ _ _ _ _ _ _ _ _ (hs t) hc op
    · cases t with
      | nil => rw [coeff_pathsFrom_cons_nil, coeff_pathsFrom_cons_nil, mul_zero]
      | cons op t =>
        rw [coeff_pathsFrom_cons_rowSum, coeff_pathsFrom_cons_rowSum]
        exact plusStep_O lk rk _ la hla _ _ _ _ _ _ _ _ _ _ _ (hs t) hc k hk1 hk2 op
    · cases t with
      | nil =>
        rw [coeff_pathsFrom_cons_nil, coeff_pathsFrom_cons_nil, List.length_cons, coeff_idStr_nil, mul_zero,
          mul_zero, add_zero]
      | cons op t =>
        rw [coeff_pathsFrom_cons_rowSum, coeff_pathsFrom_cons_rowSum, List.length_cons, coeff_idStr_cons]
        exact plusStep_L lk rk hlr _ la hla _ _ _ _ _ _ _ _ _ _ _ (hs t) hc op

/-- **`plus_identity` on `N ≥ 1` contiguous sites, symbolic virtual indices**: with the factors of the code
(`siteFac`: `b^counter`, `b^N`, `b`, `b^(N-counter+1)`, `d`, `g`, `+ a·Id`) on the sites `s0 … s0+N-1` of an MPO in
standard form the denoted operator is `beta·H + alpha·1`, for `tb^N = beta`, `N·ta = alpha`. -/
theorem plus_identity_multi (lk rk : κ) (hlr : lk ≠ rk) (alpha beta tb ta : α) (s0 N : Nat) (hN : 1 ≤ N)
    (hb : tb ^ N = beta) (ha : (N : α) * ta = alpha) (as : List (List (Edge κ α)))
    (h : ∀ la ∈ as, StdId lk rk la) (hend : s0 + N ≤ as.length) (t : OpStr) :
    coeff (pathsFrom rk (plusIdLayers lk rk beta tb ta s0 N 0 as) lk) t
      = beta * coeff (pathsFrom rk as lk) t + coeff [(idStr as.length, alpha)] t := by
  rw [(plus_identity_suffix lk rk hlr beta tb ta s0 N hN hb as h 0 (by omega)).2.2 t,
    (suf_start beta ta s0 N hN).1, (suf_start beta ta s0 N hN).2, ha, coeff_single_scale (idStr as.length) alpha]

end TenpyModel.Ops
